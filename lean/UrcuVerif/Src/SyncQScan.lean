import UrcuVerif.Src.SyncQRefine
/-!
# QSBR: `urcu_qsbr_reader_state`, the scan loop, `wait_gp`, `wait_for_readers` and the grace period of
`urcu_qsbr_synchronize_rcu` refine the updater of `Gp/Qsbr.lean`

Same method as `Src/SyncScan.lean` / `SyncGp.lean` / `SyncSync.lean`: the generated values are equal (`rfl`) to templates, the
proofs are about the templates.
-/
set_option maxRecDepth 8192
set_option linter.unusedSimpArgs false
set_option linter.unusedVariables false
namespace UrcuVerif.Src.SyncQ
open UrcuVerif UrcuVerif.Src UrcuVerif.Gen.Src UrcuVerif.Src.Sync

open Lean.Parser.Tactic in
macro "exec_simp" "[" ts:simpLemma,* "]" : tactic =>
  `(tactic| simp [block, exec, iterate, eval, evalArgs, execPrim, bind, Except.bind, asLoc, Env.setVar, Env.setPriv,
      bindParams, setDst, evalUn, evalBin, boolV, Val.truthy, $ts,*])
open Lean.Parser.Tactic in
macro "exec_simp_at" h:ident "[" ts:simpLemma,* "]" : tactic =>
  `(tactic| simp [block, exec, iterate, eval, evalArgs, execPrim, bind, Except.bind, asLoc, Env.setVar, Env.setPriv,
      bindParams, setDst, evalUn, evalBin, boolV, Val.truthy, $ts,*] at $h:ident)
open Lean.Parser.Tactic in
macro "abs_simp" "[" ts:simpLemma,* "]" : tactic =>
  `(tactic| simp [Ok_cons, Ok_nil_iff, absEv, absExt, inList, curOK, lrun, lstep, registry, curSnap, qsr, gpCtrQ,
      gpFutexQ, regLock, mem_rm, $ts,*])

/-! ## template -/

def qRsCall : Stmt :=
  .call (some "_t4") ["ctr", "group"] [.fieldAddr (.var "index") "ctr", .var "group"] «urcu_qsbr_reader_state»
def qMvSnap : Stmt := .prim none (.ext "cds_list_move") [.fieldAddr (.var "index") "node", .var "cur_snap_readers"]
def qMvQs : Stmt := .prim none (.ext "cds_list_move") [.fieldAddr (.var "index") "node", .var "qsreaders"]
def qSwitch : Stmt :=
  .loop (block [
    (.ifte (.bin .eq (.var "_t5") (.cst "URCU_READER_ACTIVE_CURRENT" (0)))
      (block [(.ifte (.var "cur_snap_readers") (block [qMvSnap, (.brk)]) (.skip)), qMvQs, (.brk)])
      (.ifte (.bin .eq (.var "_t5") (.cst "URCU_READER_INACTIVE" (2))) (block [qMvQs, (.brk)])
        (.ifte (.bin .eq (.var "_t5") (.cst "URCU_READER_ACTIVE_OLD" (1))) (.brk) (.skip)))),
    (.brk)])
def qScanRest : Stmt := block [(.assign "tmp" (.var "_t3")), qRsCall, (.assign "_t5" (.var "_t4")), qSwitch]
def qScanBody : Stmt :=
  block [(.assign "index" (.var "_t3")),
    (.ifte (.var "index") (.skip) (.brk)),
    (.prim (some "_t3") (.ext "cds_list_for_each_entry_safe.next") ([.var "input_readers"] ++ [.var "index"])),
    qScanRest]
/-- `cds_list_for_each_entry(index, input_readers, node) _CMM_STORE_SHARED(index->waiting, 1);` -/
def qWaitingBody : Stmt :=
  block [(.assign "index" (.var "_t2")), (.ifte (.var "index") (.skip) (.brk)),
    (.prim (some "_t2") (.ext "cds_list_for_each_entry.next") ([.var "input_readers"] ++ [.var "index"])),
    (.prim none .ustore [.fieldAddr (.var "index") "waiting", .lit 1, .cst "CMM_RELAXED" (0)])]
def qAnnounce : Stmt :=
  block [(.prim none .ustore [.fieldAddr (.addrGlob "urcu_qsbr_gp") "futex", .lit (-1), .cst "CMM_RELAXED" (0)]),
    (.prim none .wmb []),
    (.prim (some "_t2") (.ext "cds_list_for_each_entry.first") [.var "input_readers"]),
    (.loop qWaitingBody), (.prim none .mb [])]
def qA : Stmt :=
  .ifte (.bin .lt (.var "wait_loops") (.cst "qsbr.RCU_QS_ACTIVE_ATTEMPTS" (100)))
    (block [(.assign "_t1" (.var "wait_loops")), (.assign "wait_loops" (.bin .add (.var "wait_loops") (.lit 1)))]) (.skip)
def qB : Stmt := .ifte (.bin .ge (.var "wait_loops") (.cst "qsbr.RCU_QS_ACTIVE_ATTEMPTS" (100))) qAnnounce (.skip)
def qFirst : Stmt := .prim (some "_t3") (.ext "cds_list_for_each_entry_safe.first") [.var "input_readers"]
def qEmpty : Stmt := .prim (some "_t6") (.ext "cds_list_empty") [.var "input_readers"]
def qReset : Stmt := .prim none .ustore [.fieldAddr (.addrGlob "urcu_qsbr_gp") "futex", .lit 0, .cst "CMM_RELEASE" (3)]
def qUnlock : Stmt := .prim none (.ext "mutex_unlock") [.addrGlob "rcu_registry_lock"]
def qLock : Stmt := .prim none (.ext "mutex_lock") [.addrGlob "rcu_registry_lock"]
def qTail (waitgp : Stmt) : Stmt :=
  .ifte (.var "_t6")
    (block [(.ifte (.bin .ge (.var "wait_loops") (.cst "qsbr.RCU_QS_ACTIVE_ATTEMPTS" (100))) qReset (.skip)), (.brk)])
    (block [qUnlock,
      (.ifte (.bin .ge (.var "wait_loops") (.cst "qsbr.RCU_QS_ACTIVE_ATTEMPTS" (100))) (.call none [] [] waitgp)
        (.prim none .relax [])),
      qLock])
def wfrBodyQ (waitgp : Stmt) : Stmt := block [qA, qB, qFirst, (.loop qScanBody), qEmpty, qTail waitgp]
def wfrQ (waitgp : Stmt) : Stmt := block [(.assign "wait_loops" (.lit 0)), (.loop (wfrBodyQ waitgp))]

theorem qsbr_wfr_eq : «qsbr.wait_for_readers» = wfrQ «qsbr.wait_gp» := rfl

/-! ## `urcu_qsbr_reader_state` -/

/-- the function's answer on the loaded word `v`, `c` = plain-read `urcu_qsbr_gp.ctr`: INACTIVE (2) iff `v = 0`,
ACTIVE_CURRENT (0) iff `v = c`, ACTIVE_OLD (1) otherwise -/
def clsQ (c : Int) (v : Val) : Int := if v = .int 0 then 2 else if v = .int c then 0 else 1

theorem truthy_false_iff (v : Val) : v.truthy = false ↔ v = .int 0 := by
  cases v <;> simp [Val.truthy]

theorem qrs_cons (fuel : Nat) (env : Env) (v : Val) (rest : List Val) (j : Nat) (gv : Val) (c : Int)
    (hi : env.vars "index" = some (.ptr (.obj j))) (hg : env.vars "group" = some gv)
    (hp : env.priv gpCtrQ = some (.int c)) :
    exec fuel qRsCall env (v :: rest) =
      .ok { events := [.ld (.field (.obj j) "ctr") v 0], env := env.setVar "_t4" (.int (clsQ c v)), inp := rest,
            ctl := .normal } := by
  simp only [gpCtrQ] at hp
  by_cases h0 : v = .int 0
  · subst h0
    simp [qRsCall, «urcu_qsbr_reader_state», block, exec, eval, evalArgs, execPrim, bind, Except.bind, asLoc, Env.setVar,
      bindParams, setDst, evalUn, Val.truthy, hi, hg, hp, clsQ]
  · have ht : v.truthy = true := by
      cases hh : v.truthy
      · exact absurd ((truthy_false_iff v).1 hh) h0
      · rfl
    by_cases h1 : v = .int c
    · subst h1
      have hc0 : c ≠ 0 := fun h => h0 (by rw [h])
      simp [qRsCall, «urcu_qsbr_reader_state», block, exec, eval, evalArgs, execPrim, bind, Except.bind, asLoc, Env.setVar,
        bindParams, setDst, evalUn, hi, hg, hp, clsQ, hc0, evalBin, boolV, Val.truthy]
    · simp [qRsCall, «urcu_qsbr_reader_state», block, exec, eval, evalArgs, execPrim, bind, Except.bind, asLoc, Env.setVar,
        bindParams, setDst, evalUn, ht, hi, hg, hp, clsQ, h0, h1, evalBin, boolV, truthy_int]

theorem qrs_nil (fuel : Nat) (env : Env) (j : Nat) (gv : Val)
    (hi : env.vars "index" = some (.ptr (.obj j))) (hg : env.vars "group" = some gv) :
    exec fuel qRsCall env [] =
      .ok { events := [], env := { vars := bindParams ["ctr", "group"] [.ptr (.field (.obj j) "ctr"), gv],
                                   priv := env.priv }, inp := [], ctl := .blocked } := by
  simp [qRsCall, «urcu_qsbr_reader_state», block, exec, eval, evalArgs, execPrim, bind, Except.bind, asLoc, Env.setVar,
      bindParams, setDst, evalUn, Val.truthy, hi, hg]

/-- `urcu_qsbr_reader_state(ctr, group)` on its own -/
theorem qsbr_reader_state_exec (fuel : Nat) (env : Env) (C : Loc) (c : Int) (v : Val) (rest : List Val)
    (hc : env.vars "ctr" = some (.ptr C)) (hp : env.priv gpCtrQ = some (.int c)) :
    ∃ out, exec fuel «urcu_qsbr_reader_state» env (v :: rest) = .ok out ∧
      out.events = [.ld C v 0] ∧ out.ctl = .ret (some (.int (clsQ c v))) ∧ out.inp = rest ∧ out.env.priv = env.priv := by
  simp only [gpCtrQ] at hp
  by_cases h0 : v = .int 0
  · subst h0
    simp [«urcu_qsbr_reader_state», block, exec, eval, evalArgs, execPrim, bind, Except.bind, asLoc, Env.setVar,
      setDst, evalUn, Val.truthy, hc, hp, clsQ]
  · have ht : v.truthy = true := by
      cases hh : v.truthy
      · exact absurd ((truthy_false_iff v).1 hh) h0
      · rfl
    by_cases h1 : v = .int c
    · subst h1
      have hc0 : c ≠ 0 := fun h => h0 (by rw [h])
      simp [«urcu_qsbr_reader_state», block, exec, eval, evalArgs, execPrim, bind, Except.bind, asLoc, Env.setVar,
        setDst, evalUn, hc, hp, clsQ, hc0, evalBin, boolV, Val.truthy]
    · simp [«urcu_qsbr_reader_state», block, exec, eval, evalArgs, execPrim, bind, Except.bind, asLoc, Env.setVar,
        setDst, evalUn, ht, hc, hp, clsQ, h0, h1, evalBin, boolV, truthy_int]

/-! ## the switch (`cur_snap_readers = NULL`) -/

theorem qswitch_old (n : Nat) (env : Env) (inp : List Val) (h5 : env.vars "_t5" = some (.int 1)) :
    exec (n+1) qSwitch env inp = .ok { events := [], env := env, inp := inp, ctl := .normal } := by
  exec_simp [qSwitch, h5]

theorem qswitch_move (n : Nat) (env : Env) (inp : List Val) (c : Int) (k : Nat)
    (hc : c = 0 ∨ c = 2) (h5 : env.vars "_t5" = some (.int c)) (hi : env.vars "index" = some (.ptr (.obj k)))
    (hcs : env.vars "cur_snap_readers" = some (.int 0)) (hq : env.vars "qsreaders" = some (.ptr qsr)) :
    exec (n+1) qSwitch env inp =
      match inp with
      | [] => .ok { events := [], env := env, inp := [], ctl := .blocked }
      | r :: rest => .ok { events := [.ext "cds_list_move" [.ptr (.field (.obj k) "node"), .ptr qsr] r],
                           env := env, inp := rest, ctl := .normal } := by
  rcases hc with rfl | rfl <;> cases inp <;> exec_simp [qSwitch, qMvSnap, qMvQs, h5, hi, hcs, hq]

end UrcuVerif.Src.SyncQ
