import UrcuVerif.Wfq.Model
import UrcuVerif.Gen.Src
import UrcuVerif.Src.StackExec
/-!
# Legacy wait-free queue `cds_wfq` (`include/urcu/static/wfqueue.h`): `_cds_wfq_enqueue` ⊑ local projection of `Wfq`

Local part of thread `t` = `pc t`.  Local labels (with values): `fence` (`cmm_emit_legacy_smp_mb()`: L2's `fence t`,
guard "store buffer empty"), `enqXchg n old` (`xchg(&q->tail, &n->next)` returned `&old->next`), `redoX old` (the
same `xchg` when the node is the queue's dummy: L2's `redo t`, which folds the dummy's re-initialisation into it),
`stIssue old n` (release store `*old_tail = n`), `ret` (function return: L2's `ret t`).  The dequeue side
(`callDeq`, `q1`, `sync`) is not translated (only `_cds_wfq_enqueue` is in `Gen/Src.lean`).

Encoding: a node is a location – `Loc.obj k` (`3 ≤ k`) ↦ `k`, `&q->dummy` = `Loc.field (Loc.obj q) "dummy"` ↦ `D` = 1;
`q->tail` holds `&node->next` = `Val.ptr (Loc.field node "next")`.
-/
namespace UrcuVerif.Src.WfqL
open UrcuVerif UrcuVerif.Src

abbrev LState := Wfq.Pc

inductive LLabel
  | fence
  | enqXchg (n old : Nat)
  | redoX (old : Nat)
  | stIssue (old n : Nat)
  | ret
  | bad
  deriving DecidableEq, Repr

def lstep (ls : LState) : LLabel → Option LState
  | .fence => some ls
  | .enqXchg n old => if ls = .idle then some (.enq old n false) else none
  | .redoX old => if ls = .redo then some (.enq old Wfq.D true) else none
  | .stIssue old n =>
    match ls with
    | .enq o m dq => if o = old ∧ m = n then some (if dq then .q1 else .done .unit) else none
    | _ => none
  | .ret =>
    match ls with
    | .done _ => some .idle
    | _ => none
  | .bad => none

def lrun : LState → List LLabel → Option LState
  | ls, [] => some ls
  | ls, l :: r => match lstep ls l with
    | some ls' => lrun ls' r
    | none => none

def proj (s : Wfq.State) (t : Nat) : LState := s.pc t

def toL2 (t : Nat) : LLabel → Option Wfq.Label
  | .fence => some (.fence t)
  | .enqXchg n _ => some (.enqXchg t n)
  | .redoX _ => some (.redo t)
  | .stIssue _ _ => some (.stIssue t)
  | .ret => some (.ret t)
  | .bad => none

def Obs (s : Wfq.State) (_ : Nat) : LLabel → Prop
  | .enqXchg _ old => old = s.tail
  | .redoX old => old = s.tail
  | _ => True

def Guard (s : Wfq.State) (t : Nat) : LLabel → Prop
  | .fence => s.buf t = []
  | .enqXchg n _ => 3 ≤ n ∧ s.inq n = false ∧ s.wr n = none ∧ s.buf t = []
  | .redoX _ => s.buf t = []
  | .bad => False
  | _ => True

theorem lift_step (s : Wfq.State) (t : Nat) (l : LLabel) (L : Wfq.Label) (ls' : LState)
    (hL : toL2 t l = some L) (ho : Obs s t l) (hg : Guard s t l) (h : lstep (proj s t) l = some ls') :
    ∃ s', Wfq.step s L = some s' ∧ proj s' t = ls' := by
  cases l <;> simp only [toL2, Option.some.injEq, reduceCtorEq] at hL <;> subst hL <;>
    simp only [Obs] at ho <;> simp only [Guard] at hg <;> unfold proj at h <;> simp only [lstep] at h
  case fence => simp only [Option.some.injEq] at h; subst h; simp [Wfq.step, hg, proj]
  case enqXchg n old =>
    simp only [Option.ite_none_right_eq_some, Option.some.injEq] at h; obtain ⟨hpc, rfl⟩ := h; subst ho
    simp [Wfq.step, Wfq.appendX, proj, *]
  case redoX old =>
    simp only [Option.ite_none_right_eq_some, Option.some.injEq] at h; obtain ⟨hpc, rfl⟩ := h; subst ho
    simp [Wfq.step, Wfq.appendX, proj, *]
  case stIssue old n =>
    split at h <;> try simp only [reduceCtorEq] at h
    rename_i o m dq hpc
    simp only [Option.ite_none_right_eq_some, Option.some.injEq] at h; obtain ⟨⟨rfl, rfl⟩, rfl⟩ := h
    simp [Wfq.step, Wfq.issue, proj, hpc]
  case ret =>
    split at h <;> simp only [Option.some.injEq, reduceCtorEq] at h; subst h
    rename_i r hpc
    simp [Wfq.step, Wfq.setPc, proj, hpc]

theorem proj_step (s s' : Wfq.State) (t : Nat) (L : Wfq.Label)
    (hL : ∃ l0, toL2 t l0 = some L) (h : Wfq.step s L = some s') :
    ∃ l, toL2 t l = some L ∧ Obs s t l ∧ Guard s t l ∧ lstep (proj s t) l = some (proj s' t) := by
  obtain ⟨l0, hl0⟩ := hL
  cases l0 <;> simp only [toL2, Option.some.injEq, reduceCtorEq] at hl0 <;> subst hl0 <;>
    simp only [Wfq.step] at h
  case fence =>
    split at h <;> simp only [Option.some.injEq, reduceCtorEq] at h; subst h
    rename_i hb
    exact ⟨.fence, rfl, trivial, hb, rfl⟩
  case enqXchg n _ =>
    split at h <;> simp only [Option.some.injEq, reduceCtorEq] at h; subst h
    rename_i hg
    exact ⟨.enqXchg n s.tail, rfl, rfl, hg.2, by simp [lstep, proj, Wfq.appendX, hg.1]⟩
  case redoX _ =>
    split at h <;> try simp only [reduceCtorEq] at h
    rename_i hpc
    split at h <;> simp only [Option.some.injEq, reduceCtorEq] at h; subst h
    rename_i hb
    exact ⟨.redoX s.tail, rfl, rfl, hb, by simp [lstep, proj, Wfq.appendX, hpc]⟩
  case stIssue =>
    split at h <;> simp only [Option.some.injEq, reduceCtorEq] at h; subst h
    rename_i o m dq hpc
    exact ⟨.stIssue o m, rfl, trivial, trivial, by simp [lstep, proj, hpc]⟩
  case ret =>
    split at h <;> simp only [Option.some.injEq, reduceCtorEq] at h; subst h
    rename_i r hpc
    exact ⟨.ret, rfl, trivial, trivial, by simp [lstep, proj, Wfq.setPc, hpc]⟩

/-- frame: labels of other threads leave `pc t` unchanged -/
theorem frame (s s' : Wfq.State) (t : Nat) (L : Wfq.Label)
    (ht : L.tid ≠ t) (h : Wfq.step s L = some s') : proj s' t = proj s t := by
  have ht' : t ≠ L.tid := Ne.symm ht
  cases L <;> simp only [Wfq.Label.tid] at ht' <;>
    simp only [Wfq.step] at h <;> (repeat' split at h) <;>
    simp only [Option.some.injEq, reduceCtorEq] at h <;> subst h <;>
    simp [proj, Wfq.appendX, Wfq.setPc, upd, ht']

/-- the thread's own environment labels: buffer drain and the dequeue lock keep `pc t` -/
theorem frame_own (s s' : Wfq.State) (t : Nat) (L : Wfq.Label)
    (hL : L = .flush t ∨ L = .acquire t ∨ L = .release t)
    (h : Wfq.step s L = some s') : proj s' t = proj s t := by
  rcases hL with rfl | rfl | rfl <;> simp only [Wfq.step] at h <;> (repeat' split at h) <;>
    simp only [Option.some.injEq, reduceCtorEq] at h <;> subst h <;> rfl

end UrcuVerif.Src.WfqL

-- ==========================================================================================================
namespace UrcuVerif.Src.WfqR
open UrcuVerif UrcuVerif.Src WfqL

/-- node locations of queue `q` -/
def decNode (q : Nat) : Loc → Option Nat
  | .obj k => if 3 ≤ k then some k else none
  | .field (.obj q') f => if q' = q ∧ f = "dummy" then some Wfq.D else none
  | _ => none

/-- values of `q->tail`: `&node->next` -/
def decTail (q : Nat) : Val → Option Nat
  | .ptr (.field l f) => if f = "next" then decNode q l else none
  | _ => none

/-- `xchg q->tail` ↦ `enqXchg` / `redoX` (new value `&dummy.next`); `st node->next := node'` ↦ `stIssue`; the legacy
`mb` ↦ L2's `fence` (it has a guard in `Wfq`: empty store buffer); other fences have no label -/
def absEv (q : Nat) : Event → List LLabel
  | .fence p => if p = .mb then [.fence] else []
  | .xchg l new old mo =>
    if l = .field (.obj q) "tail" ∧ 5 ≤ mo then
      match decTail q new, decTail q old with
      | some n, some o => if n = Wfq.D then [.redoX o] else [.enqXchg n o]
      | _, _ => [.bad]
    else [.bad]
  | .st (.field l f) (.ptr ln) mo =>
    if f = "next" ∧ 3 ≤ mo then
      match decNode q l, decNode q ln with
      | some o, some n => [.stIssue o n]
      | _, _ => [.bad]
    else [.bad]
  | _ => [.bad]

def lr (q : Nat) (ls : LState) (evs : List Event) : Option LState := lrun ls (evs.flatMap (absEv q))

/-- `_cds_wfq_enqueue(q, node)` for a node location `ln` of the queue (`decNode q ln = some n`): from `idle` for a
regular node (`3 ≤ n`), from `redo` for the dummy re-enqueue inside dequeue.  The function returns `void`: the run
ends `normal` with L2 at `done unit` (regular node; L2's `ret t` is the return) resp. back in dequeue at `q1`. -/
theorem enqueue_refines (fuel : Nat) (env : Env) (inp : List Val) (q n : Nat) (ln : Loc) (cfg : Int) (ls : LState)
    (hq : env.vars "q" = some (.ptr (.obj q))) (hn : env.vars "node" = some (.ptr ln))
    (hln : decNode q ln = some n)
    (hcfg : env.priv (.glob "CONFIG_RCU_EMIT_LEGACY_MB") = some (.int cfg))
    (hpc : ls = if n = Wfq.D then .redo else .idle)
    (hinp : ∀ v ∈ inp, (decTail q v).isSome) :
    ∃ out, exec fuel Gen.Src.«_cds_wfq_enqueue» env inp = .ok out ∧
      ∃ ls', lr q ls out.events = some ls' ∧
        (out.ctl = .blocked ∨ (out.ctl = .normal ∧ ls' = if n = Wfq.D then .q1 else .done .unit)) := by
  have htl : decTail q (.ptr (ln.field "next")) = some n := by simp [decTail, hln]
  cases inp with
  | nil =>
    by_cases hc : cfg = 0 <;> sexec [Gen.Src.«_cds_wfq_enqueue»] <;> simp [lr, absEv, lrun, lstep]
  | cons v rest =>
    obtain ⟨o, ho⟩ := Option.isSome_iff_exists.mp (hinp v (by simp))
    -- the observed tail value is `&lo->next`
    obtain ⟨lo, rfl, hlo⟩ : ∃ lo, v = .ptr (lo.field "next") ∧ decNode q lo = some o := by
      cases v with
      | int i => simp [decTail] at ho
      | ptr l =>
        cases l with
        | field b f =>
          simp only [decTail] at ho
          split at ho
          · rename_i hf; subst hf; exact ⟨b, rfl, ho⟩
          · cases ho
        | _ => simp [decTail] at ho
    by_cases hc : cfg = 0 <;> by_cases hD : n = Wfq.D <;>
      sexec [Gen.Src.«_cds_wfq_enqueue»] <;>
      simp [lr, absEv, lrun, lstep, htl, ho, hlo, hln, hD]

end UrcuVerif.Src.WfqR
