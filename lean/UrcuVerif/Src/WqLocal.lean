import UrcuVerif.Wq.Model
import UrcuVerif.Src.IR
/-!
# Thread-local projections of the L2 work-queue model (`Wq/Model.lean`)

Two deterministic local automata whose labels are **accesses of the source text with the values they observe**:

* `tstep` – an application thread `t` (state = L2's `tpc t`): `urcu_workqueue_queue_work` (after the entry label
  `qCall`/`qcInc`), the wake path `wake_worker_thread`, `urcu_workqueue_pause_worker`, `urcu_workqueue_resume_worker`,
  the first access of `urcu_workqueue_destroy`, and `urcu_workqueue_wait_completion` (automaton and lift / projection
  only: no source theorem yet);
* `wstep` – the worker thread (state `WLState`: a pc that refines L2's `wpc` by the position inside the
  `__cds_wfcq_for_each_blocking_safe` traversal of the private list, and `cnt` = `cbcount`).

`tL2` / `wL2` give the L2 label(s) an access stands for at a pc (none: a stutter step, e.g. a poll-loop load that does
not see the awaited flag; the accesses inside the wfcqueue that L2 abstracts).  Proved against the real `Wq.step`:

* `tproj_lift` : a local step whose observed values are the stated functions of the global state (`tObs`) and whose
  global guard holds (`tGuard`) *is* the enabled L2 step(s), and the successor projects to the local successor;
* `tproj_step` : conversely an L2 step of thread `t` is the local step, with the observed values;
* `tframe`     : every label that is not thread `t`'s own leaves `tpc t` unchanged, except `fork u` (the child has only
  the forking thread) and `cWake` (the worker's FUTEX_WAKE moves the sleeping waiter of the completion from `wcAsleep`
  to `wcWaitLd`: `tframe_cWake`);
* `wframe` : labels of the application threads and of the memory system leave the worker's `wpc` and `cnt` unchanged; only
  `wake t` of a waker (sleeping worker → `waitLd`: `wframe_wake`), `fork` and `createWorker` touch the worker's pc.
  (The lift lemmas of the worker's automaton against `Wq.step` – `wproj_lift`, `wproj_lift_run`, `wproj_run_begin`,
  `wproj_run_end`, with the queue oracle discipline stated against `Wq.State` – are in `Src/WqWorkerLift.lean`; the
  properties of the automaton itself are `wstep_paused_quiescent`, `wstep_run`.)
-/
set_option linter.unusedSimpArgs false
set_option linter.unusedVariables false
namespace UrcuVerif.Src.WqL
open UrcuVerif UrcuVerif.Wq

/-- the word `workqueue->flags` as a function of the L2 state (`URCU_WORKQUEUE_RT` 1, `STOP` 2, `PAUSE` 4, `PAUSED` 8) -/
def flagsWord (c : Cfg) (s : State) : Nat :=
  (if c.rt = true then 1 else 0) + (if s.stop = true then 2 else 0) + (if s.pause = true then 4 else 0) +
    (if s.paused = true then 8 else 0)

/-- `f & m` is non-zero -/
def bit (f m : Nat) : Bool := f &&& m != 0

theorem bit_rt (c : Cfg) (s : State) : bit (flagsWord c s) 1 = c.rt := by
  unfold bit flagsWord
  cases c.rt <;> cases s.stop <;> cases s.pause <;> cases s.paused <;> rfl
theorem bit_stop (c : Cfg) (s : State) : bit (flagsWord c s) 2 = s.stop := by
  unfold bit flagsWord
  cases c.rt <;> cases s.stop <;> cases s.pause <;> cases s.paused <;> rfl
theorem bit_pause (c : Cfg) (s : State) : bit (flagsWord c s) 4 = s.pause := by
  unfold bit flagsWord
  cases c.rt <;> cases s.stop <;> cases s.pause <;> cases s.paused <;> rfl
theorem bit_paused (c : Cfg) (s : State) : bit (flagsWord c s) 8 = s.paused := by
  unfold bit flagsWord
  cases c.rt <;> cases s.stop <;> cases s.pause <;> cases s.paused <;> rfl

def run2 (c : Cfg) : State → List Label → Option State := Wq.run c

-- ==========================================================================================================
/-! ## application threads -/

inductive TLabel
  | xchgTail (id : Nat)      -- `uatomic_xchg(&workqueue->cbs_tail.p, &work->next)`, `work` = work item `id`
  | incQlen                  -- `uatomic_inc(&workqueue->qlen)`
  | ldFl (f : Nat)           -- load of `workqueue->flags` saw `f`
  | ldFutex (v : Int)        -- load of `workqueue->futex` saw `v`
  | stFutex                  -- `uatomic_store(&workqueue->futex, 0)`
  | wake                     -- `futex(&workqueue->futex, FUTEX_WAKE, 1)`
  | setPause                 -- `uatomic_or(&workqueue->flags, URCU_WORKQUEUE_PAUSE)`
  | clrPause                 -- `uatomic_and(&workqueue->flags, ~URCU_WORKQUEUE_PAUSE)`
  | setStop                  -- `uatomic_or(&workqueue->flags, URCU_WORKQUEUE_STOP)`
  | cDecFutex                -- `uatomic_dec(&completion->futex)`
  | cLdCount (v : Int)       -- load of `completion->barrier_count` saw `v`
  | cLdFutex (v : Int)       -- load of `completion->futex` saw `v`
  | cWaitSleep               -- `futex(&completion->futex, FUTEX_WAIT, -1)` returned 0: slept (or spurious) and was woken
  | cWaitEagain              -- … failed with EAGAIN
  | cWaitEintr               -- … failed with EINTR
  | bad                      -- an event that has no place in the protocol / an ill-typed value
  deriving DecidableEq, Repr

/-- local automaton of an application thread: state = L2's `tpc t` -/
def tstep (pc : TPc) (l : TLabel) : Option TPc :=
  match pc with
  | .enq id k => (match l with
    | .xchgTail id' => if id' = id then some (.inc k) else none
    | _ => none)
  | .inc k => (match l with
    | .incQlen => some (.ldFlags k)
    | _ => none)
  | .ldFlags k => (match l with
    | .ldFl f => some (if bit f 1 = true then k.cont else .ldFutex k)
    | _ => none)
  | .ldFutex k => (match l with
    | .ldFutex v => some (if v = -1 then .stFutex k else k.cont)
    | _ => none)
  | .stFutex k => (match l with
    | .stFutex => some (.wake k)
    | _ => none)
  | .wake k => (match l with
    | .wake => some k.cont
    | _ => none)
  | .idle => (match l with
    | .setPause => some (.ldFlags .pause)
    | .setStop => some (.ldFlags .stop)
    | _ => none)
  | .pWait => (match l with
    | .ldFl f => some (if bit f 8 = true then .holding else .pWait)
    | _ => none)
  | .holding => (match l with
    | .clrPause => some .rWait
    | _ => none)
  | .rWait => (match l with
    | .ldFl f => some (if bit f 8 = true then .rWait else .idle)
    | _ => none)
  | .wcDec b => (match l with
    | .cDecFutex => some (.wcLd b)
    | _ => none)
  | .wcLd b => (match l with
    | .cLdCount v => some (if v = 0 then .idle else .wcWaitLd b)
    | _ => none)
  | .wcWaitLd b => (match l with
    | .cLdFutex v => some (if v = -1 then .wcWaitFx b else .wcDec b)
    | _ => none)
  | .wcWaitFx b => (match l with
    | .cWaitSleep => some (.wcWaitLd b)
    | .cWaitEagain => some (.wcDec b)
    | .cWaitEintr => some (.wcWaitLd b)
    | _ => none)
  | _ => none

def trun : TPc → List TLabel → Option TPc
  | pc, [] => some pc
  | pc, l :: r => match tstep pc l with
    | some pc' => trun pc' r
    | none => none

theorem trun_append (pc : TPc) (a b : List TLabel) :
    trun pc (a ++ b) = (trun pc a).bind (fun m => trun m b) := by
  induction a generalizing pc with
  | nil => rfl
  | cons x a ih =>
    simp only [List.cons_append, trun]
    cases tstep pc x with
    | none => rfl
    | some p => exact ih p

/-- the L2 label(s) of thread `t` that the access stands for at pc `pc`.  A poll-loop load of the flags that does
not see the awaited value is a stutter step (L2's `pSee` / `rSee` are guarded by the flag).  `cWaitSleep` is
`wcWaitFx .sleep` followed by the wake-up, which in L2 is EITHER the thread's own `wcSpurious` (stated here) OR the worker's
`cWake` acting on `tpc t` in the same way (`tframe_cWake`); FUTEX_WAIT returning 0 without sleeping is
`wcWaitFx .spurious`, with the same local effect. -/
def tL2 (t : Nat) (pc : TPc) : TLabel → List Label
  | .xchgTail _ => [.enq t]
  | .incQlen => [.inc t]
  | .ldFl f => (match pc with
    | .ldFlags _ => [.ldFlags t]
    | .pWait => if bit f 8 = true then [.pSee t] else []
    | .rWait => if bit f 8 = true then [] else [.rSee t]
    | _ => [])
  | .ldFutex _ => [.ldFutex t]
  | .stFutex => [.stFutex t]
  | .wake => [.wake t]
  | .setPause => [.pOr t]
  | .clrPause => [.rAnd t]
  | .setStop => [.dOr t]
  | .cDecFutex => [.wcDec t]
  | .cLdCount _ => [.wcLd t]
  | .cLdFutex _ => [.wcWaitLd t]
  | .cWaitSleep => [.wcWaitFx t .sleep, .wcSpurious t]
  | .cWaitEagain => [.wcWaitFx t .eagain]
  | .cWaitEintr => [.wcWaitFx t .eintr]
  | .bad => []

/-- the completion the thread is waiting for -/
def complOf : TPc → Option Nat
  | .wcDec b | .wcLd b | .wcWaitLd b | .wcWaitFx b | .wcAsleep b => some b
  | _ => none

/-- the observed values are the stated functions of the global state -/
def tObs (c : Cfg) (s : State) (t : Nat) : TLabel → Prop
  | .ldFl f => f = flagsWord c s
  | .ldFutex v => v = s.futex
  | .cLdCount v => ∀ b, complOf (s.tpc t) = some b → v = s.ccnt b
  | .cLdFutex v => ∀ b, complOf (s.tpc t) = some b → v = s.cfut b
  | _ => True

/-- the non-local part of the guards of L2 -/
def tGuard (c : Cfg) (s : State) (t : Nat) : TLabel → Prop
  | .wake => s.bfut t = false
  | .setPause => t ≠ 0 ∧ s.pauser = none ∧ s.stopper = none ∧ s.wpc ≠ .none
  | .setStop => t ≠ 0 ∧ s.pauser = none ∧ s.stopper = none ∧ s.wpc ≠ .none
  | .cWaitSleep => ∀ b, complOf (s.tpc t) = some b → s.cfut b = -1
  | .cWaitEagain => ∀ b, complOf (s.tpc t) = some b → s.cfut b ≠ -1
  | _ => True

/-- **lift**: a local step with the observed values of the global state and the global guard is the enabled L2
step(s) `tL2`, and the successor's `tpc t` is the local successor -/
theorem tproj_lift (c : Cfg) (s : State) (t : Nat) (l : TLabel) (pc' : TPc)
    (hl : tstep (s.tpc t) l = some pc') (ho : tObs c s t l) (hg : tGuard c s t l) :
    ∃ s', Wq.run c s (tL2 t (s.tpc t) l) = some s' ∧ s'.tpc t = pc' := by
  have hr := bit_rt c s
  have hp := bit_paused c s
  generalize hpc : s.tpc t = pc at hl
  cases pc <;> cases l <;> simp only [tstep] at hl <;> (try split at hl) <;>
    first
    | (simp at hl; done)
    | (simp only [Option.some.injEq] at hl; subst hl
       simp_all [tL2, Wq.run, step, tObs, tGuard, complOf])

/-- **projection**: an L2 step of thread `t` that is the single L2 label of the access `l` at the thread's pc is the
local step -/
theorem tproj_step (c : Cfg) (s s' : State) (t : Nat) (l : TLabel) (L : Label)
    (hL : tL2 t (s.tpc t) l = [L]) (st : step c s L = some s') (ho : tObs c s t l)
    (hx : ∀ id, l = .xchgTail id → ∃ k, s.tpc t = .enq id k) :
    tstep (s.tpc t) l = some (s'.tpc t) := by
  have hr := bit_rt c s
  have hp := bit_paused c s
  cases l <;> simp only [tL2] at hL <;> (try split at hL) <;> (try split at hL) <;>
    simp only [List.cons.injEq, and_true, List.nil_eq, List.cons_ne_nil, reduceCtorEq] at hL <;>
    (try subst hL) <;> simp only [step] at st <;> (repeat' split at st) <;>
    first
    | (simp at st; done)
    | (simp only [Option.some.injEq] at st; subst st; simp_all [tstep, tObs, complOf] <;> grind)

/-- the thread that owns a label (`none`: the worker's labels and the memory system's `flush`) -/
def owner : Label → Option Nat
  | .qCall t _ | .enq t | .inc t | .ldFlags t | .ldFutex t | .stFutex t | .wake t => some t
  | .ccCreate t | .qcGet t _ | .qcInc t _ | .wcCall t _ | .wcDec t | .wcLd t | .wcWaitLd t | .wcWaitFx t _
  | .wcSpurious t | .dcPut t _ => some t
  | .pOr t | .pSee t | .rAnd t | .rSee t | .fork t | .createWorker t | .dOr t | .dJoin t | .dChk t => some t
  | _ => none

/-- **frame**: a label that is not thread `t`'s, other than `fork` and the worker's `cWake`, leaves `tpc t` unchanged
(in particular `flush u` for every `u`, `t` included: it commits the buffered store, no pc moves) -/
theorem tframe (c : Cfg) (s s' : State) (t : Nat) (L : Label) (st : step c s L = some s')
    (ho : owner L ≠ some t) (hf : ∀ u, L ≠ .fork u) (hw : L ≠ .cWake) : s'.tpc t = s.tpc t := by
  cases L <;> simp only [step] at st <;> (repeat' split at st) <;>
    first
    | (simp at st; done)
    | (simp only [Option.some.injEq] at st; subst st; simp_all [owner, upd] <;> grind)

/-- the worker's FUTEX_WAKE on a completion acts on `tpc t` like the local label that ends the sleep, and only if
`t` is asleep on that completion -/
theorem tframe_cWake (c : Cfg) (s s' : State) (t : Nat) (st : step c s .cWake = some s') :
    s'.tpc t = (match s.tpc t with
      | .wcAsleep b => if curB s = some b ∧ s.cowner b = t then .wcWaitLd b else .wcAsleep b
      | p => p) ∨ s'.tpc t = s.tpc t := by
  simp only [step] at st
  split at st
  · split at st
    · simp only [Option.some.injEq] at st; subst st
      rename_i b hb _
      by_cases ht : t = s.cowner b
      · subst ht
        simp only [upd_same]
        split
        · rename_i h; left; rw [h]; simp [hb]
        · right; rfl
      · right; simp [upd, ht]
    · simp at st
  · simp at st

-- ==========================================================================================================
/-! ## the worker thread

Nodes of the private list are *addresses* (`Loc`, the node `&work->next`) and loaded `next` pointers are C values
(`Val`): the automaton follows the traversal `__cds_wfcq_for_each_blocking_safe(&cbs_tmp_head, &cbs_tmp_tail, cbs, n)`
access by access and **records** what the loads return; `run cbs` is the call `uwp->func(uwp)` with
`&uwp->next = cbs`.  So the accepted label sequences of one batch are exactly

    spliceX ; first(…) = c₁ ; next(c₁) = c₂ ; run c₁ ; next(c₂) = c₃ ; run c₂ ; … ; next(cₙ) = NULL ; run cₙ ; subQlen n

i.e. every node the traversal returns is run exactly once, at once, in traversal order, and `qlen` is decremented by the
number of works run.  That the traversal returns the content of the queue at the splice (L2's `batch := queue`) is the
**queue oracle discipline** (C10, `Props/SrcQueue.lean`): it appears as the global guard of `run` in `wGuard`. -/

inductive WLPc
  | at (p : WPc)                       -- at L2's pc `p` (`p ≠ inv`)
  | spl1 | spl2 | spl2a | spl3         -- inside `__cds_wfcq_splice_blocking(&cbs_tmp, &workqueue->cbs)` (L2: `splice`)
  | first0 | first1 | firstS           -- `__cds_wfcq_first_blocking(&cbs_tmp)`: emptiness test (2 loads), `sync_next` (L2: `inv`)
  | fetch0 (cbs : Loc) | fetch1 (cbs : Loc) | fetchS (cbs : Loc)    -- `__cds_wfcq_next_blocking(&cbs_tmp, cbs)` (L2: `inv`)
  | ready (cbs : Loc) (nxt : Val)      -- the next node is known: about to call the work function of `cbs` (L2: `inv`)
  | empty1                             -- `cds_wfcq_empty`: saw `head.next == NULL` (L2: `emptychk`)
  | rt1                                -- the same in the RT variant (L2: `rtchk`)
  deriving DecidableEq, Repr

structure WLState where
  pc : WLPc
  cnt : Nat        -- `cbcount`
  rt : Bool        -- the local `rt`, read once from the flags at thread start
  deriving DecidableEq, Repr

inductive WLabel
  | ldFl (f : Nat)            -- load of `workqueue->flags`
  | decFutex                  -- `uatomic_dec(&workqueue->futex)`
  | setPaused | clrPaused     -- `uatomic_or(&flags, PAUSED)` / `uatomic_and(&flags, ~PAUSED)`
  | ldHead (v : Val)          -- load of `workqueue->cbs_head.next`
  | ldTail (isHead : Bool)    -- load of `workqueue->cbs_tail.p`, compared with `&workqueue->cbs_head`
  | xchgHead (v : Val)        -- `xchg(&workqueue->cbs_head.next, NULL)`
  | spliceX                   -- `xchg(&workqueue->cbs_tail.p, &workqueue->cbs_head)`: the splice
  | ldNext (a : Loc) (v : Val)   -- load of `a->next`, `a` = a node of the private list or `&cbs_tmp_head`
  | ldTTail (v : Val)         -- load of `cbs_tmp_tail.p`
  | run (cbs : Loc)           -- `uwp->func(uwp)`, `cbs = &uwp->next`
  | subQlen (n : Int)         -- `uatomic_sub(&workqueue->qlen, n)`
  | ldFutex (v : Int)         -- load of `workqueue->futex` (in `futex_wait`)
  | waitSleep | waitEagain | waitEintr    -- outcomes of `futex(&workqueue->futex, FUTEX_WAIT, -1)`
  | stFutex                   -- `uatomic_store(&workqueue->futex, 0)` at exit
  | bad
  deriving DecidableEq, Repr

/-- address of the head of the private list `cbs_tmp` -/
def tmpHead : Loc := .glob "&cbs_tmp_head"

def wstep (ls : WLState) (l : WLabel) : Option WLState :=
  match ls.pc with
  | .at .start => (match l with
    | .ldFl f => some { ls with pc := .at (if bit f 1 = true then .top else .dec0), rt := bit f 1 }
    | _ => none)
  | .at .dec0 => (match l with
    | .decFutex => some { ls with pc := .at .top }
    | _ => none)
  | .at .top => (match l with
    | .ldFl f => some { ls with pc := .at (if bit f 4 = true then .pausing else .splice) }
    | _ => none)
  | .at .pausing => (match l with
    | .setPaused => some { ls with pc := .at .paused }
    | _ => none)
  | .at .paused => (match l with
    | .ldFl f => some { ls with pc := .at (if bit f 4 = true then .paused else .unpausing) }
    | _ => none)
  | .at .unpausing => (match l with
    | .clrPaused => some { ls with pc := .at .splice }
    | _ => none)
  | .at .splice => (match l with
    | .ldHead v => some { ls with pc := if v = .int 0 then .spl1 else .spl2 }
    | _ => none)
  | .spl1 => (match l with
    | .ldTail h => some { ls with pc := if h = true then .at .stopchk else .spl2 }
    | _ => none)
  | .spl2 => (match l with
    | .xchgHead v => some { ls with pc := if v = .int 0 then .spl2a else .spl3 }
    | _ => none)
  | .spl2a => (match l with
    | .ldTail h => some { ls with pc := if h = true then .at .stopchk else .spl2 }
    | _ => none)
  | .spl3 => (match l with
    | .spliceX => some { ls with pc := .first0, cnt := 0 }
    | _ => none)
  | .first0 => (match l with
    | .ldNext a v => if a = tmpHead then some { ls with pc := if v = .int 0 then .first1 else .firstS } else none
    | _ => none)
  | .first1 => (match l with
    | .ldTTail v => some { ls with pc := if v = .ptr tmpHead then .at .sub else .firstS }
    | _ => none)
  | .firstS => (match l with
    | .ldNext a v => if a = tmpHead then
        (match v with
          | .int n => if n = 0 then some ls else none
          | .ptr c => some { ls with pc := .fetch0 c })
      else none
    | _ => none)
  | .fetch0 c => (match l with
    | .ldNext a v => if a = c then some { ls with pc := if v = .int 0 then .fetch1 c else .ready c v } else none
    | _ => none)
  | .fetch1 c => (match l with
    | .ldTTail v => some { ls with pc := if v = .ptr c then .ready c (.int 0) else .fetchS c }
    | _ => none)
  | .fetchS c => (match l with
    | .ldNext a v => if a = c then some { ls with pc := if v = .int 0 then .fetchS c else .ready c v } else none
    | _ => none)
  | .ready c nxt => (match l with
    | .run c' => if c' = c then
        (match nxt with
          | .int n => if n = 0 then some { ls with pc := .at .sub, cnt := ls.cnt + 1 } else none
          | .ptr c2 => some { ls with pc := .fetch0 c2, cnt := ls.cnt + 1 })
      else none
    | _ => none)
  | .at .sub => (match l with
    | .subQlen n => if n = ls.cnt then some { ls with pc := .at .stopchk } else none
    | _ => none)
  | .at .stopchk => (match l with
    | .ldFl f => some { ls with pc := .at (if bit f 2 = true then (if ls.rt = true then .dead else .exitSt)
                                           else (if ls.rt = true then .rtchk else .emptychk)) }
    | _ => none)
  | .at .emptychk => (match l with
    | .ldHead v => some { ls with pc := if v = .int 0 then .empty1 else .at .top }
    | _ => none)
  | .empty1 => (match l with
    | .ldTail h => some { ls with pc := .at (if h = true then .waitLd else .top) }
    | _ => none)
  | .at .rtchk => (match l with
    | .ldHead v => some { ls with pc := if v = .int 0 then .rt1 else .at .top }
    | _ => none)
  | .rt1 => (match l with
    | .ldTail _ => some { ls with pc := .at .top }
    | _ => none)
  | .at .waitLd => (match l with
    | .ldFutex v => some { ls with pc := .at (if v = -1 then .waitFx else .dec) }
    | _ => none)
  | .at .waitFx => (match l with
    | .waitSleep => some { ls with pc := .at .waitLd }
    | .waitEagain => some { ls with pc := .at .dec }
    | .waitEintr => some { ls with pc := .at .waitLd }
    | _ => none)
  | .at .dec => (match l with
    | .decFutex => some { ls with pc := .at .top }
    | _ => none)
  | .at .exitSt => (match l with
    | .stFutex => some { ls with pc := .at .dead }
    | _ => none)
  | _ => none

def wrun : WLState → List WLabel → Option WLState
  | ls, [] => some ls
  | ls, l :: r => match wstep ls l with
    | some ls' => wrun ls' r
    | none => none

theorem wrun_append (ls : WLState) (a b : List WLabel) :
    wrun ls (a ++ b) = (wrun ls a).bind (fun m => wrun m b) := by
  induction a generalizing ls with
  | nil => rfl
  | cons x a ih =>
    simp only [List.cons_append, wrun]
    cases wstep ls x with
    | none => rfl
    | some p => exact ih p

/-- L2's pc of a local pc -/
def WLPc.abs : WLPc → WPc
  | .at p => p
  | .spl1 | .spl2 | .spl2a | .spl3 => .splice
  | .first0 | .first1 | .firstS | .fetch0 _ | .fetch1 _ | .fetchS _ | .ready _ _ => .inv
  | .empty1 => .emptychk
  | .rt1 => .rtchk

/-- **C16, source level**: from the moment the worker has set PAUSED until it has seen PAUSE clear and cleared PAUSED
(`pausing`, `paused`, `unpausing`) the local automaton accepts only the flag accesses: no splice, no traversal access, no
work function call -/
theorem wstep_paused_quiescent (ls ls' : WLState) (l : WLabel) (h : wstep ls l = some ls')
    (hp : ls.pc = .at .pausing ∨ ls.pc = .at .paused ∨ ls.pc = .at .unpausing) :
    (l = .setPaused ∨ l = .clrPaused ∨ ∃ f, l = .ldFl f) ∧ ls'.cnt = ls.cnt ∧
      (ls'.pc = .at .paused ∨ ls'.pc = .at .unpausing ∨ ls'.pc = .at .splice) := by
  obtain ⟨pc, cnt, rt⟩ := ls
  simp only at hp
  rcases hp with rfl | rfl | rfl <;> cases l <;> simp only [wstep] at h <;>
    first
    | (simp at h; done)
    | (simp only [Option.some.injEq] at h; subst h; simp; try (split <;> simp))

/-- a work function is called only at `ready`, for the node fetched, and the count goes up by one -/
theorem wstep_run (ls ls' : WLState) (c : Loc) (h : wstep ls (.run c) = some ls') :
    (∃ nxt, ls.pc = .ready c nxt ∧
      ((nxt = .int 0 ∧ ls'.pc = .at .sub) ∨ (∃ c2, nxt = .ptr c2 ∧ ls'.pc = .fetch0 c2))) ∧ ls'.cnt = ls.cnt + 1 := by
  obtain ⟨pc, cnt, rt⟩ := ls
  cases pc with
  | ready c0 nxt =>
    simp only [wstep] at h
    split at h
    · subst_vars
      cases nxt with
      | int n =>
        simp only at h
        split at h
        · simp only [Option.some.injEq] at h; subst h; subst_vars; simp
        · simp at h
      | ptr c2 => simp only [Option.some.injEq] at h; subst h; simp
    · simp at h
  | «at» p => cases p <;> simp [wstep] at h
  | _ => simp [wstep] at h

/-- the labels of the worker thread -/
def isWorkerLabel : Label → Bool
  | .wStart | .wDec0 | .wTop | .wPause | .wSeeResume | .wUnpause | .wSplice | .wRunBegin _ | .wRunEnd
  | .cSub | .cLd | .cSt | .cFlush | .cWake | .cPut
  | .wInvDone | .wSub | .wStopChk | .wEmptyChk | .wRtChk | .wWaitLd | .wWaitFx _ | .wSpurious | .wDec | .wExitSt => true
  | _ => false

/-- **frame** for the worker: a label of an application thread or of the memory system, other than a waker's
FUTEX_WAKE, `fork` and `createWorker`, leaves the worker's pc, `cbcount`, private list and current work unchanged -/
theorem wframe (c : Cfg) (s s' : State) (L : Label) (st : step c s L = some s') (hw : isWorkerLabel L = false)
    (hk : ∀ t, L ≠ .wake t) (hf : ∀ t, L ≠ .fork t) (hc : ∀ t, L ≠ .createWorker t) :
    s'.wpc = s.wpc ∧ s'.cnt = s.cnt ∧ s'.batch = s.batch ∧ s'.cur = s.cur := by
  cases L <;> simp only [step] at st <;> (repeat' split at st) <;>
    first
    | (simp at st; done)
    | (simp only [Option.some.injEq] at st; subst st; simp_all [isWorkerLabel])

/-- a waker's FUTEX_WAKE moves a sleeping worker to the re-check of the futex word, and does nothing else to it -/
theorem wframe_wake (c : Cfg) (s s' : State) (t : Nat) (st : step c s (.wake t) = some s') :
    s'.wpc = (if s.wpc = .asleep then .waitLd else s.wpc) ∧ s'.cnt = s.cnt ∧ s'.batch = s.batch ∧ s'.cur = s.cur := by
  simp only [step] at st
  split at st
  · split at st
    · simp only [Option.some.injEq] at st; subst st; simp
    · simp at st
  · simp at st

end UrcuVerif.Src.WqL
