import UrcuVerif.Wq.Model
/-!
# Thread-local projections of the L2 work-queue model (`Wq/Model.lean`)

Two deterministic local automata whose labels are **accesses of the source text with the values they observe**:

* `tstep` – an application thread `t` (state = L2's `tpc t`): `urcu_workqueue_queue_work` (after the entry label
  `qCall`/`qcInc`), the wake path `wake_worker_thread`, `urcu_workqueue_pause_worker`, `urcu_workqueue_resume_worker`,
  the first access of `urcu_workqueue_destroy`, and `urcu_workqueue_wait_completion`;
* `wstep` – the worker thread (state `WLState`: a pc that refines L2's `wpc` by the position inside the
  `__cds_wfcq_for_each_blocking_safe` traversal of the private list, and `cnt` = `cbcount`).

`tL2` / `wL2` give the L2 label(s) an access stands for at a pc (none: a stutter step, e.g. a poll-loop load that does
not see the awaited flag; the accesses inside the wfcqueue that L2 abstracts).  Proved against the real `Wq.step`:

* `tproj_lift` : a local step whose observed values are the stated functions of the global state (`tObs`) and whose
  global guard holds (`tGuard`) *is* the enabled L2 step(s), and the successor projects to the local successor;
* `tproj_step` : conversely an L2 step of thread `t` is the local step, with the observed values;
* `tframe`     : every label that is not thread `t`'s own leaves `tpc t` unchanged, except `fork u` (the child has only
  the forking thread) and `cWake` (the worker's FUTEX_WAKE moves the sleeping waiter of the completion from `wcAsleep`
  to `wcWaitLd`: `tframe_cWake`);
* `wproj_lift`, `wframe` : the same for the worker; only `wake t` of a waker (sleeping worker → `waitLd`:
  `wframe_wake`), `fork` and `createWorker` touch the worker's pc.
-/
set_option linter.unusedSimpArgs false
set_option linter.unusedVariables false
namespace UrcuVerif.Src.WqL
open UrcuVerif UrcuVerif.Wq

/-- the word `workqueue->flags` as a function of the L2 state (`URCU_WORKQUEUE_RT` 1, `STOP` 2, `PAUSE` 4, `PAUSED` 8) -/
def flagsWord (c : Cfg) (s : State) : Nat :=
  (if c.rt = true then 1 else 0) + (if s.stop = true then 2 else 0) + (if s.pause = true then 4 else 0) +
    (if s.paused = true then 8 else 0)

/-- `f & m` is non-zero -/
def bit (f m : Nat) : Bool := f &&& m != 0

theorem bit_rt (c : Cfg) (s : State) : bit (flagsWord c s) 1 = c.rt := by
  unfold bit flagsWord
  cases c.rt <;> cases s.stop <;> cases s.pause <;> cases s.paused <;> rfl
theorem bit_stop (c : Cfg) (s : State) : bit (flagsWord c s) 2 = s.stop := by
  unfold bit flagsWord
  cases c.rt <;> cases s.stop <;> cases s.pause <;> cases s.paused <;> rfl
theorem bit_pause (c : Cfg) (s : State) : bit (flagsWord c s) 4 = s.pause := by
  unfold bit flagsWord
  cases c.rt <;> cases s.stop <;> cases s.pause <;> cases s.paused <;> rfl
theorem bit_paused (c : Cfg) (s : State) : bit (flagsWord c s) 8 = s.paused := by
  unfold bit flagsWord
  cases c.rt <;> cases s.stop <;> cases s.pause <;> cases s.paused <;> rfl

def run2 (c : Cfg) : State → List Label → Option State := Wq.run c

-- ==========================================================================================================
/-! ## application threads -/

inductive TLabel
  | xchgTail (id : Nat)      -- `uatomic_xchg(&workqueue->cbs_tail.p, &work->next)`, `work` = work item `id`
  | incQlen                  -- `uatomic_inc(&workqueue->qlen)`
  | ldFl (f : Nat)           -- load of `workqueue->flags` saw `f`
  | ldFutex (v : Int)        -- load of `workqueue->futex` saw `v`
  | stFutex                  -- `uatomic_store(&workqueue->futex, 0)`
  | wake                     -- `futex(&workqueue->futex, FUTEX_WAKE, 1)`
  | setPause                 -- `uatomic_or(&workqueue->flags, URCU_WORKQUEUE_PAUSE)`
  | clrPause                 -- `uatomic_and(&workqueue->flags, ~URCU_WORKQUEUE_PAUSE)`
  | setStop                  -- `uatomic_or(&workqueue->flags, URCU_WORKQUEUE_STOP)`
  | cDecFutex                -- `uatomic_dec(&completion->futex)`
  | cLdCount (v : Int)       -- load of `completion->barrier_count` saw `v`
  | cLdFutex (v : Int)       -- load of `completion->futex` saw `v`
  | cWaitSleep               -- `futex(&completion->futex, FUTEX_WAIT, -1)` returned 0: slept (or spurious) and was woken
  | cWaitEagain              -- … failed with EAGAIN
  | cWaitEintr               -- … failed with EINTR
  | bad                      -- an event that has no place in the protocol / an ill-typed value
  deriving DecidableEq, Repr

/-- local automaton of an application thread: state = L2's `tpc t` -/
def tstep (pc : TPc) (l : TLabel) : Option TPc :=
  match pc with
  | .enq id k => (match l with
    | .xchgTail id' => if id' = id then some (.inc k) else none
    | _ => none)
  | .inc k => (match l with
    | .incQlen => some (.ldFlags k)
    | _ => none)
  | .ldFlags k => (match l with
    | .ldFl f => some (if bit f 1 = true then k.cont else .ldFutex k)
    | _ => none)
  | .ldFutex k => (match l with
    | .ldFutex v => some (if v = -1 then .stFutex k else k.cont)
    | _ => none)
  | .stFutex k => (match l with
    | .stFutex => some (.wake k)
    | _ => none)
  | .wake k => (match l with
    | .wake => some k.cont
    | _ => none)
  | .idle => (match l with
    | .setPause => some (.ldFlags .pause)
    | .setStop => some (.ldFlags .stop)
    | _ => none)
  | .pWait => (match l with
    | .ldFl f => some (if bit f 8 = true then .holding else .pWait)
    | _ => none)
  | .holding => (match l with
    | .clrPause => some .rWait
    | _ => none)
  | .rWait => (match l with
    | .ldFl f => some (if bit f 8 = true then .rWait else .idle)
    | _ => none)
  | .wcDec b => (match l with
    | .cDecFutex => some (.wcLd b)
    | _ => none)
  | .wcLd b => (match l with
    | .cLdCount v => some (if v = 0 then .idle else .wcWaitLd b)
    | _ => none)
  | .wcWaitLd b => (match l with
    | .cLdFutex v => some (if v = -1 then .wcWaitFx b else .wcDec b)
    | _ => none)
  | .wcWaitFx b => (match l with
    | .cWaitSleep => some (.wcWaitLd b)
    | .cWaitEagain => some (.wcDec b)
    | .cWaitEintr => some (.wcWaitLd b)
    | _ => none)
  | _ => none

def trun : TPc → List TLabel → Option TPc
  | pc, [] => some pc
  | pc, l :: r => match tstep pc l with
    | some pc' => trun pc' r
    | none => none

theorem trun_append (pc : TPc) (a b : List TLabel) :
    trun pc (a ++ b) = (trun pc a).bind (fun m => trun m b) := by
  induction a generalizing pc with
  | nil => rfl
  | cons x a ih =>
    simp only [List.cons_append, trun]
    cases tstep pc x with
    | none => rfl
    | some p => exact ih p

/-- the L2 label(s) of thread `t` that the access stands for at pc `pc`.  A poll-loop load of the flags that does
not see the awaited value is a stutter step (L2's `pSee` / `rSee` are guarded by the flag).  `cWaitSleep` is
`wcWaitFx .sleep` followed by the wake-up, which in L2 is EITHER the thread's own `wcSpurious` (stated here) OR the worker's
`cWake` acting on `tpc t` in the same way (`tframe_cWake`); FUTEX_WAIT returning 0 without sleeping is
`wcWaitFx .spurious`, with the same local effect. -/
def tL2 (t : Nat) (pc : TPc) : TLabel → List Label
  | .xchgTail _ => [.enq t]
  | .incQlen => [.inc t]
  | .ldFl f => (match pc with
    | .ldFlags _ => [.ldFlags t]
    | .pWait => if bit f 8 = true then [.pSee t] else []
    | .rWait => if bit f 8 = true then [] else [.rSee t]
    | _ => [])
  | .ldFutex _ => [.ldFutex t]
  | .stFutex => [.stFutex t]
  | .wake => [.wake t]
  | .setPause => [.pOr t]
  | .clrPause => [.rAnd t]
  | .setStop => [.dOr t]
  | .cDecFutex => [.wcDec t]
  | .cLdCount _ => [.wcLd t]
  | .cLdFutex _ => [.wcWaitLd t]
  | .cWaitSleep => [.wcWaitFx t .sleep, .wcSpurious t]
  | .cWaitEagain => [.wcWaitFx t .eagain]
  | .cWaitEintr => [.wcWaitFx t .eintr]
  | .bad => []

/-- the completion the thread is waiting for -/
def complOf : TPc → Option Nat
  | .wcDec b | .wcLd b | .wcWaitLd b | .wcWaitFx b | .wcAsleep b => some b
  | _ => none

/-- the observed values are the stated functions of the global state -/
def tObs (c : Cfg) (s : State) (t : Nat) : TLabel → Prop
  | .ldFl f => f = flagsWord c s
  | .ldFutex v => v = s.futex
  | .cLdCount v => ∀ b, complOf (s.tpc t) = some b → v = s.ccnt b
  | .cLdFutex v => ∀ b, complOf (s.tpc t) = some b → v = s.cfut b
  | _ => True

/-- the non-local part of the guards of L2 -/
def tGuard (c : Cfg) (s : State) (t : Nat) : TLabel → Prop
  | .wake => s.bfut t = false
  | .setPause => t ≠ 0 ∧ s.pauser = none ∧ s.stopper = none ∧ s.wpc ≠ .none
  | .setStop => t ≠ 0 ∧ s.pauser = none ∧ s.stopper = none ∧ s.wpc ≠ .none
  | .cWaitSleep => ∀ b, complOf (s.tpc t) = some b → s.cfut b = -1
  | .cWaitEagain => ∀ b, complOf (s.tpc t) = some b → s.cfut b ≠ -1
  | _ => True

/-- **lift**: a local step with the observed values of the global state and the global guard is the enabled L2
step(s) `tL2`, and the successor's `tpc t` is the local successor -/
theorem tproj_lift (c : Cfg) (s : State) (t : Nat) (l : TLabel) (pc' : TPc)
    (hl : tstep (s.tpc t) l = some pc') (ho : tObs c s t l) (hg : tGuard c s t l) :
    ∃ s', Wq.run c s (tL2 t (s.tpc t) l) = some s' ∧ s'.tpc t = pc' := by
  have hr := bit_rt c s
  have hp := bit_paused c s
  generalize hpc : s.tpc t = pc at hl
  cases pc <;> cases l <;> simp only [tstep] at hl <;> (try split at hl) <;>
    first
    | (simp at hl; done)
    | (simp only [Option.some.injEq] at hl; subst hl
       simp_all [tL2, Wq.run, step, tObs, tGuard, complOf])

/-- **projection**: an L2 step of thread `t` that is the single L2 label of the access `l` at the thread's pc is the
local step -/
theorem tproj_step (c : Cfg) (s s' : State) (t : Nat) (l : TLabel) (L : Label)
    (hL : tL2 t (s.tpc t) l = [L]) (st : step c s L = some s') (ho : tObs c s t l)
    (hx : ∀ id, l = .xchgTail id → ∃ k, s.tpc t = .enq id k) :
    tstep (s.tpc t) l = some (s'.tpc t) := by
  have hr := bit_rt c s
  have hp := bit_paused c s
  cases l <;> simp only [tL2] at hL <;> (try split at hL) <;> (try split at hL) <;>
    simp only [List.cons.injEq, and_true, List.nil_eq, List.cons_ne_nil, reduceCtorEq] at hL <;>
    (try subst hL) <;> simp only [step] at st <;> (repeat' split at st) <;>
    first
    | (simp at st; done)
    | (simp only [Option.some.injEq] at st; subst st; simp_all [tstep, tObs, complOf] <;> grind)

/-- the thread that owns a label (`none`: the worker's labels and the memory system's `flush`) -/
def owner : Label → Option Nat
  | .qCall t _ | .enq t | .inc t | .ldFlags t | .ldFutex t | .stFutex t | .wake t => some t
  | .ccCreate t | .qcGet t _ | .qcInc t _ | .wcCall t _ | .wcDec t | .wcLd t | .wcWaitLd t | .wcWaitFx t _
  | .wcSpurious t | .dcPut t _ => some t
  | .pOr t | .pSee t | .rAnd t | .rSee t | .fork t | .createWorker t | .dOr t | .dJoin t | .dChk t => some t
  | _ => none

/-- **frame**: a label that is not thread `t`'s, other than `fork` and the worker's `cWake`, leaves `tpc t` unchanged
(in particular `flush u` for every `u`, `t` included: it commits the buffered store, no pc moves) -/
theorem tframe (c : Cfg) (s s' : State) (t : Nat) (L : Label) (st : step c s L = some s')
    (ho : owner L ≠ some t) (hf : ∀ u, L ≠ .fork u) (hw : L ≠ .cWake) : s'.tpc t = s.tpc t := by
  cases L <;> simp only [step] at st <;> (repeat' split at st) <;>
    first
    | (simp at st; done)
    | (simp only [Option.some.injEq] at st; subst st; simp_all [owner, upd] <;> grind)

/-- the worker's FUTEX_WAKE on a completion acts on `tpc t` like the local label that ends the sleep, and only if
`t` is asleep on that completion -/
theorem tframe_cWake (c : Cfg) (s s' : State) (t : Nat) (st : step c s .cWake = some s') :
    s'.tpc t = (match s.tpc t with
      | .wcAsleep b => if curB s = some b ∧ s.cowner b = t then .wcWaitLd b else .wcAsleep b
      | p => p) ∨ s'.tpc t = s.tpc t := by
  simp only [step] at st
  split at st
  · split at st
    · simp only [Option.some.injEq] at st; subst st
      rename_i b hb _
      by_cases ht : t = s.cowner b
      · subst ht
        simp only [upd_same]
        split
        · rename_i h; left; rw [h]; simp [hb]
        · right; rfl
      · right; simp [upd, ht]
    · simp at st
  · simp at st

end UrcuVerif.Src.WqL
