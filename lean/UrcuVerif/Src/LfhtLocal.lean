import UrcuVerif.Lfht.Conc.Step3
/-!
# Thread-local projection of the L2 model of `src/rculfhash.c` (`Lfht/Conc`), deletion protocol + `_cds_lfht_gc_bucket`

The local part of L2's state for a calling thread `t` is L2's own record `Thr` (`s.th t`: pc, node, iter, prev, …).
`LState` = that record + `pend` (see below) + `out` (the `Out` of the thread's last L2 step: the C return value).

`LLabel` = one **access of the source with the values it passes and observes** (`ldNext p w mo` = "load of `p->next`
with memory order `mo` saw the word `w`", `casNext p exp new old`, `orNext p k r`, `xchgNext p new old`), plus the
two opaque sub-calls of `lookup_bucket` (`hashOf r h` = "`bit_reverse_ulong(r)` returned `h`", `bktAt idx b` =
"`ht->bucket_at(ht, idx)` returned node `b`").  `lstep rev ls l` decides by the pc which L2 label the access is
(`toL2`) and **checks the address and the written / expected values against the thread's record** (the CAS of
`gCas` must be on `prev->next`, expect `iter`, write `(next.ptr | iter's BUCKET bit)`, …); `rev` = the immutable
`reverse_hash` fields (the loop tests of `_cds_lfht_gc_bucket` read only these – L2 folds them into the load).

`pend`: L2's `orRem` (and `casRepl`) folds the *three* source events `uatomic_or`; `bit_reverse_ulong(node->reverse_hash)`;
`bucket_at(ht, hash & (size-1))` into one step that sets `gbkt := tbl (hsh node % sz)`.  Locally the RMW moves the
pc to `gHead` at once (so that it is ordered like L2's step among the other threads' steps) and `pend` records that
the bucket is still being computed (`hash n`, then `bkt h`); `gbkt` is set by `bktAt`.  `decor` gives, for an L2
label, the list of local labels with the values the global state determines.

Proved against the real L2 `step` (labels `ldDel orRem ldAssertD ldDel2 xchgOwn ldHeadG ldNextG casGc`, real
configuration `ownerByOr = false`, `gcont ≠ shrink`, `casGc` at pc `gCas`):
* `proj_step`: every non-crashing L2 step of thread `t` is the local run `decor s t L` from `proj s t` to `proj s' t`
  with the same `Out`;
* `lift_step`: conversely, if the thread's pc is the one at which the access is the label `L` (`toL2`; the same
  load of a `next` word is a different L2 label at another pc), the local automaton accepts `decor s t L` and the global guard (`t < c.n`, the dereferenced
  node is live: `okp`) holds, the L2 step is enabled and its successor projects to the local successor;
* the frame lemma (steps of other threads leave `s.th t` unchanged) is in `Src/LfhtFrame.lean`.
-/
namespace UrcuVerif.Src.LfhtL
open UrcuVerif UrcuVerif.Lfht.Conc

inductive Pend
  | none
  | hash (n : Nat)     -- `bit_reverse_ulong(n->reverse_hash)` is next
  | bkt (h : Nat)      -- `bucket_at(ht, h & (size-1))` is next
  deriving DecidableEq, Repr

structure LState where
  x : Thr
  pend : Pend := .none
  out : Out := .unit

inductive LLabel
  | ldNext (p : Nat) (w : W) (mo : Int)        -- load of `p->next` saw `w`
  | casNext (p : Nat) (exp new old : W)        -- `uatomic_cmpxchg(&p->next, exp, new)` read `old`
  | orNext (p : Nat) (k : Nat) (r : W)         -- `uatomic_or(&p->next, k)`; `r` = the word afterwards
  | xchgNext (p : Nat) (new old : W)           -- `uatomic_xchg(&p->next, new)` returned `old`
  | hashOf (r h : Nat)                         -- `bit_reverse_ulong(r)` returned `h`
  | bktAt (idx b : Nat)                        -- `ht->bucket_at(ht, idx)` returned node `b`
  | bad                                        -- any other event / an ill-typed value
  deriving DecidableEq, Repr

/-- where `_cds_lfht_gc_bucket` returns to (`shrink` = `remove_table_partition`: not one of the translated callers) -/
def retPc : GCont → Option Pc
  | .repl => some .rAssert
  | .del => some .dAssert
  | .shrink => none

/-- loop head of `_cds_lfht_gc_bucket` after `iter` has been (re)loaded (L2's `gcPos`) -/
def lgcPos (rev : Nat → Nat) (x : Thr) : Option Thr :=
  if x.iter.ptr = 0 ∨ rev x.gnode < rev x.iter.ptr then (retPc x.gcont).map fun pc => { x with pc := pc }
  else some { x with pc := .gNext }

def mk (x : Thr) (o : Out := .unit) : LState := { x := x, pend := .none, out := o }

def lstep (rev : Nat → Nat) (ls : LState) (l : LLabel) : Option LState :=
  let x := ls.x
  match ls.pend with
  | .hash n =>
    match l with
    | .hashOf r h => if r = rev n then some { ls with pend := .bkt h } else none
    | _ => none
  | .bkt h =>
    match l with
    | .bktAt idx b => if idx = h &&& (x.sz - 1) then some { ls with x := { x with gbkt := b }, pend := .none } else none
    | _ => none
  | .none =>
    match x.pc with
    | .dLd =>
      match l with
      | .ldNext p w _ =>
        if p = x.node then
          if w.rem then some (mk { x with pc := .idle, op := .none } (.ret (-ENOENT)))
          else some (mk { x with pc := .dOr })
        else none
      | _ => none
    | .dOr =>
      match l with
      | .orNext p k _ =>
        if p = x.node ∧ k = 1 then
          some { x := { x with gnode := x.node, gcont := .del, pc := .gHead }, pend := .hash x.node, out := .unit }
        else none
      | _ => none
    | .gHead =>
      match l with
      | .ldNext p w mo =>
        if p = x.gbkt ∧ 1 ≤ mo then (lgcPos rev { x with prev := x.gbkt, iter := w }).map (mk ·) else none
      | _ => none
    | .gNext =>
      match l with
      | .ldNext p w mo =>
        if p = x.iter.ptr ∧ 1 ≤ mo then
          if w.rem then some (mk { x with nx := w, pc := .gCas })
          else (lgcPos rev { x with nx := w, prev := p, iter := w }).map (mk ·)
        else none
      | _ => none
    | .gCas =>
      match l with
      | .casNext p e n _ =>
        if p = x.prev ∧ e = x.iter ∧ n = { ptr := x.nx.ptr, bkt := x.iter.bkt } then some (mk { x with pc := .gHead })
        else none
      | _ => none
    | .dAssert =>
      match l with
      | .ldNext p _ _ => if p = x.node then some (mk { x with pc := .dLd2 }) else none
      | _ => none
    | .dLd2 =>
      match l with
      | .ldNext p w _ => if p = x.node then some (mk { x with v := w, pc := .dXchg }) else none
      | _ => none
    | .dXchg =>
      match l with
      | .xchgNext p new old =>
        if p = x.node ∧ new = { x.v with own := true } then
          some (mk { x with pc := .idle, op := .none } (if old.own then .ret (-ENOENT) else .ret 0))
        else none
      | _ => none
    | _ => none

def lrun (rev : Nat → Nat) : LState → List LLabel → Option LState
  | ls, [] => some ls
  | ls, l :: r => match lstep rev ls l with
    | some ls' => lrun rev ls' r
    | none => none

theorem lrun_append (rev : Nat → Nat) (ls : LState) (a b : List LLabel) :
    lrun rev ls (a ++ b) = (lrun rev ls a).bind (fun m => lrun rev m b) := by
  induction a generalizing ls with
  | nil => rfl
  | cons l r ih => simp only [List.cons_append, lrun]; cases lstep rev ls l <;> simp [ih]

/-- projection of the L2 state to thread `t` (`o` = the `Out` of the thread's last step) -/
def proj (s : State) (t : Nat) (o : Out := .unit) : LState := mk (s.th t) o

/-- the labels treated here -/
def inScope : Label → Bool
  | .ldDel | .orRem | .ldAssertD | .ldDel2 | .xchgOwn | .ldHeadG | .ldNextG | .casGc => true
  | _ => false

/-- the L2 label of an access of a thread at pc `pc` -/
def toL2 (pc : Pc) : LLabel → Option Label
  | .ldNext .. => (match pc with
    | .dLd => some .ldDel | .gHead => some .ldHeadG | .gNext => some .ldNextG | .dAssert => some .ldAssertD
    | .dLd2 => some .ldDel2 | _ => none)
  | .casNext .. => if pc = .gCas then some .casGc else none
  | .orNext .. => if pc = .dOr then some .orRem else none
  | .xchgNext .. => if pc = .dXchg then some .xchgOwn else none
  | _ => none

/-- the local labels of an L2 step, **with the values the global state determines** -/
def decor (s : State) (t : Nat) : Label → List LLabel :=
  let x := s.th t
  fun
  | .ldDel => [.ldNext x.node (s.nxt x.node) 0]
  | .orRem => [.orNext x.node 1 { s.nxt x.node with rem := true }, .hashOf (s.rev x.node) (s.hsh x.node),
               .bktAt (s.hsh x.node &&& (x.sz - 1)) (s.tbl (s.hsh x.node % x.sz))]
  | .ldHeadG => [.ldNext x.gbkt (s.nxt x.gbkt) 1]
  | .ldNextG => [.ldNext x.iter.ptr (s.nxt x.iter.ptr) 1]
  | .casGc => [.casNext x.prev x.iter { ptr := x.nx.ptr, bkt := x.iter.bkt } (s.nxt x.prev)]
  | .ldAssertD => [.ldNext x.node (s.nxt x.node) 0]
  | .ldDel2 => [.ldNext x.node (s.nxt x.node) 0]
  | .xchgOwn => [.xchgNext x.node { x.v with own := true } (s.nxt x.node)]
  | _ => []

/-- the node an L2 step dereferences (L2 crashes – sets `uaf` – when it is NULL, freed or was never linked) -/
def derefOf (s : State) (t : Nat) : Label → Nat :=
  let x := s.th t
  fun
  | .ldHeadG => x.gbkt
  | .ldNextG => x.iter.ptr
  | .casGc => x.prev
  | _ => x.node

theorem lgcPos_eq (s : State) (x : Thr) (h : x.gcont ≠ .shrink) : lgcPos s.rev x = some (gcPos s x) := by
  unfold lgcPos gcPos gcRet retPc
  cases hg : x.gcont <;> simp_all <;> split <;> rfl

@[simp] theorem setTh_th (s : State) (t : Nat) (x : Thr) : (setTh s t x).th t = x := by simp [setTh]
@[simp] theorem tick_th (s : State) : (tick s).th = s.th := rfl
@[simp] theorem tick_rev (s : State) : (tick s).rev = s.rev := rfl

/-- every non-crashing L2 step of thread `t` (labels in scope) is the local run `decor s t L` with the same `Out` -/
theorem proj_step (c : Cfg) (s s' : State) (t : Nat) (L : Label) (o o0 : Out)
    (hL : inScope L = true) (hcas : L = .casGc → (s.th t).pc = .gCas) (hor : c.ownerByOr = false)
    (hsh : (s.th t).gcont ≠ .shrink)
    (h : step c s t L = some (s', o)) (hnc : o ≠ .crash) :
    lrun s.rev (proj s t o0) (decor s t L) = some (proj s' t o) := by
  have hgp : ∀ x : Thr, x.gcont = (s.th t).gcont → lgcPos s.rev x = some (gcPos s x) :=
    fun x hx => lgcPos_eq s x (by rw [hx]; exact hsh)
  unfold step at h
  split at h
  · cases h
  · cases L <;> simp only [inScope, Bool.false_eq_true] at hL <;>
      simp only [stepDel, stepGc, stepAdd, crash] at h
    case ldDel =>
      split at h <;> try cases h
      rename_i hpc
      split at h
      · cases h; exact absurd rfl hnc
      · split at h <;> cases h <;> simp_all [decor, lrun, lstep, proj, mk]
    case orRem =>
      split at h <;> try cases h
      rename_i hpc
      split at h
      · cases h; exact absurd rfl hnc
      · cases h; simp_all [decor, lrun, lstep, proj, mk, setTh]
    case ldAssertD =>
      split at h <;> try cases h
      rename_i hpc
      split at h
      · cases h; exact absurd rfl hnc
      · cases h; simp_all [decor, lrun, lstep, proj, mk]
    case ldDel2 =>
      split at h <;> try cases h
      rename_i hpc
      split at h
      · cases h; exact absurd rfl hnc
      · cases h; simp_all [decor, lrun, lstep, proj, mk]
    case xchgOwn =>
      split at h <;> try cases h
      rename_i hpc
      split at h
      · cases h; exact absurd rfl hnc
      · split at h <;> cases h <;> simp_all [decor, lrun, lstep, proj, mk, setTh]
    case ldHeadG =>
      split at h <;> try cases h
      rename_i hpc
      split at h
      · cases h; exact absurd rfl hnc
      · cases h
        simp [decor, lrun, lstep, proj, mk, hpc, hgp]
    case ldNextG =>
      split at h <;> try cases h
      rename_i hpc
      split at h
      · cases h; exact absurd rfl hnc
      · split at h
        · cases h; simp_all [decor, lrun, lstep, proj, mk]
        · cases h; rename_i hr
          simp [decor, lrun, lstep, proj, mk, hpc, hgp, hr]
    case casGc =>
      have hpc := hcas rfl
      simp only [hpc, reduceCtorEq, false_or, if_true] at h
      split at h
      · cases h; exact absurd rfl hnc
      · split at h <;> cases h <;> simp [decor, lrun, lstep, proj, mk, hpc, unlink, setTh]

/-- conversely: the local automaton accepts the decorated label + the global guard (thread exists, the dereferenced
node is live) ⇒ the L2 step is enabled, with the local successor and the same `Out` -/
theorem lift_step (c : Cfg) (s : State) (t : Nat) (L : Label) (ls' : LState) (o0 : Out)
    (hL : inScope L = true) (hor : c.ownerByOr = false) (hsh : (s.th t).gcont ≠ .shrink)
    (ht : t < c.n) (hok : okp s (derefOf s t L) = true)
    (hto : (decor s t L).head?.bind (toL2 (s.th t).pc) = some L)
    (h : lrun s.rev (proj s t o0) (decor s t L) = some ls') :
    ∃ s', step c s t L = some (s', ls'.out) ∧ proj s' t ls'.out = ls' := by
  have hgp : ∀ x : Thr, x.gcont = (s.th t).gcont → lgcPos s.rev x = some (gcPos s x) :=
    fun x hx => lgcPos_eq s x (by rw [hx]; exact hsh)
  have ht' : ¬ c.n ≤ t := by omega
  cases L <;> simp only [inScope, Bool.false_eq_true] at hL <;> simp only [derefOf] at hok <;>
    cases hpc : (s.th t).pc <;> simp [decor, toL2, hpc] at hto <;>
    simp [decor, lrun, lstep, proj, mk, hpc, hgp] at h
  case ldDel.dLd =>
    by_cases hr : (s.nxt (s.th t).node).rem <;> simp [hr] at h <;> cases h <;> simp_all [step, stepDel, proj, mk]
  case orRem.dOr =>
    cases h; simp_all [step, stepDel, proj, mk, setTh]
  case ldAssertD.dAssert =>
    cases h; simp_all [step, stepDel, proj, mk]
  case ldDel2.dLd2 =>
    cases h; simp_all [step, stepDel, proj, mk]
  case xchgOwn.dXchg =>
    cases h; by_cases hown : (s.nxt (s.th t).node).own <;> simp_all [step, stepDel, proj, mk, setTh]
  case ldHeadG.gHead =>
    cases h; simp_all [step, stepGc, proj, mk]
  case ldNextG.gNext =>
    by_cases hr : (s.nxt (s.th t).iter.ptr).rem <;> simp [hr] at h <;> cases h <;> simp_all [step, stepGc, proj, mk]
  case casGc.gCas =>
    cases h
    by_cases hcas : s.nxt (s.th t).prev = (s.th t).iter <;>
      simp_all [step, stepAdd, proj, mk, unlink, setTh]

/-- no step of the local automaton changes the `node` argument of the call in progress -/
theorem lgcPos_node {rev : Nat → Nat} {x y : Thr} (h : lgcPos rev x = some y) : y.node = x.node := by
  unfold lgcPos at h; split at h
  · cases hr : retPc x.gcont <;> simp [hr] at h; subst h; rfl
  · cases h; rfl
theorem lstep_node {rev : Nat → Nat} {ls ls' : LState} {l : LLabel} (h : lstep rev ls l = some ls') :
    ls'.x.node = ls.x.node := by
  rcases ls with ⟨x, pend, out⟩
  cases pend with
  | hash n => cases l <;> simp [lstep] at h; obtain ⟨_, rfl⟩ := h; rfl
  | bkt hh => cases l <;> simp [lstep] at h; obtain ⟨_, rfl⟩ := h; rfl
  | none =>
    cases hpc : x.pc <;> cases l <;> simp [lstep, hpc, mk] at h
    all_goals first
      | (obtain ⟨_, rfl⟩ := h; rfl)
      | (obtain ⟨_, y, hy, rfl⟩ := h; simpa using lgcPos_node hy)
      | (obtain ⟨_, h⟩ := h; split at h <;> first | (simp at h; subst h; rfl) | (simp at h; obtain ⟨y, hy, rfl⟩ := h; simpa using lgcPos_node hy))
      | (split at h <;> first | (obtain ⟨_, rfl⟩ := h; rfl) | (cases h; rfl) | (simp at h; subst h; rfl))
theorem lrun_node {rev : Nat → Nat} : ∀ {ll : List LLabel} {ls ls' : LState}, lrun rev ls ll = some ls' →
    ls'.x.node = ls.x.node := by
  intro ll
  induction ll with
  | nil => intro ls ls' h; cases h; rfl
  | cons l r ih =>
    intro ls ls' h; simp only [lrun] at h
    cases hs : lstep rev ls l with
    | none => simp [hs] at h
    | some m => rw [hs] at h; rw [ih h, lstep_node hs]

end UrcuVerif.Src.LfhtL
