import UrcuVerif.Gen.Src
import UrcuVerif.Src.ReadLocal
/-!
# Read side (memb / mb / bp): the GENERATED source IR refines the thread-local projection of L2

For every function `f` of the read side the theorems below are about the regenerated value `Gen.Src.«f»` and say,
for every `fuel`, every oracle `inp` and every private environment related to a local L2 state `ls`:
`exec` does not fail, and the event sequence it produces (a *prefix* of the call when the oracle runs out) is accepted,
event by event and with the same values, by the local automaton `lstep` of `Src/ReadLocal.lean`
(`absRun … = some (labels, ls')`, and `absRun_lrun`: `lrun ls labels = some ls'`), the final environment is again related
to `ls'`, and a completed call leaves `ls'` at the pc after the call.

## Abstraction of events (`absEv`, for the grace-period model `Gp/Flip.lean`)

The abstraction looks at the event AND at the current local L2 state (it has to: the same C statement
`uatomic_store(ctr, tmp ± COUNT)` is L2's `rInc`, `rDec` or `rUnlock` depending on the nesting level); whatever label it
picks, `lstep` then *checks* the value carried by the event against the local state, so a wrong value is rejected.

* `ld rcu_gp.ctr v`          ↦ `rLd (phase bit of v)`
* `st reader.ctr v`          ↦ `rSt w` (pc `ld g`), else `rInc w` / `rUnlock w` / `rDec w` with `w = (v & NEST_MASK, phase bit of v)`
* `fence p` at pc `fence`    ↦ `rEnter (p = cmm_smp_mb)`: this is the slave barrier directly after the activating store
* any other access to `rcu_gp.ctr` or to the reader word: REJECTED (`none`)
* silent (`some none`), i.e. no L2 counterpart:
  - the `cmm_barrier()` at the start of `rcu_read_lock` and at the end of `rcu_read_unlock` (compiler barriers: no
    hardware effect; the IR is already in program order),
  - the slave barrier BEFORE the outermost unlock store (orders the section's loads before the store: L2's `rRead` steps
    read memory instantaneously and the TSO store buffer is FIFO, so that order is built into the model),
  - the slave barrier AFTER the outermost unlock store and the accesses of `urcu_common_wake_up_gp` (`ld/st gp->futex`,
    `futex_async`): they belong to the futex handshake model, see `absEvH` below.

## Futex handshake (`Handshake/Tso.lean`, waker automaton `hstep`)

An *outermost* `rcu_read_unlock` of memb / mb is one run `k0 → kf → k1 → (k2Wake → k3 | k2Skip) → k4` of waker `i`:
`absEvH` maps the unlock store (to an inactive word) to `k0`, the following slave barrier to `kf` (for mb the store is
`CMM_SEQ_CST`: `k0` and `kf true` at once), `ld gp->futex v` to `k1 v` (followed by the silent branch `k2Skip` when
`v ≠ -1`), `st gp->futex 0` to `k2Wake`, `futex_async(&gp->futex, FUTEX_WAKE, 1, NULL, NULL, 0)` to `k3`.
bp has no futex (its updater polls).

## Side conditions (all explicit hypotheses of the theorems)

* `Rel`: the thread's private view of its reader word is `enc lnest lph = lnest + (lph ? 2^32 : 0)`, `lnest < 2^32`;
* lock: `AtCall` (the call is made from the thread's normal control flow: pc `out` with nesting 0, or pc `cs` with
  nesting ≥ 1 – this is L2's invariant `Gp.Inv.cs_nest`; calls from a signal handler that interrupts `rcu_read_lock`
  itself at L2 pc `fence` (property C19) are covered separately by the `*_in_handler` theorems with the abstraction
  `absEvHdl`, see there), `reg = true` (what `urcu_assert_debug(registered)`
  states), `lnest + 1 < 2^32` (what `urcu_assert_debug((tmp & NEST_MASK) != NEST_MASK)` states);
* lock, oracle: the value returned by the load of `rcu_gp.ctr` has the shape `COUNT + phase bit` (`GpShape`).  This is an
  invariant of the UPDATER side (`rcu_gp.ctr` is initialised to `URCU_GP_COUNT` and only ever XOR-ed with
  `URCU_GP_CTR_PHASE`), assumed here, not proved;
* unlock: pc `cs`, `1 ≤ lnest` (what `urcu_assert_debug(tmp & NEST_MASK)` states); oracle (`hfx`): the value returned by
  the load of `gp->futex` is an integer (it is an `int32_t`);
* memb / bp: `urcu_*_has_sys_membarrier = b` in the private view and `sf = true → b = 0` (`sf` = `Cfg.slaveFence`);
* bp: the TLS pointer `urcu_bp_reader` is set (thread registered) and points to a heap object `obj k`.
-/
set_option maxRecDepth 8192
set_option linter.unusedSimpArgs false
set_option linter.unusedVariables false
namespace UrcuVerif.Src.Read
open UrcuVerif UrcuVerif.Src UrcuVerif.Gen.Src

/-! ## the reader word -/

/-- `nest + (ph ? URCU_GP_CTR_PHASE : 0)` -/
def enc (nest : Nat) (ph : Bool) : Int := (nest : Int) + (if ph then 4294967296 else 0)
/-- `(v & URCU_GP_CTR_NEST_MASK, v & URCU_GP_CTR_PHASE ≠ 0)` -/
def decWord (n : Int) : Nat × Bool := (n.toNat % 4294967296, decide ((n.toNat / 4294967296) % 2 = 1))

theorem enc_toNat (n : Nat) (p : Bool) : (enc n p).toNat = n + (if p then 4294967296 else 0) := by
  unfold enc; cases p <;> simp <;> omega
theorem enc_nonneg (n p) : 0 ≤ enc n p := by unfold enc; split <;> omega
theorem decWord_enc (n : Nat) (p : Bool) (h : n < 4294967296) : decWord (enc n p) = (n, p) := by
  unfold decWord; rw [enc_toNat]
  cases p <;> simp <;> omega
theorem and_mask (x : Nat) : x &&& 4294967295 = x % 4294967296 := Nat.and_two_pow_sub_one_eq_mod x 32
theorem band_mask (n : Nat) (p : Bool) (h : n < 4294967296) :
    evalBin .band (.int (enc n p)) (.int 4294967295) = .ok (.int (n : Int)) := by
  have h0 := enc_nonneg n p
  have : (4294967295 : Int).toNat = 4294967295 := by decide
  simp only [evalBin, h0, true_and, enc_toNat, this, and_mask]
  cases p <;> simp <;> omega
theorem enc_add_one (n p) : enc n p + 1 = enc (n + 1) p := by unfold enc; omega
theorem enc_sub_one (n p) (h : 1 ≤ n) : enc n p - 1 = enc (n - 1) p := by unfold enc; omega
theorem enc_one_sub_one (p) : enc 1 p - 1 = enc 0 p := by unfold enc; omega

theorem evalBin_add (a b : Int) : evalBin .add (.int a) (.int b) = .ok (.int (a + b)) := rfl
theorem evalBin_sub (a b : Int) : evalBin .sub (.int a) (.int b) = .ok (.int (a - b)) := rfl
theorem evalBin_eq (a b : Val) : evalBin .eq a b = .ok (boolV (a = b)) := by cases a <;> cases b <;> rfl
theorem evalBin_ne (a b : Val) : evalBin .ne a b = .ok (boolV (a ≠ b)) := by cases a <;> cases b <;> rfl

/-! ## flavors -/

structure Flavor where
  gpCtr : Loc      -- `&rcu_gp.ctr`
  rdCtr : Loc      -- `&rcu_reader.ctr` of the executing thread
  futex : Loc      -- `&rcu_gp.futex`

def memb : Flavor :=
  { gpCtr := .field (.glob "urcu_memb_gp") "ctr", rdCtr := .field (.tls "urcu_memb_reader") "ctr",
    futex := .field (.glob "urcu_memb_gp") "futex" }
def mb : Flavor :=
  { gpCtr := .field (.glob "urcu_mb_gp") "ctr", rdCtr := .field (.tls "urcu_mb_reader") "ctr",
    futex := .field (.glob "urcu_mb_gp") "futex" }
/-- bp: `URCU_TLS(urcu_bp_reader)` is a pointer to the thread's slot `obj k` of the registry arena -/
def bp (k : Nat) : Flavor :=
  { gpCtr := .field (.glob "urcu_bp_gp") "ctr", rdCtr := .field (.obj k) "ctr",
    futex := .field (.glob "urcu_bp_gp") "futex" }

def Event.loc? : Event → Option Loc
  | .ld l _ _ | .st l _ _ | .xchg l _ _ _ | .cas l _ _ _ _ _ | .rmw _ l _ _ _ => some l
  | _ => none

/-! ## abstraction to the grace-period model -/

/-- `none` = the event has no place in the reader protocol (rejected); `some none` = no L2 counterpart (silent);
`some (some l)` = L2 label `l` of the executing thread -/
def absEv (fl : Flavor) (ls : LState) (e : Event) : Option (Option LLabel) :=
  match e with
  | .ld l (.int n) _ =>
    if l = fl.gpCtr then some (some (.rLd (decWord n).2)) else if l = fl.rdCtr then none else some none
  | .st l (.int n) _ =>
    if l = fl.rdCtr then
      match ls.rpc with
      | .ld _ => some (some (.rSt (decWord n)))
      | _ =>
        if ls.lnest < (decWord n).1 then some (some (.rInc (decWord n)))
        else if ls.lnest = 1 then some (some (.rUnlock (decWord n)))
        else some (some (.rDec (decWord n)))
    else if l = fl.gpCtr then none else some none
  | .fence p => if ls.rpc = .fence then some (some (.rEnter (decide (p = .mb)))) else some none
  | e =>
    match Event.loc? e with
    | some l => if l = fl.rdCtr ∨ l = fl.gpCtr then none else some none
    | none => some none

/-- abstract the events one by one and run the local automaton on the labels; result = (labels, final local state) -/
def absRun (sf : Bool) (fl : Flavor) : LState → List Event → Option (List LLabel × LState)
  | ls, [] => some ([], ls)
  | ls, e :: es =>
    match absEv fl ls e with
    | none => none
    | some none => absRun sf fl ls es
    | some (some l) =>
      match lstep sf ls l with
      | none => none
      | some ls1 =>
        match absRun sf fl ls1 es with
        | some (labs, ls2) => some (l :: labs, ls2)
        | none => none

theorem absRun_lrun (sf fl) : ∀ (es : List Event) (ls labs ls'),
    absRun sf fl ls es = some (labs, ls') → lrun sf ls labs = some ls' := by
  intro es
  induction es with
  | nil => intro ls labs ls' h; simp [absRun] at h; obtain ⟨rfl, rfl⟩ := h; rfl
  | cons e es ih =>
    intro ls labs ls' h
    simp only [absRun] at h
    split at h
    · simp at h
    · exact ih _ _ _ h
    · split at h
      · simp at h
      · rename_i l _ ls1 h1
        split at h
        · rename_i labs2 ls2 h2
          simp only [Option.some.injEq, Prod.mk.injEq] at h
          obtain ⟨rfl, rfl⟩ := h
          simp only [lrun, h1]
          exact ih _ _ _ h2
        · simp at h

/-! ## abstraction to the futex handshake model -/

/-- the argument list of `futex_async(&gp->futex, FUTEX_WAKE, 1, NULL, NULL, 0)` -/
def wakeArgs (fl : Flavor) : List Val := [.ptr fl.futex, .int 1, .int 1, .int 0, .int 0, .int 0]

/-- `none` = rejected; `some labels` (possibly empty) otherwise -/
def absEvH (fl : Flavor) (hs : HState) (e : Event) : Option (List HLabel) :=
  match e with
  | .st l (.int n) mo =>
    if l = fl.rdCtr then
      if hs.kpc = .k0 ∧ (decWord n).1 = 0 then some (if mo = 5 then [.k0, .kf true] else [.k0]) else none
    else if l = fl.futex then (if n = 0 then some [.k2Wake] else none)
    else some []
  | .fence p => if hs.kpc = .kf then some [.kf (decide (p = .mb))] else some []
  | .ld l (.int n) _ =>
    if l = fl.futex then some (if n = -1 then [.k1 n] else [.k1 n, .k2Skip])
    else if l = fl.rdCtr then none else some []
  | .ext name args _ =>
    if name = "futex_async" then (if args = wakeArgs fl then some [.k3] else none) else some []
  | e =>
    match Event.loc? e with
    | some l => if l = fl.rdCtr ∨ l = fl.futex then none else some []
    | none => some []

def absRunH (sf : Bool) (fl : Flavor) : HState → List Event → Option (List HLabel × HState)
  | hs, [] => some ([], hs)
  | hs, e :: es =>
    match absEvH fl hs e with
    | none => none
    | some ls =>
      match hrun sf hs ls with
      | none => none
      | some hs1 =>
        match absRunH sf fl hs1 es with
        | some (labs, hs2) => some (ls ++ labs, hs2)
        | none => none

theorem hrun_append (sf) : ∀ (a b : List HLabel) (hs hs1 hs2), hrun sf hs a = some hs1 → hrun sf hs1 b = some hs2 →
    hrun sf hs (a ++ b) = some hs2 := by
  intro a
  induction a with
  | nil => intro b hs hs1 hs2 h1 h2; simp [hrun] at h1; subst h1; simpa using h2
  | cons x a ih =>
    intro b hs hs1 hs2 h1 h2
    simp only [hrun, List.cons_append] at h1 ⊢
    split at h1
    · exact ih _ _ _ _ h1 h2
    · simp at h1

theorem absRunH_hrun (sf fl) : ∀ (es : List Event) (hs labs hs'),
    absRunH sf fl hs es = some (labs, hs') → hrun sf hs labs = some hs' := by
  intro es
  induction es with
  | nil => intro hs labs hs' h; simp [absRunH] at h; obtain ⟨rfl, rfl⟩ := h; rfl
  | cons e es ih =>
    intro hs labs hs' h
    simp only [absRunH] at h
    split at h
    · simp at h
    · split at h
      · simp at h
      · rename_i ls _ hs1 h1
        split at h
        · rename_i labs2 hs2 h2
          simp only [Option.some.injEq, Prod.mk.injEq] at h
          obtain ⟨rfl, rfl⟩ := h
          exact hrun_append sf _ _ _ _ _ h1 (ih _ _ _ h2)
        · simp at h

/-! ## relation between the private environment and the local state; pre / post conditions -/

def Rel (fl : Flavor) (env : Env) (ls : LState) : Prop :=
  env.priv fl.rdCtr = some (.int (enc ls.lnest ls.lph)) ∧ ls.lnest < 4294967296

/-- `rcu_gp.ctr` holds `URCU_GP_COUNT` plus possibly the phase bit (updater-side invariant, assumed) -/
def GpShape (v : Val) : Prop := ∃ g : Bool, v = .int (enc 1 g)

/-- the thread calls from its normal control flow (L2 invariant `cs_nest`) -/
def AtCall (ls : LState) : Prop := (ls.rpc = .out ∧ ls.lnest = 0) ∨ (ls.rpc = .cs ∧ 1 ≤ ls.lnest)

/-- what a `rcu_read_lock` call guarantees -/
def LockPost (sf : Bool) (fl : Flavor) (env : Env) (ls : LState) (out : Out) : Prop :=
  ∃ labs ls', absRun sf fl ls out.events = some (labs, ls') ∧ Rel fl out.env ls' ∧
    (∀ l, l ≠ fl.rdCtr → out.env.priv l = env.priv l) ∧
    (out.ctl = .normal ∨ out.ctl = .blocked) ∧
    (out.ctl = .normal → ls'.rpc = .cs ∧ ls'.lnest = ls.lnest + 1 ∧ ls'.reg = ls.reg ∧ ls'.held = ls.held ∧
      (1 ≤ ls.lnest → ls'.lph = ls.lph))

/-- what a `rcu_read_unlock` call guarantees w.r.t. the grace-period model -/
def UnlockPost (sf : Bool) (fl : Flavor) (env : Env) (ls : LState) (out : Out) : Prop :=
  ∃ labs ls', absRun sf fl ls out.events = some (labs, ls') ∧ Rel fl out.env ls' ∧
    (∀ l, l ≠ fl.rdCtr → l ≠ fl.futex → out.env.priv l = env.priv l) ∧
    (out.ctl = .normal ∨ out.ctl = .blocked) ∧
    (out.ctl = .normal →
      ls' = { ls with lnest := ls.lnest - 1, rpc := if ls.lnest = 1 then .out else .cs })

/-- what an outermost `rcu_read_unlock` call guarantees w.r.t. the futex handshake model: from waker pc `k0` (any
register content `r0`) the events are a run of the waker automaton, ending at `k4` when the call completes -/
def WakePost (sf : Bool) (fl : Flavor) (out : Out) : Prop :=
  ∀ r0, ∃ hlabs hs', absRunH sf fl { kpc := .k0, r := r0 } out.events = some (hlabs, hs') ∧
    (out.ctl = .normal → hs'.kpc = .k4)

/-! ## symbolic execution -/

theorem exists_pair_eq {α β} (a : α) (b : β) (P : α → β → Prop) : (∃ x y, (a = x ∧ b = y) ∧ P x y) ↔ P a b := by
  constructor
  · rintro ⟨x, y, ⟨rfl, rfl⟩, h⟩; exact h
  · intro h; exact ⟨a, b, ⟨rfl, rfl⟩, h⟩
theorem exists_pair_eq' {α β} (a : α) (b : β) (P : α → β → Prop) : (∃ x y, (x = a ∧ b = y) ∧ P x y) ↔ P a b := by
  constructor
  · rintro ⟨x, y, ⟨rfl, rfl⟩, h⟩; exact h
  · intro h; exact ⟨a, b, ⟨rfl, rfl⟩, h⟩
theorem exists_pair_eq0 {α β} (a : α) (b : β) : (∃ x y, (a = x ∧ b = y)) ↔ True := by
  simp

open Lean.Parser.Tactic in
/-- unfold the IR semantics on a closed program text -/
macro "exec_simp" "[" ts:simpLemma,* "]" : tactic =>
  `(tactic| simp [block, exec, eval, evalArgs, execPrim, bind, Except.bind, asLoc, Env.setVar, Env.setPriv, bindParams,
      setDst, evalUn, evalBin_add, evalBin_sub, evalBin_eq, evalBin_ne, boolV, Val.truthy, band_mask, enc_add_one,
      enc_sub_one, enc_one_sub_one, *, $ts,*])

open Lean.Parser.Tactic in
/-- run the abstraction and the local automata on a closed event list -/
macro "abs_simp" "[" ts:simpLemma,* "]" : tactic =>
  `(tactic| (simp [absRun, absEv, lstep, absRunH, absEvH, hrun, hstep, wakeArgs, Rel, decWord_enc, Event.loc?,
               exists_pair_eq, exists_pair_eq', *, $ts,*]
             try (simp +contextual [*])))

/-! ## memb -/

theorem memb_read_lock (sf : Bool) (fuel : Nat) (env : Env) (inp : List Val) (ls : LState) (b : Int)
    (hb : env.priv (.glob "urcu_memb_has_sys_membarrier") = some (.int b)) (hsf : sf = true → b = 0)
    (hrel : Rel memb env ls) (hcall : AtCall ls) (hreg : ls.reg = true) (hmax : ls.lnest + 1 < 4294967296)
    (hgp : ∀ v, inp.head? = some v → GpShape v) :
    ∃ out, exec fuel «_urcu_memb_read_lock» env inp = .ok out ∧ LockPost sf memb env ls out := by
  obtain ⟨rpc, reg, held, lnest, lph⟩ := ls
  obtain ⟨hrel, hlt⟩ := hrel
  simp only [memb] at hrel
  simp only at hlt hreg hmax
  subst hreg
  rcases hcall with ⟨h1, h2⟩ | ⟨h1, h2⟩
  · simp only at h1 h2; subst h1; subst h2
    cases inp with
    | nil =>
      exec_simp [«_urcu_memb_read_lock», «_urcu_memb_read_lock_update», «urcu_memb_smp_mb_slave», hrel, hb, LockPost]
      abs_simp [memb, hrel]
    | cons v rest =>
      obtain ⟨g, rfl⟩ := hgp v rfl
      by_cases hb0 : b = 0
      · subst hb0
        exec_simp [«_urcu_memb_read_lock», «_urcu_memb_read_lock_update», «urcu_memb_smp_mb_slave», hrel, hb, LockPost]
        abs_simp [memb, hrel]
      · have hsf' : sf = false := by cases sf <;> simp_all
        subst hsf'
        exec_simp [«_urcu_memb_read_lock», «_urcu_memb_read_lock_update», «urcu_memb_smp_mb_slave», hrel, hb, hb0,
          LockPost]
        abs_simp [memb, hrel]
  · simp only at h1 h2; subst h1
    have hn : (lnest : Int) ≠ 0 := by omega
    have hn0 : lnest ≠ 0 := by omega
    exec_simp [«_urcu_memb_read_lock», «_urcu_memb_read_lock_update», «urcu_memb_smp_mb_slave», hrel, hb, hn, hn0, hlt,
      LockPost]
    abs_simp [memb, hrel, hmax]

set_option hygiene false in
macro "memb_unlock_go" : tactic =>
  `(tactic| (exec_simp [«_urcu_memb_read_unlock», «_urcu_memb_read_unlock_update_and_wakeup», «urcu_common_wake_up_gp»,
               «urcu_memb_smp_mb_slave», hrel, hb, UnlockPost, WakePost] <;> abs_simp [memb, hrel]))

/-- `hfx`: the futex word is an integer (the oracle value of the load of `gp->futex`) -/
theorem memb_read_unlock (sf : Bool) (fuel : Nat) (env : Env) (inp : List Val) (ls : LState) (b : Int)
    (hb : env.priv (.glob "urcu_memb_has_sys_membarrier") = some (.int b)) (hsf : sf = true → b = 0)
    (hrel : Rel memb env ls) (hcs : ls.rpc = .cs) (hn : 1 ≤ ls.lnest)
    (hfx : ∀ v, inp.head? = some v → ∃ n : Int, v = .int n) :
    ∃ out, exec fuel «_urcu_memb_read_unlock» env inp = .ok out ∧ UnlockPost sf memb env ls out ∧
      (ls.lnest = 1 → WakePost sf memb out) := by
  obtain ⟨rpc, reg, held, lnest, lph⟩ := ls
  obtain ⟨hrel, hlt⟩ := hrel
  simp only [memb] at hrel
  simp only at hlt hcs hn
  subst hcs
  by_cases h1 : lnest = 1
  · subst h1
    have hsf' : b = 0 ∨ (b ≠ 0 ∧ sf = false) := by
      by_cases hb0 : b = 0
      · exact .inl hb0
      · right; cases sf <;> simp_all
    clear hsf
    rcases hsf' with rfl | ⟨hb0, rfl⟩
    all_goals
      cases inp with
      | nil => memb_unlock_go
      | cons v rest =>
        obtain ⟨n, rfl⟩ := hfx v rfl
        by_cases hv : n = -1
        · subst hv
          cases rest with
          | nil => memb_unlock_go
          | cons r rest => memb_unlock_go
        · memb_unlock_go
  · have hi : (lnest : Int) ≠ 1 := by omega
    have h2 : 2 ≤ lnest := by omega
    have h3 : lnest - 1 < 4294967296 := by omega
    have h4 : ¬ lnest < lnest - 1 := by omega
    memb_unlock_go

/-- `rcu_read_ongoing()`: no shared access; returns L2's own-view nesting count -/
theorem memb_read_ongoing (fuel : Nat) (env : Env) (inp : List Val) (ls : LState) (hrel : Rel memb env ls) :
    exec fuel «_urcu_memb_read_ongoing» env inp =
      .ok { events := [], env := env, inp := inp, ctl := .ret (some (.int ls.lnest)) } := by
  obtain ⟨hrel, hlt⟩ := hrel
  simp only [memb] at hrel
  exec_simp [«_urcu_memb_read_ongoing», hrel]

/-! ## mb (always a real fence: any `sf`) -/

theorem mb_read_lock (sf : Bool) (fuel : Nat) (env : Env) (inp : List Val) (ls : LState)
    (hrel : Rel mb env ls) (hcall : AtCall ls) (hreg : ls.reg = true) (hmax : ls.lnest + 1 < 4294967296)
    (hgp : ∀ v, inp.head? = some v → GpShape v) :
    ∃ out, exec fuel «_urcu_mb_read_lock» env inp = .ok out ∧ LockPost sf mb env ls out := by
  obtain ⟨rpc, reg, held, lnest, lph⟩ := ls
  obtain ⟨hrel, hlt⟩ := hrel
  simp only [mb] at hrel
  simp only at hlt hreg hmax
  subst hreg
  rcases hcall with ⟨h1, h2⟩ | ⟨h1, h2⟩
  · simp only at h1 h2; subst h1; subst h2
    cases inp with
    | nil =>
      exec_simp [«_urcu_mb_read_lock», «_urcu_mb_read_lock_update», hrel, LockPost]
      abs_simp [mb, hrel]
    | cons v rest =>
      obtain ⟨g, rfl⟩ := hgp v rfl
      exec_simp [«_urcu_mb_read_lock», «_urcu_mb_read_lock_update», hrel, LockPost]
      abs_simp [mb, hrel]
  · simp only at h1 h2; subst h1
    have hn : (lnest : Int) ≠ 0 := by omega
    have hn0 : lnest ≠ 0 := by omega
    exec_simp [«_urcu_mb_read_lock», «_urcu_mb_read_lock_update», hrel, LockPost]
    abs_simp [mb, hrel]

set_option hygiene false in
macro "mb_unlock_go" : tactic =>
  `(tactic| (exec_simp [«_urcu_mb_read_unlock», «_urcu_mb_read_unlock_update_and_wakeup», «urcu_common_wake_up_gp»,
               hrel, UnlockPost, WakePost] <;> abs_simp [mb, hrel]))

theorem mb_read_unlock (sf : Bool) (fuel : Nat) (env : Env) (inp : List Val) (ls : LState)
    (hrel : Rel mb env ls) (hcs : ls.rpc = .cs) (hn : 1 ≤ ls.lnest)
    (hfx : ∀ v, inp.head? = some v → ∃ n : Int, v = .int n) :
    ∃ out, exec fuel «_urcu_mb_read_unlock» env inp = .ok out ∧ UnlockPost sf mb env ls out ∧
      (ls.lnest = 1 → WakePost sf mb out) := by
  obtain ⟨rpc, reg, held, lnest, lph⟩ := ls
  obtain ⟨hrel, hlt⟩ := hrel
  simp only [mb] at hrel
  simp only at hlt hcs hn
  subst hcs
  by_cases h1 : lnest = 1
  · subst h1
    cases inp with
    | nil => mb_unlock_go
    | cons v rest =>
      obtain ⟨n, rfl⟩ := hfx v rfl
      by_cases hv : n = -1
      · subst hv
        cases rest with
        | nil => mb_unlock_go
        | cons r rest => mb_unlock_go
      · mb_unlock_go
  · have hi : (lnest : Int) ≠ 1 := by omega
    have h2 : 2 ≤ lnest := by omega
    have h3 : lnest - 1 < 4294967296 := by omega
    have h4 : ¬ lnest < lnest - 1 := by omega
    mb_unlock_go

theorem mb_read_ongoing (fuel : Nat) (env : Env) (inp : List Val) (ls : LState) (hrel : Rel mb env ls) :
    exec fuel «_urcu_mb_read_ongoing» env inp =
      .ok { events := [], env := env, inp := inp, ctl := .ret (some (.int ls.lnest)) } := by
  obtain ⟨hrel, hlt⟩ := hrel
  simp only [mb] at hrel
  exec_simp [«_urcu_mb_read_ongoing», hrel]

/-! ## bp (registered thread: `URCU_TLS(urcu_bp_reader) = &arena slot k`) -/

theorem bp_read_lock (sf : Bool) (fuel : Nat) (env : Env) (inp : List Val) (ls : LState) (b : Int) (k : Nat)
    (hp : env.priv (.tls "urcu_bp_reader") = some (.ptr (.obj k)))
    (hb : env.priv (.glob "urcu_bp_has_sys_membarrier") = some (.int b)) (hsf : sf = true → b = 0)
    (hrel : Rel (bp k) env ls) (hcall : AtCall ls) (hreg : ls.reg = true) (hmax : ls.lnest + 1 < 4294967296)
    (hgp : ∀ v, inp.head? = some v → GpShape v) :
    ∃ out, exec fuel «_urcu_bp_read_lock» env inp = .ok out ∧ LockPost sf (bp k) env ls out := by
  obtain ⟨rpc, reg, held, lnest, lph⟩ := ls
  obtain ⟨hrel, hlt⟩ := hrel
  simp only [bp] at hrel
  simp only at hlt hreg hmax
  subst hreg
  rcases hcall with ⟨h1, h2⟩ | ⟨h1, h2⟩
  · simp only at h1 h2; subst h1; subst h2
    cases inp with
    | nil =>
      exec_simp [«_urcu_bp_read_lock», «_urcu_bp_read_lock_update», «urcu_bp_smp_mb_slave», hrel, hb, hp, LockPost]
      abs_simp [bp, hrel]
    | cons v rest =>
      obtain ⟨g, rfl⟩ := hgp v rfl
      by_cases hb0 : b = 0
      · subst hb0
        exec_simp [«_urcu_bp_read_lock», «_urcu_bp_read_lock_update», «urcu_bp_smp_mb_slave», hrel, hb, hp, LockPost]
        abs_simp [bp, hrel]
      · have hsf' : sf = false := by cases sf <;> simp_all
        subst hsf'
        exec_simp [«_urcu_bp_read_lock», «_urcu_bp_read_lock_update», «urcu_bp_smp_mb_slave», hrel, hb, hp, LockPost]
        abs_simp [bp, hrel]
  · simp only at h1 h2; subst h1
    have hn : (lnest : Int) ≠ 0 := by omega
    have hn0 : lnest ≠ 0 := by omega
    exec_simp [«_urcu_bp_read_lock», «_urcu_bp_read_lock_update», «urcu_bp_smp_mb_slave», hrel, hb, hp, LockPost]
    abs_simp [bp, hrel]

/-- bp has no futex: the unlock is slave barrier; store; compiler barrier, at every nesting level -/
theorem bp_read_unlock (sf : Bool) (fuel : Nat) (env : Env) (inp : List Val) (ls : LState) (b : Int) (k : Nat)
    (hp : env.priv (.tls "urcu_bp_reader") = some (.ptr (.obj k)))
    (hb : env.priv (.glob "urcu_bp_has_sys_membarrier") = some (.int b))
    (hrel : Rel (bp k) env ls) (hcs : ls.rpc = .cs) (hn : 1 ≤ ls.lnest) :
    ∃ out, exec fuel «_urcu_bp_read_unlock» env inp = .ok out ∧ UnlockPost sf (bp k) env ls out ∧
      out.ctl = .normal ∧ out.inp = inp := by
  obtain ⟨rpc, reg, held, lnest, lph⟩ := ls
  obtain ⟨hrel, hlt⟩ := hrel
  simp only [bp] at hrel
  simp only at hlt hcs hn
  subst hcs
  by_cases hb0 : b = 0 <;> by_cases h1 : lnest = 1
  all_goals
    first
    | (subst h1
       exec_simp [«_urcu_bp_read_unlock», «urcu_bp_smp_mb_slave», hrel, hb, hp, UnlockPost]
       abs_simp [bp, hrel])
    | (have h2 : 2 ≤ lnest := by omega
       have h3 : lnest - 1 < 4294967296 := by omega
       have h4 : ¬ lnest < lnest - 1 := by omega
       exec_simp [«_urcu_bp_read_unlock», «urcu_bp_smp_mb_slave», hrel, hb, hp, UnlockPost]
       abs_simp [bp, hrel])

theorem bp_read_ongoing (fuel : Nat) (env : Env) (inp : List Val) (ls : LState) (k : Nat)
    (hp : env.priv (.tls "urcu_bp_reader") = some (.ptr (.obj k))) (hrel : Rel (bp k) env ls) :
    exec fuel «_urcu_bp_read_ongoing» env inp =
      .ok { events := [], env := env, inp := inp, ctl := .ret (some (.int ls.lnest)) } := by
  obtain ⟨hrel, hlt⟩ := hrel
  simp only [bp] at hrel
  exec_simp [«_urcu_bp_read_ongoing», hrel, hp]

/-! ## calls made by a signal handler that interrupted `rcu_read_lock` between its activating store and the end of its
slave barrier (L2 pc `fence`, property C19)

The handler's sections are nested (`lnest ≥ 1` throughout) and balanced.  In its frames every fence is a compiler barrier
of the nested path (`cmm_barrier()`), never the interrupted frame's slave barrier, so the abstraction `absEvHdl` keeps all
fences silent and is otherwise `absEv`.  (A handler that interrupts at L2 pc `ld g` runs after L2's `sigPush`, i.e. at pc
`out` with nesting 0: covered by the main theorems.) -/

def absEvHdl (fl : Flavor) (ls : LState) (e : Event) : Option (Option LLabel) :=
  match e with
  | .fence _ => some none
  | e => absEv fl ls e

def absRunHdl (sf : Bool) (fl : Flavor) : LState → List Event → Option (List LLabel × LState)
  | ls, [] => some ([], ls)
  | ls, e :: es =>
    match absEvHdl fl ls e with
    | none => none
    | some none => absRunHdl sf fl ls es
    | some (some l) =>
      match lstep sf ls l with
      | none => none
      | some ls1 =>
        match absRunHdl sf fl ls1 es with
        | some (labs, ls2) => some (l :: labs, ls2)
        | none => none

theorem absRunHdl_lrun (sf fl) : ∀ (es : List Event) (ls labs ls'),
    absRunHdl sf fl ls es = some (labs, ls') → lrun sf ls labs = some ls' := by
  intro es
  induction es with
  | nil => intro ls labs ls' h; simp [absRunHdl] at h; obtain ⟨rfl, rfl⟩ := h; rfl
  | cons e es ih =>
    intro ls labs ls' h
    simp only [absRunHdl] at h
    split at h
    · simp at h
    · exact ih _ _ _ h
    · split at h
      · simp at h
      · rename_i l _ ls1 h1
        split at h
        · rename_i labs2 ls2 h2
          simp only [Option.some.injEq, Prod.mk.injEq] at h
          obtain ⟨rfl, rfl⟩ := h
          simp only [lrun, h1]
          exact ih _ _ _ h2
        · simp at h

/-- nested `rcu_read_lock` in a handler at pc `fence`: `rInc` -/
def HdlLockPost (sf : Bool) (fl : Flavor) (env : Env) (ls : LState) (out : Out) : Prop :=
  absRunHdl sf fl ls out.events =
      some ([.rInc (ls.lnest + 1, ls.lph)], { ls with lnest := ls.lnest + 1 }) ∧
    Rel fl out.env { ls with lnest := ls.lnest + 1 } ∧
    (∀ l, l ≠ fl.rdCtr → out.env.priv l = env.priv l) ∧ out.ctl = .normal
/-- nested `rcu_read_unlock` in a handler at pc `fence`: `rDec` -/
def HdlUnlockPost (sf : Bool) (fl : Flavor) (env : Env) (ls : LState) (out : Out) : Prop :=
  absRunHdl sf fl ls out.events =
      some ([.rDec (ls.lnest - 1, ls.lph)], { ls with lnest := ls.lnest - 1 }) ∧
    Rel fl out.env { ls with lnest := ls.lnest - 1 } ∧
    (∀ l, l ≠ fl.rdCtr → out.env.priv l = env.priv l) ∧ out.ctl = .normal

set_option hygiene false in
macro "hdl_simp" : tactic =>
  `(tactic| (exec_simp [«_urcu_memb_read_lock», «_urcu_memb_read_lock_update», «_urcu_memb_read_unlock»,
               «_urcu_memb_read_unlock_update_and_wakeup», «_urcu_mb_read_lock», «_urcu_mb_read_lock_update»,
               «_urcu_mb_read_unlock», «_urcu_mb_read_unlock_update_and_wakeup», «_urcu_bp_read_lock»,
               «_urcu_bp_read_lock_update», «_urcu_bp_read_unlock», «urcu_bp_smp_mb_slave», hrel, HdlLockPost,
               HdlUnlockPost] <;>
             (simp [absRunHdl, absEvHdl, absEv, lstep, Rel, decWord_enc, memb, mb, bp, *]
              try (simp +contextual [*]))))

set_option hygiene false in
macro "hdl_lock" : tactic =>
  `(tactic| (obtain ⟨rpc, reg, held, lnest, lph⟩ := ls
             obtain ⟨hrel, hlt⟩ := hrel
             obtain ⟨hn, hmax⟩ := hn
             simp only [memb, mb, bp] at hrel
             simp only at hlt hpc hn hmax
             subst hpc
             have hn0 : (lnest : Int) ≠ 0 := by omega
             have hn0' : lnest ≠ 0 := by omega
             hdl_simp))

set_option hygiene false in
macro "hdl_unlock" : tactic =>
  `(tactic| (obtain ⟨rpc, reg, held, lnest, lph⟩ := ls
             obtain ⟨hrel, hlt⟩ := hrel
             simp only [memb, mb, bp] at hrel
             simp only at hlt hpc hn
             subst hpc
             have hn1 : (lnest : Int) ≠ 1 := by omega
             have hn1' : lnest ≠ 1 := by omega
             have hn1'' : 1 ≤ lnest := by omega
             have h3 : lnest - 1 < 4294967296 := by omega
             have h4 : ¬ lnest < lnest - 1 := by omega
             hdl_simp))

theorem memb_read_lock_in_handler (sf : Bool) (fuel : Nat) (env : Env) (inp : List Val) (ls : LState)
    (hrel : Rel memb env ls) (hpc : ls.rpc = .fence) (hn : 1 ≤ ls.lnest ∧ ls.lnest + 1 < 4294967296) :
    ∃ out, exec fuel «_urcu_memb_read_lock» env inp = .ok out ∧ HdlLockPost sf memb env ls out := by
  hdl_lock

theorem memb_read_unlock_in_handler (sf : Bool) (fuel : Nat) (env : Env) (inp : List Val) (ls : LState)
    (hrel : Rel memb env ls) (hpc : ls.rpc = .fence) (hn : 2 ≤ ls.lnest) :
    ∃ out, exec fuel «_urcu_memb_read_unlock» env inp = .ok out ∧ HdlUnlockPost sf memb env ls out := by
  hdl_unlock

theorem mb_read_lock_in_handler (sf : Bool) (fuel : Nat) (env : Env) (inp : List Val) (ls : LState)
    (hrel : Rel mb env ls) (hpc : ls.rpc = .fence) (hn : 1 ≤ ls.lnest ∧ ls.lnest + 1 < 4294967296) :
    ∃ out, exec fuel «_urcu_mb_read_lock» env inp = .ok out ∧ HdlLockPost sf mb env ls out := by
  hdl_lock

theorem mb_read_unlock_in_handler (sf : Bool) (fuel : Nat) (env : Env) (inp : List Val) (ls : LState)
    (hrel : Rel mb env ls) (hpc : ls.rpc = .fence) (hn : 2 ≤ ls.lnest) :
    ∃ out, exec fuel «_urcu_mb_read_unlock» env inp = .ok out ∧ HdlUnlockPost sf mb env ls out := by
  hdl_unlock

theorem bp_read_lock_in_handler (sf : Bool) (fuel : Nat) (env : Env) (inp : List Val) (ls : LState) (k : Nat)
    (hp : env.priv (.tls "urcu_bp_reader") = some (.ptr (.obj k)))
    (hrel : Rel (bp k) env ls) (hpc : ls.rpc = .fence) (hn : 1 ≤ ls.lnest ∧ ls.lnest + 1 < 4294967296) :
    ∃ out, exec fuel «_urcu_bp_read_lock» env inp = .ok out ∧ HdlLockPost sf (bp k) env ls out := by
  hdl_lock

theorem bp_read_unlock_in_handler (sf : Bool) (fuel : Nat) (env : Env) (inp : List Val) (ls : LState) (k : Nat) (b : Int)
    (hp : env.priv (.tls "urcu_bp_reader") = some (.ptr (.obj k)))
    (hb : env.priv (.glob "urcu_bp_has_sys_membarrier") = some (.int b))
    (hrel : Rel (bp k) env ls) (hpc : ls.rpc = .fence) (hn : 2 ≤ ls.lnest) :
    ∃ out, exec fuel «_urcu_bp_read_unlock» env inp = .ok out ∧ HdlUnlockPost sf (bp k) env ls out := by
  by_cases hb0 : b = 0 <;> hdl_unlock

/-- the lazy-registration test at the head of `_urcu_bp_read_lock` / `_urcu_bp_read_ongoing` -/
def bpRegisterTest : Stmt :=
  .ifte (.un .lnot (.pload (.addrTls "urcu_bp_reader"))) (.prim none (.ext "urcu_bp_register") []) .skip

/-- unregistered thread (`URCU_TLS(urcu_bp_reader) == NULL`): the generated text of `_urcu_bp_read_lock` /
`_urcu_bp_read_ongoing` starts with `bpRegisterTest`, whose only event is the external call `urcu_bp_register()`.
(The IR semantics cannot express that call's effect on the TLS pointer, so the rest of the unregistered path is not
executed here: `exec` of the whole function reports "dereference of a non-pointer" after this event.) -/
theorem bp_unregistered_first_event (fuel : Nat) (env : Env) (r : Val) (rest : List Val)
    (hp : env.priv (.tls "urcu_bp_reader") = some (.int 0)) :
    (∃ tail, «_urcu_bp_read_lock» = .seq bpRegisterTest tail) ∧
    (∃ tail, «_urcu_bp_read_ongoing» = .seq bpRegisterTest tail) ∧
    exec fuel bpRegisterTest env (r :: rest) =
      .ok { events := [.ext "urcu_bp_register" [] r], env := env, inp := rest, ctl := .normal } ∧
    exec fuel bpRegisterTest env [] = .ok { events := [], env := env, inp := [], ctl := .blocked } := by
  refine ⟨⟨_, rfl⟩, ⟨_, rfl⟩, ?_, ?_⟩ <;> exec_simp [bpRegisterTest, hp]

/-! ## `urcu_common_wake_up_gp` on its own: exact event shape -/

/-- `ld gp->futex v; if v = -1 then (st gp->futex 0; futex_async(&gp->futex, FUTEX_WAKE, 1, NULL, NULL, 0))`, cut where
the oracle ends -/
def wakeEvents (G : Loc) : List Val → List Event
  | [] => []
  | v :: rest =>
    .ld (.field G "futex") v 0 ::
      (if v = .int (-1) then
        .st (.field G "futex") (.int 0) 0 ::
          (match rest with
           | [] => []
           | r :: _ => [.ext "futex_async" [.ptr (.field G "futex"), .int 1, .int 1, .int 0, .int 0, .int 0] r])
       else [])

theorem wake_up_gp_shape (fuel : Nat) (env : Env) (inp : List Val) (G : Loc)
    (hg : env.vars "gp" = some (.ptr G)) :
    ∃ out, exec fuel «urcu_common_wake_up_gp» env inp = .ok out ∧ out.events = wakeEvents G inp ∧
      (out.ctl = .normal ∨ out.ctl = .blocked) ∧
      (out.ctl = .blocked ↔ (inp = [] ∨ inp = [.int (-1)])) := by
  cases inp with
  | nil => exec_simp [«urcu_common_wake_up_gp», hg, wakeEvents]
  | cons v rest =>
    by_cases hv : v = .int (-1)
    · subst hv
      cases rest with
      | nil => exec_simp [«urcu_common_wake_up_gp», hg, wakeEvents]
      | cons r rest => exec_simp [«urcu_common_wake_up_gp», hg, wakeEvents]
    · exec_simp [«urcu_common_wake_up_gp», hg, wakeEvents]

end UrcuVerif.Src.Read
