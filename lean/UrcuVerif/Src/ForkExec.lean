import UrcuVerif.Src.StackExec
import UrcuVerif.Src.ForkLocal
/-!
# Compositional rules for `Src.exec` (used by `ForkRefine.lean`, `ForkBpRefine.lean`)

`Tri R fuel st P Q`: from every environment / oracle / local L2 state satisfying `P`, the statement `st` runs without
error, its events are accepted by the replay `R.lr` of the local automaton, and the outcome satisfies `Q` (a predicate on
the control outcome `Ctl`, so that the prefixes of runs – `blocked`, `fuel` – are covered by the same statement).
Rules: `Tri.seq`, `Tri.loop` (induction on the budget), `Tri.conseq`, `Tri.split` (regrouping of the right-nested
sequence the translator emits for a block: `exec_split`).
-/
set_option linter.unusedSimpArgs false
set_option linter.unusedVariables false
namespace UrcuVerif.Src.ForkX
open UrcuVerif UrcuVerif.Src
open UrcuVerif.Src.ForkL (bit)

structure Replay (σ : Type) where
  lr : σ → List Event → Option σ
  nil : ∀ s, lr s [] = some s
  app : ∀ s a b, lr s (a ++ b) = (lr s a).bind (fun m => lr m b)

abbrev Pre (σ : Type) := Env → List Val → σ → Prop
abbrev Post (σ : Type) := Ctl → Env → List Val → σ → Prop

def Tri {σ : Type} (R : Replay σ) (fuel : Nat) (st : Stmt) (P : Pre σ) (Q : Post σ) : Prop :=
  ∀ env inp ls, P env inp ls → ∃ out, exec fuel st env inp = .ok out ∧
    ∃ ls', R.lr ls out.events = some ls' ∧ Q out.ctl out.env out.inp ls'

/-- postcondition of a statement that neither breaks nor returns: `Q` for a completed run, nothing for a prefix -/
def norm {σ : Type} (Q : Pre σ) : Post σ := fun c env inp ls =>
  match c with
  | .normal => Q env inp ls
  | .blocked | .fuel => True
  | _ => False

@[simp] theorem norm_normal {σ : Type} (Q : Pre σ) (env inp ls) : norm Q .normal env inp ls = Q env inp ls := rfl
@[simp] theorem norm_blocked {σ : Type} (Q : Pre σ) (env inp ls) : norm Q .blocked env inp ls = True := rfl
@[simp] theorem norm_fuel {σ : Type} (Q : Pre σ) (env inp ls) : norm Q .fuel env inp ls = True := rfl
@[simp] theorem norm_brk {σ : Type} (Q : Pre σ) (env inp ls) : norm Q .brk env inp ls = False := rfl
@[simp] theorem norm_cont {σ : Type} (Q : Pre σ) (env inp ls) : norm Q .cont env inp ls = False := rfl
@[simp] theorem norm_ret {σ : Type} (Q : Pre σ) (v env inp ls) : norm Q (.ret v) env inp ls = False := rfl

theorem norm_of_ne {σ : Type} (Q Q' : Pre σ) (c env inp ls) (hc : c ≠ .normal) (h : norm Q c env inp ls) :
    norm Q' c env inp ls := by
  cases c <;> simp_all [norm]

theorem Tri.conseq {σ : Type} {R : Replay σ} {fuel st} {P P' : Pre σ} {Q Q' : Post σ}
    (h : Tri R fuel st P Q) (hP : ∀ env inp ls, P' env inp ls → P env inp ls)
    (hQ : ∀ c env inp ls, Q c env inp ls → Q' c env inp ls) : Tri R fuel st P' Q' := by
  intro env inp ls hp
  obtain ⟨o, ho, ls', hl, hq⟩ := h env inp ls (hP _ _ _ hp)
  exact ⟨o, ho, ls', hl, hQ _ _ _ _ hq⟩

theorem seqPost_ne (fuel b) (o : Out) (hc : o.ctl ≠ .normal) : seqPost fuel b o = .ok o := by
  rcases o with ⟨ev, en, ip, ctl⟩
  cases ctl <;> simp_all [seqPost]

theorem Tri.seq {σ : Type} {R : Replay σ} {fuel a b} {P : Pre σ} {M Q : Post σ}
    (hA : Tri R fuel a P M) (hB : Tri R fuel b (M .normal) Q)
    (hM : ∀ c env inp ls, c ≠ .normal → M c env inp ls → Q c env inp ls) : Tri R fuel (.seq a b) P Q := by
  intro env inp ls hp
  obtain ⟨o1, h1, ls1, hl1, hm⟩ := hA env inp ls hp
  rw [exec_seq, h1]
  by_cases hc : o1.ctl = .normal
  · rcases o1 with ⟨ev, en, ip, ctl⟩
    simp only at hc; subst hc
    obtain ⟨o2, h2, ls2, hl2, hq⟩ := hB en ip ls1 hm
    simp only [seqPost, h2]
    exact ⟨_, rfl, ls2, by simp [R.app, hl1, hl2], hq⟩
  · simp only [seqPost_ne fuel b o1 hc]
    exact ⟨_, rfl, ls1, hl1, hM _ _ _ _ hc hm⟩

/-- `iterate_inv` (`Src/StackExec.lean`) that also returns the invariant when the loop budget runs out -/
theorem iterate_inv' {σ : Type} (lr : σ → List Event → Option σ)
    (lr_nil : ∀ s, lr s [] = some s)
    (lr_append : ∀ s a b, lr s (a ++ b) = (lr s a).bind (fun m => lr m b))
    (body : Env → List Val → Except String Out)
    (I : Env → List Val → σ → Prop) (R : Ctl → Env → List Val → σ → Prop)
    (hbody : ∀ env inp ls, I env inp ls → ∃ o, body env inp = .ok o ∧ ∃ ls', lr ls o.events = some ls' ∧
      (if o.ctl.goesOn then I o.env o.inp ls' else R o.ctl o.env o.inp ls')) :
    ∀ n env inp ls acc, I env inp ls → ∃ out, iterate body n env inp acc = .ok out ∧
      ∃ evs ls', out.events = acc ++ evs ∧ lr ls evs = some ls' ∧
        ((out.ctl = .fuel ∧ I out.env out.inp ls') ∨
          ∃ c, c.goesOn = false ∧ R c out.env out.inp ls' ∧ out.ctl = c.afterLoop) := by
  intro n
  induction n with
  | zero =>
    intro env inp ls acc hI
    exact ⟨_, rfl, [], ls, by simp, lr_nil ls, .inl ⟨rfl, hI⟩⟩
  | succ n ih =>
    intro env inp ls acc hI
    obtain ⟨o, ho, ls1, hl1, hpost⟩ := hbody env inp ls hI
    rcases o with ⟨oev, oenv, oinp, octl⟩
    simp only [iterate, ho, bind, Except.bind]
    cases octl with
    | normal =>
      simp only [Ctl.goesOn, if_true] at hpost
      obtain ⟨out, hout, evs, ls2, hev, hl2, hfin⟩ := ih oenv oinp ls1 (acc ++ oev) hpost
      refine ⟨out, hout, oev ++ evs, ls2, by simp [hev], ?_, hfin⟩
      simp [lr_append, hl1, hl2]
    | cont =>
      simp only [Ctl.goesOn, if_true] at hpost
      obtain ⟨out, hout, evs, ls2, hev, hl2, hfin⟩ := ih oenv oinp ls1 (acc ++ oev) hpost
      refine ⟨out, hout, oev ++ evs, ls2, by simp [hev], ?_, hfin⟩
      simp [lr_append, hl1, hl2]
    | brk =>
      simp only [Ctl.goesOn] at hpost
      exact ⟨_, rfl, oev, ls1, rfl, hl1, .inr ⟨.brk, rfl, by simpa using hpost, rfl⟩⟩
    | ret v =>
      simp only [Ctl.goesOn] at hpost
      exact ⟨_, rfl, oev, ls1, rfl, hl1, .inr ⟨.ret v, rfl, by simpa using hpost, rfl⟩⟩
    | blocked =>
      simp only [Ctl.goesOn] at hpost
      exact ⟨_, rfl, oev, ls1, rfl, hl1, .inr ⟨.blocked, rfl, by simpa using hpost, rfl⟩⟩
    | fuel =>
      simp only [Ctl.goesOn] at hpost
      exact ⟨_, rfl, oev, ls1, rfl, hl1, .inr ⟨.fuel, rfl, by simpa using hpost, rfl⟩⟩

/-- postcondition of `for (;;) body` from the invariant `I` and the terminal facts `T` of the body -/
def loopPost {σ : Type} (I : Pre σ) (T : Post σ) : Post σ := fun c env inp ls =>
  (c = .fuel ∧ I env inp ls) ∨ ∃ c0 : Ctl, c0.goesOn = false ∧ T c0 env inp ls ∧ c = c0.afterLoop

theorem Tri.loop {σ : Type} {R : Replay σ} {fuel body} (I : Pre σ) (T : Post σ)
    (hbody : Tri R fuel body I (fun c env inp ls => if c.goesOn then I env inp ls else T c env inp ls)) :
    Tri R fuel (.loop body) I (loopPost I T) := by
  intro env inp ls hp
  rw [exec_loop]
  obtain ⟨out, ho, evs, ls', hev, hl, hfin⟩ :=
    iterate_inv' R.lr R.nil R.app (exec fuel body) I T hbody fuel env inp ls [] hp
  simp only [List.nil_append] at hev
  exact ⟨out, ho, ls', by rw [hev]; exact hl, hfin⟩

/-- terminal facts of the body of a `while`-style loop: it leaves by `break` with `Q`, or the run is a prefix -/
def brkPost {σ : Type} (Q : Pre σ) : Post σ := fun c env inp ls =>
  (c = .brk ∧ Q env inp ls) ∨ c = .blocked ∨ c = .fuel

theorem loopPost_brk {σ : Type} (I Q : Pre σ) (c env inp ls) (h : loopPost I (brkPost Q) c env inp ls) :
    norm Q c env inp ls := by
  rcases h with ⟨rfl, _⟩ | ⟨c0, _, h, rfl⟩
  · trivial
  · rcases h with ⟨rfl, hq⟩ | rfl | rfl
    · exact hq
    · trivial
    · trivial

/-- loop whose body either goes round with the invariant or breaks with `Q` -/
theorem Tri.while {σ : Type} {R : Replay σ} {fuel body} (I Q : Pre σ)
    (hbody : Tri R fuel body I (fun c env inp ls => if c.goesOn then I env inp ls else brkPost Q c env inp ls)) :
    Tri R fuel (.loop body) I (norm Q) :=
  (Tri.loop I (brkPost Q) hbody).conseq (fun _ _ _ h => h) (loopPost_brk I Q)

theorem Tri.exists {σ α : Type} {R : Replay σ} {fuel st} {P : α → Pre σ} {Q : Post σ}
    (h : ∀ a, Tri R fuel st (P a) Q) : Tri R fuel st (fun env inp ls => ∃ a, P a env inp ls) Q := by
  intro env inp ls ⟨a, hp⟩
  exact h a env inp ls hp

/-- outcome of the head of a loop body: `M` if it falls through, otherwise as `brkPost Q` -/
def headPost {σ : Type} (M Q : Pre σ) : Post σ := fun c env inp ls =>
  match c with
  | .normal => M env inp ls
  | c => brkPost Q c env inp ls

/-- body = head; inner `while` loop: the head falls through with the inner invariant `J` or breaks with `Q`; the inner
loop ends with the outer invariant `I` -/
theorem Tri.head_while {σ : Type} {R : Replay σ} {fuel head body} (I J Q : Pre σ)
    (hH : Tri R fuel head I (headPost J Q))
    (hB : Tri R fuel body J (fun c env inp ls => if c.goesOn then J env inp ls else brkPost I c env inp ls)) :
    Tri R fuel (.seq head (.loop body)) I
      (fun c env inp ls => if c.goesOn then I env inp ls else brkPost Q c env inp ls) := by
  refine Tri.seq hH ((Tri.while J I hB).conseq (fun _ _ _ h => h) ?_) ?_
  · intro c env inp ls h
    cases c <;> simp_all [norm, Ctl.goesOn, brkPost]
  · intro c env inp ls hc h
    cases c <;> simp_all [headPost, Ctl.goesOn, brkPost]

theorem Tri.ifte {σ : Type} {R : Replay σ} {fuel c a b} {P PA PB : Pre σ} {Q : Post σ}
    (hc : ∀ env inp ls, P env inp ls → ∃ v, eval env c = .ok v ∧
      (if v.truthy = true then PA env inp ls else PB env inp ls))
    (hA : Tri R fuel a PA Q) (hB : Tri R fuel b PB Q) : Tri R fuel (.ifte c a b) P Q := by
  intro env inp ls hp
  obtain ⟨v, hv, hbr⟩ := hc env inp ls hp
  rw [exec_ifte, hv]
  simp only [bind, Except.bind]
  by_cases ht : v.truthy = true
  · rw [if_pos ht] at hbr ⊢
    exact hA env inp ls hbr
  · rw [if_neg ht] at hbr ⊢
    exact hB env inp ls hbr

/-- call of a parameterless `void` function whose specification only mentions the private view -/
theorem Tri.call0 {σ : Type} {R : Replay σ} {fuel body} {P Q : (Loc → Option Val) → List Val → σ → Prop}
    (h : Tri R fuel body (fun e i s => P e.priv i s) (norm (fun e i s => Q e.priv i s))) :
    Tri R fuel (.call none [] [] body) (fun e i s => P e.priv i s) (norm (fun e i s => Q e.priv i s)) := by
  intro env inp ls hp
  obtain ⟨o, ho, ls', hl, hq⟩ := h ⟨bindParams [] [], env.priv⟩ inp ls hp
  rw [exec_call]
  simp only [evalArgs, List.length_nil, ne_eq, not_true_eq_false, if_false, ho]
  rcases o with ⟨ev, en, ip, ctl⟩
  cases ctl with
  | normal => exact ⟨_, rfl, ls', hl, hq⟩
  | ret v => simp [norm] at hq
  | brk => simp [norm] at hq
  | cont => simp [norm] at hq
  | blocked => exact ⟨_, rfl, ls', hl, trivial⟩
  | fuel => exact ⟨_, rfl, ls', hl, trivial⟩

/-! ## regrouping of a right-nested sequence -/

theorem exec_seq_assoc (fuel a b c env inp) :
    exec fuel (.seq (.seq a b) c) env inp = exec fuel (.seq a (.seq b c)) env inp := by
  rw [exec_seq, exec_seq, exec_seq]
  cases h1 : exec fuel a env inp with
  | error e => rfl
  | ok o1 =>
    rcases o1 with ⟨ev1, en1, ip1, c1⟩
    cases c1 <;> simp only [seqPost]
    rw [exec_seq]
    cases h2 : exec fuel b en1 ip1 with
    | error e => rfl
    | ok o2 =>
      rcases o2 with ⟨ev2, en2, ip2, c2⟩
      cases c2 <;> simp only [seqPost]
      cases h3 : exec fuel c en2 ip2 with
      | error e => rfl
      | ok o3 => simp [List.append_assoc]

theorem exec_seq_skip (fuel a env inp) : exec fuel (.seq a .skip) env inp = exec fuel a env inp := by
  rw [exec_seq]
  cases h1 : exec fuel a env inp with
  | error e => rfl
  | ok o1 =>
    rcases o1 with ⟨ev1, en1, ip1, c1⟩
    cases c1 <;> simp [seqPost, exec_skip]

theorem exec_seq_congr (fuel a b b') (h : ∀ env inp, exec fuel b env inp = exec fuel b' env inp) (env inp) :
    exec fuel (.seq a b) env inp = exec fuel (.seq a b') env inp := by
  rw [exec_seq, exec_seq]
  cases h1 : exec fuel a env inp with
  | error e => rfl
  | ok o1 =>
    rcases o1 with ⟨ev1, en1, ip1, c1⟩
    cases c1 <;> simp only [seqPost, h]

/-- (the first `n+1` statements of a right-nested sequence, the rest) -/
def splitSeq : Nat → Stmt → Stmt × Stmt
  | 0, .seq a b => (a, b)
  | n+1, .seq a b => (.seq a (splitSeq n b).1, (splitSeq n b).2)
  | _, s => (s, .skip)

theorem exec_split (fuel : Nat) : ∀ (n : Nat) (s : Stmt) (env : Env) (inp : List Val),
    exec fuel s env inp = exec fuel (.seq (splitSeq n s).1 (splitSeq n s).2) env inp := by
  intro n
  induction n with
  | zero =>
    intro s env inp
    cases s <;> simp only [splitSeq, exec_seq_skip]
  | succ n ih =>
    intro s env inp
    cases s with
    | seq a b =>
      simp only [splitSeq]
      rw [exec_seq_assoc]
      exact exec_seq_congr fuel a b _ (ih b) env inp
    | _ => simp only [splitSeq, exec_seq_skip]

theorem Tri.split {σ : Type} {R : Replay σ} {fuel s} {P : Pre σ} {Q : Post σ} (n : Nat)
    (h : Tri R fuel (.seq (splitSeq n s).1 (splitSeq n s).2) P Q) : Tri R fuel s P Q := by
  intro env inp ls hp
  rw [exec_split fuel n s]
  exact h env inp ls hp

/-- `n`-th statement of a right-nested sequence -/
def seqNth : Nat → Stmt → Stmt
  | 0, .seq a _ => a
  | 0, s => s
  | n+1, .seq _ b => seqNth n b
  | _+1, _ => .skip

/-! ## arithmetic of the flag tests (as in `Src/WqRefine.lean`) -/

/-- the value of `f & m` (kept folded: `simp` must not normalise `n &&& 1` to `n % 2`) -/
def bandV (n m : Nat) : Val := .int ((n &&& m : Nat) : Int)

theorem band_nat (n m : Nat) : evalBin .band (.int (n : Int)) (.int (m : Int)) = .ok (bandV n m) := by
  simp [evalBin, bandV]
theorem band_1 (n : Nat) : evalBin .band (.int (n : Int)) (.int 1) = .ok (bandV n 1) := band_nat n 1
theorem band_8 (n : Nat) : evalBin .band (.int (n : Int)) (.int 8) = .ok (bandV n 8) := band_nat n 8
theorem band_32 (n : Nat) : evalBin .band (.int (n : Int)) (.int 32) = .ok (bandV n 32) := band_nat n 32

theorem bandV_truthy (n m : Nat) : (bandV n m).truthy = bit n m := by
  unfold bandV bit Val.truthy
  generalize n &&& m = k
  cases k with
  | zero => rfl
  | succ j => simp; omega
theorem bandV_eq_zero (n m : Nat) : (bandV n m = Val.int 0) = (bit n m = false) := by
  unfold bandV bit
  generalize n &&& m = k
  cases k with
  | zero => simp
  | succ j => simp; omega

theorem evalBin_eq (a b : Val) : evalBin .eq a b = .ok (boolV (a = b)) := by cases a <;> cases b <;> rfl
theorem evalBin_ne (a b : Val) : evalBin .ne a b = .ok (boolV (a ≠ b)) := by cases a <;> cases b <;> rfl
theorem evalBin_lt (a b : Int) : evalBin .lt (.int a) (.int b) = .ok (boolV (a < b)) := rfl
theorem evalBin_add (a b : Int) : evalBin .add (.int a) (.int b) = .ok (.int (a + b)) := rfl
theorem evalBin_sub (a b : Int) : evalBin .sub (.int a) (.int b) = .ok (.int (a - b)) := rfl

theorem truthy_int (n : Int) : (Val.int n).truthy = (n != 0) := rfl
theorem truthy_ptr (l : Loc) : (Val.ptr l).truthy = true := rfl

/-- symbolic execution as `sexec`, but `evalBin` stays folded (`band_*`, `evalBin_*` are used instead) -/
syntax "fexec" " [" Lean.Parser.Tactic.simpLemma,* "]" : tactic
macro_rules
  | `(tactic| fexec [$ls,*]) =>
    `(tactic| simp [block, exec_skip, exec_seq, exec_assign, exec_pstore, exec_ifte, exec_loop, exec_brk, exec_cont,
        exec_prim, exec_assertDbg, exec_ret_none, exec_ret_some, exec_call, seqPost, callPost,
        eval, evalArgs, execPrim, asLoc, Env.setVar, Env.setPriv, setDst, bind, Except.bind,
        truthy_int, truthy_ptr, bindParams, evalUn, boolV, evalBin_eq, evalBin_ne, evalBin_lt, evalBin_add, evalBin_sub,
        band_1, band_8, band_32, bandV_truthy, bandV_eq_zero, List.filterMap_cons, splitSeq, seqNth, firstLoop,
        Ctl.goesOn, *, $ls,*])

end UrcuVerif.Src.ForkX
