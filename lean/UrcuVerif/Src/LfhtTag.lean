import UrcuVerif.Src.IR
import UrcuVerif.Gen.Src
import UrcuVerif.Src.StackExec
import UrcuVerif.Lfht.Conc.Types
import Std.Data.String.ToNat
/-!
# rculfhash `next` words as IR values; exact meaning of the pure tag helpers of `src/rculfhash.c`

A `next` word of L2 (`Lfht.Conc.W`: pointer part + REMOVED / BUCKET / REMOVAL_OWNER) is the IR value `encW w`:

* `w.ptr = 0` (END = NULL): `Val.int k`, `k` = the or of the flag bits (`flag_bucket(END)` is `Val.int 2`);
* `w.ptr = n ≠ 0`, no flag: `Val.ptr (Loc.obj n)`; with flags `k`: `Val.ptr (Loc.field (Loc.obj n) "|k")`.

`Loc.tagOf` / `Loc.untag` / `Loc.withTag` of `Src/IR.lean` go through `String.startsWith`, `String.drop`,
`String.toNat?` and string interpolation, which neither `decide` nor `rfl` evaluate; the seven concrete tags are
evaluated here once (`tagOf_tagged`, `untag_tagged`, `withTag_obj`) with `Nat.toNat?_repr` of the toolchain's `Std`.

Then the generated helpers `is_removed`, `is_bucket`, `is_removal_owner`, `clear_flag`, `flag_bucket`,
`flag_removal_owner`, `is_end` are given their exact meaning on `encW w` (`call_*`: rewriting lemmas for a call of
the generated helper with a variable as argument, the only form the translator emits inside the functions treated).
-/
namespace UrcuVerif.Src.LfhtR
open UrcuVerif UrcuVerif.Src UrcuVerif.Lfht.Conc

/-- the low three bits of a word -/
def flagsOf (w : W) : Nat := (if w.rem then 1 else 0) + (if w.bkt then 2 else 0) + (if w.own then 4 else 0)

/-- `l` with tag bits `k` (the representation of `Src/IR.lean`: field `"|k"` of the untagged location) -/
def tagged (l : Loc) : Nat → Loc
  | 1 => .field l "|1" | 2 => .field l "|2" | 3 => .field l "|3" | 4 => .field l "|4"
  | 5 => .field l "|5" | 6 => .field l "|6" | 7 => .field l "|7" | _ => l

def encW (w : W) : Val := if w.ptr = 0 then .int (flagsOf w) else .ptr (tagged (.obj w.ptr) (flagsOf w))

/-- an untagged node pointer, NULL for 0 -/
def encP (p : Nat) : Val := if p = 0 then .int 0 else .ptr (.obj p)

def ofFlags (p k : Nat) : W := { ptr := p, rem := k % 2 == 1, bkt := k / 2 % 2 == 1, own := k / 4 % 2 == 1 }

def nameTag (f : String) : Option Nat :=
  if f = "|1" then some 1 else if f = "|2" then some 2 else if f = "|3" then some 3 else if f = "|4" then some 4
  else if f = "|5" then some 5 else if f = "|6" then some 6 else if f = "|7" then some 7 else none

/-- decoding of an IR value as a `next` word (computable inverse of `encW`) -/
def decW : Val → Option W
  | .int k => if 0 ≤ k ∧ k < 8 then some (ofFlags 0 k.toNat) else none
  | .ptr (.obj n) => if n = 0 then none else some { ptr := n }
  | .ptr (.field (.obj n) f) => if n = 0 then none else (nameTag f).map (ofFlags n)
  | _ => none

theorem flagsOf_lt (w : W) : flagsOf w < 8 := by
  rcases w with ⟨p, r, b, o⟩; cases r <;> cases b <;> cases o <;> simp [flagsOf]

@[simp] theorem decW_encW (w : W) : decW (encW w) = some w := by
  rcases w with ⟨p, r, b, o⟩
  by_cases hp : p = 0
  · subst hp; cases r <;> cases b <;> cases o <;> decide
  · cases r <;> cases b <;> cases o <;> simp [encW, flagsOf, tagged, decW, hp, nameTag, ofFlags]

theorem encW_of_decW {v : Val} {w : W} (h : decW v = some w) : v = encW w := by
  cases v with
  | int k =>
    simp only [decW] at h
    split at h
    · rename_i hk
      cases h
      have : k = 0 ∨ k = 1 ∨ k = 2 ∨ k = 3 ∨ k = 4 ∨ k = 5 ∨ k = 6 ∨ k = 7 := by omega
      rcases this with rfl | rfl | rfl | rfl | rfl | rfl | rfl | rfl <;> decide
    · cases h
  | ptr l =>
    cases l with
    | obj n =>
      simp only [decW] at h
      split at h
      · cases h
      · cases h; rename_i hn; simp [encW, hn, flagsOf, tagged]
    | field b f =>
      cases b with
      | obj n =>
        simp only [decW] at h
        split at h
        · cases h
        · rename_i hn
          unfold nameTag at h
          (repeat' split at h) <;> simp at h <;> subst_vars <;> simp [encW, ofFlags, flagsOf, tagged, hn]
      | _ => simp [decW] at h
    | _ => simp [decW] at h

theorem encW_inj {a b : W} : encW a = encW b ↔ a = b := by
  constructor
  · intro h; have := congrArg decW h; simpa using this
  · rintro rfl; rfl

@[simp] theorem encW_eq (a b : W) : (encW a = encW b) = (a = b) := propext encW_inj

theorem encP_eq_encW (p : Nat) : encP p = encW { ptr := p } := by
  unfold encP encW; by_cases hp : p = 0 <;> simp [hp, flagsOf, tagged]

@[simp] theorem encP_eq_null (p : Nat) : (encP p = .int 0) = (p = 0) := by
  unfold encP; by_cases hp : p = 0 <;> simp [hp]

theorem encP_pos {p : Nat} (hp : p ≠ 0) : encP p = .ptr (.obj p) := by simp [encP, hp]
@[simp] theorem encP_zero : encP 0 = .int 0 := rfl
@[simp] theorem encP_truthy (p : Nat) : (encP p).truthy = decide (p ≠ 0) := by
  unfold encP; by_cases hp : p = 0 <;> simp [hp, Val.truthy]

-- ----------------------------------------------------------------------------------------------------------
-- the seven tags, evaluated
-- ----------------------------------------------------------------------------------------------------------
private theorem sw (k : String) (h : k.startsWith "|" = true) (l : Loc) : Loc.untag (.field l k) = l := by
  simp only [Loc.untag, h]; rfl

theorem tagOf_tagged (l : Loc) (hl : l.tagOf = 0) (k : Nat) (hk : k < 8) : (tagged l k).tagOf = k := by
  have t1 : "1".toNat? = some 1 := Nat.toNat?_repr 1
  have t2 : "2".toNat? = some 2 := Nat.toNat?_repr 2
  have t3 : "3".toNat? = some 3 := Nat.toNat?_repr 3
  have t4 : "4".toNat? = some 4 := Nat.toNat?_repr 4
  have t5 : "5".toNat? = some 5 := Nat.toNat?_repr 5
  have t6 : "6".toNat? = some 6 := Nat.toNat?_repr 6
  have t7 : "7".toNat? = some 7 := Nat.toNat?_repr 7
  have s1 : "|1".startsWith "|" = true := by decide +kernel
  have s2 : "|2".startsWith "|" = true := by decide +kernel
  have s3 : "|3".startsWith "|" = true := by decide +kernel
  have s4 : "|4".startsWith "|" = true := by decide +kernel
  have s5 : "|5".startsWith "|" = true := by decide +kernel
  have s6 : "|6".startsWith "|" = true := by decide +kernel
  have s7 : "|7".startsWith "|" = true := by decide +kernel
  have d1 : ("|1".drop 1).toString = "1" := by rfl
  have d2 : ("|2".drop 1).toString = "2" := by rfl
  have d3 : ("|3".drop 1).toString = "3" := by rfl
  have d4 : ("|4".drop 1).toString = "4" := by rfl
  have d5 : ("|5".drop 1).toString = "5" := by rfl
  have d6 : ("|6".drop 1).toString = "6" := by rfl
  have d7 : ("|7".drop 1).toString = "7" := by rfl
  match k, hk with
  | 0, _ => exact hl
  | 1, _ => simp only [tagged, Loc.tagOf, s1, d1, t1]; rfl
  | 2, _ => simp only [tagged, Loc.tagOf, s2, d2, t2]; rfl
  | 3, _ => simp only [tagged, Loc.tagOf, s3, d3, t3]; rfl
  | 4, _ => simp only [tagged, Loc.tagOf, s4, d4, t4]; rfl
  | 5, _ => simp only [tagged, Loc.tagOf, s5, d5, t5]; rfl
  | 6, _ => simp only [tagged, Loc.tagOf, s6, d6, t6]; rfl
  | 7, _ => simp only [tagged, Loc.tagOf, s7, d7, t7]; rfl

theorem untag_tagged (l : Loc) (hl : l.untag = l) (k : Nat) (hk : k < 8) : (tagged l k).untag = l := by
  match k, hk with
  | 0, _ => exact hl
  | 1, _ => exact sw _ (by decide +kernel) l
  | 2, _ => exact sw _ (by decide +kernel) l
  | 3, _ => exact sw _ (by decide +kernel) l
  | 4, _ => exact sw _ (by decide +kernel) l
  | 5, _ => exact sw _ (by decide +kernel) l
  | 6, _ => exact sw _ (by decide +kernel) l
  | 7, _ => exact sw _ (by decide +kernel) l

theorem withTag_untagged (l : Loc) (hl : l.untag = l) (k : Nat) (hk : k < 8) : l.withTag k = tagged l k := by
  have e1 : s!"|{1}" = "|1" := by decide +kernel
  have e2 : s!"|{2}" = "|2" := by decide +kernel
  have e3 : s!"|{3}" = "|3" := by decide +kernel
  have e4 : s!"|{4}" = "|4" := by decide +kernel
  have e5 : s!"|{5}" = "|5" := by decide +kernel
  have e6 : s!"|{6}" = "|6" := by decide +kernel
  have e7 : s!"|{7}" = "|7" := by decide +kernel
  match k, hk with
  | 0, _ => simp only [Loc.withTag, if_true, hl]; rfl
  | 1, _ => simp only [Loc.withTag, hl, e1]; rfl
  | 2, _ => simp only [Loc.withTag, hl, e2]; rfl
  | 3, _ => simp only [Loc.withTag, hl, e3]; rfl
  | 4, _ => simp only [Loc.withTag, hl, e4]; rfl
  | 5, _ => simp only [Loc.withTag, hl, e5]; rfl
  | 6, _ => simp only [Loc.withTag, hl, e6]; rfl
  | 7, _ => simp only [Loc.withTag, hl, e7]; rfl

/-- re-tagging a tagged node pointer -/
theorem withTag_tagged (n k j : Nat) (hk : k < 8) (hj : j < 8) :
    (tagged (.obj n) k).withTag j = tagged (.obj n) j := by
  have hu : (tagged (.obj n) k).untag = .obj n := untag_tagged _ rfl k hk
  have e1 : s!"|{1}" = "|1" := by decide +kernel
  have e2 : s!"|{2}" = "|2" := by decide +kernel
  have e3 : s!"|{3}" = "|3" := by decide +kernel
  have e4 : s!"|{4}" = "|4" := by decide +kernel
  have e5 : s!"|{5}" = "|5" := by decide +kernel
  have e6 : s!"|{6}" = "|6" := by decide +kernel
  have e7 : s!"|{7}" = "|7" := by decide +kernel
  match j, hj with
  | 0, _ => simp only [Loc.withTag, if_true, hu]; rfl
  | 1, _ => simp only [Loc.withTag, hu, e1]; rfl
  | 2, _ => simp only [Loc.withTag, hu, e2]; rfl
  | 3, _ => simp only [Loc.withTag, hu, e3]; rfl
  | 4, _ => simp only [Loc.withTag, hu, e4]; rfl
  | 5, _ => simp only [Loc.withTag, hu, e5]; rfl
  | 6, _ => simp only [Loc.withTag, hu, e6]; rfl
  | 7, _ => simp only [Loc.withTag, hu, e7]; rfl

theorem tagOf_enc (n k : Nat) (hk : k < 8) : (tagged (.obj n) k).tagOf = k := tagOf_tagged _ rfl k hk

-- ----------------------------------------------------------------------------------------------------------
-- the tag operators of the IR on `encW`
-- ----------------------------------------------------------------------------------------------------------
theorem evalBin_tagand_enc (w : W) (m : Nat) (hm : m < 8) :
    evalBin .tagand (encW w) (.int (m : Int)) = .ok (.int ((flagsOf w &&& m : Nat) : Int)) := by
  unfold encW; split
  · simp [evalBin]
  · have := tagOf_enc w.ptr (flagsOf w) (flagsOf_lt w)
    have h2 : (m : Int) < 8 := by omega
    simp [evalBin, this, h2]

/-- `is_removed(w)` -/
@[simp] theorem tagand_rem (w : W) : evalBin .tagand (encW w) (.int 1) = .ok (.int (if w.rem then 1 else 0)) := by
  rw [show (1 : Int) = ((1 : Nat) : Int) from rfl, evalBin_tagand_enc w 1 (by decide)]
  rcases w with ⟨p, r, b, o⟩; cases r <;> cases b <;> cases o <;> simp [flagsOf]
/-- `is_bucket(w)` (the C value is the bit itself) -/
@[simp] theorem tagand_bkt (w : W) : evalBin .tagand (encW w) (.int 2) = .ok (.int (if w.bkt then 2 else 0)) := by
  rw [show (2 : Int) = ((2 : Nat) : Int) from rfl, evalBin_tagand_enc w 2 (by decide)]
  rcases w with ⟨p, r, b, o⟩; cases r <;> cases b <;> cases o <;> simp [flagsOf]
/-- `is_removal_owner(w)` -/
@[simp] theorem tagand_own (w : W) : evalBin .tagand (encW w) (.int 4) = .ok (.int (if w.own then 4 else 0)) := by
  rw [show (4 : Int) = ((4 : Nat) : Int) from rfl, evalBin_tagand_enc w 4 (by decide)]
  rcases w with ⟨p, r, b, o⟩; cases r <;> cases b <;> cases o <;> simp [flagsOf]

/-- `clear_flag(w)`: the untagged pointer -/
@[simp] theorem tagand_clear (w : W) : evalBin .tagand (encW w) (.int 18446744073709551608) = .ok (encP w.ptr) := by
  unfold encW encP; split
  · rcases w with ⟨p, r, b, o⟩; cases r <;> cases b <;> cases o <;> simp [evalBin, flagsOf] <;> decide
  · have h1 := tagOf_enc w.ptr (flagsOf w) (flagsOf_lt w)
    have h2 := withTag_tagged w.ptr (flagsOf w) 0 (flagsOf_lt w) (by decide)
    simp [evalBin, h1, h2]; rfl

theorem evalBin_tagor_enc (w : W) (m : Nat) (hm : m < 8) :
    evalBin .tagor (encW w) (.int (m : Int)) =
      .ok (if w.ptr = 0 then .int ((flagsOf w ||| m : Nat) : Int) else .ptr (tagged (.obj w.ptr) (flagsOf w ||| m))) := by
  unfold encW; split
  · simp [evalBin]
  · have h1 := tagOf_enc w.ptr (flagsOf w) (flagsOf_lt w)
    have h3 : flagsOf w ||| m < 8 := by
      have := flagsOf_lt w
      have := @Nat.or_lt_two_pow (flagsOf w) m 3 (by simpa using this) (by simpa using hm)
      simpa using this
    have h2 := withTag_tagged w.ptr (flagsOf w) (flagsOf w ||| m) (flagsOf_lt w) h3
    have h4 : (m : Int) < 8 := by omega
    simp [evalBin, h1, h2, h4]

/-- `flag_bucket(w)` -/
@[simp] theorem tagor_bkt (w : W) : evalBin .tagor (encW w) (.int 2) = .ok (encW { w with bkt := true }) := by
  rw [show (2 : Int) = ((2 : Nat) : Int) from rfl, evalBin_tagor_enc w 2 (by decide)]
  rcases w with ⟨p, r, b, o⟩
  by_cases hp : p = 0 <;> cases r <;> cases b <;> cases o <;> simp [hp, encW, flagsOf]
/-- `flag_removal_owner(w)` -/
@[simp] theorem tagor_own (w : W) : evalBin .tagor (encW w) (.int 4) = .ok (encW { w with own := true }) := by
  rw [show (4 : Int) = ((4 : Nat) : Int) from rfl, evalBin_tagor_enc w 4 (by decide)]
  rcases w with ⟨p, r, b, o⟩
  by_cases hp : p = 0 <;> cases r <;> cases b <;> cases o <;> simp [hp, encW, flagsOf]
/-- `flag_removed(w)` -/
@[simp] theorem tagor_rem (w : W) : evalBin .tagor (encW w) (.int 1) = .ok (encW { w with rem := true }) := by
  rw [show (1 : Int) = ((1 : Nat) : Int) from rfl, evalBin_tagor_enc w 1 (by decide)]
  rcases w with ⟨p, r, b, o⟩
  by_cases hp : p = 0 <;> cases r <;> cases b <;> cases o <;> simp [hp, encW, flagsOf]

/-- the tag operators on an untagged node pointer / NULL (`encP p = encW {ptr := p}`) -/
@[simp] theorem tagand_rem_P (p : Nat) : evalBin .tagand (encP p) (.int 1) = .ok (.int 0) := by
  rw [encP_eq_encW, tagand_rem]; rfl
@[simp] theorem tagand_bkt_P (p : Nat) : evalBin .tagand (encP p) (.int 2) = .ok (.int 0) := by
  rw [encP_eq_encW, tagand_bkt]; rfl
@[simp] theorem tagand_own_P (p : Nat) : evalBin .tagand (encP p) (.int 4) = .ok (.int 0) := by
  rw [encP_eq_encW, tagand_own]; rfl
@[simp] theorem tagand_clear_P (p : Nat) : evalBin .tagand (encP p) (.int 18446744073709551608) = .ok (encP p) := by
  rw [encP_eq_encW, tagand_clear, encP_eq_encW]
@[simp] theorem tagor_bkt_P (p : Nat) : evalBin .tagor (encP p) (.int 2) = .ok (encW { ptr := p, bkt := true }) := by
  rw [encP_eq_encW, tagor_bkt]

-- ----------------------------------------------------------------------------------------------------------
-- symbolic execution that keeps `evalBin` folded on `encW` values
-- ----------------------------------------------------------------------------------------------------------
theorem evalBin_eq (a b : Val) : evalBin .eq a b = .ok (boolV (a = b)) := by cases a <;> cases b <;> rfl
theorem evalBin_ne (a b : Val) : evalBin .ne a b = .ok (boolV (a ≠ b)) := by cases a <;> cases b <;> rfl
theorem evalBin_land (a b : Val) : evalBin .land a b = .ok (boolV (a.truthy && b.truthy)) := by
  cases a <;> cases b <;> rfl
theorem evalBin_gt (a b : Int) : evalBin .gt (.int a) (.int b) = .ok (boolV (a > b)) := rfl
theorem evalBin_sub (a b : Int) : evalBin .sub (.int a) (.int b) = .ok (.int (a - b)) := rfl
theorem evalBin_add (a b : Int) : evalBin .add (.int a) (.int b) = .ok (.int (a + b)) := rfl
theorem evalBin_band (a b : Int) : evalBin .band (.int a) (.int b) =
    if 0 ≤ a ∧ 0 ≤ b then .ok (.int (Int.ofNat (a.toNat &&& b.toNat))) else .error "band of a negative operand" := rfl

/-- `sexec` of `StackExec.lean` without unfolding `evalBin` (whose `match` would get stuck on `encW w`): the tag
operators are rewritten by `tagand_*` / `tagor_*`, the others by `evalBin_*`; calls are NOT unfolded (`exec_call` is to
be given explicitly): the pure helpers are rewritten by `call_*` below -/
syntax "lexec" (" [" Lean.Parser.Tactic.simpLemma,* "]")? : tactic
macro_rules
  | `(tactic| lexec) =>
    `(tactic| simp [block, exec_skip, exec_seq, exec_assign, exec_pstore, exec_ifte, exec_loop, exec_brk, exec_cont,
        exec_prim, exec_assertDbg, exec_ret_none, exec_ret_some, seqPost, callPost,
        eval, evalArgs, execPrim, asLoc, Env.setVar, Env.setPriv, setDst, bind, Except.bind,
        Val.truthy, bindParams, evalUn, boolV, evalBin_eq, evalBin_ne, evalBin_land, evalBin_gt, evalBin_sub,
        evalBin_add, evalBin_band, *])
  | `(tactic| lexec [$ls,*]) =>
    `(tactic| simp [block, exec_skip, exec_seq, exec_assign, exec_pstore, exec_ifte, exec_loop, exec_brk, exec_cont,
        exec_prim, exec_assertDbg, exec_ret_none, exec_ret_some, seqPost, callPost,
        eval, evalArgs, execPrim, asLoc, Env.setVar, Env.setPriv, setDst, bind, Except.bind,
        Val.truthy, bindParams, evalUn, boolV, evalBin_eq, evalBin_ne, evalBin_land, evalBin_gt, evalBin_sub,
        evalBin_add, evalBin_band, *, $ls,*])

-- ----------------------------------------------------------------------------------------------------------
-- the generated helpers: a call is one pure rewriting step
-- ----------------------------------------------------------------------------------------------------------
/-- result of a call of a pure one-argument helper: `d := f(a)` -/
def pureCall (env : Env) (inp : List Val) (d : String) (r : Except String Val) : Except String Out :=
  match r with
  | .ok v => .ok { events := [], env := env.setVar d v, inp := inp, ctl := .normal }
  | .error e => .error e

@[simp] theorem pureCall_ok (env inp d v) :
    pureCall env inp d (.ok v) = .ok { events := [], env := env.setVar d v, inp := inp, ctl := .normal } := rfl

def bind1 (r : Except String Val) (f : Val → Except String Val) : Except String Val :=
  match r with
  | .ok v => f v
  | .error e => .error e
@[simp] theorem bind1_ok (v f) : bind1 (.ok v) f = f v := rfl

theorem call_is_removed (fuel d a env inp) :
    exec fuel (.call (some d) ["node"] [a] Gen.Src.«lfht.is_removed») env inp =
      pureCall env inp d (bind1 (eval env a) fun v => evalBin .tagand v (.int 1)) := by
  cases h : eval env a <;> lexec [exec_call, Gen.Src.«lfht.is_removed», pureCall, bind1]
  rename_i v; cases evalBin .tagand v (.int 1) <;> rfl
theorem call_is_bucket (fuel d a env inp) :
    exec fuel (.call (some d) ["node"] [a] Gen.Src.«lfht.is_bucket») env inp =
      pureCall env inp d (bind1 (eval env a) fun v => evalBin .tagand v (.int 2)) := by
  cases h : eval env a <;> lexec [exec_call, Gen.Src.«lfht.is_bucket», pureCall, bind1]
  rename_i v; cases evalBin .tagand v (.int 2) <;> rfl
theorem call_is_removal_owner (fuel d a env inp) :
    exec fuel (.call (some d) ["node"] [a] Gen.Src.«lfht.is_removal_owner») env inp =
      pureCall env inp d (bind1 (eval env a) fun v => evalBin .tagand v (.int 4)) := by
  cases h : eval env a <;> lexec [exec_call, Gen.Src.«lfht.is_removal_owner», pureCall, bind1]
  rename_i v; cases evalBin .tagand v (.int 4) <;> rfl
theorem call_clear_flag (fuel d a env inp) :
    exec fuel (.call (some d) ["node"] [a] Gen.Src.«lfht.clear_flag») env inp =
      pureCall env inp d (bind1 (eval env a) fun v => evalBin .tagand v (.int 18446744073709551608)) := by
  cases h : eval env a <;> lexec [exec_call, Gen.Src.«lfht.clear_flag», pureCall, bind1]
  rename_i v; cases evalBin .tagand v (.int 18446744073709551608) <;> rfl
theorem call_flag_bucket (fuel d a env inp) :
    exec fuel (.call (some d) ["node"] [a] Gen.Src.«lfht.flag_bucket») env inp =
      pureCall env inp d (bind1 (eval env a) fun v => evalBin .tagor v (.int 2)) := by
  cases h : eval env a <;> lexec [exec_call, Gen.Src.«lfht.flag_bucket», pureCall, bind1]
  rename_i v; cases evalBin .tagor v (.int 2) <;> rfl
theorem call_flag_removal_owner (fuel d a env inp) :
    exec fuel (.call (some d) ["node"] [a] Gen.Src.«lfht.flag_removal_owner») env inp =
      pureCall env inp d (bind1 (eval env a) fun v => evalBin .tagor v (.int 4)) := by
  cases h : eval env a <;> lexec [exec_call, Gen.Src.«lfht.flag_removal_owner», pureCall, bind1]
  rename_i v; cases evalBin .tagor v (.int 4) <;> rfl
/-- `is_end(a)`: `clear_flag(a) == END` -/
theorem call_is_end (fuel d a env inp) :
    exec fuel (.call (some d) ["node"] [a] Gen.Src.«lfht.is_end») env inp =
      pureCall env inp d (bind1 (eval env a) fun v =>
        bind1 (evalBin .tagand v (.int 18446744073709551608)) fun c => .ok (boolV (c = .int 0))) := by
  cases h : eval env a with
  | error e => lexec [exec_call, Gen.Src.«lfht.is_end», pureCall, bind1]
  | ok v =>
    cases h2 : evalBin .tagand v (.int 18446744073709551608) <;>
      lexec [exec_call, Gen.Src.«lfht.is_end», Gen.Src.«lfht.clear_flag», pureCall, bind1]

end UrcuVerif.Src.LfhtR
