import UrcuVerif.Gen.Src
import UrcuVerif.Src.StackExec
import UrcuVerif.Src.CallRcuLocal
/-!
# Generated source IR of `_call_rcu` / `call_rcu` ⊑ thread-local projection of `CallRcu/Model.lean` (user thread)

Address convention (`Layout`): `crd C = some h` – the `struct call_rcu_data` object at `C` is helper `h`;
`cb H = some id` – the `struct rcu_head` object at `H` is callback `id` (its wfcqueue node is `&H->next`, the member the
queue links, exactly as in C: `cds_wfcq_enqueue(&crdp->cbs_head, &crdp->cbs_tail, &head->next)`).

## Abstraction of events (`absEv L id0`, `id0` = the callback the running `call_rcu(head, …)` was called with)

* `ext _rcu_read_lock`                          ↦ `call id0` (L2's `crCall t id0`: entry marker + `rcu_read_lock()`)
* `ext get_call_rcu_data = C`                   ↦ `sel (crd C)`
* `xchg(&C->cbs_tail.p, &H->next)` seq-cst      ↦ `enq (crd C) (cb H)` – the linearisation point of the enqueue (C10)
* `st old_tail->next := …` (any `->next` word)  ↦ silent: L2's queue is an abstract FIFO whose enqueue is atomic at the
  exchange of the tail; the delayed store of the predecessor's `next` is the concern of the wfcqueue refinement
  (`Props/SrcQueue.lean`, `_cds_wfcq_enqueue_refines`)
* `uatomic_inc(&C->qlen)`                       ↦ `inc`
* `ld C->flags = n`                             ↦ `ldFlags (n & URCU_CALL_RCU_RT ≠ 0)`
* `ld C->futex = v`                             ↦ `ldFutex v`
* `st C->futex := 0`                            ↦ `stFutex`
* `futex_async(&C->futex, FUTEX_WAKE, 1, NULL, NULL, 0)` ↦ `wake`
* `ext _rcu_read_unlock`                        ↦ `ret`
* fences (`cmm_smp_mb` of `call_rcu_wake_up`, of `cmm_emit_legacy_smp_mb`) ↦ silent: L2's steps act on memory directly
  (sequentially consistent model: a full barrier is built in)
* everything else (`errno`, `urcu_die`, accesses to other words, ill-typed values) ↦ `bad`, which the automaton never
  accepts.

## Side conditions on the oracle (`CallInp`)

value returned by the exchange of the tail: a pointer (a wfcqueue's tail is never NULL); `crdp->flags`: a
non-negative integer; `crdp->futex`: an integer; `FUTEX_WAKE`: returns `≥ 0` (the source calls `urcu_die` otherwise).
-/
set_option linter.unusedSimpArgs false
set_option linter.unusedVariables false
set_option maxRecDepth 4096
namespace UrcuVerif.Src.CallRcuR
open UrcuVerif UrcuVerif.Src UrcuVerif.Gen.Src UrcuVerif.CallRcu UrcuVerif.Src.CallRcuL

structure Layout where
  crd : Loc → Option Nat
  cb : Loc → Option Nat
  /-- helper side only (`Src/CallRcuHelper.lean`): the batch a splice takes when the last node it returns is the node of
  this `rcu_head` (every `rcu_head` is queued once – L2's guard `reg id = false` of `crCall` –, so the batch that ends
  with it is unique in a run: a prophecy parameter of the abstraction, tied to the run by the oracle discipline) -/
  batch : Loc → List Nat := fun _ => []

def wakeArgs (F : Loc) : List Val := [.ptr F, .int 1, .int 1, .int 0, .int 0, .int 0]

def absEv (L : Layout) (id0 : Nat) : Event → List U.LLabel
  | .fence _ => []
  | .ext name args r =>
    if name = "_rcu_read_lock" then [.call id0]
    else if name = "_rcu_read_unlock" then [.ret]
    else if name = "get_call_rcu_data" then
      match r with
      | .ptr C => (match L.crd C with | some h => [.sel h] | none => [.bad])
      | _ => [.bad]
    else if name = "futex_async" then
      match args with
      | .ptr (.field C f) :: rest =>
        if f = "futex" ∧ rest = [.int 1, .int 1, .int 0, .int 0, .int 0] then
          (match L.crd C with | some h => [.wake h] | none => [.bad])
        else [.bad]
      | _ => [.bad]
    else [.bad]
  | .xchg (.field (.field C f1) f2) (.ptr (.field H f3)) _ mo =>
    if f1 = "cbs_tail" ∧ f2 = "p" ∧ f3 = "next" ∧ mo = 5 then
      match L.crd C, L.cb H with
      | some h, some id => [.enq h id]
      | _, _ => [.bad]
    else [.bad]
  | .st (.field l f) v _ =>
    if f = "next" then []
    else if f = "futex" ∧ v = .int 0 then (match L.crd l with | some h => [.stFutex h] | none => [.bad])
    else [.bad]
  | .rmw p (.field C f) _ _ _ =>
    if p = .uinc ∧ f = "qlen" then (match L.crd C with | some h => [.inc h] | none => [.bad]) else [.bad]
  | .ld (.field C f) (.int n) _ =>
    match L.crd C with
    | some h =>
      if f = "flags" then (if 0 ≤ n then [.ldFlags h (n.toNat &&& 1 != 0)] else [.bad])
      else if f = "futex" then [.ldFutex h n]
      else [.bad]
    | none => [.bad]
  | _ => [.bad]

/-- the oracle discipline of `_call_rcu` (positions: tail exchange, `qlen` increment, flags, futex, FUTEX_WAKE) -/
def CallInp (inp : List Val) : Prop :=
  (∀ v, inp[0]? = some v → ∃ l, v = .ptr l) ∧ (∀ v, inp[2]? = some v → ∃ n : Nat, v = .int n) ∧
  (∀ v, inp[3]? = some v → ∃ n : Int, v = .int n) ∧ (∀ v, inp[4]? = some v → ∃ n : Nat, v = .int n)

theorem band_nat_one (n : Nat) : evalBin .band (.int n) (.int 1) = .ok (.int ((n &&& 1 : Nat) : Int)) := by
  simp [evalBin]

/-- how `_call_rcu` ends: preempted at an access (proper prefix) or returned, then the thread is where L2's continuation
`k` says (`crRet` for `call_rcu`), the callback's `func` member is set and its queue node was initialised -/
def CallPost (env : Env) (H : Loc) (fv : Val) (pcEnd : TPc) (nest : Nat) (out : Out) (ls' : U.LState) : Prop :=
  (out.ctl = .normal ∨ out.ctl = .blocked) ∧
  (out.ctl = .normal → ls' = ⟨pcEnd, nest⟩ ∧ out.env.priv (.field H "func") = some fv)

open Lean.Parser.Tactic in
set_option hygiene false in
macro "cr_leaf" "[" ts:simpLemma,* "]" : tactic => `(tactic| (
  sexec [«_call_rcu», «_cds_wfcq_node_init», «_cds_wfcq_enqueue», «___cds_wfcq_append», «wake_call_rcu_thread»,
    «call_rcu_wake_up», band_nat_one, $ts,*] <;>
  simp [absEv, U.lrun, U.lstep, CallPost, List.flatMap_cons, hcb, hcrd, $ts,*]))

theorem _call_rcu_refines_env (L : Layout) (id0 : Nat) (fuel : Nat) (env : Env) (inp : List Val) (H C : Loc) (fv : Val)
    (id h : Nat) (k : K) (nest : Nat) (mbv : Int)
    (h1 : env.vars "head" = some (.ptr H)) (h2 : env.vars "func" = some fv) (h3 : env.vars "crdp" = some (.ptr C))
    (hcb : L.cb H = some id) (hcrd : L.crd C = some h)
    (hcfg : env.priv (.glob "CONFIG_RCU_EMIT_LEGACY_MB") = some (.int mbv))
    (hinp : CallInp inp) :
    ∃ out, exec fuel «_call_rcu» env inp = .ok out ∧
      ∃ ls', U.lrun ⟨.enq id h k, nest⟩ (out.events.flatMap (absEv L id0)) = some ls' ∧
        CallPost env H fv (k.cont h) nest out ls' := by
  obtain ⟨hi0, hi2, hi3, hi4⟩ := hinp
  by_cases hmb : mbv = 0
  all_goals
    cases inp with
    | nil => cr_leaf []
    | cons old inp =>
      obtain ⟨ol, rfl⟩ := hi0 old (by simp)
      cases inp with
      | nil => cr_leaf []
      | cons q inp =>
        cases inp with
        | nil => cr_leaf []
        | cons f inp =>
          obtain ⟨n, rfl⟩ := hi2 f (by simp)
          by_cases hn : n % 2 = 0
          · have hn' : (n : Int) % 2 = 0 := by omega
            cases inp with
            | nil => cr_leaf [hn, hn']
            | cons fx inp =>
              obtain ⟨v, rfl⟩ := hi3 fx (by simp)
              by_cases hv : v = -1
              · cases inp with
                | nil => cr_leaf [hn, hn', hv]
                | cons w inp =>
                  obtain ⟨wn, rfl⟩ := hi4 w (by simp)
                  have hw : ¬ ((wn : Int) < 0) := by omega
                  cr_leaf [hn, hn', hv, hw]
              · cr_leaf [hn, hn', hv]
          · have hn' : ¬ (n : Int) % 2 = 0 := by omega
            cr_leaf [hn, hn']

/-- the same, in the form a caller uses after `generalize hE : exec fuel «_call_rcu» _ _ = r` -/
theorem _call_rcu_run (L : Layout) (id0 : Nat) {fuel : Nat} {env : Env} {inp : List Val} {r : Except String Out}
    (hE : exec fuel «_call_rcu» env inp = r) (H C : Loc) (fv : Val)
    (id h : Nat) (k : K) (nest : Nat) (mbv : Int)
    (h1 : env.vars "head" = some (.ptr H)) (h2 : env.vars "func" = some fv) (h3 : env.vars "crdp" = some (.ptr C))
    (hcb : L.cb H = some id) (hcrd : L.crd C = some h)
    (hcfg : env.priv (.glob "CONFIG_RCU_EMIT_LEGACY_MB") = some (.int mbv))
    (hinp : CallInp inp) :
    ∃ out, r = .ok out ∧
      ∃ ls', U.lrun ⟨.enq id h k, nest⟩ (out.events.flatMap (absEv L id0)) = some ls' ∧
        CallPost env H fv (k.cont h) nest out ls' := by
  subst hE
  exact _call_rcu_refines_env L id0 fuel env inp H C fv id h k nest mbv h1 h2 h3 hcb hcrd hcfg hinp

/-- the oracle discipline of `call_rcu`: `_rcu_read_lock()` (any value), `get_call_rcu_data()` returns a helper of the
layout, then that of `_call_rcu` -/
def CallRcuInp (L : Layout) (inp : List Val) : Prop :=
  (∀ v, inp[1]? = some v → ∃ C h, v = .ptr C ∧ L.crd C = some h) ∧ CallInp (inp.drop 2)

theorem call_rcu_refines_env (L : Layout) (fuel : Nat) (env : Env) (inp : List Val) (H : Loc) (fv : Val)
    (id nest : Nat) (mbv : Int)
    (h1 : env.vars "head" = some (.ptr H)) (h2 : env.vars "func" = some fv) (hcb : L.cb H = some id)
    (hcfg : env.priv (.glob "CONFIG_RCU_EMIT_LEGACY_MB") = some (.int mbv))
    (hinp : CallRcuInp L inp) :
    ∃ out, exec fuel «call_rcu» env inp = .ok out ∧
      ∃ ls', U.lrun ⟨.idle, nest⟩ (out.events.flatMap (absEv L id)) = some ls' ∧
        (out.ctl = .normal ∨ out.ctl = .blocked) ∧
        (out.ctl = .normal → ls' = ⟨.idle, nest⟩ ∧ out.env.priv (.field H "func") = some fv) := by
  obtain ⟨hi1, hi⟩ := hinp
  cases inp with
  | nil => sexec [«call_rcu»]; simp [absEv, U.lrun, U.lstep]
  | cons v0 inp =>
    cases inp with
    | nil => sexec [«call_rcu»]; simp [absEv, U.lrun, U.lstep, List.flatMap_cons]
    | cons v1 inp =>
      obtain ⟨C, h, rfl, hcrd⟩ := hi1 v1 (by simp)
      sexec [«call_rcu»]
      generalize hE : exec fuel «_call_rcu» _ _ = r
      obtain ⟨out, rfl, ls', hl, hc, hp⟩ := _call_rcu_run L id hE H C fv id h .user (nest + 1) mbv
        (by simp) (by simp) (by simp) hcb hcrd hcfg (by simpa using hi)
      clear hE
      rcases out with ⟨evs, oenv, oinp, octl⟩
      simp only [] at hc hp hl
      rcases hc with rfl | rfl
      · obtain ⟨rfl, hf⟩ := hp rfl
        cases oinp with
        | nil => simp [absEv, U.lrun, U.lstep, List.flatMap_cons, hcrd, U.lrun_append, hl, K.cont]
        | cons v2 oinp => simp [absEv, U.lrun, U.lstep, List.flatMap_cons, hcrd, U.lrun_append, hl, K.cont, hf]
      · simp [absEv, U.lrun, U.lstep, List.flatMap_cons, hcrd, U.lrun_append, hl]

end UrcuVerif.Src.CallRcuR
