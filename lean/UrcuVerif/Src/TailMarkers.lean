import UrcuVerif.Src.TailLocal
/-!
# What the local automaton of `rcu_barrier()`'s caller accepts: exactly one marker per helper of the list

A pure fact about `TailL.lstep` (no source, no L2): along every accepted label sequence from `start`, the helpers on which
a marker was enqueued (`u (enq h id)` = the exchange of the tail of helper `h`'s queue, the linearisation point of
`_call_rcu`) are, in order, a prefix of the helpers the counting loop enumerated (`seen`), and when the function has
returned without having been refused they are exactly `seen` – each helper of the list once, in list order – and the
reference count written by `urcu_ref_set` was `|seen| + 1`.
-/
set_option linter.unusedSimpArgs false
set_option linter.unusedVariables false
namespace UrcuVerif.Src.TailL
open UrcuVerif UrcuVerif.CallRcu UrcuVerif.Src.CallRcuL UrcuVerif.Src.Futex

/-- the helper whose queue tail a label exchanges -/
def enqOf : LLabel → Option Nat
  | .u (.enq h _) => some h
  | _ => none

/-- the value `urcu_ref_set` writes -/
def refOf : LLabel → Option Int
  | .setRef m => some m
  | _ => none

/-- C03's pcs of a thread running `_call_rcu` from the hook `extCall` (continuation `K.ext`) -/
def kOf : TPc → Option K
  | .enq _ _ k | .inc _ k | .ldFlags _ k | .ldFutex _ k | .stFutex _ k | .wake _ k => some k
  | _ => none
def ExtMode (pc : TPc) : Prop := pc = .ext ∨ kOf pc = some .ext

/-- the marker whose enqueue is pending in C03's pc (allocated, tail not yet exchanged) -/
def pendOf (u : U.LState) : List Nat :=
  match u.pc with
  | .enq _ h _ => [h]
  | _ => []

/-- `acc` = helpers that got their marker so far, `refs` = values written to the reference count so far -/
def MInv (nest : Nat) (ls : LState) (acc : List Nat) (refs : List Int) : Prop :=
  ls.u.nest = nest ∧
  match ls.pc with
  | .start | .off | .chk | .alloc => acc = [] ∧ refs = []
  | .lock _ | .count _ | .setRef _ => acc = [] ∧ refs = [] ∧ ls.u.pc = .ext
  | .warn => acc = [] ∧ refs = [] ∧ 0 < nest
  | .first2 _ | .allocW _ => acc ++ ls.todo = ls.seen ∧ refs = [(ls.seen.length : Int) + 1] ∧ ls.u.pc = .ext
  | .loop2 _ => acc ++ pendOf ls.u ++ ls.todo = ls.seen ∧ refs = [(ls.seen.length : Int) + 1] ∧ ExtMode ls.u.pc
  | .bp _ | .rel => acc = ls.seen ∧ refs = [(ls.seen.length : Int) + 1]
  | .fin => (acc = [] ∧ refs = [] ∧ 0 < nest) ∨ (acc = ls.seen ∧ refs = [(ls.seen.length : Int) + 1])

theorem pend_step (u u' : U.LState) (l : U.LLabel) (hx : ExtMode u.pc) (h : U.lstep u l = some u') :
    (enqOf (.u l)).toList ++ pendOf u' = pendOf u ∧ ExtMode u'.pc ∧ u'.nest = u.nest := by
  rcases u with ⟨upc, un⟩
  cases l <;> simp only [U.lstep] at h <;> (repeat' split at h) <;>
    simp only [Option.some.injEq, reduceCtorEq] at h <;> (try subst h) <;>
    simp_all [enqOf, pendOf, ExtMode, kOf, K.cont]

set_option hygiene false in
macro "minv_generic" : tactic => `(tactic| (
  (try split at hs) <;> (try split at hs) <;>
  (try simp only [Option.some.injEq, reduceCtorEq, Option.ite_none_right_eq_some] at hs) <;>
  (try (obtain ⟨hc, rfl⟩ := hs)) <;> (try subst hs) <;>
  (try simp_all [MInv, enqOf, refOf, pendOf, ExtMode, kOf])))

theorem MInv_step (nest : Nat) (ls ls' : LState) (l : LLabel) (acc : List Nat) (refs : List Int)
    (h : MInv nest ls acc refs) (hs : lstep ls l = some ls') : MInv nest ls' (acc ++ (enqOf l).toList) (refs ++ (refOf l).toList) := by
  rcases ls with ⟨pc, wo, ⟨upc, un⟩, seen, td⟩
  cases pc
  case loop2 b =>
    cases l <;> simp only [lstep, reduceCtorEq] at hs
    case u ul =>
      split at hs
      · rename_i u' hu'
        simp only [Option.some.injEq] at hs; subst hs
        simp only [MInv] at h ⊢
        have hp := pend_step _ _ _ h.2.2.2 hu'
        refine ⟨by rw [hp.2.2]; exact h.1, ?_, by simpa [refOf] using h.2.2.1, hp.2.1⟩
        rw [← h.2.1, ← hp.1]
        simp
      · simp at hs
    all_goals minv_generic
  case bp p =>
    cases l <;> simp only [lstep, reduceCtorEq] at hs
    case put r =>
      cases p <;> simp only [reduceCtorEq, Option.some.injEq] at hs
      subst hs
      by_cases h0 : r = 0 <;> simp_all [MInv, enqOf, refOf]
    all_goals minv_generic
  all_goals (cases l <;> simp only [lstep, reduceCtorEq] at hs <;> minv_generic)

theorem MInv_run (nest : Nat) (labs : List LLabel) : ∀ (ls ls' : LState) (acc : List Nat) (refs : List Int),
    MInv nest ls acc refs → lrun ls labs = some ls' → MInv nest ls' (acc ++ labs.filterMap enqOf) (refs ++ labs.filterMap refOf) := by
  induction labs with
  | nil => intro ls ls' acc refs h hr; simp only [lrun, Option.some.injEq] at hr; subst hr; simpa using h
  | cons l r ih =>
    intro ls ls' acc refs h hr
    simp only [lrun] at hr
    cases hl : lstep ls l with
    | none => rw [hl] at hr; cases hr
    | some m =>
      rw [hl] at hr
      have := ih m ls' _ _ (MInv_step nest ls m l acc refs h hl) hr
      cases he : enqOf l <;> cases hf : refOf l <;> simp_all [List.filterMap_cons]

/-- **Exactly one marker per helper of the list.**  Along every label sequence the automaton accepts from `start`: if the
thread has returned (`fin`) and was not refused (`nest = 0`: the second `_rcu_read_ongoing()` answered 0), the helpers whose
queue tails were exchanged are exactly the helpers the counting loop enumerated, in list order, each once, and the one
value written to the reference count is their number + 1; if it was refused nothing was enqueued at all.  At every earlier
point of a run the markers enqueued so far are a prefix of the list (`MInv`). -/
theorem markers_exact (labs : List LLabel) (nest : Nat) (ls' : LState)
    (hr : lrun ⟨.start, false, ⟨.idle, nest⟩, [], []⟩ labs = some ls') (hf : ls'.pc = .fin) :
    (labs.filterMap enqOf = [] ∧ labs.filterMap refOf = [] ∧ 0 < nest) ∨
    (labs.filterMap enqOf = ls'.seen ∧ labs.filterMap refOf = [(ls'.seen.length : Int) + 1]) := by
  have h := MInv_run nest labs _ ls' [] [] (by simp [MInv]) hr
  simp only [MInv, hf, List.nil_append] at h
  exact h.2

end UrcuVerif.Src.TailL
