import UrcuVerif.Gen.Src
import UrcuVerif.Src.SyncQLocal
import UrcuVerif.Src.SyncGp
/-!
# QSBR grace-period updater: event abstraction (`absRun`), list-oracle discipline, proof rules

Same construction as `Src/SyncRefine.lean` (read its header), for the updater of `Gp/Qsbr.lean`.  The proof rules
(`Ok_*`, `Holds.seq`, `Holds.loop`, `Holds.callN`) are the same text instantiated for this checker.

Counter abstraction: the C counter `urcu_qsbr_gp.ctr` = `URCU_QSBR_GP_ONLINE | k·URCU_QSBR_GP_CTR` stands for L2's `gp = k + 1`,
i.e. C value `encQ g = 2g - 1` for `g ≥ 1`, and a reader word `0` (offline) stands for `mctr = 0`.

Labels: `cds_list_empty(&registry)` at pc `idle` answering "empty" ↦ `uEmpty`; the store `urcu_qsbr_gp.ctr + URCU_QSBR_GP_CTR`
↦ `uInc (gp + 1)` (the value stored must be `encQ (gp + 1)`, the registry must be non-empty); load of `index->ctr` = `v` ↦
`uScan j 0` when `v = 0`, `uScan j gp` when `v = encQ gp`, nothing otherwise (ACTIVE_OLD); `cds_list_splice(&qsreaders,
&registry)` ↦ `uEnd`.  Discipline: as for Flip (`cds_list_empty` truthful, `cds_list_for_each_entry_safe.first/next` answer
NULL or a member, the announced `cds_list_move`, `urcu_die` does not return, windows at `mutex_lock(&rcu_registry_lock)`).
Silent: fences, the futex protocol (`urcu_qsbr_gp.futex`, `index->waiting`, `futex_noasync`, `errno`; the plain
`cds_list_for_each_entry` iteration that sets `waiting`), mutexes, every access to other locations – including LOADS of
`urcu_qsbr_gp.ctr` (the updater thread is also a reader: `rcu_thread_online` at the end of `synchronize_rcu`) –; any other
store / RMW to `urcu_qsbr_gp.ctr` is `.bad`.
-/
set_option maxRecDepth 8192
set_option linter.unusedSimpArgs false
set_option linter.unusedVariables false
namespace UrcuVerif.Src.SyncQ
open UrcuVerif UrcuVerif.Src UrcuVerif.Gen.Src UrcuVerif.Src.Sync

def gpCtrQ : Loc := .field (.glob "urcu_qsbr_gp") "ctr"
def gpFutexQ : Loc := .field (.glob "urcu_qsbr_gp") "futex"
/-- C counter value that stands for L2's `g` -/
def encQ (g : Nat) : Int := if g = 0 then 0 else 2 * (g : Int) - 1

def labQ : EnvOp → LLabel
  | .reg i => .envReg i
  | .unreg i => .envUnreg i

structure SS where
  ls : LState
  pend : Option Nat     -- reader whose `cds_list_move` to `qsreaders` is due
  deriving DecidableEq, Repr

inductive Act
  | bad | undisc
  | step (labs : List LLabel) (pend : Option Nat)
  | window

inductive Res
  | bad | undisc
  | ok (labs : List LLabel) (ss : SS) (wins : Wins)
  deriving DecidableEq, Repr

def Res.prepend (l : List LLabel) : Res → Res
  | .ok labs ss w => .ok (l ++ labs) ss w
  | r => r

def inList (ls : LState) (h : Loc) : Option (List Nat) :=
  if ls.upc = .scan ∧ h = registry then some ls.inp else none

def absExt (trk : Bool) (ss : SS) (name : String) (args : List Val) (r : Val) : Act :=
  if name = "cds_list_empty" then
    match args with
    | [.ptr h] =>
      if ss.pend ≠ none then .bad
      else if ss.ls.upc = .idle ∧ h = registry then
        (if r.truthy then (if ss.ls.reg = [] then .step [.uEmpty trk] none else .undisc)
         else (if ss.ls.reg ≠ [] then .step [] none else .undisc))
      else match inList ss.ls h with
        | some l => if r.truthy = decide (l = []) then .step [] none else .undisc
        | none => .bad
    | _ => .bad
  else if name = "cds_list_for_each_entry_safe.first" then
    match args with
    | [.ptr h] =>
      if ss.pend ≠ none then .bad
      else match inList ss.ls h with
        | some l => if curOK l none r then .step [] none else .undisc
        | none => .bad
    | _ => .bad
  else if name = "cds_list_for_each_entry_safe.next" then
    match args with
    | [.ptr h, .ptr (.obj j)] =>
      if ss.pend ≠ none then .bad
      else match inList ss.ls h with
        | some l => if curOK l (some j) r then .step [] none else .undisc
        | none => .bad
    | _ => .bad
  else if name = "cds_list_move" then
    match args with
    | [.ptr (.field (.obj j) f), .ptr d] =>
      if f = "node" ∧ ss.pend = some j ∧ d = qsr then .step [] none else .bad
    | _ => .bad
  else if name = "cds_list_splice" then
    (if args = [.ptr qsr, .ptr registry] ∧ ss.pend = none then .step [.uEnd] none else .bad)
  else if name = "urcu_die" then .undisc
  else if name = "mutex_lock" ∧ args = [.ptr regLock] then .window
  else .step [] ss.pend

def absEv (trk : Bool) (ss : SS) : Event → Act
  | .ext name args r => absExt trk ss name args r
  | .fence _ => .step [] ss.pend
  | .ld l v _ =>
    match l with
    | .field (.obj j) f =>
      if f = "ctr" then
        if ss.pend ≠ none then .bad
        else if ss.ls.upc = .scan then
          (if v = .int 0 then .step [.uScan j 0] (some j)
           else if v = .int (encQ ss.ls.gp) then .step [.uScan j ss.ls.gp] (some j)
           else .step [] none)
        else .bad
      else .step [] ss.pend
    | _ => .step [] ss.pend
  | .st l v _ =>
    if l = gpCtrQ then
      (if v = .int (encQ (ss.ls.gp + 1)) ∧ ss.pend = none then .step [.uInc trk (ss.ls.gp + 1)] none else .bad)
    else .step [] ss.pend
  | .xchg l _ _ _ | .cas l _ _ _ _ _ | .rmw _ l _ _ _ => if l = gpCtrQ then .bad else .step [] ss.pend

def absRun (trk : Bool) : SS → Wins → List Event → Res
  | ss, wins, [] => .ok [] ss wins
  | ss, wins, e :: es =>
    match absEv trk ss e with
    | .bad => .bad
    | .undisc => .undisc
    | .step labs p =>
      match lrun ss.ls labs with
      | none => .bad
      | some ls' => (absRun trk ⟨ls', p⟩ wins es).prepend labs
    | .window =>
      match lrun ss.ls ((wins.headD []).map labQ) with
      | none => .bad
      | some ls' => (absRun trk ⟨ls', ss.pend⟩ wins.tail es).prepend ((wins.headD []).map labQ)

theorem absRun_lrun (trk) : ∀ (es : List Event) (ss wins labs ss' wins'),
    absRun trk ss wins es = .ok labs ss' wins' → lrun ss.ls labs = some ss'.ls := by
  intro es
  induction es with
  | nil => intro ss wins labs ss' wins' h; simp only [absRun, Res.ok.injEq] at h; obtain ⟨rfl, rfl, rfl⟩ := h; rfl
  | cons e es ih =>
    intro ss wins labs ss' wins' h
    simp only [absRun] at h
    split at h
    · simp at h
    · simp at h
    · split at h
      · simp at h
      · rename_i _ l1 p _ _ ls1 h1
        cases h2 : absRun trk ⟨ls1, p⟩ wins es with
        | bad => simp [h2, Res.prepend] at h
        | undisc => simp [h2, Res.prepend] at h
        | ok labs2 ss2 w2 =>
          simp only [h2, Res.prepend, Res.ok.injEq] at h
          obtain ⟨rfl, rfl, rfl⟩ := h
          exact lrun_append _ _ _ _ _ h1 (ih _ _ _ _ _ h2)
    · split at h
      · simp at h
      · rename_i _ ls1 h1
        cases h2 : absRun trk ⟨ls1, ss.pend⟩ wins.tail es with
        | bad => simp [h2, Res.prepend] at h
        | undisc => simp [h2, Res.prepend] at h
        | ok labs2 ss2 w2 =>
          simp only [h2, Res.prepend, Res.ok.injEq] at h
          obtain ⟨rfl, rfl, rfl⟩ := h
          exact lrun_append _ _ _ _ _ h1 (ih _ _ _ _ _ h2)

/-- the events are accepted (or the oracle left the discipline) and the checker ends in a state satisfying `R` -/
def Ok (trk : Bool) (ss : SS) (wins : Wins) (es : List Event) (R : SS → Wins → Prop) : Prop :=
  match absRun trk ss wins es with
  | .bad => False
  | .undisc => True
  | .ok _ ss' wins' => R ss' wins'

theorem Ok_nil (trk ss wins R) (h : R ss wins) : Ok trk ss wins [] R := by simpa [Ok, absRun] using h

def Res.andThen (r : Res) (k : SS → Wins → Res) : Res :=
  match r with
  | .ok l s w => (k s w).prepend l
  | .bad => .bad
  | .undisc => .undisc

theorem Res.prepend_andThen (r : Res) (l k) : (r.prepend l).andThen k = (r.andThen k).prepend l := by
  cases r with
  | bad => rfl
  | undisc => rfl
  | ok l1 s w =>
    simp only [Res.prepend, Res.andThen]
    cases k s w <;> simp [Res.prepend, List.append_assoc]

theorem absRun_append (trk) : ∀ (e1 e2 : List Event) (ss wins),
    absRun trk ss wins (e1 ++ e2) = (absRun trk ss wins e1).andThen (fun s w => absRun trk s w e2) := by
  intro e1
  induction e1 with
  | nil =>
    intro e2 ss wins
    simp only [absRun, List.nil_append, Res.andThen]
    cases absRun trk ss wins e2 <;> simp [Res.prepend]
  | cons e es ih =>
    intro e2 ss wins
    simp only [List.cons_append, absRun]
    split
    · rfl
    · rfl
    · split
      · rfl
      · rw [ih, Res.prepend_andThen]
    · split
      · rfl
      · rw [ih, Res.prepend_andThen]

theorem Ok_append (trk ss wins e1 e2 R) (h : Ok trk ss wins e1 (fun ss1 w1 => Ok trk ss1 w1 e2 R)) :
    Ok trk ss wins (e1 ++ e2) R := by
  unfold Ok at h ⊢
  rw [absRun_append]
  cases h1 : absRun trk ss wins e1 with
  | bad => simp [h1] at h
  | undisc => simp [Res.andThen]
  | ok l1 ss1 w1 =>
    simp only [h1, Res.andThen] at h ⊢
    cases h2 : absRun trk ss1 w1 e2 <;> simp_all [Res.prepend]

theorem Ok_iff (trk ss wins es R) :
    Ok trk ss wins es R ↔
      absRun trk ss wins es ≠ .bad ∧ ∀ labs ss' wins', absRun trk ss wins es = .ok labs ss' wins' → R ss' wins' := by
  unfold Ok
  cases absRun trk ss wins es <;> simp

theorem Ok_nil_iff (trk ss wins R) : Ok trk ss wins [] R ↔ R ss wins := by simp [Ok, absRun]

theorem Ok_cons (trk ss wins e es R) :
    Ok trk ss wins (e :: es) R ↔
      match absEv trk ss e with
      | .bad => False
      | .undisc => True
      | .step labs p =>
        (match lrun ss.ls labs with
         | none => False
         | some ls' => Ok trk ⟨ls', p⟩ wins es R)
      | .window =>
        (match lrun ss.ls ((wins.headD []).map labQ) with
         | none => False
         | some ls' => Ok trk ⟨ls', ss.pend⟩ wins.tail es R) := by
  unfold Ok
  simp only [absRun]
  cases absEv trk ss e with
  | bad => simp
  | undisc => simp
  | step labs p =>
    simp only []
    cases lrun ss.ls labs with
    | none => simp
    | some ls' => simp only []; cases absRun trk ⟨ls', p⟩ wins es <;> simp [Res.prepend]
  | window =>
    simp only []
    cases lrun ss.ls ((wins.headD []).map labQ) with
    | none => simp
    | some ls' => simp only []; cases absRun trk ⟨ls', ss.pend⟩ wins.tail es <;> simp [Res.prepend]

theorem Ok_mono (trk ss wins es) (R R' : SS → Wins → Prop) (h : Ok trk ss wins es R) (hm : ∀ s w, R s w → R' s w) :
    Ok trk ss wins es R' := by
  unfold Ok at h ⊢
  cases h1 : absRun trk ss wins es <;> simp_all

/-- the environment's list operations never block and leave the updater's pc and counter alone -/
theorem lrun_env : ∀ (ops : List EnvOp) (ls : LState),
    ∃ ls', lrun ls (ops.map labQ) = some ls' ∧ ls'.upc = ls.upc ∧ ls'.gp = ls.gp := by
  intro ops
  induction ops with
  | nil => intro ls; exact ⟨ls, rfl, rfl, rfl⟩
  | cons o ops ih =>
    intro ls
    cases o with
    | reg i =>
      obtain ⟨ls', h1, h2, h3⟩ := ih { ls with reg := i :: ls.reg, inp := if ls.upc = .scan then i :: ls.inp else ls.inp }
      exact ⟨ls', by simpa [lrun, lstep, labQ] using h1, h2, h3⟩
    | unreg i =>
      obtain ⟨ls', h1, h2, h3⟩ := ih { ls with reg := rm i ls.reg, inp := rm i ls.inp }
      exact ⟨ls', by simpa [lrun, lstep, labQ] using h1, h2, h3⟩

/-! ## partial-correctness triples over `exec` -/

abbrev Pre := Env → SS → Wins → Prop
abbrev Post := Ctl → Env → SS → Wins → Prop

/-- every `.ok` run of `r` from a state satisfying the precondition has its events accepted by the checker (from `ss`,
`wins`) into a checker state satisfying `Q` -/
def Holds (trk : Bool) (r : Except String Out) (ss : SS) (wins : Wins) (Q : Post) : Prop :=
  ∀ out, r = .ok out → Ok trk ss wins out.events (fun ss' wins' => Q out.ctl out.env ss' wins')

def Triple (trk : Bool) (fuel : Nat) (s : Stmt) (P : Pre) (Q : Post) : Prop :=
  ∀ env inp ss wins, P env ss wins → Holds trk (exec fuel s env inp) ss wins Q

theorem Holds.mono {trk r ss wins} {Q Q' : Post} (h : Holds trk r ss wins Q) (hm : ∀ c e s w, Q c e s w → Q' c e s w) :
    Holds trk r ss wins Q' := fun out ho => Ok_mono _ _ _ _ _ _ (h out ho) (fun s w => hm _ _ s w)

theorem Triple.conseq {trk fuel s} {P P' : Pre} {Q Q' : Post} (h : Triple trk fuel s P Q)
    (hp : ∀ e s w, P' e s w → P e s w) (hq : ∀ c e s w, Q c e s w → Q' c e s w) : Triple trk fuel s P' Q' :=
  fun env inp ss wins hP => (h env inp ss wins (hp _ _ _ hP)).mono hq

theorem Holds.seq {trk fuel a b env inp ss wins} {Qa Q : Post}
    (ha : Holds trk (exec fuel a env inp) ss wins Qa)
    (hb : ∀ e i s w, Qa .normal e s w → Holds trk (exec fuel b e i) s w Q)
    (hc : ∀ c e s w, c ≠ .normal → Qa c e s w → Q c e s w) :
    Holds trk (exec fuel (.seq a b) env inp) ss wins Q := by
  intro out ho
  simp only [exec, bind, Except.bind] at ho
  cases h1 : exec fuel a env inp with
  | error m => simp [h1] at ho
  | ok o =>
    simp only [h1] at ho
    have hA := ha o h1
    by_cases hn : o.ctl = .normal
    · simp only [hn] at ho
      cases h2 : exec fuel b o.env o.inp with
      | error m => simp [h2] at ho
      | ok o2 =>
        simp only [h2, Except.ok.injEq] at ho
        subst ho
        apply Ok_append
        refine Ok_mono _ _ _ _ _ _ hA ?_
        intro s w hq
        rw [hn] at hq
        exact hb _ _ _ _ hq o2 h2
    · have : out = o := by
        revert ho; cases hc' : o.ctl <;> simp_all
      subst this
      exact Ok_mono _ _ _ _ _ _ hA (fun s w hq => hc _ _ _ _ hn hq)

theorem Triple.seq {trk fuel a b} {P : Pre} {Qa Q : Post} (ha : Triple trk fuel a P Qa)
    (hb : Triple trk fuel b (Qa .normal) Q) (hc : ∀ c e s w, c ≠ .normal → Qa c e s w → Q c e s w) :
    Triple trk fuel (.seq a b) P Q :=
  fun env inp ss wins hP => Holds.seq (ha env inp ss wins hP) (fun e i s w hq => hb e i s w hq) hc

/-- loop rule: `I` = loop invariant, `B` = postcondition of one execution of the body -/
theorem Holds.loop {trk} (body : Env → List Val → Except String Out) (I : Pre) (B Q : Post)
    (hbody : ∀ env inp ss wins, I env ss wins → Holds trk (body env inp) ss wins B)
    (hn : ∀ e s w, B .normal e s w → I e s w) (hcn : ∀ e s w, B .cont e s w → I e s w)
    (hbrk : ∀ e s w, B .brk e s w → Q .normal e s w)
    (hoth : ∀ c e s w, c ≠ .normal → c ≠ .cont → c ≠ .brk → B c e s w → Q c e s w)
    (hfuel : ∀ e s w, I e s w → Q .fuel e s w) :
    ∀ (n : Nat) env inp ss wins, I env ss wins → Holds trk (iterate body n env inp []) ss wins Q := by
  intro n
  induction n with
  | zero =>
    intro env inp ss wins hI out ho
    simp only [iterate, Except.ok.injEq] at ho
    subst ho
    exact Ok_nil _ _ _ _ (hfuel _ _ _ hI)
  | succ n ih =>
    intro env inp ss wins hI out ho
    simp only [iterate, bind, Except.bind, List.nil_append] at ho
    cases h : body env inp with
    | error m => simp [h] at ho
    | ok o =>
      simp only [h] at ho
      have hB := hbody env inp ss wins hI o h
      have hrec : ∀ (hI' : ∀ s w, B o.ctl o.env s w → I o.env s w),
          iterate body n o.env o.inp o.events = .ok out → Ok trk ss wins out.events (fun s w => Q out.ctl out.env s w) := by
        intro hI' hit
        rw [iterate_acc] at hit
        cases h2 : iterate body n o.env o.inp [] with
        | error m => simp [h2] at hit
        | ok o2 =>
          simp only [h2, Except.ok.injEq] at hit
          subst hit
          apply Ok_append
          refine Ok_mono _ _ _ _ _ _ hB ?_
          intro s w hq
          exact ih _ _ _ _ (hI' _ _ hq) o2 h2
      cases hc : o.ctl with
      | normal => simp only [hc] at ho; exact hrec (fun s w hq => hn _ _ _ (hc ▸ hq)) ho
      | cont => simp only [hc] at ho; exact hrec (fun s w hq => hcn _ _ _ (hc ▸ hq)) ho
      | brk =>
        simp only [hc, Except.ok.injEq] at ho; subst ho
        exact Ok_mono _ _ _ _ _ _ hB (fun s w hq => hbrk _ _ _ (hc ▸ hq))
      | ret v =>
        simp only [hc, Except.ok.injEq] at ho; subst ho
        refine Ok_mono _ _ _ _ _ _ hB (fun s w hq => ?_)
        simp only [List.nil_append]
        exact hoth _ _ _ _ (by simp) (by simp) (by simp) (hc ▸ hq)
      | blocked =>
        simp only [hc, Except.ok.injEq] at ho; subst ho
        refine Ok_mono _ _ _ _ _ _ hB (fun s w hq => ?_)
        exact hoth _ _ _ _ (by simp) (by simp) (by simp) (hc ▸ hq)
      | fuel =>
        simp only [hc, Except.ok.injEq] at ho; subst ho
        refine Ok_mono _ _ _ _ _ _ hB (fun s w hq => ?_)
        exact hoth _ _ _ _ (by simp) (by simp) (by simp) (hc ▸ hq)

theorem Triple.loop {trk fuel body} (I : Pre) (B Q : Post) (hbody : Triple trk fuel body I B)
    (hn : ∀ e s w, B .normal e s w → I e s w) (hcn : ∀ e s w, B .cont e s w → I e s w)
    (hbrk : ∀ e s w, B .brk e s w → Q .normal e s w)
    (hoth : ∀ c e s w, c ≠ .normal → c ≠ .cont → c ≠ .brk → B c e s w → Q c e s w)
    (hfuel : ∀ e s w, I e s w → Q .fuel e s w) : Triple trk fuel (.loop body) I Q := by
  intro env inp ss wins hI
  simp only [exec]
  exact Holds.loop _ I B Q (fun e i s w h => hbody e i s w h) hn hcn hbrk hoth hfuel fuel env inp ss wins hI

/-- call of a `void` function whose result is not used -/
theorem Holds.callN {trk fuel body env inp ss wins} {params : List String} {args : List Expr} {vs : List Val}
    {Qb Q : Post} (hargs : evalArgs env args = .ok vs) (hlen : params.length = vs.length)
    (hb : Holds trk (exec fuel body { vars := bindParams params vs, priv := env.priv } inp) ss wins Qb)
    (hn : ∀ e s w, Qb .normal e s w → Q .normal { vars := env.vars, priv := e.priv } s w)
    (hr : ∀ e s w, Qb (.ret none) e s w → Q .normal { vars := env.vars, priv := e.priv } s w)
    (hrs : ∀ v e s w, Qb (.ret (some v)) e s w → Q .normal { vars := env.vars, priv := e.priv } s w)
    (hbl : ∀ e s w, Qb .blocked e s w → Q .blocked e s w) (hf : ∀ e s w, Qb .fuel e s w → Q .fuel e s w) :
    Holds trk (exec fuel (.call none params args body) env inp) ss wins Q := by
  intro out ho
  simp only [exec, hargs, bind, Except.bind, hlen, ne_eq, not_true_eq_false, if_false] at ho
  cases h : exec fuel body { vars := bindParams params vs, priv := env.priv } inp with
  | error m => simp [h] at ho
  | ok o =>
    have hB := hb o h
    simp only [h] at ho
    cases hc : o.ctl with
    | normal => simp only [hc, Except.ok.injEq] at ho; subst ho; exact Ok_mono _ _ _ _ _ _ hB (fun s w hq => hn _ _ _ (hc ▸ hq))
    | ret v =>
      cases v with
      | none => simp only [hc, Except.ok.injEq] at ho; subst ho; exact Ok_mono _ _ _ _ _ _ hB (fun s w hq => hr _ _ _ (hc ▸ hq))
      | some v =>
        simp only [hc, Except.ok.injEq, setDst] at ho; subst ho
        exact Ok_mono _ _ _ _ _ _ hB (fun s w hq => hrs v _ _ _ (hc ▸ hq))
    | brk => simp [hc] at ho
    | cont => simp [hc] at ho
    | blocked => simp only [hc, Except.ok.injEq] at ho; subst ho; exact Ok_mono _ _ _ _ _ _ hB (fun s w hq => hbl _ _ _ (hc ▸ hq))
    | fuel => simp only [hc, Except.ok.injEq] at ho; subst ho; exact Ok_mono _ _ _ _ _ _ hB (fun s w hq => hf _ _ _ (hc ▸ hq))

/-- call of a parameterless `void` function -/
theorem Holds.call0 {trk fuel body env inp ss wins} {Qb Q : Post}
    (hb : Holds trk (exec fuel body { vars := bindParams [] [], priv := env.priv } inp) ss wins Qb)
    (hn : ∀ e s w, Qb .normal e s w → Q .normal { vars := env.vars, priv := e.priv } s w)
    (hr : ∀ e s w, Qb (.ret none) e s w → Q .normal { vars := env.vars, priv := e.priv } s w)
    (hrs : ∀ v e s w, Qb (.ret (some v)) e s w → Q .normal { vars := env.vars, priv := e.priv } s w)
    (hbl : ∀ e s w, Qb .blocked e s w → Q .blocked e s w) (hf : ∀ e s w, Qb .fuel e s w → Q .fuel e s w) :
    Holds trk (exec fuel (.call none [] [] body) env inp) ss wins Q := by
  intro out ho
  simp only [exec, evalArgs, bind, Except.bind, List.length_nil, ne_eq, not_true_eq_false, if_false] at ho
  cases h : exec fuel body { vars := bindParams [] [], priv := env.priv } inp with
  | error m => simp [h] at ho
  | ok o =>
    have hB := hb o h
    simp only [h] at ho
    cases hc : o.ctl with
    | normal => simp only [hc, Except.ok.injEq] at ho; subst ho; exact Ok_mono _ _ _ _ _ _ hB (fun s w hq => hn _ _ _ (hc ▸ hq))
    | ret v =>
      cases v with
      | none => simp only [hc, Except.ok.injEq] at ho; subst ho; exact Ok_mono _ _ _ _ _ _ hB (fun s w hq => hr _ _ _ (hc ▸ hq))
      | some v =>
        simp only [hc, Except.ok.injEq, setDst] at ho; subst ho
        exact Ok_mono _ _ _ _ _ _ hB (fun s w hq => hrs v _ _ _ (hc ▸ hq))
    | brk => simp [hc] at ho
    | cont => simp [hc] at ho
    | blocked => simp only [hc, Except.ok.injEq] at ho; subst ho; exact Ok_mono _ _ _ _ _ _ hB (fun s w hq => hbl _ _ _ (hc ▸ hq))
    | fuel => simp only [hc, Except.ok.injEq] at ho; subst ho; exact Ok_mono _ _ _ _ _ _ hB (fun s w hq => hf _ _ _ (hc ▸ hq))


end UrcuVerif.Src.SyncQ
