import UrcuVerif.CallRcu.Barrier
import UrcuVerif.Src.CallRcuLocal
import UrcuVerif.Src.CallRcuRefine
import UrcuVerif.Src.FutexLocal
import UrcuVerif.Src.ForkExec
/-!
# Thread-local projection of L2 (`CallRcu/Barrier.lean`) for a thread inside `rcu_barrier()` (C04)

Local part of L2's `BState` for the calling thread `t`: `bpc t` (refined by sub-pcs where L2 folds several source
accesses into one label), the C03 part `(base.tpc t, base.nest t)` (= `CallRcuL.U.LState`: the thread runs `_call_rcu`
through the hook `extCall`, continuation `K.ext`) and `todo b` of its own completion `b` (only the caller's `bInit` /
`bEnq` write it).  Ghost of the local automaton: `seen` = the helpers the counting loop has enumerated, `wo` = the answer of
the first `_rcu_read_ongoing()` (qsbr bracket `rcu_thread_offline()` … `rcu_thread_online()`, no L2 label).

`LLabel` = the thread's accesses with the values written / observed:

* `ongoing v` – `_rcu_read_ongoing()` answered `v`.  The first one only decides the qsbr bracket; the second one is the
  test "inside a read-side critical section": accepted only with `v = (0 < nest)` (the answer is the truth about the
  thread's own nesting – that is `Props/SrcRead.lean`'s statement about `_rcu_read_ongoing`); `v = true` is L2's
  `bRefused t`, the function then only prints and returns;
* `allocB b` – `calloc` returned the completion object, which is L2's barrier `b` (`bCall t`, observed: `b = nextB`);
* `lock` / `unlock` – `pthread_mutex_lock/unlock(&call_rcu_mutex)` returned 0 (`bLock t` / `bUnlock t`);
* `it x` – an answer of `cds_list_for_each_entry.first/.next(&call_rcu_data_list …)`: helper `x`, `none` = end of list.
  Counting loop: the answers are collected in `seen` (observed at L2: they enumerate `base.list`, which cannot change –
  the mutex is held: `CallRcu.list_frame_held`).  Enqueue loop: **the answers must enumerate `todo` again** (`first` answers
  `todo.head?`, `.next` answers the successor of the head) – "both loops see the same list";
* `setRef m` – `urcu_ref_set(&completion->ref, m)`: accepted only with `m = |seen| + 1` (`bInit t`: `todo := seen`);
* `allocW id` – `calloc` returned the work item whose `rcu_head` is callback `id`: `bEnq t id h` for `h = todo.head`,
  `todo := todo.tail`; the thread is then at C03's `enq id h .ext`;
* `u l` – an access of `_call_rcu` (`CallRcuL.U.LLabel`, C03's `.base` labels `enq inc ldFlags ldFutex stFutex wake`): accepted
  by `U.lstep`; the next `it` / `unlock` is accepted only when C03's pc is back at `ext` – **exactly one marker per helper of
  the list, each completely enqueued, in list order, and the unlock only when `todo = []`**;
* `dec` – `uatomic_dec(&completion->futex)` (`bDec`), `ldCnt v` – load of `completion->barrier_count` (`bLdCnt`; `v = 0`: to
  `put`), `w l` – the accesses of `call_rcu_completion_wait` (`Futex.Br.WLabel` / `Br.lstep`: `bWaitLd bWaitFx bSpurious`);
* `put r` – `uatomic_sub_return(&completion->ref.refcount, 1)` returned `r` (`bPut t`); `release` = `free_completion` is due
  exactly when `r = 0`;
* `offline` / `online` / `warn` (`fprintf`): no L2 label.
-/
set_option linter.unusedSimpArgs false
set_option linter.unusedVariables false
namespace UrcuVerif.Src.TailL
open UrcuVerif UrcuVerif.CallRcu UrcuVerif.Src.CallRcuL UrcuVerif.Src.Futex

inductive Pc
  | start | off | chk | warn | alloc
  | lock (b : Nat) | count (b : Nat) | setRef (b : Nat) | first2 (b : Nat) | loop2 (b : Nat) | allocW (b : Nat)
  | bp (p : BPc)       -- L2's `dec b`, `ldCnt b`, `waitLd b`, `waitFx b`, `asleep b`, `put b`
  | rel | fin
  deriving DecidableEq, Repr

structure LState where
  pc : Pc
  wo : Bool
  u : U.LState
  seen : List Nat
  todo : List Nat
  deriving DecidableEq, Repr

inductive LLabel
  | ongoing (v : Bool) | offline | online | warn
  | allocB (b : Nat) | lock | unlock | it (x : Option Nat) | setRef (m : Int) | allocW (id : Nat)
  | u (l : U.LLabel)
  | dec | ldCnt (v : Int) | w (l : Br.WLabel) | put (r : Int) | release
  | bad
  deriving DecidableEq, Repr

def lstep (ls : LState) (l : LLabel) : Option LState :=
  match ls.pc with
  | .start => (match l with | .ongoing v => some { ls with pc := if v then .off else .chk, wo := v } | _ => none)
  | .off => (match l with | .offline => some { ls with pc := .chk } | _ => none)
  | .chk =>
    (match l with
     | .ongoing v =>
       if v = decide (0 < ls.u.nest) ∧ ls.u.pc = .idle then some { ls with pc := if v then .warn else .alloc } else none
     | _ => none)
  | .warn => (match l with | .warn => some { ls with pc := .fin } | _ => none)
  | .alloc => (match l with | .allocB b => some { ls with pc := .lock b, u := ⟨.ext, ls.u.nest⟩ } | _ => none)
  | .lock b => (match l with | .lock => some { ls with pc := .count b, seen := [] } | _ => none)
  | .count b =>
    (match l with
     | .it (some h) => some { ls with seen := ls.seen ++ [h] }
     | .it none => some { ls with pc := .setRef b }
     | _ => none)
  | .setRef b =>
    (match l with
     | .setRef m => if m = (ls.seen.length : Int) + 1 then some { ls with pc := .first2 b, todo := ls.seen } else none
     | _ => none)
  | .first2 b => (match l with | .it x => if x = ls.todo.head? then some { ls with pc := .loop2 b } else none | _ => none)
  | .loop2 b =>
    (match l with
     | .it x =>
       if ls.u.pc = .ext ∧ ls.todo ≠ [] ∧ x = ls.todo.tail.head? then some { ls with pc := .allocW b } else none
     | .unlock => if ls.u.pc = .ext ∧ ls.todo = [] then some { ls with pc := .bp (.dec b) } else none
     | .u ul => (match U.lstep ls.u ul with | some u' => some { ls with u := u' } | none => none)
     | _ => none)
  | .allocW b =>
    (match l with
     | .allocW id =>
       (match ls.todo with
        | h :: r => some { ls with pc := .loop2 b, todo := r, u := ⟨.enq id h .ext, ls.u.nest⟩ }
        | [] => none)
     | _ => none)
  | .bp p =>
    (match l with
     | .dec => (match p with | .dec b => some { ls with pc := .bp (.ldCnt b) } | _ => none)
     | .ldCnt v => (match p with | .ldCnt b => some { ls with pc := .bp (if v = 0 then .put b else .waitLd b) } | _ => none)
     | .w wl => (match Br.lstep p wl with | some p' => some { ls with pc := .bp p' } | none => none)
     | .put r =>
       (match p with
        | .put _ => some { ls with pc := if r = 0 then .rel else .fin, u := ⟨.idle, ls.u.nest⟩ }
        | _ => none)
     | _ => none)
  | .rel => (match l with | .release => some { ls with pc := .fin } | _ => none)
  | .fin => (match l with | .online => if ls.wo = true then some ls else none | _ => none)

def lrun : LState → List LLabel → Option LState
  | ls, [] => some ls
  | ls, l :: r => match lstep ls l with
    | some ls' => lrun ls' r
    | none => none

theorem lrun_append (ls : LState) (a b : List LLabel) :
    lrun ls (a ++ b) = (lrun ls a).bind (fun m => lrun m b) := by
  induction a generalizing ls with
  | nil => rfl
  | cons l r ih => simp only [List.cons_append, lrun]; cases lstep ls l <;> simp [ih]

/-- L2's barrier pc of a local pc -/
def Pc.abs : Pc → BPc
  | .lock b => .lock b | .count b => .init b | .setRef b => .init b
  | .first2 b => .loop b | .loop2 b => .loop b | .allocW b => .loop b
  | .bp p => p
  | _ => .idle

/-- the barrier a local pc is about -/
def Pc.bar : Pc → Option Nat
  | .lock b | .count b | .setRef b | .first2 b | .loop2 b | .allocW b => some b
  | .bp (.dec b) | .bp (.ldCnt b) | .bp (.waitLd b) | .bp (.waitFx b) | .bp (.asleep b) | .bp (.put b) => some b
  | _ => none

/-- the L2 labels of a local label of thread `t` taken in local state `ls` (`[]` = stutter) -/
def toL2 (t : Nat) (ls : LState) : LLabel → List BLabel
  | .ongoing v => (match ls.pc with | .chk => if v then [.bRefused t] else [] | _ => [])
  | .allocB _ => [.bCall t]
  | .lock => [.bLock t]
  | .setRef _ => [.bInit t]
  | .allocW id => (match ls.todo with | h :: _ => [.bEnq t id h] | [] => [])
  | .u l => (match U.toL2 t l with | some L => [.base L] | none => [])
  | .unlock => [.bUnlock t]
  | .dec => [.bDec t]
  | .ldCnt _ => [.bLdCnt t]
  | .w l => [l.toL2 t]
  | .put _ => [.bPut t]
  | _ => []

end UrcuVerif.Src.TailL
