import UrcuVerif.Src.CallRcuHelper
/-!
# `call_rcu_thread`: the futex wait loop, the tail of the main loop's body, the whole body, the whole function

Oracle discipline: `Follows spec inp` with `spec` a function of a *path descriptor* (which branches the run takes:
batch taken or queue empty, STOP seen, rounds of the futex wait loop, …).  Every well-typed run has a path descriptor;
the theorems hold for every path.  Not covered: the PAUSE handshake of the fork handlers (the flags word read at the top
of the loop has `URCU_CALL_RCU_PAUSE` clear) and `cpu_affinity ≥ 0` (`set_thread_cpu_affinity` returns at once).
-/
set_option linter.unusedSimpArgs false
set_option linter.unusedVariables false
set_option maxRecDepth 8192
namespace UrcuVerif.Src.CallRcuR
open UrcuVerif UrcuVerif.Src UrcuVerif.Gen.Src UrcuVerif.CallRcu UrcuVerif.Src.CallRcuL

/-! ## `call_rcu_wait`: the futex wait loop -/

/-- body of the `while (uatomic_load(&crdp->futex) == -1)` loop of `call_rcu_wait` -/
def waitBody : Stmt := match seqNth «call_rcu_wait» 1 with | .loop b => b | _ => .skip

/-- one unsuccessful round of the wait loop: the futex word is `-1` and `futex(FUTEX_WAIT)` returns 0 (woken, or a
spurious wake-up), or fails with `errno = EINTR` -/
inductive WRound | woken | eintr (y : Int)
/-- the last round: the futex word is not `-1` any more, or `futex(FUTEX_WAIT)` fails with `errno = EAGAIN` -/
inductive WFin | seen (x : Int) | eagain (y : Int)

def isInt (v : Val) : Prop := ∃ n : Int, v = .int n

def roundSpec : WRound → List (Val → Prop)
  | .woken => [(· = .int (-1)), (· = .int 0)]
  | .eintr y => [(· = .int (-1)), (· = .int y), (· = .int 4)]
def finSpec : WFin → List (Val → Prop)
  | .seen x => [(· = .int x)]
  | .eagain y => [(· = .int (-1)), (· = .int y), (· = .int 11)]
def WFin.ok : WFin → Prop
  | .seen x => x ≠ -1
  | .eagain y => y ≠ 0
def WRound.ok : WRound → Prop
  | .woken => True
  | .eintr y => y ≠ 0
def waitSpec (rounds : List WRound) (fin : WFin) : List (Val → Prop) := rounds.flatMap roundSpec ++ finSpec fin

/-- what every round keeps: `crdp` and the private view -/
def WaitEnv (env o : Env) (C : Loc) : Prop := o.vars "crdp" = some (.ptr C) ∧ o.priv = env.priv

open Lean.Parser.Tactic in
set_option hygiene false in
macro "wait_exec" : tactic => `(tactic| (
  rw [show waitBody = .seq _ _ from rfl]
  sexec [absH, waitArgs, List.flatMap_cons, WaitEnv]))

theorem waitBody_blk0 (L : Layout) (C : Loc) (fuel : Nat) (env : Env) (hc : env.vars "crdp" = some (.ptr C)) :
    ∃ o, exec fuel waitBody env [] = .ok o ∧ o.ctl = .blocked ∧ o.events.flatMap (absH L C) = [] := by
  wait_exec

theorem waitBody_seen (L : Layout) (C : Loc) (fuel : Nat) (env : Env) (x : Int) (rest : List Val) (hx : x ≠ -1)
    (hc : env.vars "crdp" = some (.ptr C)) :
    ∃ o, exec fuel waitBody env (.int x :: rest) = .ok o ∧ o.ctl = .brk ∧ o.inp = rest ∧ WaitEnv env o.env C ∧
      o.events.flatMap (absH L C) = [.ldFutex x] := by
  wait_exec

theorem waitBody_blk1 (L : Layout) (C : Loc) (fuel : Nat) (env : Env) (hc : env.vars "crdp" = some (.ptr C)) :
    ∃ o, exec fuel waitBody env [.int (-1)] = .ok o ∧ o.ctl = .blocked ∧
      o.events.flatMap (absH L C) = [.ldFutex (-1)] := by
  wait_exec

theorem waitBody_woken (L : Layout) (C : Loc) (fuel : Nat) (env : Env) (rest : List Val)
    (hc : env.vars "crdp" = some (.ptr C)) :
    ∃ o, exec fuel waitBody env (.int (-1) :: .int 0 :: rest) = .ok o ∧ o.ctl = .cont ∧ o.inp = rest ∧
      WaitEnv env o.env C ∧ o.events.flatMap (absH L C) = [.ldFutex (-1), .futexWait 0] := by
  wait_exec

theorem waitBody_blk2 (L : Layout) (C : Loc) (fuel : Nat) (env : Env) (y : Int) (hy : y ≠ 0)
    (hc : env.vars "crdp" = some (.ptr C)) :
    ∃ o, exec fuel waitBody env [.int (-1), .int y] = .ok o ∧ o.ctl = .blocked ∧
      o.events.flatMap (absH L C) = [.ldFutex (-1), .futexWait y] := by
  wait_exec

theorem waitBody_eagain (L : Layout) (C : Loc) (fuel : Nat) (env : Env) (y : Int) (rest : List Val) (hy : y ≠ 0)
    (hc : env.vars "crdp" = some (.ptr C)) :
    ∃ o, exec fuel waitBody env (.int (-1) :: .int y :: .int 11 :: rest) = .ok o ∧ o.ctl = .ret none ∧ o.inp = rest ∧
      WaitEnv env o.env C ∧ o.events.flatMap (absH L C) = [.ldFutex (-1), .futexWait y, .errno 11] := by
  wait_exec

theorem waitBody_eintr (L : Layout) (C : Loc) (fuel : Nat) (env : Env) (y : Int) (rest : List Val) (hy : y ≠ 0)
    (hc : env.vars "crdp" = some (.ptr C)) :
    ∃ o, exec fuel waitBody env (.int (-1) :: .int y :: .int 4 :: rest) = .ok o ∧ o.ctl = .normal ∧ o.inp = rest ∧
      WaitEnv env o.env C ∧ o.events.flatMap (absH L C) = [.ldFutex (-1), .futexWait y, .errno 4] := by
  wait_exec

/-- how the wait loop ends: a prefix (any accepted state), or left (by `break` or `return`) with the helper at `pollW` -/
def WaitPost (env : Env) (b : List Nat) (c : Nat) (rt : Bool) (more : List (Val → Prop)) (out : Out)
    (ls' : H.LState) : Prop :=
  (out.ctl = .blocked ∨ out.ctl = .fuel) ∨
  ((out.ctl = .normal ∨ out.ctl = .ret none) ∧ ls' = ⟨.pollW, 0, b, c, rt⟩ ∧ out.env.priv = env.priv ∧
    Follows more out.inp)

theorem wait_loop (L : Layout) (C : Loc) (fuel : Nat) (b : List Nat) (c : Nat) (rt : Bool) (fin : WFin)
    (hfin : fin.ok) (more : List (Val → Prop)) (env0 : Env) :
    ∀ (rounds : List WRound) (n : Nat) (env : Env) (inp : List Val) (acc : List Event),
      (∀ r ∈ rounds, r.ok) → env.vars "crdp" = some (.ptr C) → env.priv = env0.priv →
      Follows (waitSpec rounds fin ++ more) inp →
      ∃ out evs, iterate (exec fuel waitBody) n env inp acc = .ok out ∧ out.events = acc ++ evs ∧
        ∃ ls', H.lrun ⟨.waitLd, 0, b, c, rt⟩ (evs.flatMap (absH L C)) = some ls' ∧
          WaitPost env0 b c rt more out ls' := by
  intro rounds
  induction rounds with
  | nil =>
    intro n env inp acc _ hc hp hF
    cases n with
    | zero => exact ⟨_, [], rfl, by simp, _, rfl, .inl (.inr rfl)⟩
    | succ n =>
      cases fin with
      | seen x =>
        match inp, hF with
        | [], _ =>
          obtain ⟨o, ho, hctl, hev⟩ := waitBody_blk0 L C fuel env hc
          rcases o with ⟨oev, oenv, oinp, octl⟩; simp only [] at hctl hev; subst hctl
          exact ⟨_, oev, by simp only [iterate, ho, bind, Except.bind]; rfl, rfl, _, by rw [hev]; rfl, .inl (.inl rfl)⟩
        | v :: rest, hF =>
          obtain ⟨rfl, hF'⟩ : v = .int x ∧ Follows more rest := by simpa [waitSpec, finSpec, Follows] using hF
          obtain ⟨o, ho, hctl, hi, ⟨_, hp'⟩, hev⟩ := waitBody_seen L C fuel env x rest hfin hc
          rcases o with ⟨oev, oenv, oinp, octl⟩; simp only [] at hctl hev hi hp'; subst hctl hi
          refine ⟨_, oev, by simp only [iterate, ho, bind, Except.bind]; rfl, rfl, _, ?_, .inr ⟨.inl rfl, rfl, ?_, hF'⟩⟩
          · rw [hev]; simp [H.lrun, H.lstep, H.lstepAt, show x ≠ -1 from hfin]
          · simp only []; rw [hp', hp]
      | eagain y =>
        match inp, hF with
        | [], _ =>
          obtain ⟨o, ho, hctl, hev⟩ := waitBody_blk0 L C fuel env hc
          rcases o with ⟨oev, oenv, oinp, octl⟩; simp only [] at hctl hev; subst hctl
          exact ⟨_, oev, by simp only [iterate, ho, bind, Except.bind]; rfl, rfl, _, by rw [hev]; rfl, .inl (.inl rfl)⟩
        | [v], hF =>
          obtain rfl : v = .int (-1) := by simpa [waitSpec, finSpec, Follows] using hF
          obtain ⟨o, ho, hctl, hev⟩ := waitBody_blk1 L C fuel env hc
          rcases o with ⟨oev, oenv, oinp, octl⟩; simp only [] at hctl hev; subst hctl
          refine ⟨_, oev, by simp only [iterate, ho, bind, Except.bind]; rfl, rfl, ?_⟩
          rw [hev]; simp [H.lrun, H.lstep, H.lstepAt, WaitPost]
        | [v, w], hF =>
          obtain ⟨rfl, rfl⟩ : v = .int (-1) ∧ w = .int y := by simpa [waitSpec, finSpec, Follows] using hF
          obtain ⟨o, ho, hctl, hev⟩ := waitBody_blk2 L C fuel env y hfin hc
          rcases o with ⟨oev, oenv, oinp, octl⟩; simp only [] at hctl hev; subst hctl
          refine ⟨_, oev, by simp only [iterate, ho, bind, Except.bind]; rfl, rfl, ?_⟩
          rw [hev]; simp [H.lrun, H.lstep, H.lstepAt, WaitPost, show y ≠ 0 from hfin]
        | v :: w :: e :: rest, hF =>
          obtain ⟨rfl, rfl, rfl, hF'⟩ : v = .int (-1) ∧ w = .int y ∧ e = .int 11 ∧ Follows more rest := by
            simpa [waitSpec, finSpec, Follows] using hF
          obtain ⟨o, ho, hctl, hi, ⟨_, hp'⟩, hev⟩ := waitBody_eagain L C fuel env y rest hfin hc
          rcases o with ⟨oev, oenv, oinp, octl⟩; simp only [] at hctl hev hi hp'; subst hctl hi
          refine ⟨_, oev, by simp only [iterate, ho, bind, Except.bind]; rfl, rfl, _, ?_, .inr ⟨.inr rfl, rfl, ?_, hF'⟩⟩
          · rw [hev]; simp [H.lrun, H.lstep, H.lstepAt, show y ≠ 0 from hfin]
          · simp only []; rw [hp', hp]
  | cons r rounds ih =>
    intro n env inp acc hr hc hp hF
    have hr' : ∀ r ∈ rounds, r.ok := fun x hx => hr x (by simp [hx])
    cases n with
    | zero => exact ⟨_, [], rfl, by simp, _, rfl, .inl (.inr rfl)⟩
    | succ n =>
      cases r with
      | woken =>
        match inp, hF with
        | [], _ =>
          obtain ⟨o, ho, hctl, hev⟩ := waitBody_blk0 L C fuel env hc
          rcases o with ⟨oev, oenv, oinp, octl⟩; simp only [] at hctl hev; subst hctl
          exact ⟨_, oev, by simp only [iterate, ho, bind, Except.bind]; rfl, rfl, _, by rw [hev]; rfl, .inl (.inl rfl)⟩
        | [v], hF =>
          obtain rfl : v = .int (-1) := by simpa [waitSpec, roundSpec, Follows] using hF
          obtain ⟨o, ho, hctl, hev⟩ := waitBody_blk1 L C fuel env hc
          rcases o with ⟨oev, oenv, oinp, octl⟩; simp only [] at hctl hev; subst hctl
          refine ⟨_, oev, by simp only [iterate, ho, bind, Except.bind]; rfl, rfl, ?_⟩
          rw [hev]; simp [H.lrun, H.lstep, H.lstepAt, WaitPost]
        | v :: w :: rest, hF =>
          obtain ⟨rfl, rfl, hF'⟩ : v = .int (-1) ∧ w = .int 0 ∧ Follows (waitSpec rounds fin ++ more) rest := by
            simpa [waitSpec, roundSpec, Follows, List.append_assoc] using hF
          obtain ⟨o, ho, hctl, hi, ⟨hc', hp'⟩, hev⟩ := waitBody_woken L C fuel env rest hc
          rcases o with ⟨oev, oenv, oinp, octl⟩; simp only [] at hctl hev hi hp' hc'; subst hctl hi
          obtain ⟨out, evs, hit, hevs, ls', hl, hpost⟩ := ih n oenv oinp (acc ++ oev) hr' hc' (hp'.trans hp) hF'
          refine ⟨out, oev ++ evs, by simp only [iterate, ho, bind, Except.bind]; exact hit, by simp [hevs], ls', ?_, hpost⟩
          simp [List.flatMap_append, H.lrun_append, hev, H.lrun, H.lstep, H.lstepAt, hl]
      | eintr y =>
        have hy : y ≠ 0 := hr (.eintr y) (by simp)
        match inp, hF with
        | [], _ =>
          obtain ⟨o, ho, hctl, hev⟩ := waitBody_blk0 L C fuel env hc
          rcases o with ⟨oev, oenv, oinp, octl⟩; simp only [] at hctl hev; subst hctl
          exact ⟨_, oev, by simp only [iterate, ho, bind, Except.bind]; rfl, rfl, _, by rw [hev]; rfl, .inl (.inl rfl)⟩
        | [v], hF =>
          obtain rfl : v = .int (-1) := by simpa [waitSpec, roundSpec, Follows] using hF
          obtain ⟨o, ho, hctl, hev⟩ := waitBody_blk1 L C fuel env hc
          rcases o with ⟨oev, oenv, oinp, octl⟩; simp only [] at hctl hev; subst hctl
          refine ⟨_, oev, by simp only [iterate, ho, bind, Except.bind]; rfl, rfl, ?_⟩
          rw [hev]; simp [H.lrun, H.lstep, H.lstepAt, WaitPost]
        | [v, w], hF =>
          obtain ⟨rfl, rfl⟩ : v = .int (-1) ∧ w = .int y := by simpa [waitSpec, roundSpec, Follows] using hF
          obtain ⟨o, ho, hctl, hev⟩ := waitBody_blk2 L C fuel env y hy hc
          rcases o with ⟨oev, oenv, oinp, octl⟩; simp only [] at hctl hev; subst hctl
          refine ⟨_, oev, by simp only [iterate, ho, bind, Except.bind]; rfl, rfl, ?_⟩
          rw [hev]; simp [H.lrun, H.lstep, H.lstepAt, WaitPost, show y ≠ 0 from hy]
        | v :: w :: e :: rest, hF =>
          obtain ⟨rfl, rfl, rfl, hF'⟩ : v = .int (-1) ∧ w = .int y ∧ e = .int 4 ∧
              Follows (waitSpec rounds fin ++ more) rest := by
            simpa [waitSpec, roundSpec, Follows, List.append_assoc] using hF
          obtain ⟨o, ho, hctl, hi, ⟨hc', hp'⟩, hev⟩ := waitBody_eintr L C fuel env y rest hy hc
          rcases o with ⟨oev, oenv, oinp, octl⟩; simp only [] at hctl hev hi hp' hc'; subst hctl hi
          obtain ⟨out, evs, hit, hevs, ls', hl, hpost⟩ := ih n oenv oinp (acc ++ oev) hr' hc' (hp'.trans hp) hF'
          refine ⟨out, oev ++ evs, by simp only [iterate, ho, bind, Except.bind]; exact hit, by simp [hevs], ls', ?_, hpost⟩
          simp [List.flatMap_append, H.lrun_append, hev, H.lrun, H.lstep, H.lstepAt, hl, hy]


/-! ## the tail of the main loop's body: STOP test, `rcu_thread_offline`, sleep / poll, `rcu_thread_online` -/

def seqDrop : Stmt → Nat → Stmt
  | s, 0 => s
  | .seq _ b, n+1 => seqDrop b n
  | _, _ => .skip

/-- statements of the main loop's body after the `if (splice_ret != CDS_WFCQ_RET_SRC_EMPTY) { … }` -/
def tailBody : Stmt := seqDrop mainBody 8

theorem band_nat (n m : Nat) : evalBin .band (.int n) (.int m) = .ok (.int ((n &&& m : Nat) : Int)) := by
  simp [evalBin]

/-- which way the tail goes -/
inductive TailPath
  | stop (f : Nat)                    -- `URCU_CALL_RCU_STOP` seen: `break`
  | rtPoll (f : Nat)                  -- real-time helper: `poll(10ms)`
  | busy (f : Nat) (v : Val)          -- `crdp->cbs_head.next` is not NULL: `poll(10ms)`
  | busy2 (f : Nat) (w : Val)         -- `cbs_head.next` NULL but `cbs_tail.p` is not the head: `poll(10ms)`
  | wait (f : Nat) (rounds : List WRound) (fin : WFin)   -- queue empty: `call_rcu_wait`, `poll`, re-arm the futex

def rtV (rt : Bool) : Val := .int (if rt then 1 else 0)

def TailPath.ok (C : Loc) (rt : Bool) : TailPath → Prop
  | .stop f => f &&& 4 ≠ 0
  | .rtPoll f => f &&& 4 = 0 ∧ rt = true
  | .busy f v => f &&& 4 = 0 ∧ rt = false ∧ v ≠ .int 0
  | .busy2 f w => f &&& 4 = 0 ∧ rt = false ∧ w ≠ .ptr (.field C "cbs_head")
  | .wait f rounds fin => f &&& 4 = 0 ∧ rt = false ∧ (∀ r ∈ rounds, r.ok) ∧ fin.ok

def tailSpec (C : Loc) : TailPath → List (Val → Prop)
  | .stop f => [(· = .int f)]
  | .rtPoll f => [(· = .int f), anyV, anyV, anyV]
  | .busy f v => [(· = .int f), anyV, (· = v), anyV, anyV]
  | .busy2 f w => [(· = .int f), anyV, (· = .int 0), (· = w), anyV, anyV]
  | .wait f rounds fin =>
    [(· = .int f), anyV, (· = .int 0), (· = .ptr (.field C "cbs_head"))] ++ waitSpec rounds fin ++ [anyV, anyV, anyV]

def TailPath.isStop : TailPath → Bool
  | .stop _ => true
  | _ => false

/-- how the tail ends: a prefix, or – `stop`: the path on which `URCU_CALL_RCU_STOP` is seen – by `break` with the helper
at `exitSt` / `exitOr`, otherwise normally with the helper back at `top` -/
def TailPost (env : Env) (b : List Nat) (c : Nat) (rt : Bool) (more : List (Val → Prop)) (stop : Bool) (out : Out)
    (ls' : H.LState) : Prop :=
  (out.ctl = .blocked ∨ out.ctl = .fuel) ∨
  (out.ctl = (if stop then .brk else .normal) ∧
    ls' = ⟨if stop then (if rt then .exitOr else .exitSt) else .top, 0, b, c, rt⟩ ∧
    out.env.vars "crdp" = env.vars "crdp" ∧
    out.env.vars "rt" = env.vars "rt" ∧ out.env.priv = env.priv ∧ Follows more out.inp)

open Lean.Parser.Tactic in
set_option hygiene false in
macro "tail_leaves" : tactic => `(tactic| (
  (rcases inp with _ | ⟨v1, _ | ⟨v2, _ | ⟨v3, _ | ⟨v4, _ | ⟨v5, _ | ⟨v6, rest⟩⟩⟩⟩⟩⟩) <;>
  simp only [tailSpec, Follows, List.cons_append, List.nil_append, anyV] at hF <;>
  (rw [show tailBody = .seq _ (.seq _ (.seq _ (.seq _ _))) from rfl]) <;>
  sexec [«_cds_wfcq_empty», band_nat, rtV] <;>
  simp [absH, H.lrun, H.lstep, H.lstepAt, TailPost, privLoc, silentExt, List.flatMap_cons, H.bit, H.F_STOP, anyV, *]))

theorem tail_stop (L : Layout) (C : Loc) (b : List Nat) (c : Nat) (rt : Bool) (more : List (Val → Prop))
    (fuel : Nat) (env : Env) (inp : List Val) (f : Nat) (hok : f &&& 4 ≠ 0)
    (hc : env.vars "crdp" = some (.ptr C)) (hr : env.vars "rt" = some (rtV rt))
    (hF : Follows (tailSpec C (.stop f) ++ more) inp) :
    ∃ out, exec fuel tailBody env inp = .ok out ∧
      ∃ ls', H.lrun ⟨.stopchk, 0, b, c, rt⟩ (out.events.flatMap (absH L C)) = some ls' ∧
        TailPost env b c rt more true out ls' := by
  tail_leaves
theorem tail_rtPoll (L : Layout) (C : Loc) (b : List Nat) (c : Nat) (more : List (Val → Prop))
    (fuel : Nat) (env : Env) (inp : List Val) (f : Nat) (hok : f &&& 4 = 0)
    (hc : env.vars "crdp" = some (.ptr C)) (hr : env.vars "rt" = some (rtV true))
    (hF : Follows (tailSpec C (.rtPoll f) ++ more) inp) :
    ∃ out, exec fuel tailBody env inp = .ok out ∧
      ∃ ls', H.lrun ⟨.stopchk, 0, b, c, true⟩ (out.events.flatMap (absH L C)) = some ls' ∧
        TailPost env b c true more false out ls' := by
  tail_leaves

theorem tail_busy (L : Layout) (C : Loc) (b : List Nat) (c : Nat) (more : List (Val → Prop))
    (fuel : Nat) (env : Env) (inp : List Val) (f : Nat) (v : Val) (hok : f &&& 4 = 0) (hv : v ≠ .int 0)
    (hc : env.vars "crdp" = some (.ptr C)) (hr : env.vars "rt" = some (rtV false))
    (hF : Follows (tailSpec C (.busy f v) ++ more) inp) :
    ∃ out, exec fuel tailBody env inp = .ok out ∧
      ∃ ls', H.lrun ⟨.stopchk, 0, b, c, false⟩ (out.events.flatMap (absH L C)) = some ls' ∧
        TailPost env b c false more false out ls' := by
  tail_leaves

theorem tail_busy2 (L : Layout) (C : Loc) (b : List Nat) (c : Nat) (more : List (Val → Prop))
    (fuel : Nat) (env : Env) (inp : List Val) (f : Nat) (w : Val) (hok : f &&& 4 = 0)
    (hv : w ≠ .ptr (.field C "cbs_head"))
    (hc : env.vars "crdp" = some (.ptr C)) (hr : env.vars "rt" = some (rtV false))
    (hF : Follows (tailSpec C (.busy2 f w) ++ more) inp) :
    ∃ out, exec fuel tailBody env inp = .ok out ∧
      ∃ ls', H.lrun ⟨.stopchk, 0, b, c, false⟩ (out.events.flatMap (absH L C)) = some ls' ∧
        TailPost env b c false more false out ls' := by
  tail_leaves

/-- `call_rcu_wait(crdp)` along the path `rounds`, `fin` -/
theorem call_rcu_wait_run (L : Layout) (C : Loc) (b : List Nat) (c : Nat) (rt : Bool) (rounds : List WRound) (fin : WFin)
    (more : List (Val → Prop)) {fuel : Nat} {env : Env} {inp : List Val} {r : Except String Out}
    (hE : exec fuel «call_rcu_wait» env inp = r) (hr : ∀ x ∈ rounds, x.ok) (hfin : fin.ok)
    (hc : env.vars "crdp" = some (.ptr C)) (hF : Follows (waitSpec rounds fin ++ more) inp) :
    ∃ out, r = .ok out ∧
      ∃ ls', H.lrun ⟨.waitLd, 0, b, c, rt⟩ (out.events.flatMap (absH L C)) = some ls' ∧
        WaitPost env b c rt more out ls' := by
  subst hE
  rw [show «call_rcu_wait» = .seq _ (.loop waitBody) from rfl]
  obtain ⟨out, evs, hit, hev, ls', hl, hp⟩ := wait_loop L C fuel b c rt fin hfin more env rounds fuel env inp [] hr hc rfl hF
  sexec [hit]
  rcases out with ⟨oev, oenv, oinp, octl⟩
  simp only [List.nil_append] at hev; subst hev
  refine ⟨ls', by simpa [absH] using hl, ?_⟩
  simpa [WaitPost] using hp

theorem tail_wait (L : Layout) (C : Loc) (b : List Nat) (c : Nat) (more : List (Val → Prop))
    (fuel : Nat) (env : Env) (inp : List Val) (f : Nat) (rounds : List WRound) (fin : WFin) (hok : f &&& 4 = 0)
    (hrs : ∀ x ∈ rounds, x.ok) (hfin : fin.ok)
    (hc : env.vars "crdp" = some (.ptr C)) (hr : env.vars "rt" = some (rtV false))
    (hF : Follows (tailSpec C (.wait f rounds fin) ++ more) inp) :
    ∃ out, exec fuel tailBody env inp = .ok out ∧
      ∃ ls', H.lrun ⟨.stopchk, 0, b, c, false⟩ (out.events.flatMap (absH L C)) = some ls' ∧
        TailPost env b c false more false out ls' := by
  rcases inp with _ | ⟨v1, _ | ⟨v2, _ | ⟨v3, _ | ⟨v4, rest⟩⟩⟩⟩
  case cons.cons.cons.cons =>
    obtain ⟨rfl, -, rfl, rfl, hF'⟩ : v1 = .int f ∧ True ∧ v3 = .int 0 ∧ v4 = .ptr (.field C "cbs_head") ∧
        Follows (waitSpec rounds fin ++ ([anyV, anyV, anyV] ++ more)) rest := by
      simpa [tailSpec, Follows, anyV, List.append_assoc] using hF
    rw [show tailBody = .seq _ (.seq _ (.seq _ (.seq _ _))) from rfl]
    sexec [«_cds_wfcq_empty», band_nat, rtV]
    generalize hE : exec fuel «call_rcu_wait» _ _ = r
    obtain ⟨out, rfl, ls', hl, hp⟩ := call_rcu_wait_run L C b c false rounds fin ([anyV, anyV, anyV] ++ more) hE hrs hfin
      (by simp) hF'
    clear hE
    rcases out with ⟨oev, oenv, oinp, octl⟩
    simp only [] at hl
    rcases hp with (hctl | hctl) | ⟨hctl, rfl, hpriv, hFm⟩
    · simp only [] at hctl; subst hctl
      simp [TailPost, List.flatMap_append, H.lrun_append, absH, H.lrun, H.lstep, H.lstepAt, silentExt, H.bit, H.F_STOP,
        hok, hl]
    · simp only [] at hctl; subst hctl
      simp [TailPost, List.flatMap_append, H.lrun_append, absH, H.lrun, H.lstep, H.lstepAt, silentExt, H.bit, H.F_STOP,
        hok, hl]
    · simp only [] at hctl hpriv hFm
      rcases hctl with rfl | rfl <;>
      (rcases oinp with _ | ⟨x1, _ | ⟨x2, _ | ⟨x3, rest'⟩⟩⟩) <;>
      simp only [Follows, List.cons_append, List.nil_append, anyV] at hFm <;>
      simp [TailPost, List.flatMap_append, H.lrun_append, absH, H.lrun, H.lstep, H.lstepAt, silentExt, H.bit, H.F_STOP,
        hok, hl, hpriv, hFm, hc, hr]
  all_goals (
    simp only [tailSpec, Follows, List.cons_append, List.nil_append, anyV] at hF
    rw [show tailBody = .seq _ (.seq _ (.seq _ (.seq _ _))) from rfl]
    sexec [«_cds_wfcq_empty», band_nat, rtV]
    simp [absH, H.lrun, H.lstep, H.lstepAt, TailPost, privLoc, silentExt, List.flatMap_cons, H.bit, H.F_STOP, anyV, *])


/-- the tail of the body along any path -/
theorem tail_refines (L : Layout) (C : Loc) (b : List Nat) (c : Nat) (rt : Bool) (more : List (Val → Prop))
    {fuel : Nat} {env : Env} {inp : List Val} {r : Except String Out} (hE : exec fuel tailBody env inp = r)
    (p : TailPath) (hok : p.ok C rt)
    (hc : env.vars "crdp" = some (.ptr C)) (hr : env.vars "rt" = some (rtV rt))
    (hF : Follows (tailSpec C p ++ more) inp) :
    ∃ out, r = .ok out ∧
      ∃ ls', H.lrun ⟨.stopchk, 0, b, c, rt⟩ (out.events.flatMap (absH L C)) = some ls' ∧
        TailPost env b c rt more p.isStop out ls' := by
  subst hE
  cases p with
  | stop f => exact tail_stop L C b c rt more fuel env inp f hok hc hr hF
  | rtPoll f => obtain ⟨h1, rfl⟩ := hok; exact tail_rtPoll L C b c more fuel env inp f h1 hc hr hF
  | busy f v => obtain ⟨h1, rfl, h2⟩ := hok; exact tail_busy L C b c more fuel env inp f v h1 h2 hc hr hF
  | busy2 f w => obtain ⟨h1, rfl, h2⟩ := hok; exact tail_busy2 L C b c more fuel env inp f w h1 h2 hc hr hF
  | wait f rounds fin =>
    obtain ⟨h1, rfl, h2, h3⟩ := hok; exact tail_wait L C b c more fuel env inp f rounds fin h1 h2 h3 hc hr hF

/-! ## one iteration of the main loop -/

theorem gpBlock_run (L : Layout) (C : Loc) (rt : Bool) (more : List (Val → Prop))
    {fuel : Nat} {env : Env} {inp : List Val} {r : Except String Out} (hE : exec fuel gpBlock env inp = r)
    (H1 : Loc) (t : List Loc)
    (hc : env.vars "crdp" = some (.ptr C)) (hH : HeadsOk L env.priv (H1 :: t))
    (hF : Follows (gpSpec (H1 :: t) ++ more) inp) :
    ∃ out, r = .ok out ∧
      ∃ ls', H.lrun ⟨.gp, 0, idsOf L (H1 :: t), 0, rt⟩ (out.events.flatMap (absH L C)) = some ls' ∧
        GpPost env rt more (t.length + 1) out ls' := by
  subst hE; exact gpBlock_refines L C rt more fuel env inp H1 t hc hH hF

/-- which way an iteration of the main loop goes: the public queue is empty, or the batch `H₁ :: t` is taken
(`sawNull`: which of the two ways `_cds_wfcq_empty` found it non-empty); `f` = the flags word read at the top -/
inductive BodyPath
  | empty (f : Nat) (tp : TailPath)
  | batch (f : Nat) (sawNull : Bool) (H1 : Loc) (t : List Loc) (tp : TailPath)

def bodySpec (C : Loc) : BodyPath → List (Val → Prop)
  | .empty f tp => [(· = .int f), anyV, (· = .int 0), (· = .ptr (.field C "cbs_head"))] ++ tailSpec C tp
  | .batch f sn H1 t tp =>
    [(· = .int f), anyV] ++ spliceSpec C H1 (t.getLastD H1) sn ++ gpSpec (H1 :: t) ++ tailSpec C tp

def BodyPath.ok (L : Layout) (C : Loc) (rt : Bool) : BodyPath → Prop
  | .empty f tp => f &&& 16 = 0 ∧ tp.ok C rt
  | .batch f _ H1 t tp => f &&& 16 = 0 ∧ tp.ok C rt ∧ L.batch (t.getLastD H1) = idsOf L (H1 :: t) ∧
      ∀ Hd ∈ H1 :: t, ∃ id, L.cb Hd = some id

/-- what the helper's environment provides at the top of the loop: `crdp`, the local `rt`, no CPU affinity requested
(`cpu_affinity < 0`: `set_thread_cpu_affinity` returns at once), the barrier configuration, and the `func` member of
every `rcu_head` of the layout in the private view (the plain load `rhp->func`) -/
def HelperEnv (L : Layout) (C : Loc) (rt : Bool) (env : Env) : Prop :=
  env.vars "crdp" = some (.ptr C) ∧ env.vars "rt" = some (rtV rt) ∧
  (∃ a : Int, a < 0 ∧ env.priv (.field C "cpu_affinity") = some (.int a)) ∧
  (∃ mbv : Int, env.priv (.glob "CONFIG_RCU_EMIT_LEGACY_MB") = some (.int mbv)) ∧
  (∀ Hd id, L.cb Hd = some id → ∃ fv, env.priv (.field Hd "func") = some fv)

def BodyPath.isStop : BodyPath → Bool
  | .empty _ tp => tp.isStop
  | .batch _ _ _ _ tp => tp.isStop

def BodyPost (L : Layout) (C : Loc) (rt : Bool) (more : List (Val → Prop)) (stop : Bool) (out : Out)
    (ls' : H.LState) : Prop :=
  (out.ctl = .blocked ∨ out.ctl = .fuel) ∨
  (out.ctl = (if stop then .brk else .normal) ∧
    ls'.pc = (if stop then (if rt then .exitOr else .exitSt) else .top) ∧
    ls'.sub = 0 ∧ ls'.rt = rt ∧ HelperEnv L C rt out.env ∧ Follows more out.inp)

theorem body_empty (L : Layout) (C : Loc) (b0 : List Nat) (c0 : Nat) (rt : Bool) (more : List (Val → Prop))
    (fuel : Nat) (env : Env) (inp : List Val) (f : Nat) (tp : TailPath) (hf : f &&& 16 = 0) (htp : tp.ok C rt)
    (hE : HelperEnv L C rt env) (hF : Follows (bodySpec C (.empty f tp) ++ more) inp) :
    ∃ out, exec (fuel + 1) mainBody env inp = .ok out ∧
      ∃ ls', H.lrun ⟨.top, 0, b0, c0, rt⟩ (out.events.flatMap (absH L C)) = some ls' ∧
        BodyPost L C rt more tp.isStop out ls' := by
  obtain ⟨hc, hr, ⟨a, ha, hca⟩, ⟨mbv, hcfg⟩, hfn⟩ := hE
  rw [show mainBody = .seq _ (.seq _ (.seq _ (.seq _ (.seq _ (.seq _ (.seq _ (.seq (.ifte _ gpBlock _) tailBody)))))))
    from rfl]
  match inp, hF with
  | [], _ =>
    sexec [«set_thread_cpu_affinity», ha]
    simp [H.lrun, BodyPost]
  | [v1], hF =>
    obtain rfl : v1 = .int f := by simpa [bodySpec, Follows] using hF
    sexec [«set_thread_cpu_affinity», ha, «_cds_wfcq_init», «_cds_wfcq_node_init», band_nat, hf]
    simp [H.lrun, H.lstep, H.lstepAt, absH, BodyPost, H.bit, H.F_PAUSE, hf]
  | v1 :: v2 :: rest, hF =>
    obtain ⟨rfl, hF'⟩ : v1 = .int f ∧ Follows ([(· = .int 0), (· = .ptr (.field C "cbs_head"))] ++ (tailSpec C tp ++ more)) rest := by
      simpa [bodySpec, Follows, anyV, List.append_assoc] using hF
    sexec [«set_thread_cpu_affinity», ha, «_cds_wfcq_init», «_cds_wfcq_node_init», band_nat, hf]
    generalize hS : exec (fuel + 1) «___cds_wfcq_splice_blocking» _ _ = rS
    obtain ⟨oS, rfl, ls1, hl1, hp1⟩ := splice_empty L C b0 c0 rt (tailSpec C tp ++ more) hS (by simp) (by simp) (by simp)
      (by simp) hF'
    clear hS
    rcases oS with ⟨ev1, env1, inp1, ctl1⟩
    simp only [] at hl1 hp1
    rcases hp1 with ⟨rfl, -, -⟩ | ⟨rfl, rfl, hpriv1, hF1⟩
    · simp [H.lrun, H.lstep, H.lstepAt, absH, BodyPost, H.bit, H.F_PAUSE, hf, silentExt, H.lrun_append, hl1]
    · sexec
      generalize hT : exec (fuel + 1) tailBody _ _ = rT
      obtain ⟨oT, rfl, ls2, hl2, hp2⟩ := tail_refines L C b0 c0 rt more hT tp htp (by simp [hc]) (by simp [hr]) hF1
      clear hT
      rcases oT with ⟨ev2, env2, inp2, ctl2⟩
      simp only [] at hl2 hp2
      have hpre : H.lrun ⟨.top, 0, b0, c0, rt⟩ ((Event.ld (C.field "flags") (Val.int ↑f) 0 ::
          Event.ext "pthread_mutex_init" [Val.ptr ((Loc.glob "&cbs_tmp_head").field "lock"), Val.int 0] v2 ::
          (ev1 ++ ev2)).flatMap (absH L C)) = some ls2 := by
        simp [H.lrun, H.lstep, H.lstepAt, absH, H.bit, H.F_PAUSE, hf, silentExt, H.lrun_append, hl1, hl2,
          List.flatMap_append]
      refine ⟨_, rfl, ls2, hpre, ?_⟩
      have henv : ∀ e : Env, e.vars "crdp" = some (.ptr C) → e.vars "rt" = some (rtV rt) → e.priv = env1.priv →
          HelperEnv L C rt e := by
        intro e h1 h2 h3
        refine ⟨h1, h2, ⟨a, ha, ?_⟩, ⟨mbv, ?_⟩, ?_⟩
        · rw [h3, hpriv1 _ (by simp)]; simpa using hca
        · rw [h3, hpriv1 _ (by simp)]; simpa using hcfg
        · intro Hd id hid
          obtain ⟨fv, hfv⟩ := hfn Hd id hid
          exact ⟨fv, by rw [h3, hpriv1 _ (by simp)]; simpa using hfv⟩
      rcases hp2 with hb | ⟨h0, rfl, h1, h2, h3, hFm⟩
      · exact .inl hb
      · exact .inr ⟨h0, rfl, rfl, rfl, henv _ (by simpa [hc] using h1) (by simpa [hr] using h2) h3, hFm⟩
theorem body_batch (L : Layout) (C : Loc) (b0 : List Nat) (c0 : Nat) (rt : Bool) (more : List (Val → Prop))
    (fuel : Nat) (env : Env) (inp : List Val) (f : Nat) (sn : Bool) (H1 : Loc) (t : List Loc) (tp : TailPath)
    (hf : f &&& 16 = 0) (htp : tp.ok C rt) (hB : L.batch (t.getLastD H1) = idsOf L (H1 :: t))
    (hcbs : ∀ Hd ∈ H1 :: t, ∃ id, L.cb Hd = some id)
    (hE : HelperEnv L C rt env) (hF : Follows (bodySpec C (.batch f sn H1 t tp) ++ more) inp) :
    ∃ out, exec (fuel + 1) mainBody env inp = .ok out ∧
      ∃ ls', H.lrun ⟨.top, 0, b0, c0, rt⟩ (out.events.flatMap (absH L C)) = some ls' ∧
        BodyPost L C rt more tp.isStop out ls' := by
  obtain ⟨hc, hr, ⟨a, ha, hca⟩, ⟨mbv, hcfg⟩, hfn⟩ := hE
  obtain ⟨id1, hid1⟩ := hcbs H1 (by simp)
  obtain ⟨idl, hidl⟩ := hcbs (t.getLastD H1) (by
    cases t with
    | nil => simp
    | cons x t => simp [List.getLastD_cons, List.getLast?_eq_some_getLast])
  have hbne : idsOf L (H1 :: t) ≠ [] := by simp [idsOf, List.filterMap_cons, hid1]
  rw [show mainBody = .seq _ (.seq _ (.seq _ (.seq _ (.seq _ (.seq _ (.seq _ (.seq (.ifte _ gpBlock _) tailBody)))))))
    from rfl]
  match inp, hF with
  | [], _ =>
    sexec [«set_thread_cpu_affinity», ha]
    simp [H.lrun, BodyPost]
  | [v1], hF =>
    obtain rfl : v1 = .int f := by simpa [bodySpec, Follows] using hF
    sexec [«set_thread_cpu_affinity», ha, «_cds_wfcq_init», «_cds_wfcq_node_init», band_nat, hf]
    simp [H.lrun, H.lstep, H.lstepAt, absH, BodyPost, H.bit, H.F_PAUSE, hf]
  | v1 :: v2 :: rest, hF =>
    obtain ⟨rfl, hF'⟩ : v1 = .int f ∧ Follows (spliceSpec C H1 (t.getLastD H1) sn ++
        (gpSpec (H1 :: t) ++ (tailSpec C tp ++ more))) rest := by
      simpa [bodySpec, Follows, anyV, List.append_assoc] using hF
    sexec [«set_thread_cpu_affinity», ha, «_cds_wfcq_init», «_cds_wfcq_node_init», band_nat, hf]
    generalize hS : exec (fuel + 1) «___cds_wfcq_splice_blocking» _ _ = rS
    obtain ⟨oS, rfl, ls1, hl1, hp1⟩ := splice_nonempty L C (idsOf L (H1 :: t)) b0 c0 rt
      (gpSpec (H1 :: t) ++ (tailSpec C tp ++ more)) hS H1 (t.getLastD H1) sn id1 idl mbv
      (by simp) (by simp) (by simp) (by simp) (by simpa using hcfg) hid1 hidl hB hbne hF'
    clear hS
    rcases oS with ⟨ev1, env1, inp1, ctl1⟩
    simp only [] at hl1 hp1
    rcases hp1 with ⟨hctl, -, -⟩ | ⟨rfl, rfl, hpriv1, hF1⟩
    · rcases hctl with rfl | rfl <;>
        simp [H.lrun, H.lstep, H.lstepAt, absH, BodyPost, H.bit, H.F_PAUSE, hf, silentExt, H.lrun_append, hl1]
    · sexec
      generalize hG : exec (fuel + 1) gpBlock _ _ = rG
      have hprivF : ∀ Hd : Loc, env1.priv (.field Hd "func") = env.priv (.field Hd "func") := by
        intro Hd; rw [hpriv1 _ (by simp) (by simp)]; simp
      obtain ⟨oG, rfl, ls2, hl2, hp2⟩ := gpBlock_run L C rt (tailSpec C tp ++ more) hG H1 t (by simp [hc])
        (by
          intro Hd hHd
          obtain ⟨id, hid⟩ := hcbs Hd hHd
          obtain ⟨fv, hfv⟩ := hfn Hd id hid
          exact ⟨⟨id, hid⟩, fv, by simpa [hprivF] using hfv⟩) hF1
      clear hG
      rcases oG with ⟨ev2, env2, inp2, ctl2⟩
      simp only [] at hl2 hp2
      rcases hp2 with ⟨hctl, -, -⟩ | ⟨rfl, rfl, hc2, hr2, hpriv2, hF2⟩
      · rcases hctl with rfl | rfl <;>
          simp [H.lrun, H.lstep, H.lstepAt, absH, BodyPost, H.bit, H.F_PAUSE, hf, silentExt, H.lrun_append, hl1, hl2,
            List.flatMap_append]
      · simp only [] at hpriv1 hF1 hc2 hr2 hpriv2 hF2
        simp only [hc, hr, if_neg, String.reduceEq] at hc2 hr2
        sexec
        generalize hT : exec (fuel + 1) tailBody _ _ = rT
        obtain ⟨oT, rfl, ls3, hl3, hp3⟩ := tail_refines L C [] (t.length + 1) rt more hT tp htp hc2 hr2 hF2
        clear hT
        rcases oT with ⟨ev3, env3, inp3, ctl3⟩
        simp only [] at hl3 hp3
        have hpre : H.lrun ⟨.top, 0, b0, c0, rt⟩ ((Event.ld (C.field "flags") (Val.int ↑f) 0 ::
            Event.ext "pthread_mutex_init" [Val.ptr ((Loc.glob "&cbs_tmp_head").field "lock"), Val.int 0] v2 ::
            (ev1 ++ (ev2 ++ ev3))).flatMap (absH L C)) = some ls3 := by
          simp [H.lrun, H.lstep, H.lstepAt, absH, H.bit, H.F_PAUSE, hf, silentExt, H.lrun_append, hl1, hl2, hl3,
            List.flatMap_append]
        refine ⟨_, rfl, ls3, hpre, ?_⟩
        have hp12 : ∀ m : Loc, m ≠ .glob "&attempt" → m ≠ .field tmpH "next" → m ≠ .field tmpT "p" →
            env2.priv m = env.priv m := by
          intro m h1 h2 h3
          rw [hpriv2 m h1, hpriv1 m h1 h2]; simp [h2, h3]
        have henv : ∀ e : Env, e.vars "crdp" = some (.ptr C) → e.vars "rt" = some (rtV rt) → e.priv = env2.priv →
            HelperEnv L C rt e := by
          intro e h1 h2 h3
          refine ⟨h1, h2, ⟨a, ha, ?_⟩, ⟨mbv, ?_⟩, ?_⟩
          · rw [h3, hp12 _ (by simp) (by simp) (by simp)]; exact hca
          · rw [h3, hp12 _ (by simp) (by simp) (by simp)]; exact hcfg
          · intro Hd id hid
            obtain ⟨fv, hfv⟩ := hfn Hd id hid
            exact ⟨fv, by rw [h3, hp12 _ (by simp) (by simp) (by simp)]; exact hfv⟩
        rcases hp3 with hb | ⟨h0, rfl, h1, h2, h3, hFm⟩
        · exact .inl hb
        · exact .inr ⟨h0, rfl, rfl, rfl, henv _ (h1.trans hc2) (h2.trans hr2) h3, hFm⟩

/-- **one iteration of the helper's main loop** (`mainBody`, extracted from the generated `call_rcu_thread`) along any
path without the PAUSE handshake: from L2's `top` back to `top`, or – STOP seen – `break` at `exitSt` / `exitOr` -/
theorem body_refines (L : Layout) (C : Loc) (b0 : List Nat) (c0 : Nat) (rt : Bool) (more : List (Val → Prop))
    (fuel : Nat) (env : Env) (inp : List Val) (p : BodyPath) (hok : p.ok L C rt)
    (hE : HelperEnv L C rt env) (hF : Follows (bodySpec C p ++ more) inp) :
    ∃ out, exec (fuel + 1) mainBody env inp = .ok out ∧
      ∃ ls', H.lrun ⟨.top, 0, b0, c0, rt⟩ (out.events.flatMap (absH L C)) = some ls' ∧
        BodyPost L C rt more p.isStop out ls' := by
  cases p with
  | empty f tp => exact body_empty L C b0 c0 rt more fuel env inp f tp hok.1 hok.2 hE hF
  | batch f sn H1 t tp =>
    exact body_batch L C b0 c0 rt more fuel env inp f sn H1 t tp hok.1 hok.2.1 hok.2.2.1 hok.2.2.2 hE hF


/-! ## the main loop and the whole function -/

/-- with an exhausted oracle the body blocks at its first access (the load of the flags) -/
theorem body_nil (L : Layout) (C : Loc) (rt : Bool) (fuel : Nat) (env : Env) (hE : HelperEnv L C rt env) :
    ∃ out, exec (fuel + 1) mainBody env [] = .ok out ∧ out.events = [] ∧ out.ctl = .blocked := by
  obtain ⟨hc, hr, ⟨a, ha, hca⟩, ⟨mbv, hcfg⟩, hfn⟩ := hE
  rw [show mainBody = .seq _ (.seq _ (.seq _ (.seq _ (.seq _ (.seq _ (.seq _ (.seq (.ifte _ gpBlock _) tailBody)))))))
    from rfl]
  sexec [«set_thread_cpu_affinity», ha]

/-- oracle of the main loop: the iterations `paths` (none sees STOP), then either the iteration `last` that sees STOP
followed by `more`, or nothing (the oracle ends: the run is a prefix) -/
def loopSpec (C : Loc) (paths : List BodyPath) (last : Option BodyPath) (more : List (Val → Prop)) : List (Val → Prop) :=
  paths.flatMap (bodySpec C) ++ (match last with | some p => bodySpec C p ++ more | none => [fun _ => False])

def LoopPost (L : Layout) (C : Loc) (rt : Bool) (more : List (Val → Prop)) (last : Option BodyPath) (out : Out)
    (ls' : H.LState) : Prop :=
  (out.ctl = .blocked ∨ out.ctl = .fuel) ∨
  (out.ctl = .normal ∧ last ≠ none ∧ ls'.pc = (if rt then .exitOr else .exitSt) ∧ ls'.sub = 0 ∧ ls'.rt = rt ∧
    HelperEnv L C rt out.env ∧ Follows more out.inp)

theorem main_loop (L : Layout) (C : Loc) (rt : Bool) (fuel : Nat) (more : List (Val → Prop)) (last : Option BodyPath)
    (hlast : ∀ p, last = some p → p.ok L C rt ∧ p.isStop = true) :
    ∀ (paths : List BodyPath) (n : Nat) (env : Env) (inp : List Val) (acc : List Event) (b0 : List Nat) (c0 : Nat),
      (∀ p ∈ paths, p.ok L C rt ∧ p.isStop = false) → HelperEnv L C rt env →
      Follows (loopSpec C paths last more) inp →
      ∃ out evs, iterate (exec (fuel + 1) mainBody) n env inp acc = .ok out ∧ out.events = acc ++ evs ∧
        ∃ ls', H.lrun ⟨.top, 0, b0, c0, rt⟩ (evs.flatMap (absH L C)) = some ls' ∧ LoopPost L C rt more last out ls' := by
  intro paths
  induction paths with
  | nil =>
    intro n env inp acc b0 c0 _ hE hF
    cases n with
    | zero => exact ⟨_, [], rfl, by simp, _, rfl, .inl (.inr rfl)⟩
    | succ n =>
      cases last with
      | none =>
        obtain rfl : inp = [] := by
          cases inp with
          | nil => rfl
          | cons v rest => simp [loopSpec, Follows] at hF
        obtain ⟨o, ho, hev, hctl⟩ := body_nil L C rt fuel env hE
        rcases o with ⟨oev, oenv, oinp, octl⟩; simp only [] at hev hctl; subst hev hctl
        exact ⟨_, [], by simp only [iterate, ho, bind, Except.bind]; rfl, rfl, _, rfl, .inl (.inl rfl)⟩
      | some p =>
        obtain ⟨hok, hst⟩ := hlast p rfl
        obtain ⟨o, ho, ls', hl, hp⟩ := body_refines L C b0 c0 rt more fuel env inp p hok hE
          (by simpa [loopSpec] using hF)
        rcases o with ⟨oev, oenv, oinp, octl⟩
        rw [hst] at hp
        simp only [BodyPost, if_true] at hp
        rcases hp with (hctl | hctl) | ⟨hctl, h1, h2, h3, h4, h5⟩ <;> subst hctl
        · exact ⟨_, oev, by simp only [iterate, ho, bind, Except.bind]; rfl, rfl, ls', hl, .inl (.inl rfl)⟩
        · exact ⟨_, oev, by simp only [iterate, ho, bind, Except.bind]; rfl, rfl, ls', hl, .inl (.inr rfl)⟩
        · exact ⟨_, oev, by simp only [iterate, ho, bind, Except.bind]; rfl, rfl, ls', hl,
            .inr ⟨rfl, by simp, h1, h2, h3, h4, h5⟩⟩
  | cons p paths ih =>
    intro n env inp acc b0 c0 hps hE hF
    cases n with
    | zero => exact ⟨_, [], rfl, by simp, _, rfl, .inl (.inr rfl)⟩
    | succ n =>
      obtain ⟨hok, hst⟩ := hps p (by simp)
      obtain ⟨o, ho, ls', hl, hp⟩ := body_refines L C b0 c0 rt (loopSpec C paths last more) fuel env inp p hok hE
        (by simpa [loopSpec, List.append_assoc] using hF)
      rcases o with ⟨oev, oenv, oinp, octl⟩
      rw [hst] at hp
      simp only [BodyPost, if_false, Bool.false_eq_true] at hp
      rcases hp with (hctl | hctl) | ⟨hctl, h1, h2, h3, h4, h5⟩ <;> subst hctl
      · exact ⟨_, oev, by simp only [iterate, ho, bind, Except.bind]; rfl, rfl, ls', hl, .inl (.inl rfl)⟩
      · exact ⟨_, oev, by simp only [iterate, ho, bind, Except.bind]; rfl, rfl, ls', hl, .inl (.inr rfl)⟩
      · rcases ls' with ⟨pc', sub', b', c', rt'⟩
        simp only [] at h1 h2 h3; subst h1 h2 h3
        obtain ⟨out, evs, hit, hev, ls2, hl2, hp2⟩ := ih n oenv oinp (acc ++ oev) b' c'
          (fun q hq => hps q (by simp [hq])) h4 h5
        refine ⟨out, oev ++ evs, by simp only [iterate, ho, bind, Except.bind]; exact hit, by simp [hev], ls2, ?_, hp2⟩
        simp [List.flatMap_append, H.lrun_append, hl, hl2]
/-- `main_loop` in the form used after `generalize hit : iterate … = r` -/
theorem main_loop' (L : Layout) (C : Loc) (rt : Bool) (more : List (Val → Prop)) (last : Option BodyPath)
    (paths : List BodyPath) (b0 : List Nat) (c0 : Nat)
    {fuel n : Nat} {env : Env} {inp : List Val} {acc : List Event} {r : Except String Out}
    (hit : iterate (exec (fuel + 1) mainBody) n env inp acc = r)
    (hlast : ∀ p, last = some p → p.ok L C rt ∧ p.isStop = true)
    (hps : ∀ p ∈ paths, p.ok L C rt ∧ p.isStop = false) (hE : HelperEnv L C rt env)
    (hF : Follows (loopSpec C paths last more) inp) :
    ∃ out evs, r = .ok out ∧ out.events = acc ++ evs ∧
      ∃ ls', H.lrun ⟨.top, 0, b0, c0, rt⟩ (evs.flatMap (absH L C)) = some ls' ∧ LoopPost L C rt more last out ls' := by
  subst hit
  exact main_loop L C rt fuel more last hlast paths n env inp acc b0 c0 hps hE hF

/-- oracle of `call_rcu_thread`: the flags word `f0` read at the start, `rcu_register_thread()`, the initial
`uatomic_dec(&crdp->futex)` of a futex-woken helper, the main loop, `uatomic_or(&flags, STOPPED)`,
`rcu_unregister_thread()` -/
def threadSpec (C : Loc) (f0 : Nat) (paths : List BodyPath) (last : Option BodyPath) (more : List (Val → Prop)) :
    List (Val → Prop) :=
  [(· = .int f0), anyV] ++ (if f0 % 2 = 0 then [anyV] else []) ++ loopSpec C paths last ([anyV, anyV] ++ more)

/-- how `call_rcu_thread` ends: a prefix, or it returned NULL with the helper `dead` (L2: after `hExitOr`) -/
def ThreadPost (last : Option BodyPath) (out : Out) (ls' : H.LState) : Prop :=
  (out.ctl = .blocked ∨ out.ctl = .fuel) ∨ (out.ctl = .ret (some (.int 0)) ∧ last ≠ none ∧ ls'.pc = .dead)

theorem thread_refines (L : Layout) (C : Loc) (fuel : Nat) (env : Env) (inp : List Val) (f0 : Nat)
    (paths : List BodyPath) (last : Option BodyPath) (more : List (Val → Prop))
    (harg : env.vars "arg" = some (.ptr C))
    (haff : ∃ a : Int, a < 0 ∧ env.priv (.field C "cpu_affinity") = some (.int a))
    (hcfg : ∃ mbv : Int, env.priv (.glob "CONFIG_RCU_EMIT_LEGACY_MB") = some (.int mbv))
    (hfn : ∀ Hd id, L.cb Hd = some id → ∃ fv, env.priv (.field Hd "func") = some fv)
    (hlast : ∀ p, last = some p → p.ok L C (f0 % 2 != 0) ∧ p.isStop = true)
    (hps : ∀ p ∈ paths, p.ok L C (f0 % 2 != 0) ∧ p.isStop = false)
    (hF : Follows (threadSpec C f0 paths last more) inp) :
    ∃ out, exec (fuel + 1) «call_rcu_thread» env inp = .ok out ∧
      ∃ ls', H.lrun ⟨.start, 0, [], 0, false⟩ (out.events.flatMap (absH L C)) = some ls' ∧
        ThreadPost last out ls' := by
  obtain ⟨a, ha, hca⟩ := haff
  obtain ⟨mbv, hmbv⟩ := hcfg
  rw [show «call_rcu_thread» = .seq _ (.seq _ (.seq _ (.seq _ (.seq _ (.seq _ (.seq _ (.seq _ (.seq _
    (.seq (.loop mainBody) _))))))))) from rfl]
  by_cases hn : f0 % 2 = 0
  · have hn' : (f0 : Int) % 2 = 0 := by omega
    have hrt : (f0 % 2 != 0) = false := by simp [hn]
    rw [hrt] at hlast hps
    match inp, hF with
    | [], _ => sexec; simp [H.lrun, ThreadPost]
    | [v1], hF =>
      obtain rfl : v1 = .int f0 := by simpa [threadSpec, Follows] using hF
      sexec [«set_thread_cpu_affinity», ha, band_nat_one, hn, hn']
      simp [H.lrun, H.lstep, H.lstepAt, absH, ThreadPost, H.bit, H.F_RT, hn]
    | [v1, v2], hF =>
      obtain rfl : v1 = .int f0 := by
        simp [threadSpec, Follows, anyV] at hF; exact hF.1
      sexec [«set_thread_cpu_affinity», ha, band_nat_one, hn, hn']
      simp [H.lrun, H.lstep, H.lstepAt, absH, ThreadPost, H.bit, H.F_RT, hn, silentExt]
    | v1 :: v2 :: v3 :: rest, hF =>
      obtain ⟨rfl, hF'⟩ : v1 = .int f0 ∧ Follows (loopSpec C paths last ([anyV, anyV] ++ more)) rest := by
        simpa [threadSpec, Follows, anyV, hn] using hF
      sexec [«set_thread_cpu_affinity», ha, band_nat_one, hn, hn']
      generalize hit : iterate (exec (fuel + 1) mainBody) _ _ _ _ = r
      obtain ⟨out, evs, rfl, hev, ls', hl, hp⟩ := main_loop' L C false ([anyV, anyV] ++ more) last paths [] 0 hit hlast hps
        ⟨by simp, by simp [rtV], ⟨a, ha, by simpa using hca⟩, ⟨mbv, by simpa using hmbv⟩,
          fun Hd id hid => by obtain ⟨fv, hfv⟩ := hfn Hd id hid; exact ⟨fv, by simpa using hfv⟩⟩ hF'
      clear hit
      rcases out with ⟨oev, oenv, oinp, octl⟩
      simp only [List.nil_append] at hev; subst hev
      rcases hp with (hctl | hctl) | ⟨hctl, hl0, hpc, hsub, hrt', ⟨hc', hr', -, -, -⟩, hFm⟩
      · simp only [] at hctl; subst hctl
        simp [H.lrun, H.lstep, H.lstepAt, absH, ThreadPost, H.bit, H.F_RT, hn, silentExt, H.lrun_append, hl]
      · simp only [] at hctl; subst hctl
        simp [H.lrun, H.lstep, H.lstepAt, absH, ThreadPost, H.bit, H.F_RT, hn, silentExt, H.lrun_append, hl]
      · simp only [] at hctl hpc hsub hrt' hc' hr' hFm; subst hctl
        rcases ls' with ⟨pc', sub', b', c', rt'⟩
        simp only [Bool.false_eq_true, if_false] at hpc hsub hrt'; subst hpc hsub hrt'
        (rcases oinp with _ | ⟨x1, _ | ⟨x2, rest'⟩⟩) <;>
        simp [H.lrun, H.lstep, H.lstepAt, absH, ThreadPost, H.bit, H.F_RT, hn, silentExt, H.lrun_append, hl, hc', hl0,
          H.F_STOPPED, hr', rtV]
  · have hn' : ¬ (f0 : Int) % 2 = 0 := by omega
    have hn1 : f0 % 2 = 1 := by omega
    have hrt : (f0 % 2 != 0) = true := by simp [hn1]
    rw [hrt] at hlast hps
    match inp, hF with
    | [], _ => sexec; simp [H.lrun, ThreadPost]
    | [v1], hF =>
      obtain rfl : v1 = .int f0 := by simpa [threadSpec, Follows] using hF
      sexec [«set_thread_cpu_affinity», ha, band_nat_one, hn, hn', hn1]
      simp [H.lrun, H.lstep, H.lstepAt, absH, ThreadPost, H.bit, H.F_RT, hn, hn1]
    | v1 :: v2 :: rest, hF =>
      obtain ⟨rfl, hF'⟩ : v1 = .int f0 ∧ Follows (loopSpec C paths last ([anyV, anyV] ++ more)) rest := by
        simpa [threadSpec, Follows, anyV, hn, hn1] using hF
      sexec [«set_thread_cpu_affinity», ha, band_nat_one, hn, hn', hn1]
      generalize hit : iterate (exec (fuel + 1) mainBody) _ _ _ _ = r
      obtain ⟨out, evs, rfl, hev, ls', hl, hp⟩ := main_loop' L C true ([anyV, anyV] ++ more) last paths [] 0 hit hlast hps
        ⟨by simp, by simp [rtV], ⟨a, ha, by simpa using hca⟩, ⟨mbv, by simpa using hmbv⟩,
          fun Hd id hid => by obtain ⟨fv, hfv⟩ := hfn Hd id hid; exact ⟨fv, by simpa using hfv⟩⟩ hF'
      clear hit
      rcases out with ⟨oev, oenv, oinp, octl⟩
      simp only [List.nil_append] at hev; subst hev
      rcases hp with (hctl | hctl) | ⟨hctl, hl0, hpc, hsub, hrt', ⟨hc', hr', -, -, -⟩, hFm⟩
      · simp only [] at hctl; subst hctl
        simp [H.lrun, H.lstep, H.lstepAt, absH, ThreadPost, H.bit, H.F_RT, hn, hn1, silentExt, H.lrun_append, hl]
      · simp only [] at hctl; subst hctl
        simp [H.lrun, H.lstep, H.lstepAt, absH, ThreadPost, H.bit, H.F_RT, hn, hn1, silentExt, H.lrun_append, hl]
      · simp only [] at hctl hpc hsub hrt' hc' hr' hFm; subst hctl
        rcases ls' with ⟨pc', sub', b', c', rt'⟩
        simp only [if_true] at hpc hsub hrt'; subst hpc hsub hrt'
        (rcases oinp with _ | ⟨x1, _ | ⟨x2, rest'⟩⟩) <;>
        simp [H.lrun, H.lstep, H.lstepAt, absH, ThreadPost, H.bit, H.F_RT, hn, hn1, silentExt, H.lrun_append, hl, hc', hl0,
          H.F_STOPPED, hr', rtV]


end UrcuVerif.Src.CallRcuR
