import UrcuVerif.Src.LfhtWalk
/-!
# `cds_lfht_next_duplicate` ⊑ thread-local projection of L2 (`LfhtWalkLocal.lean`), walk kind `dup`
-/
namespace UrcuVerif.Src.LfhtWR
open UrcuVerif UrcuVerif.Src UrcuVerif.Lfht.Conc UrcuVerif.Src.LfhtW UrcuVerif.Src.LfhtR

def dupBody : Stmt := match firstLoop Gen.Src.«lfht.cds_lfht_next_duplicate» with | some b => b | none => .skip
def dupPost : Stmt := seqTail 6 Gen.Src.«lfht.cds_lfht_next_duplicate»

theorem dup_post (fuel : Nat) (rev : Nat → Nat) (priv0 : Loc → Option Val) (it : Nat)
    (env : Env) (inp : List Val) (ls : LState) (r : Except String Out)
    (hE : exec fuel dupPost env inp = r) (hR : WalkR rev priv0 it .brk env inp ls) :
    ∃ o, r = .ok o ∧ ∃ ls', lr rev ls o.events = some ls' ∧ WalkDone it o ls' := by
  subst hE
  obtain ⟨hpr, hit, hA | ⟨n, hn0, hnode, hnext, hpc, hcur, hpend, hwk, hO⟩⟩ := hR
  · obtain ⟨hnode, hnext, x0, hwk, rfl⟩ := hA
    lexec [dupPost, seqTail, Gen.Src.«lfht.cds_lfht_next_duplicate»]
    refine ⟨_, lr_nil _ _, .inr (.inr ⟨0, {}, rfl, ?_⟩)⟩
    simp [ofPair, lwalkRet_plain _ _ _ hwk, encW, flagsOf]
  · rcases ls with ⟨x, pend, out⟩
    dsimp only at hnext hpc hcur hpend hwk; subst hpend; subst hcur
    cases inp with
    | nil =>
      lexec [dupPost, seqTail, Gen.Src.«lfht.cds_lfht_next_duplicate»]
      exact ⟨_, lr_nil _ _, .inl rfl⟩
    | cons v rest =>
      obtain ⟨l, hl, -⟩ := hO (by simp [active, hpc])
      simp only [obsLabel, hpc] at hl
      cases hd : decW v with
      | none => simp [hd] at hl
      | some w =>
        have hv := encW_of_decW hd; subst hv
        simp only [decW_encW, Option.bind] at hl
        split at hl <;> cases hl
        rename_i hb
        lexec [dupPost, seqTail, Gen.Src.«lfht.cds_lfht_next_duplicate», call_is_bucket, pureCall, bind1]
        simp [lr, lrun, absEv, lstep, hpc, ofPair, lwalkRet_plain _ _ _ hwk, WalkDone]
        exact ⟨_, _, ⟨rfl, rfl⟩, rfl, rfl, (encP_pos hn0).symm, rfl⟩

theorem dup_body (fuel : Nat) (rev : Nat → Nat) (priv0 : Loc → Option Val) (it rh ky : Nat)
    (hrev : RevView rev priv0) (env : Env) (inp : List Val) (ls : LState)
    (hI : WalkI rev priv0 it .dup rh ky env inp ls) :
    ∃ o, exec fuel dupBody env inp = .ok o ∧ ∃ ls', lr rev ls o.events = some ls' ∧
      (if o.ctl.goesOn then WalkI rev priv0 it .dup rh ky o.env o.inp ls' else WalkR rev priv0 it o.ctl o.env o.inp ls') := by
  obtain ⟨hpr, hit, hrh, hky, n, x0, hnode, hwk, hxrh, hxky, rfl, hO⟩ := hI
  have hwk' : x0.wk ≠ .dupAdd := by rw [hwk]; decide
  by_cases hn : n = 0
  · subst hn
    lexec [dupBody, firstLoop, Gen.Src.«lfht.cds_lfht_next_duplicate», call_is_end, pureCall, bind1]
    refine ⟨_, lr_nil _ _, ?_⟩
    simp [Ctl.goesOn, WalkR, hit, hpr]
    exact ⟨x0, hwk', by simp [lwalkPos]⟩
  · have hrn := hrev _ hn
    by_cases hgt : rh < rev n
    · lexec [dupBody, firstLoop, Gen.Src.«lfht.cds_lfht_next_duplicate», call_is_end, pureCall, bind1, encP_pos hn]
      refine ⟨_, lr_nil _ _, ?_⟩
      simp [Ctl.goesOn, WalkR, hit, hpr]
      exact ⟨x0, hwk', by simp [lwalkPos, hwk, hxrh, hgt]⟩
    · obtain ⟨x, hx⟩ : ∃ x : Thr, x = { x0 with cur := n, pc := .wNext } := ⟨_, rfl⟩
      have hpos : lwalkPos rev x0 n = (x, .unit) := by
        rw [hx]; simp [lwalkPos, hn, hxrh, hgt]
      have hxpc : x.pc = .wNext := by rw [hx]
      have hxcur : x.cur = n := by rw [hx]
      have hxwk : x.wk = .dup := by rw [hx]; exact hwk
      have hxrh' : x.rh = rh := by rw [hx]; exact hxrh
      have hxky' : x.ky = ky := by rw [hx]; exact hxky
      rw [hpos] at hO ⊢
      clear hpos hx hwk hxrh hxky hwk' x0
      cases inp with
      | nil =>
        lexec [dupBody, firstLoop, Gen.Src.«lfht.cds_lfht_next_duplicate», call_is_end, pureCall, bind1, encP_pos hn]
        exact ⟨_, lr_nil _ _, by simp [Ctl.goesOn, WalkR]⟩
      | cons v rest =>
        obtain ⟨l, hl, hrest⟩ := hO (by simp [active, ofPair, hxpc])
        simp only [obsLabel, ofPair, hxpc] at hl
        cases hd : decW v with
        | none => simp [hd] at hl
        | some w =>
          have hv := encW_of_decW hd; subst hv
          simp only [decW_encW, Option.map, hxcur] at hl
          cases hl
          -- the word is skipped without calling `match`
          have hskip : needsMatch rev x w = false →
              ∃ o, exec fuel dupBody env (encW w :: rest) = .ok o ∧ ∃ ls', lr rev (ofPair (x, .unit)) o.events = some ls' ∧
                (if o.ctl.goesOn then WalkI rev priv0 it .dup rh ky o.env o.inp ls'
                 else WalkR rev priv0 it o.ctl o.env o.inp ls') := by
            intro hnm
            have hfn : foundNoMatch x w = false := by simp [foundNoMatch, hxwk]
            have hs1 : lstep rev (ofPair (x, .unit)) (.ldNext n w 1) =
                some (ofPair (lwalkPos rev { x with wnx := w } w.ptr)) := by
              simp [lstep, ofPair, hxpc, hxcur, hnm, hfn]
            have hO1 := hrest _ hs1
            have hfin : ∀ env' : Env, env'.priv = priv0 → env'.vars "iter" = some (.ptr (.obj it)) →
                env'.vars "reverse_hash" = some (.int rh) → env'.vars "key" = some (.int ky) →
                env'.vars "node" = some (encP w.ptr) →
                ∃ ls', lr rev (ofPair (x, .unit)) [Event.ld ((Loc.obj n).field "next") (encW w) 1] = some ls' ∧
                  WalkI rev priv0 it .dup rh ky env' rest ls' := by
              intro env' h1 h2 h3 h4 h5
              refine ⟨_, by simp [lr, lrun, absEv, hs1], h1, h2, h3, h4, w.ptr, { x with wnx := w }, h5, hxwk, hxrh', hxky', rfl, hO1⟩
            simp only [needsMatch, hxwk, hxcur, hxrh'] at hnm
            by_cases hr : w.rem = true <;> by_cases hb : w.bkt = true <;>
              (try simp [hr, hb] at hnm) <;>
              lexec [dupBody, firstLoop, Gen.Src.«lfht.cds_lfht_next_duplicate», call_is_end, call_clear_flag, call_is_removed,
                call_is_bucket, pureCall, bind1, encP_pos hn, Int.natCast_inj] <;>
              (refine hfin _ ?_ ?_ ?_ ?_ ?_ <;> first | rfl | simp [hpr, hit, hrh, hky])
          by_cases hnm0 : needsMatch rev x w = false
          · exact hskip hnm0
          have hnm : needsMatch rev x w = true := by simpa using hnm0
          have hnm' := hnm
          simp [needsMatch, hxwk, hxcur, hxrh'] at hnm'
          obtain ⟨hr, hb⟩ := hnm'
          have hs1 : lstep rev (ofPair (x, .unit)) (.ldNext n w 1) = some { x := x, pend := .key w, out := .unit } := by
            simp [lstep, ofPair, hxpc, hxcur, hnm]
          have hO1 := hrest _ hs1
          cases rest with
          | nil =>
            lexec [dupBody, firstLoop, Gen.Src.«lfht.cds_lfht_next_duplicate», call_is_end, call_clear_flag, call_is_removed,
              call_is_bucket, pureCall, bind1, encP_pos hn, Int.natCast_inj]
            simp [lr, lrun, absEv, hs1, Ctl.goesOn, WalkR]
          | cons v2 rest =>
            obtain ⟨l, hl, hrest2⟩ := hO1 (by simp [active])
            simp only [obsLabel] at hl
            cases v2 with
            | ptr _ => simp at hl
            | int m =>
              simp only [Option.some.injEq, hxcur, hxky'] at hl
              subst hl
              by_cases hm0 : m = 0
              · subst hm0
                have hs2 : lstep rev { x := x, pend := .key w, out := .unit } (.matchKey n ky false) =
                    some (ofPair (lwalkPos rev { x with wnx := w } w.ptr)) := by
                  simp [lstep, hxcur, hxky']
                have hO2 := hrest2 _ hs2
                lexec [dupBody, firstLoop, Gen.Src.«lfht.cds_lfht_next_duplicate», call_is_end, call_clear_flag, call_is_removed,
                  call_is_bucket, pureCall, bind1, encP_pos hn, Int.natCast_inj]
                refine ⟨ofPair (lwalkPos rev { x with wnx := w } w.ptr), by simp [lr, lrun, absEv, hs1, hs2], ?_⟩
                simp only [Ctl.goesOn, if_true]
                exact ⟨by simp [hpr], by simp [hit], by simp [hrh], by simp [hky], w.ptr, { x with wnx := w }, by simp,
                  hxwk, hxrh', hxky', rfl, hO2⟩
              · have hmb : (m != 0) = true := by simpa using hm0
                rw [hmb] at hrest2
                have hs2 : lstep rev { x := x, pend := .key w, out := .unit } (.matchKey n ky true) =
                    some { x := { x with wnx := w, pc := .wAssert }, pend := .none, out := .unit } := by
                  simp [lstep, hxcur, hxky']
                have hO2 := hrest2 _ hs2
                lexec [dupBody, firstLoop, Gen.Src.«lfht.cds_lfht_next_duplicate», call_is_end, call_clear_flag, call_is_removed,
                  call_is_bucket, pureCall, bind1, encP_pos hn, Int.natCast_inj]
                refine ⟨{ x := { x with wnx := w, pc := .wAssert }, pend := .none, out := .unit },
                  by simp [lr, lrun, absEv, hs1, hs2, hmb], ?_⟩
                simp only [Ctl.goesOn, WalkR]
                refine ⟨by simp [hpr], by simp [hit], .inr ⟨n, hn, by simp [hnode, encP_pos hn], by simp, ?_, ?_, ?_, ?_, hO2⟩⟩
                · trivial
                · exact hxcur
                · trivial
                · simp [hxwk]

theorem dup_loop (fuel : Nat) (rev : Nat → Nat) (priv0 : Loc → Option Val) (it rh ky : Nat)
    (hrev : RevView rev priv0) (env : Env) (inp : List Val) (ls : LState) (r : Except String Out)
    (hE : iterate (exec fuel dupBody) fuel env inp [] = r) (hI : WalkI rev priv0 it .dup rh ky env inp ls) :
    ∃ out, r = .ok out ∧ ∃ ls', lr rev ls out.events = some ls' ∧
      (out.ctl = .fuel ∨ ∃ c, c.goesOn = false ∧ WalkR rev priv0 it c out.env out.inp ls' ∧ out.ctl = c.afterLoop) := by
  obtain ⟨out, hout, evs, ls', hev, hl, hfin⟩ :=
    iterate_inv (lr rev) (lr_nil rev) (lr_append rev) (exec fuel dupBody) (WalkI rev priv0 it .dup rh ky)
      (WalkR rev priv0 it) (dup_body fuel rev priv0 it rh ky hrev) fuel env inp ls [] hI
  refine ⟨out, by rw [← hE, hout], ls', ?_, hfin⟩
  rw [hev]; simpa using hl


/-- **`cds_lfht_next_duplicate(ht, match, key, iter)`**: `*iter = (itn, itx)` with `itn ≠ NULL`; `x0` = L2's record after
`callDup k` (`wk = dup`, `ky = k`, `rh = rev itn`); L2's thread is where `walkPos … itx.ptr` put it -/
theorem dup_exec (fuel : Nat) (rev : Nat → Nat) (env : Env) (inp : List Val) (x0 : Thr) (itn : Nat) (itx : W)
    (it k : Nat)
    (hiter : env.vars "iter" = some (.ptr (.obj it))) (hkey : env.vars "key" = some (.int k))
    (hin : env.priv (.field (.obj it) "node") = some (.ptr (.obj itn))) (hitn : itn ≠ 0)
    (hix : env.priv (.field (.obj it) "next") = some (encW itx)) (hrev : RevView rev env.priv)
    (hwk : x0.wk = .dup) (hrh : x0.rh = rev itn) (hky : x0.ky = k)
    (hO : OracleOk rev (ofPair (lwalkPos rev x0 itx.ptr)) inp) :
    ∃ out, exec fuel Gen.Src.«lfht.cds_lfht_next_duplicate» env inp = .ok out ∧
      ∃ ls', lr rev (ofPair (lwalkPos rev x0 itx.ptr)) out.events = some ls' ∧ WalkDone it out ls' := by
  have hshape : Gen.Src.«lfht.cds_lfht_next_duplicate» =
      .seq _ (.seq _ (.seq _ (.seq _ (.seq _ (.seq (.loop dupBody) dupPost))))) := rfl
  rw [hshape]
  have hrn := hrev _ hitn
  lexec [call_clear_flag, pureCall, bind1]
  generalize hE : iterate (exec fuel dupBody) fuel _ inp [] = r
  obtain ⟨o1, rfl, ls1, hl1, hfin⟩ := dup_loop fuel rev env.priv it (rev itn) k hrev _ inp
    (ofPair (lwalkPos rev x0 itx.ptr)) r hE
    ⟨rfl, by simp [hiter], by simp, by simp [hkey], itx.ptr, x0, by simp, hwk, hrh, hky, rfl, hO⟩
  rcases o1 with ⟨ev1, env1, inp1, ctl1⟩
  rcases hfin with hf | ⟨c, hc, hR, hctl⟩
  · dsimp only at hf; subst hf
    exact ⟨_, rfl, ls1, hl1, .inr (.inl rfl)⟩
  · dsimp only at hctl hR hl1
    cases c <;> simp [Ctl.goesOn] at hc <;> simp only [Ctl.afterLoop] at hctl <;> subst hctl
    · dsimp only
      generalize hE2 : exec fuel dupPost env1 inp1 = r2
      obtain ⟨o2, rfl, ls2, hl2, hdone⟩ := dup_post fuel rev env.priv it env1 inp1 ls1 r2 hE2 hR
      rcases o2 with ⟨ev2, env2, inp2, ctl2⟩
      refine ⟨_, rfl, ls2, ?_, by simpa [WalkDone] using hdone⟩
      rw [lr_append]
      exact (congrArg (fun o => o.bind fun m => lr rev m ev2) hl1).trans hl2
    · simp [WalkR] at hR
    · exact ⟨_, rfl, ls1, hl1, .inl rfl⟩
    · simp [WalkR] at hR

end UrcuVerif.Src.LfhtWR
