import UrcuVerif.Src.SyncSync
/-!
# Grace-period updater, **bp flavor** (`src/urcu-bp.c`): the checker

The bp updater runs the same two-pass protocol of `Gp/Flip.lean` as memb / mb.  Its checker is the one of
`Src/SyncRefine.lean` (same local automaton `Sync.lstep`, same checker state `Sync.SS`, same list-oracle discipline
`Sync.absExt`, same windows at `mutex_lock(&rcu_registry_lock)`, same labels) with ONE difference: the grace-period
counter is the object `urcu_bp_gp` (`gpCtr = &urcu_bp_gp.ctr`, the name the static header `urcu/static/urcu-bp.h` uses;
`urcu-bp.c` says `rcu_gp`, a macro of `urcu/map/urcu-bp.h` for the same object, which the translator resolves in the `bp.`
unit: the flip of `«bp.urcu_bp_synchronize_rcu»` and the plain read of `«urcu_bp_reader_state»` address the same `Loc`).  `absEv` below is `Sync.absEv` with that
location; `absRun`, `Ok`, `Holds` and the proof rules are the same definitions / proofs over it (copied: they depend on
`absEv`).  Everything that does not mention the counter location is reused from `Sync` (`absExt`, `masterAct`, `inList`,
`curOK`, `Res`, `lrun_env`, `iterate_acc`, the word lemmas `encGp` / `decW`).

Silent for bp in addition to the memb list: `sigfillset`, `pthread_sigmask` (signals are blocked around the whole
function), `poll` (the sleep of the retry path) – all `ext` events with other names than the list / mutex / membarrier
ones, which `Sync.absExt` maps to no label.  bp has no futex and no wait queue.
-/
set_option maxRecDepth 8192
set_option linter.unusedSimpArgs false
set_option linter.unusedVariables false
namespace UrcuVerif.Src.Sync2
open UrcuVerif UrcuVerif.Src UrcuVerif.Gen.Src UrcuVerif.Src.Sync

/-- `&urcu_bp_gp.ctr` -/
def gpCtr : Loc := .field (.glob "urcu_bp_gp") "ctr"

def absEv (trk : Bool) (ss : SS) : Event → Act
  | .ext name args r => absExt trk ss name args r
  | .fence p => if p = .mb then masterAct ss false else .step [] ss.pend
  | .ld l v _ =>
    match l with
    | .field (.obj j) f =>
      if f = "ctr" then
        match v with
        | .int w =>
          if w < 0 then .undisc
          else if ss.pend ≠ none then .bad
          else match ss.ls.upc with
            | .p1 =>
              if (decW w).1 = 0 then .step [.uScan1Inactive j (decW w)] (some (j, false))
              else if (decW w).2 = ss.ls.gp then .step [.uScan1Current j (decW w)] (some (j, true))
              else .step [] none
            | .p2 =>
              if (decW w).1 = 0 ∨ (decW w).2 = ss.ls.gp then .step [.uScan2 j (decW w)] (some (j, false))
              else .step [] none
            | _ => .bad
        | _ => .undisc
      else .step [] ss.pend
    | l => if l = gpCtr then .bad else .step [] ss.pend
  | .st l v _ =>
    if l = gpCtr then
      match v with
      | .int w => if w = encGp (decW w).2 ∧ ss.pend = none then .step [.uFlip (decW w).2] none else .bad
      | _ => .bad
    else .step [] ss.pend
  | .xchg l _ _ _ | .cas l _ _ _ _ _ | .rmw _ l _ _ _ => if l = gpCtr then .bad else .step [] ss.pend
def absRun (trk : Bool) : SS → Wins → List Event → Res
  | ss, wins, [] => .ok [] ss wins
  | ss, wins, e :: es =>
    match absEv trk ss e with
    | .bad => .bad
    | .undisc => .undisc
    | .step labs p =>
      match lrun ss.ls labs with
      | none => .bad
      | some ls' => (absRun trk ⟨ls', p⟩ wins es).prepend labs
    | .window =>
      match lrun ss.ls ((wins.headD []).map EnvOp.lab) with
      | none => .bad
      | some ls' => (absRun trk ⟨ls', ss.pend⟩ wins.tail es).prepend ((wins.headD []).map EnvOp.lab)

theorem absRun_lrun (trk) : ∀ (es : List Event) (ss wins labs ss' wins'),
    absRun trk ss wins es = .ok labs ss' wins' → lrun ss.ls labs = some ss'.ls := by
  intro es
  induction es with
  | nil => intro ss wins labs ss' wins' h; simp only [absRun, Res.ok.injEq] at h; obtain ⟨rfl, rfl, rfl⟩ := h; rfl
  | cons e es ih =>
    intro ss wins labs ss' wins' h
    simp only [absRun] at h
    split at h
    · simp at h
    · simp at h
    · split at h
      · simp at h
      · rename_i _ l1 p _ _ ls1 h1
        cases h2 : absRun trk ⟨ls1, p⟩ wins es with
        | bad => simp [h2, Res.prepend] at h
        | undisc => simp [h2, Res.prepend] at h
        | ok labs2 ss2 w2 =>
          simp only [h2, Res.prepend, Res.ok.injEq] at h
          obtain ⟨rfl, rfl, rfl⟩ := h
          exact lrun_append _ _ _ _ _ h1 (ih _ _ _ _ _ h2)
    · split at h
      · simp at h
      · rename_i _ ls1 h1
        cases h2 : absRun trk ⟨ls1, ss.pend⟩ wins.tail es with
        | bad => simp [h2, Res.prepend] at h
        | undisc => simp [h2, Res.prepend] at h
        | ok labs2 ss2 w2 =>
          simp only [h2, Res.prepend, Res.ok.injEq] at h
          obtain ⟨rfl, rfl, rfl⟩ := h
          exact lrun_append _ _ _ _ _ h1 (ih _ _ _ _ _ h2)

/-- the events are accepted (or the oracle left the discipline) and the checker ends in a state satisfying `R` -/
def Ok (trk : Bool) (ss : SS) (wins : Wins) (es : List Event) (R : SS → Wins → Prop) : Prop :=
  match absRun trk ss wins es with
  | .bad => False
  | .undisc => True
  | .ok _ ss' wins' => R ss' wins'

theorem Ok_nil (trk ss wins R) (h : R ss wins) : Ok trk ss wins [] R := by simpa [Ok, absRun] using h
theorem absRun_append (trk) : ∀ (e1 e2 : List Event) (ss wins),
    absRun trk ss wins (e1 ++ e2) = (absRun trk ss wins e1).andThen (fun s w => absRun trk s w e2) := by
  intro e1
  induction e1 with
  | nil =>
    intro e2 ss wins
    simp only [absRun, List.nil_append, Res.andThen]
    cases absRun trk ss wins e2 <;> simp [Res.prepend]
  | cons e es ih =>
    intro e2 ss wins
    simp only [List.cons_append, absRun]
    split
    · rfl
    · rfl
    · split
      · rfl
      · rw [ih, Res.prepend_andThen]
    · split
      · rfl
      · rw [ih, Res.prepend_andThen]

theorem Ok_append (trk ss wins e1 e2 R) (h : Ok trk ss wins e1 (fun ss1 w1 => Ok trk ss1 w1 e2 R)) :
    Ok trk ss wins (e1 ++ e2) R := by
  unfold Ok at h ⊢
  rw [absRun_append]
  cases h1 : absRun trk ss wins e1 with
  | bad => simp [h1] at h
  | undisc => simp [Res.andThen]
  | ok l1 ss1 w1 =>
    simp only [h1, Res.andThen] at h ⊢
    cases h2 : absRun trk ss1 w1 e2 <;> simp_all [Res.prepend]

theorem Ok_iff (trk ss wins es R) :
    Ok trk ss wins es R ↔
      absRun trk ss wins es ≠ .bad ∧ ∀ labs ss' wins', absRun trk ss wins es = .ok labs ss' wins' → R ss' wins' := by
  unfold Ok
  cases absRun trk ss wins es <;> simp

theorem Ok_nil_iff (trk ss wins R) : Ok trk ss wins [] R ↔ R ss wins := by simp [Ok, absRun]

theorem Ok_cons (trk ss wins e es R) :
    Ok trk ss wins (e :: es) R ↔
      match absEv trk ss e with
      | .bad => False
      | .undisc => True
      | .step labs p =>
        (match lrun ss.ls labs with
         | none => False
         | some ls' => Ok trk ⟨ls', p⟩ wins es R)
      | .window =>
        (match lrun ss.ls ((wins.headD []).map EnvOp.lab) with
         | none => False
         | some ls' => Ok trk ⟨ls', ss.pend⟩ wins.tail es R) := by
  unfold Ok
  simp only [absRun]
  cases absEv trk ss e with
  | bad => simp
  | undisc => simp
  | step labs p =>
    simp only []
    cases lrun ss.ls labs with
    | none => simp
    | some ls' => simp only []; cases absRun trk ⟨ls', p⟩ wins es <;> simp [Res.prepend]
  | window =>
    simp only []
    cases lrun ss.ls ((wins.headD []).map EnvOp.lab) with
    | none => simp
    | some ls' => simp only []; cases absRun trk ⟨ls', ss.pend⟩ wins.tail es <;> simp [Res.prepend]

theorem Ok_mono (trk ss wins es) (R R' : SS → Wins → Prop) (h : Ok trk ss wins es R) (hm : ∀ s w, R s w → R' s w) :
    Ok trk ss wins es R' := by
  unfold Ok at h ⊢
  cases h1 : absRun trk ss wins es <;> simp_all
/-! ## partial-correctness triples over `exec` -/


/-- every `.ok` run of `r` from a state satisfying the precondition has its events accepted by the checker (from `ss`,
`wins`) into a checker state satisfying `Q` -/
def Holds (trk : Bool) (r : Except String Out) (ss : SS) (wins : Wins) (Q : Post) : Prop :=
  ∀ out, r = .ok out → Ok trk ss wins out.events (fun ss' wins' => Q out.ctl out.env ss' wins')

def Triple (trk : Bool) (fuel : Nat) (s : Stmt) (P : Pre) (Q : Post) : Prop :=
  ∀ env inp ss wins, P env ss wins → Holds trk (exec fuel s env inp) ss wins Q

theorem Holds.mono {trk r ss wins} {Q Q' : Post} (h : Holds trk r ss wins Q) (hm : ∀ c e s w, Q c e s w → Q' c e s w) :
    Holds trk r ss wins Q' := fun out ho => Ok_mono _ _ _ _ _ _ (h out ho) (fun s w => hm _ _ s w)

theorem Triple.conseq {trk fuel s} {P P' : Pre} {Q Q' : Post} (h : Triple trk fuel s P Q)
    (hp : ∀ e s w, P' e s w → P e s w) (hq : ∀ c e s w, Q c e s w → Q' c e s w) : Triple trk fuel s P' Q' :=
  fun env inp ss wins hP => (h env inp ss wins (hp _ _ _ hP)).mono hq

theorem Holds.seq {trk fuel a b env inp ss wins} {Qa Q : Post}
    (ha : Holds trk (exec fuel a env inp) ss wins Qa)
    (hb : ∀ e i s w, Qa .normal e s w → Holds trk (exec fuel b e i) s w Q)
    (hc : ∀ c e s w, c ≠ .normal → Qa c e s w → Q c e s w) :
    Holds trk (exec fuel (.seq a b) env inp) ss wins Q := by
  intro out ho
  simp only [exec, bind, Except.bind] at ho
  cases h1 : exec fuel a env inp with
  | error m => simp [h1] at ho
  | ok o =>
    simp only [h1] at ho
    have hA := ha o h1
    by_cases hn : o.ctl = .normal
    · simp only [hn] at ho
      cases h2 : exec fuel b o.env o.inp with
      | error m => simp [h2] at ho
      | ok o2 =>
        simp only [h2, Except.ok.injEq] at ho
        subst ho
        apply Ok_append
        refine Ok_mono _ _ _ _ _ _ hA ?_
        intro s w hq
        rw [hn] at hq
        exact hb _ _ _ _ hq o2 h2
    · have : out = o := by
        revert ho; cases hc' : o.ctl <;> simp_all
      subst this
      exact Ok_mono _ _ _ _ _ _ hA (fun s w hq => hc _ _ _ _ hn hq)

theorem Triple.seq {trk fuel a b} {P : Pre} {Qa Q : Post} (ha : Triple trk fuel a P Qa)
    (hb : Triple trk fuel b (Qa .normal) Q) (hc : ∀ c e s w, c ≠ .normal → Qa c e s w → Q c e s w) :
    Triple trk fuel (.seq a b) P Q :=
  fun env inp ss wins hP => Holds.seq (ha env inp ss wins hP) (fun e i s w hq => hb e i s w hq) hc
/-- loop rule: `I` = loop invariant, `B` = postcondition of one execution of the body -/
theorem Holds.loop {trk} (body : Env → List Val → Except String Out) (I : Pre) (B Q : Post)
    (hbody : ∀ env inp ss wins, I env ss wins → Holds trk (body env inp) ss wins B)
    (hn : ∀ e s w, B .normal e s w → I e s w) (hcn : ∀ e s w, B .cont e s w → I e s w)
    (hbrk : ∀ e s w, B .brk e s w → Q .normal e s w)
    (hoth : ∀ c e s w, c ≠ .normal → c ≠ .cont → c ≠ .brk → B c e s w → Q c e s w)
    (hfuel : ∀ e s w, I e s w → Q .fuel e s w) :
    ∀ (n : Nat) env inp ss wins, I env ss wins → Holds trk (iterate body n env inp []) ss wins Q := by
  intro n
  induction n with
  | zero =>
    intro env inp ss wins hI out ho
    simp only [iterate, Except.ok.injEq] at ho
    subst ho
    exact Ok_nil _ _ _ _ (hfuel _ _ _ hI)
  | succ n ih =>
    intro env inp ss wins hI out ho
    simp only [iterate, bind, Except.bind, List.nil_append] at ho
    cases h : body env inp with
    | error m => simp [h] at ho
    | ok o =>
      simp only [h] at ho
      have hB := hbody env inp ss wins hI o h
      have hrec : ∀ (hI' : ∀ s w, B o.ctl o.env s w → I o.env s w),
          iterate body n o.env o.inp o.events = .ok out → Ok trk ss wins out.events (fun s w => Q out.ctl out.env s w) := by
        intro hI' hit
        rw [iterate_acc] at hit
        cases h2 : iterate body n o.env o.inp [] with
        | error m => simp [h2] at hit
        | ok o2 =>
          simp only [h2, Except.ok.injEq] at hit
          subst hit
          apply Ok_append
          refine Ok_mono _ _ _ _ _ _ hB ?_
          intro s w hq
          exact ih _ _ _ _ (hI' _ _ hq) o2 h2
      cases hc : o.ctl with
      | normal => simp only [hc] at ho; exact hrec (fun s w hq => hn _ _ _ (hc ▸ hq)) ho
      | cont => simp only [hc] at ho; exact hrec (fun s w hq => hcn _ _ _ (hc ▸ hq)) ho
      | brk =>
        simp only [hc, Except.ok.injEq] at ho; subst ho
        exact Ok_mono _ _ _ _ _ _ hB (fun s w hq => hbrk _ _ _ (hc ▸ hq))
      | ret v =>
        simp only [hc, Except.ok.injEq] at ho; subst ho
        refine Ok_mono _ _ _ _ _ _ hB (fun s w hq => ?_)
        simp only [List.nil_append]
        exact hoth _ _ _ _ (by simp) (by simp) (by simp) (hc ▸ hq)
      | blocked =>
        simp only [hc, Except.ok.injEq] at ho; subst ho
        refine Ok_mono _ _ _ _ _ _ hB (fun s w hq => ?_)
        exact hoth _ _ _ _ (by simp) (by simp) (by simp) (hc ▸ hq)
      | fuel =>
        simp only [hc, Except.ok.injEq] at ho; subst ho
        refine Ok_mono _ _ _ _ _ _ hB (fun s w hq => ?_)
        exact hoth _ _ _ _ (by simp) (by simp) (by simp) (hc ▸ hq)

theorem Triple.loop {trk fuel body} (I : Pre) (B Q : Post) (hbody : Triple trk fuel body I B)
    (hn : ∀ e s w, B .normal e s w → I e s w) (hcn : ∀ e s w, B .cont e s w → I e s w)
    (hbrk : ∀ e s w, B .brk e s w → Q .normal e s w)
    (hoth : ∀ c e s w, c ≠ .normal → c ≠ .cont → c ≠ .brk → B c e s w → Q c e s w)
    (hfuel : ∀ e s w, I e s w → Q .fuel e s w) : Triple trk fuel (.loop body) I Q := by
  intro env inp ss wins hI
  simp only [exec]
  exact Holds.loop _ I B Q (fun e i s w h => hbody e i s w h) hn hcn hbrk hoth hfuel fuel env inp ss wins hI

end UrcuVerif.Src.Sync2
