import UrcuVerif.Defer.ConcModel
/-!
# defer_rcu: thread-local projections of the concurrent L2 model `Defer/ConcModel.lean`

Two deterministic local automata, with labels = L2's labels of the thread **plus the values observed**:

* **owner** `t` inside `_defer_rcu` (`OState`, `olstep`): `call f p tl` (L2 `oCall t f p`, the loaded `tail` was `tl`),
  `postFlush tl` (`oPostFlush t`), `stQ i w` (`oStQ t`: word `w` stored at free-running index `i`), `stHead h` (`oStHead t`),
  `mb` (`oMb t`);
* **runner** = the holder of `rcu_defer_mutex` inside `rcu_defer_barrier_queue` (`RState`, `rlstep`): `begin t T H lo`
  (`rBegin`: queue `t`, `tail = T`, snapshot `H`, `last_fct_out = lo`), `ld i w` (`rLd`: slot `i` held `w`), `invoke f p`
  (`rInvoke`), `fin i` (`rEnd`: `tail := i`).

Projection lemmas (`*_proj`): whenever L2's `step` takes the thread's label, the projection moves by the local step with the
observed values being the stated function of the global state.  Enabledness (`*_enabled`): the L2 step is enabled iff the
local step is and the global guard holds (`oCall`: not the mutex holder, no abort; `oMb`: own store buffer empty; runner:
the mutex is held, `rBegin`: the queue is the next of `todo`, `rEnd`: no buffered `tail` store).  Frame lemmas
(`oproj_frame`, `rproj_frame`): which labels of other threads / of the environment leave the projection unchanged.
-/
set_option linter.unusedSimpArgs false
set_option linter.unusedVariables false
namespace UrcuVerif.Src.DeferL
open UrcuVerif UrcuVerif.DeferConc
open UrcuVerif.Defer (enc1)

/-! ## owner -/

structure OState where
  opc : OPc
  af : BitVec 64
  ap : BitVec 64
  pendW : List (BitVec 64)
  otl : Nat
  lastIn : BitVec 64
  head : Nat
  wlen : Nat
  deriving DecidableEq, Repr

def oproj (t : Nat) (s : State) : OState :=
  ⟨s.opc t, s.af t, s.ap t, s.pendW t, s.otl t, s.lastIn t, s.head t, s.wlen t⟩

inductive OLabel
  | call (f p : BitVec 64) (tl : Nat)
  | postFlush (tl : Nat)
  | stQ (i : Nat) (w : BitVec 64)
  | stHead (h : Nat)
  | mb
  deriving DecidableEq, Repr

/-- `_defer_rcu` from the encode on (local part of `DeferConc.mkEntry`) -/
def oEntry (ls : OState) (tl : Nat) (f p : BitVec 64) : OState :=
  { ls with otl := tl, pendW := (enc1 ls.lastIn f p).1, lastIn := (enc1 ls.lastIn f p).2, opc := .stq }

def olstep (size : Nat) (ls : OState) (l : OLabel) : Option OState :=
  match l with
  | .call f p tl =>
    if ls.opc = .idle then
      if size - 2 ≤ ls.head - tl then
        if ls.head - tl ≤ size then some { ls with opc := .full, af := f, ap := p, otl := tl }
        else some ls      -- `urcu_posix_assert(head - tail <= DEFER_QUEUE_SIZE)` fails: L2 sets `abort`
      else some (oEntry ls tl f p)
    else none
  | .postFlush tl =>
    if ls.opc = .flushed then
      if ls.head - tl = 0 then some (oEntry ls tl ls.af ls.ap) else some ls
    else none
  | .stQ i w =>
    if ls.opc = .stq then
      match ls.pendW with
      | w' :: ws => if w = w' ∧ i = ls.wlen then some { ls with wlen := ls.wlen + 1, pendW := ws } else none
      | [] => none
    else none
  | .stHead h =>
    if ls.opc = .stq ∧ ls.pendW = [] ∧ h = ls.wlen then some { ls with head := ls.wlen, opc := .mb } else none
  | .mb => if ls.opc = .mb then some { ls with opc := .idle } else none

def olrun (size : Nat) : OState → List OLabel → Option OState
  | ls, [] => some ls
  | ls, l :: r => match olstep size ls l with
    | some ls' => olrun size ls' r
    | none => none

theorem olrun_append (size : Nat) : ∀ (a b : List OLabel) (ls ls1 : OState), olrun size ls a = some ls1 →
    olrun size ls (a ++ b) = olrun size ls1 b := by
  intro a
  induction a with
  | nil => intro b ls ls1 h; simp [olrun] at h; subst h; rfl
  | cons x a ih =>
    intro b ls ls1 h
    simp only [olrun, List.cons_append] at h ⊢
    cases hs : olstep size ls x with
    | none => simp [hs] at h
    | some ls' => simp only [hs] at h ⊢; exact ih _ _ _ h

/-- the owner labels of L2 with the values they observe in `s` -/
def obsO (t : Nat) (s : State) : Label → Option OLabel
  | .oCall t' f p => if t' = t then some (.call f p (s.tail t)) else none
  | .oPostFlush t' => if t' = t then some (.postFlush (s.tail t)) else none
  | .oStQ t' => if t' = t then some (.stQ (s.wlen t) ((s.pendW t).headD 0#64)) else none
  | .oStHead t' => if t' = t then some (.stHead (s.wlen t)) else none
  | .oMb t' => if t' = t then some .mb else none
  | _ => none

theorem oCall_proj {c : Cfg} {s s' : State} {t : Nat} {f p : BitVec 64} (st : step c s (.oCall t f p) = some s') :
    olstep c.size (oproj t s) (.call f p (s.tail t)) = some (oproj t s') := by
  simp only [step] at st
  (repeat' split at st) <;> simp only [Option.some.injEq, reduceCtorEq] at st <;> subst st <;>
    simp_all [olstep, oproj, oEntry, tick, mkEntry, upd] <;> (try (intros; omega))

theorem oPostFlush_proj {c : Cfg} {s s' : State} {t : Nat} (st : step c s (.oPostFlush t) = some s') :
    olstep c.size (oproj t s) (.postFlush (s.tail t)) = some (oproj t s') := by
  simp only [step] at st
  (repeat' split at st) <;> simp only [Option.some.injEq, reduceCtorEq] at st <;> subst st <;>
    simp_all [olstep, oproj, oEntry, tick, mkEntry, upd]

theorem oStQ_proj {c : Cfg} {s s' : State} {t : Nat} (st : step c s (.oStQ t) = some s') :
    olstep c.size (oproj t s) (.stQ (s.wlen t) ((s.pendW t).headD 0#64)) = some (oproj t s') := by
  simp only [step] at st
  (repeat' split at st) <;> simp only [Option.some.injEq, reduceCtorEq] at st <;> subst st <;>
    simp_all [olstep, oproj, tick, upd]

theorem oStHead_proj {c : Cfg} {s s' : State} {t : Nat} (st : step c s (.oStHead t) = some s') :
    olstep c.size (oproj t s) (.stHead (s.wlen t)) = some (oproj t s') := by
  simp only [step] at st
  (repeat' split at st) <;> simp only [Option.some.injEq, reduceCtorEq] at st <;> subst st <;>
    simp_all [olstep, oproj, tick, upd]

theorem oMb_proj {c : Cfg} {s s' : State} {t : Nat} (st : step c s (.oMb t) = some s') :
    olstep c.size (oproj t s) .mb = some (oproj t s') := by
  simp only [step] at st
  (repeat' split at st) <;> simp only [Option.some.injEq, reduceCtorEq] at st <;> subst st <;>
    simp_all [olstep, oproj, tick, upd]

/-- **projection lemma (owner)**: an L2 step of owner `t` is the local step with the observed values -/
theorem owner_proj {c : Cfg} {s s' : State} {t : Nat} {l : Label} {ll : OLabel} (ho : obsO t s l = some ll)
    (st : step c s l = some s') : olstep c.size (oproj t s) ll = some (oproj t s') := by
  cases l <;> simp only [obsO, reduceCtorEq] at ho
  all_goals (split at ho <;> simp only [Option.some.injEq, reduceCtorEq] at ho; subst ho; rename_i h; subst h)
  · exact oCall_proj st
  · exact oPostFlush_proj st
  · exact oStQ_proj st
  · exact oStHead_proj st
  · exact oMb_proj st

/-- the global part of the guard of an owner label -/
def guardO (t : Nat) (s : State) : OLabel → Prop
  | .call _ _ _ => s.lock ≠ some t ∧ s.abort = false
  | .postFlush _ => s.abort = false
  | .mb => s.bq t = [] ∧ s.bh t = none
  | _ => True

theorem oCall_enabled (c : Cfg) (s : State) (t : Nat) (f p : BitVec 64) :
    (step c s (.oCall t f p)).isSome ↔
      ((olstep c.size (oproj t s) (.call f p (s.tail t))).isSome ∧ guardO t s (.call f p (s.tail t))) := by
  simp only [step, olstep, oproj, guardO]
  by_cases h1 : s.opc t = .idle <;> by_cases h2 : s.lock = some t <;> by_cases h3 : s.abort = false <;>
    simp [h1, h2, h3] <;> (repeat' split) <;> simp

theorem oPostFlush_enabled (c : Cfg) (s : State) (t : Nat) :
    (step c s (.oPostFlush t)).isSome ↔
      ((olstep c.size (oproj t s) (.postFlush (s.tail t))).isSome ∧ guardO t s (.postFlush (s.tail t))) := by
  simp only [step, olstep, oproj, guardO]
  by_cases h1 : s.opc t = .flushed <;> by_cases h3 : s.abort = false <;>
    simp [h1, h3] <;> (repeat' split) <;> simp

theorem oStQ_enabled (c : Cfg) (s : State) (t : Nat) :
    (step c s (.oStQ t)).isSome ↔
      (olstep c.size (oproj t s) (.stQ (s.wlen t) ((s.pendW t).headD 0#64))).isSome := by
  simp only [step, olstep, oproj]
  by_cases h1 : s.opc t = .stq <;> simp [h1]
  cases s.pendW t <;> simp

theorem oStHead_enabled (c : Cfg) (s : State) (t : Nat) :
    (step c s (.oStHead t)).isSome ↔ (olstep c.size (oproj t s) (.stHead (s.wlen t))).isSome := by
  simp only [step, olstep, oproj]
  by_cases h1 : s.opc t = .stq <;> by_cases h2 : s.pendW t = [] <;> simp [h1, h2]

theorem oMb_enabled (c : Cfg) (s : State) (t : Nat) :
    (step c s (.oMb t)).isSome ↔ ((olstep c.size (oproj t s) .mb).isSome ∧ guardO t s .mb) := by
  simp only [step, olstep, oproj, guardO]
  by_cases h1 : s.opc t = .mb <;> by_cases h2 : s.bq t = [] <;> by_cases h3 : s.bh t = none <;> simp [h1, h2, h3]

/-- **enabledness (owner)**: the L2 step is enabled iff the local step is and the global guard holds -/
theorem owner_enabled {c : Cfg} {s : State} {t : Nat} {l : Label} {ll : OLabel} (ho : obsO t s l = some ll) :
    (step c s l).isSome ↔ ((olstep c.size (oproj t s) ll).isSome ∧ guardO t s ll) := by
  cases l <;> simp only [obsO, reduceCtorEq] at ho
  all_goals (split at ho <;> simp only [Option.some.injEq, reduceCtorEq] at ho; subst ho; rename_i h; subst h)
  · exact oCall_enabled c s _ _ _
  · exact oPostFlush_enabled c s _
  · simpa [guardO] using oStQ_enabled c s _
  · simpa [guardO] using oStHead_enabled c s _
  · exact oMb_enabled c s _

/-- labels that are steps of owner `t` itself -/
def isOwnerLabel (t : Nat) : Label → Bool
  | .oCall t' _ _ | .oPostFlush t' | .oStQ t' | .oStHead t' | .oMb t' => t == t'
  | _ => false

/-- **frame lemma (owner)**: every other label – owner steps of other threads, store-buffer commits (also `flushQ t`,
`flushH t`: they change memory copies only), `oRealloc`, all runner and reader labels – leaves the projection of owner `t`
unchanged, except the release of the mutex (`rUnlock`, `rSkip`), which moves a thread that flushed from inside `_defer_rcu`
from `full` to `flushed` (`unlock_oproj`). -/
theorem oproj_frame {c : Cfg} {s s' : State} {t : Nat} {l : Label} (hl : isOwnerLabel t l = false)
    (h1 : l ≠ .rUnlock) (h2 : l ≠ .rSkip) (st : step c s l = some s') : oproj t s' = oproj t s := by
  cases l <;> simp only [isOwnerLabel, beq_eq_false_iff_ne, ne_eq] at hl <;> simp only [step] at st <;>
    (repeat' split at st) <;> (try simp only [Option.some.injEq, reduceCtorEq] at st) <;> (try subst st) <;>
    (try contradiction) <;> simp_all [oproj, tick, mkEntry, upd]

theorem unlock_oproj {c : Cfg} {s s' : State} {t : Nat} {l : Label} (hl : l = .rUnlock ∨ l = .rSkip)
    (st : step c s l = some s') :
    oproj t s' = if s.lock = some t ∧ s.opc t = .full then { oproj t s with opc := .flushed } else oproj t s := by
  rcases hl with rfl | rfl <;> simp only [step] at st <;>
    (repeat' split at st) <;> (try simp only [Option.some.injEq, reduceCtorEq] at st) <;> (try subst st) <;>
    (try contradiction) <;> simp_all [oproj, tick, unlockBy] <;> (try (split <;> simp_all)) <;>
    (try (intro e; subst e; simp_all))

/-! ## runner (inside `rcu_defer_barrier_queue`) -/

structure RState where
  rpc : RPc
  cur : Nat
  ri : Nat
  rit : RIt
  snap : Nat          -- `head` parameter of the call (snapshot of the queue being run)
  lastOut : BitVec 64 -- `last_fct_out` of the queue being run
  deriving DecidableEq, Repr

def rproj (s : State) : RState := ⟨s.rpc, s.cur, s.ri, s.rit, s.snap s.cur, s.lastOut s.cur⟩

inductive RLabel
  | begin (t T H : Nat) (lo : BitVec 64)
  | ld (i : Nat) (w : BitVec 64)
  | invoke (f p : BitVec 64)
  | fin (i : Nat)
  deriving DecidableEq, Repr

open UrcuVerif.Defer (isFct clrFct fctMark) in
def rlstep (ls : RState) (l : RLabel) : Option RState :=
  match l with
  | .begin t T H lo => if ls.rpc = .run then some ⟨.iter, t, T, .top, H, lo⟩ else none
  | .ld i w =>
    if ls.rpc = .iter ∧ i = ls.ri then
      match ls.rit with
      | .top =>
        if ls.ri ≠ ls.snap then
          some { ls with ri := ls.ri + 1,
                         rit := if isFct w then .one w else if w == fctMark then .one w else .ready ls.lastOut w }
        else none
      | .one w0 => some { ls with ri := ls.ri + 1, rit := if isFct w0 then .ready (clrFct w0) w else .two w0 w }
      | .two _ w1 => some { ls with ri := ls.ri + 1, rit := .ready w1 w }
      | .ready _ _ => none
    else none
  | .invoke f p =>
    if ls.rpc = .iter ∧ ls.rit = .ready f p then some { ls with lastOut := f, rit := .top } else none
  | .fin i =>
    if ls.rpc = .iter ∧ ls.rit = .top ∧ ls.ri = ls.snap ∧ i = ls.ri then some { ls with rpc := .run } else none

def rlrun : RState → List RLabel → Option RState
  | ls, [] => some ls
  | ls, l :: r => match rlstep ls l with
    | some ls' => rlrun ls' r
    | none => none

theorem rlrun_append : ∀ (a b : List RLabel) (ls ls1 : RState), rlrun ls a = some ls1 →
    rlrun ls (a ++ b) = rlrun ls1 b := by
  intro a
  induction a with
  | nil => intro b ls ls1 h; simp [rlrun] at h; subst h; rfl
  | cons x a ih =>
    intro b ls ls1 h
    simp only [rlrun, List.cons_append] at h ⊢
    cases hs : rlstep ls x with
    | none => simp [hs] at h
    | some ls' => simp only [hs] at h ⊢; exact ih _ _ _ h

/-- the runner labels of L2 with the values they observe in `s` -/
def obsR (c : Cfg) (s : State) : Label → Option RLabel
  | .rBegin => match s.todo with
    | t :: _ => some (.begin t (s.tail t) (s.snap t) (s.lastOut t))
    | [] => none
  | .rLd => some (.ld s.ri (rget c (s.mq s.cur) s.ri))
  | .rInvoke => match s.rit with
    | .ready f p => some (.invoke f p)
    | _ => none
  | .rEnd => some (.fin s.ri)
  | _ => none

/-- **projection lemma (runner)**, for the configuration of the code (`tailLate = true`) -/
theorem runner_proj {c : Cfg} (hc : c.tailLate = true) {s s' : State} {l : Label} {ll : RLabel}
    (ho : obsR c s l = some ll) (st : step c s l = some s') : rlstep (rproj s) ll = some (rproj s') := by
  cases l <;> simp only [obsR, reduceCtorEq] at ho
  · -- rBegin
    simp only [step] at st
    (repeat' split at st) <;> (try simp only [Option.some.injEq, reduceCtorEq] at st) <;> (try subst st) <;>
      (try contradiction) <;> simp_all [rlstep, rproj, tick] <;> (try (subst ho; simp_all [rlstep]))
  · -- rLd
    simp only [Option.some.injEq] at ho; subst ho
    simp only [step] at st
    (repeat' split at st) <;> (try simp only [Option.some.injEq, reduceCtorEq] at st) <;> (try subst st) <;>
      (try contradiction) <;> simp_all [rlstep, rproj, tick]
  · -- rInvoke
    simp only [step] at st
    (repeat' split at st) <;> (try simp only [Option.some.injEq, reduceCtorEq] at st) <;> (try subst st) <;>
      (try contradiction) <;> simp_all [rlstep, rproj, tick, upd] <;> (try (subst ho; simp_all [rlstep]))
  · -- rEnd
    simp only [Option.some.injEq] at ho; subst ho
    simp only [step] at st
    (repeat' split at st) <;> (try simp only [Option.some.injEq, reduceCtorEq] at st) <;> (try subst st) <;>
      (try contradiction) <;> simp_all [rlstep, rproj, tick]

/-- the global part of the guard of a runner label -/
def guardR (s : State) : RLabel → Prop
  | .fin _ => s.lock.isSome ∧ s.tpend = none
  | _ => s.lock.isSome

/-- **enabledness (runner)** -/
theorem runner_enabled {c : Cfg} (hc : c.tailLate = true) {s : State} {l : Label} {ll : RLabel}
    (ho : obsR c s l = some ll) : (step c s l).isSome ↔ ((rlstep (rproj s) ll).isSome ∧ guardR s ll) := by
  cases l <;> simp only [obsR, reduceCtorEq] at ho
  · simp only [step]
    split at ho
    · simp only [Option.some.injEq] at ho; subst ho
      rename_i t r htodo
      simp only [htodo, rlstep, rproj, guardR, hc]
      by_cases h1 : s.lock.isSome = true <;> by_cases h2 : s.rpc = .run <;> simp [h1, h2]
    · simp at ho
  · simp only [Option.some.injEq] at ho; subst ho
    simp only [step, rlstep, rproj, guardR]
    by_cases h1 : s.lock.isSome = true <;> by_cases h2 : s.rpc = .iter <;> simp [h1, h2]
    cases s.rit <;> simp <;> (try (split <;> simp))
  · simp only [step]
    split at ho
    · simp only [Option.some.injEq] at ho; subst ho
      rename_i f p hrit
      simp only [hrit, rlstep, rproj, guardR]
      by_cases h1 : s.lock.isSome = true <;> by_cases h2 : s.rpc = .iter <;> simp [h1, h2]
    · simp at ho
  · simp only [Option.some.injEq] at ho; subst ho
    simp only [step, rlstep, rproj, guardR, hc]
    by_cases h1 : s.lock.isSome = true <;> by_cases h2 : s.rpc = .iter <;> by_cases h3 : s.rit = .top <;>
      by_cases h4 : s.ri = s.snap s.cur <;> by_cases h5 : s.tpend = none <;> simp [h1, h2, h3, h4, h5]

/-- labels that leave the runner's projection alone: every owner step, store-buffer commits, `oRealloc`, readers.  (The
runner's own control labels `rLock`, `rSnap`, `rSkip`, `rGpCall`, `rGp`, `rUnlock` – the callers of
`rcu_defer_barrier_queue` – are not part of the function and do change `rpc` / `snap`.) -/
def isRFrame : Label → Bool
  | .oCall .. | .oPostFlush _ | .oStQ _ | .oStHead _ | .oMb _ | .flushQ _ | .flushH _ | .oRealloc .. | .flushT
  | .rdLock _ | .rdUnlock _ => true
  | _ => false

/-- **frame lemma (runner)** -/
theorem rproj_frame {c : Cfg} {s s' : State} {l : Label} (hl : isRFrame l = true) (st : step c s l = some s') :
    rproj s' = rproj s := by
  cases l <;> simp only [isRFrame, reduceCtorEq] at hl <;> simp only [step] at st <;>
    (repeat' split at st) <;> (try simp only [Option.some.injEq, reduceCtorEq] at st) <;> (try subst st) <;>
    (try contradiction) <;> simp_all [rproj, tick, mkEntry]

end UrcuVerif.Src.DeferL
