import UrcuVerif.Defer.ConcModel
/-!
# defer_rcu: thread-local projections of the concurrent L2 model `Defer/ConcModel.lean`

Two deterministic local automata, with labels = L2's labels of the thread **plus the values observed**:

* **owner** `t` inside `_defer_rcu` (`OState`, `olstep`): `call f p tl` (L2 `oCall t f p`, the loaded `tail` was `tl`),
  `postFlush tl` (`oPostFlush t`), `stQ i w` (`oStQ t`: word `w` stored at free-running index `i`), `stHead h` (`oStHead t`),
  `mb` (`oMb t`);
* **runner** = the holder of `rcu_defer_mutex` inside `rcu_defer_barrier_queue` (`RState`, `rlstep`): `begin t T H lo`
  (`rBegin`: queue `t`, `tail = T`, snapshot `H`, `last_fct_out = lo`), `ld i w` (`rLd`: slot `i` held `w`), `invoke f p`
  (`rInvoke`), `fin i` (`rEnd`: `tail := i`).

Projection lemmas (`*_proj`): whenever L2's `step` takes the thread's label, the projection moves by the local step with the
observed values being the stated function of the global state.  Enabledness (`*_enabled`): the L2 step is enabled iff the
local step is and the global guard holds (`oCall`: not the mutex holder, no abort; `oMb`: own store buffer empty; runner:
the mutex is held, `rBegin`: the queue is the next of `todo`, `rEnd`: no buffered `tail` store).  Frame lemmas
(`oproj_frame`, `rproj_frame`): which labels of other threads / of the environment leave the projection unchanged.
-/
set_option linter.unusedSimpArgs false
set_option linter.unusedVariables false
namespace UrcuVerif.Src.DeferL
open UrcuVerif UrcuVerif.DeferConc
open UrcuVerif.Defer (enc1)

/-! ## owner -/

structure OState where
  opc : OPc
  af : BitVec 64
  ap : BitVec 64
  pendW : List (BitVec 64)
  otl : Nat
  lastIn : BitVec 64
  head : Nat
  wlen : Nat
  deriving DecidableEq, Repr

def oproj (t : Nat) (s : State) : OState :=
  ⟨s.opc t, s.af t, s.ap t, s.pendW t, s.otl t, s.lastIn t, s.head t, s.wlen t⟩

inductive OLabel
  | call (f p : BitVec 64) (tl : Nat)
  | postFlush (tl : Nat)
  | stQ (i : Nat) (w : BitVec 64)
  | stHead (h : Nat)
  | mb
  deriving DecidableEq, Repr

/-- `_defer_rcu` from the encode on (local part of `DeferConc.mkEntry`) -/
def oEntry (ls : OState) (tl : Nat) (f p : BitVec 64) : OState :=
  { ls with otl := tl, pendW := (enc1 ls.lastIn f p).1, lastIn := (enc1 ls.lastIn f p).2, opc := .stq }

def olstep (size : Nat) (ls : OState) (l : OLabel) : Option OState :=
  match l with
  | .call f p tl =>
    if ls.opc = .idle then
      if size - 2 ≤ ls.head - tl then
        if ls.head - tl ≤ size then some { ls with opc := .full, af := f, ap := p, otl := tl }
        else some ls      -- `urcu_posix_assert(head - tail <= DEFER_QUEUE_SIZE)` fails: L2 sets `abort`
      else some (oEntry ls tl f p)
    else none
  | .postFlush tl =>
    if ls.opc = .flushed then
      if ls.head - tl = 0 then some (oEntry ls tl ls.af ls.ap) else some ls
    else none
  | .stQ i w =>
    if ls.opc = .stq then
      match ls.pendW with
      | w' :: ws => if w = w' ∧ i = ls.wlen then some { ls with wlen := ls.wlen + 1, pendW := ws } else none
      | [] => none
    else none
  | .stHead h =>
    if ls.opc = .stq ∧ ls.pendW = [] ∧ h = ls.wlen then some { ls with head := ls.wlen, opc := .mb } else none
  | .mb => if ls.opc = .mb then some { ls with opc := .idle } else none

def olrun (size : Nat) : OState → List OLabel → Option OState
  | ls, [] => some ls
  | ls, l :: r => match olstep size ls l with
    | some ls' => olrun size ls' r
    | none => none

theorem olrun_append (size : Nat) : ∀ (a b : List OLabel) (ls ls1 : OState), olrun size ls a = some ls1 →
    olrun size ls (a ++ b) = olrun size ls1 b := by
  intro a
  induction a with
  | nil => intro b ls ls1 h; simp [olrun] at h; subst h; rfl
  | cons x a ih =>
    intro b ls ls1 h
    simp only [olrun, List.cons_append] at h ⊢
    split at h
    · rename_i ls' h'; simp only [h']; exact ih _ _ _ h
    · simp at h

/-- the owner labels of L2 with the values they observe in `s` -/
def obsO (t : Nat) (s : State) : Label → Option OLabel
  | .oCall t' f p => if t' = t then some (.call f p (s.tail t)) else none
  | .oPostFlush t' => if t' = t then some (.postFlush (s.tail t)) else none
  | .oStQ t' => if t' = t then some (.stQ (s.wlen t) ((s.pendW t).headD 0#64)) else none
  | .oStHead t' => if t' = t then some (.stHead (s.wlen t)) else none
  | .oMb t' => if t' = t then some .mb else none
  | _ => none

theorem oCall_proj {c : Cfg} {s s' : State} {t : Nat} {f p : BitVec 64} (st : step c s (.oCall t f p) = some s') :
    olstep c.size (oproj t s) (.call f p (s.tail t)) = some (oproj t s') := by
  simp only [step] at st
  (repeat' split at st) <;> simp only [Option.some.injEq, reduceCtorEq] at st <;> subst st <;>
    simp_all [olstep, oproj, oEntry, tick, mkEntry, upd]

theorem oPostFlush_proj {c : Cfg} {s s' : State} {t : Nat} (st : step c s (.oPostFlush t) = some s') :
    olstep c.size (oproj t s) (.postFlush (s.tail t)) = some (oproj t s') := by
  simp only [step] at st
  (repeat' split at st) <;> simp only [Option.some.injEq, reduceCtorEq] at st <;> subst st <;>
    simp_all [olstep, oproj, oEntry, tick, mkEntry, upd]

theorem oStQ_proj {c : Cfg} {s s' : State} {t : Nat} (st : step c s (.oStQ t) = some s') :
    olstep c.size (oproj t s) (.stQ (s.wlen t) ((s.pendW t).headD 0#64)) = some (oproj t s') := by
  simp only [step] at st
  (repeat' split at st) <;> simp only [Option.some.injEq, reduceCtorEq] at st <;> subst st <;>
    simp_all [olstep, oproj, tick, upd]

theorem oStHead_proj {c : Cfg} {s s' : State} {t : Nat} (st : step c s (.oStHead t) = some s') :
    olstep c.size (oproj t s) (.stHead (s.wlen t)) = some (oproj t s') := by
  simp only [step] at st
  (repeat' split at st) <;> simp only [Option.some.injEq, reduceCtorEq] at st <;> subst st <;>
    simp_all [olstep, oproj, tick, upd]

theorem oMb_proj {c : Cfg} {s s' : State} {t : Nat} (st : step c s (.oMb t) = some s') :
    olstep c.size (oproj t s) .mb = some (oproj t s') := by
  simp only [step] at st
  (repeat' split at st) <;> simp only [Option.some.injEq, reduceCtorEq] at st <;> subst st <;>
    simp_all [olstep, oproj, tick, upd]

/-- **projection lemma (owner)**: an L2 step of owner `t` is the local step with the observed values -/
theorem owner_proj {c : Cfg} {s s' : State} {t : Nat} {l : Label} {ll : OLabel} (ho : obsO t s l = some ll)
    (st : step c s l = some s') : olstep c.size (oproj t s) ll = some (oproj t s') := by
  cases l <;> simp only [obsO, reduceCtorEq] at ho
  all_goals (split at ho <;> simp only [Option.some.injEq, reduceCtorEq] at ho; subst ho; rename_i h; subst h)
  · exact oCall_proj st
  · exact oPostFlush_proj st
  · exact oStQ_proj st
  · exact oStHead_proj st
  · exact oMb_proj st

/-- the global part of the guard of an owner label -/
def guardO (t : Nat) (s : State) : OLabel → Prop
  | .call _ _ _ => s.lock ≠ some t ∧ s.abort = false
  | .postFlush _ => s.abort = false
  | .mb => s.bq t = [] ∧ s.bh t = none
  | _ => True

/-- **enabledness (owner)**: the L2 step is enabled iff the local step is and the global guard holds -/
theorem owner_enabled {c : Cfg} {s : State} {t : Nat} {l : Label} {ll : OLabel} (ho : obsO t s l = some ll) :
    (step c s l).isSome ↔ ((olstep c.size (oproj t s) ll).isSome ∧ guardO t s ll) := by
  cases l <;> simp only [obsO, reduceCtorEq] at ho
  all_goals (split at ho <;> simp only [Option.some.injEq, reduceCtorEq] at ho; subst ho; rename_i h; subst h)
  · simp only [step, olstep, oproj, guardO]
    by_cases h1 : s.opc _ = .idle <;> by_cases h2 : s.lock = some _ <;> by_cases h3 : s.abort = false <;>
      simp [h1, h2, h3] <;> (repeat' split) <;> simp
  · simp only [step, olstep, oproj, guardO]
    by_cases h1 : s.opc _ = .flushed <;> by_cases h3 : s.abort = false <;>
      simp [h1, h3] <;> (repeat' split) <;> simp
  · simp only [step, olstep, oproj, guardO]
    by_cases h1 : s.opc _ = .stq <;> simp [h1]
    cases s.pendW _ <;> simp
  · simp only [step, olstep, oproj, guardO]
    by_cases h1 : s.opc _ = .stq <;> by_cases h2 : s.pendW _ = [] <;> simp [h1, h2]
  · simp only [step, olstep, oproj, guardO]
    by_cases h1 : s.opc _ = .mb <;> by_cases h2 : s.bq _ = [] <;> by_cases h3 : s.bh _ = none <;> simp [h1, h2, h3]

/-- labels that are steps of owner `t` itself -/
def isOwnerLabel (t : Nat) : Label → Bool
  | .oCall t' _ _ | .oPostFlush t' | .oStQ t' | .oStHead t' | .oMb t' => t' == t
  | _ => false

/-- **frame lemma (owner)**: every other label – owner steps of other threads, store-buffer commits (also `flushQ t`,
`flushH t`: they change memory copies only), `oRealloc`, all runner and reader labels – leaves the projection of owner `t`
unchanged, except the release of the mutex (`rUnlock`, `rSkip`), which moves a thread that flushed from inside `_defer_rcu`
from `full` to `flushed` (`unlock_oproj`). -/
theorem oproj_frame {c : Cfg} {s s' : State} {t : Nat} {l : Label} (hl : isOwnerLabel t l = false)
    (h1 : l ≠ .rUnlock) (h2 : l ≠ .rSkip) (st : step c s l = some s') : oproj t s' = oproj t s := by
  cases l <;> simp only [isOwnerLabel, beq_eq_false_iff_ne, ne_eq] at hl <;> simp only [step] at st <;>
    (repeat' split at st) <;> (try simp only [Option.some.injEq, reduceCtorEq] at st) <;> (try subst st) <;>
    (try contradiction) <;> simp_all [oproj, tick, mkEntry, upd]

theorem unlock_oproj {c : Cfg} {s s' : State} {t : Nat} {l : Label} (hl : l = .rUnlock ∨ l = .rSkip)
    (st : step c s l = some s') :
    oproj t s' = if s.lock = some t ∧ s.opc t = .full then { oproj t s with opc := .flushed } else oproj t s := by
  rcases hl with rfl | rfl <;> simp only [step] at st <;>
    (repeat' split at st) <;> (try simp only [Option.some.injEq, reduceCtorEq] at st) <;> (try subst st) <;>
    (try contradiction) <;> simp_all [oproj, tick, unlockBy] <;> (split <;> simp_all)

end UrcuVerif.Src.DeferL
