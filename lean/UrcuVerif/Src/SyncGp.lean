import UrcuVerif.Src.SyncScan
/-!
# `smp_mb_master`, `wait_gp`, `wait_for_readers` and `synchronize_rcu` of memb / mb: the generated values
-/
set_option maxRecDepth 8192
set_option linter.unusedSimpArgs false
set_option linter.unusedVariables false
namespace UrcuVerif.Src.Sync
open UrcuVerif UrcuVerif.Src UrcuVerif.Gen.Src

/-! ## `smp_mb_master` -/

/-- memb: the two configuration globals are set (`rcu_sys_membarrier_init` ran) -/
def MembPre (priv : Loc → Option Val) : Prop :=
  ∃ b : Int, priv (.glob "urcu_memb_has_sys_membarrier") = some (.int b) ∧
    (b ≠ 0 → ∃ b2 : Int, priv (.glob "urcu_memb_has_sys_membarrier_private_expedited") = some (.int b2))

theorem MembPre_stable : MStable MembPre := by
  intro priv l v hl ⟨b, h1, h2⟩
  have hne1 : Loc.glob "urcu_memb_has_sys_membarrier" ≠ l := by rcases hl with rfl | rfl | ⟨rfl, _⟩ <;> simp [gpFutex, gpCtr]
  have hne2 : Loc.glob "urcu_memb_has_sys_membarrier_private_expedited" ≠ l := by
    rcases hl with rfl | rfl | ⟨rfl, _⟩ <;> simp [gpFutex, gpCtr]
  refine ⟨b, by simp [hne1, h1], ?_⟩
  intro hb; obtain ⟨b2, h3⟩ := h2 hb
  exact ⟨b2, by simp [hne2, h3]⟩

theorem Ok_master (trk : Bool) (ss : SS) (wins : Wins) (e : Event) (sys : Bool) (R : SS → Wins → Prop)
    (he : absEv trk ss e = masterAct ss sys) (h : ∀ s, MasterAfter ss s → R s wins) : Ok trk ss wins [e] R := by
  rw [Ok_cons, he]
  obtain ⟨⟨upc, gp, reg, inpl, snap, qs⟩, pend⟩ := ss
  cases upc <;> simp [masterAct, lrun, lstep, Ok_nil_iff] <;> apply h <;> simp [MasterAfter]

theorem memb_master_spec (trk : Bool) : MasterSpec trk «memb.smp_mb_master» MembPre := by
  intro fuel env inp ss wins ⟨b, h1, h2⟩ out ho
  by_cases hb : b = 0
  · subst hb
    exec_simp_at ho [«memb.smp_mb_master», h1]; subst ho
    refine Ok_master trk ss wins _ false _ (by simp [absEv]) ?_
    intro s hs; exact Or.inl ⟨rfl, rfl, rfl, hs⟩
  · obtain ⟨b2, h3⟩ := h2 hb
    cases inp with
    | nil =>
      by_cases hb2 : b2 = 0 <;> exec_simp_at ho [«memb.smp_mb_master», h1, h3, hb, hb2] <;> subst ho <;> simp [Ok_nil_iff]
    | cons r rest =>
      by_cases hr : r = .int 0
      · subst hr
        by_cases hb2 : b2 = 0 <;> exec_simp_at ho [«memb.smp_mb_master», h1, h3, hb, hb2] <;> subst ho <;>
          (refine Ok_master trk ss wins _ true _ (by simp [absEv, absExt]) ?_
           intro s hs; exact Or.inl ⟨rfl, rfl, rfl, hs⟩)
      · have hund : ∀ cmd es R, Ok trk ss wins (Event.ext "membarrier" [.int cmd, .int 0] r :: es) R := by
          intro cmd es R; simp [Ok_cons, absEv, absExt, hr]
        cases r with
        | int z =>
          have hz : z ≠ 0 := by intro h; apply hr; rw [h]
          by_cases hb2 : b2 = 0 <;> rcases rest with _ | ⟨v, _ | ⟨v2, rest⟩⟩ <;>
            exec_simp_at ho [«memb.smp_mb_master», h1, h3, hb, hb2, hz] <;> subst ho <;> exact hund _ _ _
        | ptr l =>
          by_cases hb2 : b2 = 0 <;> rcases rest with _ | ⟨v, _ | ⟨v2, rest⟩⟩ <;>
            exec_simp_at ho [«memb.smp_mb_master», h1, h3, hb, hb2] <;> subst ho <;> exact hund _ _ _

theorem mb_master_spec (trk : Bool) : MasterSpec trk «mb.smp_mb_master» (fun _ => True) := by
  intro fuel env inp ss wins _ out ho
  exec_simp_at ho [«mb.smp_mb_master»]; subst ho
  refine Ok_master trk ss wins _ false _ (by simp [absEv]) ?_
  intro s hs; exact Or.inl ⟨rfl, rfl, rfl, hs⟩

/-! ## `wait_gp` -/

def wgBody : Stmt :=
  block [(.prim (some "_t1") .uload [.fieldAddr (.addrGlob "rcu_gp") "futex", .cst "CMM_RELAXED" (0)]),
    (.ifte (.bin .eq (.var "_t1") (.lit (-1)))
      (block [(.prim (some "_t2") (.ext "futex_async") [.fieldAddr (.addrGlob "rcu_gp") "futex", .cst "FUTEX_WAIT" (0), .lit (-1), .null, .null, .lit 0]),
        (.ifte (.un .lnot (.var "_t2")) (.cont) (.skip)),
        (.prim (some "_t3") (.ext "errno") []),
        (.assign "_t4" (.var "_t3")),
        (.ifte (.bin .eq (.var "_t4") (.cst "EAGAIN" (11))) (block [(.assign "_goto_end" (.lit 1)), (.brk)])
          (.ifte (.bin .eq (.var "_t4") (.cst "EINTR" (4))) (.skip)
            (block [(.prim (some "_t5") (.ext "errno") []), (.prim none (.ext "urcu_die") [.var "_t5"])])))])
      (.brk))]

def wgUnlock : Stmt := .prim none (.ext "mutex_unlock") [.addrGlob "rcu_registry_lock"]
def wgLock : Stmt := .prim none (.ext "mutex_lock") [.addrGlob "rcu_registry_lock"]

def wgT (master : Stmt) : Stmt :=
  block [(.assign "_goto_end" (.lit 0)), (.call none [] [] master), wgUnlock, (.loop wgBody),
    (.assign "_goto_end" (.lit 0)), wgLock]

theorem memb_wg_eq : «memb.wait_gp» = wgT «memb.smp_mb_master» := rfl
theorem mb_wg_eq : «mb.wait_gp» = wgT «mb.smp_mb_master» := rfl

/-- during `wait_gp` only the lists may change (at the window); private view, pc, phase and `pend` stay -/
def QInv (priv0 : Loc → Option Val) (ss0 : SS) (e : Env) (s : SS) : Prop :=
  e.priv = priv0 ∧ s.pend = ss0.pend ∧ s.ls.upc = ss0.ls.upc ∧ s.ls.gp = ss0.ls.gp

def QPost (priv0 : Loc → Option Val) (ss0 : SS) : Post := fun ctl e s _ =>
  match ctl with
  | .normal | .cont | .brk => QInv priv0 ss0 e s
  | .blocked | .fuel => True
  | _ => False

theorem truthy_int (n : Int) : (Val.int n).truthy = (n != 0) := rfl

theorem wgBody_holds (trk : Bool) (fuel : Nat) (priv0 : Loc → Option Val) (ss0 : SS) (env : Env) (inp : List Val)
    (ss : SS) (wins : Wins) (hI : QInv priv0 ss0 env ss) :
    Holds trk (exec fuel wgBody env inp) ss wins (QPost priv0 ss0) := by
  intro out ho
  obtain ⟨ls, pend⟩ := ss
  have hI' : ∀ vars, QInv priv0 ss0 { vars := vars, priv := env.priv } ⟨ls, pend⟩ := fun _ => hI
  rcases inp with _ | ⟨v, rest⟩
  · exec_simp_at ho [wgBody]; subst ho; simp [Ok_nil_iff, QPost]
  by_cases hv : v = .int (-1)
  case neg =>
    exec_simp_at ho [wgBody, hv]; subst ho
    abs_simp [QPost]
    exact hI' _
  subst hv
  rcases rest with _ | ⟨r2, rest⟩
  · exec_simp_at ho [wgBody]; subst ho; abs_simp [QPost]
  by_cases h2 : r2.truthy = true
  case neg =>
    simp [wgBody, block, exec, iterate, eval, evalArgs, execPrim, bind, Except.bind, asLoc, Env.setVar, Env.setPriv,
      bindParams, setDst, evalUn, evalBin, boolV, truthy_int, h2] at ho
    subst ho; abs_simp [QPost]; exact hI' _
  rcases rest with _ | ⟨r3, rest⟩
  · simp [wgBody, block, exec, iterate, eval, evalArgs, execPrim, bind, Except.bind, asLoc, Env.setVar, Env.setPriv,
      bindParams, setDst, evalUn, evalBin, boolV, truthy_int, h2] at ho
    subst ho; abs_simp [QPost]
  by_cases h3 : r3 = .int 11
  · subst h3
    simp [wgBody, block, exec, iterate, eval, evalArgs, execPrim, bind, Except.bind, asLoc, Env.setVar, Env.setPriv,
      bindParams, setDst, evalUn, evalBin, boolV, truthy_int, h2] at ho
    subst ho; abs_simp [QPost]; exact hI' _
  by_cases h4 : r3 = .int 4
  · subst h4
    simp [wgBody, block, exec, iterate, eval, evalArgs, execPrim, bind, Except.bind, asLoc, Env.setVar, Env.setPriv,
      bindParams, setDst, evalUn, evalBin, boolV, truthy_int, h2] at ho
    subst ho; abs_simp [QPost]; exact hI' _
  rcases rest with _ | ⟨r4, _ | ⟨r5, rest⟩⟩ <;>
    simp [wgBody, block, exec, iterate, eval, evalArgs, execPrim, bind, Except.bind, asLoc, Env.setVar, Env.setPriv,
      bindParams, setDst, evalUn, evalBin, boolV, truthy_int, h2, h3, h4] at ho <;>
    subst ho <;> abs_simp [QPost]

/-- call of a `void` function whose result is not used -/
theorem Holds.callN {trk fuel body env inp ss wins} {params : List String} {args : List Expr} {vs : List Val}
    {Qb Q : Post} (hargs : evalArgs env args = .ok vs) (hlen : params.length = vs.length)
    (hb : Holds trk (exec fuel body { vars := bindParams params vs, priv := env.priv } inp) ss wins Qb)
    (hn : ∀ e s w, Qb .normal e s w → Q .normal { vars := env.vars, priv := e.priv } s w)
    (hr : ∀ e s w, Qb (.ret none) e s w → Q .normal { vars := env.vars, priv := e.priv } s w)
    (hrs : ∀ v e s w, Qb (.ret (some v)) e s w → Q .normal { vars := env.vars, priv := e.priv } s w)
    (hbl : ∀ e s w, Qb .blocked e s w → Q .blocked e s w) (hf : ∀ e s w, Qb .fuel e s w → Q .fuel e s w) :
    Holds trk (exec fuel (.call none params args body) env inp) ss wins Q := by
  intro out ho
  simp only [exec, hargs, bind, Except.bind, hlen, ne_eq, not_true_eq_false, if_false] at ho
  cases h : exec fuel body { vars := bindParams params vs, priv := env.priv } inp with
  | error m => simp [h] at ho
  | ok o =>
    have hB := hb o h
    simp only [h] at ho
    cases hc : o.ctl with
    | normal => simp only [hc, Except.ok.injEq] at ho; subst ho; exact Ok_mono _ _ _ _ _ _ hB (fun s w hq => hn _ _ _ (hc ▸ hq))
    | ret v =>
      cases v with
      | none => simp only [hc, Except.ok.injEq] at ho; subst ho; exact Ok_mono _ _ _ _ _ _ hB (fun s w hq => hr _ _ _ (hc ▸ hq))
      | some v =>
        simp only [hc, Except.ok.injEq, setDst] at ho; subst ho
        exact Ok_mono _ _ _ _ _ _ hB (fun s w hq => hrs v _ _ _ (hc ▸ hq))
    | brk => simp [hc] at ho
    | cont => simp [hc] at ho
    | blocked => simp only [hc, Except.ok.injEq] at ho; subst ho; exact Ok_mono _ _ _ _ _ _ hB (fun s w hq => hbl _ _ _ (hc ▸ hq))
    | fuel => simp only [hc, Except.ok.injEq] at ho; subst ho; exact Ok_mono _ _ _ _ _ _ hB (fun s w hq => hf _ _ _ (hc ▸ hq))

/-- call of a parameterless `void` function -/
theorem Holds.call0 {trk fuel body env inp ss wins} {Qb Q : Post}
    (hb : Holds trk (exec fuel body { vars := bindParams [] [], priv := env.priv } inp) ss wins Qb)
    (hn : ∀ e s w, Qb .normal e s w → Q .normal { vars := env.vars, priv := e.priv } s w)
    (hr : ∀ e s w, Qb (.ret none) e s w → Q .normal { vars := env.vars, priv := e.priv } s w)
    (hrs : ∀ v e s w, Qb (.ret (some v)) e s w → Q .normal { vars := env.vars, priv := e.priv } s w)
    (hbl : ∀ e s w, Qb .blocked e s w → Q .blocked e s w) (hf : ∀ e s w, Qb .fuel e s w → Q .fuel e s w) :
    Holds trk (exec fuel (.call none [] [] body) env inp) ss wins Q := by
  intro out ho
  simp only [exec, evalArgs, bind, Except.bind, List.length_nil, ne_eq, not_true_eq_false, if_false] at ho
  cases h : exec fuel body { vars := bindParams [] [], priv := env.priv } inp with
  | error m => simp [h] at ho
  | ok o =>
    have hB := hb o h
    simp only [h] at ho
    cases hc : o.ctl with
    | normal => simp only [hc, Except.ok.injEq] at ho; subst ho; exact Ok_mono _ _ _ _ _ _ hB (fun s w hq => hn _ _ _ (hc ▸ hq))
    | ret v =>
      cases v with
      | none => simp only [hc, Except.ok.injEq] at ho; subst ho; exact Ok_mono _ _ _ _ _ _ hB (fun s w hq => hr _ _ _ (hc ▸ hq))
      | some v =>
        simp only [hc, Except.ok.injEq, setDst] at ho; subst ho
        exact Ok_mono _ _ _ _ _ _ hB (fun s w hq => hrs v _ _ _ (hc ▸ hq))
    | brk => simp [hc] at ho
    | cont => simp [hc] at ho
    | blocked => simp only [hc, Except.ok.injEq] at ho; subst ho; exact Ok_mono _ _ _ _ _ _ hB (fun s w hq => hbl _ _ _ (hc ▸ hq))
    | fuel => simp only [hc, Except.ok.injEq] at ho; subst ho; exact Ok_mono _ _ _ _ _ _ hB (fun s w hq => hf _ _ _ (hc ▸ hq))

def QPostN (priv0 : Loc → Option Val) (ss0 : SS) : Post := fun ctl e s _ =>
  match ctl with
  | .normal => QInv priv0 ss0 e s
  | .blocked | .fuel => True
  | _ => False

theorem wg_spec (trk : Bool) (master : Stmt) (MPre : (Loc → Option Val) → Prop) (hM : MasterSpec trk master MPre) :
    WaitGpSpec trk (wgT master) MPre := by
  intro fuel env inp ss wins hpre hpass
  have hnn : ∀ ctl e s w, ctl ≠ .normal → QPostN env.priv ss ctl e s w → QPostN env.priv ss ctl e s w := fun _ _ _ _ _ h => h
  refine Holds.call0 (Qb := QPostN env.priv ss) ?_ ?_ ?_ ?_ ?_ ?_
  · -- the body
    refine Holds.seq (Qa := QPostN env.priv ss) ?_ ?_ hnn
    · intro out ho; exec_simp_at ho []; subst ho
      simp [Ok_nil_iff, QPostN, QInv]
    intro e i s w hq
    refine Holds.seq (Qa := QPostN env.priv ss) ?_ ?_ hnn
    · refine (hM fuel e i s w (by rw [hq.1]; exact hpre)).mono ?_
      intro ctl e' s' w' h
      rcases h with ⟨rfl, rfl, rfl, hm⟩ | rfl | rfl
      · have hu : s.ls.upc = .p1 ∨ s.ls.upc = .p2 := by rw [hq.2.2.1]; exact hpass
        have : s'.ls = s.ls := by rcases hu with hp | hp <;> simpa [hp] using hm.2
        exact ⟨hq.1, by rw [hm.1]; exact hq.2.1, by rw [this]; exact hq.2.2.1, by rw [this]; exact hq.2.2.2⟩
      · trivial
      · trivial
    intro e i s w hq
    refine Holds.seq (Qa := QPostN env.priv ss) ?_ ?_ hnn
    · intro out ho
      obtain ⟨ls, pend⟩ := s
      cases i <;> exec_simp_at ho [wgUnlock] <;> subst ho <;> abs_simp [QPostN]
      exact hq
    intro e i s w hq
    refine Holds.seq (Qa := QPostN env.priv ss) ?_ ?_ hnn
    · simp only [exec]
      refine Holds.loop _ (fun e s _ => QInv env.priv ss e s) (QPost env.priv ss) (QPostN env.priv ss)
        (fun e i s w h => wgBody_holds trk fuel env.priv ss e i s w h) ?_ ?_ ?_ ?_ ?_ fuel e i s w hq
      · intro e s w h; exact h
      · intro e s w h; exact h
      · intro e s w h; exact h
      · intro ctl e s w h1 h2 h3 h; cases ctl <;> simp_all [QPost, QPostN]
      · intro e s w h; trivial
    intro e i s w hq
    refine Holds.seq (Qa := QPostN env.priv ss) ?_ ?_ hnn
    · intro out ho; exec_simp_at ho []; subst ho
      simp only [Ok_nil_iff, QPostN]; exact hq
    intro e i s w hq out ho
    obtain ⟨ls, pend⟩ := s
    obtain ⟨ls', hl1, hl2, hl3⟩ := lrun_env (w.head?.getD []) ls
    cases i <;> exec_simp_at ho [wgLock] <;> subst ho <;> abs_simp [QPostN, hl1]
    exact ⟨hq.1, hq.2.1, by rw [hl2]; exact hq.2.2.1, by rw [hl3]; exact hq.2.2.2⟩
  · intro e s w h
    obtain ⟨h1, h2, h3, h4⟩ := h
    refine Or.inl ⟨rfl, ?_, h2, h3, h4⟩
    cases env; simp_all
  · intro e s w h; exact h.elim
  · intro v e s w h; exact h.elim
  · intro e s w h; exact Or.inr (Or.inl rfl)
  · intro e s w h; exact Or.inr (Or.inr rfl)

theorem memb_wg_spec (trk : Bool) : WaitGpSpec trk «memb.wait_gp» MembPre := by
  rw [memb_wg_eq]; exact wg_spec trk _ _ (memb_master_spec trk)
theorem mb_wg_spec (trk : Bool) : WaitGpSpec trk «mb.wait_gp» (fun _ => True) := by
  rw [mb_wg_eq]; exact wg_spec trk _ _ (mb_master_spec trk)

/-! ## `wait_for_readers`: the generated values -/

def membCtx (hd : Loc) (csv gv : Val) (g : Bool) (upc : Gp.UPc) : Ctx :=
  { hd := hd, csv := csv, gv := gv, g := g, upc := upc, MPre := MembPre }
def mbCtx (hd : Loc) (csv gv : Val) (g : Bool) (upc : Gp.UPc) : Ctx :=
  { hd := hd, csv := csv, gv := gv, g := g, upc := upc, MPre := fun _ => True }

theorem mb_stable : MStable (fun _ => True) := fun _ _ _ _ _ => trivial

theorem memb_wfr_holds (trk fuel hd csv gv g upc env inp ss wins) (hP : WfrPre (membCtx hd csv gv g upc) env ss) :
    Holds trk (exec fuel «memb.wait_for_readers» env inp) ss wins (WfrPost (membCtx hd csv gv g upc)) := by
  rw [memb_wfr_eq]
  exact wfrT_holds trk fuel _ _ _ (membCtx hd csv gv g upc) (memb_master_spec trk) (memb_wg_spec trk) MembPre_stable
    env inp ss wins hP

theorem mb_wfr_holds (trk fuel hd csv gv g upc env inp ss wins) (hP : WfrPre (mbCtx hd csv gv g upc) env ss) :
    Holds trk (exec fuel «mb.wait_for_readers» env inp) ss wins (WfrPost (mbCtx hd csv gv g upc)) := by
  rw [mb_wfr_eq]
  exact wfrT_holds trk fuel _ _ _ (mbCtx hd csv gv g upc) (mb_master_spec trk) (mb_wg_spec trk) mb_stable
    env inp ss wins hP

end UrcuVerif.Src.Sync
