import UrcuVerif.Src.LfhtRefine
import UrcuVerif.Src.LfhtWalkLocal
/-!
# Generated source IR of the traversals of `src/rculfhash.c` ⊑ thread-local projection of L2 (`LfhtWalkLocal.lean`)
-/
namespace UrcuVerif.Src.LfhtWR
open UrcuVerif UrcuVerif.Src UrcuVerif.Lfht.Conc UrcuVerif.Src.LfhtW UrcuVerif.Src.LfhtR

/-- abstraction of the events of the traversals (one label per event; anything else is `bad`) -/
def absEv : Event → LLabel
  | .ld (.field (.obj p) f) v mo =>
    if f = "next" then (match decW v with | some w => .ldNext p w mo | none => .bad)
    else if f = "size" then (match v with | .int n => if 0 ≤ n then .ldSize n.toNat mo else .bad | _ => .bad)
    else .bad
  | .ext name args r =>
    if name = "bit_reverse_ulong" then
      (match args, r with
       | [.int a], .int h => if 0 ≤ a ∧ 0 ≤ h then .hashOf a.toNat h.toNat else .bad
       | _, _ => .bad)
    else if name = "(*bucket_at)" then
      (match args, r with
       | [_, _, .int idx], .ptr (.obj b) => if 0 ≤ idx then .bktAt idx.toNat b else .bad
       | _, _ => .bad)
    else if name = "match" then
      (match args, r with
       | [.ptr (.obj p), .int k], .int m => if 0 ≤ k then .matchKey p k.toNat (m != 0) else .bad
       | _, _ => .bad)
    else .bad
  | _ => .bad

/-- the access the thread performs next at `ls`, as a label, when the oracle delivers `v`; `none`: ill-typed value or a
failing assertion of the source (`wAssert`: `!is_bucket(node->next)`); `lSize`: `bit_reverse_ulong` is a function, its
result is L2's `rh` -/
def obsLabel (ls : LState) (v : Val) : Option LLabel :=
  let x := ls.x
  match ls.pend with
  | .size => (match v with
    | .int n => if 1 ≤ n then some (.ldSize n.toNat 2) else none
    | _ => none)
  | .bkt => (match v with
    | .ptr (.obj b) => if b ≠ 0 then some (.bktAt (x.hs &&& (x.sz - 1)) b) else none
    | _ => none)
  | .first b => (decW v).map fun w => .ldNext b w 1
  | .key _ => (match v with
    | .int m => some (.matchKey x.cur x.ky (m != 0))
    | _ => none)
  | .none =>
    match x.pc with
    | .lSize => (match v with
      | .int h => if h = x.rh then some (.hashOf x.hs x.rh) else none
      | _ => none)
    | .lHead => (decW v).map fun w => .ldNext x.bkt w 1
    | .fHead => (match v with
      | .ptr (.obj b) => if b ≠ 0 then some (.bktAt 0 b) else none
      | _ => none)
    | .wNext => (decW v).map fun w => .ldNext x.cur w 1
    | .wAssert => (decW v).bind fun w => if w.bkt then none else some (.ldNext x.cur w 0)
    | _ => none

def active (ls : LState) : Prop :=
  ls.pend ≠ .none ∨ ls.x.pc = .lSize ∨ ls.x.pc = .lHead ∨ ls.x.pc = .fHead ∨ ls.x.pc = .wNext ∨ ls.x.pc = .wAssert

def OracleOk (rev : Nat → Nat) : LState → List Val → Prop
  | _, [] => True
  | ls, v :: rest => active ls → ∃ l, obsLabel ls v = some l ∧ ∀ ls', lstep rev ls l = some ls' → OracleOk rev ls' rest

def lr (rev : Nat → Nat) (ls : LState) (evs : List Event) : Option LState := lrun rev ls (evs.map absEv)
theorem lr_nil (rev ls) : lr rev ls [] = some ls := rfl
theorem lr_append (rev ls a b) : lr rev ls (a ++ b) = (lr rev ls a).bind (fun m => lr rev m b) := by
  simp [lr, lrun_append]

/-- how a traversal ends: preempted, out of budget, or returned with the iterator `(n, w)` = L2's `Out.iter n w`,
stored by the source in `*iter` -/
def WalkDone (it : Nat) (out : Out) (ls' : LState) : Prop :=
  out.ctl = .blocked ∨ out.ctl = .fuel ∨
    ∃ n w, out.ctl = .normal ∧ ls'.out = .iter n w ∧ ls'.x.pc = .idle ∧ ls'.x.itn = n ∧ ls'.x.itx = w ∧ ls'.pend = .none ∧
      out.env.priv (.field (.obj it) "node") = some (encP n) ∧ out.env.priv (.field (.obj it) "next") = some (encW w)

/-- how the loop of a traversal ends: `break` with `node = next = NULL` (L2 has returned `iter 0 {}`), `break` on a
match (`node = cur`, `next` = the word loaded: L2 is at `wAssert`), or preempted -/
def WalkR (rev : Nat → Nat) (priv0 : Loc → Option Val) (it : Nat) (c : Ctl) (env : Env) (inp : List Val)
    (ls : LState) : Prop :=
  match c with
  | .brk => env.priv = priv0 ∧ env.vars "iter" = some (.ptr (.obj it)) ∧
      ((env.vars "node" = some (.int 0) ∧ env.vars "next" = some (.int 0) ∧
          ∃ x0 : Thr, x0.wk ≠ .dupAdd ∧ ls = ofPair (lwalkRet x0 0 {})) ∨
       (∃ n, n ≠ 0 ∧ env.vars "node" = some (.ptr (.obj n)) ∧ env.vars "next" = some (encW ls.x.wnx) ∧
          ls.x.pc = .wAssert ∧ ls.x.cur = n ∧ ls.pend = .none ∧ ls.x.wk ≠ .dupAdd ∧ OracleOk rev ls inp))
  | .blocked => True
  | _ => False

theorem lwalkRet_plain (x : Thr) (n : Nat) (w : W) (h : x.wk ≠ .dupAdd) :
    lwalkRet x n w = ({ x with pc := .idle, op := .none, itn := n, itx := w }, .iter n w) := by
  unfold lwalkRet; cases hwk : x.wk <;> simp_all

-- ----------------------------------------------------------------------------------------------------------
-- cds_lfht_lookup
-- ----------------------------------------------------------------------------------------------------------
def lkBody : Stmt := match firstLoop Gen.Src.«lfht.cds_lfht_lookup» with | some b => b | none => .skip
def lkPost : Stmt := seqTail 11 Gen.Src.«lfht.cds_lfht_lookup»

theorem lk_post (fuel : Nat) (rev : Nat → Nat) (priv0 : Loc → Option Val) (it : Nat)
    (env : Env) (inp : List Val) (ls : LState) (r : Except String Out)
    (hE : exec fuel lkPost env inp = r) (hR : WalkR rev priv0 it .brk env inp ls) :
    ∃ o, r = .ok o ∧ ∃ ls', lr rev ls o.events = some ls' ∧ WalkDone it o ls' := by
  subst hE
  obtain ⟨hpr, hit, hA | ⟨n, hn0, hnode, hnext, hpc, hcur, hpend, hwk, hO⟩⟩ := hR
  · obtain ⟨hnode, hnext, x0, hwk, rfl⟩ := hA
    lexec [lkPost, seqTail, Gen.Src.«lfht.cds_lfht_lookup»]
    refine ⟨_, lr_nil _ _, .inr (.inr ⟨0, {}, rfl, ?_⟩)⟩
    simp [ofPair, lwalkRet_plain _ _ _ hwk, encW, flagsOf]
  · rcases ls with ⟨x, pend, out⟩
    dsimp only at hnext hpc hcur hpend hwk; subst hpend; subst hcur
    cases inp with
    | nil =>
      lexec [lkPost, seqTail, Gen.Src.«lfht.cds_lfht_lookup»]
      exact ⟨_, lr_nil _ _, .inl rfl⟩
    | cons v rest =>
      obtain ⟨l, hl, -⟩ := hO (by simp [active, hpc])
      simp only [obsLabel, hpc] at hl
      cases hd : decW v with
      | none => simp [hd] at hl
      | some w =>
        have hv := encW_of_decW hd; subst hv
        simp only [decW_encW, Option.bind] at hl
        split at hl <;> cases hl
        rename_i hb
        lexec [lkPost, seqTail, Gen.Src.«lfht.cds_lfht_lookup», call_is_bucket, pureCall, bind1]
        simp [lr, lrun, absEv, lstep, hpc, ofPair, lwalkRet_plain _ _ _ hwk, WalkDone]
        exact ⟨_, _, ⟨rfl, rfl⟩, rfl, rfl, (encP_pos hn0).symm, rfl⟩

@[simp] theorem tagand_null_clear : evalBin .tagand (.int 0) (.int 18446744073709551608) = .ok (.int 0) := by
  simp [evalBin]

@[simp] theorem tagand_obj_clear (p : Nat) :
    evalBin .tagand (.ptr (.obj p)) (.int 18446744073709551608) = .ok (.ptr (.obj p)) := by
  simp [evalBin, Loc.tagOf, Loc.withTag, Loc.untag]

/-- invariant at the head of the loop of `cds_lfht_lookup` / `cds_lfht_next_duplicate`: `node = n`, and L2's thread
is where `walkPos … n` put it (L2 decides the two loop tests when `node` moves) -/
def WalkI (rev : Nat → Nat) (priv0 : Loc → Option Val) (it : Nat) (wk : WalkKind) (rh ky : Nat)
    (env : Env) (inp : List Val) (ls : LState) : Prop :=
  env.priv = priv0 ∧ env.vars "iter" = some (.ptr (.obj it)) ∧ env.vars "reverse_hash" = some (.int rh) ∧
    env.vars "key" = some (.int ky) ∧
    ∃ n x0, env.vars "node" = some (encP n) ∧ x0.wk = wk ∧ x0.rh = rh ∧ x0.ky = ky ∧
      ls = ofPair (lwalkPos rev x0 n) ∧ OracleOk rev ls inp

theorem lk_body (fuel : Nat) (rev : Nat → Nat) (priv0 : Loc → Option Val) (it rh ky : Nat)
    (hrev : RevView rev priv0) (env : Env) (inp : List Val) (ls : LState)
    (hI : WalkI rev priv0 it .lookup rh ky env inp ls) :
    ∃ o, exec fuel lkBody env inp = .ok o ∧ ∃ ls', lr rev ls o.events = some ls' ∧
      (if o.ctl.goesOn then WalkI rev priv0 it .lookup rh ky o.env o.inp ls' else WalkR rev priv0 it o.ctl o.env o.inp ls') := by
  obtain ⟨hpr, hit, hrh, hky, n, x0, hnode, hwk, hxrh, hxky, rfl, hO⟩ := hI
  have hwk' : x0.wk ≠ .dupAdd := by rw [hwk]; decide
  by_cases hn : n = 0
  · subst hn
    lexec [lkBody, firstLoop, Gen.Src.«lfht.cds_lfht_lookup», call_is_end, pureCall, bind1]
    refine ⟨_, lr_nil _ _, ?_⟩
    simp [Ctl.goesOn, WalkR, hit, hpr]
    exact ⟨x0, hwk', by simp [lwalkPos]⟩
  · have hrn := hrev _ hn
    by_cases hgt : rh < rev n
    · lexec [lkBody, firstLoop, Gen.Src.«lfht.cds_lfht_lookup», call_is_end, pureCall, bind1, encP_pos hn]
      refine ⟨_, lr_nil _ _, ?_⟩
      simp [Ctl.goesOn, WalkR, hit, hpr]
      exact ⟨x0, hwk', by simp [lwalkPos, hwk, hxrh, hgt]⟩
    · obtain ⟨x, hx⟩ : ∃ x : Thr, x = { x0 with cur := n, pc := .wNext } := ⟨_, rfl⟩
      have hpos : lwalkPos rev x0 n = (x, .unit) := by
        rw [hx]; simp [lwalkPos, hn, hxrh, hgt]
      have hxpc : x.pc = .wNext := by rw [hx]
      have hxcur : x.cur = n := by rw [hx]
      have hxwk : x.wk = .lookup := by rw [hx]; exact hwk
      have hxrh' : x.rh = rh := by rw [hx]; exact hxrh
      have hxky' : x.ky = ky := by rw [hx]; exact hxky
      rw [hpos] at hO ⊢
      clear hpos hx hwk hxrh hxky hwk' x0
      cases inp with
      | nil =>
        lexec [lkBody, firstLoop, Gen.Src.«lfht.cds_lfht_lookup», call_is_end, pureCall, bind1, encP_pos hn]
        exact ⟨_, lr_nil _ _, by simp [Ctl.goesOn, WalkR]⟩
      | cons v rest =>
        obtain ⟨l, hl, hrest⟩ := hO (by simp [active, ofPair, hxpc])
        simp only [obsLabel, ofPair, hxpc] at hl
        cases hd : decW v with
        | none => simp [hd] at hl
        | some w =>
          have hv := encW_of_decW hd; subst hv
          simp only [decW_encW, Option.map, hxcur] at hl
          cases hl
          -- the word is skipped without calling `match`
          have hskip : needsMatch rev x w = false →
              ∃ o, exec fuel lkBody env (encW w :: rest) = .ok o ∧ ∃ ls', lr rev (ofPair (x, .unit)) o.events = some ls' ∧
                (if o.ctl.goesOn then WalkI rev priv0 it .lookup rh ky o.env o.inp ls'
                 else WalkR rev priv0 it o.ctl o.env o.inp ls') := by
            intro hnm
            have hfn : foundNoMatch x w = false := by simp [foundNoMatch, hxwk]
            have hs1 : lstep rev (ofPair (x, .unit)) (.ldNext n w 1) =
                some (ofPair (lwalkPos rev { x with wnx := w } w.ptr)) := by
              simp [lstep, ofPair, hxpc, hxcur, hnm, hfn]
            have hO1 := hrest _ hs1
            have hfin : ∀ env' : Env, env'.priv = priv0 → env'.vars "iter" = some (.ptr (.obj it)) →
                env'.vars "reverse_hash" = some (.int rh) → env'.vars "key" = some (.int ky) →
                env'.vars "node" = some (encP w.ptr) →
                ∃ ls', lr rev (ofPair (x, .unit)) [Event.ld ((Loc.obj n).field "next") (encW w) 1] = some ls' ∧
                  WalkI rev priv0 it .lookup rh ky env' rest ls' := by
              intro env' h1 h2 h3 h4 h5
              refine ⟨_, by simp [lr, lrun, absEv, hs1], h1, h2, h3, h4, w.ptr, { x with wnx := w }, h5, hxwk, hxrh', hxky', rfl, hO1⟩
            simp only [needsMatch, hxwk, hxcur, hxrh'] at hnm
            by_cases hr : w.rem = true <;> by_cases hb : w.bkt = true <;> by_cases he : rev n = rh <;>
              (try simp [hr, hb, he] at hnm) <;>
              lexec [lkBody, firstLoop, Gen.Src.«lfht.cds_lfht_lookup», call_is_end, call_clear_flag, call_is_removed,
                call_is_bucket, pureCall, bind1, encP_pos hn, Int.natCast_inj] <;>
              (refine hfin _ ?_ ?_ ?_ ?_ ?_ <;> first | rfl | simp [hpr, hit, hrh, hky])
          by_cases hnm0 : needsMatch rev x w = false
          · exact hskip hnm0
          have hnm : needsMatch rev x w = true := by simpa using hnm0
          have hnm' := hnm
          simp [needsMatch, hxwk, hxcur, hxrh'] at hnm'
          obtain ⟨⟨hr, hb⟩, he⟩ := hnm'
          have hs1 : lstep rev (ofPair (x, .unit)) (.ldNext n w 1) = some { x := x, pend := .key w, out := .unit } := by
            simp [lstep, ofPair, hxpc, hxcur, hnm]
          have hO1 := hrest _ hs1
          cases rest with
          | nil =>
            lexec [lkBody, firstLoop, Gen.Src.«lfht.cds_lfht_lookup», call_is_end, call_clear_flag, call_is_removed,
              call_is_bucket, pureCall, bind1, encP_pos hn, Int.natCast_inj]
            simp [lr, lrun, absEv, hs1, Ctl.goesOn, WalkR]
          | cons v2 rest =>
            obtain ⟨l, hl, hrest2⟩ := hO1 (by simp [active])
            simp only [obsLabel] at hl
            cases v2 with
            | ptr _ => simp at hl
            | int m =>
              simp only [Option.some.injEq, hxcur, hxky'] at hl
              subst hl
              by_cases hm0 : m = 0
              · subst hm0
                have hs2 : lstep rev { x := x, pend := .key w, out := .unit } (.matchKey n ky false) =
                    some (ofPair (lwalkPos rev { x with wnx := w } w.ptr)) := by
                  simp [lstep, hxcur, hxky']
                have hO2 := hrest2 _ hs2
                lexec [lkBody, firstLoop, Gen.Src.«lfht.cds_lfht_lookup», call_is_end, call_clear_flag, call_is_removed,
                  call_is_bucket, pureCall, bind1, encP_pos hn, Int.natCast_inj]
                refine ⟨ofPair (lwalkPos rev { x with wnx := w } w.ptr), by simp [lr, lrun, absEv, hs1, hs2], ?_⟩
                simp only [Ctl.goesOn, if_true]
                exact ⟨by simp [hpr], by simp [hit], by simp [hrh], by simp [hky], w.ptr, { x with wnx := w }, by simp,
                  hxwk, hxrh', hxky', rfl, hO2⟩
              · have hmb : (m != 0) = true := by simpa using hm0
                rw [hmb] at hrest2
                have hs2 : lstep rev { x := x, pend := .key w, out := .unit } (.matchKey n ky true) =
                    some { x := { x with wnx := w, pc := .wAssert }, pend := .none, out := .unit } := by
                  simp [lstep, hxcur, hxky']
                have hO2 := hrest2 _ hs2
                lexec [lkBody, firstLoop, Gen.Src.«lfht.cds_lfht_lookup», call_is_end, call_clear_flag, call_is_removed,
                  call_is_bucket, pureCall, bind1, encP_pos hn, Int.natCast_inj]
                refine ⟨{ x := { x with wnx := w, pc := .wAssert }, pend := .none, out := .unit },
                  by simp [lr, lrun, absEv, hs1, hs2, hmb], ?_⟩
                simp only [Ctl.goesOn, WalkR]
                refine ⟨by simp [hpr], by simp [hit], .inr ⟨n, hn, by simp [hnode, encP_pos hn], by simp, ?_, ?_, ?_, ?_, hO2⟩⟩
                · trivial
                · exact hxcur
                · trivial
                · simp [hxwk]

theorem lk_loop (fuel : Nat) (rev : Nat → Nat) (priv0 : Loc → Option Val) (it rh ky : Nat)
    (hrev : RevView rev priv0) (env : Env) (inp : List Val) (ls : LState) (r : Except String Out)
    (hE : iterate (exec fuel lkBody) fuel env inp [] = r) (hI : WalkI rev priv0 it .lookup rh ky env inp ls) :
    ∃ out, r = .ok out ∧ ∃ ls', lr rev ls out.events = some ls' ∧
      (out.ctl = .fuel ∨ ∃ c, c.goesOn = false ∧ WalkR rev priv0 it c out.env out.inp ls' ∧ out.ctl = c.afterLoop) := by
  obtain ⟨out, hout, evs, ls', hev, hl, hfin⟩ :=
    iterate_inv (lr rev) (lr_nil rev) (lr_append rev) (exec fuel lkBody) (WalkI rev priv0 it .lookup rh ky)
      (WalkR rev priv0 it) (lk_body fuel rev priv0 it rh ky hrev) fuel env inp ls [] hI
  refine ⟨out, by rw [← hE, hout], ls', ?_, hfin⟩
  rw [hev]; simpa using hl

/-- **`cds_lfht_lookup(ht, hash, match, key, iter)`** from L2's state after `callLookup` (pc `lSize`) -/
theorem lookup_exec (fuel : Nat) (rev : Nat → Nat) (env : Env) (inp : List Val) (x : Thr) (o0 : Lfht.Conc.Out)
    (ht it : Nat) (fp : Val)
    (hht : env.vars "ht" = some (.ptr (.obj ht))) (hhash : env.vars "hash" = some (.int x.hs))
    (hkey : env.vars "key" = some (.int x.ky)) (hiter : env.vars "iter" = some (.ptr (.obj it)))
    (hfp : env.priv (.field (.obj ht) "bucket_at") = some fp) (hrev : RevView rev env.priv)
    (hpc : x.pc = .lSize) (hwk : x.wk = .lookup)
    (hO : OracleOk rev { x := x, pend := .none, out := o0 } inp) :
    ∃ out, exec fuel Gen.Src.«lfht.cds_lfht_lookup» env inp = .ok out ∧
      ∃ ls', lr rev { x := x, pend := .none, out := o0 } out.events = some ls' ∧ WalkDone it out ls' := by
  have hshape : Gen.Src.«lfht.cds_lfht_lookup» =
      .seq _ (.seq _ (.seq _ (.seq _ (.seq _ (.seq _ (.seq _ (.seq _ (.seq _ (.seq _
        (.seq (.loop lkBody) lkPost)))))))))) := rfl
  rw [hshape]
  cases inp with
  | nil =>
    lexec
    exact ⟨_, lr_nil _ _, .inl rfl⟩
  | cons v1 rest =>
    obtain ⟨l, hl, hrest⟩ := hO (by simp [active, hpc])
    simp only [obsLabel, hpc] at hl
    cases v1 with
    | ptr _ => simp at hl
    | int h =>
      simp only [Option.ite_none_right_eq_some, Option.some.injEq] at hl
      obtain ⟨rfl, rfl⟩ := hl
      have hs1 : lstep rev { x := x, pend := .none, out := o0 } (.hashOf x.hs x.rh) =
          some { x := x, pend := .size, out := o0 } := by simp [lstep, hpc]
      have hO1 := hrest _ hs1
      cases rest with
      | nil =>
        lexec
        simp [lr, lrun, absEv, hs1, WalkDone]
      | cons v2 rest =>
        obtain ⟨l, hl, hrest⟩ := hO1 (by simp [active])
        simp only [obsLabel] at hl
        cases v2 with
        | ptr _ => simp at hl
        | int n =>
          simp only [Option.ite_none_right_eq_some, Option.some.injEq] at hl
          obtain ⟨hn1, rfl⟩ := hl
          have hs2 : lstep rev { x := x, pend := .size, out := o0 } (.ldSize n.toNat 2) =
              some { x := { x with sz := n.toNat, pc := .lHead }, pend := .bkt, out := .unit } := by simp [lstep]
          have hO2 := hrest _ hs2
          have hn0 : 0 ≤ n := by omega
          have hcast : (n - 1).toNat = n.toNat - 1 := by omega
          cases rest with
          | nil =>
            lexec [exec_call, Gen.Src.«lfht.lookup_bucket», Gen.Src.«lfht.bucket_at»]
            simp [lr, lrun, absEv, hs1, hs2, hn0, WalkDone]
          | cons v3 rest =>
            obtain ⟨l, hl, hrest⟩ := hO2 (by simp [active])
            simp only [obsLabel] at hl
            cases v3 with
            | int _ => simp at hl
            | ptr lo =>
              cases lo with
              | obj b =>
                simp only [Option.ite_none_right_eq_some, Option.some.injEq] at hl
                obtain ⟨hb0, rfl⟩ := hl
                obtain ⟨x3, hx3⟩ : ∃ x3 : Thr, x3 = { x with sz := n.toNat, pc := .lHead, bkt := b } := ⟨_, rfl⟩
                have hs3 : lstep rev { x := { x with sz := n.toNat, pc := .lHead }, pend := .bkt, out := .unit }
                    (.bktAt (x.hs &&& (n.toNat - 1)) b) = some { x := x3, pend := .none, out := .unit } := by
                  rw [hx3]; simp [lstep]
                have hO3 := hrest _ hs3
                have h3pc : x3.pc = .lHead := by rw [hx3]
                have h3bkt : x3.bkt = b := by rw [hx3]
                have h3wk : x3.wk = .lookup := by rw [hx3]; exact hwk
                have h3rh : x3.rh = x.rh := by rw [hx3]
                have h3ky : x3.ky = x.ky := by rw [hx3]
                cases rest with
                | nil =>
                  lexec [exec_call, Gen.Src.«lfht.lookup_bucket», Gen.Src.«lfht.bucket_at»]
                  simp [lr, lrun, absEv, hs1, hs2, hs3, hn0, hcast, WalkDone]
                | cons v4 rest =>
                  obtain ⟨l, hl, hrest⟩ := hO3 (by simp [active, h3pc])
                  simp only [obsLabel, h3pc] at hl
                  cases hd : decW v4 with
                  | none => simp [hd] at hl
                  | some w =>
                    have hv := encW_of_decW hd; subst hv
                    simp only [decW_encW, Option.map, h3bkt] at hl
                    cases hl
                    have hs4 : lstep rev { x := x3, pend := .none, out := .unit } (.ldNext b w 1) =
                        some (ofPair (lwalkPos rev x3 w.ptr)) := by simp [lstep, h3pc, h3bkt]
                    have hO4 := hrest _ hs4
                    have hlr4 : ∀ evs, lr rev { x := x, pend := .none, out := o0 }
                        (Event.ext "bit_reverse_ulong" [Val.int x.hs] (Val.int x.rh) ::
                          Event.ld ((Loc.obj ht).field "size") (Val.int n) 2 ::
                          Event.ext "(*bucket_at)" [fp, Val.ptr (Loc.obj ht), Val.int ((x.hs &&& (n.toNat - 1) : Nat) : Int)]
                            (Val.ptr (Loc.obj b)) ::
                          Event.ld ((Loc.obj b).field "next") (encW w) 1 :: evs) =
                        lr rev (ofPair (lwalkPos rev x3 w.ptr)) evs := by
                      intro evs; simp [lr, lrun, absEv, hs1, hs2, hs3, hs4, hn0]
                    lexec [exec_call, Gen.Src.«lfht.lookup_bucket», Gen.Src.«lfht.bucket_at», Gen.Src.«lfht.clear_flag»]
                    generalize hE : iterate (exec fuel lkBody) fuel _ rest [] = r
                    obtain ⟨o1, rfl, ls1, hl1, hfin⟩ := lk_loop fuel rev env.priv it x.rh x.ky hrev _ rest
                      (ofPair (lwalkPos rev x3 w.ptr)) r hE
                      ⟨rfl, by simp [hiter], by simp, by simp [hkey], w.ptr, x3, by simp, h3wk, h3rh, h3ky, rfl, hO4⟩
                    rcases o1 with ⟨ev1, env1, inp1, ctl1⟩
                    rcases hfin with hf | ⟨c, hc, hR, hctl⟩
                    · dsimp only at hf; subst hf
                      simp [hlr4, WalkDone]; exact ⟨ls1, hl1⟩
                    · dsimp only at hctl hR hl1
                      cases c <;> simp [Ctl.goesOn] at hc <;> simp only [Ctl.afterLoop] at hctl <;> subst hctl
                      · -- break
                        dsimp only
                        generalize hE2 : exec fuel lkPost env1 inp1 = r2
                        obtain ⟨o2, rfl, ls2, hl2, hdone⟩ := lk_post fuel rev env.priv it env1 inp1 ls1 r2 hE2 hR
                        rcases o2 with ⟨ev2, env2, inp2, ctl2⟩
                        simp [hlr4, lr_append]
                        refine ⟨ls2, ?_, by simpa [WalkDone] using hdone⟩
                        exact (congrArg (fun o => o.bind fun m => lr rev m ev2) hl1).trans hl2
                      · simp [WalkR] at hR
                      · simp [hlr4, WalkDone]; exact ⟨ls1, hl1⟩
                      · simp [WalkR] at hR
              | _ => simp at hl

end UrcuVerif.Src.LfhtWR
