import UrcuVerif.Src.WqSplice
/-!
# `workqueue_thread()`: the tail of the loop body – the STOP test (statements 8–9 of the generated loop body)

`if (uatomic_load(&workqueue->flags, CMM_RELAXED) & URCU_WORKQUEUE_STOP) break;` in the partial-correctness logic of
`Src/WqWorker.lean` (`Triple`), from L2's `stopchk` (where `workqueue_thread_iteration_refines` ends): L2's `wStopChk` –
`break` to `exitSt` (`dead` for a real-time worker) when STOP is set, else on to the emptiness check (`emptychk`, `rtchk`).
Only the temporary that receives the flags word changes in the environment.
(Not done: the emptiness check / `futex_wait` / `poll` part of the tail and the composition of the whole loop.)
-/
set_option linter.unusedSimpArgs false
set_option linter.unusedVariables false
set_option maxRecDepth 8192
namespace UrcuVerif.Src.WqR
open UrcuVerif UrcuVerif.Src UrcuVerif.Wq WqL

/-- the STOP test of the main loop -/
def wStop : Stmt := .seq (seqNth 8 wBody) (seqNth 9 wBody)

theorem stop_triple (L : Layout) (fuel : Nat) (cnt : Nat) (rt : Bool) (env0 : Env)
    (hw : env0.vars "workqueue" = some (.ptr L.W)) :
    Triple L fuel wStop (fun e l => e = env0 ∧ l = ⟨.at .stopchk, cnt, rt⟩)
      (fun c e l => e.priv = env0.priv ∧ e.vars "workqueue" = env0.vars "workqueue" ∧ e.vars "rt" = env0.vars "rt" ∧
        ((c = .blocked ∧ l = ⟨.at .stopchk, cnt, rt⟩) ∨
         (c = .brk ∧ l = ⟨.at (if rt = true then .dead else .exitSt), cnt, rt⟩) ∨
         (c = .normal ∧ l = ⟨.at (if rt = true then .rtchk else .emptychk), cnt, rt⟩))) := by
  rw [show wStop = Stmt.seq (.prim _ .uload [.fieldAddr (.var "workqueue") "flags", _])
    (.ifte (.bin .band _ (.cst "URCU_WORKQUEUE_STOP" 2)) .brk .skip) from rfl]
  intro env inp ls o ⟨he, hl⟩ hE hok
  subst he; subst hl
  cases inp with
  | nil =>
    wexec_at hE [hw]; subst hE
    exact ⟨_, wlr_nil L _, rfl, rfl, rfl, .inl ⟨rfl, rfl⟩⟩
  | cons v rest =>
    cases v with
    | ptr p => wexec_at hE [hw, evalBin]
    | int n =>
      by_cases hn : 0 ≤ n
      · obtain ⟨k, rfl⟩ : ∃ k : Nat, n = (k : Int) := ⟨n.toNat, by omega⟩
        by_cases hb : bit k 2 = true
        · wexec_at hE [hw, hb]; subst hE
          refine ⟨_, by simp [wlr_cons, wlr_nil, absEvW, wstep, hb], rfl, ?_, ?_, .inr (.inl ⟨rfl, rfl⟩)⟩ <;> simp
        · wexec_at hE [hw, hb]; subst hE
          refine ⟨_, by simp [wlr_cons, wlr_nil, absEvW, wstep, hb], rfl, ?_, ?_, .inr (.inr ⟨rfl, rfl⟩)⟩ <;> simp
      · wexec_at hE [hw, evalBin, hn]

end UrcuVerif.Src.WqR
