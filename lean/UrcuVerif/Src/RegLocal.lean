import UrcuVerif.Src.ReadLocal
import UrcuVerif.Src.ReadQsbrLocal
/-!
# Registration (C15): thread-local projection of L2 for `rcu_register_thread` / `rcu_unregister_thread`

L2 (`Gp/Flip.lean`, `Gp/Qsbr.lean`) has ONE atomic label per call: `reg i` / `unreg i`.  The C functions are a small
protocol around it (`pthread_self`, `mutex_lock(&rcu_registry_lock)`, `rcu_init`, the list operation,
`mutex_unlock`).  The local automaton of the calling thread is therefore the *product* of

* a protocol skeleton `pcStep` on `Pc` (not part of L2: it only says WHERE in the call the thread is and whether it
  holds `rcu_registry_lock` – `Pc.holdsLock`), and
* the thread-local projection of L2 that the read side already uses (`Read.LState` / `Read.lstep` for Flip,
  `ReadQsbr.QState` / `ReadQsbr.qstep` for QSBR), the *inner* automaton,

generic in the inner automaton (`istep`, its `reg` / `unreg` labels).  `RLabel`: the accesses of the protocol
(`listAdd` = `cds_list_add(&reader.node, &registry)`, `listDel` = `cds_list_del(&reader.node)` …) plus `q l` = a label of
the inner automaton performed outside the protocol (QSBR: the `thread_online` / `thread_offline` part of the call).
`toL2`: `listAdd ↦ reg`, `listDel ↦ unreg`, `q l ↦ l`; `self`, `lock`, `initEv`, `unlock` have no L2 counterpart (L2 is
untouched by them: `rstep_silent`).

Facts proved here:

* `rstep_toL2` / `rstep_silent`   an accepted label moves the inner state by `istep` on its L2 label / not at all;
* `rstep_holdsLock`               **bracket**: the L2 labels `reg` / `unreg` are only accepted at a pc that holds the
                                  registry lock, and stay under it; `holdsLock` changes only at `lock` / `unlock`;
                                  an inner label `q l` is never `reg` / `unreg` and only accepted when the lock is not held;
* `flip_proj_step / _enabled / _frame`, `qsbr_proj_step / _enabled / _frame`
                                  the projection lemmas against the REAL `Gp.step` / `Qsbr.step`: an L2 step with a label
                                  of thread `i` moves `(pc, proj s i)` by `rstep` (given the skeleton allows it), conversely an
                                  accepted `rstep` plus `i < c.n` and the non-local guard gives the L2 step; L2 steps not
                                  owned by thread `i` (other threads', the updater's, `flush j` / `forced j` for every `j`,
                                  ghost) leave `(pc, proj s i)` unchanged (the pc is not an L2 component at all).
-/
namespace UrcuVerif.Src.Reg
open UrcuVerif

/-- where the thread is in `register` (`r…`) / `unregister` (`u…`) -/
inductive Pc
  | idle       -- outside the protocol (before the call, after it, QSBR: during online / offline)
  | rSelf      -- `tid = pthread_self()` done
  | rLocked    -- `mutex_lock(&rcu_registry_lock)` returned (`registered = 1`, `rcu_init()` happen here)
  | rAdded     -- `cds_list_add(&reader.node, &registry)` done
  | uLocked    -- unregister: lock taken
  | uDeleted   -- `cds_list_del(&reader.node)` done
  deriving DecidableEq, Repr

def Pc.holdsLock : Pc → Bool
  | .rLocked | .rAdded | .uLocked | .uDeleted => true
  | _ => false

structure PState (σ : Type) where
  pc : Pc
  inner : σ
  deriving DecidableEq, Repr

inductive RLabel (L : Type)
  | self | lock | initEv | listAdd | listDel | unlock
  | q (l : L)
  | bad          -- a protocol access with other arguments (another lock, another list …): never accepted
  deriving DecidableEq, Repr

section generic
variable {σ L : Type} [DecidableEq L]

/-- the L2 label of the thread an access stands for -/
def RLabel.toL2 (regL unregL : L) : RLabel L → Option L
  | .listAdd => some regL
  | .listDel => some unregL
  | .q l => some l
  | _ => none

/-- protocol skeleton -/
def pcStep (regL unregL : L) (pc : Pc) (l : RLabel L) : Option Pc :=
  match pc with
  | .idle =>
    (match l with
      | .self => some .rSelf
      | .lock => some .uLocked
      | .q x => if x = regL ∨ x = unregL then none else some .idle
      | _ => none)
  | .rSelf => (match l with | .lock => some .rLocked | _ => none)
  | .rLocked => (match l with | .initEv => some .rLocked | .listAdd => some .rAdded | _ => none)
  | .rAdded => (match l with | .unlock => some .idle | _ => none)
  | .uLocked => (match l with | .listDel => some .uDeleted | _ => none)
  | .uDeleted => (match l with | .unlock => some .idle | _ => none)

/-- local automaton = skeleton × inner automaton -/
def rstep (istep : σ → L → Option σ) (regL unregL : L) (s : PState σ) (l : RLabel L) : Option (PState σ) :=
  match pcStep regL unregL s.pc l with
  | none => none
  | some pc' =>
    match l.toL2 regL unregL with
    | none => some ⟨pc', s.inner⟩
    | some l2 =>
      match istep s.inner l2 with
      | some i' => some ⟨pc', i'⟩
      | none => none

def rrun (istep : σ → L → Option σ) (regL unregL : L) : PState σ → List (RLabel L) → Option (PState σ)
  | s, [] => some s
  | s, l :: ls => match rstep istep regL unregL s l with
    | some n => rrun istep regL unregL n ls
    | none => none

theorem rrun_append (istep : σ → L → Option σ) (regL unregL : L) : ∀ (a b : List (RLabel L)) (s : PState σ),
    rrun istep regL unregL s (a ++ b) = (rrun istep regL unregL s a).bind (fun m => rrun istep regL unregL m b) := by
  intro a
  induction a with
  | nil => intro b s; rfl
  | cons x a ih =>
    intro b s
    simp only [List.cons_append, rrun]
    cases rstep istep regL unregL s x with
    | none => rfl
    | some n => exact ih b n

/-- an accepted label with an L2 counterpart moves the inner state by the inner automaton on that L2 label -/
theorem rstep_toL2 (istep : σ → L → Option σ) (regL unregL : L) (s s' : PState σ) (l : RLabel L) (l2 : L)
    (h : rstep istep regL unregL s l = some s') (h2 : l.toL2 regL unregL = some l2) :
    istep s.inner l2 = some s'.inner ∧ pcStep regL unregL s.pc l = some s'.pc := by
  unfold rstep at h
  cases hp : pcStep regL unregL s.pc l with
  | none => simp [hp] at h
  | some pc' =>
    simp only [hp, h2] at h
    cases hi : istep s.inner l2 with
    | none => simp [hi] at h
    | some i' => simp only [hi, Option.some.injEq] at h; subst h; exact ⟨rfl, rfl⟩

/-- an accepted label without L2 counterpart leaves the inner state (hence L2) alone -/
theorem rstep_silent (istep : σ → L → Option σ) (regL unregL : L) (s s' : PState σ) (l : RLabel L)
    (h : rstep istep regL unregL s l = some s') (h2 : l.toL2 regL unregL = none) :
    s'.inner = s.inner ∧ pcStep regL unregL s.pc l = some s'.pc := by
  unfold rstep at h
  cases hp : pcStep regL unregL s.pc l with
  | none => simp [hp] at h
  | some pc' => simp only [hp, h2, Option.some.injEq] at h; subst h; exact ⟨rfl, rfl⟩

/-- **bracket shape**: `reg` / `unreg` happen at, and only at, `listAdd` / `listDel`, with `rcu_registry_lock` held before
and after; the lock is taken by `lock` only, released by `unlock` only; inner labels run without the lock -/
theorem rstep_holdsLock (istep : σ → L → Option σ) (regL unregL : L) (s s' : PState σ) (l : RLabel L)
    (h : rstep istep regL unregL s l = some s') :
    ((l.toL2 regL unregL = some regL ∨ l.toL2 regL unregL = some unregL) →
        (l = .listAdd ∨ l = .listDel) ∧ s.pc.holdsLock = true ∧ s'.pc.holdsLock = true) ∧
    (s.pc.holdsLock = false → s'.pc.holdsLock = true → l = .lock) ∧
    (s.pc.holdsLock = true → s'.pc.holdsLock = false → l = .unlock) ∧
    (∀ x, l = .q x → s.pc = .idle ∧ s'.pc = .idle) := by
  have hp : pcStep regL unregL s.pc l = some s'.pc := by
    cases h2 : l.toL2 regL unregL with
    | none => exact (rstep_silent istep regL unregL s s' l h h2).2
    | some l2 => exact (rstep_toL2 istep regL unregL s s' l l2 h h2).2
  rcases s with ⟨pc, i⟩
  rcases s' with ⟨pc', i'⟩
  simp only at hp
  cases pc <;> cases l <;> simp only [pcStep] at hp <;>
    first
    | (simp at hp; done)
    | (split at hp <;> simp at hp <;> subst hp <;> simp_all [RLabel.toL2, Pc.holdsLock] <;> grind)
    | (simp at hp; subst hp; simp [RLabel.toL2, Pc.holdsLock])

end generic

/-! ## Flip (memb / mb): `Gp.step` -/

abbrev MState := PState Read.LState
abbrev MLabel := RLabel Read.LLabel
def mstep (sf : Bool) : MState → MLabel → Option MState := rstep (Read.lstep sf) .reg .unreg
def mrun (sf : Bool) : MState → List MLabel → Option MState := rrun (Read.lstep sf) .reg .unreg
def MLabel.toL2 (l : MLabel) : Option Read.LLabel := RLabel.toL2 .reg .unreg l
def mproj (s : Gp.State) (i : Nat) (pc : Pc) : MState := ⟨pc, Read.proj s i⟩

/-- an L2 step of thread `i` (for `listAdd`: `Gp.step c s (.reg i)`, for `listDel`: `Gp.step c s (.unreg i)`) moves the
projection by `mstep`, provided the protocol skeleton is at a pc that performs this access -/
theorem flip_proj_step (c : Gp.Cfg) (s s' : Gp.State) (i : Nat) (pc pc' : Pc) (l : MLabel) (l2 : Read.LLabel)
    (h2 : l.toL2 = some l2) (hp : pcStep .reg .unreg pc l = some pc')
    (st : Gp.step c s (l2.toL2 i) = some s') (ho : Read.Obs c s s' i l2) :
    mstep c.slaveFence (mproj s i pc) l = some (mproj s' i pc') := by
  have := Read.proj_step c s s' i l2 st ho
  simp only [mstep, rstep, mproj, hp]
  simp only [MLabel.toL2] at h2
  simp only [h2, this]

/-- a label without L2 counterpart: no L2 step, the projection of the SAME global state moves by the skeleton only -/
theorem flip_proj_silent (sf : Bool) (s : Gp.State) (i : Nat) (pc : Pc) (l : MLabel) (h2 : l.toL2 = none) :
    mstep sf (mproj s i pc) l = (pcStep .reg .unreg pc l).map (fun pc' => mproj s i pc') := by
  simp only [MLabel.toL2] at h2
  simp only [mstep, rstep, mproj, h2]
  cases pcStep Read.LLabel.reg Read.LLabel.unreg pc l <;> rfl

theorem flip_proj_enabled (c : Gp.Cfg) (s : Gp.State) (i : Nat) (pc : Pc) (l : MLabel) (l2 : Read.LLabel) (ls' : MState)
    (h2 : l.toL2 = some l2) (hl : mstep c.slaveFence (mproj s i pc) l = some ls') (hi : i < c.n)
    (hg : Read.Guard c s i l2) :
    ∃ s', Gp.step c s (l2.toL2 i) = some s' ∧ ls' = mproj s' i ls'.pc ∧ Read.Obs c s s' i l2 := by
  obtain ⟨h3, _⟩ := rstep_toL2 (Read.lstep c.slaveFence) .reg .unreg _ _ l l2 hl h2
  obtain ⟨s', hs, hpj, hobs⟩ := Read.proj_enabled c s i l2 ls'.inner h3 hi hg
  refine ⟨s', hs, ?_, hobs⟩
  rcases ls' with ⟨p, x⟩
  simp only [mproj, hpj]

/-- environment steps (labels not owned by thread `i`: other threads, the updater, `flush j`, `forced j` for every `j`,
`setY`) do not move the projection; the pc is not part of the L2 state -/
theorem flip_proj_frame (c : Gp.Cfg) (s s' : Gp.State) (i : Nat) (pc : Pc) (l : Gp.Label)
    (st : Gp.step c s l = some s') (ho : Read.owner l ≠ some i) : mproj s' i pc = mproj s i pc := by
  simp only [mproj, Read.proj_frame c s s' i l st ho]

/-! ## QSBR: `Qsbr.step` -/

abbrev QPState := PState ReadQsbr.QState
abbrev QRLabel := RLabel ReadQsbr.QLabel
def qrstep : QPState → QRLabel → Option QPState := rstep ReadQsbr.qstep .reg .unreg
def qrrun : QPState → List QRLabel → Option QPState := rrun ReadQsbr.qstep .reg .unreg
def QRLabel.toL2 (l : QRLabel) : Option ReadQsbr.QLabel := RLabel.toL2 .reg .unreg l
def qproj (s : Qsbr.State) (i : Nat) (pc : Pc) : QPState := ⟨pc, ReadQsbr.projQ s i⟩

theorem qsbr_proj_step (c : Qsbr.Cfg) (s s' : Qsbr.State) (i : Nat) (pc pc' : Pc) (l : QRLabel) (l2 : ReadQsbr.QLabel)
    (h2 : l.toL2 = some l2) (hp : pcStep .reg .unreg pc l = some pc')
    (st : Qsbr.step c s (l2.toL2 i) = some s') (ho : ReadQsbr.ObsQ s s' i l2) :
    qrstep (qproj s i pc) l = some (qproj s' i pc') := by
  have := ReadQsbr.projQ_step c s s' i l2 st ho
  simp only [qrstep, rstep, qproj, hp]
  simp only [QRLabel.toL2] at h2
  simp only [h2, this]

theorem qsbr_proj_silent (s : Qsbr.State) (i : Nat) (pc : Pc) (l : QRLabel) (h2 : l.toL2 = none) :
    qrstep (qproj s i pc) l = (pcStep .reg .unreg pc l).map (fun pc' => qproj s i pc') := by
  simp only [QRLabel.toL2] at h2
  simp only [qrstep, rstep, qproj, h2]
  cases pcStep ReadQsbr.QLabel.reg ReadQsbr.QLabel.unreg pc l <;> rfl

theorem qsbr_proj_enabled (c : Qsbr.Cfg) (s : Qsbr.State) (i : Nat) (pc : Pc) (l : QRLabel) (l2 : ReadQsbr.QLabel)
    (ls' : QPState) (h2 : l.toL2 = some l2) (hl : qrstep (qproj s i pc) l = some ls') (hi : i < c.n)
    (hg : ReadQsbr.GuardQ s i l2) :
    ∃ s', Qsbr.step c s (l2.toL2 i) = some s' ∧ ls' = qproj s' i ls'.pc ∧ ReadQsbr.ObsQ s s' i l2 := by
  obtain ⟨h3, _⟩ := rstep_toL2 ReadQsbr.qstep .reg .unreg _ _ l l2 hl h2
  obtain ⟨s', hs, hpj, hobs⟩ := ReadQsbr.projQ_enabled c s i l2 ls'.inner h3 hi hg
  refine ⟨s', hs, ?_, hobs⟩
  rcases ls' with ⟨p, x⟩
  simp only [qproj, hpj]

theorem qsbr_proj_frame (c : Qsbr.Cfg) (s s' : Qsbr.State) (i : Nat) (pc : Pc) (l : Qsbr.Label)
    (st : Qsbr.step c s l = some s') (ho : ReadQsbr.ownerQ l ≠ some i) : qproj s' i pc = qproj s i pc := by
  simp only [qproj, ReadQsbr.projQ_frame c s s' i l st ho]

end UrcuVerif.Src.Reg
