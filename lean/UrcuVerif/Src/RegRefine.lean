import UrcuVerif.Gen.Src
import UrcuVerif.Src.StackExec
import UrcuVerif.Src.RegLocal
import UrcuVerif.Src.ReadQsbrRefine
/-!
# Generated source IR of `rcu_register_thread` / `rcu_unregister_thread` (memb, qsbr) ⊑ local projection of L2

Abstraction `absEvP` (protocol accesses, by name AND arguments): `pthread_self()` ↦ `self`; `mutex_lock / mutex_unlock
(&rcu_registry_lock)` ↦ `lock` / `unlock`; `cds_list_add(&reader.node, &registry)` ↦ `listAdd` (L2's `reg`);
`cds_list_del(&reader.node)` ↦ `listDel` (L2's `unreg`); `membarrier`, `errno`, `urcu_die` (from `rcu_init`) ↦ `initEv`; the
same calls with other arguments ↦ `bad` (never accepted).  Everything else goes to the inner abstraction `iabs` (memb: rejects
everything; qsbr: `ReadQsbr.absEvQ`, accepted only at pc `idle`).  `absRunR` abstracts event by event (the inner abstraction
looks at the current local state) and runs `rrun`; `absRunR_rrun`: the labels it returns are a run of the local automaton.
Side conditions: see `Props/SrcReg.lean`.  memb `register` is proved for `init_done ≠ 0` (constructor ran: `rcu_init()` returns
at once); the first-call path of `rcu_init` (events `initEv` under the lock) is accepted by the automaton but its refinement
theorem is not proved.
-/
set_option maxRecDepth 8192
set_option linter.unusedSimpArgs false
set_option linter.unusedVariables false
namespace UrcuVerif.Src.Reg
open UrcuVerif UrcuVerif.Src UrcuVerif.Gen.Src

def lockLoc : Loc := .glob "rcu_registry_lock"
def registryLoc : Loc := .glob "registry"
def nodeLoc (reader : String) : Loc := .field (.tls reader) "node"
def tidLoc (reader : String) : Loc := .field (.tls reader) "tid"
def regLoc (reader : String) : Loc := .field (.tls reader) "registered"

/-- the accesses of the registration protocol; `none`: not one of them -/
def absEvP {L : Type} (reader : String) (e : Event) : Option (RLabel L) :=
  match e with
  | .ext name args _ =>
    if name = "pthread_self" then some .self
    else if name = "mutex_lock" then (if args = [.ptr lockLoc] then some .lock else some .bad)
    else if name = "mutex_unlock" then (if args = [.ptr lockLoc] then some .unlock else some .bad)
    else if name = "cds_list_add" then
      (if args = [.ptr (nodeLoc reader), .ptr registryLoc] then some .listAdd else some .bad)
    else if name = "cds_list_del" then (if args = [.ptr (nodeLoc reader)] then some .listDel else some .bad)
    else if name = "membarrier" ∨ name = "errno" ∨ name = "urcu_die" then some .initEv
    else none
  | _ => none

section generic
variable {σ L : Type} [DecidableEq L]

/-- labels of one event: a protocol access, or what the inner abstraction `iabs` says (`none` = rejected) -/
def absEvR (iabs : σ → Event → Option (List L)) (reader : String) (s : PState σ) (e : Event) : Option (List (RLabel L)) :=
  match absEvP reader e with
  | some l => some [l]
  | none =>
    match iabs s.inner e with
    | some ls => some (ls.map .q)
    | none => none

/-- abstract the events one by one and run the local automaton; result = (labels, final local state) -/
def absRunR (istep : σ → L → Option σ) (regL unregL : L) (iabs : σ → Event → Option (List L)) (reader : String) :
    PState σ → List Event → Option (List (RLabel L) × PState σ)
  | s, [] => some ([], s)
  | s, e :: es =>
    match absEvR iabs reader s e with
    | none => none
    | some ls =>
      match rrun istep regL unregL s ls with
      | none => none
      | some s1 =>
        match absRunR istep regL unregL iabs reader s1 es with
        | some (labs, s2) => some (ls ++ labs, s2)
        | none => none

theorem absRunR_rrun (istep : σ → L → Option σ) (regL unregL : L) (iabs : σ → Event → Option (List L)) (reader : String) :
    ∀ (es : List Event) (s : PState σ) labs s', absRunR istep regL unregL iabs reader s es = some (labs, s') →
      rrun istep regL unregL s labs = some s' := by
  intro es
  induction es with
  | nil => intro s labs s' h; simp [absRunR] at h; obtain ⟨rfl, rfl⟩ := h; rfl
  | cons e es ih =>
    intro s labs s' h
    simp only [absRunR] at h
    split at h
    · simp at h
    · split at h
      · simp at h
      · rename_i ls _ s1 h1
        split at h
        · rename_i labs2 s2 h2
          simp only [Option.some.injEq, Prod.mk.injEq] at h
          obtain ⟨rfl, rfl⟩ := h
          rw [rrun_append, h1]
          exact ih _ _ _ h2
        · simp at h

end generic

/-! ## memb -/

/-- memb: no reader-protocol access occurs inside register / unregister – anything that is not a protocol access is
rejected -/
def absRunM (sf : Bool) : MState → List Event → Option (List MLabel × MState) :=
  absRunR (Read.lstep sf) .reg .unreg (fun _ _ => none) "rcu_reader"

theorem absRunM_mrun (sf : Bool) (es : List Event) (s : MState) (labs : List MLabel) (s' : MState)
    (h : absRunM sf s es = some (labs, s')) : mrun sf s labs = some s' :=
  absRunR_rrun _ _ _ _ _ es s labs s' h

open Lean.Parser.Tactic in
macro "absm_simp" "[" ts:simpLemma,* "]" : tactic =>
  `(tactic| (simp [absRunM, absRunR, absEvR, absEvP, rrun, rstep, pcStep, RLabel.toL2, Read.lstep, lockLoc, registryLoc,
               nodeLoc, tidLoc, regLoc, Read.exists_pair_eq, Read.exists_pair_eq', *, $ts,*]
             try (simp +contextual [*])))

/-- postcondition of `rcu_register_thread`: the events are accepted (`labs` = labels with the L2 label `reg` exactly at
`cds_list_add`, under the lock); a completed call leaves the thread registered, outside the protocol, and has done
exactly the plain stores `tid = pthread_self()`, `registered = 1` -/
def RegPost (sf : Bool) (env : Env) (s : MState) (out : Out) : Prop :=
  ∃ labs s', absRunM sf s out.events = some (labs, s') ∧
    (out.ctl = .normal ∨ out.ctl = .blocked) ∧
    (out.ctl = .normal →
      s' = ⟨.idle, { s.inner with reg := true }⟩ ∧
      labs = [.self, .lock, .listAdd, .unlock] ∧
      ∃ tid, out.events.head? = some (.ext "pthread_self" [] tid) ∧
        ∀ l, out.env.priv l =
          if l = regLoc "rcu_reader" then some (.int 1) else if l = tidLoc "rcu_reader" then some tid else env.priv l)

theorem memb_register (sf : Bool) (fuel : Nat) (env : Env) (inp : List Val) (s : MState) (d : Int)
    (hinit : env.priv (.glob "init_done") = some (.int d)) (hd : d ≠ 0)
    (hpc : s.pc = .idle) (hreg : s.inner.reg = false) (hout : s.inner.rpc = .out) :
    ∃ out, exec fuel «memb.rcu_register_thread» env inp = .ok out ∧ RegPost sf env s out := by
  obtain ⟨pc, rpc, reg, held, lnest, lph⟩ := s
  simp only at hpc hreg hout
  subst hpc; subst hreg; subst hout
  cases inp with
  | nil => sexec [«memb.rcu_register_thread», «memb.rcu_init», RegPost]; absm_simp []
  | cons v1 r1 =>
    cases r1 with
    | nil => sexec [«memb.rcu_register_thread», «memb.rcu_init», RegPost]; absm_simp []
    | cons v2 r2 =>
      cases r2 with
      | nil => sexec [«memb.rcu_register_thread», «memb.rcu_init», RegPost]; absm_simp []
      | cons v3 r3 =>
        cases r3 with
        | nil => sexec [«memb.rcu_register_thread», «memb.rcu_init», RegPost]; absm_simp []
        | cons v4 r4 =>
          sexec [«memb.rcu_register_thread», «memb.rcu_init», RegPost]; absm_simp []
          intro l; congr

/-- postcondition of `rcu_unregister_thread`: L2 label `unreg` exactly at `cds_list_del`, under the lock; a completed call
leaves the thread unregistered and has done exactly the plain store `registered = 0` -/
def UnregPost (sf : Bool) (env : Env) (s : MState) (out : Out) : Prop :=
  ∃ labs s', absRunM sf s out.events = some (labs, s') ∧
    (out.ctl = .normal ∨ out.ctl = .blocked) ∧
    (out.ctl = .normal →
      s' = ⟨.idle, { s.inner with reg := false }⟩ ∧
      labs = [.lock, .listDel, .unlock] ∧
      ∀ l, out.env.priv l = if l = regLoc "rcu_reader" then some (.int 0) else env.priv l)

theorem memb_unregister (sf : Bool) (fuel : Nat) (env : Env) (inp : List Val) (s : MState)
    (hpc : s.pc = .idle) (hreg : s.inner.reg = true) (hout : s.inner.rpc = .out) (hheld : s.inner.held = []) :
    ∃ out, exec fuel «memb.rcu_unregister_thread» env inp = .ok out ∧ UnregPost sf env s out := by
  obtain ⟨pc, rpc, reg, held, lnest, lph⟩ := s
  simp only at hpc hreg hout hheld
  subst hpc; subst hreg; subst hout; subst hheld
  cases inp with
  | nil => sexec [«memb.rcu_unregister_thread», UnregPost]; absm_simp []
  | cons v1 r1 =>
    cases r1 with
    | nil => sexec [«memb.rcu_unregister_thread», UnregPost]; absm_simp []
    | cons v2 r2 =>
      cases r2 with
      | nil => sexec [«memb.rcu_unregister_thread», UnregPost]; absm_simp []
      | cons v3 r3 =>
        sexec [«memb.rcu_unregister_thread», UnregPost]; absm_simp []
        intro l; congr

/-! ## qsbr -/
open ReadQsbr in
/-- qsbr: the accesses of `_urcu_qsbr_thread_online` / `_urcu_qsbr_thread_offline` are abstracted as on the read side
(`ReadQsbr.absEvQ`) and must happen outside the protocol -/
def absRunQR : QPState → List Event → Option (List QRLabel × QPState) :=
  absRunR ReadQsbr.qstep .reg .unreg ReadQsbr.absEvQ "urcu_qsbr_reader"

theorem absRunQR_qrrun (es : List Event) (s : QPState) (labs : List QRLabel) (s' : QPState)
    (h : absRunQR s es = some (labs, s')) : qrrun s labs = some s' :=
  absRunR_rrun _ _ _ _ _ es s labs s' h

open Lean.Parser.Tactic in
macro "absqr_simp" "[" ts:simpLemma,* "]" : tactic =>
  `(tactic| (simp [absRunQR, absRunR, absEvR, absEvP, rrun, rstep, pcStep, RLabel.toL2, lockLoc, registryLoc,
               nodeLoc, tidLoc, regLoc, ReadQsbr.absEvQ, ReadQsbr.qstep, ReadQsbr.decq_encq, ReadQsbr.encq_inj,
               ReadQsbr.encq_eq_zero, ReadQsbr.encq_zero, ReadQsbr.decq_zero, Read.Event.loc?, ReadQsbr.qGpCtr,
               ReadQsbr.qRdCtr, ReadQsbr.qWaiting, ReadQsbr.qFutex,
               Read.exists_pair_eq, Read.exists_pair_eq', *, $ts,*]
             try (simp +contextual [*])))

/-- postcondition of `urcu_qsbr_register_thread`; `W`-style: the conclusion about the automaton assumes that the value the
run loaded from `urcu_qsbr_gp.ctr` has the shape `ONLINE + k * GP_CTR` (updater-side invariant) -/
def QRegPost (env : Env) (s : QPState) (out : Out) : Prop :=
  (out.ctl = .normal ∨ out.ctl = .blocked) ∧
  ((∀ v mo, .ld ReadQsbr.qGpCtr v mo ∈ out.events → ReadQsbr.QShape v) →
    ∃ labs s', absRunQR s out.events = some (labs, s') ∧
      (out.ctl = .normal →
        ∃ tid g, 1 ≤ g ∧
          s' = ⟨.idle, { rpc := .out, reg := true, lctr := g }⟩ ∧
          labs = [.self, .lock, .listAdd, .unlock, .q (.qLd g), .q (.qSt g), .q .qFence] ∧
          out.events.head? = some (.ext "pthread_self" [] tid) ∧
          ∀ l, out.env.priv l =
            if l = ReadQsbr.qRdCtr then some (.int (ReadQsbr.encq g))
            else if l = regLoc "urcu_qsbr_reader" then some (.int 1)
            else if l = tidLoc "urcu_qsbr_reader" then some tid else env.priv l))

set_option hygiene false in
macro "qreg_go" : tactic =>
  `(tactic| (sexec [«qsbr.urcu_qsbr_register_thread», «_urcu_qsbr_thread_online», QRegPost]; absqr_simp []))

theorem qsbr_register (fuel : Nat) (env : Env) (inp : List Val) (s : QPState)
    (hpc : s.pc = .idle) (hreg : s.inner.reg = false) (hout : s.inner.rpc = .out) (hoff : s.inner.lctr = 0) :
    ∃ out, exec fuel «qsbr.urcu_qsbr_register_thread» env inp = .ok out ∧ QRegPost env s out := by
  obtain ⟨pc, rpc, reg, lctr⟩ := s
  simp only at hpc hreg hout hoff
  subst hpc; subst hreg; subst hout; subst hoff
  cases inp with
  | nil => qreg_go
  | cons v1 r1 =>
    cases r1 with
    | nil => qreg_go
    | cons v2 r2 =>
      cases r2 with
      | nil => qreg_go
      | cons v3 r3 =>
        cases r3 with
        | nil => qreg_go
        | cons v4 r4 =>
          cases r4 with
          | nil => qreg_go
          | cons v5 r5 =>
            sexec [«qsbr.urcu_qsbr_register_thread», «_urcu_qsbr_thread_online», QRegPost]
            intro hq
            obtain ⟨g, hg, rfl⟩ := hq v5 0 rfl rfl rfl
            have hg0 : g ≠ 0 := by omega
            absqr_simp []
            exact ⟨v1, g, hg, rfl, rfl, fun l => by congr⟩

/-- postcondition of `urcu_qsbr_unregister_thread`: the thread goes offline first (`qOff`, `qFence`: the `CMM_SEQ_CST` store
of 0 to its word; the accesses of `urcu_qsbr_wake_up_gp` belong to the handshake model and are silent here), then
`unreg` exactly at `cds_list_del` under the lock -/
def QUnregPost (env : Env) (s : QPState) (out : Out) : Prop :=
  ∃ labs s', absRunQR s out.events = some (labs, s') ∧
    (out.ctl = .normal ∨ out.ctl = .blocked) ∧
    (out.ctl = .normal →
      s' = ⟨.idle, { rpc := .out, reg := false, lctr := 0 }⟩ ∧
      labs = [.q .qOff, .q .qFence, .lock, .listDel, .unlock] ∧
      ∀ l, l ≠ ReadQsbr.qWaiting → l ≠ ReadQsbr.qFutex → out.env.priv l =
        if l = regLoc "urcu_qsbr_reader" then some (.int 0)
        else if l = ReadQsbr.qRdCtr then some (.int 0) else env.priv l)

set_option hygiene false in
macro "qunreg_go" : tactic =>
  `(tactic| (sexec [«qsbr.urcu_qsbr_unregister_thread», «_urcu_qsbr_thread_offline», «urcu_qsbr_wake_up_gp», QUnregPost]
             absqr_simp []
             try (intro l _ _; congr)))

/-- `hint`: every oracle value is an integer (the words `waiting`, `futex`; the values returned by `futex`, the mutex and
list calls) -/
theorem qsbr_unregister (fuel : Nat) (env : Env) (inp : List Val) (s : QPState)
    (hpc : s.pc = .idle) (hreg : s.inner.reg = true) (hout : s.inner.rpc = .out)
    (hint : ∀ v, v ∈ inp → ∃ n : Int, v = .int n) :
    ∃ out, exec fuel «qsbr.urcu_qsbr_unregister_thread» env inp = .ok out ∧ QUnregPost env s out := by
  obtain ⟨pc, rpc, reg, lctr⟩ := s
  simp only at hpc hreg hout
  subst hpc; subst hreg; subst hout
  cases inp with
  | nil => qunreg_go
  | cons w r =>
    obtain ⟨wn, rfl⟩ := hint w (by simp)
    by_cases hw : wn = 0
    · subst hw
      rcases r with _ | ⟨a, _ | ⟨b, _ | ⟨c, r'⟩⟩⟩ <;> qunreg_go
    · cases r with
      | nil => qunreg_go
      | cons f r2 =>
        obtain ⟨fn, rfl⟩ := hint f (by simp)
        by_cases hf : fn = -1
        · subst hf
          rcases r2 with _ | ⟨x, _ | ⟨a, _ | ⟨b, _ | ⟨c, r'⟩⟩⟩⟩ <;> qunreg_go
        · rcases r2 with _ | ⟨a, _ | ⟨b, _ | ⟨c, r'⟩⟩⟩ <;> qunreg_go

end UrcuVerif.Src.Reg
