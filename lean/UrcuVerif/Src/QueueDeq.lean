import UrcuVerif.Src.QueueRefine
/-!
# `___cds_wfcq_dequeue_with_state` and `___cds_wfcq_splice` ⊑ thread-local projection of `Wfcq/Model.lean`
(continuation of `Src/QueueRefine.lean`; same layout / `absEv`)
-/
set_option linter.unusedSimpArgs false
set_option linter.unusedVariables false
namespace UrcuVerif.Src.Queue.WfcqR
open UrcuVerif.Src UrcuVerif.Wfcq WfcqL
variable (L : Layout)

theorem dec_obj {v : Val} {x : Nat} (h : dec L v = some x) (hx : x ≠ 0) : ∃ k, v = .ptr (.obj k) ∧ L.addr k = some x := by
  unfold dec at h
  split at h
  · split at h <;> simp_all
  · exact ⟨_, rfl, h⟩
  · simp at h

/-- the part of the generated `___cds_wfcq_dequeue_with_state` from `next = uatomic_load(&node->next)` on -/
def deqTail : Stmt :=
  match Gen.Src.«___cds_wfcq_dequeue_with_state» with
  | .seq _ (.seq _ (.seq _ (.seq _ (.seq _ (.seq _ (.seq _ t)))))) => t
  | _ => .skip

def mbEvW (mbv : Int) : List Event := if mbv = 0 then [] else [.fence .mb]

/-- how the tail of a dequeue that found node `nd` (object `k`) ends -/
def DeqEnd (k q nd : Nat) (bb : Bool) (b : Int) (sv : Val) (out : Out) (p' : Pc) : Prop :=
  ((out.ctl = .blocked ∨ out.ctl = .fuel) ∧ (p' = .d2 q nd bb ∨ p' = .d4 q nd bb ∨ p' = .sync (.deq bb) q nd)) ∨
  (out.ctl = .ret (some (.int (-1))) ∧ b = 0 ∧ p' = .done .wouldblock) ∨
  (∃ last : Bool, out.ctl = .ret (some (.ptr (.obj k))) ∧ p' = .done (.node nd last) ∧
    ∀ sl, sv = .ptr sl → out.env.priv sl = some (.int (if last then 1 else 0)))

local macro "deq_exec" : tactic =>
  `(tactic| simp [deqTail, Gen.Src.«___cds_wfcq_dequeue_with_state», Gen.Src.«_cds_wfcq_node_init_atomic», block, exec,
      eval, evalArgs, execPrim, bindParams, asLoc, bind, Except.bind, Env.setVar, Env.setPriv, setDst, Val.truthy,
      evalBin, evalUn, boolV, *])

local macro "deq_simp" : tactic =>
  `(tactic| simp [deqTail, Gen.Src.«___cds_wfcq_dequeue_with_state», Gen.Src.«_cds_wfcq_node_init_atomic», block, exec,
      eval, evalArgs, execPrim, bindParams, asLoc, bind, Except.bind, Env.setVar, Env.setPriv, setDst, Val.truthy,
      evalBin, evalUn, boolV, absEv, decNext, decTail, List.filterMap_cons, List.filterMap_append, lrun, lstep, mbEvW, DeqEnd, *])

theorem deqTail_run0 (fuel : Nat) (env : Env) (hk tk k q nd : Nat) (b mbv : Int) (inp : List Val)
    (hh : env.vars "head" = some (.ptr (.obj hk))) (htl : env.vars "tail" = some (.ptr (.obj tk)))
    (hnode : env.vars "node" = some (.ptr (.obj k))) (hst : env.vars "state" = some (.int 0))
    (hbl : env.vars "blocking" = some (.int b))
    (hq : L.addr hk = some q) (ht : L.tailOf tk = some q) (hk' : L.addr k = some nd)
    (hcfg : env.priv (.glob "CONFIG_RCU_EMIT_LEGACY_MB") = some (.int mbv))
    (hwt : ∀ v ∈ inp, Typed L v) :
    ∃ out, exec fuel deqTail env inp = .ok out ∧
      (nd ≠ q → ∃ p', lrun (.d2 q nd (decide (b ≠ 0))) (out.events.filterMap (absEv L)) = some p' ∧
        DeqEnd k q nd (decide (b ≠ 0)) b (.int 0) out p') := by
  generalize hbb : decide (b ≠ 0) = bb
  have hd0 : dec L (.int 0) = some 0 := by simp [dec]
  have hdk : dec L (.ptr (.obj k)) = some nd := by simp [dec, hk']
  have hdh : dec L (.ptr (.obj hk)) = some q := by simp [dec, hq]
  rcases inp with _ | ⟨v1, rest⟩
  · deq_simp
  · obtain ⟨x1, hx1⟩ := hwt v1 (by simp)
    by_cases hv1 : v1 = .int 0
    · subst hv1
      rcases rest with _ | ⟨v2, rest2⟩
      · deq_simp
      · obtain ⟨x2, hx2⟩ := hwt v2 (by simp)
        by_cases hv2 : v2 = .ptr (.obj k)
        · subst hv2
          by_cases hmb : mbv = 0 <;> deq_simp
        · have hx2 : x2 ≠ nd := fun e => hv2 (dec_inj L (e ▸ hx2) hdk)
          deq_simp
          generalize hE : exec fuel Gen.Src.«___cds_wfcq_node_sync_next» _ _ = r
          obtain ⟨o2, rfl, hsub, hpriv, hres⟩ := sync_next_run L hE k b (by simp) (by simp)
          have hcfg2 : o2.env.priv (.glob "CONFIG_RCU_EMIT_LEGACY_MB") = some (.int mbv) := by
            rw [hpriv _ (by simp)]; simp [hcfg]
          have hkb : (K.deq bb).blocking = decide (b ≠ 0) := hbb.symm
          have hpre : ∀ rest : List Event, lrun (Pc.d2 q nd bb) (List.filterMap (absEv L)
              (Event.ld ((Loc.obj k).field "next") (Val.int 0) 1 :: Event.st ((Loc.obj hk).field "next") (Val.int 0) 0 ::
                Event.cas ((Loc.obj tk).field "p") (Val.ptr (Loc.obj k)) (Val.ptr (Loc.obj hk)) v2 5 5 :: rest)) =
              lrun (Pc.sync (K.deq bb) q nd) (List.filterMap (absEv L) rest) := by
            intro rest
            simp [absEv, decNext, decTail, List.filterMap_cons, lrun, lstep, *]
          rcases hres with ⟨hc, hr⟩ | ⟨hc, hb, hr⟩ | ⟨v, hc, hv0, hmem, hld, hr⟩
          · have hr' := hr (.deq bb) q nd hk' hkb
            rcases hc with hc | hc <;> simp only [hc] <;>
              exact ⟨_, rfl, fun hne => ⟨_, by simp only [List.cons_append, List.nil_append]; rw [hpre, hr'],
                Or.inl ⟨by simp, Or.inr (Or.inr rfl)⟩⟩⟩
          · have hr' := hr (.deq bb) q nd hk' hkb
            subst hb
            deq_exec
            intro hne
            rw [lrun_append, hr']
            simp [syncWbPc, hne, absEv, decNext, decTail, List.filterMap_cons, lrun, lstep, *]
          · obtain ⟨x, hx⟩ := hwt v (by simp [hmem])
            have hx0 : x ≠ 0 := fun e => hv0 (dec_eq_zero L (e ▸ hx))
            have hr' := hr x hx (.deq bb) q nd hk' hkb
            have hvm : v ≠ .int (-1) := by rintro rfl; simp [dec] at hx
            by_cases hmb : mbv = 0 <;>
            · deq_exec
              intro hne
              rw [lrun_append, hr']
              simp [syncGotPc, hne, absEv, decNext, decTail, List.filterMap_cons, lrun, lstep, *]
    · have hx10 : x1 ≠ 0 := fun e => hv1 (dec_eq_zero L (e ▸ hx1))
      by_cases hmb : mbv = 0 <;> deq_simp
theorem deqTail_run1 (fuel : Nat) (env : Env) (hk tk k q nd : Nat) (b mbv : Int) (inp : List Val)
    (hh : env.vars "head" = some (.ptr (.obj hk))) (htl : env.vars "tail" = some (.ptr (.obj tk)))
    (hnode : env.vars "node" = some (.ptr (.obj k))) (sl : Loc) (hst : env.vars "state" = some (.ptr sl))
    (hs1 : sl ≠ .glob "&attempt") (hs2 : sl ≠ .field (.obj hk) "next") (hs3 : env.priv sl = some (.int 0))
    (hs4 : sl ≠ .glob "CONFIG_RCU_EMIT_LEGACY_MB")
    (hbl : env.vars "blocking" = some (.int b))
    (hq : L.addr hk = some q) (ht : L.tailOf tk = some q) (hk' : L.addr k = some nd)
    (hcfg : env.priv (.glob "CONFIG_RCU_EMIT_LEGACY_MB") = some (.int mbv))
    (hwt : ∀ v ∈ inp, Typed L v) :
    ∃ out, exec fuel deqTail env inp = .ok out ∧
      (nd ≠ q → ∃ p', lrun (.d2 q nd (decide (b ≠ 0))) (out.events.filterMap (absEv L)) = some p' ∧
        DeqEnd k q nd (decide (b ≠ 0)) b (.ptr sl) out p') := by
  generalize hbb : decide (b ≠ 0) = bb
  have hs4' := hs4.symm
  have hs2' := hs2.symm
  have hd0 : dec L (.int 0) = some 0 := by simp [dec]
  have hdk : dec L (.ptr (.obj k)) = some nd := by simp [dec, hk']
  have hdh : dec L (.ptr (.obj hk)) = some q := by simp [dec, hq]
  rcases inp with _ | ⟨v1, rest⟩
  · deq_simp
  · obtain ⟨x1, hx1⟩ := hwt v1 (by simp)
    by_cases hv1 : v1 = .int 0
    · subst hv1
      rcases rest with _ | ⟨v2, rest2⟩
      · deq_simp
      · obtain ⟨x2, hx2⟩ := hwt v2 (by simp)
        by_cases hv2 : v2 = .ptr (.obj k)
        · subst hv2
          by_cases hmb : mbv = 0 <;> deq_simp
        · have hx2 : x2 ≠ nd := fun e => hv2 (dec_inj L (e ▸ hx2) hdk)
          deq_simp
          generalize hE : exec fuel Gen.Src.«___cds_wfcq_node_sync_next» _ _ = r
          obtain ⟨o2, rfl, hsub, hpriv, hres⟩ := sync_next_run L hE k b (by simp) (by simp)
          have hcfg2 : o2.env.priv (.glob "CONFIG_RCU_EMIT_LEGACY_MB") = some (.int mbv) := by
            rw [hpriv _ (by simp)]; simp [hcfg]
          have hsl2 : o2.env.priv sl = some (.int 0) := by rw [hpriv _ hs1]; simp [hs2, hs3]
          have hkb : (K.deq bb).blocking = decide (b ≠ 0) := hbb.symm
          have hpre : ∀ rest : List Event, lrun (Pc.d2 q nd bb) (List.filterMap (absEv L)
              (Event.ld ((Loc.obj k).field "next") (Val.int 0) 1 :: Event.st ((Loc.obj hk).field "next") (Val.int 0) 0 ::
                Event.cas ((Loc.obj tk).field "p") (Val.ptr (Loc.obj k)) (Val.ptr (Loc.obj hk)) v2 5 5 :: rest)) =
              lrun (Pc.sync (K.deq bb) q nd) (List.filterMap (absEv L) rest) := by
            intro rest
            simp [absEv, decNext, decTail, List.filterMap_cons, lrun, lstep, *]
          rcases hres with ⟨hc, hr⟩ | ⟨hc, hb, hr⟩ | ⟨v, hc, hv0, hmem, hld, hr⟩
          · have hr' := hr (.deq bb) q nd hk' hkb
            rcases hc with hc | hc <;> simp only [hc] <;>
              exact ⟨_, rfl, fun hne => ⟨_, by simp only [List.cons_append, List.nil_append]; rw [hpre, hr'],
                Or.inl ⟨by simp, Or.inr (Or.inr rfl)⟩⟩⟩
          · have hr' := hr (.deq bb) q nd hk' hkb
            subst hb
            deq_exec
            intro hne
            rw [lrun_append, hr']
            simp [syncWbPc, hne, absEv, decNext, decTail, List.filterMap_cons, lrun, lstep, *]
          · obtain ⟨x, hx⟩ := hwt v (by simp [hmem])
            have hx0 : x ≠ 0 := fun e => hv0 (dec_eq_zero L (e ▸ hx))
            have hr' := hr x hx (.deq bb) q nd hk' hkb
            have hvm : v ≠ .int (-1) := by rintro rfl; simp [dec] at hx
            by_cases hmb : mbv = 0 <;>
            · deq_exec
              intro hne
              rw [lrun_append, hr']
              simp [syncGotPc, hne, absEv, decNext, decTail, List.filterMap_cons, lrun, lstep, *]
    · have hx10 : x1 ≠ 0 := fun e => hv1 (dec_eq_zero L (e ▸ hx1))
      by_cases hmb : mbv = 0 <;> deq_simp
/-- pcs at which a dequeue on queue `q` can be cut (oracle or loop budget exhausted) -/
def DeqMid (q : Nat) (bb : Bool) (p : Pc) : Prop :=
  p = .e1 (.deq bb) q ∨ p = .e2 (.deq bb) q ∨ p = .sync (.deq bb) q q ∨
    ∃ nd, p = .d2 q nd bb ∨ p = .d4 q nd bb ∨ p = .sync (.deq bb) q nd

/-- how `___cds_wfcq_dequeue_with_state` ends, against L2's result -/
def DeqRes (q : Nat) (bb : Bool) (b : Int) (sv : Val) (out : Out) (p' : Pc) : Prop :=
  ((out.ctl = .blocked ∨ out.ctl = .fuel) ∧ DeqMid q bb p') ∨
  (out.ctl = .ret (some (.int 0)) ∧ p' = .done .null) ∨
  (out.ctl = .ret (some (.int (-1))) ∧ b = 0 ∧ p' = .done .wouldblock) ∨
  (∃ k nd, ∃ last : Bool, out.ctl = .ret (some (.ptr (.obj k))) ∧ L.addr k = some nd ∧ p' = .done (.node nd last) ∧
    ∀ sl, sv = .ptr sl → out.env.priv sl = some (.int (if last then 1 else 0)))

/-- the part of the generated function after the `_cds_wfcq_empty` test -/
def deqMid : Stmt :=
  match Gen.Src.«___cds_wfcq_dequeue_with_state» with
  | .seq _ (.seq _ (.seq _ (.seq _ t))) => t
  | _ => .skip

theorem DeqEnd.toRes {k q nd : Nat} {bb : Bool} {b : Int} {sv : Val} {out : Out} {p' : Pc} (hk : L.addr k = some nd)
    (h : DeqEnd k q nd bb b sv out p') : DeqRes L q bb b sv out p' := by
  rcases h with ⟨hc, hp⟩ | ⟨hc, hb, hp⟩ | ⟨last, hc, hp, hs⟩
  · exact Or.inl ⟨hc, Or.inr (Or.inr (Or.inr ⟨nd, hp⟩))⟩
  · exact Or.inr (Or.inr (Or.inl ⟨hc, hb, hp⟩))
  · exact Or.inr (Or.inr (Or.inr ⟨k, nd, last, hc, hk, hp, hs⟩))

theorem deqMid_run0 {fuel : Nat} {env : Env} {inp : List Val} {r : Except String Out}
    (hE0 : exec fuel deqMid env inp = r) (hk tk q : Nat) (b mbv : Int)
    (hh : env.vars "head" = some (.ptr (.obj hk))) (htl : env.vars "tail" = some (.ptr (.obj tk)))
    (hst : env.vars "state" = some (.int 0))
    (hbl : env.vars "blocking" = some (.int b))
    (hq : L.addr hk = some q) (ht : L.tailOf tk = some q)
    (hcfg : env.priv (.glob "CONFIG_RCU_EMIT_LEGACY_MB") = some (.int mbv))
    (hwt : ∀ v ∈ inp, Typed L v) :
    ∃ out, r = .ok out ∧
      ((∀ v mo, Event.ld (.field (.obj hk) "next") v mo ∈ out.events → v ≠ .ptr (.obj hk)) →
        ∃ p', lrun (.sync (.deq (decide (b ≠ 0))) q q) (out.events.filterMap (absEv L)) = some p' ∧
          DeqRes L q (decide (b ≠ 0)) b (.int 0) out p') := by
  subst hE0
  generalize hbb : decide (b ≠ 0) = bb
  have hkb : (K.deq bb).blocking = decide (b ≠ 0) := hbb.symm
  rw [show deqMid = Stmt.seq _ (.seq _ (.seq _ deqTail)) from rfl]
  simp [exec, eval, evalArgs, bindParams, asLoc, bind, Except.bind, Env.setVar, Env.setPriv, setDst, Val.truthy,
      evalBin, evalUn, boolV, hh, htl, hst, hbl]
  generalize hE : exec fuel Gen.Src.«___cds_wfcq_node_sync_next» _ _ = r
  obtain ⟨o1, rfl, hsub, hpriv, hres⟩ := sync_next_run L hE hk b (by simp) (by simp)
  have hcfg1 : o1.env.priv (.glob "CONFIG_RCU_EMIT_LEGACY_MB") = some (.int mbv) := by
    rw [hpriv _ (by simp)]; simp [hcfg]
  rcases hres with ⟨hc, hr⟩ | ⟨hc, hb, hr⟩ | ⟨v, hc, hv0, hmem, hld, hr⟩
  · have hr' := hr (.deq bb) q q hq hkb
    rcases hc with hc | hc <;> simp only [hc] <;>
      exact ⟨_, rfl, fun _ => ⟨_, hr', Or.inl ⟨by simp, Or.inr (Or.inr (Or.inl rfl))⟩⟩⟩
  · have hr' := hr (.deq bb) q q hq hkb
    subst hb
    simp [hc, hbl]
    intro _
    exact ⟨_, hr', by simp [syncWbPc, DeqRes]⟩
  · obtain ⟨x, hx⟩ := hwt v hmem
    have hx0 : x ≠ 0 := fun e => hv0 (dec_eq_zero L (e ▸ hx))
    obtain ⟨k, rfl, hk'⟩ := dec_obj L hx hx0
    have hr' := hr x hx (.deq bb) q q hq hkb
    simp [hc, hbl]
    obtain ⟨o3, hE3, himp⟩ := deqTail_run0 L fuel
      { vars := fun y => if y = "node" then some (Val.ptr (Loc.obj k))
          else if y = "_t3" then some (Val.ptr (Loc.obj k)) else env.vars y,
        priv := o1.env.priv } hk tk k q x b mbv o1.inp (by simp [hh]) (by simp [htl]) (by simp) (by simp [hst])
      (by simp [hbl]) hq ht hk' hcfg1 (fun w hw => hwt w (hsub w hw))
    rw [hE3]
    refine ⟨_, rfl, fun hside => ?_⟩
    have hne : x ≠ q := by
      intro e
      have : k = hk := L.addr_inj _ _ _ hk' (e ▸ hq)
      subst this
      exact hside _ 1 (by simp [hld]) rfl
    obtain ⟨p', hrun, hend⟩ := himp hne
    refine ⟨p', ?_, ?_⟩
    · simp only [List.filterMap_append, lrun_append, hr', syncGotPc, if_true, Option.bind, hbb] at hrun ⊢
      exact hrun
    · rw [hbb] at hend
      exact (hend.toRes L hk')

theorem dequeue_run0 (fuel : Nat) (env : Env) (hk tk q : Nat) (b mbv : Int) (inp : List Val)
    (h1 : env.vars "u_head" = some (.ptr (.obj hk))) (h2 : env.vars "tail" = some (.ptr (.obj tk)))
    (h3 : env.vars "state" = some (.int 0)) (h4 : env.vars "blocking" = some (.int b))
    (hq : L.addr hk = some q) (ht : L.tailOf tk = some q)
    (hcfg : env.priv (.glob "CONFIG_RCU_EMIT_LEGACY_MB") = some (.int mbv))
    (hwt : ∀ v ∈ inp, Typed L v) :
    ∃ out, exec fuel Gen.Src.«___cds_wfcq_dequeue_with_state» env inp = .ok out ∧
      ((∀ v mo, Event.ld (.field (.obj hk) "next") v mo ∈ out.events → v ≠ .ptr (.obj hk)) →
        ∃ p', lrun (.e1 (.deq (decide (b ≠ 0))) q) (out.events.filterMap (absEv L)) = some p' ∧
          DeqRes L q (decide (b ≠ 0)) b (.int 0) out p') := by
  generalize hbb : decide (b ≠ 0) = bb
  have hdh : dec L (.ptr (.obj hk)) = some q := by simp [dec, hq]
  rw [show Gen.Src.«___cds_wfcq_dequeue_with_state» = Stmt.seq _ (.seq _ (.seq _ (.seq _ deqMid))) from rfl]
  simp [block, exec, eval, evalArgs, bindParams, asLoc, bind, Except.bind, Env.setVar, Env.setPriv, setDst, Val.truthy,
      evalBin, evalUn, boolV, h1, h2, h3, h4]
  generalize hE : exec fuel Gen.Src.«_cds_wfcq_empty» _ _ = r
  obtain ⟨vars, rfl⟩ := empty_exec hE hk tk (by simp) (by simp)
  clear hE
  rcases inp with _ | ⟨v1, rest⟩
  · simp [emptySpec, lrun, DeqRes, DeqMid]
  · obtain ⟨x1, hx1⟩ := hwt v1 (by simp)
    by_cases hv1 : v1 = .int 0
    · subst hv1
      rcases rest with _ | ⟨v2, rest'⟩
      · simp [emptySpec, lrun, lstep, DeqRes, DeqMid, absEv, decNext, decTail, dec, hq, List.filterMap_cons]
      · obtain ⟨x2, hx2⟩ := hwt v2 (by simp)
        by_cases hv2 : v2 = .ptr (.obj hk)
        · subst hv2
          simp [emptySpec, lrun, lstep, DeqRes, DeqMid, absEv, decNext, decTail, dec, hq, ht, List.filterMap_cons, emptyRes]
        · have hx2q : x2 ≠ q := fun e => hv2 (dec_inj L (e ▸ hx2) hdh)
          simp [emptySpec, hv2]
          generalize hEo : exec fuel deqMid _ _ = r
          obtain ⟨o, rfl, himp⟩ := deqMid_run0 L hEo hk tk q b mbv (by simp) (by simp [h2]) (by simp [h3]) (by simp [h4])
            hq ht hcfg (fun w hw => hwt w (by simp [hw]))
          simp only []
          refine ⟨_, rfl, fun hside => ?_⟩
          obtain ⟨p', hrun, hres⟩ := himp (fun v mo hm => hside v mo (by simp [hm]))
          rw [hbb] at hrun hres
          refine ⟨p', ?_, hres⟩
          have hd0 : dec L (.int 0) = some 0 := by simp [dec]
          simp [absEv, decNext, decTail, hd0, hq, ht, hx2, List.filterMap_cons, lrun, lstep, hx2q, nonEmptyPc, hrun]
    · have hx10 : x1 ≠ 0 := fun e => hv1 (dec_eq_zero L (e ▸ hx1))
      simp [emptySpec, hv1]
      generalize hEo : exec fuel deqMid _ _ = r
      obtain ⟨o, rfl, himp⟩ := deqMid_run0 L hEo hk tk q b mbv (by simp) (by simp [h2]) (by simp [h3]) (by simp [h4])
        hq ht hcfg (fun w hw => hwt w (by simp [hw]))
      simp only []
      refine ⟨_, rfl, fun hside => ?_⟩
      obtain ⟨p', hrun, hres⟩ := himp (fun v mo hm => hside v mo (by simp [hm]))
      rw [hbb] at hrun hres
      refine ⟨p', ?_, hres⟩
      simp [absEv, decNext, decTail, hq, ht, hx1, List.filterMap_cons, lrun, lstep, hx10, nonEmptyPc, hrun]
theorem deqMid_run1 {fuel : Nat} {env : Env} {inp : List Val} {r : Except String Out}
    (hE0 : exec fuel deqMid env inp = r) (hk tk q : Nat) (b mbv : Int)
    (hh : env.vars "head" = some (.ptr (.obj hk))) (htl : env.vars "tail" = some (.ptr (.obj tk)))
    (sl : Loc) (hst : env.vars "state" = some (.ptr sl))
    (hs1 : sl ≠ .glob "&attempt") (hs2 : sl ≠ .field (.obj hk) "next") (hs3 : env.priv sl = some (.int 0))
    (hs4 : sl ≠ .glob "CONFIG_RCU_EMIT_LEGACY_MB")
    (hbl : env.vars "blocking" = some (.int b))
    (hq : L.addr hk = some q) (ht : L.tailOf tk = some q)
    (hcfg : env.priv (.glob "CONFIG_RCU_EMIT_LEGACY_MB") = some (.int mbv))
    (hwt : ∀ v ∈ inp, Typed L v) :
    ∃ out, r = .ok out ∧
      ((∀ v mo, Event.ld (.field (.obj hk) "next") v mo ∈ out.events → v ≠ .ptr (.obj hk)) →
        ∃ p', lrun (.sync (.deq (decide (b ≠ 0))) q q) (out.events.filterMap (absEv L)) = some p' ∧
          DeqRes L q (decide (b ≠ 0)) b (.ptr sl) out p') := by
  subst hE0
  generalize hbb : decide (b ≠ 0) = bb
  have hkb : (K.deq bb).blocking = decide (b ≠ 0) := hbb.symm
  rw [show deqMid = Stmt.seq _ (.seq _ (.seq _ deqTail)) from rfl]
  simp [exec, eval, evalArgs, bindParams, asLoc, bind, Except.bind, Env.setVar, Env.setPriv, setDst, Val.truthy,
      evalBin, evalUn, boolV, hh, htl, hst, hbl]
  generalize hE : exec fuel Gen.Src.«___cds_wfcq_node_sync_next» _ _ = r
  obtain ⟨o1, rfl, hsub, hpriv, hres⟩ := sync_next_run L hE hk b (by simp) (by simp)
  have hcfg1 : o1.env.priv (.glob "CONFIG_RCU_EMIT_LEGACY_MB") = some (.int mbv) := by
    rw [hpriv _ (by simp)]; simp [hcfg]
  rcases hres with ⟨hc, hr⟩ | ⟨hc, hb, hr⟩ | ⟨v, hc, hv0, hmem, hld, hr⟩
  · have hr' := hr (.deq bb) q q hq hkb
    rcases hc with hc | hc <;> simp only [hc] <;>
      exact ⟨_, rfl, fun _ => ⟨_, hr', Or.inl ⟨by simp, Or.inr (Or.inr (Or.inl rfl))⟩⟩⟩
  · have hr' := hr (.deq bb) q q hq hkb
    subst hb
    simp [hc, hbl]
    intro _
    exact ⟨_, hr', by simp [syncWbPc, DeqRes]⟩
  · obtain ⟨x, hx⟩ := hwt v hmem
    have hx0 : x ≠ 0 := fun e => hv0 (dec_eq_zero L (e ▸ hx))
    obtain ⟨k, rfl, hk'⟩ := dec_obj L hx hx0
    have hr' := hr x hx (.deq bb) q q hq hkb
    simp [hc, hbl]
    obtain ⟨o3, hE3, himp⟩ := deqTail_run1 L fuel
      { vars := fun y => if y = "node" then some (Val.ptr (Loc.obj k))
          else if y = "_t3" then some (Val.ptr (Loc.obj k)) else env.vars y,
        priv := o1.env.priv } hk tk k q x b mbv o1.inp (by simp [hh]) (by simp [htl]) (by simp) sl (by simp [hst])
      hs1 hs2 (by rw [hpriv _ hs1]; simpa using hs3) hs4 (by simp [hbl]) hq ht hk' hcfg1 (fun w hw => hwt w (hsub w hw))
    rw [hE3]
    refine ⟨_, rfl, fun hside => ?_⟩
    have hne : x ≠ q := by
      intro e
      have : k = hk := L.addr_inj _ _ _ hk' (e ▸ hq)
      subst this
      exact hside _ 1 (by simp [hld]) rfl
    obtain ⟨p', hrun, hend⟩ := himp hne
    refine ⟨p', ?_, ?_⟩
    · simp only [List.filterMap_append, lrun_append, hr', syncGotPc, if_true, Option.bind, hbb] at hrun ⊢
      exact hrun
    · rw [hbb] at hend
      exact (hend.toRes L hk')

theorem dequeue_run1 (fuel : Nat) (env : Env) (hk tk q : Nat) (b mbv : Int) (inp : List Val)
    (h1 : env.vars "u_head" = some (.ptr (.obj hk))) (h2 : env.vars "tail" = some (.ptr (.obj tk)))
    (sl : Loc) (h3 : env.vars "state" = some (.ptr sl))
    (hs1 : sl ≠ .glob "&attempt") (hs2 : sl ≠ .field (.obj hk) "next") (hs4 : sl ≠ .glob "CONFIG_RCU_EMIT_LEGACY_MB") (h4 : env.vars "blocking" = some (.int b))
    (hq : L.addr hk = some q) (ht : L.tailOf tk = some q)
    (hcfg : env.priv (.glob "CONFIG_RCU_EMIT_LEGACY_MB") = some (.int mbv))
    (hwt : ∀ v ∈ inp, Typed L v) :
    ∃ out, exec fuel Gen.Src.«___cds_wfcq_dequeue_with_state» env inp = .ok out ∧
      ((∀ v mo, Event.ld (.field (.obj hk) "next") v mo ∈ out.events → v ≠ .ptr (.obj hk)) →
        ∃ p', lrun (.e1 (.deq (decide (b ≠ 0))) q) (out.events.filterMap (absEv L)) = some p' ∧
          DeqRes L q (decide (b ≠ 0)) b (.ptr sl) out p') := by
  generalize hbb : decide (b ≠ 0) = bb
  have hdh : dec L (.ptr (.obj hk)) = some q := by simp [dec, hq]
  rw [show Gen.Src.«___cds_wfcq_dequeue_with_state» = Stmt.seq _ (.seq _ (.seq _ (.seq _ deqMid))) from rfl]
  simp [block, exec, eval, evalArgs, bindParams, asLoc, bind, Except.bind, Env.setVar, Env.setPriv, setDst, Val.truthy,
      evalBin, evalUn, boolV, h1, h2, h3, h4]
  generalize hE : exec fuel Gen.Src.«_cds_wfcq_empty» _ _ = r
  obtain ⟨vars, rfl⟩ := empty_exec hE hk tk (by simp) (by simp)
  clear hE
  rcases inp with _ | ⟨v1, rest⟩
  · simp [emptySpec, lrun, DeqRes, DeqMid]
  · obtain ⟨x1, hx1⟩ := hwt v1 (by simp)
    by_cases hv1 : v1 = .int 0
    · subst hv1
      rcases rest with _ | ⟨v2, rest'⟩
      · simp [emptySpec, lrun, lstep, DeqRes, DeqMid, absEv, decNext, decTail, dec, hq, List.filterMap_cons]
      · obtain ⟨x2, hx2⟩ := hwt v2 (by simp)
        by_cases hv2 : v2 = .ptr (.obj hk)
        · subst hv2
          simp [emptySpec, lrun, lstep, DeqRes, DeqMid, absEv, decNext, decTail, dec, hq, ht, List.filterMap_cons, emptyRes]
        · have hx2q : x2 ≠ q := fun e => hv2 (dec_inj L (e ▸ hx2) hdh)
          simp [emptySpec, hv2]
          generalize hEo : exec fuel deqMid _ _ = r
          obtain ⟨o, rfl, himp⟩ := deqMid_run1 L hEo hk tk q b mbv (by simp) (by simp [h2]) sl (by simp [h3]) hs1 hs2
            (by simp) hs4 (by simp [h4]) hq ht (by simp [hs4.symm, hcfg]) (fun w hw => hwt w (by simp [hw]))
          simp only []
          refine ⟨_, rfl, fun hside => ?_⟩
          obtain ⟨p', hrun, hres⟩ := himp (fun v mo hm => hside v mo (by simp [hm]))
          rw [hbb] at hrun hres
          refine ⟨p', ?_, hres⟩
          have hd0 : dec L (.int 0) = some 0 := by simp [dec]
          simp [absEv, decNext, decTail, hd0, hq, ht, hx2, List.filterMap_cons, lrun, lstep, hx2q, nonEmptyPc, hrun]
    · have hx10 : x1 ≠ 0 := fun e => hv1 (dec_eq_zero L (e ▸ hx1))
      simp [emptySpec, hv1]
      generalize hEo : exec fuel deqMid _ _ = r
      obtain ⟨o, rfl, himp⟩ := deqMid_run1 L hEo hk tk q b mbv (by simp) (by simp [h2]) sl (by simp [h3]) hs1 hs2
        (by simp) hs4 (by simp [h4]) hq ht (by simp [hs4.symm, hcfg]) (fun w hw => hwt w (by simp [hw]))
      simp only []
      refine ⟨_, rfl, fun hside => ?_⟩
      obtain ⟨p', hrun, hres⟩ := himp (fun v mo hm => hside v mo (by simp [hm]))
      rw [hbb] at hrun hres
      refine ⟨p', ?_, hres⟩
      simp [absEv, decNext, decTail, hq, ht, hx1, List.filterMap_cons, lrun, lstep, hx10, nonEmptyPc, hrun]
/-- **`___cds_wfcq_dequeue_with_state(head, tail, state, blocking)`** from L2's `e1 (.deq blocking) q` (after `callDeq`).
`state` is NULL or points to a private word that is not `&attempt`, the head's `next` word or the configuration
pseudo-global.  The run never fails; if no value loaded from `head->node.next` is the head itself (L2 invariant:
`next` words hold nodes `≥ 3` or NULL; L2's `syncGotPc` tells the two `sync_next` call sites of dequeue apart by
`a = q`), the events are L2's `ld1 (ld2) sync* d2 [d3 d4 [sync* (d6|d7)] | d6]` and the result is L2's. -/
theorem dequeue_refines_env (fuel : Nat) (env : Env) (hk tk q : Nat) (b mbv : Int) (inp : List Val) (sv : Val)
    (h1 : env.vars "u_head" = some (.ptr (.obj hk))) (h2 : env.vars "tail" = some (.ptr (.obj tk)))
    (h3 : env.vars "state" = some sv) (h4 : env.vars "blocking" = some (.int b))
    (hsv : sv = .int 0 ∨ ∃ sl, sv = .ptr sl ∧ sl ≠ .glob "&attempt" ∧ sl ≠ .field (.obj hk) "next" ∧
      sl ≠ .glob "CONFIG_RCU_EMIT_LEGACY_MB")
    (hq : L.addr hk = some q) (ht : L.tailOf tk = some q)
    (hcfg : env.priv (.glob "CONFIG_RCU_EMIT_LEGACY_MB") = some (.int mbv))
    (hwt : ∀ v ∈ inp, Typed L v) :
    ∃ out, exec fuel Gen.Src.«___cds_wfcq_dequeue_with_state» env inp = .ok out ∧
      ((∀ v mo, Event.ld (.field (.obj hk) "next") v mo ∈ out.events → v ≠ .ptr (.obj hk)) →
        ∃ p', lrun (.e1 (.deq (decide (b ≠ 0))) q) (out.events.filterMap (absEv L)) = some p' ∧
          DeqRes L q (decide (b ≠ 0)) b sv out p') := by
  rcases hsv with rfl | ⟨sl, rfl, hs1, hs2, hs4⟩
  · exact dequeue_run0 L fuel env hk tk q b mbv inp h1 h2 h3 h4 hq ht hcfg hwt
  · exact dequeue_run1 L fuel env hk tk q b mbv inp h1 h2 sl h3 hs1 hs2 hs4 h4 hq ht hcfg hwt

/-! # `___cds_wfcq_splice`

The only oracle value of splice that is *dereferenced* is the old destination tail returned by the `xchg` inside the
final `___cds_wfcq_append` (all other values are NULL-tested or stored): it must be a non-NULL object pointer (L2
invariant `tail q ≠ 0`), while the loop legitimately reads NULLs.  The side condition is therefore stated on the run of
the part of the function *before* that call (`splicePre`, the first 10 statements of the generated body): when it
completes, the next oracle value is an object pointer. -/

/-- the first `n` statements of a `block` -/
def initSeq : Nat → Stmt → Stmt
  | 0, _ => .skip
  | n+1, .seq a b => .seq a (initSeq n b)
  | _+1, s => s

/-- what is left after the first `n` statements of a `block` -/
def dropSeq : Nat → Stmt → Stmt
  | 0, s => s
  | n+1, .seq _ b => dropSeq n b
  | _+1, _ => .skip

/-- `a ; b` on results -/
def seqRes (ra : Except String Out) (fb : Env → List Val → Except String Out) : Except String Out :=
  match ra with
  | .error e => .error e
  | .ok o =>
    if o.ctl = .normal then
      match fb o.env o.inp with
      | .error e => .error e
      | .ok o2 => .ok { o2 with events := o.events ++ o2.events }
    else .ok o

theorem exec_seq_eq (fuel : Nat) (a b : Stmt) (env : Env) (inp : List Val) :
    exec fuel (.seq a b) env inp = seqRes (exec fuel a env inp) (exec fuel b) := by
  simp only [exec, seqRes, bind, Except.bind]
  cases exec fuel a env inp with
  | error e => rfl
  | ok o =>
    cases h : o.ctl <;> simp [h] <;> cases exec fuel b o.env o.inp <;> rfl

theorem seqRes_skip (r : Except String Out) : seqRes r (exec fuel .skip) = r := by
  cases r with
  | error e => rfl
  | ok o =>
    simp only [seqRes, exec]
    split
    · next h => cases o; simp_all
    · rfl

theorem exec_split (fuel : Nat) (n : Nat) : ∀ (s : Stmt) (env : Env) (inp : List Val),
    exec fuel s env inp = seqRes (exec fuel (initSeq n s) env inp) (exec fuel (dropSeq n s)) := by
  induction n with
  | zero =>
    intro s env inp
    simp only [initSeq, dropSeq, exec, seqRes, if_true]
    cases exec fuel s env inp <;> simp
  | succ n ih =>
    intro s env inp
    cases s with
    | seq a b =>
      simp only [initSeq, dropSeq]
      rw [exec_seq_eq, exec_seq_eq]
      cases ha : exec fuel a env inp with
      | error e => rfl
      | ok o =>
        by_cases hc : o.ctl = .normal
        · simp only [seqRes, hc, if_true]
          rw [ih b o.env o.inp]
          cases exec fuel (initSeq n b) o.env o.inp with
          | error e => rfl
          | ok o2 =>
            by_cases hc2 : o2.ctl = .normal
            · simp only [seqRes, hc2, if_true]
              cases exec fuel (dropSeq n b) o2.env o2.inp <;> simp [List.append_assoc]
            · simp [seqRes, hc2]
        · simp [seqRes, hc]
    | _ => simp only [initSeq, dropSeq, seqRes_skip]

/-- the body of the `for (;;)` of the generated `___cds_wfcq_splice` (extracted, not copied) -/
def spliceBody : Stmt :=
  match Gen.Src.«___cds_wfcq_splice» with
  | .seq _ (.seq _ (.seq _ (.seq _ (.seq _ (.seq _ (.seq (.loop b) _)))))) => b
  | _ => .skip

/-- the local variables the loop body assigns -/
def spliceTmp (y : String) : Prop := y = "_t3" ∨ y = "head" ∨ y = "_t4" ∨ y = "_t5"

theorem spliceBody_exec (fuel shk stk : Nat) (b c : Int) (env : Env) (inp : List Val)
    (h1 : env.vars "src_q_head" = some (.ptr (.obj shk))) (h2 : env.vars "src_q_tail" = some (.ptr (.obj stk)))
    (h3 : env.vars "blocking" = some (.int b)) (hp : env.priv (.glob "&attempt") = some (.int c)) :
    ∃ o, exec fuel spliceBody env inp = .ok o ∧ (∀ m, m ≠ .glob "&attempt" → o.env.priv m = env.priv m) ∧
      (∃ c', o.env.priv (.glob "&attempt") = some (.int c')) ∧ (∀ v ∈ o.inp, v ∈ inp) ∧
      ((inp = [] ∧ o.events = [] ∧ o.ctl = .blocked) ∨
       (∃ h, inp.head? = some h ∧ h ≠ .int 0 ∧ o.events = [.xchg (.field (.obj shk) "next") (.int 0) h 5] ∧
          o.ctl = .brk ∧ o.env.vars "head" = some h ∧ ∀ y, ¬ spliceTmp y → o.env.vars y = env.vars y) ∨
       (inp = [.int 0] ∧ o.events = [.xchg (.field (.obj shk) "next") (.int 0) (.int 0) 5] ∧ o.ctl = .blocked) ∨
       (∃ t rest evs, inp = .int 0 :: t :: rest ∧
          o.events = .xchg (.field (.obj shk) "next") (.int 0) (.int 0) 5 :: .ld (.field (.obj stk) "p") t 1 :: evs ∧
          evs.filterMap (absEv L) = [] ∧
          ((t = .ptr (.obj shk) ∧ o.ctl = .ret (some (.int 2))) ∨
           (t ≠ .ptr (.obj shk) ∧ b = 0 ∧ o.ctl = .ret (some (.int (-1)))) ∨
           (t ≠ .ptr (.obj shk) ∧ b ≠ 0 ∧ (o.ctl = .blocked ∨
              (o.ctl = .normal ∧ ∀ y, ¬ spliceTmp y → o.env.vars y = env.vars y)))))) := by
  rcases inp with _ | ⟨h, rest⟩
  · exact ⟨⟨[], env, [], .blocked⟩, by simp [spliceBody, Gen.Src.«___cds_wfcq_splice», block, exec, eval, evalArgs,
      execPrim, asLoc, bind, Except.bind, h1], fun _ _ => rfl, ⟨c, hp⟩, by simp, Or.inl ⟨rfl, rfl, rfl⟩⟩
  · by_cases hh : h = .int 0
    · subst hh
      rcases rest with _ | ⟨t, rest⟩
      · simp [spliceBody, Gen.Src.«___cds_wfcq_splice», block, exec, eval, evalArgs, execPrim, asLoc, bind, Except.bind,
          h1, h2, h3, hp, Env.setVar, setDst, Val.truthy]
      · by_cases ht : t = .ptr (.obj shk)
        · subst ht
          simp [spliceBody, Gen.Src.«___cds_wfcq_splice», block, exec, eval, evalArgs, execPrim, asLoc, bind, Except.bind,
            h1, h2, h3, hp, Env.setVar, setDst, Val.truthy, evalBin, boolV]
          exact fun v hv => Or.inr (Or.inr hv)
        · simp only [spliceBody, Gen.Src.«___cds_wfcq_splice», block, exec, eval, evalArgs, execPrim, asLoc, bind,
            Except.bind, h1, h2, h3, Env.setVar, setDst, evalBin, boolV, Val.truthy, List.length_cons, List.length_nil]
          simp only [String.reduceEq, if_true, if_false, decide_true, bne_iff_ne, ne_eq, Int.reduceEq, not_false_eq_true,
            not_true_eq_false, Int.one_ne_zero, h1, h2, h3, ht, bne_self_eq_false, Bool.false_eq_true, decide_false,
            decide_not, decide_eq_true_eq]
          generalize hE : exec fuel Gen.Src.«___cds_wfcq_busy_wait» _ _ = r
          rcases busy_exec L hE (.glob "&attempt") b c (by simp [bindParams]) (by simp [bindParams]) hp with
            ⟨hb, vars, rfl⟩ | ⟨hb, evs, inp', ctl, c', ⟨vars, rfl⟩, hf, hsub, hctl⟩
          · simp [hb, hp, ht]
            exact fun v hv => Or.inr (Or.inr hv)
          · rcases hctl with rfl | rfl
            · simp [hb, hp, ht]
              exact ⟨fun m h h' => absurd h' h, fun v hv => Or.inr (Or.inr (hsub v hv)), by simpa using hf⟩
            · simp [hb, hp, ht]
              refine ⟨fun m h h' => absurd h' h, fun v hv => Or.inr (Or.inr (hsub v hv)), by simpa using hf, ?_⟩
              intro y hy
              simp [spliceTmp] at hy
              simp [hy]
    · have hht : h.truthy = true := by cases h <;> simp_all [Val.truthy]
      simp [spliceBody, Gen.Src.«___cds_wfcq_splice», block, exec, eval, evalArgs, execPrim, asLoc, bind, Except.bind,
        h1, h2, h3, hp, Env.setVar, setDst, hht, hh]
      refine ⟨fun v hv => Or.inr hv, ?_⟩
      intro y hy
      simp [spliceTmp] at hy
      simp [hy]

/-- "the labels of `evs` take `.s3 dst src bb` to `f dst src`" for every destination queue -/
def SpliceRun (shk stk : Nat) (bb : Bool) (evs : List Event) (f : Nat → Nat → Pc) : Prop :=
  ∀ dst src, L.addr shk = some src → L.tailOf stk = some src →
    lrun (.s3 dst src bb) (evs.filterMap (absEv L)) = some (f dst src)

def SpliceLoopPost (shk stk : Nat) (b : Int) (bb : Bool) (env : Env) (inp : List Val) (out : Out) (evs : List Event) :
    Prop :=
  (∀ v ∈ out.inp, v ∈ inp) ∧ (∀ m, m ≠ .glob "&attempt" → out.env.priv m = env.priv m) ∧
  (∃ c', out.env.priv (.glob "&attempt") = some (.int c')) ∧
  (((out.ctl = .blocked ∨ out.ctl = .fuel) ∧
      (SpliceRun L shk stk bb evs (fun d s => .s3 d s bb) ∨ SpliceRun L shk stk bb evs (fun d s => .s4 d s bb))) ∨
   (out.ctl = .ret (some (.int 2)) ∧ SpliceRun L shk stk bb evs fun _ _ => .done .srcEmpty) ∨
   (out.ctl = .ret (some (.int (-1))) ∧ b = 0 ∧ SpliceRun L shk stk bb evs fun _ _ => .done .wouldblock) ∨
   (∃ h, out.ctl = .normal ∧ out.env.vars "head" = some h ∧ h ≠ .int 0 ∧ h ∈ inp ∧
      (∀ y, ¬ spliceTmp y → out.env.vars y = env.vars y) ∧
      ∀ hx, dec L h = some hx → SpliceRun L shk stk bb evs fun d s => .s5 d s hx))

theorem splice_loop (fuel shk stk : Nat) (b : Int) (bb : Bool) (hbb : bb = decide (b ≠ 0)) (n : Nat) :
    ∀ (env : Env) (inp : List Val) (acc : List Event) (c : Int),
      env.vars "src_q_head" = some (.ptr (.obj shk)) → env.vars "src_q_tail" = some (.ptr (.obj stk)) →
      env.vars "blocking" = some (.int b) → env.priv (.glob "&attempt") = some (.int c) → (∀ v ∈ inp, Typed L v) →
      ∃ out evs, iterate (fun e i => exec fuel spliceBody e i) n env inp acc = .ok out ∧ out.events = acc ++ evs ∧
        SpliceLoopPost L shk stk b bb env inp out evs := by
  have hd0 : dec L (.int 0) = some 0 := by simp [dec]
  induction n with
  | zero =>
    intro env inp acc c h1 h2 h3 hp hwt
    exact ⟨_, [], rfl, by simp, fun _ h => h, fun _ _ => rfl, ⟨c, hp⟩,
      Or.inl ⟨Or.inr rfl, Or.inl fun d s _ _ => rfl⟩⟩
  | succ n ih =>
    intro env inp acc c h1 h2 h3 hp hwt
    obtain ⟨o, ho, hpriv, ⟨c', hc'⟩, hsub, hcase⟩ := spliceBody_exec L fuel shk stk b c env inp h1 h2 h3 hp
    simp only [iterate, ho, bind, Except.bind]
    rcases hcase with ⟨rfl, hev, hctl⟩ | ⟨h, hhd, hh, hev, hctl, hhead, hvars⟩ | ⟨rfl, hev, hctl⟩ |
      ⟨t, rest, evs, rfl, hev, hf, hb⟩
    · simp only [hctl]
      exact ⟨_, [], rfl, by simp [hev], hsub, hpriv, ⟨c', hc'⟩, Or.inl ⟨Or.inl rfl, Or.inl fun d s _ _ => rfl⟩⟩
    · simp only [hctl]
      have hmem : h ∈ inp := by cases inp <;> simp_all
      refine ⟨_, o.events, rfl, rfl, hsub, hpriv, ⟨c', hc'⟩,
        Or.inr (Or.inr (Or.inr ⟨h, rfl, hhead, hh, hmem, hvars, ?_⟩))⟩
      intro hx hhx d s hs hts
      have hx0 : hx ≠ 0 := fun e => hh (dec_eq_zero L (e ▸ hhx))
      simp [hev, absEv, decNext, decTail, hd0, hhx, hs, List.filterMap_cons, lrun, lstep, hx0]
    · simp only [hctl]
      refine ⟨_, o.events, rfl, rfl, hsub, hpriv, ⟨c', hc'⟩, Or.inl ⟨Or.inl rfl, Or.inr ?_⟩⟩
      intro d s hs hts
      simp [hev, absEv, decNext, decTail, hd0, hs, List.filterMap_cons, lrun, lstep]
    · obtain ⟨tx, htx⟩ := hwt t (by simp)
      have hpre : ∀ (d s : Nat), L.addr shk = some s → L.tailOf stk = some s → ∀ rest' : List Event,
          lrun (.s3 d s bb) ((.xchg (.field (.obj shk) "next") (.int 0) (.int 0) 5 :: .ld (.field (.obj stk) "p") t 1 ::
            (evs ++ rest')).filterMap (absEv L)) =
          lrun (if tx = s then .done .srcEmpty else if bb then .s3 d s bb else .done .wouldblock)
            (rest'.filterMap (absEv L)) := by
        intro d s hs hts rest'
        simp [absEv, decNext, decTail, hd0, hs, hts, htx, List.filterMap_cons, List.filterMap_append, hf, lrun, lstep]
      have hpre0 := fun d s hs hts => hpre d s hs hts []
      simp only [List.append_nil, List.filterMap_nil, lrun] at hpre0
      rcases hb with ⟨ht, hctl⟩ | ⟨ht, hb0, hctl⟩ | ⟨ht, hb0, hctl | ⟨hctl, hvars⟩⟩
      · simp only [hctl]
        refine ⟨_, o.events, rfl, rfl, hsub, hpriv, ⟨c', hc'⟩, Or.inr (Or.inl ⟨rfl, ?_⟩)⟩
        intro d s hs hts
        have : tx = s := by subst ht; simp [dec, hs] at htx; exact htx.symm
        rw [hev, hpre0 d s hs hts]; simp [this]
      · simp only [hctl]
        refine ⟨_, o.events, rfl, rfl, hsub, hpriv, ⟨c', hc'⟩, Or.inr (Or.inr (Or.inl ⟨rfl, hb0, ?_⟩))⟩
        intro d s hs hts
        have : tx ≠ s := fun e => ht (dec_inj L (e ▸ htx) (by simp [dec, hs]))
        rw [hev, hpre0 d s hs hts]; simp [this, hbb, hb0]
      · simp only [hctl]
        refine ⟨_, o.events, rfl, rfl, hsub, hpriv, ⟨c', hc'⟩, Or.inl ⟨Or.inl rfl, Or.inl ?_⟩⟩
        intro d s hs hts
        have : tx ≠ s := fun e => ht (dec_inj L (e ▸ htx) (by simp [dec, hs]))
        rw [hev, hpre0 d s hs hts]; simp [this, hbb, hb0]
      · simp only [hctl]
        obtain ⟨out, evs', hit, hevs, hsub2, hpriv2, hc2, hpost⟩ := ih o.env o.inp (acc ++ o.events) c'
          (by rw [hvars _ (by simp [spliceTmp]), h1]) (by rw [hvars _ (by simp [spliceTmp]), h2])
          (by rw [hvars _ (by simp [spliceTmp]), h3]) hc' (fun v hv => hwt v (hsub v hv))
        have hlift : ∀ f, SpliceRun L shk stk bb evs' f → SpliceRun L shk stk bb (o.events ++ evs') f := by
          intro f hf' d s hs hts
          have : tx ≠ s := fun e => ht (dec_inj L (e ▸ htx) (by simp [dec, hs]))
          have hbt : bb = true := by simp [hbb, hb0]
          rw [hev, List.cons_append, List.cons_append, hpre d s hs hts evs']
          simp only [this, hbt, if_true, if_false]
          simpa [hbt] using hf' d s hs hts
        refine ⟨out, o.events ++ evs', hit, by simp [hevs], fun v hv => hsub v (hsub2 v hv), ?_, hc2, ?_⟩
        · intro m hm; rw [hpriv2 m hm, hpriv m hm]
        · rcases hpost with ⟨hc, hr | hr⟩ | ⟨hc, hr⟩ | ⟨hc, hb', hr⟩ | ⟨h, hc, hhead, hh, hmem, hv2, hr⟩
          · exact Or.inl ⟨hc, Or.inl (hlift _ hr)⟩
          · exact Or.inl ⟨hc, Or.inr (hlift _ hr)⟩
          · exact Or.inr (Or.inl ⟨hc, hlift _ hr⟩)
          · exact Or.inr (Or.inr (Or.inl ⟨hc, hb', hlift _ hr⟩))
          · exact Or.inr (Or.inr (Or.inr ⟨h, hc, hhead, hh, hsub h hmem,
              fun y hy => by rw [hv2 y hy, hvars y hy], fun hx hhx => hlift _ (hr hx hhx)⟩))

/-- the part of the generated splice before the final `___cds_wfcq_append` call (first 10 statements) -/
def splicePre : Stmt := initSeq 10 Gen.Src.«___cds_wfcq_splice»

/-- … and of that, the part from the loop on: loop, legacy mb, `xchg` of the source tail, `tail = …` -/
def spliceAfter : Stmt := dropSeq 6 splicePre

/-- pcs at which a splice can be cut before its append -/
def SpliceMid (dst src : Nat) (bb : Bool) (p : Pc) : Prop :=
  p = .e1 (.splice dst bb) src ∨ p = .e2 (.splice dst bb) src ∨ p = .s3 dst src bb ∨ p = .s4 dst src bb ∨
    ∃ h, p = .s5 dst src h

/-- result of the part of splice before the append, run from pc `p0` -/
def SplicePreRes (dhk dtk : Nat) (b : Int) (bb : Bool) (dst src : Nat) (out : Out) (p' : Pc) : Prop :=
  ((out.ctl = .blocked ∨ out.ctl = .fuel) ∧ SpliceMid dst src bb p') ∨
  (out.ctl = .ret (some (.int 2)) ∧ p' = .done .srcEmpty) ∨
  (out.ctl = .ret (some (.int (-1))) ∧ b = 0 ∧ p' = .done .wouldblock) ∨
  (∃ h tl hx tlx, out.ctl = .normal ∧ out.env.vars "head" = some h ∧ out.env.vars "tail" = some tl ∧
    dec L h = some hx ∧ dec L tl = some tlx ∧ out.env.vars "dest_q_head" = some (.ptr (.obj dhk)) ∧
    out.env.vars "dest_q_tail" = some (.ptr (.obj dtk)) ∧ p' = .s6 dst src hx tlx)

theorem spliceAfter_run {fuel : Nat} {env : Env} {inp : List Val} {r : Except String Out}
    (hE0 : exec fuel spliceAfter env inp = r) (dhk dtk shk stk src : Nat) (b mbv c : Int)
    (h1 : env.vars "src_q_head" = some (.ptr (.obj shk))) (h2 : env.vars "src_q_tail" = some (.ptr (.obj stk)))
    (h3 : env.vars "blocking" = some (.int b)) (h4 : env.vars "dest_q_head" = some (.ptr (.obj dhk)))
    (h5 : env.vars "dest_q_tail" = some (.ptr (.obj dtk)))
    (hp : env.priv (.glob "&attempt") = some (.int c))
    (hcfg : env.priv (.glob "CONFIG_RCU_EMIT_LEGACY_MB") = some (.int mbv))
    (hs : L.addr shk = some src) (hts : L.tailOf stk = some src) (hwt : ∀ v ∈ inp, Typed L v) :
    ∃ out, r = .ok out ∧ (∀ v ∈ out.inp, v ∈ inp) ∧
      ∀ dst, ∃ p', lrun (.s3 dst src (decide (b ≠ 0))) (out.events.filterMap (absEv L)) = some p' ∧
        SplicePreRes L dhk dtk b (decide (b ≠ 0)) dst src out p' := by
  subst hE0
  generalize hbb : decide (b ≠ 0) = bb
  rw [show spliceAfter = Stmt.seq (.loop spliceBody) (.seq _ (.seq _ (.seq _ .skip))) from rfl]
  simp only [exec, bind, Except.bind]
  obtain ⟨out, evs, hit, hevs, hsub, hpriv, hc2, hpost⟩ :=
    splice_loop L fuel shk stk b bb hbb.symm fuel env inp [] c h1 h2 h3 hp hwt
  simp only [hit, List.nil_append] at hevs ⊢
  rcases hpost with ⟨hc, hr | hr⟩ | ⟨hc, hr⟩ | ⟨hc, hb', hr⟩ | ⟨h, hc, hhead, hh, hmem, hvars, hr⟩
  · have hc' := hc
    rcases hc with hc | hc <;> simp only [hc] <;>
      exact ⟨_, rfl, hsub, fun dst => ⟨_, by rw [hevs]; exact hr dst src hs hts,
        Or.inl ⟨hc', Or.inr (Or.inr (Or.inl rfl))⟩⟩⟩
  · have hc' := hc
    rcases hc with hc | hc <;> simp only [hc] <;>
      exact ⟨_, rfl, hsub, fun dst => ⟨_, by rw [hevs]; exact hr dst src hs hts,
        Or.inl ⟨hc', Or.inr (Or.inr (Or.inr (Or.inl rfl)))⟩⟩⟩
  · simp only [hc]
    exact ⟨_, rfl, hsub, fun dst => ⟨_, by rw [hevs]; exact hr dst src hs hts, Or.inr (Or.inl ⟨hc, rfl⟩)⟩⟩
  · simp only [hc]
    exact ⟨_, rfl, hsub, fun dst => ⟨_, by rw [hevs]; exact hr dst src hs hts, Or.inr (Or.inr (Or.inl ⟨hc, hb', rfl⟩))⟩⟩
  · obtain ⟨hx, hhx⟩ := hwt h hmem
    have hx0 : hx ≠ 0 := fun e => hh (dec_eq_zero L (e ▸ hhx))
    have hv1 : out.env.vars "src_q_head" = some (.ptr (.obj shk)) := by rw [hvars _ (by simp [spliceTmp]), h1]
    have hv2 : out.env.vars "src_q_tail" = some (.ptr (.obj stk)) := by rw [hvars _ (by simp [spliceTmp]), h2]
    have hv4 : out.env.vars "dest_q_head" = some (.ptr (.obj dhk)) := by rw [hvars _ (by simp [spliceTmp]), h4]
    have hv5 : out.env.vars "dest_q_tail" = some (.ptr (.obj dtk)) := by rw [hvars _ (by simp [spliceTmp]), h5]
    have hcfg2 : out.env.priv (.glob "CONFIG_RCU_EMIT_LEGACY_MB") = some (.int mbv) := by
      rw [hpriv _ (by simp)]; exact hcfg
    have hr' := fun dst => hr hx hhx dst src hs hts
    rw [← hevs] at hr'
    rcases hinp : out.inp with _ | ⟨tl, rest⟩
    · by_cases hmb : mbv = 0 <;>
      · simp [hc, exec, eval, evalArgs, execPrim, asLoc, bind, Except.bind, hcfg2, hv1, hv2, Val.truthy, hmb, hinp]
        intro dst
        refine ⟨_, ?_, Or.inl ⟨Or.inl rfl, Or.inr (Or.inr (Or.inr (Or.inr ⟨hx, rfl⟩)))⟩⟩
        simp [lrun_append, hr' dst, absEv, List.filterMap_cons, lrun]
    · obtain ⟨tlx, htlx⟩ := hwt tl (hsub tl (by simp [hinp]))
      by_cases hmb : mbv = 0 <;>
      · simp [hc, exec, eval, evalArgs, execPrim, asLoc, bind, Except.bind, hcfg2, hv1, hv2, Val.truthy, hmb, hinp,
          Env.setVar, setDst]
        refine ⟨fun v hv => hsub v (by simp [hinp, hv]), fun dst => ⟨.s6 dst src hx tlx, ?_,
          Or.inr (Or.inr (Or.inr ⟨h, tl, hx, tlx, rfl, by simp [hhead], by simp, hhx, htlx, by simp [hv4], by simp [hv5], rfl⟩))⟩⟩
        have hds : dec L (.ptr (.obj shk)) = some src := by simp [dec, hs]
        simp [lrun_append, hr' dst, absEv, decNext, decTail, hts, hds, htlx, List.filterMap_cons, lrun, lstep]

theorem splicePre_run (fuel : Nat) (env : Env) (dhk dtk shk stk src : Nat) (b mbv : Int) (inp : List Val)
    (h1 : env.vars "u_dest_q_head" = some (.ptr (.obj dhk))) (h2 : env.vars "dest_q_tail" = some (.ptr (.obj dtk)))
    (h3 : env.vars "u_src_q_head" = some (.ptr (.obj shk))) (h4 : env.vars "src_q_tail" = some (.ptr (.obj stk)))
    (h5 : env.vars "blocking" = some (.int b))
    (hcfg : env.priv (.glob "CONFIG_RCU_EMIT_LEGACY_MB") = some (.int mbv))
    (hs : L.addr shk = some src) (hts : L.tailOf stk = some src) (hwt : ∀ v ∈ inp, Typed L v) :
    ∃ out, exec fuel splicePre env inp = .ok out ∧ (∀ v ∈ out.inp, v ∈ inp) ∧
      ∀ dst, ∃ p', lrun (.e1 (.splice dst (decide (b ≠ 0))) src) (out.events.filterMap (absEv L)) = some p' ∧
        SplicePreRes L dhk dtk b (decide (b ≠ 0)) dst src out p' := by
  generalize hbb : decide (b ≠ 0) = bb
  have hdh : dec L (.ptr (.obj shk)) = some src := by simp [dec, hs]
  have hd0 : dec L (.int 0) = some 0 := by simp [dec]
  rw [show splicePre = Stmt.seq _ (.seq _ (.seq _ (.seq _ (.seq _ (.seq _ spliceAfter))))) from rfl]
  simp [block, exec, eval, evalArgs, bindParams, asLoc, bind, Except.bind, Env.setVar, Env.setPriv, setDst, Val.truthy,
      evalBin, evalUn, boolV, h1, h2, h3, h4, h5]
  generalize hE : exec fuel Gen.Src.«_cds_wfcq_empty» _ _ = r
  obtain ⟨vars, rfl⟩ := empty_exec hE shk stk (by simp) (by simp)
  clear hE
  rcases inp with _ | ⟨v1, rest⟩
  · simp [emptySpec, lrun, SplicePreRes, SpliceMid]
  · obtain ⟨x1, hx1⟩ := hwt v1 (by simp)
    by_cases hv1 : v1 = .int 0
    · subst hv1
      rcases rest with _ | ⟨v2, rest'⟩
      · simp [emptySpec, lrun, lstep, SplicePreRes, SpliceMid, absEv, decNext, decTail, hd0, hs, List.filterMap_cons]
      · obtain ⟨x2, hx2⟩ := hwt v2 (by simp)
        by_cases hv2 : v2 = .ptr (.obj shk)
        · subst hv2
          simp [emptySpec, lrun, lstep, SplicePreRes, SpliceMid, absEv, decNext, decTail, hd0, hdh, hs, hts,
            List.filterMap_cons, emptyRes]
          exact fun v hv => Or.inr (Or.inr hv)
        · have hx2q : x2 ≠ src := fun e => hv2 (dec_inj L (e ▸ hx2) hdh)
          simp [emptySpec, hv2]
          generalize hEo : exec fuel spliceAfter _ _ = r
          obtain ⟨o, rfl, hsub, himp⟩ := spliceAfter_run L hEo dhk dtk shk stk src b mbv 0 (by simp) (by simp [h4])
            (by simp [h5]) (by simp) (by simp [h2]) (by simp) (by simp [hcfg]) hs hts (fun w hw => hwt w (by simp [hw]))
          simp only []
          refine ⟨_, rfl, fun v hv => by simp [hsub v hv], fun dst => ?_⟩
          obtain ⟨p', hrun, hres⟩ := himp dst
          rw [hbb] at hrun hres
          refine ⟨p', ?_, hres⟩
          simp [absEv, decNext, decTail, hd0, hs, hts, hx2, List.filterMap_cons, lrun, lstep, hx2q, nonEmptyPc, hrun]
    · have hx10 : x1 ≠ 0 := fun e => hv1 (dec_eq_zero L (e ▸ hx1))
      simp [emptySpec, hv1]
      generalize hEo : exec fuel spliceAfter _ _ = r
      obtain ⟨o, rfl, hsub, himp⟩ := spliceAfter_run L hEo dhk dtk shk stk src b mbv 0 (by simp) (by simp [h4])
        (by simp [h5]) (by simp) (by simp [h2]) (by simp) (by simp [hcfg]) hs hts (fun w hw => hwt w (by simp [hw]))
      simp only []
      refine ⟨_, rfl, fun v hv => by simp [hsub v hv], fun dst => ?_⟩
      obtain ⟨p', hrun, hres⟩ := himp dst
      rw [hbb] at hrun hres
      refine ⟨p', ?_, hres⟩
      simp [absEv, decNext, decTail, hs, hts, hx1, List.filterMap_cons, lrun, lstep, hx10, nonEmptyPc, hrun]

/-- how `___cds_wfcq_splice` ends, against L2's result -/
def SpliceRes (dst src : Nat) (b : Int) (bb : Bool) (out : Out) (p' : Pc) : Prop :=
  ((out.ctl = .blocked ∨ out.ctl = .fuel) ∧ (SpliceMid dst src bb p' ∨ ∃ h tl, p' = .s6 dst src h tl)) ∨
  (out.ctl = .ret (some (.int 2)) ∧ p' = .done .srcEmpty) ∨
  (out.ctl = .ret (some (.int (-1))) ∧ b = 0 ∧ p' = .done .wouldblock) ∨
  (∃ ne : Bool, out.ctl = .ret (some (.int (if ne then 1 else 0))) ∧ p' = .done (.dest ne))

theorem splice_refines_env (fuel : Nat) (env : Env) (dhk dtk shk stk dst src : Nat) (b mbv : Int) (inp : List Val)
    (h1 : env.vars "u_dest_q_head" = some (.ptr (.obj dhk))) (h2 : env.vars "dest_q_tail" = some (.ptr (.obj dtk)))
    (h3 : env.vars "u_src_q_head" = some (.ptr (.obj shk))) (h4 : env.vars "src_q_tail" = some (.ptr (.obj stk)))
    (h5 : env.vars "blocking" = some (.int b))
    (hcfg : env.priv (.glob "CONFIG_RCU_EMIT_LEGACY_MB") = some (.int mbv))
    (hd : L.addr dhk = some dst) (htd : L.tailOf dtk = some dst)
    (hs : L.addr shk = some src) (hts : L.tailOf stk = some src) (hwt : ∀ v ∈ inp, Typed L v)
    (hdst : ∀ o, exec fuel splicePre env inp = .ok o → o.ctl = .normal → ∀ v, o.inp.head? = some v → IsObj L v) :
    ∃ out, exec fuel Gen.Src.«___cds_wfcq_splice» env inp = .ok out ∧
      ∃ p', lrun (.e1 (.splice dst (decide (b ≠ 0))) src) (out.events.filterMap (absEv L)) = some p' ∧
        SpliceRes dst src b (decide (b ≠ 0)) out p' := by
  generalize hbb : decide (b ≠ 0) = bb
  rw [exec_split fuel 10 Gen.Src.«___cds_wfcq_splice» env inp]
  obtain ⟨o, ho, hsub, himp⟩ := splicePre_run L fuel env dhk dtk shk stk src b mbv inp h1 h2 h3 h4 h5 hcfg hs hts hwt
  have hdst' := hdst o ho
  obtain ⟨p', hrun, hres⟩ := himp dst
  rw [hbb] at hrun hres
  rw [show initSeq 10 Gen.Src.«___cds_wfcq_splice» = splicePre from rfl, ho]
  rcases hres with ⟨hc, hm⟩ | ⟨hc, hp⟩ | ⟨hc, hb0, hp⟩ | ⟨h, tl, hx, tlx, hc, hhead, htail, hhx, htlx, hv4, hv5, hp⟩
  · have : o.ctl ≠ .normal := by rcases hc with hc | hc <;> simp [hc]
    simp only [seqRes, this, if_false]
    exact ⟨_, rfl, p', hrun, Or.inl ⟨hc, Or.inl hm⟩⟩
  · simp only [seqRes, hc, reduceCtorEq, if_false]
    exact ⟨_, rfl, p', hrun, Or.inr (Or.inl ⟨hc, hp⟩)⟩
  · simp only [seqRes, hc, reduceCtorEq, if_false]
    exact ⟨_, rfl, p', hrun, Or.inr (Or.inr (Or.inl ⟨hc, hb0, hp⟩))⟩
  · simp only [seqRes, hc, if_true]
    rw [show dropSeq 10 Gen.Src.«___cds_wfcq_splice» = Stmt.seq _ _ from rfl]
    simp only [exec, eval, evalArgs, bind, Except.bind, hhead, htail, hv4, hv5, List.length_cons, List.length_nil]
    generalize hE : exec fuel Gen.Src.«___cds_wfcq_append» _ _ = r
    rcases append_exec hE dhk dtk h tl (by simp [bindParams]) (by simp [bindParams]) (by simp [bindParams])
      (by simp [bindParams]) with ⟨hnil, vars, rfl⟩ | ⟨v, rest, hinp, hh⟩
    · subst hp
      simp [block, exec, lrun_append, hrun]
      exact Or.inl ⟨Or.inl rfl, Or.inr ⟨_, _, rfl⟩⟩
    · obtain ⟨k, a, rfl, hk'⟩ := hdst' hc v (by simp [hinp])
      obtain ⟨vars, rfl⟩ := hh _ rfl
      subst hp
      have hdk : dec L (.ptr (.obj k)) = some a := by simp [dec, hk']
      have hb : decide (k = dhk) = decide (a = dst) := by
        by_cases e : k = dhk
        · subst e; simp_all
        · have : a ≠ dst := fun e' => e (L.addr_inj _ _ _ hk' (e' ▸ hd))
          simp [e, this]
      by_cases e : a = dst
      · have ek : k = dhk := L.addr_inj _ _ _ hk' (e ▸ hd)
        subst ek
        simp [block, exec, eval, setDst, Env.setVar, boolV, Val.truthy, bind, Except.bind]
        refine ⟨.done (.dest false), ?_, Or.inr (Or.inr (Or.inr ⟨false, rfl, rfl⟩))⟩
        simp [lrun_append, hrun, absEv, decNext, decTail, htd, hk', hhx, htlx, hdk, List.filterMap_cons, lrun, lstep, e]
      · have ek : k ≠ dhk := fun e' => e (by subst e'; simpa [hd] using hk'.symm)
        simp [block, exec, eval, setDst, Env.setVar, boolV, Val.truthy, bind, Except.bind, ek]
        refine ⟨.done (.dest true), ?_, Or.inr (Or.inr (Or.inr ⟨true, rfl, rfl⟩))⟩
        simp [lrun_append, hrun, absEv, decNext, decTail, htd, hk', hhx, htlx, hdk, List.filterMap_cons, lrun, lstep, e]

end UrcuVerif.Src.Queue.WfcqR
