import UrcuVerif.Src.QueueRefine
/-!
# `___cds_wfcq_dequeue_with_state` and `___cds_wfcq_splice` ⊑ thread-local projection of `Wfcq/Model.lean`
(continuation of `Src/QueueRefine.lean`; same layout / `absEv`)
-/
set_option linter.unusedSimpArgs false
set_option linter.unusedVariables false
namespace UrcuVerif.Src.Queue.WfcqR
open UrcuVerif.Src UrcuVerif.Wfcq WfcqL
variable (L : Layout)

theorem dec_obj {v : Val} {x : Nat} (h : dec L v = some x) (hx : x ≠ 0) : ∃ k, v = .ptr (.obj k) ∧ L.addr k = some x := by
  unfold dec at h
  split at h
  · split at h <;> simp_all
  · exact ⟨_, rfl, h⟩
  · simp at h

/-- the part of the generated `___cds_wfcq_dequeue_with_state` from `next = uatomic_load(&node->next)` on -/
def deqTail : Stmt :=
  match Gen.Src.«___cds_wfcq_dequeue_with_state» with
  | .seq _ (.seq _ (.seq _ (.seq _ (.seq _ (.seq _ (.seq _ t)))))) => t
  | _ => .skip

def mbEvW (mbv : Int) : List Event := if mbv = 0 then [] else [.fence .mb]

/-- how the tail of a dequeue that found node `nd` (object `k`) ends -/
def DeqEnd (k q nd : Nat) (bb : Bool) (b : Int) (sv : Val) (out : Out) (p' : Pc) : Prop :=
  ((out.ctl = .blocked ∨ out.ctl = .fuel) ∧ (p' = .d2 q nd bb ∨ p' = .d4 q nd bb ∨ p' = .sync (.deq bb) q nd)) ∨
  (out.ctl = .ret (some (.int (-1))) ∧ b = 0 ∧ p' = .done .wouldblock) ∨
  (∃ last : Bool, out.ctl = .ret (some (.ptr (.obj k))) ∧ p' = .done (.node nd last) ∧
    ∀ sl, sv = .ptr sl → out.env.priv sl = some (.int (if last then 1 else 0)))

local macro "deq_exec" : tactic =>
  `(tactic| simp [deqTail, Gen.Src.«___cds_wfcq_dequeue_with_state», Gen.Src.«_cds_wfcq_node_init_atomic», block, exec,
      eval, evalArgs, execPrim, bindParams, asLoc, bind, Except.bind, Env.setVar, Env.setPriv, setDst, Val.truthy,
      evalBin, evalUn, boolV, *])

local macro "deq_simp" : tactic =>
  `(tactic| simp [deqTail, Gen.Src.«___cds_wfcq_dequeue_with_state», Gen.Src.«_cds_wfcq_node_init_atomic», block, exec,
      eval, evalArgs, execPrim, bindParams, asLoc, bind, Except.bind, Env.setVar, Env.setPriv, setDst, Val.truthy,
      evalBin, evalUn, boolV, absEv, decNext, decTail, List.filterMap_cons, List.filterMap_append, lrun, lstep, mbEvW, DeqEnd, *])

theorem deqTail_run0 (fuel : Nat) (env : Env) (hk tk k q nd : Nat) (b mbv : Int) (inp : List Val)
    (hh : env.vars "head" = some (.ptr (.obj hk))) (htl : env.vars "tail" = some (.ptr (.obj tk)))
    (hnode : env.vars "node" = some (.ptr (.obj k))) (hst : env.vars "state" = some (.int 0))
    (hbl : env.vars "blocking" = some (.int b))
    (hq : L.addr hk = some q) (ht : L.tailOf tk = some q) (hk' : L.addr k = some nd) (hne : nd ≠ q)
    (hcfg : env.priv (.glob "CONFIG_RCU_EMIT_LEGACY_MB") = some (.int mbv))
    (hwt : ∀ v ∈ inp, Typed L v) :
    ∃ out, exec fuel deqTail env inp = .ok out ∧
      ∃ p', lrun (.d2 q nd (decide (b ≠ 0))) (out.events.filterMap (absEv L)) = some p' ∧
        DeqEnd k q nd (decide (b ≠ 0)) b (.int 0) out p' := by
  generalize hbb : decide (b ≠ 0) = bb
  have hd0 : dec L (.int 0) = some 0 := by simp [dec]
  have hdk : dec L (.ptr (.obj k)) = some nd := by simp [dec, hk']
  have hdh : dec L (.ptr (.obj hk)) = some q := by simp [dec, hq]
  rcases inp with _ | ⟨v1, rest⟩
  · deq_simp
  · obtain ⟨x1, hx1⟩ := hwt v1 (by simp)
    by_cases hv1 : v1 = .int 0
    · subst hv1
      rcases rest with _ | ⟨v2, rest2⟩
      · deq_simp
      · obtain ⟨x2, hx2⟩ := hwt v2 (by simp)
        by_cases hv2 : v2 = .ptr (.obj k)
        · subst hv2
          by_cases hmb : mbv = 0 <;> deq_simp
        · have hx2 : x2 ≠ nd := fun e => hv2 (dec_inj L (e ▸ hx2) hdk)
          deq_simp
          generalize hE : exec fuel Gen.Src.«___cds_wfcq_node_sync_next» _ _ = r
          obtain ⟨o2, rfl, hsub, hpriv, hres⟩ := sync_next_run L hE k b (by simp) (by simp)
          have hcfg2 : o2.env.priv (.glob "CONFIG_RCU_EMIT_LEGACY_MB") = some (.int mbv) := by
            rw [hpriv _ (by simp)]; simp [hcfg]
          have hkb : (K.deq bb).blocking = decide (b ≠ 0) := hbb.symm
          have hpre : ∀ rest : List Event, lrun (Pc.d2 q nd bb) (List.filterMap (absEv L)
              (Event.ld ((Loc.obj k).field "next") (Val.int 0) 1 :: Event.st ((Loc.obj hk).field "next") (Val.int 0) 0 ::
                Event.cas ((Loc.obj tk).field "p") (Val.ptr (Loc.obj k)) (Val.ptr (Loc.obj hk)) v2 5 5 :: rest)) =
              lrun (Pc.sync (K.deq bb) q nd) (List.filterMap (absEv L) rest) := by
            intro rest
            simp [absEv, decNext, decTail, List.filterMap_cons, lrun, lstep, *]
          rcases hres with ⟨hc, hr⟩ | ⟨hc, hb, hr⟩ | ⟨v, hc, hv0, hmem, hld, hr⟩
          · have hr' := hr (.deq bb) q nd hk' hkb
            rcases hc with hc | hc <;> simp only [hc] <;>
              exact ⟨_, rfl, _, by simp only [List.cons_append, List.nil_append]; rw [hpre, hr'],
                Or.inl ⟨by simp, Or.inr (Or.inr rfl)⟩⟩
          · have hr' := hr (.deq bb) q nd hk' hkb
            subst hb
            deq_exec
            rw [lrun_append, hr']
            simp [syncWbPc, hne, absEv, decNext, decTail, List.filterMap_cons, lrun, lstep, *]
          · obtain ⟨x, hx⟩ := hwt v (by simp [hmem])
            have hx0 : x ≠ 0 := fun e => hv0 (dec_eq_zero L (e ▸ hx))
            have hr' := hr x hx (.deq bb) q nd hk' hkb
            have hvm : v ≠ .int (-1) := by rintro rfl; simp [dec] at hx
            by_cases hmb : mbv = 0 <;>
            · deq_exec
              rw [lrun_append, hr']
              simp [syncGotPc, hne, absEv, decNext, decTail, List.filterMap_cons, lrun, lstep, *]
    · have hx10 : x1 ≠ 0 := fun e => hv1 (dec_eq_zero L (e ▸ hx1))
      by_cases hmb : mbv = 0 <;> deq_simp
theorem deqTail_run1 (fuel : Nat) (env : Env) (hk tk k q nd : Nat) (b mbv : Int) (inp : List Val)
    (hh : env.vars "head" = some (.ptr (.obj hk))) (htl : env.vars "tail" = some (.ptr (.obj tk)))
    (hnode : env.vars "node" = some (.ptr (.obj k))) (sl : Loc) (hst : env.vars "state" = some (.ptr sl))
    (hs1 : sl ≠ .glob "&attempt") (hs2 : sl ≠ .field (.obj hk) "next") (hs3 : env.priv sl = some (.int 0))
    (hs4 : sl ≠ .glob "CONFIG_RCU_EMIT_LEGACY_MB")
    (hbl : env.vars "blocking" = some (.int b))
    (hq : L.addr hk = some q) (ht : L.tailOf tk = some q) (hk' : L.addr k = some nd) (hne : nd ≠ q)
    (hcfg : env.priv (.glob "CONFIG_RCU_EMIT_LEGACY_MB") = some (.int mbv))
    (hwt : ∀ v ∈ inp, Typed L v) :
    ∃ out, exec fuel deqTail env inp = .ok out ∧
      ∃ p', lrun (.d2 q nd (decide (b ≠ 0))) (out.events.filterMap (absEv L)) = some p' ∧
        DeqEnd k q nd (decide (b ≠ 0)) b (.ptr sl) out p' := by
  generalize hbb : decide (b ≠ 0) = bb
  have hs4' := hs4.symm
  have hs2' := hs2.symm
  have hd0 : dec L (.int 0) = some 0 := by simp [dec]
  have hdk : dec L (.ptr (.obj k)) = some nd := by simp [dec, hk']
  have hdh : dec L (.ptr (.obj hk)) = some q := by simp [dec, hq]
  rcases inp with _ | ⟨v1, rest⟩
  · deq_simp
  · obtain ⟨x1, hx1⟩ := hwt v1 (by simp)
    by_cases hv1 : v1 = .int 0
    · subst hv1
      rcases rest with _ | ⟨v2, rest2⟩
      · deq_simp
      · obtain ⟨x2, hx2⟩ := hwt v2 (by simp)
        by_cases hv2 : v2 = .ptr (.obj k)
        · subst hv2
          by_cases hmb : mbv = 0 <;> deq_simp
        · have hx2 : x2 ≠ nd := fun e => hv2 (dec_inj L (e ▸ hx2) hdk)
          deq_simp
          generalize hE : exec fuel Gen.Src.«___cds_wfcq_node_sync_next» _ _ = r
          obtain ⟨o2, rfl, hsub, hpriv, hres⟩ := sync_next_run L hE k b (by simp) (by simp)
          have hcfg2 : o2.env.priv (.glob "CONFIG_RCU_EMIT_LEGACY_MB") = some (.int mbv) := by
            rw [hpriv _ (by simp)]; simp [hcfg]
          have hsl2 : o2.env.priv sl = some (.int 0) := by rw [hpriv _ hs1]; simp [hs2, hs3]
          have hkb : (K.deq bb).blocking = decide (b ≠ 0) := hbb.symm
          have hpre : ∀ rest : List Event, lrun (Pc.d2 q nd bb) (List.filterMap (absEv L)
              (Event.ld ((Loc.obj k).field "next") (Val.int 0) 1 :: Event.st ((Loc.obj hk).field "next") (Val.int 0) 0 ::
                Event.cas ((Loc.obj tk).field "p") (Val.ptr (Loc.obj k)) (Val.ptr (Loc.obj hk)) v2 5 5 :: rest)) =
              lrun (Pc.sync (K.deq bb) q nd) (List.filterMap (absEv L) rest) := by
            intro rest
            simp [absEv, decNext, decTail, List.filterMap_cons, lrun, lstep, *]
          rcases hres with ⟨hc, hr⟩ | ⟨hc, hb, hr⟩ | ⟨v, hc, hv0, hmem, hld, hr⟩
          · have hr' := hr (.deq bb) q nd hk' hkb
            rcases hc with hc | hc <;> simp only [hc] <;>
              exact ⟨_, rfl, _, by simp only [List.cons_append, List.nil_append]; rw [hpre, hr'],
                Or.inl ⟨by simp, Or.inr (Or.inr rfl)⟩⟩
          · have hr' := hr (.deq bb) q nd hk' hkb
            subst hb
            deq_exec
            rw [lrun_append, hr']
            simp [syncWbPc, hne, absEv, decNext, decTail, List.filterMap_cons, lrun, lstep, *]
          · obtain ⟨x, hx⟩ := hwt v (by simp [hmem])
            have hx0 : x ≠ 0 := fun e => hv0 (dec_eq_zero L (e ▸ hx))
            have hr' := hr x hx (.deq bb) q nd hk' hkb
            have hvm : v ≠ .int (-1) := by rintro rfl; simp [dec] at hx
            by_cases hmb : mbv = 0 <;>
            · deq_exec
              rw [lrun_append, hr']
              simp [syncGotPc, hne, absEv, decNext, decTail, List.filterMap_cons, lrun, lstep, *]
    · have hx10 : x1 ≠ 0 := fun e => hv1 (dec_eq_zero L (e ▸ hx1))
      by_cases hmb : mbv = 0 <;> deq_simp
end UrcuVerif.Src.Queue.WfcqR
