import UrcuVerif.Src.FutexCallRcu
/-!
# defer thread futex (`src/urcu-defer-impl.h`): `wake_up_defer()`

`wake_up_defer()` ⊑ generic waker on `&defer_thread_futex` (`WakePost`), hence ⊑ owner `i` of `Defer/ConcWake.lean` from pc
`k1` (`Df.simK`; L2's `k0`, `kf` – the store of `head` and the `cmm_smp_mb()` – are in the caller `_defer_rcu`).
Side condition: FUTEX_WAKE returns an integer `≥ 0` (`WakeRetOk`).
-/
set_option maxRecDepth 8192
set_option linter.unusedSimpArgs false
set_option linter.unusedVariables false
namespace UrcuVerif.Src.Futex
open UrcuVerif UrcuVerif.Src UrcuVerif.Gen.Src

/-- `&defer_thread_futex` -/
@[simp] def dfF : Loc := .glob "defer_thread_futex"

theorem src_wake_up_defer (fuel : Nat) (env : Env) (inp : List Val) (hr : WakeRetOk inp) :
    ∃ out, exec fuel «wake_up_defer» env inp = .ok out ∧ WakePost dfF "futex_noasync" env out := by
  unfold WakeRetOk at hr
  wake_cases (wake_leaf [«wake_up_defer»])

end UrcuVerif.Src.Futex
