import UrcuVerif.Src.FutexCallRcu
/-!
# defer thread futex (`src/urcu-defer-impl.h`): `wake_up_defer()`, `wait_defer()`

`wake_up_defer()` ⊑ generic waker on `&defer_thread_futex` (`WakePost`), hence ⊑ owner `i` of `Defer/ConcWake.lean` from pc
`k1` (`Df.simK`; L2's `k0`, `kf` – the store of `head` and the `cmm_smp_mb()` – are in the caller `_defer_rcu`).
Side condition: FUTEX_WAKE returns an integer `≥ 0` (`WakeRetOk`).

`wait_defer()` ⊑ the defer thread `D` of `Defer/ConcWake.lean` (configuration `decFirst = true`, the code), one whole round
from L2 pc `d0` back to `d0`, through the local automaton `Df.xstep` (= `Df.lstep` + the composite step `scan f`) and the
abstraction `absEvD`:
* `uatomic_dec(&defer_thread_futex)` ↦ `dDec`; `rcu_defer_num_callbacks() = r` ↦ `scan (r ≠ 0)`, `dScanEnd (r ≠ 0)`:
  the external function's loads of the queues are L2's `dScanQ i` labels, `Df.scan_sound` shows that any such run acts on
  `D`'s projection like `scan f` with `f` = L2's `found` afterwards; the oracle value of the call is read under the
  correspondence "non-zero iff `found`" (L2's `found` = some scanned queue was non-empty);
* `st defer_thread_futex 0` ↦ `dStore0`; `ld defer_thread_futex v` ↦ `dLoad v`; FUTEX_WAIT returned 0 ↦ `dWaitSleep`, `woken`;
  `errno = EAGAIN` ↦ `dWaitEagain`, `EINTR` ↦ `dWaitIntr`;
* silent: `cmm_smp_mb()`, `cmm_smp_rmb()`, the load of `defer_thread_stop` (contract `evOkD`: it reads 0; the exit path
  `defer_thread_stop ≠ 0` – store 0, `pthread_exit()` – is not covered: in the IR `pthread_exit` returns; L2 treats the
  stop flag as one more queue);
* rejected: `urcu_die`, `pthread_exit`, any other access to the futex word.
`exec` never fails, whatever the oracle.
-/
set_option maxRecDepth 8192
set_option linter.unusedSimpArgs false
set_option linter.unusedVariables false
namespace UrcuVerif.Src.Futex
open UrcuVerif UrcuVerif.Src UrcuVerif.Gen.Src

/-- `&defer_thread_futex` -/
@[simp] def dfF : Loc := .glob "defer_thread_futex"

theorem src_wake_up_defer (fuel : Nat) (env : Env) (inp : List Val) (hr : WakeRetOk inp) :
    ∃ out, exec fuel «wake_up_defer» env inp = .ok out ∧ WakePost dfF "futex_noasync" env out := by
  unfold WakeRetOk at hr
  wake_cases (wake_leaf [«wake_up_defer»])

/-! ## `wait_defer()` -/

/-- `&defer_thread_stop` -/
@[simp] def dfStop : Loc := .glob "defer_thread_stop"

def absEvD : Event → Option (List Df.XLabel)
  | .rmw p l _ _ _ => if l = dfF then (if p = .udec then some [.l .dDec] else none) else some []
  | .st l v _ => if l = dfF then (if v = .int 0 then some [.l .dStore0] else none) else some []
  | .ld l v _ =>
    if l = dfF then
      match v with
      | .int n => some [.l (.dLoad n)]
      | _ => none
    else some []
  | .ext name args r =>
    if name = "rcu_defer_num_callbacks" then some [.scan r.truthy, .l (.dScanEnd r.truthy)]
    else if name = "futex_noasync" then
      (if args = waitArgs dfF (-1) then some (if r.truthy then [] else [.l .dWaitSleep, .l .woken]) else none)
    else if name = "errno" then
      (if r = .int 11 then some [.l .dWaitEagain] else if r = .int 4 then some [.l .dWaitIntr] else none)
    else if name = "urcu_die" then none
    else if name = "pthread_exit" then none
    else some []
  | .fence _ => some []
  | e =>
    match Event.loc? e with
    | some l => if l = dfF then none else some []
    | none => some []

/-- contract: `evOk` for the futex word, and `defer_thread_stop` reads 0 -/
def evOkD (e : Event) : Bool :=
  evOk dfF e &&
    (match e with
     | .ld l v _ => if l = dfStop then decide (v = .int 0) else true
     | _ => true)

/-- `f0` = the (stale) content of L2's `found` at the call -/
def WaitDeferPost (c : DeferWake.Cfg) (f0 : Bool) (env : Env) (out : Out) : Prop :=
  (∀ l, l ≠ dfF → out.env.priv l = env.priv l) ∧
  (out.events.all evOkD = true →
    ∃ ws', accept absEvD (Df.xstep c) ⟨.d0, f0⟩ out.events = some ws' ∧
      ((out.ctl = .fuel ∧ ws'.dpc = .dwloop) ∨ out.ctl = .blocked ∨
       ((out.ctl = .normal ∨ out.ctl = .ret none) ∧ ws'.dpc = .d0)))

open Lean.Parser.Tactic in
macro "df_abs" "[" ts:simpLemma,* "]" : tactic =>
  `(tactic| simp [accept_nil, accept_cons, accept_append_eq, all_append_iff, absEvD, evOkD, evOk, runA, Df.xstep, Df.lstep,
      waitArgs, Event.loc?, truthy_int, truthy_ptr, exitCtl, *, $ts,*])

set_option hygiene false in
macro "df_pre_leaf" : tactic => `(tactic| (
  fx_exec [WaitDeferPost]
  first
  | done
  | (generalize hX : exec fuel L _ _ = X
     obtain ⟨out, rfl, hE, hC, h⟩ := hloop _ _ _ hX
     refine ⟨_, rfl, ?_, ?_⟩
     · intro l hl; simp_all
     · intro hok
       simp only [List.all_cons, all_append_iff, List.all_nil, Bool.and_eq_true] at hok
       first
       | (simp [evOkD, evOk, *] at hok; done)
       | (obtain ⟨ws', hw, hp⟩ := h (by simp_all)
          refine ⟨ws', by df_abs [hw], ?_⟩
          rcases hp with ⟨h1, rfl⟩ | h1 | ⟨h1, rfl⟩ <;> simp_all))
  | (df_abs [] <;> (try (intros; simp_all; done)))))

theorem src_wait_defer (c : DeferWake.Cfg) (hc : c.decFirst = true) (f0 : Bool) (fuel : Nat) (env : Env)
    (inp : List Val) :
    ∃ out, exec fuel «wait_defer» env inp = .ok out ∧ WaitDeferPost c f0 env out := by
  simp only [«wait_defer», block]
  generalize hLS : Stmt.loop _ = L
  have hloop : ∀ env1 inp1 X, exec fuel L env1 inp1 = X →
      ∃ out, X = .ok out ∧ out.env.priv = env1.priv ∧
        (out.ctl = .fuel ∨ out.ctl = .blocked ∨ out.ctl = .normal ∨ out.ctl = .ret none) ∧
        (out.events.all evOkD = true →
          ∃ ws', accept absEvD (Df.xstep c) ⟨.dwloop, false⟩ out.events = some ws' ∧
            ((out.ctl = .fuel ∧ ws' = ⟨.dwloop, false⟩) ∨ out.ctl = .blocked ∨
             ((out.ctl = .normal ∨ out.ctl = .ret none) ∧ ws' = ⟨.d0, false⟩))) := by
    subst hLS
    intro env0 inp0 X hX
    obtain ⟨out, h1, h2, hC, h3⟩ := loop_inv (accept absEvD (Df.xstep c)) (accept_nil _ _) (accept_append _ _) evOkD
      (fun e => e.priv = env0.priv) WaitCtl (fun _ s => s = ⟨.dwloop, false⟩)
      (fun cc _ s => cc = .blocked ∨ ((cc = .brk ∨ cc = .ret none) ∧ s = ⟨.d0, false⟩)) hX
      (by intro env1 inp1 hE1; wait_body_with (fx_exec [WaitCtl] <;> df_abs [])) rfl
    refine ⟨out, h1, h2, ?_, ?_⟩
    · rcases hC with h | ⟨cc, hcc, hn, he⟩
      · exact .inl h
      · unfold WaitCtl at hcc
        rcases hcc with rfl | rfl | rfl | rfl | rfl <;> simp_all [exitCtl]
    · intro hok
      obtain ⟨ws', hw, hp⟩ := h3 _ rfl hok
      refine ⟨ws', hw, ?_⟩
      rcases hp with ⟨h4, h5⟩ | ⟨cc, hc1, hc2, hc3⟩
      · exact .inl ⟨h4, h5⟩
      · rcases hc2 with rfl | ⟨rfl | rfl, rfl⟩
        · exact .inr (.inl hc3)
        · exact .inr (.inr ⟨.inl hc3, rfl⟩)
        · exact .inr (.inr ⟨.inr hc3, rfl⟩)
  clear hLS
  cases inp with
  | nil => df_pre_leaf
  | cons d r1 =>
    cases r1 with
    | nil => df_pre_leaf
    | cons st r2 =>
      by_cases hst : st = .int 0
      · subst hst
        cases r2 with
        | nil => df_pre_leaf
        | cons n r3 =>
          by_cases hn : n = .int 0
          · subst hn; df_pre_leaf
          · have hnt := truthy_of_ne hn; df_pre_leaf
      · have hstt := truthy_of_ne hst
        cases r2 with
        | nil => df_pre_leaf
        | cons x r3 =>
          cases r3 with
          | nil => df_pre_leaf
          | cons n r4 =>
            by_cases hn : n = .int 0
            · subst hn; df_pre_leaf
            · have hnt := truthy_of_ne hn; df_pre_leaf

end UrcuVerif.Src.Futex
