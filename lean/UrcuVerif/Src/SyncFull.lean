import UrcuVerif.Src.SyncQuiet
/-!
# `synchronize_rcu` (memb / mb) without the `QueueQuiet` assumption

The five wait-queue call statements are proved quiet (`Src/SyncQuiet.lean`) relative to the **pointer discipline**: every
value returned by an event of the run is an integer or a pointer to a safe location (`RetSafe`), and the private view holds
safe values at safe locations (`PrivSafe`, carried inside the master barrier's precondition `MPreS MPre`).
`syncT_holdsS` is `syncT_holds` re-derived for the disciplined runs (`HoldsS`).
-/
set_option maxRecDepth 8192
set_option linter.unusedSimpArgs false
set_option linter.unusedVariables false
namespace UrcuVerif.Src.Sync
open UrcuVerif UrcuVerif.Src UrcuVerif.Gen.Src

theorem MasterSpec.strengthen {trk master} {P P' : (Loc → Option Val) → Prop} (h : MasterSpec trk master P)
    (hp : ∀ p, P' p → P p) : MasterSpec trk master P' :=
  fun fuel env inp ss wins hpre => h fuel env inp ss wins (hp _ hpre)

theorem WaitGpSpec.strengthen {trk wg} {P P' : (Loc → Option Val) → Prop} (h : WaitGpSpec trk wg P)
    (hp : ∀ p, P' p → P p) : WaitGpSpec trk wg P' :=
  fun fuel env inp ss wins hpre hu => h fuel env inp ss wins (hp _ hpre) hu

theorem MStable.withSafe {MPre} (h : MStable MPre) : MStable (MPreS MPre) := by
  intro priv l v hl ⟨h1, h2⟩
  refine ⟨h priv l v hl h1, ?_⟩
  intro m w hm hw
  simp only at hw
  split at hw
  · rename_i heq; subst heq
    rcases hl with rfl | rfl | ⟨rfl, n, rfl⟩
    · exact absurd hm (by decide)
    · exact absurd hm (by decide)
    · simp at hw; subst hw; rfl
  · exact h2 m w hm hw

theorem MembPre_unsafeOnly : MUnsafeOnly MembPre := by
  intro p p' hpp ⟨b, h1, h2⟩
  refine ⟨b, by rw [hpp _ (by decide)]; exact h1, ?_⟩
  intro hb; obtain ⟨b2, h3⟩ := h2 hb
  exact ⟨b2, by rw [hpp _ (by decide)]; exact h3⟩

theorem True_unsafeOnly : MUnsafeOnly (fun _ => True) := fun _ _ _ _ => trivial

theorem memb_wfr_specS (trk : Bool) : WfrSpec trk «memb.wait_for_readers» (MPreS MembPre) := by
  intro fuel hd csv gv g upc env inp ss wins h
  rw [memb_wfr_eq]
  exact wfrT_holds trk fuel _ _ _ { hd := hd, csv := csv, gv := gv, g := g, upc := upc, MPre := MPreS MembPre }
    ((memb_master_spec trk).strengthen (P' := MPreS MembPre) (fun _ h => h.1))
    ((memb_wg_spec trk).strengthen (P' := MPreS MembPre) (fun _ h => h.1)) MembPre_stable.withSafe env inp ss wins h

theorem mb_wfr_specS (trk : Bool) : WfrSpec trk «mb.wait_for_readers» (MPreS (fun _ => True)) := by
  intro fuel hd csv gv g upc env inp ss wins h
  rw [mb_wfr_eq]
  exact wfrT_holds trk fuel _ _ _ { hd := hd, csv := csv, gv := gv, g := g, upc := upc, MPre := MPreS (fun _ => True) }
    ((mb_master_spec trk).strengthen (P' := MPreS (fun _ => True)) (fun _ h => h.1))
    ((mb_wg_spec trk).strengthen (P' := MPreS (fun _ => True)) (fun _ h => h.1)) mb_stable.withSafe env inp ss wins h

theorem quiet_stepS (trk MPre st dst) (hQ : QuietS trk (MPreS MPre) st dst) (g V V') (fuel env inp ss wins)
    (hV : ∀ vars vars', V vars → (∀ x, some x ≠ dst → vars' x = vars x) → V' vars')
    (hI : PI (MPreS MPre) g V env ss) : HoldsS trk (exec fuel st env inp) ss wins (SP (MPreS MPre) g V') := by
  obtain ⟨h1, h2, h3, h4, h5, h6⟩ := hI
  refine (hQ fuel env inp ss wins h1 h2 h5.2).mono ?_
  intro ctl e s w h
  cases ctl <;> simp_all [SP]
  obtain ⟨rfl, a2, a3, a4⟩ := h
  exact ⟨h1, h2, h3, a2, a3, hV _ _ h6 a4⟩

theorem tail_holdsS (trk fuel MPre q5) (hq5 : QuietS trk (MPreS MPre) q5 none) (g env inp ss wins)
    (hI : PI (MPreS MPre) g (fun _ => True) env ss) :
    HoldsS trk (exec fuel (block [(.assign "_goto_out" (.lit 0)), stUnlockReg, stUnlockGp, q5]) env inp) ss wins SyncPost := by
  refine HoldsS.seq (Qa := SP (MPreS MPre) g (fun _ => True)) ?_ ?_ (fun ctl e s w hn h => SP_sync ctl e s w hn h)
  · intro out ho _; exec_simp_at ho []; subst ho
    simp only [Ok_nil_iff, SP]; exact hI
  intro e i s w hq
  refine HoldsS.seq (unlockReg_holds trk fuel _ g (fun _ => True) e i s w hq).toS ?_ (fun ctl e s w hn h => SP_sync ctl e s w hn h)
  intro e i s w hq
  refine HoldsS.seq (unlockGp_holds trk fuel _ g (fun _ => True) e i s w hq).toS ?_ (fun ctl e s w hn h => SP_sync ctl e s w hn h)
  intro e i s w hq
  refine (hq5 fuel e i s w hq.1 hq.2.1 hq.2.2.2.2.1.2).mono ?_
  intro ctl e' s' w' h
  cases ctl <;> simp_all [SyncPost]
  obtain ⟨rfl, _⟩ := h; exact ⟨hq.1, hq.2.1⟩

set_option maxHeartbeats 800000 in
theorem syncT_holdsS (trk fuel master wfr q1 q2 q3 q4 q5 MPre0) (hM : MasterSpec trk master (MPreS MPre0))
    (hW : WfrSpec trk wfr (MPreS MPre0)) (hS : MStable (MPreS MPre0)) (hq1 : QuietS trk (MPreS MPre0) q1 (some "_t1"))
    (hq2 : QuietS trk (MPreS MPre0) q2 none) (hq3 : QuietS trk (MPreS MPre0) q3 none)
    (hq4 : QuietS trk (MPreS MPre0) q4 none) (hq5 : QuietS trk (MPreS MPre0) q5 none) (g : Bool) (env inp ss wins)
    (hI : PI (MPreS MPre0) g (fun _ => True) env ss) :
    HoldsS trk (exec fuel (syncT master wfr q1 q2 q3 q4 q5) env inp) ss wins SyncPost := by
  let MPre := MPreS MPre0
  let V1 : (String → Option Val) → Prop := fun vars => vars "_goto_out" = some (.int 0)
  have hnn : ∀ {g V} ctl e s w, ctl ≠ .normal → SP MPre g V ctl e s w → SyncPost ctl e s w :=
    fun ctl e s w hn h => SP_sync ctl e s w hn h
  have keep : ∀ (dst : Option String), dst ≠ some "_goto_out" → ∀ vars vars' : String → Option Val, V1 vars →
      (∀ x, some x ≠ dst → vars' x = vars x) → V1 vars' := by
    intro dst hd vars vars' h1 h2; show vars' "_goto_out" = _; rw [h2 _ (Ne.symm hd)]; exact h1
  refine HoldsS.seq (Qa := SP MPre g V1) ?_ ?_ hnn
  · intro out ho _; exec_simp_at ho []; subst ho
    obtain ⟨h1, h2, h3, h4, h5, _⟩ := hI
    simp only [Ok_nil_iff, SP]; exact ⟨h1, h2, h3, h4, h5, by simp [V1]⟩
  intro e i s w hq
  refine HoldsS.seq (Qa := SP MPre g V1) ?_ ?_ hnn
  · intro out ho _; exec_simp_at ho [stWaitInit]; subst ho
    obtain ⟨h1, h2, h3, h4, h5, h6⟩ := hq
    simp only [Ok_nil_iff, SP]
    refine ⟨h1, h2, h3, ?_, hS _ _ _ (Or.inr (Or.inr ⟨rfl, 0, rfl⟩)) h5, h6⟩
    simpa [gpCtr] using h4
  intro e i s w hq
  refine HoldsS.seq (quiet_stepS trk MPre0 q1 _ hq1 g V1 V1 fuel e i s w (keep _ (by decide)) hq) ?_ hnn
  intro e i s w hq
  refine HoldsS.seq (Qa := SP MPre g V1) ?_ ?_ hnn
  · cases hv : e.vars "_t1" with
    | none =>
      intro out ho _
      simp [exec, eval, hv, bind, Except.bind] at ho
    | some v =>
      rw [exec_ifte _ _ _ _ _ _ _ (eval_ne0 e v hv)]
      by_cases hv0 : v = .int 0
      · simp [boolV, hv0, Val.truthy]
        intro out ho _; simp only [exec, Except.ok.injEq] at ho; subst ho
        simp only [Ok_nil_iff, SP]; exact hq
      · simp [boolV, hv0, Val.truthy]
        refine HoldsS.seq (quiet_stepS trk MPre0 q2 _ hq2 g V1 V1 fuel e i s w (keep _ (by decide)) hq) ?_
          (fun ctl e s w hn h => SP_nn ctl e s w hn h)
        intro e i s w hq out ho _
        simp only [block, exec, Except.ok.injEq] at ho; subst ho
        simp only [Ok_nil_iff, SP]; exact ⟨hq.1, hq.2.1⟩
  intro e i s w hq
  refine HoldsS.seq (quiet_stepS trk MPre0 q3 _ hq3 g V1 V1 fuel e i s w (keep _ (by decide)) hq) ?_ hnn
  intro e i s w hq
  refine HoldsS.seq (lockGp_holds trk fuel MPre g V1 e i s w hq).toS ?_ hnn
  intro e i s w hq
  refine HoldsS.seq (quiet_stepS trk MPre0 q4 _ hq4 g V1 V1 fuel e i s w (keep _ (by decide)) hq) ?_ hnn
  intro e i s w hq
  refine HoldsS.seq (lockReg_holds trk fuel MPre g V1 e i s w hq).toS ?_ hnn
  intro e i s w hq
  refine HoldsS.seq (regEmpty_holds trk fuel MPre g e i s w hq).toS ?_ (fun ctl e s w hn h => A9_sync ctl e s w hn h)
  intro e i s w hq
  obtain ⟨r, hr2, hgo, hcase⟩ := hq
  refine HoldsS.seq (Qa := fun ctl e' s' w' => ctl = .normal ∧ s' = s ∧ e'.priv = e.priv ∧
      e'.vars "_goto_out" = some (.int (if r.truthy then 1 else 0)) ∧ (r.truthy = false → e' = e)) ?_ ?_
      (fun ctl e s w hn h => absurd h.1 hn)
  · rw [exec_ifte _ _ _ _ _ _ _ (eval_var e "_t2" r hr2)]
    by_cases ht : r.truthy = true
    · simp only [ht, if_true]
      intro out ho _; exec_simp_at ho []; subst ho
      simp [Ok_nil_iff]
    · simp only [ht, if_false]
      intro out ho _; simp [exec] at ho; subst ho
      simp [Ok_nil_iff, ht, hgo]
  intro e' i s' w' hq
  obtain ⟨_, rfl, hpriv, hgo', hsame⟩ := hq
  refine HoldsS.seq (Qa := A11 MPre) ?_ ?_ ?_
  · rw [exec_ifte _ _ _ _ _ _ _ (eval_var e' "_goto_out" _ hgo')]
    by_cases ht : r.truthy = true
    · simp only [ht, if_true] at hcase ⊢
      simp [Val.truthy]
      intro out ho _; simp only [exec, Except.ok.injEq] at ho; subst ho
      obtain ⟨h1, h2, h3, h4, h5, _⟩ := hcase
      simp only [Ok_nil_iff, A11]
      exact ⟨g, h1, h2, h3, by rw [hpriv]; exact h4, by rw [hpriv]; exact h5, trivial⟩
    · simp only [ht, if_false] at hcase ⊢
      simp [Val.truthy]
      have he : e' = e := hsame (by simpa using ht)
      subst he
      refine Holds.toS ((gpBlock_holds trk fuel master wfr MPre hM hW hS g _ e' i s' w' hcase).mono ?_)
      intro ctl e2 s2 w2 h
      cases ctl with
      | normal => exact ⟨!g, GInv_PI h⟩
      | blocked => trivial
      | fuel => trivial
      | _ => exact h.elim
  · intro e2 i2 s2 w2 hq
    obtain ⟨g', hq⟩ := hq
    exact tail_holdsS trk fuel MPre0 q5 hq5 g' e2 i2 s2 w2 hq
  · intro ctl e2 s2 w2 hn h
    cases ctl <;> simp_all [A11, SyncPost]

theorem memb_sync_holdsS (trk fuel) (g : Bool) (env inp ss wins)
    (hI : PI (MPreS MembPre) g (fun _ => True) env ss) :
    HoldsS trk (exec fuel «memb.synchronize_rcu» env inp) ss wins SyncPost := by
  rw [memb_sync_eq]
  exact syncT_holdsS trk fuel _ _ _ _ _ _ _ MembPre ((memb_master_spec trk).strengthen (fun _ h => h.1))
    (memb_wfr_specS trk) MembPre_stable.withSafe (qWaitAdd_quiet trk _ MembPre_unsafeOnly)
    (qBusyWait_quiet trk _ MembPre_unsafeOnly) (qSetState_quiet trk _ MembPre_unsafeOnly)
    (qMoveWaiters_quiet trk _ MembPre_unsafeOnly) (qWakeAll_quiet trk _ MembPre_unsafeOnly) g env inp ss wins hI

theorem mb_sync_holdsS (trk fuel) (g : Bool) (env inp ss wins)
    (hI : PI (MPreS (fun _ => True)) g (fun _ => True) env ss) :
    HoldsS trk (exec fuel «mb.synchronize_rcu» env inp) ss wins SyncPost := by
  rw [mb_sync_eq]
  exact syncT_holdsS trk fuel _ _ _ _ _ _ _ (fun _ => True) ((mb_master_spec trk).strengthen (fun _ h => h.1))
    (mb_wfr_specS trk) mb_stable.withSafe (qWaitAdd_quiet trk _ True_unsafeOnly)
    (qBusyWait_quiet trk _ True_unsafeOnly) (qSetState_quiet trk _ True_unsafeOnly)
    (qMoveWaiters_quiet trk _ True_unsafeOnly) (qWakeAll_quiet trk _ True_unsafeOnly) g env inp ss wins hI

end UrcuVerif.Src.Sync
