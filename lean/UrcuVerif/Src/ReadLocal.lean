import UrcuVerif.Gp.Flip
import UrcuVerif.Handshake.Tso
/-!
# Read side: thread-local projections of the L2 models (`Gp/Flip.lean`, `Handshake/Tso.lean`)

For reader thread `i` of `Gp.State` the *local part* is what only thread `i` itself ever changes:
`rpc i`, `reg i`, `held i`, `lnest i`, `lph i` (its own view of its word).  The memory copy of the word
(`mnest i`, `mph i`) and the store buffer `buf i` are NOT local (the environment labels `flush i`, `forced i` move
them); everything else belongs to the updater / to ghost state.

`LLabel` = the labels of `Gp.Label` owned by one thread, *decorated with the values of the access*:
`rLd g` = "loaded `rcu_gp.ctr`, saw phase `g`", `rSt w / rInc w / rDec w / rUnlock w` = "stored the word
`w = (nest, phase)` into the own reader word (i.e. appended `w` to the own store buffer)", `rEnter mf` = "slave barrier
executed, `mf` = it was a real fence (`cmm_smp_mb`) rather than a compiler barrier".

* `proj_step`     every L2 step with a label of thread `i` whose decoration is what the global state dictates (`Obs`)
                  moves the projection by `lstep`;
* `proj_enabled`  conversely an `lstep` move plus the *global* guard (`Guard`: `i < c.n`, the value loaded is `s.gp`,
                  `slaveFence → buf i = []` for `rEnter`) gives an L2 step with that projection and those values;
* `proj_frame`    every L2 step whose label is not owned by thread `i` (other threads' labels, the updater's,
                  `flush j` and `forced j` for EVERY `j` including `j = i`, `setY`) leaves the projection unchanged.

Same for the waker `i` of the futex handshake model (`HState`, `hstep`, `projH_*`).
-/
namespace UrcuVerif.Src.Read
open UrcuVerif

/-! ## Flip (memb / mb / bp grace period): reader thread -/

structure LState where
  rpc   : Gp.RPc
  reg   : Bool
  held  : List Bool
  lnest : Nat
  lph   : Bool
  deriving DecidableEq, Repr

def proj (s : Gp.State) (i : Nat) : LState :=
  { rpc := s.rpc i, reg := s.reg i, held := s.held i, lnest := s.lnest i, lph := s.lph i }

inductive LLabel
  | reg | unreg
  | rLd (g : Bool)
  | rSt (w : Nat × Bool)
  | rEnter (mf : Bool)
  | rInc (w : Nat × Bool) | rDec (w : Nat × Bool)
  | rUnlock (w : Nat × Bool)
  | rRead
  | sigPush | sigPop
  deriving DecidableEq, Repr

/-- forget the decoration -/
def LLabel.toL2 (i : Nat) : LLabel → Gp.Label
  | .reg => .reg i | .unreg => .unreg i
  | .rLd _ => .rLd i | .rSt _ => .rSt i | .rEnter _ => .rEnter i
  | .rInc _ => .rInc i | .rDec _ => .rDec i | .rUnlock _ => .rUnlock i
  | .rRead => .rRead i | .sigPush => .sigPush i | .sigPop => .sigPop i

/-- the thread that owns a label of L2 (`none`: updater, ghost, or memory-system step) -/
def owner : Gp.Label → Option Nat
  | .reg i | .unreg i | .rLd i | .rSt i | .rEnter i | .rInc i | .rDec i | .rUnlock i | .rRead i
  | .sigPush i | .sigPop i => some i
  | _ => none

/-- local automaton; `sf` = `Cfg.slaveFence` -/
def lstep (sf : Bool) (ls : LState) : LLabel → Option LState
  | .reg => if ls.reg = false ∧ ls.rpc = .out then some { ls with reg := true } else none
  | .unreg => if ls.reg = true ∧ ls.rpc = .out ∧ ls.held = [] then some { ls with reg := false } else none
  | .rLd g => if ls.reg = true ∧ ls.rpc = .out then some { ls with rpc := .ld g } else none
  | .rSt w =>
    match ls.rpc with
    | .ld g => if w = (1, g) then some { ls with lnest := 1, lph := g, rpc := .fence } else none
    | _ => none
  | .rEnter mf => if ls.rpc = .fence ∧ (sf = true → mf = true) then some { ls with rpc := .cs } else none
  | .rInc w =>
    if (ls.rpc = .cs ∨ ls.rpc = .fence) ∧ w = (ls.lnest + 1, ls.lph) then some { ls with lnest := ls.lnest + 1 } else none
  | .rDec w =>
    if (ls.rpc = .cs ∨ ls.rpc = .fence) ∧ 2 ≤ ls.lnest ∧ w = (ls.lnest - 1, ls.lph) then
      some { ls with lnest := ls.lnest - 1 } else none
  | .rUnlock w =>
    if ls.rpc = .cs ∧ ls.lnest = 1 ∧ w = (0, ls.lph) then some { ls with lnest := 0, rpc := .out } else none
  | .rRead => if ls.rpc = .cs then some ls else none
  | .sigPush =>
    match ls.rpc with
    | .ld g => some { ls with rpc := .out, held := g :: ls.held }
    | _ => none
  | .sigPop =>
    match ls.held with
    | g :: rest => if ls.rpc = .out then some { ls with rpc := .ld g, held := rest } else none
    | [] => none

def lrun (sf : Bool) : LState → List LLabel → Option LState
  | ls, [] => some ls
  | ls, l :: ls' => match lstep sf ls l with
    | some n => lrun sf n ls'
    | none => none

/-- the decoration of a label is what the global state dictates (`s` before, `s'` after the step) -/
def Obs (c : Gp.Cfg) (s s' : Gp.State) (i : Nat) : LLabel → Prop
  | .rLd g => g = s.gp
  | .rSt w | .rInc w | .rDec w | .rUnlock w => s'.buf i = s.buf i ++ [w]
  | .rEnter mf => c.slaveFence = true → mf = true
  | _ => True

/-- the part of an L2 guard that is not thread-local -/
def Guard (c : Gp.Cfg) (s : Gp.State) (i : Nat) : LLabel → Prop
  | .rLd g => g = s.gp
  | .rEnter _ => c.slaveFence = true → s.buf i = []
  | _ => True

theorem proj_step (c : Gp.Cfg) (s s' : Gp.State) (i : Nat) (l : LLabel)
    (st : Gp.step c s (l.toL2 i) = some s') (ho : Obs c s s' i l) :
    lstep c.slaveFence (proj s i) l = some (proj s' i) := by
  cases l <;> simp only [LLabel.toL2, Gp.step] at st <;> (repeat' split at st) <;>
    first
    | (simp at st; done)
    | (simp only [Option.some.injEq] at st; subst st
       simp_all [Obs, lstep, proj, upd] <;> grind)

theorem proj_enabled (c : Gp.Cfg) (s : Gp.State) (i : Nat) (l : LLabel) (ls' : LState)
    (hl : lstep c.slaveFence (proj s i) l = some ls') (hi : i < c.n) (hg : Guard c s i l) :
    ∃ s', Gp.step c s (l.toL2 i) = some s' ∧ proj s' i = ls' ∧ Obs c s s' i l := by
  cases l <;> simp only [lstep] at hl <;> (repeat' split at hl) <;>
    first
    | (simp at hl; done)
    | (simp only [Option.some.injEq] at hl; subst hl
       simp_all [Obs, Guard, LLabel.toL2, Gp.step, proj, upd])

theorem proj_frame (c : Gp.Cfg) (s s' : Gp.State) (i : Nat) (l : Gp.Label)
    (st : Gp.step c s l = some s') (ho : owner l ≠ some i) : proj s' i = proj s i := by
  cases l <;> simp only [Gp.step] at st <;> (repeat' split at st) <;>
    first
    | (simp at st; done)
    | (simp only [Option.some.injEq] at st; subst st
       simp_all [owner, proj, upd] <;> grind)

/-! ## Futex handshake: waker thread (a reader leaving its outermost section) -/

structure HState where
  kpc : Handshake.KPc
  r   : Int
  deriving DecidableEq, Repr

def projH (s : Handshake.State) (i : Nat) : HState := { kpc := s.kpc i, r := s.r i }

inductive HLabel
  | k0                 -- store own word := inactive
  | kf (mf : Bool)     -- slave barrier after it; `mf` = real fence
  | k1 (v : Int)       -- load `gp->futex`, saw `v`
  | k2Wake             -- (saw -1) store `gp->futex := 0`
  | k2Skip             -- (saw something else) return: no access
  | k3                 -- FUTEX_WAKE
  deriving DecidableEq, Repr

def HLabel.toL2 (i : Nat) : HLabel → Handshake.Label
  | .k0 => .k0 i | .kf _ => .kf i | .k1 _ => .k1 i | .k2Wake => .k2Wake i | .k2Skip => .k2Skip i | .k3 => .k3 i

def ownerH : Handshake.Label → Option Nat
  | .k0 i | .kf i | .k1 i | .k2Wake i | .k2Skip i | .k3 i => some i
  | _ => none

def hstep (sf : Bool) (hs : HState) : HLabel → Option HState
  | .k0 => if hs.kpc = .k0 then some { hs with kpc := .kf } else none
  | .kf mf => if hs.kpc = .kf ∧ (sf = true → mf = true) then some { hs with kpc := .k1 } else none
  | .k1 v => if hs.kpc = .k1 then some { hs with r := v, kpc := .k2 } else none
  | .k2Wake => if hs.kpc = .k2 ∧ hs.r = -1 then some { hs with kpc := .k3 } else none
  | .k2Skip => if hs.kpc = .k2 ∧ hs.r ≠ -1 then some { hs with kpc := .k4 } else none
  | .k3 => if hs.kpc = .k3 then some { hs with kpc := .k4 } else none

def hrun (sf : Bool) : HState → List HLabel → Option HState
  | hs, [] => some hs
  | hs, l :: ls => match hstep sf hs l with
    | some n => hrun sf n ls
    | none => none

def ObsH (c : Handshake.Cfg) (s : Handshake.State) : HLabel → Prop
  | .k1 v => v = s.futex
  | .kf mf => c.slaveFence = true → mf = true
  | _ => True

/-- non-local part of the guards: the value loaded; `kf` under `slaveFence` and `k3` (system call) wait for the
store buffer to drain -/
def GuardH (c : Handshake.Cfg) (s : Handshake.State) (i : Nat) : HLabel → Prop
  | .k1 v => v = s.futex
  | .kf _ => c.slaveFence = true → s.bdone i = false
  | .k3 => s.bdone i = false ∧ s.bfut i = false
  | _ => True

theorem projH_step (c : Handshake.Cfg) (s s' : Handshake.State) (i : Nat) (l : HLabel)
    (st : Handshake.step c s (l.toL2 i) = some s') (ho : ObsH c s l) :
    hstep c.slaveFence (projH s i) l = some (projH s' i) := by
  cases l <;> simp only [HLabel.toL2, Handshake.step] at st <;> (repeat' split at st) <;>
    first
    | (simp at st; done)
    | (simp only [Option.some.injEq] at st; subst st
       simp_all [ObsH, hstep, projH, upd])

theorem projH_enabled (c : Handshake.Cfg) (s : Handshake.State) (i : Nat) (l : HLabel) (hs' : HState)
    (hl : hstep c.slaveFence (projH s i) l = some hs') (hi : i < c.n) (hg : GuardH c s i l) :
    ∃ s', Handshake.step c s (l.toL2 i) = some s' ∧ projH s' i = hs' ∧ ObsH c s l := by
  cases l <;> simp only [hstep] at hl <;> (repeat' split at hl) <;>
    first
    | (simp at hl; done)
    | (simp only [Option.some.injEq] at hl; subst hl
       simp_all [ObsH, GuardH, HLabel.toL2, Handshake.step, projH, upd])

theorem projH_frame (c : Handshake.Cfg) (s s' : Handshake.State) (i : Nat) (l : Handshake.Label)
    (st : Handshake.step c s l = some s') (ho : ownerH l ≠ some i) : projH s' i = projH s i := by
  cases l <;> simp only [Handshake.step] at st <;> (repeat' split at st) <;>
    first
    | (simp at st; done)
    | (simp only [Option.some.injEq] at st; subst st
       simp_all [ownerH, projH, upd] <;> grind)

end UrcuVerif.Src.Read
