import UrcuVerif.Src.StackRefine
/-!
# Converse direction for the loop-free stack functions: every local L2 path of a call is a source trace

For `_cds_wfs_push`, `___cds_wfs_pop_all`, `_cds_wfs_empty`, `___cds_lfs_pop_all`, `_cds_lfs_empty`: every `lstep`
path of the local automaton that starts at the call's entry pc and stays within the call (for push: at most its two
labels; for pop_all / empty: at most the one label of that function) is a **prefix of the abstraction of a run of
`exec`** under a well-typed oracle.  (A run of `exec` can only stop at a value-returning access, so e.g. `[pushX n old]`
alone is not itself a run – it is a prefix of the run `[pushX n old, pushSt n old]`.)  Together with the `*_refines`
theorems: the prefix closures of the source's trace set and of the projection of L2 coincide for these functions.
-/
namespace UrcuVerif.Src

namespace WfsR
open UrcuVerif UrcuVerif.Src WfsL

theorem push_full (fuel : Nat) (env : Env) (s n : Nat) (cfg : Int)
    (hs : env.vars "u_stack" = some (.ptr (.obj s))) (hn : env.vars "node" = some (.ptr (.obj n)))
    (hcfg : env.priv (.glob "CONFIG_RCU_EMIT_LEGACY_MB") = some (.int cfg))
    (hnode : Wfs.isNode n) (old : Nat) :
    ∃ out, exec fuel Gen.Src.«_cds_wfs_push» env [enc old] = .ok out ∧
      out.events.flatMap (absEv .push s) = [.pushX n old, .pushSt n old] := by
  by_cases hc : cfg = 0 <;> by_cases hoe : old = Wfs.END <;>
    sexec [Gen.Src.«_cds_wfs_push», Gen.Src.«___cds_wfs_end»] <;>
    simp [absEv, headLoc, dec_node hnode, hnode]

theorem push_converse (fuel : Nat) (env : Env) (s n : Nat) (cfg : Int) (r : Wfs.Ret)
    (hs : env.vars "u_stack" = some (.ptr (.obj s))) (hn : env.vars "node" = some (.ptr (.obj n)))
    (hcfg : env.priv (.glob "CONFIG_RCU_EMIT_LEGACY_MB") = some (.int cfg))
    (hnode : Wfs.isNode n) (labels : List LLabel) (ls' : LState)
    (hrun : lrun ⟨.pushX n, r⟩ labels = some ls') (hlen : labels.length ≤ 2) :
    ∃ inp out, (∀ v ∈ inp, (dec v).isSome) ∧ exec fuel Gen.Src.«_cds_wfs_push» env inp = .ok out ∧
      labels <+: out.events.flatMap (absEv .push s) := by
  match labels, hrun, hlen with
  | [], _, _ =>
    obtain ⟨out, h, -⟩ := push_refines fuel env [] s n cfg ⟨.pushX n, r⟩ hs hn hcfg hnode rfl (by simp)
    exact ⟨[], out, by simp, h, List.nil_prefix⟩
  | l :: rest, hrun, hlen =>
    simp only [lrun] at hrun
    cases l <;> simp only [lstep, reduceCtorEq, ite_false] at hrun <;> try (simp at hrun; done)
    rename_i m old
    by_cases hm : m = n
    · subst hm
      simp only [if_true] at hrun
      obtain ⟨out, h, hev⟩ := push_full fuel env s m cfg hs hn hcfg hnode old
      refine ⟨[enc old], out, by simp, h, ?_⟩
      rw [hev]
      match rest, hrun, hlen with
      | [], _, _ => exact ⟨[.pushSt m old], rfl⟩
      | l2 :: rest2, hrun, hlen =>
        simp only [lrun] at hrun
        cases l2 <;> simp only [lstep, reduceCtorEq, ite_false] at hrun <;> try (simp at hrun; done)
        rename_i m2 o2
        by_cases h2 : m = m2 ∧ old = o2
        · obtain ⟨rfl, rfl⟩ := h2
          have : rest2 = [] := by
            cases rest2 with
            | nil => rfl
            | cons _ _ => simp at hlen
          subst this; exact List.prefix_refl _
        · have : ¬ (Wfs.Pc.pushSt m old = Wfs.Pc.pushSt m2 o2) := by
            intro e; injection e with e1 e2; exact h2 ⟨e1, e2⟩
          simp [this] at hrun
    · have : ¬ (Wfs.Pc.pushX n = Wfs.Pc.pushX m) := by intro e; injection e with e1; exact hm e1.symm
      simp [this] at hrun

theorem pop_all_converse (fuel : Nat) (env : Env) (s : Nat) (cfg : Int) (ls : LState)
    (hs : env.vars "u_stack" = some (.ptr (.obj s)))
    (hcfg : env.priv (.glob "CONFIG_RCU_EMIT_LEGACY_MB") = some (.int cfg))
    (hpc : ls.pc = .idle) (labels : List LLabel)
    (hlab : labels = [] ∨ ∃ old, labels = [.popAll old]) :
    ∃ inp out, (∀ v ∈ inp, (dec v).isSome) ∧ exec fuel Gen.Src.«___cds_wfs_pop_all» env inp = .ok out ∧
      labels <+: out.events.flatMap (absEv .popAll s) ∧ (lrun ls labels).isSome := by
  rcases hlab with rfl | ⟨old, rfl⟩
  · obtain ⟨out, h, -⟩ := pop_all_refines fuel env [] s cfg ls hs hcfg hpc (by simp)
    exact ⟨[], out, by simp, h, List.nil_prefix, rfl⟩
  · refine ⟨[enc old], ?_⟩
    by_cases hc : cfg = 0 <;> by_cases hoe : old = Wfs.END <;>
      sexec [Gen.Src.«___cds_wfs_pop_all», Gen.Src.«___cds_wfs_end»] <;>
      simp [absEv, headLoc, lrun, lstep, hpc, show dec (.int 1) = some Wfs.END from rfl]

theorem empty_converse (fuel : Nat) (env : Env) (s : Nat) (ls : LState)
    (hs : env.vars "u_stack" = some (.ptr (.obj s)))
    (hpc : ls.pc = .idle) (labels : List LLabel)
    (hlab : labels = [] ∨ ∃ h, labels = [.empty h]) :
    ∃ inp out, (∀ v ∈ inp, (dec v).isSome) ∧ exec fuel Gen.Src.«_cds_wfs_empty» env inp = .ok out ∧
      labels <+: out.events.flatMap (absEv .empty s) ∧ (lrun ls labels).isSome := by
  rcases hlab with rfl | ⟨h, rfl⟩
  · obtain ⟨out, h, -⟩ := empty_refines fuel env [] s ls hs hpc (by simp)
    exact ⟨[], out, by simp, h, List.nil_prefix, rfl⟩
  · refine ⟨[enc h], ?_⟩
    by_cases hoe : h = Wfs.END <;>
      sexec [Gen.Src.«_cds_wfs_empty», Gen.Src.«___cds_wfs_end»] <;>
      simp [absEv, lrun, lstep, hpc]

end WfsR

namespace LfsR
open UrcuVerif UrcuVerif.Src LfsL

theorem pop_all_converse (fuel : Nat) (env : Env) (s : Nat) (cfg : Int) (ls : LState)
    (hs : env.vars "u_s" = some (.ptr (.obj s)))
    (hcfg : env.priv (.glob "CONFIG_RCU_EMIT_LEGACY_MB") = some (.int cfg))
    (hpc : ls.pc = .idle) (labels : List LLabel)
    (hlab : labels = [] ∨ ∃ old, labels = [.popAll old]) :
    ∃ inp out, (∀ v ∈ inp, (dec v).isSome) ∧ exec fuel Gen.Src.«___cds_lfs_pop_all» env inp = .ok out ∧
      labels <+: out.events.flatMap (absEv .popAll s) ∧ (lrun ls labels).isSome := by
  rcases hlab with rfl | ⟨old, rfl⟩
  · obtain ⟨out, h, -⟩ := pop_all_refines fuel env [] s cfg ls hs hcfg hpc (by simp)
    exact ⟨[], out, by simp, h, List.nil_prefix, rfl⟩
  · refine ⟨[enc old], ?_⟩
    by_cases hc : cfg = 0 <;>
      sexec [Gen.Src.«___cds_lfs_pop_all»] <;>
      simp [absEv, headLoc, lrun, lstep, hpc]

theorem empty_converse (fuel : Nat) (env : Env) (s : Nat) (ls : LState)
    (hs : env.vars "s" = some (.ptr (.obj s)))
    (hpc : ls.pc = .idle) (labels : List LLabel)
    (hlab : labels = [] ∨ ∃ h, labels = [.empty h]) :
    ∃ inp out, (∀ v ∈ inp, (dec v).isSome) ∧ exec fuel Gen.Src.«_cds_lfs_empty» env inp = .ok out ∧
      labels <+: out.events.flatMap (absEv .empty s) ∧ (lrun ls labels).isSome := by
  rcases hlab with rfl | ⟨h, rfl⟩
  · obtain ⟨out, h, -⟩ := empty_refines fuel env [] s ls hs hpc (by simp)
    exact ⟨[], out, by simp, h, List.nil_prefix, rfl⟩
  · refine ⟨[enc h], ?_⟩
    sexec [Gen.Src.«_cds_lfs_empty», Gen.Src.«___cds_lfs_empty_head»]
    simp [absEv, lrun, lstep, hpc]

end LfsR
end UrcuVerif.Src
