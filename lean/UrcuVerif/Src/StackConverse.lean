import UrcuVerif.Src.StackRefine
/-!
# Converse direction for the loop-free stack functions: every local L2 path of a call is a source trace

For `_cds_wfs_push`, `___cds_wfs_pop_all`, `_cds_wfs_empty`, `___cds_lfs_pop_all`, `_cds_lfs_empty`: every `lstep`
path of the local automaton that starts at the call's entry pc and stays within the call (for push: at most its two
labels; for pop_all / empty: at most the one label of that function) is a **prefix of the abstraction of a run of
`exec`** under a well-typed oracle.  (A run of `exec` can only stop at a value-returning access, so e.g. `[pushX n old]`
alone is not itself a run – it is a prefix of the run `[pushX n old, pushSt n old]`.)  Together with the `*_refines`
theorems: the prefix closures of the source's trace set and of the projection of L2 coincide for these functions.
-/
namespace UrcuVerif.Src

namespace WfsR
open UrcuVerif UrcuVerif.Src WfsL

theorem push_full (fuel : Nat) (env : Env) (s n : Nat) (cfg : Int)
    (hs : env.vars "u_stack" = some (.ptr (.obj s))) (hn : env.vars "node" = some (.ptr (.obj n)))
    (hcfg : env.priv (.glob "CONFIG_RCU_EMIT_LEGACY_MB") = some (.int cfg))
    (hnode : Wfs.isNode n) (old : Nat) :
    ∃ out, exec fuel Gen.Src.«_cds_wfs_push» env [enc old] = .ok out ∧
      out.events.flatMap (absEv .push s) = [.pushX n old, .pushSt n old] := by
  by_cases hc : cfg = 0 <;> by_cases hoe : old = Wfs.END <;>
    sexec [Gen.Src.«_cds_wfs_push», Gen.Src.«___cds_wfs_end»] <;>
    simp [absEv, headLoc, dec_node hnode, hnode]

theorem push_converse (fuel : Nat) (env : Env) (s n : Nat) (cfg : Int) (r : Wfs.Ret)
    (hs : env.vars "u_stack" = some (.ptr (.obj s))) (hn : env.vars "node" = some (.ptr (.obj n)))
    (hcfg : env.priv (.glob "CONFIG_RCU_EMIT_LEGACY_MB") = some (.int cfg))
    (hnode : Wfs.isNode n) (labels : List LLabel) (ls' : LState)
    (hrun : lrun ⟨.pushX n, r⟩ labels = some ls') (hlen : labels.length ≤ 2) :
    ∃ inp out, (∀ v ∈ inp, (dec v).isSome) ∧ exec fuel Gen.Src.«_cds_wfs_push» env inp = .ok out ∧
      labels <+: out.events.flatMap (absEv .push s) := by
  match labels, hrun, hlen with
  | [], _, _ =>
    obtain ⟨out, h, -⟩ := push_refines fuel env [] s n cfg ⟨.pushX n, r⟩ hs hn hcfg hnode rfl (by simp)
    exact ⟨[], out, by simp, h, List.nil_prefix⟩
  | l :: rest, hrun, hlen =>
    simp only [lrun] at hrun
    cases l <;> simp only [lstep, reduceCtorEq, ite_false] at hrun <;> try (simp at hrun; done)
    rename_i m old
    by_cases hm : m = n
    · subst hm
      simp only [if_true] at hrun
      obtain ⟨out, h, hev⟩ := push_full fuel env s m cfg hs hn hcfg hnode old
      refine ⟨[enc old], out, by simp, h, ?_⟩
      rw [hev]
      match rest, hrun, hlen with
      | [], _, _ => exact ⟨[.pushSt m old], rfl⟩
      | l2 :: rest2, hrun, hlen =>
        simp only [lrun] at hrun
        cases l2 <;> simp only [lstep, reduceCtorEq, ite_false] at hrun <;> try (simp at hrun; done)
        rename_i m2 o2
        by_cases h2 : m = m2 ∧ old = o2
        · obtain ⟨rfl, rfl⟩ := h2
          have : rest2 = [] := by
            cases rest2 with
            | nil => rfl
            | cons _ _ => simp at hlen
          subst this; exact List.prefix_refl _
        · have : ¬ (Wfs.Pc.pushSt m old = Wfs.Pc.pushSt m2 o2) := by
            intro e; injection e with e1 e2; exact h2 ⟨e1, e2⟩
          simp [this] at hrun
    · have : ¬ (Wfs.Pc.pushX n = Wfs.Pc.pushX m) := by intro e; injection e with e1; exact hm e1.symm
      simp [this] at hrun

theorem pop_all_converse (fuel : Nat) (env : Env) (s : Nat) (cfg : Int) (ls : LState)
    (hs : env.vars "u_stack" = some (.ptr (.obj s)))
    (hcfg : env.priv (.glob "CONFIG_RCU_EMIT_LEGACY_MB") = some (.int cfg))
    (hpc : ls.pc = .idle) (labels : List LLabel)
    (hlab : labels = [] ∨ ∃ old, labels = [.popAll old]) :
    ∃ inp out, (∀ v ∈ inp, (dec v).isSome) ∧ exec fuel Gen.Src.«___cds_wfs_pop_all» env inp = .ok out ∧
      labels <+: out.events.flatMap (absEv .popAll s) ∧ (lrun ls labels).isSome := by
  rcases hlab with rfl | ⟨old, rfl⟩
  · obtain ⟨out, h, -⟩ := pop_all_refines fuel env [] s cfg ls hs hcfg hpc (by simp)
    exact ⟨[], out, by simp, h, List.nil_prefix, rfl⟩
  · refine ⟨[enc old], ?_⟩
    by_cases hc : cfg = 0 <;> by_cases hoe : old = Wfs.END <;>
      sexec [Gen.Src.«___cds_wfs_pop_all», Gen.Src.«___cds_wfs_end»] <;>
      simp [absEv, headLoc, lrun, lstep, hpc, show dec (.int 1) = some Wfs.END from rfl]

theorem empty_converse (fuel : Nat) (env : Env) (s : Nat) (ls : LState)
    (hs : env.vars "u_stack" = some (.ptr (.obj s)))
    (hpc : ls.pc = .idle) (labels : List LLabel)
    (hlab : labels = [] ∨ ∃ h, labels = [.empty h]) :
    ∃ inp out, (∀ v ∈ inp, (dec v).isSome) ∧ exec fuel Gen.Src.«_cds_wfs_empty» env inp = .ok out ∧
      labels <+: out.events.flatMap (absEv .empty s) ∧ (lrun ls labels).isSome := by
  rcases hlab with rfl | ⟨h, rfl⟩
  · obtain ⟨out, h, -⟩ := empty_refines fuel env [] s ls hs hpc (by simp)
    exact ⟨[], out, by simp, h, List.nil_prefix, rfl⟩
  · refine ⟨[enc h], ?_⟩
    by_cases hoe : h = Wfs.END <;>
      sexec [Gen.Src.«_cds_wfs_empty», Gen.Src.«___cds_wfs_end»] <;>
      simp [absEv, lrun, lstep, hpc]

end WfsR

namespace LfsR
open UrcuVerif UrcuVerif.Src LfsL

theorem pop_all_converse (fuel : Nat) (env : Env) (s : Nat) (cfg : Int) (ls : LState)
    (hs : env.vars "u_s" = some (.ptr (.obj s)))
    (hcfg : env.priv (.glob "CONFIG_RCU_EMIT_LEGACY_MB") = some (.int cfg))
    (hpc : ls.pc = .idle) (labels : List LLabel)
    (hlab : labels = [] ∨ ∃ old, labels = [.popAll old]) :
    ∃ inp out, (∀ v ∈ inp, (dec v).isSome) ∧ exec fuel Gen.Src.«___cds_lfs_pop_all» env inp = .ok out ∧
      labels <+: out.events.flatMap (absEv .popAll s) ∧ (lrun ls labels).isSome := by
  rcases hlab with rfl | ⟨old, rfl⟩
  · obtain ⟨out, h, -⟩ := pop_all_refines fuel env [] s cfg ls hs hcfg hpc (by simp)
    exact ⟨[], out, by simp, h, List.nil_prefix, rfl⟩
  · refine ⟨[enc old], ?_⟩
    by_cases hc : cfg = 0 <;>
      sexec [Gen.Src.«___cds_lfs_pop_all»] <;>
      simp [absEv, headLoc, lrun, lstep, hpc]

theorem empty_converse (fuel : Nat) (env : Env) (s : Nat) (ls : LState)
    (hs : env.vars "s" = some (.ptr (.obj s)))
    (hpc : ls.pc = .idle) (labels : List LLabel)
    (hlab : labels = [] ∨ ∃ h, labels = [.empty h]) :
    ∃ inp out, (∀ v ∈ inp, (dec v).isSome) ∧ exec fuel Gen.Src.«_cds_lfs_empty» env inp = .ok out ∧
      labels <+: out.events.flatMap (absEv .empty s) ∧ (lrun ls labels).isSome := by
  rcases hlab with rfl | ⟨h, rfl⟩
  · obtain ⟨out, h, -⟩ := empty_refines fuel env [] s ls hs hpc (by simp)
    exact ⟨[], out, by simp, h, List.nil_prefix, rfl⟩
  · refine ⟨[enc h], ?_⟩
    sexec [Gen.Src.«_cds_lfs_empty», Gen.Src.«___cds_lfs_empty_head»]
    simp [absEv, lrun, lstep, hpc]

-- ----------------------------------------------------------------------------------------------------------
-- _cds_lfs_push (CAS retry loop): every call path of the local automaton is a prefix of a source trace
-- ----------------------------------------------------------------------------------------------------------
/-- a path of the local automaton that stays within one call: no label is taken from `idle` -/
def Within : LState → List LLabel → Prop
  | _, [] => True
  | ls, l :: rest => ls.pc ≠ .idle ∧ ∃ m, lstep ls l = some m ∧ Within m rest

theorem within_lrun : ∀ (labels : List LLabel) (ls : LState), Within ls labels → (lrun ls labels).isSome := by
  intro labels
  induction labels with
  | nil => intro ls _; rfl
  | cons l rest ih =>
    intro ls hw
    obtain ⟨-, m, hm, hw'⟩ := hw
    simp only [lrun, hm]
    exact ih m hw'

/-- the label sequences of one call of push with current guess `h` -/
inductive PushPath (n : Nat) : Nat → List LLabel → Prop
  | nil (h) : PushPath n h []
  | st (h) : PushPath n h [.pushSt n h]
  | ok (h) : PushPath n h [.pushSt n h, .pushCas n h h]
  | retry (h cur rest) : cur ≠ h → PushPath n cur rest → PushPath n h (.pushSt n h :: .pushCas n h cur :: rest)

theorem pushPath_of_within (n : Nat) : ∀ (k : Nat) (labels : List LLabel) (h : Nat) (r : Lfs.Ret),
    labels.length ≤ k → Within ⟨.pushSt n h, r⟩ labels → PushPath n h labels := by
  intro k
  induction k with
  | zero =>
    intro labels h r hl _
    cases labels with
    | nil => exact .nil h
    | cons _ _ => simp at hl
  | succ k ih =>
    intro labels h r hl hw
    match labels, hl, hw with
    | [], _, _ => exact .nil h
    | l :: rest, hl, hw =>
      obtain ⟨-, m, hm, hw1⟩ := hw
      cases l <;> simp only [lstep, reduceCtorEq, ite_false] at hm <;> try (simp at hm; done)
      rename_i n' h'
      by_cases he : Lfs.Pc.pushSt n h = Lfs.Pc.pushSt n' h'
      · injection he with e1 e2; subst e1; subst e2
        simp only [if_true, Option.some.injEq] at hm; subst hm
        match rest, hl, hw1 with
        | [], _, _ => exact .st h
        | l2 :: rest2, hl, hw1 =>
          obtain ⟨-, m2, hm2, hw2⟩ := hw1
          cases l2 <;> simp only [lstep, reduceCtorEq, ite_false] at hm2 <;> try (simp at hm2; done)
          rename_i n2 h2 cur
          by_cases he2 : Lfs.Pc.pushCas n h = Lfs.Pc.pushCas n2 h2
          · injection he2 with e1 e2; subst e1; subst e2
            simp only [if_true] at hm2
            by_cases hc : cur = h
            · subst hc
              simp only [if_true, Option.some.injEq] at hm2; subst hm2
              cases rest2 with
              | nil => exact .ok cur
              | cons x xs => exact absurd rfl hw2.1
            · simp only [hc, if_false, Option.some.injEq] at hm2; subst hm2
              refine .retry h cur rest2 hc (ih rest2 cur r ?_ hw2)
              simp at hl; omega
          · simp [he2] at hm2
      · simp [he] at hm

/-- what the loop needs of the environment: the current guess `h` in `head` -/
def PushEnv (s n : Nat) (cfg : Int) (h : Nat) (e : Env) : Prop :=
  e.vars "s" = some (.ptr (.obj s)) ∧ e.vars "node" = some (.ptr (.obj n)) ∧
  e.vars "new_head" = some (.ptr (.obj n)) ∧ e.priv (.glob "CONFIG_RCU_EMIT_LEGACY_MB") = some (.int cfg) ∧
  e.vars "head" = some (enc h)

theorem push_body_exact (fuel s n : Nat) (cfg : Int) (hnode : n ≠ 0)
    (body : Stmt) (hb : firstLoop Gen.Src.«_cds_lfs_push» = some body)
    (e : Env) (h : Nat) (hE : PushEnv s n cfg h e) :
    (∃ o, exec fuel body e [] = .ok o ∧ o.ctl = .blocked) ∧
    (∀ rest, ∃ o, exec fuel body e (enc h :: rest) = .ok o ∧ o.ctl = .brk ∧
      o.events.flatMap (absEv .push s) = [.pushSt n h, .pushCas n h h] ∧ o.env.vars "head" = some (enc h)) ∧
    (∀ cur rest, cur ≠ h → ∃ o, exec fuel body e (enc cur :: rest) = .ok o ∧ o.ctl = .normal ∧ o.inp = rest ∧
      o.events.flatMap (absEv .push s) = [.pushSt n h, .pushCas n h cur] ∧ PushEnv s n cfg cur o.env) := by
  simp only [Gen.Src.«_cds_lfs_push», block, firstLoop, Option.some.injEq] at hb
  subst hb
  obtain ⟨h1, h2, h3, h4, h6⟩ := hE
  have hdn : dec (.ptr (.obj n)) = some n := by simp [dec, hnode]
  refine ⟨?_, ?_, ?_⟩
  · by_cases hc : cfg = 0 <;> sexec
  · intro rest
    by_cases hc : cfg = 0 <;> sexec <;> simp [absEv, headLoc, hdn, hnode]
  · intro cur rest hne
    have hne' : ¬ h = cur := fun e => hne e.symm
    by_cases hc : cfg = 0 <;> sexec <;> simp [absEv, headLoc, hdn, hnode, PushEnv, h1, h2, h3, h4, hc]

theorem push_loop_converse (fuel s n : Nat) (cfg : Int) (hnode : n ≠ 0)
    (body : Stmt) (hb : firstLoop Gen.Src.«_cds_lfs_push» = some body) :
    ∀ (h : Nat) (labels : List LLabel), PushPath n h labels →
      ∃ inp, (∀ v ∈ inp, (dec v).isSome) ∧ ∀ k e acc, labels.length ≤ 2 * k → PushEnv s n cfg h e →
        ∃ out, iterate (exec fuel body) k e inp acc = .ok out ∧ ∃ evs, out.events = acc ++ evs ∧
          labels <+: evs.flatMap (absEv .push s) ∧
          (out.ctl = .blocked ∨ out.ctl = .fuel ∨ (out.ctl = .normal ∧ ∃ hv, out.env.vars "head" = some (enc hv))) := by
  intro h labels hp
  induction hp with
  | nil h =>
    refine ⟨[], by simp, ?_⟩
    intro k e acc _ hE
    cases k with
    | zero => exact ⟨_, rfl, [], by simp, List.nil_prefix, .inr (.inl rfl)⟩
    | succ k =>
      obtain ⟨⟨o, ho, hctl⟩, -, -⟩ := push_body_exact fuel s n cfg hnode body hb e h hE
      rcases o with ⟨oev, oenv, oinp, octl⟩
      simp only at hctl; subst hctl
      exact ⟨⟨acc ++ oev, oenv, oinp, .blocked⟩, by simp only [iterate, ho, bind, Except.bind], oev, rfl,
        List.nil_prefix, .inl rfl⟩
  | st h =>
    refine ⟨[enc h], by simp, ?_⟩
    intro k e acc hk hE
    cases k with
    | zero => simp at hk
    | succ k =>
      obtain ⟨-, hok, -⟩ := push_body_exact fuel s n cfg hnode body hb e h hE
      obtain ⟨o, ho, hctl, hev, hhd⟩ := hok []
      rcases o with ⟨oev, oenv, oinp, octl⟩
      simp only at hctl hev hhd; subst hctl
      exact ⟨⟨acc ++ oev, oenv, oinp, .normal⟩, by simp only [iterate, ho, bind, Except.bind], oev, rfl,
        by rw [hev]; exact ⟨[_], rfl⟩, .inr (.inr ⟨rfl, h, hhd⟩)⟩
  | ok h =>
    refine ⟨[enc h], by simp, ?_⟩
    intro k e acc hk hE
    cases k with
    | zero => simp at hk
    | succ k =>
      obtain ⟨-, hok, -⟩ := push_body_exact fuel s n cfg hnode body hb e h hE
      obtain ⟨o, ho, hctl, hev, hhd⟩ := hok []
      rcases o with ⟨oev, oenv, oinp, octl⟩
      simp only at hctl hev hhd; subst hctl
      exact ⟨⟨acc ++ oev, oenv, oinp, .normal⟩, by simp only [iterate, ho, bind, Except.bind], oev, rfl,
        by rw [hev]; exact List.prefix_refl _, .inr (.inr ⟨rfl, h, hhd⟩)⟩
  | retry h cur rest hne _ ih =>
    obtain ⟨inp', hwt, hloop⟩ := ih
    refine ⟨enc cur :: inp', by simpa using hwt, ?_⟩
    intro k e acc hk hE
    cases k with
    | zero => simp at hk
    | succ k =>
      obtain ⟨-, -, hfail⟩ := push_body_exact fuel s n cfg hnode body hb e h hE
      obtain ⟨o, ho, hctl, hinp, hev, hE'⟩ := hfail cur inp' hne
      rcases o with ⟨oev, oenv, oinp, octl⟩
      simp only at hctl hinp hev hE'; subst hctl; subst hinp
      obtain ⟨out, hout, evs, hevs, hpre, hfin⟩ := hloop k oenv (acc ++ oev) (by simp at hk; omega) hE'
      refine ⟨out, by simp only [iterate, ho, bind, Except.bind]; exact hout, oev ++ evs, by simp [hevs], ?_, hfin⟩
      rw [List.flatMap_append, hev]
      obtain ⟨tl, htl⟩ := hpre
      exact ⟨tl, by simp [← htl]⟩

/-- **Converse for `_cds_lfs_push`**: every path of the local automaton from the call's entry pc that stays within
the call is a prefix of the abstraction of a source run (for a sufficient loop budget, under a well-typed oracle) -/
theorem push_converse (env : Env) (s n : Nat) (cfg : Int) (r : Lfs.Ret)
    (hs : env.vars "u_s" = some (.ptr (.obj s))) (hn : env.vars "node" = some (.ptr (.obj n)))
    (hcfg : env.priv (.glob "CONFIG_RCU_EMIT_LEGACY_MB") = some (.int cfg))
    (hnode : n ≠ 0) (labels : List LLabel) (hw : Within ⟨.pushSt n 0, r⟩ labels) :
    ∃ fuel inp out, (∀ v ∈ inp, (dec v).isSome) ∧ exec fuel Gen.Src.«_cds_lfs_push» env inp = .ok out ∧
      labels <+: out.events.flatMap (absEv .push s) := by
  have hp := pushPath_of_within n labels.length labels 0 r (Nat.le_refl _) hw
  obtain ⟨inp, hwt, hloop⟩ := push_loop_converse labels.length s n cfg hnode _
    (by simp [Gen.Src.«_cds_lfs_push», block, firstLoop]; rfl) 0 labels hp
  refine ⟨labels.length, inp, ?_⟩
  sexec [Gen.Src.«_cds_lfs_push», Gen.Src.«___cds_lfs_empty_head»]
  generalize hE : iterate _ _ _ _ _ = rr
  obtain ⟨o, rfl, evs, hev, hpre, hfin⟩ : ∃ o, rr = .ok o ∧ ∃ evs, o.events = [] ++ evs ∧
      labels <+: evs.flatMap (absEv .push s) ∧
      (o.ctl = .blocked ∨ o.ctl = .fuel ∨ (o.ctl = .normal ∧ ∃ hv, o.env.vars "head" = some (enc hv))) := by
    rw [← hE]
    exact hloop labels.length _ [] (by omega) (by sexec [PushEnv]; rfl)
  simp only [List.nil_append] at hev
  rcases hfin with hc | hc | ⟨hc, hv, hhd⟩
  · sexec; exact hwt
  · sexec; exact hwt
  · by_cases h0 : hv = 0 <;> sexec <;> exact hwt

end LfsR
end UrcuVerif.Src
