import UrcuVerif.Gen.Src
import UrcuVerif.Src.FutexLocal
/-!
# Futex wait / wake handshakes: the GENERATED source IR refines the generic waiter / waker automata

(generic layer: event abstraction, acceptance, the loop rule; the per-function theorems are in `Src/FutexGp.lean`,
`Src/FutexCallRcu.lean`, …)

## Abstraction of events

Stateless: `absEvW F A fn : Event → Option (List GWLabel)` for a waiter on the futex word `F` with armed value `A` through
the wrapper `fn` (`futex_async` / `futex_noasync`), `absEvK F fn` for a waker.  `none` = the event has no place in the
protocol (rejected), `some []` = silent.

waiter:
* `ld F v`                                   ↦ `ldArmed` if `v = A`, else `ldOther v`
* `fn(F, FUTEX_WAIT, A, NULL, NULL, 0) = r`   ↦ `sleep, woken` if `r = 0`; silent if `r ≠ 0` (the outcome is in `errno`)
* `errno = EAGAIN` ↦ `eagain`, `errno = EINTR` ↦ `intr`, any other `errno`: rejected
* `urcu_die(..)`, any other access to `F`, `fn` with other arguments: rejected
* silent: fences / barriers (`cmm_smp_mb`, `cmm_smp_rmb`, `smp_mb_master` incl. its `membarrier` system call: the L2
  models execute the waiter's accesses in program order and read memory directly, a load-load / full barrier of the
  waiter is built in), `mutex_lock/unlock(&rcu_registry_lock)` (not part of the handshake models), accesses to other
  locations.

waker:
* `ld F v` ↦ `k1 v` (followed by the silent branch `k2Skip` if `v ≠ -1`); `st F 0` ↦ `k2Wake`;
  `fn(F, FUTEX_WAKE, 1, NULL, NULL, 0)` ↦ `k3`; `urcu_die`, other accesses to `F`: rejected; the rest silent (the
  `cmm_smp_mb()` at the head of `call_rcu_wake_up` / `futex_wake_up` is folded by L2 into the preceding enqueue label).

## The system-call contract (`evOk`, hypothesis `out.events.all (evOk F)` of the waiter theorems)

* `errno ∈ {EAGAIN, EINTR}` whenever it is read, i.e. whenever FUTEX_WAIT returned non-zero (the documented outcomes of
  FUTEX_WAIT without timeout on a valid address; the source calls `urcu_die()` otherwise);
* `membarrier()` returns 0 (the source dies otherwise);
* the futex word holds an integer.
`exec` itself never fails for the waiters, whatever the oracle (first conjunct of every theorem, unconditional).
-/
set_option maxRecDepth 8192
set_option linter.unusedSimpArgs false
set_option linter.unusedVariables false
namespace UrcuVerif.Src.Futex
open UrcuVerif UrcuVerif.Src UrcuVerif.Gen.Src

/-! ## labels of an event list; acceptance -/

def labelsOf {lab : Type} (abs : Event → Option (List lab)) : List Event → Option (List lab)
  | [] => some []
  | e :: es =>
    match abs e, labelsOf abs es with
    | some a, some b => some (a ++ b)
    | _, _ => none

/-- abstract every event and run the automaton on the labels -/
def accept {σ lab : Type} (abs : Event → Option (List lab)) (step : σ → lab → Option σ) (s : σ) (evs : List Event) :
    Option σ :=
  match labelsOf abs evs with
  | some ls => runA step s ls
  | none => none

theorem runA_append_eq {σ lab} (step : σ → lab → Option σ) : ∀ (a b : List lab) (s : σ),
    runA step s (a ++ b) = match runA step s a with | some s1 => runA step s1 b | none => none := by
  intro a
  induction a with
  | nil => intro b s; simp [runA]
  | cons x a ih =>
    intro b s
    simp only [runA, List.cons_append]
    cases step s x with
    | none => rfl
    | some n => exact ih b n

theorem accept_nil {σ lab} (abs : Event → Option (List lab)) (step : σ → lab → Option σ) (s : σ) :
    accept abs step s [] = some s := rfl

theorem accept_cons {σ lab} (abs : Event → Option (List lab)) (step : σ → lab → Option σ) (s : σ) (e : Event)
    (es : List Event) :
    accept abs step s (e :: es) =
      match abs e with
      | none => none
      | some ls => match runA step s ls with
        | none => none
        | some s1 => accept abs step s1 es := by
  simp only [accept, labelsOf]
  cases abs e with
  | none => rfl
  | some a =>
    cases labelsOf abs es with
    | none => simp only []; cases runA step s a <;> rfl
    | some b => simp only [runA_append_eq]; cases runA step s a <;> rfl

theorem accept_append {σ lab} (abs : Event → Option (List lab)) (step : σ → lab → Option σ) :
    ∀ (a b : List Event) (s s1 s2 : σ), accept abs step s a = some s1 → accept abs step s1 b = some s2 →
      accept abs step s (a ++ b) = some s2 := by
  intro a
  induction a with
  | nil => intro b s s1 s2 h1 h2; simp [accept_nil] at h1; subst h1; simpa using h2
  | cons e a ih =>
    intro b s s1 s2 h1 h2
    simp only [List.cons_append, accept_cons] at h1 ⊢
    split at h1
    · simp at h1
    · rename_i ls hls
      split at h1
      · simp at h1
      · exact ih _ _ _ _ h1 h2

/-- acceptance = "the labels of the events are a run of the automaton" -/
theorem accept_iff {σ lab} (abs : Event → Option (List lab)) (step : σ → lab → Option σ) (s s' : σ) (evs : List Event) :
    accept abs step s evs = some s' ↔ ∃ labs, labelsOf abs evs = some labs ∧ runA step s labs = some s' := by
  unfold accept
  cases labelsOf abs evs with
  | none => simp
  | some ls => simp

/-! ## the abstractions -/

def Event.loc? : Event → Option Loc
  | .ld l _ _ | .st l _ _ | .xchg l _ _ _ | .cas l _ _ _ _ _ | .rmw _ l _ _ _ => some l
  | _ => none

/-- arguments of `futex(F, FUTEX_WAIT, A, NULL, NULL, 0)` / `futex(F, FUTEX_WAKE, 1, NULL, NULL, 0)` -/
def waitArgs (F : Loc) (A : Int) : List Val := [.ptr F, .int 0, .int A, .int 0, .int 0, .int 0]
def wakeArgs (F : Loc) : List Val := [.ptr F, .int 1, .int 1, .int 0, .int 0, .int 0]

def absEvW (F : Loc) (A : Int) (fn : String) : Event → Option (List GWLabel)
  | .ld l v _ =>
    if l = F then
      match v with
      | .int n => some (if n = A then [.ldArmed] else [.ldOther n])
      | _ => none
    else some []
  | .ext name args r =>
    if name = fn then
      (if args = waitArgs F A then some (if r.truthy then [] else [.sleep, .woken]) else none)
    else if name = "errno" then
      (if r = .int 11 then some [.eagain] else if r = .int 4 then some [.intr] else none)
    else if name = "urcu_die" then none
    else some []
  | .fence _ => some []
  | e =>
    match Event.loc? e with
    | some l => if l = F then none else some []
    | none => some []

def absEvK (F : Loc) (fn : String) : Event → Option (List GKLabel)
  | .ld l v _ =>
    if l = F then
      match v with
      | .int n => some (if n = -1 then [.k1 n] else [.k1 n, .k2Skip])
      | _ => none
    else some []
  | .st l v _ => if l = F then (if v = .int 0 then some [.k2Wake] else none) else some []
  | .ext name args _ =>
    if name = fn then (if args = wakeArgs F then some [.k3] else none)
    else if name = "urcu_die" then none
    else some []
  | .fence _ => some []
  | e =>
    match Event.loc? e with
    | some l => if l = F then none else some []
    | none => some []

/-- the system-call contract, see the header -/
def evOk (F : Loc) : Event → Bool
  | .ld l v _ => if l = F then (match v with | .int _ => true | _ => false) else true
  | .ext name _ r =>
    if name = "errno" then decide (r = .int 11 ∨ r = .int 4)
    else if name = "membarrier" then decide (r = .int 0)
    else true
  | _ => true

/-! ## the loop rule -/

def exitCtl : Ctl → Ctl
  | .brk => .normal
  | c => c

/-- `for (;;) body` against an acceptor `run` (closed under concatenation):
`IE` = unconditional invariant of the environment at the loop head (enough for the body not to fail),
`IS` = relation environment / automaton state at the loop head, `Post c env s` = what holds when the body leaves the
loop with control `c`; everything about the automaton is conditional on the events satisfying `ok`. -/
theorem iterate_inv {σ : Type} (run : σ → List Event → Option σ)
    (run_app : ∀ a b s s1 s2, run s a = some s1 → run s1 b = some s2 → run s (a ++ b) = some s2)
    (ok : Event → Bool) (IE : Env → Prop) (C : Ctl → Prop) (IS : Env → σ → Prop) (Post : Ctl → Env → σ → Prop)
    (body : Env → List Val → Except String Out)
    (hbody : ∀ env inp, IE env → ∃ o, body env inp = .ok o ∧ IE o.env ∧ C o.ctl ∧
      ∀ s, IS env s → o.events.all ok = true → ∃ s', run s o.events = some s' ∧
        ((o.ctl = .normal ∨ o.ctl = .cont) → IS o.env s') ∧
        (¬ (o.ctl = .normal ∨ o.ctl = .cont) → Post o.ctl o.env s')) :
    ∀ n env inp acc, IE env → ∃ out, iterate body n env inp acc = .ok out ∧ IE out.env ∧
      (out.ctl = .fuel ∨ ∃ c, C c ∧ ¬ (c = .normal ∨ c = .cont) ∧ out.ctl = exitCtl c) ∧
      ∀ s0 s, run s0 acc = some s → IS env s → out.events.all ok = true →
        ∃ s', run s0 out.events = some s' ∧
          ((out.ctl = .fuel ∧ IS out.env s') ∨
           (∃ c, ¬ (c = .normal ∨ c = .cont) ∧ Post c out.env s' ∧ out.ctl = exitCtl c)) := by
  intro n
  induction n with
  | zero =>
    intro env inp acc hE
    refine ⟨_, rfl, hE, .inl rfl, ?_⟩
    intro s0 s hr hS _
    exact ⟨s, hr, .inl ⟨rfl, hS⟩⟩
  | succ n ih =>
    intro env inp acc hE
    obtain ⟨o, ho, hE', hC, hrest⟩ := hbody env inp hE
    simp only [iterate, ho, bind, Except.bind]
    by_cases hc : o.ctl = .normal ∨ o.ctl = .cont
    · obtain ⟨out, hout, hE2, hC2, h2⟩ := ih o.env o.inp (acc ++ o.events) hE'
      have heq : (match o.ctl with
          | .normal | .cont => iterate body n o.env o.inp (acc ++ o.events)
          | .brk => Except.ok { o with events := acc ++ o.events, ctl := .normal }
          | c => Except.ok { o with events := acc ++ o.events, ctl := c }) =
          iterate body n o.env o.inp (acc ++ o.events) := by
        rcases hc with hc | hc <;> simp [hc]
      refine ⟨out, by rw [← hout]; exact heq, hE2, hC2, ?_⟩
      intro s0 s hr hS hok
      have hpre : (acc ++ o.events).all ok = true := by
        obtain ⟨pre, hpre⟩ : ∃ suf, out.events = (acc ++ o.events) ++ suf := iterate_events body n _ _ _ _ hout
        rw [hpre, List.all_append] at hok
        simp only [Bool.and_eq_true] at hok
        exact hok.1
      rw [List.all_append, Bool.and_eq_true] at hpre
      obtain ⟨s1, hr1, hS1, -⟩ := hrest s hS hpre.2
      exact h2 s0 s1 (run_app _ _ _ _ _ hr hr1) (hS1 hc) hok
    · refine ⟨{ o with events := acc ++ o.events, ctl := exitCtl o.ctl }, ?_, hE', .inr ⟨o.ctl, hC, hc, rfl⟩, ?_⟩
      · cases hctl : o.ctl <;> simp_all [exitCtl]
      · intro s0 s hr hS hok
        simp only [List.all_append, Bool.and_eq_true] at hok
        obtain ⟨s1, hr1, -, hP⟩ := hrest s hS hok.2
        exact ⟨s1, run_app _ _ _ _ _ hr hr1, .inr ⟨o.ctl, hc, hP hc, rfl⟩⟩
where
  iterate_events (body : Env → List Val → Except String Out) :
      ∀ n env inp acc out, iterate body n env inp acc = .ok out → ∃ suf, out.events = acc ++ suf := by
    intro n
    induction n with
    | zero => intro env inp acc out h; simp [iterate] at h; subst h; exact ⟨[], by simp⟩
    | succ n ih =>
      intro env inp acc out h
      simp only [iterate, bind, Except.bind] at h
      split at h
      · simp at h
      · rename_i o _
        split at h
        · obtain ⟨suf, hs⟩ := ih _ _ _ _ h; exact ⟨o.events ++ suf, by rw [hs, List.append_assoc]⟩
        · obtain ⟨suf, hs⟩ := ih _ _ _ _ h; exact ⟨o.events ++ suf, by rw [hs, List.append_assoc]⟩
        · simp at h; subst h; exact ⟨o.events, rfl⟩
        · simp at h; subst h; exact ⟨o.events, rfl⟩

/-- the loop rule for `exec` of a `.loop` statement, in the form used after `generalize`:
`hL : exec fuel (.loop B) env inp = X` -/
theorem loop_inv {σ : Type} (run : σ → List Event → Option σ) (run_nil : ∀ s, run s [] = some s)
    (run_app : ∀ a b s s1 s2, run s a = some s1 → run s1 b = some s2 → run s (a ++ b) = some s2)
    (ok : Event → Bool) (IE : Env → Prop) (C : Ctl → Prop) (IS : Env → σ → Prop) (Post : Ctl → Env → σ → Prop)
    {fuel : Nat} {B : Stmt} {env : Env} {inp : List Val} {X : Except String Out}
    (hL : exec fuel (.loop B) env inp = X)
    (hbody : ∀ env inp, IE env → ∃ o, exec fuel B env inp = .ok o ∧ IE o.env ∧ C o.ctl ∧
      ∀ s, IS env s → o.events.all ok = true → ∃ s', run s o.events = some s' ∧
        ((o.ctl = .normal ∨ o.ctl = .cont) → IS o.env s') ∧
        (¬ (o.ctl = .normal ∨ o.ctl = .cont) → Post o.ctl o.env s'))
    (hE : IE env) :
    ∃ out, X = .ok out ∧ IE out.env ∧
      (out.ctl = .fuel ∨ ∃ c, C c ∧ ¬ (c = .normal ∨ c = .cont) ∧ out.ctl = exitCtl c) ∧
      ∀ s, IS env s → out.events.all ok = true →
        ∃ s', run s out.events = some s' ∧
          ((out.ctl = .fuel ∧ IS out.env s') ∨
           (∃ c, ¬ (c = .normal ∨ c = .cont) ∧ Post c out.env s' ∧ out.ctl = exitCtl c)) := by
  rw [exec.eq_6] at hL
  obtain ⟨out, h1, h2, hC, h3⟩ :=
    iterate_inv run run_app ok IE C IS Post (fun e i => exec fuel B e i) hbody fuel env inp [] hE
  refine ⟨out, by rw [← hL, h1], h2, hC, ?_⟩
  intro s hS hok
  exact h3 s s (run_nil s) hS hok

theorem accept_append_eq {σ lab} (abs : Event → Option (List lab)) (step : σ → lab → Option σ) :
    ∀ (a b : List Event) (s : σ), accept abs step s (a ++ b) =
      match accept abs step s a with
      | some s1 => accept abs step s1 b
      | none => none := by
  intro a
  induction a with
  | nil => intro b s; simp [accept_nil]
  | cons e a ih =>
    intro b s
    simp only [List.cons_append, accept_cons]
    cases abs e with
    | none => rfl
    | some ls =>
      simp only []
      cases runA step s ls with
      | none => rfl
      | some s1 => exact ih b s1

theorem all_append_iff (ok : Event → Bool) (a b : List Event) :
    (a ++ b).all ok = true ↔ a.all ok = true ∧ b.all ok = true := by
  rw [List.all_append, Bool.and_eq_true]

/-! ## symbolic execution -/

theorem evalBin_eq (a b : Val) : evalBin .eq a b = .ok (boolV (a = b)) := by cases a <;> cases b <;> rfl
theorem evalBin_ne (a b : Val) : evalBin .ne a b = .ok (boolV (a ≠ b)) := by cases a <;> cases b <;> rfl
theorem evalBin_lt (a b : Int) : evalBin .lt (.int a) (.int b) = .ok (boolV (a < b)) := rfl
theorem truthy_int (n : Int) : (Val.int n).truthy = (n != 0) := rfl
theorem truthy_ptr (l : Loc) : (Val.ptr l).truthy = true := rfl
theorem truthy_of_ne {r : Val} (h : r ≠ .int 0) : r.truthy = true := by
  cases r with
  | int n => simp [Val.truthy]; intro h0; subst h0; exact h rfl
  | ptr l => rfl

/-- the numbering of `exec`'s equations used by `fx_exec` (all but the loop, `exec.eq_6`) -/
example (fuel b env inp) : exec fuel (.loop b) env inp = iterate (fun e i => exec fuel b e i) fuel env inp [] :=
  exec.eq_6 fuel env inp b

open Lean.Parser.Tactic in
/-- unfold the IR semantics on a closed program text, except on loops -/
macro "fx_exec" "[" ts:simpLemma,* "]" : tactic =>
  `(tactic| simp [block, exec.eq_1, exec.eq_2, exec.eq_3, exec.eq_4, exec.eq_5, exec.eq_7, exec.eq_8, exec.eq_9, exec.eq_10,
      exec.eq_11, exec.eq_12, exec.eq_13, eval, evalArgs, execPrim, bind, Except.bind, asLoc, Env.setVar, Env.setPriv,
      bindParams, setDst, evalUn, evalBin_eq, evalBin_ne, evalBin_lt, boolV, truthy_int, truthy_ptr, *, $ts,*])

open Lean.Parser.Tactic in
/-- `fx_exec` without the local hypotheses -/
macro "fx_exec0" "[" ts:simpLemma,* "]" : tactic =>
  `(tactic| simp [block, exec.eq_1, exec.eq_2, exec.eq_3, exec.eq_4, exec.eq_5, exec.eq_7, exec.eq_8, exec.eq_9, exec.eq_10,
      exec.eq_11, exec.eq_12, exec.eq_13, eval, evalArgs, execPrim, bind, Except.bind, asLoc, Env.setVar, Env.setPriv,
      bindParams, setDst, evalUn, evalBin_eq, evalBin_ne, evalBin_lt, boolV, truthy_int, truthy_ptr, $ts,*])

open Lean.Parser.Tactic in
/-- run the abstraction and the generic automata on a closed event list -/
macro "fx_abs" "[" ts:simpLemma,* "]" : tactic =>
  `(tactic| simp [accept_nil, accept_cons, accept_append_eq, all_append_iff, absEvW, absEvK, evOk, runA, gwstep, gkstep,
      waitArgs, wakeArgs, Event.loc?, truthy_int, truthy_ptr, exitCtl, *, $ts,*])

set_option hygiene false in
macro "wait_leaf" : tactic => `(tactic| (fx_exec [WaitCtl] <;> fx_abs []))

set_option hygiene false in
/-- one iteration of a futex wait loop (`inp1` = the oracle): case analysis on the values the load of the futex word,
FUTEX_WAIT, `errno` (twice on the `urcu_die` path) and `urcu_die` return; `leaf` closes each case -/
macro "wait_body_at" a:term:max "with" leaf:tacticSeq : tactic =>
  `(tactic| (
    cases inp1 with
    | nil => ($leaf)
    | cons v r1 =>
      by_cases hv : v = .int $a
      · subst hv
        cases r1 with
        | nil => ($leaf)
        | cons r r2 =>
          by_cases hr : r = .int 0
          · subst hr; ($leaf)
          · have hrt := truthy_of_ne hr
            cases r2 with
            | nil => ($leaf)
            | cons e r3 =>
              by_cases he : e = .int 11
              · subst he; ($leaf)
              · by_cases he4 : e = .int 4
                · subst he4; ($leaf)
                · cases r3 with
                  | nil => ($leaf)
                  | cons e2 r4 =>
                    cases r4 with
                    | nil => ($leaf)
                    | cons d r5 => ($leaf)
      · cases v with
        | int n => have hn : n ≠ $a := fun h => hv (by rw [h]); ($leaf)
        | ptr l => ($leaf)))

macro "wait_body_with" leaf:tacticSeq : tactic => `(tactic| wait_body_at (-1) with $leaf)

macro "wait_body" : tactic => `(tactic| wait_body_with wait_leaf)

/-- what a futex wait loop guarantees (`out` = the run of the `.loop` statement): from pc `chk`, under the system-call
contract, the events are a run of the generic waiter, which is at `done` when the loop was left (by `break`/`goto`:
`normal`, or by `return`: `ret none`), at `chk` when the loop budget ran out; otherwise the run is a blocked prefix -/
def LoopPost (F : Loc) (A : Int) (fn : String) (out : Out) : Prop :=
  out.events.all (evOk F) = true →
    ∃ g', accept (absEvW F A fn) (gwstep A) .chk out.events = some g' ∧
      ((out.ctl = .fuel ∧ g' = .chk) ∨ out.ctl = .blocked ∨ ((out.ctl = .normal ∨ out.ctl = .ret none) ∧ g' = .done))

/-- the ways an iteration of a futex wait loop ends -/
def WaitCtl (c : Ctl) : Prop := c = .normal ∨ c = .cont ∨ c = .brk ∨ c = .ret none ∨ c = .blocked

/-- the loop rule instantiated for a futex wait loop -/
theorem wait_loop (F : Loc) (A : Int) (fn : String) (IE : Env → Prop)
    {fuel : Nat} {B : Stmt} {env : Env} {inp : List Val} {X : Except String Out}
    (hL : exec fuel (.loop B) env inp = X)
    (hbody : ∀ env inp, IE env → ∃ o, exec fuel B env inp = .ok o ∧ IE o.env ∧ WaitCtl o.ctl ∧
      ∀ s, s = GWPc.chk → o.events.all (evOk F) = true → ∃ s', accept (absEvW F A fn) (gwstep A) s o.events = some s' ∧
        ((o.ctl = .normal ∨ o.ctl = .cont) → s' = .chk) ∧
        (¬ (o.ctl = .normal ∨ o.ctl = .cont) → o.ctl = .blocked ∨ ((o.ctl = .brk ∨ o.ctl = .ret none) ∧ s' = .done)))
    (hE : IE env) :
    ∃ out, X = .ok out ∧ IE out.env ∧
      (out.ctl = .fuel ∨ out.ctl = .blocked ∨ out.ctl = .normal ∨ out.ctl = .ret none) ∧ LoopPost F A fn out := by
  obtain ⟨out, h1, h2, hC, h3⟩ := loop_inv (accept (absEvW F A fn) (gwstep A)) (accept_nil _ _) (accept_append _ _)
    (evOk F) IE WaitCtl
    (fun _ s => s = .chk) (fun c _ s => c = .blocked ∨ ((c = .brk ∨ c = .ret none) ∧ s = .done)) hL hbody hE
  refine ⟨out, h1, h2, ?_, ?_⟩
  · rcases hC with h | ⟨c, hc, hn, he⟩
    · exact .inl h
    · unfold WaitCtl at hc
      rcases hc with rfl | rfl | rfl | rfl | rfl <;> simp_all [exitCtl]
  intro hok
  obtain ⟨g', hg, hpost⟩ := h3 _ rfl hok
  refine ⟨g', hg, ?_⟩
  rcases hpost with ⟨hc, hg'⟩ | ⟨c, hc1, hc2, hc3⟩
  · exact .inl ⟨hc, hg'⟩
  · rcases hc2 with rfl | ⟨rfl | rfl, rfl⟩
    · exact .inr (.inl hc3)
    · exact .inr (.inr ⟨.inl hc3, rfl⟩)
    · exact .inr (.inr ⟨.inr hc3, rfl⟩)

/-- what a call of a futex waiter guarantees: the private view is unchanged, and under the system-call contract the
events are a run of the generic waiter from `chk`, at `done` when the call completes -/
def WaitPost (F : Loc) (A : Int) (fn : String) (env : Env) (out : Out) : Prop :=
  out.env.priv = env.priv ∧ LoopPost F A fn out

open Lean.Parser.Tactic in
set_option hygiene false in
/-- conclusion of a waiter theorem from the loop's (`h`): the events before / after the loop are silent -/
macro "loop_post" h:ident "[" ts:simpLemma,* "]" : tactic => `(tactic| (
   unfold LoopPost
   intro hok
   simp only [] at hok ⊢
   try simp only [List.all_cons, all_append_iff, List.all_nil, Bool.and_eq_true] at hok
   first
   | (simp [evOk, *] at hok; done)
   | (obtain ⟨g', hg, hp⟩ := $h (by simp_all)
      try simp only [$ts,*] at hg
      refine ⟨g', by fx_abs [hg], ?_⟩
      simp_all)))

/-- what a call of a futex waker guarantees: only the futex word changes in the private view; when the futex word
holds an integer (`evOk`), the events are a run of the generic waker from `k1` (any register content `r0`), at `k4` when
the call completes -/
def WakePost (F : Loc) (fn : String) (env : Env) (out : Out) : Prop :=
  (∀ l, l ≠ F → out.env.priv l = env.priv l) ∧
  (out.ctl = .normal ∨ out.ctl = .blocked) ∧
  (out.events.all (evOk F) = true →
    ∀ r0, ∃ k', accept (absEvK F fn) gkstep { kpc := .k1, r := r0 } out.events = some k' ∧
      (out.ctl = .normal → k'.kpc = .k4))

set_option hygiene false in
/-- case analysis on the oracle of a waker: value loaded from the futex word, result of FUTEX_WAKE -/
macro "wake_cases" leaf:tacticSeq : tactic =>
  `(tactic| (
    cases inp with
    | nil => ($leaf)
    | cons v rest =>
      by_cases hv : v = .int (-1)
      · subst hv
        cases rest with
        | nil => ($leaf)
        | cons r rest => ($leaf)
      · cases v with
        | int n => have hn : n ≠ -1 := fun h => hv (by rw [h]); ($leaf)
        | ptr l => ($leaf)))

/-! ## state-dependent abstraction; partial-correctness loop rule

Used for the wait nodes (`Src/FutexWaitNode.lean`): the same source access `uatomic_load(&wait->state)` is a different L2
label in different phases, so the abstraction looks at the local state; and `exec` can fail there (a `&` on a loaded
value that is not a non-negative integer), so the theorems are stated for every run that returns `.ok`. -/

def acceptS {σ lab : Type} (abs : σ → Event → Option (List lab)) (step : σ → lab → Option σ) :
    σ → List Event → Option σ
  | s, [] => some s
  | s, e :: es =>
    match abs s e with
    | none => none
    | some ls =>
      match runA step s ls with
      | none => none
      | some s1 => acceptS abs step s1 es

def labelsS {σ lab : Type} (abs : σ → Event → Option (List lab)) (step : σ → lab → Option σ) :
    σ → List Event → Option (List lab)
  | _, [] => some []
  | s, e :: es =>
    match abs s e with
    | none => none
    | some ls =>
      match runA step s ls with
      | none => none
      | some s1 => (labelsS abs step s1 es).map (ls ++ ·)

theorem acceptS_nil {σ lab} (abs : σ → Event → Option (List lab)) (step : σ → lab → Option σ) (s : σ) :
    acceptS abs step s [] = some s := rfl

theorem acceptS_cons {σ lab} (abs : σ → Event → Option (List lab)) (step : σ → lab → Option σ) (s : σ) (e : Event)
    (es : List Event) :
    acceptS abs step s (e :: es) =
      match abs s e with
      | none => none
      | some ls => match runA step s ls with
        | none => none
        | some s1 => acceptS abs step s1 es := rfl

theorem acceptS_append_eq {σ lab} (abs : σ → Event → Option (List lab)) (step : σ → lab → Option σ) :
    ∀ (a b : List Event) (s : σ), acceptS abs step s (a ++ b) =
      match acceptS abs step s a with
      | some s1 => acceptS abs step s1 b
      | none => none := by
  intro a
  induction a with
  | nil => intro b s; simp [acceptS_nil]
  | cons e a ih =>
    intro b s
    simp only [List.cons_append, acceptS_cons]
    cases abs s e with
    | none => rfl
    | some ls =>
      simp only []
      cases runA step s ls with
      | none => rfl
      | some s1 => exact ih b s1

theorem acceptS_append {σ lab} (abs : σ → Event → Option (List lab)) (step : σ → lab → Option σ)
    (a b : List Event) (s s1 s2 : σ) (h1 : acceptS abs step s a = some s1) (h2 : acceptS abs step s1 b = some s2) :
    acceptS abs step s (a ++ b) = some s2 := by
  rw [acceptS_append_eq, h1]; exact h2

theorem acceptS_labels {σ lab} (abs : σ → Event → Option (List lab)) (step : σ → lab → Option σ) :
    ∀ (evs : List Event) (s s' : σ), acceptS abs step s evs = some s' →
      ∃ labs, labelsS abs step s evs = some labs ∧ runA step s labs = some s' := by
  intro evs
  induction evs with
  | nil => intro s s' h; simp [acceptS] at h; subst h; exact ⟨[], rfl, rfl⟩
  | cons e es ih =>
    intro s s' h
    simp only [acceptS_cons] at h
    simp only [labelsS]
    cases ha : abs s e with
    | none => simp [ha] at h
    | some ls =>
      simp only [ha] at h ⊢
      cases hr : runA step s ls with
      | none => simp [hr] at h
      | some s1 =>
        simp only [hr] at h ⊢
        obtain ⟨labs, h1, h2⟩ := ih s1 s' h
        exact ⟨ls ++ labs, by simp [h1], runA_append step _ _ _ _ _ hr h2⟩

/-- partial-correctness version of `iterate_inv`: about the runs of the loop that return `.ok`; `IE` = invariant of the
environment at the loop head, `IX` = what holds of the environment when the body leaves the loop -/
theorem iterate_pc {σ : Type} (run : σ → List Event → Option σ)
    (run_app : ∀ a b s s1 s2, run s a = some s1 → run s1 b = some s2 → run s (a ++ b) = some s2)
    (ok : Event → Bool) (IE IX : Env → Prop) (C : Ctl → Prop) (IS : Env → σ → Prop) (Post : Ctl → Env → σ → Prop)
    (body : Env → List Val → Except String Out)
    (hbody : ∀ env inp o, IE env → body env inp = .ok o →
      ((o.ctl = .normal ∨ o.ctl = .cont) → IE o.env) ∧ (¬ (o.ctl = .normal ∨ o.ctl = .cont) → IX o.env) ∧ C o.ctl ∧
      ∀ s, IS env s → o.events.all ok = true → ∃ s', run s o.events = some s' ∧
        ((o.ctl = .normal ∨ o.ctl = .cont) → IS o.env s') ∧
        (¬ (o.ctl = .normal ∨ o.ctl = .cont) → Post o.ctl o.env s')) :
    ∀ n env inp acc out, IE env → iterate body n env inp acc = .ok out →
      ((out.ctl = .fuel ∧ IE out.env) ∨ (∃ c, C c ∧ ¬ (c = .normal ∨ c = .cont) ∧ out.ctl = exitCtl c ∧ IX out.env)) ∧
      ∀ s0 s, run s0 acc = some s → IS env s → out.events.all ok = true →
        ∃ s', run s0 out.events = some s' ∧
          ((out.ctl = .fuel ∧ IS out.env s') ∨
           (∃ c, ¬ (c = .normal ∨ c = .cont) ∧ Post c out.env s' ∧ out.ctl = exitCtl c)) := by
  intro n
  induction n with
  | zero =>
    intro env inp acc out hE h
    simp only [iterate, Except.ok.injEq] at h
    subst h
    refine ⟨.inl ⟨rfl, hE⟩, ?_⟩
    intro s0 s hr hS _
    exact ⟨s, hr, .inl ⟨rfl, hS⟩⟩
  | succ n ih =>
    intro env inp acc out hE h
    simp only [iterate, bind, Except.bind] at h
    cases hb : body env inp with
    | error e => simp [hb] at h
    | ok o =>
      simp only [hb] at h
      obtain ⟨hE', hX', hC, hrest⟩ := hbody env inp o hE hb
      by_cases hc : o.ctl = .normal ∨ o.ctl = .cont
      · have heq : iterate body n o.env o.inp (acc ++ o.events) = .ok out := by
          rcases hc with hc | hc <;> simpa [hc] using h
        obtain ⟨hC2, h2⟩ := ih o.env o.inp (acc ++ o.events) out (hE' hc) heq
        refine ⟨hC2, ?_⟩
        intro s0 s hr hS hok
        have hpre : (acc ++ o.events).all ok = true := by
          obtain ⟨suf, hsuf⟩ : ∃ suf, out.events = (acc ++ o.events) ++ suf :=
            iterate_inv.iterate_events body n _ _ _ _ heq
          rw [hsuf, List.all_append] at hok
          simp only [Bool.and_eq_true] at hok
          exact hok.1
        rw [List.all_append, Bool.and_eq_true] at hpre
        obtain ⟨s1, hr1, hS1, -⟩ := hrest s hS hpre.2
        exact h2 s0 s1 (run_app _ _ _ _ _ hr hr1) (hS1 hc) hok
      · have hout : out = { o with events := acc ++ o.events, ctl := exitCtl o.ctl } := by
          cases hctl : o.ctl <;> simp_all [exitCtl]
        subst hout
        refine ⟨.inr ⟨o.ctl, hC, hc, rfl, hX' hc⟩, ?_⟩
        intro s0 s hr hS hok
        simp only [List.all_append, Bool.and_eq_true] at hok
        obtain ⟨s1, hr1, -, hP⟩ := hrest s hS hok.2
        exact ⟨s1, run_app _ _ _ _ _ hr hr1, .inr ⟨o.ctl, hc, hP hc, rfl⟩⟩

/-- `iterate_pc` for `exec` of a `.loop` statement, in the form used after `generalize` -/
theorem loop_pc {σ : Type} (run : σ → List Event → Option σ) (run_nil : ∀ s, run s [] = some s)
    (run_app : ∀ a b s s1 s2, run s a = some s1 → run s1 b = some s2 → run s (a ++ b) = some s2)
    (ok : Event → Bool) (IE IX : Env → Prop) (C : Ctl → Prop) (IS : Env → σ → Prop) (Post : Ctl → Env → σ → Prop)
    {fuel : Nat} {B : Stmt} {env : Env} {inp : List Val} {X : Except String Out}
    (hL : exec fuel (.loop B) env inp = X)
    (hbody : ∀ env inp o, IE env → exec fuel B env inp = .ok o →
      ((o.ctl = .normal ∨ o.ctl = .cont) → IE o.env) ∧ (¬ (o.ctl = .normal ∨ o.ctl = .cont) → IX o.env) ∧ C o.ctl ∧
      ∀ s, IS env s → o.events.all ok = true → ∃ s', run s o.events = some s' ∧
        ((o.ctl = .normal ∨ o.ctl = .cont) → IS o.env s') ∧
        (¬ (o.ctl = .normal ∨ o.ctl = .cont) → Post o.ctl o.env s'))
    (hE : IE env) (out : Out) (hX : X = .ok out) :
    ((out.ctl = .fuel ∧ IE out.env) ∨ (∃ c, C c ∧ ¬ (c = .normal ∨ c = .cont) ∧ out.ctl = exitCtl c ∧ IX out.env)) ∧
      ∀ s, IS env s → out.events.all ok = true →
        ∃ s', run s out.events = some s' ∧
          ((out.ctl = .fuel ∧ IS out.env s') ∨
           (∃ c, ¬ (c = .normal ∨ c = .cont) ∧ Post c out.env s' ∧ out.ctl = exitCtl c)) := by
  rw [exec.eq_6] at hL
  subst hX
  obtain ⟨hC, h3⟩ :=
    iterate_pc run run_app ok IE IX C IS Post (fun e i => exec fuel B e i) hbody fuel env inp [] out hE hL
  exact ⟨hC, fun s hS hok => h3 s s (run_nil s) hS hok⟩

/-! ## final forms: source ⊑ generic automaton ⊑ local automaton of an L2 model -/

/-- a waiter call refines the waiter of an L2 model whose local automaton is `lstep` (pcs related by `pcMap`, labels by
`gw2l`): the private view is unchanged, and under the system-call contract the labels `glabs` of the events are a run of
the generic waiter from `chk` and their images a run of `lstep` from `pcMap chk` to `pcMap g'`; `g' = done` when the call
completes, `chk` when the loop budget ran out; otherwise the run is a blocked prefix -/
def WaiterRefines {pc lab : Type} (F : Loc) (A : Int) (fn : String) (lstep : pc → lab → Option pc)
    (pcMap : GWPc → pc) (gw2l : GWLabel → List lab) (env : Env) (out : Out) : Prop :=
  out.env.priv = env.priv ∧
  (out.events.all (evOk F) = true →
    ∃ glabs g', labelsOf (absEvW F A fn) out.events = some glabs ∧ runA (gwstep A) .chk glabs = some g' ∧
      runA lstep (pcMap .chk) (glabs.flatMap gw2l) = some (pcMap g') ∧
      ((out.ctl = .fuel ∧ g' = .chk) ∨ out.ctl = .blocked ∨ ((out.ctl = .normal ∨ out.ctl = .ret none) ∧ g' = .done)))

theorem WaitPost.refines {pc lab : Type} {F : Loc} {A : Int} {fn : String} {env : Env} {out : Out}
    (lstep : pc → lab → Option pc) (pcMap : GWPc → pc) (gw2l : GWLabel → List lab)
    (hsim : ∀ g l g', gwstep A g l = some g' → runA lstep (pcMap g) (gw2l l) = some (pcMap g'))
    (h : WaitPost F A fn env out) : WaiterRefines F A fn lstep pcMap gw2l env out := by
  refine ⟨h.1, fun hok => ?_⟩
  obtain ⟨g', hg, hp⟩ := h.2 hok
  obtain ⟨glabs, h1, h2⟩ := (accept_iff _ _ _ _ _).1 hg
  exact ⟨glabs, g', h1, h2, runA_sim _ _ pcMap gw2l hsim _ _ _ h2, hp⟩

/-- a waker call refines waker `i` of an L2 model with local automaton `kstep` -/
def WakerRefines {ks lab : Type} (F : Loc) (fn : String) (kstep : ks → lab → Option ks)
    (kMap : GKState → ks) (gk2l : GKLabel → List lab) (env : Env) (out : Out) : Prop :=
  (∀ l, l ≠ F → out.env.priv l = env.priv l) ∧
  (out.ctl = .normal ∨ out.ctl = .blocked) ∧
  (out.events.all (evOk F) = true →
    ∀ r0, ∃ glabs k', labelsOf (absEvK F fn) out.events = some glabs ∧
      runA gkstep { kpc := .k1, r := r0 } glabs = some k' ∧
      runA kstep (kMap { kpc := .k1, r := r0 }) (glabs.flatMap gk2l) = some (kMap k') ∧
      (out.ctl = .normal → k'.kpc = .k4))

theorem WakePost.refines {ks lab : Type} {F : Loc} {fn : String} {env : Env} {out : Out}
    (kstep : ks → lab → Option ks) (kMap : GKState → ks) (gk2l : GKLabel → List lab)
    (hsim : ∀ s l s', gkstep s l = some s' → runA kstep (kMap s) (gk2l l) = some (kMap s'))
    (h : WakePost F fn env out) : WakerRefines F fn kstep kMap gk2l env out := by
  refine ⟨h.1, h.2.1, fun hok r0 => ?_⟩
  obtain ⟨k', hk, hp⟩ := h.2.2 hok r0
  obtain ⟨glabs, h1, h2⟩ := (accept_iff _ _ _ _ _).1 hk
  exact ⟨glabs, k', h1, h2, runA_sim _ _ kMap gk2l hsim _ _ _ h2, hp⟩

end UrcuVerif.Src.Futex
