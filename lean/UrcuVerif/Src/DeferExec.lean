import UrcuVerif.Src.IR
import UrcuVerif.Gen.Src
import UrcuVerif.Defer.Ring
/-!
# defer_rcu queue codec: what `exec` does on the GENERATED `_defer_rcu`, `rcu_defer_barrier_queue`, `wake_up_defer`

Value conventions (the IR has exact `Int`s, pointers of the queue are integers here):

* a 64-bit word `w : BitVec 64` of the model (function pointer, argument, ring word) is the IR value `wv w = .int w.toNat`;
* the free-running counters `head`, `tail`, `i` are the IR values `.int (n : Nat)` (no wrap-around in the IR: the 2^64 wrap
  is `Defer.ring_index_wrap`, Props/C13.lean);
* slot `i` of the ring of queue `base` is the location `slot base i = &base->q[i % 4096]` (the translator renders
  `q[e]` as `Expr.index (&base->q) e`: the load of the pointer `base->q` itself is not an event).
-/
set_option maxRecDepth 8192
set_option linter.unusedSimpArgs false
set_option linter.unusedVariables false
namespace UrcuVerif.Src.DeferR
open UrcuVerif UrcuVerif.Src UrcuVerif.Defer

/-! ## values -/

/-- a machine word of the model as an IR value -/
def wv (w : BitVec 64) : Val := .int (w.toNat : Int)

theorem wv_inj {a b : BitVec 64} : wv a = wv b ↔ a = b := by
  unfold wv
  constructor
  · intro h
    have : (a.toNat : Int) = b.toNat := by simpa using h
    exact BitVec.eq_of_toNat_eq (by omega)
  · rintro rfl; rfl

/-- name of array element `n` (what `Expr.index` produces) -/
def slotName (n : Int) : String := s!"[{n}]"

/-- `&base->q[i & DEFER_QUEUE_MASK]` -/
def slot (base : Loc) (i : Nat) : Loc := .field (.field base "q") (slotName ((i : Int) % 4096))

theorem evalBin_eq (a b : Val) : evalBin .eq a b = .ok (boolV (a = b)) := by cases a <;> cases b <;> rfl
theorem evalBin_ne (a b : Val) : evalBin .ne a b = .ok (boolV (a ≠ b)) := by cases a <;> cases b <;> rfl
theorem evalBin_lor (a b : Val) : evalBin .lor a b = .ok (boolV (a.truthy || b.truthy)) := by cases a <;> cases b <;> rfl
theorem evalBin_add (a b : Int) : evalBin .add (.int a) (.int b) = .ok (.int (a + b)) := rfl
theorem evalBin_sub (a b : Int) : evalBin .sub (.int a) (.int b) = .ok (.int (a - b)) := rfl
theorem evalBin_ge (a b : Int) : evalBin .ge (.int a) (.int b) = .ok (boolV (a ≥ b)) := rfl
theorem evalBin_lt (a b : Int) : evalBin .lt (.int a) (.int b) = .ok (boolV (a < b)) := rfl

theorem truthy_boolV (b : Bool) : (boolV b).truthy = b := by cases b <;> rfl

/-- `i & DEFER_QUEUE_MASK` on a counter -/
theorem band_mask (i : Nat) : evalBin .band (.int (i : Int)) (.int 4095) = .ok (.int ((i : Int) % 4096)) := by
  have h : i &&& 4095 = i % 4096 := Nat.and_two_pow_sub_one_eq_mod i 12
  have h2 : (4095 : Int).toNat = 4095 := by decide
  simp [evalBin, h2, h]

theorem band_mask1 (i : Nat) : evalBin .band (.int ((i : Int) + 1)) (.int 4095) = .ok (.int (((i : Int) + 1) % 4096)) := by
  simpa using band_mask (i + 1)
theorem band_mask2 (i : Nat) :
    evalBin .band (.int ((i : Int) + 1 + 1)) (.int 4095) = .ok (.int (((i : Int) + 1 + 1) % 4096)) := by
  simpa using band_mask (i + 1 + 1)

/-- `DQ_IS_FCT_BIT(x)` as an integer -/
def bitI (w : BitVec 64) : Int := ((w.toNat &&& 1 : Nat) : Int)

theorem band_bit (w : BitVec 64) : evalBin .band (wv w) (.int 1) = .ok (.int (bitI w)) := by
  have h2 : (1 : Int).toNat = 1 := by decide
  simp [evalBin, wv, bitI, h2]

theorem truthy_bitI (w : BitVec 64) : (Val.int (bitI w)).truthy = isFct w := by
  have h : (w &&& fctBit).toNat = w.toNat &&& 1 := by simp [fctBit_eq_one]
  unfold Val.truthy bitI isFct
  by_cases h0 : w.toNat &&& 1 = 0
  · have : w &&& fctBit = 0#64 := BitVec.eq_of_toNat_eq (by simp [h, h0])
    simp [h0, this]
  · have : w &&& fctBit ≠ 0#64 := by
      intro e; rw [e] at h; exact h0 (by simpa using h.symm)
    have h1 : ((w.toNat &&& 1 : Nat) : Int) ≠ 0 := by omega
    rw [show (w &&& fctBit != 0#64) = true from bne_iff_ne.mpr this]
    exact bne_iff_ne.mpr h1

/-- `DQ_SET_FCT_BIT(x)` -/
theorem bor_bit (w : BitVec 64) : evalBin .bor (wv w) (.int 1) = .ok (wv (setFct w)) := by
  have h2 : (1 : Int).toNat = 1 := by decide
  have h : (w ||| fctBit).toNat = w.toNat ||| 1 := by simp [fctBit_eq_one]
  simp [evalBin, wv, h2, setFct, h]

/-- `DQ_CLEAR_FCT_BIT(x)` (`NOT_DQ_FCT_BIT` = `~DQ_FCT_BIT` on 64 bits) -/
theorem band_clr (w : BitVec 64) : evalBin .band (wv w) (.int 18446744073709551614) = .ok (wv (clrFct w)) := by
  have h2 : (18446744073709551614 : Int).toNat = 18446744073709551614 := by decide
  have h3 : (~~~fctBit : BitVec 64).toNat = 18446744073709551614 := by decide
  have h : (w &&& ~~~fctBit).toNat = w.toNat &&& 18446744073709551614 := by rw [BitVec.toNat_and, h3]
  simp [evalBin, wv, h2, clrFct, h]

theorem wv_eq_mark (w : BitVec 64) : decide (wv w = .int 18446744073709551614) = (w == fctMark) := by
  have : (Val.int 18446744073709551614) = wv fctMark := by
    unfold wv; congr 1
  rw [this]
  by_cases h : w = fctMark <;> simp [h, wv_inj]

theorem wv_ne (a b : BitVec 64) : decide (wv a ≠ wv b) = (a != b) := by
  by_cases h : a = b <;> simp [h, wv_inj]

/-! ## outcomes -/

/-- "the run is ok and has these events / remaining oracle / control / private view" -/
def IsOut (r : Except String Out) (evs : List Event) (inp' : List Val) (ctl : Ctl) (priv' : Loc → Option Val) : Prop :=
  ∃ vars, r = .ok { events := evs, env := { vars := vars, priv := priv' }, inp := inp', ctl := ctl }

/-- every oracle value is an integer (results of `futex()`, `errno`, futex word, ring words, `tail`) -/
def IntInp (inp : List Val) : Prop := ∀ v ∈ inp, ∃ n : Int, v = .int n

/-! ## `wake_up_defer` -/

/-- `&URCU_TLS(defer_queue)` -/
def dq : Loc := .tls "defer_queue"
/-- `&defer_thread_futex` -/
def futexL : Loc := .glob "defer_thread_futex"
/-- the argument list of `futex_noasync(&defer_thread_futex, FUTEX_WAKE, 1, NULL, NULL, 0)` -/
def wakeArgs : List Val := [.ptr futexL, .int 1, .int 1, .int 0, .int 0, .int 0]

/-- events, remaining oracle and control of `wake_up_defer()` on the oracle `inp` (integers): the relaxed load of the
futex word; if it is `-1` the store of `0` and the `FUTEX_WAKE` system call (a negative result: `urcu_die(errno)`) -/
def wakeSpec : List Val → List Event × List Val × Ctl
  | [] => ([], [], .blocked)
  | v :: rest =>
    if v = .int (-1) then
      match rest with
      | [] => ([.ld futexL v 0, .st futexL (.int 0) 0], [], .blocked)
      | .int r :: rest2 =>
        if r < 0 then
          match rest2 with
          | [] => ([.ld futexL v 0, .st futexL (.int 0) 0, .ext "futex_noasync" wakeArgs (.int r)], [], .blocked)
          | e :: [] =>
            ([.ld futexL v 0, .st futexL (.int 0) 0, .ext "futex_noasync" wakeArgs (.int r), .ext "errno" [] e], [], .blocked)
          | e :: d :: rest4 =>
            ([.ld futexL v 0, .st futexL (.int 0) 0, .ext "futex_noasync" wakeArgs (.int r), .ext "errno" [] e,
              .ext "urcu_die" [e] d], rest4, .normal)
        else ([.ld futexL v 0, .st futexL (.int 0) 0, .ext "futex_noasync" wakeArgs (.int r)], rest2, .normal)
      | .ptr _ :: _ => ([], [], .fuel)   -- excluded by `IntInp`
    else ([.ld futexL v 0], rest, .normal)

theorem wakeSpec_ctl (inp : List Val) (hi : IntInp inp) : (wakeSpec inp).2.2 = .normal ∨ (wakeSpec inp).2.2 = .blocked := by
  unfold wakeSpec
  split
  · simp
  · split
    · split
      · simp
      · split
        · split <;> simp
        · simp
      · rename_i v rest _ l _
        obtain ⟨n, hn⟩ := hi (.ptr l) (by simp)
        cases hn
    · simp

/-- the private view after `wake_up_defer()`: own store of the futex word forwarded -/
def wakePriv (priv : Loc → Option Val) (inp : List Val) : Loc → Option Val :=
  if inp.head? = some (.int (-1)) then (fun m => if m = futexL then some (.int 0) else priv m) else priv

/-- closes the residual goals of the symbolic-execution `simp`s (structure eta, `Decidable` instances of `if`s) -/
macro "fin_exec" : tactic =>
  `(tactic| all_goals first | rfl | exact ⟨_, rfl⟩ | (funext m; split <;> rfl) | (funext m; congr))

theorem wake_exec {fuel : Nat} {env : Env} {inp : List Val} {r : Except String Out}
    (hE : exec fuel Gen.Src.«wake_up_defer» env inp = r) (hi : IntInp inp) :
    IsOut r (wakeSpec inp).1 (wakeSpec inp).2.1 (wakeSpec inp).2.2 (wakePriv env.priv inp) := by
  subst hE
  match inp, hi with
  | [], _ =>
    simp [IsOut, wakeSpec, wakePriv, Gen.Src.«wake_up_defer», block, exec, eval, evalArgs, execPrim, asLoc, bind, Except.bind]
    fin_exec
  | v :: rest, hi =>
    by_cases hv : v = .int (-1)
    · subst hv
      match rest, hi with
      | [], _ =>
        simp [IsOut, wakeSpec, wakePriv, futexL, Gen.Src.«wake_up_defer», block, exec, eval, evalArgs, execPrim, asLoc, bind,
          Except.bind, setDst, Env.setVar, Env.setPriv, evalBin_eq, truthy_boolV]
        fin_exec
      | w :: rest2, hi =>
        obtain ⟨n, rfl⟩ := hi w (by simp)
        by_cases hn : n < 0
        · match rest2 with
          | [] =>
            simp [IsOut, wakeSpec, wakePriv, futexL, wakeArgs, Gen.Src.«wake_up_defer», block, exec, eval, evalArgs, execPrim,
              asLoc, bind, Except.bind, setDst, Env.setVar, Env.setPriv, evalBin_eq, evalBin_lt, truthy_boolV, hn]
        <;> fin_exec
          | [e] =>
            simp [IsOut, wakeSpec, wakePriv, futexL, wakeArgs, Gen.Src.«wake_up_defer», block, exec, eval, evalArgs, execPrim,
              asLoc, bind, Except.bind, setDst, Env.setVar, Env.setPriv, evalBin_eq, evalBin_lt, truthy_boolV, hn]
        <;> fin_exec
          | e :: d :: rest4 =>
            simp [IsOut, wakeSpec, wakePriv, futexL, wakeArgs, Gen.Src.«wake_up_defer», block, exec, eval, evalArgs, execPrim,
              asLoc, bind, Except.bind, setDst, Env.setVar, Env.setPriv, evalBin_eq, evalBin_lt, truthy_boolV, hn]
        <;> fin_exec
        · simp [IsOut, wakeSpec, wakePriv, futexL, wakeArgs, Gen.Src.«wake_up_defer», block, exec, eval, evalArgs, execPrim,
            asLoc, bind, Except.bind, setDst, Env.setVar, Env.setPriv, evalBin_eq, evalBin_lt, truthy_boolV, hn]
        <;> fin_exec
    · simp [IsOut, wakeSpec, wakePriv, futexL, Gen.Src.«wake_up_defer», block, exec, eval, evalArgs, execPrim, asLoc, bind,
        Except.bind, setDst, Env.setVar, Env.setPriv, evalBin_eq, truthy_boolV, hv]
      fin_exec

/-! ## `_defer_rcu` (non-full path) -/

/-- the `uatomic_store(&q[i++ & MASK], w)` events for the words `ws` from counter value `i` on (`Ring.writeWords`) -/
def stores (base : Loc) : Nat → List (BitVec 64) → List Event
  | _, [] => []
  | i, w :: ws => .st (slot base i) (wv w) 0 :: stores base (i + 1) ws

/-- private view after the stores (own stores are forwarded) -/
def storesPriv (base : Loc) (priv : Loc → Option Val) : Nat → List (BitVec 64) → Loc → Option Val
  | _, [] => priv
  | i, w :: ws => storesPriv base (fun m => if m = slot base i then some (wv w) else priv m) (i + 1) ws

/-! `eval`, one constructor at a time (so that the element name of `Expr.index` stays folded as `slotName`) -/
theorem eval_lit (env : Env) (n : Int) : eval env (.lit n) = .ok (.int n) := rfl
theorem eval_cst (env : Env) (x : String) (n : Int) : eval env (.cst x n) = .ok (.int n) := rfl
theorem eval_null (env : Env) : eval env .null = .ok (.int 0) := rfl
theorem eval_var (env : Env) (x : String) : eval env (.var x) =
    (match env.vars x with | some v => .ok v | none => .error s!"unbound local {x}") := rfl
theorem eval_addrGlob (env : Env) (g : String) : eval env (.addrGlob g) = .ok (.ptr (.glob g)) := rfl
theorem eval_addrTls (env : Env) (g : String) : eval env (.addrTls g) = .ok (.ptr (.tls g)) := rfl
theorem eval_fieldAddr (env : Env) (e : Expr) (f : String) :
    eval env (.fieldAddr e f) = (do let l ← asLoc (← eval env e); .ok (.ptr (.field l f))) := rfl
theorem eval_pload (env : Env) (e : Expr) : eval env (.pload e) = (do
    let l ← asLoc (← eval env e)
    match env.priv l with
    | some v => .ok v
    | none => .error s!"plain load of a location without a private value: {repr l}") := rfl
theorem eval_un (env : Env) (op : UnOp) (e : Expr) : eval env (.un op e) = (do evalUn op (← eval env e)) := rfl
theorem eval_bin (env : Env) (op : BinOp) (a b : Expr) :
    eval env (.bin op a b) = (do evalBin op (← eval env a) (← eval env b)) := rfl
theorem eval_index (env : Env) (e i : Expr) : eval env (.index e i) = (do
    let l ← asLoc (← eval env e)
    match ← eval env i with
    | .int n => .ok (.ptr (.field l (slotName n)))
    | _ => .error "array index is a pointer") := rfl

/-- the private view after the `last_fct_in = fct` assignment of the function-entry branch -/
def lastPriv (priv : Loc → Option Val) (last f p : BitVec 64) : Loc → Option Val :=
  if (last != f || isFct p || p == fctMark) = true then
    (fun m => if m = .field dq "last_fct_in" then some (wv f) else priv m) else priv

/-- the symbolic-execution simp set -/
macro "exec_simp" "[" ts:Lean.Parser.Tactic.simpLemma,* "]" : tactic =>
  `(tactic| simp [block, exec, evalArgs, execPrim, asLoc, bind, Except.bind, setDst, Env.setVar, Env.setPriv,
      evalBin_sub, evalBin_add, evalBin_ge, evalBin_lt, evalBin_ne, evalBin_eq, evalBin_lor, truthy_boolV, band_bit, bor_bit,
      band_clr, band_mask, band_mask1, band_mask2, truthy_bitI, wv_eq_mark, wv_ne, wv_inj, eval_lit, eval_cst, eval_null, eval_var, eval_addrGlob,
      eval_addrTls, eval_fieldAddr, eval_pload, eval_bin, eval_index, eval_un, $ts,*])

/-- **`_defer_rcu(fct, p)`, queue below the threshold**: exact events, remaining oracle, control, private view -/
theorem defer_exec {fuel : Nat} {env : Env} {r : Except String Out} (f p last : BitVec 64) (head : Nat) (tl : Int)
    (rest : List Val)
    (hE : exec fuel Gen.Src.«_defer_rcu» env (.int tl :: rest) = r)
    (hf : env.vars "fct" = some (wv f)) (hp : env.vars "p" = some (wv p))
    (hh : env.priv (.field dq "head") = some (.int (head : Int)))
    (hl : env.priv (.field dq "last_fct_in") = some (wv last))
    (hnf : (head : Int) - tl < 4094) (hi : IntInp rest) :
    IsOut r
      (.ld (.field dq "tail") (.int tl) 0 :: (stores dq head (enc1 last f p).1 ++
        [.fence .wmb, .st (.field dq "head") (.int ((head : Int) + ((enc1 last f p).1.length : Nat))) 0, .fence .mb] ++
        (wakeSpec rest).1))
      (wakeSpec rest).2.1 (wakeSpec rest).2.2
      (wakePriv (fun m => if m = .field dq "head" then some (.int ((head : Int) + ((enc1 last f p).1.length : Nat)))
        else storesPriv dq (lastPriv env.priv last f p) head (enc1 last f p).1 m) rest) := by
  subst hE
  have hnf' : ¬ (4094 ≤ (head : Int) - tl) := by omega
  simp only [dq] at hh hl
  by_cases h1 : last = f ∧ isFct p = false ∧ p ≠ fctMark
  · obtain ⟨h1, h2, h3⟩ := h1
    have he : enc1 last f p = ([p], last) := by simp [enc1, h1, h2, h3]
    have hl' : lastPriv env.priv last f p = env.priv := by simp [lastPriv, h1, h2, h3]
    rw [he, hl']
    exec_simp [Gen.Src.«_defer_rcu», hf, hp, hh, hl, hnf', h1, h2, h3]
    generalize hW : exec fuel Gen.Src.«wake_up_defer» _ _ = rw
    obtain ⟨vars, rfl⟩ := wake_exec hW hi
    rcases wakeSpec_ctl rest hi with hc | hc <;>
      simp [IsOut, stores, storesPriv, dq, slot, hc] <;> congr
  · have hc1 : (last != f || isFct p || p == fctMark) = true := by
      by_cases a : last = f <;> by_cases b : isFct p = true <;> by_cases c : p = fctMark <;> simp_all
    have hc1' : (¬ last = f ∨ isFct p = true) ∨ p = fctMark := by simpa [or_assoc] using hc1
    have hl' : lastPriv env.priv last f p = fun m => if m = .field dq "last_fct_in" then some (wv f) else env.priv m := by
      simp [lastPriv, hc1]
    by_cases h2 : isFct f = true ∨ f = fctMark
    · have he : enc1 last f p = ([fctMark, f, p], f) := by
        have : (isFct f || f == fctMark) = true := by simpa using h2
        simp [enc1, hc1, this]
      have hm : (Val.int 18446744073709551614) = wv fctMark := by unfold wv; congr 1
      rw [he, hl']
      exec_simp [Gen.Src.«_defer_rcu», hf, hp, hh, hl, hnf', hc1', h2]
      generalize hW : exec fuel Gen.Src.«wake_up_defer» _ _ = rw
      obtain ⟨vars, rfl⟩ := wake_exec hW hi
      have e3 : (head : Int) + 1 + 1 + 1 = head + 3 := by omega
      rcases wakeSpec_ctl rest hi with hc | hc <;>
        simp [IsOut, stores, storesPriv, dq, slot, hc, hm, e3] <;> congr
    · have h2' : isFct f = false ∧ f ≠ fctMark := by
        by_cases a : isFct f = true <;> by_cases b : f = fctMark <;> simp_all
      have he : enc1 last f p = ([setFct f, p], f) := by
        have : (isFct f || f == fctMark) = false := by simp [h2'.1, h2'.2]
        simp [enc1, hc1, this]
      rw [he, hl']
      exec_simp [Gen.Src.«_defer_rcu», hf, hp, hh, hl, hnf', hc1', h2'.1, h2'.2]
      generalize hW : exec fuel Gen.Src.«wake_up_defer» _ _ = rw
      obtain ⟨vars, rfl⟩ := wake_exec hW hi
      have e2 : (head : Int) + 1 + 1 = head + 2 := by omega
      rcases wakeSpec_ctl rest hi with hc | hc <;>
        simp [IsOut, stores, storesPriv, dq, slot, hc, e2] <;> congr

end UrcuVerif.Src.DeferR
