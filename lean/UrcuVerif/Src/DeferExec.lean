import UrcuVerif.Src.IR
import UrcuVerif.Gen.Src
import UrcuVerif.Defer.Ring
/-!
# defer_rcu queue codec: what `exec` does on the GENERATED `_defer_rcu`, `rcu_defer_barrier_queue`, `wake_up_defer`

Value conventions (the IR has exact `Int`s, pointers of the queue are integers here):

* a 64-bit word `w : BitVec 64` of the model (function pointer, argument, ring word) is the IR value `wv w = .int w.toNat`;
* the free-running counters `head`, `tail`, `i` are the IR values `.int (n : Nat)` (no wrap-around in the IR: the 2^64 wrap
  is `Defer.ring_index_wrap`, Props/C13.lean);
* slot `i` of the ring of queue `base` is the location `slot base i = &base->q[i % 4096]` (the translator renders
  `q[e]` as `Expr.index (&base->q) e`: the load of the pointer `base->q` itself is not an event).
-/
set_option maxRecDepth 8192
set_option linter.unusedSimpArgs false
set_option linter.unusedVariables false
namespace UrcuVerif.Src.DeferR
open UrcuVerif UrcuVerif.Src UrcuVerif.Defer

/-! ## values -/

/-- a machine word of the model as an IR value -/
def wv (w : BitVec 64) : Val := .int (w.toNat : Int)

theorem wv_inj {a b : BitVec 64} : wv a = wv b ↔ a = b := by
  unfold wv
  constructor
  · intro h
    have : (a.toNat : Int) = b.toNat := by simpa using h
    exact BitVec.eq_of_toNat_eq (by omega)
  · rintro rfl; rfl

/-- name of array element `n` (what `Expr.index` produces) -/
def slotName (n : Int) : String := s!"[{n}]"

/-- `&base->q[i & DEFER_QUEUE_MASK]` -/
def slot (base : Loc) (i : Nat) : Loc := .field (.field base "q") (slotName ((i : Int) % 4096))

theorem evalBin_eq (a b : Val) : evalBin .eq a b = .ok (boolV (a = b)) := by cases a <;> cases b <;> rfl
theorem evalBin_ne (a b : Val) : evalBin .ne a b = .ok (boolV (a ≠ b)) := by cases a <;> cases b <;> rfl
theorem evalBin_lor (a b : Val) : evalBin .lor a b = .ok (boolV (a.truthy || b.truthy)) := by cases a <;> cases b <;> rfl
theorem evalBin_add (a b : Int) : evalBin .add (.int a) (.int b) = .ok (.int (a + b)) := rfl
theorem evalBin_sub (a b : Int) : evalBin .sub (.int a) (.int b) = .ok (.int (a - b)) := rfl
theorem evalBin_ge (a b : Int) : evalBin .ge (.int a) (.int b) = .ok (boolV (a ≥ b)) := rfl
theorem evalBin_lt (a b : Int) : evalBin .lt (.int a) (.int b) = .ok (boolV (a < b)) := rfl

theorem truthy_boolV (b : Bool) : (boolV b).truthy = b := by cases b <;> rfl

/-- `i & DEFER_QUEUE_MASK` on a counter -/
theorem band_mask (i : Nat) : evalBin .band (.int (i : Int)) (.int 4095) = .ok (.int ((i : Int) % 4096)) := by
  have h : i &&& 4095 = i % 4096 := Nat.and_two_pow_sub_one_eq_mod i 12
  have h2 : (4095 : Int).toNat = 4095 := by decide
  simp [evalBin, h2, h]

theorem band_mask1 (i : Nat) : evalBin .band (.int ((i : Int) + 1)) (.int 4095) = .ok (.int (((i : Int) + 1) % 4096)) := by
  simpa using band_mask (i + 1)
theorem band_mask2 (i : Nat) :
    evalBin .band (.int ((i : Int) + 1 + 1)) (.int 4095) = .ok (.int (((i : Int) + 1 + 1) % 4096)) := by
  simpa using band_mask (i + 1 + 1)

/-- `DQ_IS_FCT_BIT(x)` as an integer -/
def bitI (w : BitVec 64) : Int := ((w.toNat &&& 1 : Nat) : Int)

theorem band_bit (w : BitVec 64) : evalBin .band (wv w) (.int 1) = .ok (.int (bitI w)) := by
  have h2 : (1 : Int).toNat = 1 := by decide
  simp [evalBin, wv, bitI, h2]

theorem truthy_bitI (w : BitVec 64) : (Val.int (bitI w)).truthy = isFct w := by
  have h : (w &&& fctBit).toNat = w.toNat &&& 1 := by simp [fctBit_eq_one]
  unfold Val.truthy bitI isFct
  by_cases h0 : w.toNat &&& 1 = 0
  · have : w &&& fctBit = 0#64 := BitVec.eq_of_toNat_eq (by simp [h, h0])
    simp [h0, this]
  · have : w &&& fctBit ≠ 0#64 := by
      intro e; rw [e] at h; exact h0 (by simpa using h.symm)
    have h1 : ((w.toNat &&& 1 : Nat) : Int) ≠ 0 := by omega
    rw [show (w &&& fctBit != 0#64) = true from bne_iff_ne.mpr this]
    exact bne_iff_ne.mpr h1

/-- `DQ_SET_FCT_BIT(x)` -/
theorem bor_bit (w : BitVec 64) : evalBin .bor (wv w) (.int 1) = .ok (wv (setFct w)) := by
  have h2 : (1 : Int).toNat = 1 := by decide
  have h : (w ||| fctBit).toNat = w.toNat ||| 1 := by simp [fctBit_eq_one]
  simp [evalBin, wv, h2, setFct, h]

/-- `DQ_CLEAR_FCT_BIT(x)` (`NOT_DQ_FCT_BIT` = `~DQ_FCT_BIT` on 64 bits) -/
theorem band_clr (w : BitVec 64) : evalBin .band (wv w) (.int 18446744073709551614) = .ok (wv (clrFct w)) := by
  have h2 : (18446744073709551614 : Int).toNat = 18446744073709551614 := by decide
  have h3 : (~~~fctBit : BitVec 64).toNat = 18446744073709551614 := by decide
  have h : (w &&& ~~~fctBit).toNat = w.toNat &&& 18446744073709551614 := by rw [BitVec.toNat_and, h3]
  simp [evalBin, wv, h2, clrFct, h]

theorem wv_eq_mark (w : BitVec 64) : decide (wv w = .int 18446744073709551614) = (w == fctMark) := by
  have : (Val.int 18446744073709551614) = wv fctMark := by
    unfold wv; congr 1
  rw [this]
  by_cases h : w = fctMark <;> simp [h, wv_inj]

theorem wv_ne (a b : BitVec 64) : decide (wv a ≠ wv b) = (a != b) := by
  by_cases h : a = b <;> simp [h, wv_inj]

/-! ## outcomes -/

/-- "the run is ok and has these events / remaining oracle / control / private view" -/
def IsOut (r : Except String Out) (evs : List Event) (inp' : List Val) (ctl : Ctl) (priv' : Loc → Option Val) : Prop :=
  ∃ vars, r = .ok { events := evs, env := { vars := vars, priv := priv' }, inp := inp', ctl := ctl }

/-- every oracle value is an integer (results of `futex()`, `errno`, futex word, ring words, `tail`) -/
def IntInp (inp : List Val) : Prop := ∀ v ∈ inp, ∃ n : Int, v = .int n

/-! ## `wake_up_defer` -/

/-- `&URCU_TLS(defer_queue)` -/
def dq : Loc := .tls "defer_queue"
/-- `&defer_thread_futex` -/
def futexL : Loc := .glob "defer_thread_futex"
/-- the argument list of `futex_noasync(&defer_thread_futex, FUTEX_WAKE, 1, NULL, NULL, 0)` -/
def wakeArgs : List Val := [.ptr futexL, .int 1, .int 1, .int 0, .int 0, .int 0]

/-- events, remaining oracle and control of `wake_up_defer()` on the oracle `inp` (integers): the relaxed load of the
futex word; if it is `-1` the store of `0` and the `FUTEX_WAKE` system call (a negative result: `urcu_die(errno)`) -/
def wakeSpec : List Val → List Event × List Val × Ctl
  | [] => ([], [], .blocked)
  | v :: rest =>
    if v = .int (-1) then
      match rest with
      | [] => ([.ld futexL v 0, .st futexL (.int 0) 0], [], .blocked)
      | .int r :: rest2 =>
        if r < 0 then
          match rest2 with
          | [] => ([.ld futexL v 0, .st futexL (.int 0) 0, .ext "futex_noasync" wakeArgs (.int r)], [], .blocked)
          | e :: [] =>
            ([.ld futexL v 0, .st futexL (.int 0) 0, .ext "futex_noasync" wakeArgs (.int r), .ext "errno" [] e], [], .blocked)
          | e :: d :: rest4 =>
            ([.ld futexL v 0, .st futexL (.int 0) 0, .ext "futex_noasync" wakeArgs (.int r), .ext "errno" [] e,
              .ext "urcu_die" [e] d], rest4, .normal)
        else ([.ld futexL v 0, .st futexL (.int 0) 0, .ext "futex_noasync" wakeArgs (.int r)], rest2, .normal)
      | .ptr _ :: _ => ([.ld futexL v 0, .st futexL (.int 0) 0], [], .fuel)   -- excluded by `IntInp` (`futex()` returns an int)
    else ([.ld futexL v 0], rest, .normal)

theorem wakeSpec_ctl (inp : List Val) (hi : IntInp inp) : (wakeSpec inp).2.2 = .normal ∨ (wakeSpec inp).2.2 = .blocked := by
  unfold wakeSpec
  split
  · simp
  · split
    · split
      · simp
      · split
        · split <;> simp
        · simp
      · rename_i v rest _ l _
        obtain ⟨n, hn⟩ := hi (.ptr l) (by simp)
        cases hn
    · simp

/-- the private view after `wake_up_defer()`: own store of the futex word forwarded -/
def wakePriv (priv : Loc → Option Val) (inp : List Val) : Loc → Option Val :=
  if inp.head? = some (.int (-1)) then (fun m => if m = futexL then some (.int 0) else priv m) else priv

/-- closes the residual goals of the symbolic-execution `simp`s (structure eta, `Decidable` instances of `if`s) -/
macro "fin_exec" : tactic =>
  `(tactic| all_goals first | rfl | exact ⟨_, rfl⟩ | (funext m; split <;> rfl) | (funext m; congr))

theorem wake_exec {fuel : Nat} {env : Env} {inp : List Val} {r : Except String Out}
    (hE : exec fuel Gen.Src.«wake_up_defer» env inp = r) (hi : IntInp inp) :
    IsOut r (wakeSpec inp).1 (wakeSpec inp).2.1 (wakeSpec inp).2.2 (wakePriv env.priv inp) := by
  subst hE
  match inp, hi with
  | [], _ =>
    simp [IsOut, wakeSpec, wakePriv, Gen.Src.«wake_up_defer», block, exec, eval, evalArgs, execPrim, asLoc, bind, Except.bind]
    fin_exec
  | v :: rest, hi =>
    by_cases hv : v = .int (-1)
    · subst hv
      match rest, hi with
      | [], _ =>
        simp [IsOut, wakeSpec, wakePriv, futexL, Gen.Src.«wake_up_defer», block, exec, eval, evalArgs, execPrim, asLoc, bind,
          Except.bind, setDst, Env.setVar, Env.setPriv, evalBin_eq, truthy_boolV]
        fin_exec
      | w :: rest2, hi =>
        obtain ⟨n, rfl⟩ := hi w (by simp)
        by_cases hn : n < 0
        · match rest2 with
          | [] =>
            simp [IsOut, wakeSpec, wakePriv, futexL, wakeArgs, Gen.Src.«wake_up_defer», block, exec, eval, evalArgs, execPrim,
              asLoc, bind, Except.bind, setDst, Env.setVar, Env.setPriv, evalBin_eq, evalBin_lt, truthy_boolV, hn]
        <;> fin_exec
          | [e] =>
            simp [IsOut, wakeSpec, wakePriv, futexL, wakeArgs, Gen.Src.«wake_up_defer», block, exec, eval, evalArgs, execPrim,
              asLoc, bind, Except.bind, setDst, Env.setVar, Env.setPriv, evalBin_eq, evalBin_lt, truthy_boolV, hn]
        <;> fin_exec
          | e :: d :: rest4 =>
            simp [IsOut, wakeSpec, wakePriv, futexL, wakeArgs, Gen.Src.«wake_up_defer», block, exec, eval, evalArgs, execPrim,
              asLoc, bind, Except.bind, setDst, Env.setVar, Env.setPriv, evalBin_eq, evalBin_lt, truthy_boolV, hn]
        <;> fin_exec
        · simp [IsOut, wakeSpec, wakePriv, futexL, wakeArgs, Gen.Src.«wake_up_defer», block, exec, eval, evalArgs, execPrim,
            asLoc, bind, Except.bind, setDst, Env.setVar, Env.setPriv, evalBin_eq, evalBin_lt, truthy_boolV, hn]
        <;> fin_exec
    · simp [IsOut, wakeSpec, wakePriv, futexL, Gen.Src.«wake_up_defer», block, exec, eval, evalArgs, execPrim, asLoc, bind,
        Except.bind, setDst, Env.setVar, Env.setPriv, evalBin_eq, truthy_boolV, hv]
      fin_exec

/-! ## `_defer_rcu` (non-full path) -/

/-- the `uatomic_store(&q[i++ & MASK], w)` events for the words `ws` from counter value `i` on (`Ring.writeWords`) -/
def stores (base : Loc) : Nat → List (BitVec 64) → List Event
  | _, [] => []
  | i, w :: ws => .st (slot base i) (wv w) 0 :: stores base (i + 1) ws

/-- private view after the stores (own stores are forwarded) -/
def storesPriv (base : Loc) (priv : Loc → Option Val) : Nat → List (BitVec 64) → Loc → Option Val
  | _, [] => priv
  | i, w :: ws => storesPriv base (fun m => if m = slot base i then some (wv w) else priv m) (i + 1) ws

/-! `eval`, one constructor at a time (so that the element name of `Expr.index` stays folded as `slotName`) -/
theorem eval_lit (env : Env) (n : Int) : eval env (.lit n) = .ok (.int n) := rfl
theorem eval_cst (env : Env) (x : String) (n : Int) : eval env (.cst x n) = .ok (.int n) := rfl
theorem eval_null (env : Env) : eval env .null = .ok (.int 0) := rfl
theorem eval_var (env : Env) (x : String) : eval env (.var x) =
    (match env.vars x with | some v => .ok v | none => .error s!"unbound local {x}") := rfl
theorem eval_addrGlob (env : Env) (g : String) : eval env (.addrGlob g) = .ok (.ptr (.glob g)) := rfl
theorem eval_addrTls (env : Env) (g : String) : eval env (.addrTls g) = .ok (.ptr (.tls g)) := rfl
theorem eval_fieldAddr (env : Env) (e : Expr) (f : String) :
    eval env (.fieldAddr e f) = (do let l ← asLoc (← eval env e); .ok (.ptr (.field l f))) := rfl
theorem eval_pload (env : Env) (e : Expr) : eval env (.pload e) = (do
    let l ← asLoc (← eval env e)
    match env.priv l with
    | some v => .ok v
    | none => .error s!"plain load of a location without a private value: {repr l}") := rfl
theorem eval_un (env : Env) (op : UnOp) (e : Expr) : eval env (.un op e) = (do evalUn op (← eval env e)) := rfl
theorem eval_bin (env : Env) (op : BinOp) (a b : Expr) :
    eval env (.bin op a b) = (do evalBin op (← eval env a) (← eval env b)) := rfl
theorem eval_index (env : Env) (e i : Expr) : eval env (.index e i) = (do
    let l ← asLoc (← eval env e)
    match ← eval env i with
    | .int n => .ok (.ptr (.field l (slotName n)))
    | _ => .error "array index is a pointer") := rfl

/-- the private view after the `last_fct_in = fct` assignment of the function-entry branch -/
def lastPriv (priv : Loc → Option Val) (last f p : BitVec 64) : Loc → Option Val :=
  if (last != f || isFct p || p == fctMark) = true then
    (fun m => if m = .field dq "last_fct_in" then some (wv f) else priv m) else priv

/-- the symbolic-execution simp set -/
macro "exec_simp" "[" ts:Lean.Parser.Tactic.simpLemma,* "]" : tactic =>
  `(tactic| simp [block, exec, evalArgs, execPrim, asLoc, bind, Except.bind, setDst, Env.setVar, Env.setPriv,
      evalBin_sub, evalBin_add, evalBin_ge, evalBin_lt, evalBin_ne, evalBin_eq, evalBin_lor, truthy_boolV, band_bit, bor_bit,
      band_clr, band_mask, band_mask1, band_mask2, truthy_bitI, wv_eq_mark, wv_ne, wv_inj, eval_lit, eval_cst, eval_null, eval_var, eval_addrGlob,
      eval_addrTls, eval_fieldAddr, eval_pload, eval_bin, eval_index, eval_un, $ts,*])

/-- **`_defer_rcu(fct, p)`, queue below the threshold**: exact events, remaining oracle, control, private view -/
theorem defer_exec {fuel : Nat} {env : Env} {r : Except String Out} (f p last : BitVec 64) (head : Nat) (tl : Int)
    (rest : List Val)
    (hE : exec fuel Gen.Src.«_defer_rcu» env (.int tl :: rest) = r)
    (hf : env.vars "fct" = some (wv f)) (hp : env.vars "p" = some (wv p))
    (hh : env.priv (.field dq "head") = some (.int (head : Int)))
    (hl : env.priv (.field dq "last_fct_in") = some (wv last))
    (hnf : (head : Int) - tl < 4094) (hi : IntInp rest) :
    IsOut r
      (.ld (.field dq "tail") (.int tl) 0 :: (stores dq head (enc1 last f p).1 ++
        [.fence .wmb, .st (.field dq "head") (.int ((head : Int) + ((enc1 last f p).1.length : Nat))) 0, .fence .mb] ++
        (wakeSpec rest).1))
      (wakeSpec rest).2.1 (wakeSpec rest).2.2
      (wakePriv (fun m => if m = .field dq "head" then some (.int ((head : Int) + ((enc1 last f p).1.length : Nat)))
        else storesPriv dq (lastPriv env.priv last f p) head (enc1 last f p).1 m) rest) := by
  subst hE
  have hnf' : ¬ (4094 ≤ (head : Int) - tl) := by omega
  simp only [dq] at hh hl
  by_cases h1 : last = f ∧ isFct p = false ∧ p ≠ fctMark
  · obtain ⟨h1, h2, h3⟩ := h1
    have he : enc1 last f p = ([p], last) := by simp [enc1, h1, h2, h3]
    have hl' : lastPriv env.priv last f p = env.priv := by simp [lastPriv, h1, h2, h3]
    rw [he, hl']
    exec_simp [Gen.Src.«_defer_rcu», hf, hp, hh, hl, hnf', h1, h2, h3]
    generalize hW : exec fuel Gen.Src.«wake_up_defer» _ _ = rw
    obtain ⟨vars, rfl⟩ := wake_exec hW hi
    rcases wakeSpec_ctl rest hi with hc | hc <;>
      simp [IsOut, stores, storesPriv, dq, slot, hc] <;> congr
  · have hc1 : (last != f || isFct p || p == fctMark) = true := by
      by_cases a : last = f <;> by_cases b : isFct p = true <;> by_cases c : p = fctMark <;> simp_all
    have hc1' : (¬ last = f ∨ isFct p = true) ∨ p = fctMark := by simpa [or_assoc] using hc1
    have hl' : lastPriv env.priv last f p = fun m => if m = .field dq "last_fct_in" then some (wv f) else env.priv m := by
      simp [lastPriv, hc1]
    by_cases h2 : isFct f = true ∨ f = fctMark
    · have he : enc1 last f p = ([fctMark, f, p], f) := by
        have : (isFct f || f == fctMark) = true := by simpa using h2
        simp [enc1, hc1, this]
      have hm : (Val.int 18446744073709551614) = wv fctMark := by unfold wv; congr 1
      rw [he, hl']
      exec_simp [Gen.Src.«_defer_rcu», hf, hp, hh, hl, hnf', hc1', h2]
      generalize hW : exec fuel Gen.Src.«wake_up_defer» _ _ = rw
      obtain ⟨vars, rfl⟩ := wake_exec hW hi
      have e3 : (head : Int) + 1 + 1 + 1 = head + 3 := by omega
      rcases wakeSpec_ctl rest hi with hc | hc <;>
        simp [IsOut, stores, storesPriv, dq, slot, hc, hm, e3] <;> congr
    · have h2' : isFct f = false ∧ f ≠ fctMark := by
        by_cases a : isFct f = true <;> by_cases b : f = fctMark <;> simp_all
      have he : enc1 last f p = ([setFct f, p], f) := by
        have : (isFct f || f == fctMark) = false := by simp [h2'.1, h2'.2]
        simp [enc1, hc1, this]
      rw [he, hl']
      exec_simp [Gen.Src.«_defer_rcu», hf, hp, hh, hl, hnf', hc1', h2'.1, h2'.2]
      generalize hW : exec fuel Gen.Src.«wake_up_defer» _ _ = rw
      obtain ⟨vars, rfl⟩ := wake_exec hW hi
      have e2 : (head : Int) + 1 + 1 = head + 2 := by omega
      rcases wakeSpec_ctl rest hi with hc | hc <;>
        simp [IsOut, stores, storesPriv, dq, slot, hc, e2] <;> congr

/-- `_defer_rcu` preempted at its first shared access (the load of `tail`): no event -/
theorem defer_exec_nil {fuel : Nat} {env : Env} (head : Val) (hh : env.priv (.field dq "head") = some head) :
    ∃ out, exec fuel Gen.Src.«_defer_rcu» env [] = .ok out ∧ out.events = [] ∧ out.ctl = .blocked := by
  simp only [dq] at hh
  exec_simp [Gen.Src.«_defer_rcu», hh]

/-! ## `rcu_defer_barrier_queue` -/

/-- an oracle value as a machine word -/
def vw : Val → BitVec 64
  | .int n => BitVec.ofNat 64 n.toNat
  | .ptr _ => 0#64

@[simp] theorem vw_wv (w : BitVec 64) : vw (wv w) = w := by
  simp [vw, wv]

/-- every oracle value is a machine word (ring words, `tail`; the value "returned" by a callback is not used) -/
def WordInp (inp : List Val) : Prop := ∀ v ∈ inp, ∃ w : BitVec 64, v = wv w

/-- `uatomic_load(&queue->q[i & MASK])` returning `v` -/
def ldq (base : Loc) (i : Nat) (v : Val) : Event := .ld (slot base i) v 0
/-- `fct(p)`: the call through the function pointer (`r` = oracle value standing for its return) -/
def callEv (f : BitVec 64) (p r : Val) : Event := .ext "(*)" [wv f, p] r

/-- outcome of one iteration of the loop of `rcu_defer_barrier_queue` started with `i ≠ head` -/
structure Iter where
  events : List Event
  i : Nat
  lo : BitVec 64
  inp : List Val
  done : Bool     -- `false`: the oracle ran out (run blocked inside the iteration)

/-- one iteration on the oracle `inp`: `rmb`, 1–3 slot loads decoded as `Codec.dec1` does, the call -/
def iterSpec (base : Loc) (i : Nat) (lo : BitVec 64) : List Val → Iter
  | [] => ⟨[.fence .rmb], i, lo, [], false⟩
  | v0 :: r0 =>
    if isFct (vw v0) then
      match r0 with
      | [] => ⟨[.fence .rmb, ldq base i v0], i + 1, clrFct (vw v0), [], false⟩
      | v1 :: [] => ⟨[.fence .rmb, ldq base i v0, ldq base (i + 1) v1], i + 2, clrFct (vw v0), [], false⟩
      | v1 :: rv :: r2 =>
        ⟨[.fence .rmb, ldq base i v0, ldq base (i + 1) v1, callEv (clrFct (vw v0)) v1 rv], i + 2, clrFct (vw v0), r2, true⟩
    else if vw v0 == fctMark then
      match r0 with
      | [] => ⟨[.fence .rmb, ldq base i v0], i + 1, lo, [], false⟩
      | v1 :: [] => ⟨[.fence .rmb, ldq base i v0, ldq base (i + 1) v1], i + 2, vw v1, [], false⟩
      | v1 :: v2 :: [] =>
        ⟨[.fence .rmb, ldq base i v0, ldq base (i + 1) v1, ldq base (i + 2) v2], i + 3, vw v1, [], false⟩
      | v1 :: v2 :: rv :: r3 =>
        ⟨[.fence .rmb, ldq base i v0, ldq base (i + 1) v1, ldq base (i + 2) v2, callEv (vw v1) v2 rv], i + 3, vw v1, r3, true⟩
    else
      match r0 with
      | [] => ⟨[.fence .rmb, ldq base i v0], i + 1, lo, [], false⟩
      | rv :: r1 => ⟨[.fence .rmb, ldq base i v0, callEv lo v0 rv], i + 1, lo, r1, true⟩

/-- the loop body of the generated function -/
def cbody : Stmt := match Gen.Src.«rcu_defer_barrier_queue» with
  | .seq _ (.seq (.loop b) _) => b
  | _ => .skip

/-- the generated function is `i = queue->tail; for (;;) cbody; cmm_smp_mb(); uatomic_store(&queue->tail, i)` -/
theorem cons_shape : Gen.Src.«rcu_defer_barrier_queue» =
    .seq (.assign "i" (.pload (.fieldAddr (.var "queue") "tail"))) (.seq (.loop cbody)
      (.seq (.prim none .mb []) (.prim none .ustore [.fieldAddr (.var "queue") "tail", .var "i", .cst "CMM_RELAXED" 0]))) := rfl

/-- what one run of the loop body guarantees -/
def IterPost (base : Loc) (env : Env) (it : Iter) (o : Out) : Prop :=
  o.events = it.events ∧ o.inp = it.inp ∧
  (it.done = false → o.ctl = .blocked) ∧
  (it.done = true → o.ctl = .normal ∧ o.env.vars "i" = some (.int (it.i : Int)) ∧ o.env.vars "head" = env.vars "head" ∧
    o.env.vars "queue" = env.vars "queue" ∧ o.env.priv (.field base "last_fct_out") = some (wv it.lo) ∧
    ∀ l, l ≠ .field base "last_fct_out" → o.env.priv l = env.priv l)

theorem cbody_iter (fuel : Nat) (env : Env) (base : Loc) (i H : Nat) (lo : BitVec 64) (inp : List Val)
    (hq : env.vars "queue" = some (.ptr base)) (hi : env.vars "i" = some (.int (i : Int)))
    (hH : env.vars "head" = some (.int (H : Int))) (hlo : env.priv (.field base "last_fct_out") = some (wv lo))
    (hne : i ≠ H) (hw : WordInp inp) :
    ∃ o, exec fuel cbody env inp = .ok o ∧ IterPost base env (iterSpec base i lo inp) o := by
  have hne' : ¬ ((i : Int) = H) := by omega
  unfold cbody
  simp only [Gen.Src.«rcu_defer_barrier_queue», block]
  match inp, hw with
  | [], _ =>
    exec_simp [IterPost, iterSpec, hq, hi, hH, hlo, hne']
  | v0 :: r0, hw =>
    obtain ⟨w0, rfl⟩ := hw v0 (by simp)
    by_cases hf : isFct w0 = true
    · match r0, hw with
      | [], _ => exec_simp [IterPost, iterSpec, ldq, callEv, slot, hq, hi, hH, hlo, hne', hf]
      | [v1], _ => exec_simp [IterPost, iterSpec, ldq, callEv, slot, hq, hi, hH, hlo, hne', hf]
      | v1 :: rv :: r2, hw =>
        obtain ⟨w1, rfl⟩ := hw v1 (by simp)
        exec_simp [IterPost, iterSpec, ldq, callEv, slot, hq, hi, hH, hlo, hne', hf]
        exact ⟨by omega, fun l h1 h2 => absurd h2 h1⟩
    · have hf' : isFct w0 = false := by simpa using hf
      by_cases hm : w0 = fctMark
      · match r0, hw with
        | [], _ => exec_simp [IterPost, iterSpec, ldq, callEv, slot, hq, hi, hH, hlo, hne', hf', hm, isFct_fctMark]
        | [v1], _ => exec_simp [IterPost, iterSpec, ldq, callEv, slot, hq, hi, hH, hlo, hne', hf', hm, isFct_fctMark]
        | [v1, v2], _ =>
          exec_simp [IterPost, iterSpec, ldq, callEv, slot, hq, hi, hH, hlo, hne', hf', hm, isFct_fctMark]
          congr 2
        | v1 :: v2 :: rv :: r3, hw =>
          obtain ⟨w1, rfl⟩ := hw v1 (by simp)
          obtain ⟨w2, rfl⟩ := hw v2 (by simp)
          exec_simp [IterPost, iterSpec, ldq, callEv, slot, hq, hi, hH, hlo, hne', hf', hm, isFct_fctMark]
          exact ⟨by congr 2, by omega, fun l h1 h2 => absurd h2 h1⟩
      · match r0, hw with
        | [], _ => exec_simp [IterPost, iterSpec, ldq, callEv, slot, hq, hi, hH, hlo, hne', hf', hm, isFct_fctMark]
        | rv :: r1, hw =>
          exec_simp [IterPost, iterSpec, ldq, callEv, slot, hq, hi, hH, hlo, hne', hf', hm, isFct_fctMark]

theorem cbody_brk (fuel : Nat) (env : Env) (H : Nat) (inp : List Val)
    (hi : env.vars "i" = some (.int (H : Int))) (hH : env.vars "head" = some (.int (H : Int))) :
    exec fuel cbody env inp = .ok ⟨[], env, inp, .brk⟩ := by
  unfold cbody
  simp only [Gen.Src.«rcu_defer_barrier_queue», block]
  exec_simp [hi, hH]

theorem iterSpec_inp_sub (base : Loc) (i : Nat) (lo : BitVec 64) (inp : List Val) :
    ∀ v ∈ (iterSpec base i lo inp).inp, v ∈ inp := by
  intro v
  unfold iterSpec
  split
  · simp
  · split
    · split <;> simp <;> intro h <;> simp [h]
    · split
      · split <;> simp <;> intro h <;> simp [h]
      · split <;> simp <;> intro h <;> simp [h]

/-- outcome of the loop of `rcu_defer_barrier_queue` -/
structure Cons where
  events : List Event
  i : Nat
  lo : BitVec 64
  inp : List Val
  ctl : Ctl

/-- the loop on the oracle `inp` with budget `n`, from counter `i` and `last_fct_out = lo` (`Ring.runLoop`, driven by the
oracle instead of the ring) -/
def loopSpec (base : Loc) (H : Nat) : Nat → Nat → BitVec 64 → List Val → List Event → Cons
  | 0, i, lo, inp, acc => ⟨acc, i, lo, inp, .fuel⟩
  | n + 1, i, lo, inp, acc =>
    if i = H then ⟨acc, i, lo, inp, .normal⟩ else
    if (iterSpec base i lo inp).done then
      loopSpec base H n (iterSpec base i lo inp).i (iterSpec base i lo inp).lo (iterSpec base i lo inp).inp
        (acc ++ (iterSpec base i lo inp).events)
    else ⟨acc ++ (iterSpec base i lo inp).events, (iterSpec base i lo inp).i, (iterSpec base i lo inp).lo,
      (iterSpec base i lo inp).inp, .blocked⟩

theorem loopSpec_normal_i (base : Loc) (H : Nat) : ∀ (n i : Nat) (lo : BitVec 64) (inp : List Val) (acc : List Event),
    (loopSpec base H n i lo inp acc).ctl = .normal → (loopSpec base H n i lo inp acc).i = H := by
  intro n
  induction n with
  | zero => intro i lo inp acc h; simp [loopSpec] at h
  | succ n ih =>
    intro i lo inp acc h
    unfold loopSpec at h ⊢
    split
    · assumption
    · rename_i hne
      simp only [hne, if_false] at h
      split
      · rename_i hd
        simp only [hd, if_true] at h
        exact ih _ _ _ _ h
      · rename_i hd
        simp [hd] at h

/-- what the loop guarantees -/
def LoopPost (base : Loc) (env : Env) (S : Cons) (o : Out) : Prop :=
  o.events = S.events ∧ o.inp = S.inp ∧ o.ctl = S.ctl ∧
  (S.ctl = .normal → o.env.vars "i" = some (.int (S.i : Int)) ∧ o.env.vars "queue" = env.vars "queue" ∧
    o.env.priv (.field base "last_fct_out") = some (wv S.lo) ∧
    ∀ l, l ≠ .field base "last_fct_out" → o.env.priv l = env.priv l)

theorem loop_exec (fuel : Nat) (base : Loc) (H : Nat) : ∀ (n : Nat) (env : Env) (i : Nat) (lo : BitVec 64) (inp : List Val)
    (acc : List Event),
    env.vars "queue" = some (.ptr base) → env.vars "i" = some (.int (i : Int)) →
    env.vars "head" = some (.int (H : Int)) → env.priv (.field base "last_fct_out") = some (wv lo) → WordInp inp →
    ∃ o, iterate (fun e i => exec fuel cbody e i) n env inp acc = .ok o ∧
      LoopPost base env (loopSpec base H n i lo inp acc) o := by
  intro n
  induction n with
  | zero =>
    intro env i lo inp acc hq hi hH hlo hw
    simp [iterate, loopSpec, LoopPost]
  | succ n ih =>
    intro env i lo inp acc hq hi hH hlo hw
    by_cases hiH : i = H
    · subst hiH
      simp [iterate, loopSpec, LoopPost, cbody_brk fuel env i inp hi hH, bind, Except.bind, hi, hlo]
    · obtain ⟨o, ho, he, hinp, hnd, hd⟩ := cbody_iter fuel env base i H lo inp hq hi hH hlo hiH hw
      simp only [iterate, bind, Except.bind, ho, loopSpec, hiH, if_false]
      by_cases hdone : (iterSpec base i lo inp).done = true
      · obtain ⟨hc, h1, h2, h3, h4, h5⟩ := hd hdone
        simp only [hc, hdone, if_true]
        have hw' : WordInp o.inp := by
          intro v hv; rw [hinp] at hv; exact hw v (iterSpec_inp_sub base i lo inp v hv)
        obtain ⟨o2, ho2, e1, e2, e3, e4⟩ := ih o.env (iterSpec base i lo inp).i (iterSpec base i lo inp).lo o.inp
          (acc ++ o.events) (by rw [h3, hq]) h1 (by rw [h2, hH]) h4 hw'
        rw [← hinp, ← he]
        refine ⟨o2, ho2, e1, e2, e3, ?_⟩
        intro hn
        obtain ⟨a1, a2, a3, a4⟩ := e4 hn
        refine ⟨a1, by rw [a2, h3], a3, ?_⟩
        intro l hl; rw [a4 l hl, h5 l hl]
      · have hdone' : (iterSpec base i lo inp).done = false := by simpa using hdone
        have hc := hnd hdone'
        simp [hc, hdone', LoopPost, he, hinp]

/-- **`rcu_defer_barrier_queue(queue, head)`**: for every budget and every oracle of words, the run is the loop
`loopSpec` from `i = queue->tail`, followed (when the loop ended by `i == head`) by `cmm_smp_mb()` and the store of `tail` -/
theorem cons_exec (fuel : Nat) (env : Env) (base : Loc) (T H : Nat) (lo : BitVec 64) (inp : List Val)
    (hq : env.vars "queue" = some (.ptr base)) (hH : env.vars "head" = some (.int (H : Int)))
    (hT : env.priv (.field base "tail") = some (.int (T : Int)))
    (hlo : env.priv (.field base "last_fct_out") = some (wv lo)) (hw : WordInp inp) :
    ∃ o, exec fuel Gen.Src.«rcu_defer_barrier_queue» env inp = .ok o ∧
      o.inp = (loopSpec base H fuel T lo inp []).inp ∧
      ((loopSpec base H fuel T lo inp []).ctl = .normal →
        o.events = (loopSpec base H fuel T lo inp []).events ++ [.fence .mb, .st (.field base "tail") (.int (H : Int)) 0] ∧
        o.ctl = .normal ∧ (loopSpec base H fuel T lo inp []).i = H ∧
        o.env.priv (.field base "tail") = some (.int (H : Int)) ∧
        o.env.priv (.field base "last_fct_out") = some (wv (loopSpec base H fuel T lo inp []).lo) ∧
        ∀ l, l ≠ .field base "last_fct_out" → l ≠ .field base "tail" → o.env.priv l = env.priv l) ∧
      ((loopSpec base H fuel T lo inp []).ctl ≠ .normal →
        o.events = (loopSpec base H fuel T lo inp []).events ∧ o.ctl = (loopSpec base H fuel T lo inp []).ctl) := by
  rw [cons_shape]
  obtain ⟨o, ho, e1, e2, e3, e4⟩ := loop_exec fuel base H fuel
    { vars := fun y => if y = "i" then some (.int (T : Int)) else env.vars y, priv := env.priv } T lo inp []
    (by simp [hq]) (by simp) (by simp [hH]) hlo hw
  by_cases hn : (loopSpec base H fuel T lo inp []).ctl = .normal
  · obtain ⟨a1, a2, a3, a4⟩ := e4 hn
    rw [hn] at e3
    have hiH := loopSpec_normal_i base H fuel T lo inp [] hn
    exec_simp [hq, hT, ho, e3, a1, a2, hn]
    refine ⟨e2, by rw [e1, hiH], hiH, by rw [hiH], a3, ?_⟩
    intro l h1 h2
    simp only [h2, if_false]
    exact a4 l h1
  · exec_simp [hq, hT, ho, e3, hn]
    exact ⟨e2, e1⟩

end UrcuVerif.Src.DeferR
