import UrcuVerif.Gen.Src
import UrcuVerif.Src.StackExec
import UrcuVerif.Src.ForkExec
import UrcuVerif.Src.ForkRefine
import UrcuVerif.Src.TailLocal
/-!
# Generated source IR of `rcu_barrier` (`src/urcu-call-rcu-impl.h`) ⊑ thread-local projection of `CallRcu/Barrier.lean`

Addresses as in `Src/CallRcuRefine.lean` (`Layout`: `crd C = some h` – the `struct call_rcu_data` at `C` is helper `h`;
`cb H = some id` – the `rcu_head` at `H` is callback `id`), plus `B` = the `struct call_rcu_completion` object `calloc`
returns, which is L2's barrier `b`.  A work item `W` (`struct call_rcu_completion_work`) carries the marker callback
`cb (&W->head)`.

## Abstraction of events (`absT L B b`)

* `ext _rcu_read_ongoing = v` ↦ `ongoing (v ≠ 0)`; `ext rcu_thread_offline/online` ↦ `offline` / `online`; `ext fprintf` ↦ `warn`
* `ext calloc(1, 16) = B` ↦ `allocB b`; `ext calloc(1, 24) = W` ↦ `allocW (cb (&W->head))`
* `ext pthread_mutex_lock/unlock(&call_rcu_mutex) = 0` ↦ `lock` / `unlock` (any other result: `bad` – the source calls `urcu_die`)
* `ext cds_list_for_each_entry.first/.next(&call_rcu_data_list, …) = C | NULL` ↦ `it (crd C)` / `it none`
* `st B->ref.refcount := m` ↦ `setRef m`
* the events of `_call_rcu(&W->head, _rcu_barrier_complete, C)` ↦ `u …` exactly as `CallRcuR.absEv` (tail exchange ↦ `enq`,
  `qlen++` ↦ `inc`, `C->flags` ↦ `ldFlags`, `C->futex` ↦ `ldFutex` / `stFutex`, FUTEX_WAKE on `&C->futex` ↦ `wake`; the store of the
  predecessor's `next` is silent)
* `uatomic_dec(&B->futex)` ↦ `dec`; `ld B->barrier_count = v` ↦ `ldCnt v`; `ld B->futex = v` ↦ `w (bWaitLd v)`;
  `futex_async(&B->futex, FUTEX_WAIT, -1, …) = r` ↦ `r = 0`: `w (bWaitFx sleep), w woken`; `r ≠ 0`: nothing yet, the `errno` that
  follows ↦ `w (bWaitFx eagain)` (11) / `w (bWaitFx eintr)` (4) – the same convention as `Futex.absEvW` + `Br.gw2l`
* `uatomic_sub_return(&B->ref.refcount, 1) = r` ↦ `put r`; `ext release(&B->ref)` ↦ `release`
* fences ↦ silent (L2 is sequentially consistent); everything else ↦ `bad`, which the automaton never accepts.

The plain store `completion->barrier_count = count` has no event (it is a plain store in the C text, before the object is
published by the first `_call_rcu`): the theorem states the value in the private view.
-/
set_option linter.unusedSimpArgs false
set_option linter.unusedVariables false
set_option maxRecDepth 8192
namespace UrcuVerif.Src.TailB
open UrcuVerif UrcuVerif.Src UrcuVerif.Gen.Src UrcuVerif.CallRcu UrcuVerif.Src.CallRcuL UrcuVerif.Src.Futex
open UrcuVerif.Src.ForkL (bit)
open UrcuVerif.Src.ForkX
open UrcuVerif.Src.ForkR (Skip1 WakeInp ZeroInp)
open UrcuVerif.Src.TailL
open UrcuVerif.Src.CallRcuR (Layout)

def listLoc : Loc := .glob "call_rcu_data_list"
def mutexLoc : Loc := .glob "call_rcu_mutex"

/-- the label of a list answer -/
def itOf (L : Layout) : Val → List LLabel
  | .int n => if n = 0 then [.it none] else [.bad]
  | .ptr C => (match L.crd C with | some h => [.it (some h)] | none => [.bad])

def absExt (L : Layout) (B : Loc) (b : Nat) (name : String) (args : List Val) (r : Val) : List LLabel :=
  if name = "_rcu_read_ongoing" then [.ongoing r.truthy]
  else if name = "rcu_thread_offline" then [.offline]
  else if name = "rcu_thread_online" then [.online]
  else if name = "fprintf" then [.warn]
  else if name = "calloc" then
    (if args = [.int 1, .int 16] then (if r = .ptr B then [.allocB b] else [.bad])
     else if args = [.int 1, .int 24] then
       (match r with
        | .ptr W => (match L.cb (.field W "head") with | some id => [.allocW id] | none => [.bad])
        | _ => [.bad])
     else [.bad])
  else if name = "pthread_mutex_lock" then (if args = [.ptr mutexLoc] ∧ r = .int 0 then [.lock] else [.bad])
  else if name = "pthread_mutex_unlock" then (if args = [.ptr mutexLoc] ∧ r = .int 0 then [.unlock] else [.bad])
  else if name = "cds_list_for_each_entry.first" then (if args = [.ptr listLoc] then itOf L r else [.bad])
  else if name = "cds_list_for_each_entry.next" then
    (match args with
     | [a, .ptr _] => if a = .ptr listLoc then itOf L r else [.bad]
     | _ => [.bad])
  else if name = "futex_async" then
    (match args with
     | .ptr (.field C f) :: rest =>
       if f = "futex" then
         (if C = B then
            (if rest = [.int 0, .int (-1), .int 0, .int 0, .int 0] then
               (if r.truthy then [] else [.w (.bWaitFx .sleep), .w .woken])
             else [.bad])
          else if rest = [.int 1, .int 1, .int 0, .int 0, .int 0] then
            (match L.crd C with | some h => [.u (.wake h)] | none => [.bad])
          else [.bad])
       else [.bad]
     | _ => [.bad])
  else if name = "errno" then
    (if r = .int 11 then [.w (.bWaitFx .eagain)] else if r = .int 4 then [.w (.bWaitFx .eintr)] else [.bad])
  else if name = "release" then (if args = [.ptr (.field B "ref")] then [.release] else [.bad])
  else [.bad]

def absT (L : Layout) (B : Loc) (b : Nat) : Event → List LLabel
  | .fence _ => []
  | .ext name args r => absExt L B b name args r
  | .xchg (.field (.field C f1) f2) (.ptr (.field H f3)) _ mo =>
    if f1 = "cbs_tail" ∧ f2 = "p" ∧ f3 = "next" ∧ mo = 5 then
      (match L.crd C, L.cb H with
       | some h, some id => [.u (.enq h id)]
       | _, _ => [.bad])
    else [.bad]
  | .st (.field l f) v _ =>
    if f = "next" then []
    else if f = "futex" ∧ v = .int 0 then (match L.crd l with | some h => [.u (.stFutex h)] | none => [.bad])
    else if f = "refcount" ∧ l = .field B "ref" then (match v with | .int m => [.setRef m] | _ => [.bad])
    else [.bad]
  | .rmw p (.field C f) operand r _ =>
    if p = .uinc ∧ f = "qlen" then (match L.crd C with | some h => [.u (.inc h)] | none => [.bad])
    else if p = .udec ∧ C = B ∧ f = "futex" then [.dec]
    else if p = .usubret ∧ C = .field B "ref" ∧ f = "refcount" ∧ operand = .int 1 then
      (match r with | .int n => [.put n] | _ => [.bad])
    else [.bad]
  | .ld (.field C f) (.int n) _ =>
    if C = B then
      (if f = "barrier_count" then [.ldCnt n] else if f = "futex" then [.w (.bWaitLd n)] else [.bad])
    else
      (match L.crd C with
       | some h =>
         if f = "flags" then (if 0 ≤ n then [.u (.ldFlags h (bit n.toNat 1))] else [.bad])
         else if f = "futex" then [.u (.ldFutex h n)]
         else [.bad]
       | none => [.bad])
  | _ => [.bad]

/-- replay of the abstraction of an event sequence on the local automaton -/
def tlr (L : Layout) (B : Loc) (b : Nat) (ls : LState) (evs : List Event) : Option LState :=
  lrun ls (evs.flatMap (absT L B b))

theorem tlr_nil (L : Layout) (B : Loc) (b : Nat) (ls : LState) : tlr L B b ls [] = some ls := rfl
theorem tlr_append (L : Layout) (B : Loc) (b : Nat) (ls : LState) (x y : List Event) :
    tlr L B b ls (x ++ y) = (tlr L B b ls x).bind (fun m => tlr L B b m y) := by
  simp only [tlr, List.flatMap_append, lrun_append]

def RT (L : Layout) (B : Loc) (b : Nat) : Replay LState := ⟨tlr L B b, tlr_nil L B b, tlr_append L B b⟩

/-! ## positional pieces of the generated function -/

/-- statements 0..6: the qsbr bracket's first half and the test "inside a read-side critical section" -/
def barPre : Stmt := (splitSeq 6 «rcu_barrier»).1
def barRest : Stmt := (splitSeq 6 «rcu_barrier»).2
/-- the `else` branch of `if (_goto_online)`: the barrier proper -/
def barMain : Stmt := match seqNth 0 barRest with | .ifte _ _ m => m | _ => .skip
/-- `online:` – `if (was_online) rcu_thread_online()` -/
def barPost : Stmt := (splitSeq 0 barRest).2

/-- allocation of the completion, lock, `.first` -/
def mainA : Stmt := (splitSeq 4 barMain).1
def mainR1 : Stmt := (splitSeq 4 barMain).2
def cntBody : Stmt := (firstLoop (seqNth 0 mainR1)).getD .skip
/-- `urcu_ref_set`, `barrier_count = count`, `.first` -/
def mainB : Stmt := (splitSeq 3 (splitSeq 0 mainR1).2).1
def mainR2 : Stmt := (splitSeq 3 (splitSeq 0 mainR1).2).2
def enqBody : Stmt := (firstLoop (seqNth 0 mainR2)).getD .skip
def unlockSt : Stmt := seqNth 1 mainR2
def waitBody : Stmt := (firstLoop (seqNth 2 mainR2)).getD .skip
def putSt : Stmt := seqNth 3 mainR2
def cwBody : Stmt := (firstLoop «call_rcu_completion_wait»).getD .skip

theorem barRest_eq : ∃ c, barRest = .seq (.ifte c .skip barMain) barPost := ⟨_, rfl⟩
theorem mainR1_eq : (splitSeq 0 mainR1).1 = .loop cntBody := rfl
theorem mainR2_eq : mainR2 = .seq (.loop enqBody) (.seq unlockSt (.seq (.loop waitBody) putSt)) := rfl
theorem cw_eq : «call_rcu_completion_wait» = .seq (.prim none .mb []) (.loop cwBody) := rfl

/-! ## oracle discipline -/

/-- one helper of `call_rcu_data_list` and what `rcu_barrier` allocates for it: the `call_rcu_data` object `C` (helper `h`),
the work item `W` that `calloc` returns for it, whose `rcu_head` is callback `id` -/
structure Item where
  C : Loc
  h : Nat
  W : Loc
  id : Nat

def ItemsOk (L : Layout) (B : Loc) (items : List Item) : Prop :=
  ∀ it ∈ items, L.crd it.C = some it.h ∧ L.cb (.field it.W "head") = some it.id ∧ it.C ≠ B

/-- the C value of a list answer: the entry at the head of the rest of the list, NULL at its end -/
def nxt : List Item → Val
  | [] => .int 0
  | it :: _ => .ptr it.C

/-- answer of `.first`, then `P` -/
def FirstInp (items : List Item) (P : List Val → Prop) : List Val → Prop
  | [] => True
  | f :: rest => f = nxt items ∧ P rest

/-- oracle of the counting loop from its top, `rem` = entries still to come (the lookahead is loaded): `.next` answers
the successor in the list -/
def CntInp (P : List Val → Prop) : List Item → List Val → Prop
  | [], inp => P inp
  | _ :: rem, inp =>
    match inp with
    | [] => True
    | nx :: rest => nx = nxt rem ∧ CntInp P rem rest

/-- oracle of `_call_rcu`: the exchange of the tail returns a pointer (a wfcqueue's tail is never NULL), the result of
`uatomic_inc` (ignored), then the wake path (`ForkR.WakeInp`: flags word a non-negative integer; not RT: futex word an
integer; saw -1: FUTEX_WAKE does not fail) -/
def CallInpP (P : List Val → Prop) : List Val → Prop
  | [] => True
  | old :: rest => (∃ l, old = .ptr l) ∧ Skip1 (WakeInp P) rest

/-- oracle of the enqueue loop: `.next` answers the successor **in the same list**, `calloc` returns the work item of the
entry, `_call_rcu` -/
def EnqInp (P : List Val → Prop) : List Item → List Val → Prop
  | [], inp => P inp
  | it :: rem, inp =>
    match inp with
    | [] => True
    | nx :: rest => nx = nxt rem ∧
      match rest with
      | [] => True
      | w :: rest2 => w = .ptr it.W ∧ CallInpP (EnqInp P rem) rest2

/-- oracle of the wait loop.  `false` = top of `for (;;)` of `rcu_barrier`: result of `uatomic_dec` (ignored),
`barrier_count` (an integer; 0: leave); `true` = top of the loop of `call_rcu_completion_wait`: futex word (an integer),
(-1:) result of FUTEX_WAIT (an integer; 0: again), (failed:) `errno` is EAGAIN (return) or EINTR (again) -/
def WInp (P : List Val → Prop) : Bool → List Val → Prop
  | _, [] => True
  | false, _ :: rest =>
    (match rest with
     | [] => True
     | c :: rest2 => ∃ v : Int, c = .int v ∧ if v = 0 then P rest2 else WInp P true rest2)
  | true, x :: rest =>
    ∃ f : Int, x = .int f ∧
      if f = -1 then
        (match rest with
         | [] => True
         | r :: rest2 => ∃ k : Int, r = .int k ∧
           if k = 0 then WInp P true rest2 else
             (match rest2 with
              | [] => True
              | e :: rest3 => (e = .int 11 ∧ WInp P false rest3) ∨ (e = .int 4 ∧ WInp P true rest3)))
      else WInp P false rest

/-- oracle of `urcu_ref_put`: the new reference count (an integer); (0:) the result of `release` (ignored) -/
def PutInp (P : List Val → Prop) : List Val → Prop
  | [] => True
  | r :: rest => ∃ n : Int, r = .int n ∧ if n = 0 then Skip1 P rest else P rest

/-! ## `_call_rcu(&work->head, _rcu_barrier_complete, crdp)` against the local automaton -/

/-- private words `_call_rcu` leaves alone (it stores to `->next`, `->func`, `crdp->futex` words only) -/
def Keeps (p p' : Loc → Option Val) (B : Loc) : Prop :=
  (∀ g, p' (.glob g) = p (.glob g)) ∧ p' (.field B "barrier_count") = p (.field B "barrier_count")

theorem call_run (L : Layout) (B : Loc) (b : Nat) (P : List Val → Prop) {fuel : Nat} {env : Env} {inp : List Val}
    {r : Except String Out} (hE : exec fuel «_call_rcu» env inp = r) (H C : Loc) (fv : Val) (id h : Nat) (mbv : Int)
    (wo : Bool) (nest : Nat) (seen td : List Nat)
    (h1 : env.vars "head" = some (.ptr H)) (h2 : env.vars "func" = some fv) (h3 : env.vars "crdp" = some (.ptr C))
    (hcb : L.cb H = some id) (hcrd : L.crd C = some h) (hCB : C ≠ B)
    (hcfg : env.priv (.glob "CONFIG_RCU_EMIT_LEGACY_MB") = some (.int mbv))
    (hinp : CallInpP P inp) :
    ∃ out, r = .ok out ∧
      ∃ u', tlr L B b ⟨.loop2 b, wo, ⟨.enq id h .ext, nest⟩, seen, td⟩ out.events = some ⟨.loop2 b, wo, u', seen, td⟩ ∧
        (out.ctl = .normal ∨ out.ctl = .blocked) ∧
        (out.ctl = .normal → u' = ⟨.ext, nest⟩ ∧ P out.inp ∧ Keeps env.priv out.env.priv B) := by
  subst hE
  by_cases hmb : mbv = 0
  all_goals
    cases inp with
    | nil =>
      fexec [«_call_rcu», «_cds_wfcq_node_init», «_cds_wfcq_enqueue», «___cds_wfcq_append», «wake_call_rcu_thread»,
        «call_rcu_wake_up», tlr, absT, lrun, lstep]
    | cons old inp =>
      obtain ⟨⟨ol, rfl⟩, hinp⟩ := hinp
      cases inp with
      | nil =>
        fexec [«_call_rcu», «_cds_wfcq_node_init», «_cds_wfcq_enqueue», «___cds_wfcq_append», «wake_call_rcu_thread»,
          «call_rcu_wake_up», tlr, absT, lrun, lstep, U.lstep]
      | cons q inp =>
        simp only [Skip1] at hinp
        cases inp with
        | nil =>
          fexec [«_call_rcu», «_cds_wfcq_node_init», «_cds_wfcq_enqueue», «___cds_wfcq_append», «wake_call_rcu_thread»,
            «call_rcu_wake_up», tlr, absT, lrun, lstep, U.lstep]
        | cons f inp =>
          obtain ⟨n, rfl, hinp⟩ := hinp
          by_cases hrt : bit n 1 = true
          · rw [if_pos hrt] at hinp
            fexec [«_call_rcu», «_cds_wfcq_node_init», «_cds_wfcq_enqueue», «___cds_wfcq_append», «wake_call_rcu_thread»,
              «call_rcu_wake_up», tlr, absT, lrun, lstep, U.lstep, K.cont, Keeps, hrt]
          · rw [if_neg hrt] at hinp
            cases inp with
            | nil =>
              fexec [«_call_rcu», «_cds_wfcq_node_init», «_cds_wfcq_enqueue», «___cds_wfcq_append», «wake_call_rcu_thread»,
                «call_rcu_wake_up», tlr, absT, lrun, lstep, U.lstep, K.cont, Keeps, hrt]
            | cons v inp =>
              obtain ⟨x, rfl, hinp⟩ := hinp
              by_cases hx : x = -1
              · subst hx
                rw [if_pos rfl] at hinp
                cases inp with
                | nil =>
                  fexec [«_call_rcu», «_cds_wfcq_node_init», «_cds_wfcq_enqueue», «___cds_wfcq_append»,
                    «wake_call_rcu_thread», «call_rcu_wake_up», tlr, absT, absExt, lrun, lstep, U.lstep, K.cont, Keeps, hrt]
                | cons w inp =>
                  obtain ⟨⟨k, hk, rfl⟩, hinp⟩ := hinp
                  have hk' : ¬ (k < 0) := by omega
                  fexec [«_call_rcu», «_cds_wfcq_node_init», «_cds_wfcq_enqueue», «___cds_wfcq_append»,
                    «wake_call_rcu_thread», «call_rcu_wake_up», tlr, absT, absExt, lrun, lstep, U.lstep, K.cont, Keeps, hrt]
              · rw [if_neg hx] at hinp
                fexec [«_call_rcu», «_cds_wfcq_node_init», «_cds_wfcq_enqueue», «___cds_wfcq_append»,
                  «wake_call_rcu_thread», «call_rcu_wake_up», tlr, absT, lrun, lstep, U.lstep, K.cont, Keeps, hrt]

/-! ## the pieces of `rcu_barrier` -/

open Lean.Parser.Tactic in
macro "bexec" " [" ts:simpLemma,* "]" : tactic =>
  `(tactic| fexec [RT, tlr, absT, absExt, itOf, lrun, lstep, U.lstep, brkPost, listLoc, mutexLoc, $ts,*])
open Lean.Parser.Tactic in
/-- the same with `itOf` kept folded (a lemma about `itOf L (nxt r)` is used instead) -/
macro "bexec'" " [" ts:simpLemma,* "]" : tactic =>
  `(tactic| fexec [RT, tlr, absT, absExt, lrun, lstep, U.lstep, brkPost, listLoc, mutexLoc, $ts,*])

/-- what the later phases need of the environment -/
def Base (B : Loc) (w mbv : Int) (env : Env) : Prop :=
  env.vars "completion" = some (.ptr B) ∧ env.vars "was_online" = some (.int w) ∧
  env.priv (.glob "CONFIG_RCU_EMIT_LEGACY_MB") = some (.int mbv)

def Fin : List Val → Prop := fun _ => True

/-- oracle of the barrier proper for the helper list `items`: `calloc` returns the completion `B`, `pthread_mutex_lock`
returns 0, **both loops enumerate `items`**, `pthread_mutex_unlock` returns 0, the wait loop, `urcu_ref_put` -/
def MainInp (B : Loc) (items : List Item) : List Val → Prop
  | [] => True
  | c :: rest => c = .ptr B ∧
    ZeroInp (FirstInp items (CntInp (FirstInp items (EnqInp (ZeroInp (WInp (PutInp Fin) false)) items)) items)) rest

/-- second answer of `_rcu_read_ongoing()`: the truth about the thread's nesting; 0: the barrier proper -/
def ChkInp (B : Loc) (nest : Nat) (items : List Item) : List Val → Prop
  | [] => True
  | o :: rest => ∃ m : Int, o = .int m ∧ (m = 0 ↔ nest = 0) ∧ (m = 0 → MainInp B items rest)

/-- oracle of `rcu_barrier()`: first answer of `_rcu_read_ongoing()` (an integer; non-zero: the result of
`rcu_thread_offline()` follows) -/
def BarInp (B : Loc) (nest : Nat) (items : List Item) : List Val → Prop
  | [] => True
  | o :: rest => ∃ n : Int, o = .int n ∧ if n = 0 then ChkInp B nest items rest else Skip1 (ChkInp B nest items) rest

def BarPre0 (B : Loc) (nest : Nat) (items : List Item) (mbv : Int) : Pre LState := fun env inp ls =>
  (∃ sv, env.priv (.glob "stderr") = some sv) ∧ env.priv (.glob "CONFIG_RCU_EMIT_LEGACY_MB") = some (.int mbv) ∧
  BarInp B nest items inp ∧ ls = ⟨.start, false, ⟨.idle, nest⟩, [], []⟩

/-- after the test: refused (`goto online`), or about to allocate the completion -/
def BarMid (B : Loc) (nest : Nat) (items : List Item) (mbv : Int) : Pre LState := fun env inp ls =>
  env.priv (.glob "CONFIG_RCU_EMIT_LEGACY_MB") = some (.int mbv) ∧ env.vars "count" = some (.int 0) ∧
  ∃ w : Int, env.vars "was_online" = some (.int w) ∧
    ((0 < nest ∧ env.vars "_goto_online" = some (.int 1) ∧ ls = ⟨.fin, w != 0, ⟨.idle, nest⟩, [], []⟩) ∨
     (nest = 0 ∧ env.vars "_goto_online" = some (.int 0) ∧ ls = ⟨.alloc, w != 0, ⟨.idle, nest⟩, [], []⟩ ∧
        MainInp B items inp))

theorem barPre_tri (L : Layout) (B : Loc) (b nest : Nat) (items : List Item) (mbv : Int) (fuel : Nat) :
    Tri (RT L B b) fuel barPre (BarPre0 B nest items mbv) (norm (BarMid B nest items mbv)) := by
  intro env inp ls ⟨⟨sv, hsv⟩, hcfg, hi, hls⟩
  subst hls
  cases inp with
  | nil => bexec [barPre, «rcu_barrier»]
  | cons o rest =>
    obtain ⟨n, rfl, hi⟩ := hi
    by_cases hn : n = 0
    · subst hn
      simp only [if_true] at hi
      cases rest with
      | nil => bexec [barPre, «rcu_barrier»]
      | cons o2 rest =>
        obtain ⟨m, rfl, hm, hi⟩ := hi
        by_cases hm0 : m = 0
        · subst hm0
          have hnest : nest = 0 := hm.1 rfl
          subst hnest
          bexec [barPre, «rcu_barrier», BarMid]
        · have hnest : 0 < nest := by
            rcases Nat.eq_zero_or_pos nest with h | h
            · exact absurd (hm.2 h) hm0
            · exact h
          cases rest with
          | nil => bexec [barPre, «rcu_barrier», BarMid, hm0, hnest]
          | cons fp rest => bexec [barPre, «rcu_barrier», BarMid, hm0, hnest]
    · simp only [if_neg hn] at hi
      cases rest with
      | nil => bexec [barPre, «rcu_barrier», hn]
      | cons off rest =>
        simp only [Skip1] at hi
        cases rest with
        | nil => bexec [barPre, «rcu_barrier», hn]
        | cons o2 rest =>
          obtain ⟨m, rfl, hm, hi⟩ := hi
          by_cases hm0 : m = 0
          · subst hm0
            have hnest : nest = 0 := hm.1 rfl
            subst hnest
            bexec [barPre, «rcu_barrier», BarMid, hn]
          · have hnest : 0 < nest := by
              rcases Nat.eq_zero_or_pos nest with h | h
              · exact absurd (hm.2 h) hm0
              · exact h
            cases rest with
            | nil => bexec [barPre, «rcu_barrier», BarMid, hn, hm0, hnest]
            | cons fp rest => bexec [barPre, «rcu_barrier», BarMid, hn, hm0, hnest]

/-- the helpers the counting loop has been answered: those passed and the lookahead -/
def seenOf (pre rem : List Item) : List Nat := pre.map (·.h) ++ (rem.take 1).map (·.h)

/-- at the top of the counting loop -/
def CntI (B : Loc) (b : Nat) (w mbv : Int) (nest : Nat) (items : List Item) (P : List Val → Prop) : Pre LState :=
  fun env inp ls => Base B w mbv env ∧
    ∃ pre rem, items = pre ++ rem ∧ env.vars "_t5" = some (nxt rem) ∧ env.vars "count" = some (.int pre.length) ∧
      ls = ⟨if rem = [] then .setRef b else .count b, w != 0, ⟨.ext, nest⟩, seenOf pre rem, []⟩ ∧ CntInp P rem inp

/-- the counting loop left: `count` = the number of helpers of the list -/
def CntQ (B : Loc) (b : Nat) (w mbv : Int) (nest : Nat) (items : List Item) (P : List Val → Prop) : Pre LState :=
  fun env inp ls => Base B w mbv env ∧ env.vars "count" = some (.int items.length) ∧
    ls = ⟨.setRef b, w != 0, ⟨.ext, nest⟩, items.map (·.h), []⟩ ∧ P inp

/-- allocation of the completion (`bCall`), `call_rcu_lock` (`bLock`), `.first` -/
theorem mainA_tri (L : Layout) (B : Loc) (b nest : Nat) (items : List Item) (mbv : Int) (fuel : Nat)
    (hok : ItemsOk L B items) :
    Tri (RT L B b) fuel mainA
      (fun env inp ls => env.priv (.glob "CONFIG_RCU_EMIT_LEGACY_MB") = some (.int mbv) ∧
        ∃ w : Int, env.vars "was_online" = some (.int w) ∧ env.vars "count" = some (.int 0) ∧
          ls = ⟨.alloc, w != 0, ⟨.idle, nest⟩, [], []⟩ ∧ MainInp B items inp)
      (norm fun env inp ls => ∃ w, CntI B b w mbv nest items
        (FirstInp items (EnqInp (ZeroInp (WInp (PutInp Fin) false)) items)) env inp ls) := by
  intro env inp ls ⟨hcfg, w, hw, hc, hls, hi⟩
  subst hls
  cases inp with
  | nil => bexec [mainA, barMain, barRest, «rcu_barrier»]
  | cons c rest =>
    obtain ⟨rfl, hi⟩ := hi
    cases rest with
    | nil => bexec [mainA, barMain, barRest, «rcu_barrier», «call_rcu_lock»]
    | cons r rest =>
      obtain ⟨rfl, hi⟩ := hi
      cases rest with
      | nil => bexec [mainA, barMain, barRest, «rcu_barrier», «call_rcu_lock»]
      | cons f rest =>
        obtain ⟨rfl, hi⟩ := hi
        cases items with
        | nil =>
          bexec [mainA, barMain, barRest, «rcu_barrier», «call_rcu_lock», nxt, CntI, Base, seenOf]
          exact ⟨[], [], by simp [hi]⟩
        | cons i r =>
          have hi1 := hok i (by simp)
          bexec [mainA, barMain, barRest, «rcu_barrier», «call_rcu_lock», nxt, CntI, Base, seenOf, hi1.1]
          exact ⟨[], i :: r, by simp [hi]⟩

/-- one iteration of `cds_list_for_each_entry(crdp, &call_rcu_data_list, list) count++;` -/
theorem cntBody_tri (L : Layout) (B : Loc) (b : Nat) (w mbv : Int) (nest : Nat) (items : List Item)
    (P : List Val → Prop) (fuel : Nat) (hok : ItemsOk L B items) :
    Tri (RT L B b) fuel cntBody (CntI B b w mbv nest items P)
      (fun c env inp ls => if c.goesOn then CntI B b w mbv nest items P env inp ls
        else brkPost (CntQ B b w mbv nest items P) c env inp ls) := by
  intro env inp ls ⟨hb, pre, rem, hit, ht, hc, hls, hi⟩
  subst hls
  obtain ⟨hb1, hb2, hb3⟩ := hb
  cases rem with
  | nil =>
    simp only [CntInp] at hi
    simp only [List.append_nil] at hit
    subst hit
    bexec [cntBody, mainR1, barMain, barRest, «rcu_barrier», nxt, CntQ, Base, seenOf]
  | cons i r =>
    cases inp with
    | nil => bexec [cntBody, mainR1, barMain, barRest, «rcu_barrier», nxt]
    | cons nx rest =>
      obtain ⟨rfl, hi⟩ := hi
      cases r with
      | nil =>
        bexec [cntBody, mainR1, barMain, barRest, «rcu_barrier», nxt, CntI, Base, seenOf]
        exact ⟨pre ++ [i], [], by simp [hit, hi]⟩
      | cons j r' =>
        have hj := hok j (by simp [hit])
        bexec [cntBody, mainR1, barMain, barRest, «rcu_barrier», nxt, CntI, Base, seenOf, hj.1]
        exact ⟨pre ++ [i], j :: r', by simp [hit, hi]⟩

/-- at the top of the enqueue loop: `rem` = helpers still to be given a marker = L2's `todo b` -/
def EnqI (B : Loc) (b : Nat) (w mbv : Int) (nest : Nat) (items : List Item) (P : List Val → Prop) : Pre LState :=
  fun env inp ls => Base B w mbv env ∧ env.priv (.field B "barrier_count") = some (.int items.length) ∧
    ∃ rem, (∃ pre, items = pre ++ rem) ∧ env.vars "_t8" = some (nxt rem) ∧
      ls = ⟨.loop2 b, w != 0, ⟨.ext, nest⟩, items.map (·.h), rem.map (·.h)⟩ ∧ EnqInp P rem inp

/-- the enqueue loop left: every helper of the list has its marker (`todo = []`), C03's pc is back at `ext` -/
def EnqQ (B : Loc) (b : Nat) (w mbv : Int) (nest : Nat) (items : List Item) (P : List Val → Prop) : Pre LState :=
  fun env inp ls => Base B w mbv env ∧ env.priv (.field B "barrier_count") = some (.int items.length) ∧
    ls = ⟨.loop2 b, w != 0, ⟨.ext, nest⟩, items.map (·.h), []⟩ ∧ P inp

/-- `urcu_ref_set(&completion->ref, count + 1)` (`bInit`), `completion->barrier_count = count`, `.first` -/
theorem mainB_tri (L : Layout) (B : Loc) (b : Nat) (w mbv : Int) (nest : Nat) (items : List Item)
    (P : List Val → Prop) (fuel : Nat) (hok : ItemsOk L B items) :
    Tri (RT L B b) fuel mainB (CntQ B b w mbv nest items (FirstInp items (EnqInp P items)))
      (norm (EnqI B b w mbv nest items P)) := by
  intro env inp ls ⟨hb, hc, hls, hi⟩
  subst hls
  obtain ⟨hb1, hb2, hb3⟩ := hb
  cases inp with
  | nil => bexec [mainB, mainR1, barMain, barRest, «rcu_barrier», «urcu_ref_set»]
  | cons f rest =>
    obtain ⟨rfl, hi⟩ := hi
    cases items with
    | nil =>
      bexec [mainB, mainR1, barMain, barRest, «rcu_barrier», «urcu_ref_set», nxt, EnqI, Base]
    | cons i r =>
      have hi1 := hok i (by simp)
      bexec [mainB, mainR1, barMain, barRest, «rcu_barrier», «urcu_ref_set», nxt, EnqI, Base, hi1.1]
      exact ⟨i :: r, by simp [hi, nxt]⟩

theorem itOf_nxt (L : Layout) (B : Loc) (r : List Item) (hok : ItemsOk L B r) :
    itOf L (nxt r) = [.it (r.map (·.h)).head?] := by
  cases r with
  | nil => simp [itOf, nxt]
  | cons j r' => simp [itOf, nxt, (hok j (by simp)).1]

/-- **one iteration of the enqueue loop**: `.next`, `calloc` of the work item (`bEnq t id h` for the head `h` of `todo`),
`work->completion = completion`, `_call_rcu(&work->head, _rcu_barrier_complete, crdp)` (C03's `enq inc ldFlags …` up to pc
`ext`) -/
theorem enqBody_tri (L : Layout) (B : Loc) (b : Nat) (w mbv : Int) (nest : Nat) (items : List Item)
    (P : List Val → Prop) (fuel : Nat) (hok : ItemsOk L B items) :
    Tri (RT L B b) fuel enqBody (EnqI B b w mbv nest items P)
      (fun c env inp ls => if c.goesOn then EnqI B b w mbv nest items P env inp ls
        else brkPost (EnqQ B b w mbv nest items P) c env inp ls) := by
  intro env inp ls ⟨hb, hbc, rem, ⟨pre, hit⟩, ht, hls, hi⟩
  subst hls
  subst hit
  obtain ⟨hb1, hb2, hb3⟩ := hb
  cases rem with
  | nil =>
    simp only [EnqInp] at hi
    have ht' : env.vars "_t8" = some (.int 0) := ht
    clear ht
    bexec [enqBody, mainR2, mainR1, barMain, barRest, «rcu_barrier», EnqQ, Base]
  | cons i r =>
    have hokr : ItemsOk L B r := fun x hx => hok x (by simp [hx])
    have hnx := itOf_nxt L B r hokr
    obtain ⟨hi1, hi2, hi3⟩ := hok i (by simp)
    have ht' : env.vars "_t8" = some (.ptr i.C) := ht
    clear ht
    cases inp with
    | nil => bexec' [enqBody, mainR2, mainR1, barMain, barRest, «rcu_barrier»]
    | cons nx rest =>
      obtain ⟨rfl, hi⟩ := hi
      cases rest with
      | nil => bexec' [enqBody, mainR2, mainR1, barMain, barRest, «rcu_barrier»]
      | cons wv rest2 =>
        obtain ⟨rfl, hi⟩ := hi
        bexec' [enqBody, mainR2, mainR1, barMain, barRest, «rcu_barrier»]
        generalize hE : exec fuel «_call_rcu» _ _ = res
        obtain ⟨out, rfl, u', hl, hc, hp⟩ := call_run L B b (EnqInp P r) hE (.field i.W "head") i.C
          (.ptr (.glob "_rcu_barrier_complete")) i.id i.h mbv (w != 0) nest ((pre ++ i :: r).map (·.h)) (r.map (·.h))
          (by simp) (by simp) (by simp) hi2 hi1 hi3 (by simp [hb3]) hi
        clear hE
        rcases out with ⟨evs, oenv, oinp, octl⟩
        simp only [] at hc hp hl
        simp only [tlr, List.map_append, List.map_cons] at hl
        rcases hc with rfl | rfl
        · obtain ⟨rfl, hP, hk1, hk2⟩ := hp rfl
          bexec' [lrun_append, hl, EnqI, Base, hb1, hb2]
          exact ⟨r, ⟨pre ++ [i], by simp⟩, rfl, rfl, hP⟩
        · bexec' [lrun_append, hl]

/-- call of a static inline function, from a triple about its body -/
theorem Tri.callv {σ : Type} {R : Replay σ} {fuel dst params args body} {P Pb : Pre σ} {Qb Q : Post σ}
    (h : Tri R fuel body Pb Qb)
    (hargs : ∀ env inp ls, P env inp ls → ∃ vs, evalArgs env args = .ok vs ∧ params.length = vs.length ∧
      Pb ⟨bindParams params vs, env.priv⟩ inp ls)
    (hQ : ∀ env inp ls, P env inp ls → ∀ c e' i' l', Qb c e' i' l' →
      match c with
      | .normal | .ret none => Q .normal ⟨env.vars, e'.priv⟩ i' l'
      | .ret (some v) => Q .normal (setDst ⟨env.vars, e'.priv⟩ dst v) i' l'
      | .brk | .cont => False
      | c => Q c e' i' l') :
    Tri R fuel (.call dst params args body) P Q := by
  intro env inp ls hp
  obtain ⟨vs, hvs, hlen, hpb⟩ := hargs env inp ls hp
  obtain ⟨o, ho, ls', hl, hq⟩ := h _ inp ls hpb
  have hq' := hQ env inp ls hp _ _ _ _ hq
  rw [exec_call, hvs]
  simp only [hlen, ne_eq, not_true_eq_false, if_false, ho]
  rcases o with ⟨ev, en, ip, ctl⟩
  cases ctl with
  | normal => exact ⟨_, rfl, ls', hl, hq'⟩
  | ret v =>
    cases v with
    | none => exact ⟨_, rfl, ls', hl, hq'⟩
    | some v => exact ⟨_, rfl, ls', hl, hq'⟩
  | brk => exact absurd hq' (by simp)
  | cont => exact absurd hq' (by simp)
  | blocked => exact ⟨_, rfl, ls', hl, hq'⟩
  | fuel => exact ⟨_, rfl, ls', hl, hq'⟩

/-- top of the wait loop of `rcu_barrier` (L2's `dec b`) -/
def WI (B : Loc) (b : Nat) (w mbv : Int) (nest : Nat) (items : List Item) (P : List Val → Prop) : Pre LState :=
  fun env inp ls => Base B w mbv env ∧ env.priv (.field B "barrier_count") = some (.int items.length) ∧
    ls = ⟨.bp (.dec b), w != 0, ⟨.ext, nest⟩, items.map (·.h), []⟩ ∧ WInp P false inp

/-- the wait loop left: `barrier_count` was seen 0 (L2's `put b`) -/
def WQ (B : Loc) (b : Nat) (w mbv : Int) (nest : Nat) (items : List Item) (P : List Val → Prop) : Pre LState :=
  fun env inp ls => Base B w mbv env ∧ env.priv (.field B "barrier_count") = some (.int items.length) ∧
    ls = ⟨.bp (.put b), w != 0, ⟨.ext, nest⟩, items.map (·.h), []⟩ ∧ P inp

/-- `call_rcu_unlock(&call_rcu_mutex)` (`bUnlock`: accepted only with `todo = []` and C03's pc at `ext`) -/
theorem unlock_tri (L : Layout) (B : Loc) (b : Nat) (w mbv : Int) (nest : Nat) (items : List Item)
    (P : List Val → Prop) (fuel : Nat) :
    Tri (RT L B b) fuel unlockSt (EnqQ B b w mbv nest items (ZeroInp (WInp P false)))
      (norm (WI B b w mbv nest items P)) := by
  intro env inp ls ⟨hb, hbc, hls, hi⟩
  subst hls
  obtain ⟨hb1, hb2, hb3⟩ := hb
  cases inp with
  | nil => bexec [unlockSt, mainR2, mainR1, barMain, barRest, «rcu_barrier», «call_rcu_unlock»]
  | cons z rest =>
    obtain ⟨rfl, hi⟩ := hi
    bexec [unlockSt, mainR2, mainR1, barMain, barRest, «rcu_barrier», «call_rcu_unlock», WI, Base]

/-- inside `call_rcu_completion_wait`: top of its loop (L2's `waitLd b`); `p0` = the private view, which it leaves alone -/
def WJ (B : Loc) (b : Nat) (wo : Bool) (nest : Nat) (seen : List Nat) (p0 : Loc → Option Val) (P : List Val → Prop)
    (pc : BPc) (inner : Bool) : Pre LState :=
  fun env inp ls => env.vars "completion" = some (.ptr B) ∧ env.priv = p0 ∧
    ls = ⟨.bp pc, wo, ⟨.ext, nest⟩, seen, []⟩ ∧ WInp P inner inp

/-- terminal outcomes of the body of the loop of `call_rcu_completion_wait`: `break` (futex word ≠ -1) or `return`
(EAGAIN), both back to L2's `dec b` -/
def WT (B : Loc) (b : Nat) (wo : Bool) (nest : Nat) (seen : List Nat) (p0 : Loc → Option Val) (P : List Val → Prop) :
    Post LState := fun c env inp ls =>
  ((c = .brk ∨ c = .ret none) ∧ WJ B b wo nest seen p0 P (.dec b) false env inp ls) ∨ c = .blocked ∨ c = .fuel

theorem cwBody_tri (L : Layout) (B : Loc) (b : Nat) (wo : Bool) (nest : Nat) (seen : List Nat)
    (p0 : Loc → Option Val) (P : List Val → Prop) (fuel : Nat) :
    Tri (RT L B b) fuel cwBody (WJ B b wo nest seen p0 P (.waitLd b) true)
      (fun c env inp ls => if c.goesOn then WJ B b wo nest seen p0 P (.waitLd b) true env inp ls
        else WT B b wo nest seen p0 P c env inp ls) := by
  intro env inp ls ⟨hc, hp, hls, hi⟩
  subst hls
  cases inp with
  | nil => bexec [cwBody, «call_rcu_completion_wait», WT]
  | cons x rest =>
    rw [WInp.eq_def] at hi
    simp only at hi
    obtain ⟨f, rfl, hi⟩ := hi
    by_cases hf : f = -1
    · subst hf
      simp only [if_true] at hi
      cases rest with
      | nil => bexec [cwBody, «call_rcu_completion_wait», WT, Br.lstep]
      | cons r rest2 =>
        obtain ⟨k, rfl, hi⟩ := hi
        by_cases hk : k = 0
        · subst hk
          simp only [if_true] at hi
          bexec [cwBody, «call_rcu_completion_wait», WT, WJ, Br.lstep]
        · simp only [if_neg hk] at hi
          cases rest2 with
          | nil => bexec [cwBody, «call_rcu_completion_wait», WT, WJ, Br.lstep, hk]
          | cons e rest3 =>
            rcases hi with ⟨rfl, hi⟩ | ⟨rfl, hi⟩
            · bexec [cwBody, «call_rcu_completion_wait», WT, WJ, Br.lstep, hk]
            · bexec [cwBody, «call_rcu_completion_wait», WT, WJ, Br.lstep, hk]
    · simp only [if_neg hf] at hi
      bexec [cwBody, «call_rcu_completion_wait», WT, WJ, Br.lstep, hf]

/-- `call_rcu_completion_wait(completion)`: from L2's `waitLd b`, along any path of its futex loop, back to `dec b` -/
theorem cw_tri (L : Layout) (B : Loc) (b : Nat) (wo : Bool) (nest : Nat) (seen : List Nat)
    (p0 : Loc → Option Val) (P : List Val → Prop) (fuel : Nat) :
    Tri (RT L B b) fuel «call_rcu_completion_wait» (WJ B b wo nest seen p0 P (.waitLd b) true)
      (loopPost (WJ B b wo nest seen p0 P (.waitLd b) true) (WT B b wo nest seen p0 P)) := by
  rw [cw_eq]
  refine Tri.seq (M := fun c env inp ls => c = .normal ∧ WJ B b wo nest seen p0 P (.waitLd b) true env inp ls) ?_
    ((Tri.loop _ _ (cwBody_tri L B b wo nest seen p0 P fuel)).conseq (fun _ _ _ h => h.2) (fun _ _ _ _ h => h)) ?_
  · intro env inp ls ⟨hc, hp, hls, hi⟩
    subst hls
    bexec [WJ]
  · intro c env inp ls hc h
    exact absurd h.1 hc

def waitHead : Stmt := (splitSeq 3 waitBody).1
def cwCall : Stmt := (splitSeq 3 waitBody).2
theorem cwCall_eq : cwCall = .call none ["completion"] [.var "completion"] «call_rcu_completion_wait» := rfl

/-- `barrier_count` was seen non-zero: about to call `call_rcu_completion_wait` (L2's `waitLd b`) -/
def WC (B : Loc) (b : Nat) (w mbv : Int) (nest : Nat) (items : List Item) (P : List Val → Prop) : Pre LState :=
  fun env inp ls => Base B w mbv env ∧ env.priv (.field B "barrier_count") = some (.int items.length) ∧
    ls = ⟨.bp (.waitLd b), w != 0, ⟨.ext, nest⟩, items.map (·.h), []⟩ ∧ WInp P true inp

theorem cwCall_tri (L : Layout) (B : Loc) (b : Nat) (w mbv : Int) (nest : Nat) (items : List Item)
    (P : List Val → Prop) (fuel : Nat) :
    Tri (RT L B b) fuel cwCall (WC B b w mbv nest items P)
      (fun c env inp ls => if c.goesOn then WI B b w mbv nest items P env inp ls
        else brkPost (WQ B b w mbv nest items P) c env inp ls) := by
  intro env inp ls hp
  rw [cwCall_eq]
  refine Tri.callv (P := fun e i l => WC B b w mbv nest items P e i l ∧ e.priv = env.priv)
    (Q := fun c env inp ls => if c.goesOn then WI B b w mbv nest items P env inp ls
        else brkPost (WQ B b w mbv nest items P) c env inp ls)
    (cw_tri L B b (w != 0) nest (items.map (·.h)) env.priv P fuel) ?_ ?_ env inp ls ⟨hp, rfl⟩
  · intro e i l ⟨⟨⟨hb1, hb2, hb3⟩, hbc, hls, hi⟩, hpe⟩
    exact ⟨[.ptr B], by simp [evalArgs, eval, hb1, bind, Except.bind], rfl, by simp [bindParams], hpe, hls, hi⟩
  · intro e i l ⟨⟨⟨hb1, hb2, hb3⟩, hbc, hls, hi⟩, hpe⟩ c e' i' l' hq
    rcases hq with ⟨rfl, _⟩ | ⟨c0, hg, ht, rfl⟩
    · simp [Ctl.goesOn, brkPost]
    · rcases ht with ⟨hc0 | hc0, hc', hp', hl', hi'⟩ | rfl | rfl
      · subst hc0
        simp only [Ctl.afterLoop, Ctl.goesOn, if_true]
        exact ⟨⟨hb1, hb2, by rw [hp', ← hpe]; exact hb3⟩, by rw [hp', ← hpe]; exact hbc, hl', hi'⟩
      · subst hc0
        simp only [Ctl.afterLoop, Ctl.goesOn, if_true]
        exact ⟨⟨hb1, hb2, by rw [hp', ← hpe]; exact hb3⟩, by rw [hp', ← hpe]; exact hbc, hl', hi'⟩
      · simp [Ctl.afterLoop, Ctl.goesOn, brkPost]
      · simp [Ctl.afterLoop, Ctl.goesOn, brkPost]

/-- `uatomic_dec(&completion->futex)` (`bDec`), `cmm_smp_mb()`, load of `barrier_count` (`bLdCnt`), `break` when 0 -/
theorem waitHead_tri (L : Layout) (B : Loc) (b : Nat) (w mbv : Int) (nest : Nat) (items : List Item)
    (P : List Val → Prop) (fuel : Nat) :
    Tri (RT L B b) fuel waitHead (WI B b w mbv nest items P)
      (headPost (WC B b w mbv nest items P) (WQ B b w mbv nest items P)) := by
  intro env inp ls ⟨hb, hbc, hls, hi⟩
  subst hls
  obtain ⟨hb1, hb2, hb3⟩ := hb
  cases inp with
  | nil => bexec [waitHead, waitBody, mainR2, mainR1, barMain, barRest, «rcu_barrier», headPost]
  | cons d rest =>
    cases rest with
    | nil => bexec [waitHead, waitBody, mainR2, mainR1, barMain, barRest, «rcu_barrier», headPost]
    | cons c rest2 =>
      simp only [WInp] at hi
      obtain ⟨v, rfl, hi⟩ := hi
      by_cases hv : v = 0
      · subst hv
        simp only [if_true] at hi
        bexec [waitHead, waitBody, mainR2, mainR1, barMain, barRest, «rcu_barrier», headPost, WQ, Base]
      · simp only [if_neg hv] at hi
        bexec [waitHead, waitBody, mainR2, mainR1, barMain, barRest, «rcu_barrier», headPost, WC, Base, hv]

/-- one round of the wait loop of `rcu_barrier` -/
theorem waitBody_tri (L : Layout) (B : Loc) (b : Nat) (w mbv : Int) (nest : Nat) (items : List Item)
    (P : List Val → Prop) (fuel : Nat) :
    Tri (RT L B b) fuel waitBody (WI B b w mbv nest items P)
      (fun c env inp ls => if c.goesOn then WI B b w mbv nest items P env inp ls
        else brkPost (WQ B b w mbv nest items P) c env inp ls) := by
  apply Tri.split 3
  refine Tri.seq (waitHead_tri L B b w mbv nest items P fuel) (cwCall_tri L B b w mbv nest items P fuel) ?_
  intro c env inp ls hc h
  cases c <;> simp_all [headPost, Ctl.goesOn, brkPost]

/-- the caller is back at C03's `idle`, the barrier is over -/
def BarDone (B : Loc) (w : Int) (nest : Nat) (items : List Item) : Pre LState := fun env inp ls =>
  env.vars "was_online" = some (.int w) ∧ env.priv (.field B "barrier_count") = some (.int items.length) ∧
    ls = ⟨.fin, w != 0, ⟨.idle, nest⟩, items.map (·.h), []⟩

/-- `urcu_ref_put(&completion->ref, free_completion)` (`bPut`; `release` exactly when the count reached 0) -/
theorem put_tri (L : Layout) (B : Loc) (b : Nat) (w mbv : Int) (nest : Nat) (items : List Item) (fuel : Nat) :
    Tri (RT L B b) fuel putSt (WQ B b w mbv nest items (PutInp Fin)) (norm (BarDone B w nest items)) := by
  intro env inp ls ⟨hb, hbc, hls, hi⟩
  subst hls
  obtain ⟨hb1, hb2, hb3⟩ := hb
  cases inp with
  | nil => bexec [putSt, mainR2, mainR1, barMain, barRest, «rcu_barrier», «urcu_ref_put»]
  | cons r rest =>
    obtain ⟨n, rfl, hi⟩ := hi
    by_cases hn : n = 0
    · subst hn
      cases rest with
      | nil => bexec [putSt, mainR2, mainR1, barMain, barRest, «rcu_barrier», «urcu_ref_put»]
      | cons x rest => bexec [putSt, mainR2, mainR1, barMain, barRest, «rcu_barrier», «urcu_ref_put», BarDone]
    · bexec [putSt, mainR2, mainR1, barMain, barRest, «rcu_barrier», «urcu_ref_put», BarDone, hn]

/-- how `rcu_barrier()` ends: the thread is back at C03's `idle` with its nesting unchanged; if it was not refused, the
counting loop has enumerated exactly the helpers of `items`, every one of them was given its marker (`todo = []`) and
`completion->barrier_count` was set to their number -/
def BarFin (B : Loc) (nest : Nat) (items : List Item) : Pre LState := fun env inp ls =>
  ls.pc = .fin ∧ ls.u = ⟨.idle, nest⟩ ∧ ls.todo = [] ∧
  (nest = 0 → ls.seen = items.map (·.h) ∧ env.priv (.field B "barrier_count") = some (.int items.length))

def BarFin0 (B : Loc) (nest : Nat) (items : List Item) : Pre LState := fun env inp ls =>
  (∃ w : Int, env.vars "was_online" = some (.int w) ∧ ls.wo = (w != 0)) ∧ BarFin B nest items env inp ls

/-- `online:` – `if (was_online) rcu_thread_online()` -/
theorem barPost_tri (L : Layout) (B : Loc) (b nest : Nat) (items : List Item) (fuel : Nat) :
    Tri (RT L B b) fuel barPost (BarFin0 B nest items) (norm (BarFin B nest items)) := by
  intro env inp ls ⟨⟨w, hw, hwo⟩, hpc, hu, htd, hrest⟩
  rcases ls with ⟨pc, wo, u, seen, td⟩
  simp only at hwo hpc hu htd hrest
  subst hwo hpc hu htd
  by_cases hw0 : w = 0
  · subst hw0
    bexec [barPost, barRest, «rcu_barrier», BarFin]
    exact hrest
  · cases inp with
    | nil => bexec [barPost, barRest, «rcu_barrier», BarFin, hw0]
    | cons x rest =>
      bexec [barPost, barRest, «rcu_barrier», BarFin, hw0]
      exact hrest

theorem Tri.pre_norm {σ : Type} {R : Replay σ} {fuel st} {Q : Pre σ} {Q' : Post σ} (h : Tri R fuel st Q Q') :
    Tri R fuel st (norm Q .normal) Q' := h

/-- the barrier proper (the `else` branch of `if (_goto_online)`) -/
theorem barMain_tri (L : Layout) (B : Loc) (b nest : Nat) (items : List Item) (mbv : Int) (fuel : Nat)
    (hok : ItemsOk L B items) :
    Tri (RT L B b) fuel barMain
      (fun env inp ls => env.priv (.glob "CONFIG_RCU_EMIT_LEGACY_MB") = some (.int mbv) ∧
        ∃ w : Int, env.vars "was_online" = some (.int w) ∧ env.vars "count" = some (.int 0) ∧
          ls = ⟨.alloc, w != 0, ⟨.idle, nest⟩, [], []⟩ ∧ MainInp B items inp)
      (norm fun env inp ls => ∃ w, BarDone B w nest items env inp ls) := by
  apply Tri.split 4
  refine Tri.seq (mainA_tri L B b nest items mbv fuel hok) (Tri.pre_norm ?_)
    (fun c env inp ls hc h => norm_of_ne _ _ c env inp ls hc h)
  apply Tri.exists
  intro w
  apply Tri.split 0
  refine Tri.seq (Tri.while _ _ (cntBody_tri L B b w mbv nest items _ fuel hok)) (Tri.pre_norm ?_)
    (fun c env inp ls hc h => norm_of_ne _ _ c env inp ls hc h)
  apply Tri.split 3
  refine Tri.seq (mainB_tri L B b w mbv nest items _ fuel hok) (Tri.pre_norm ?_)
    (fun c env inp ls hc h => norm_of_ne _ _ c env inp ls hc h)
  show Tri _ _ (.seq (.loop enqBody) (.seq unlockSt (.seq (.loop waitBody) putSt))) _ _
  refine Tri.seq (Tri.while _ _ (enqBody_tri L B b w mbv nest items _ fuel hok)) (Tri.pre_norm ?_)
    (fun c env inp ls hc h => norm_of_ne _ _ c env inp ls hc h)
  refine Tri.seq (unlock_tri L B b w mbv nest items _ fuel) (Tri.pre_norm ?_)
    (fun c env inp ls hc h => norm_of_ne _ _ c env inp ls hc h)
  refine Tri.seq (Tri.while _ _ (waitBody_tri L B b w mbv nest items _ fuel)) (Tri.pre_norm ?_)
    (fun c env inp ls hc h => norm_of_ne _ _ c env inp ls hc h)
  exact (put_tri L B b w mbv nest items fuel).conseq (fun _ _ _ h => h)
    (fun c env inp ls h => by cases c <;> simp_all [norm]; exact ⟨w, h⟩)

/-- **`rcu_barrier()`, the whole function** -/
theorem rcu_barrier_tri (L : Layout) (B : Loc) (b nest : Nat) (items : List Item) (mbv : Int) (fuel : Nat)
    (hok : ItemsOk L B items) :
    Tri (RT L B b) fuel «rcu_barrier» (BarPre0 B nest items mbv) (norm (BarFin B nest items)) := by
  apply Tri.split 6
  refine Tri.seq (barPre_tri L B b nest items mbv fuel) (Tri.pre_norm ?_)
    (fun c env inp ls hc h => norm_of_ne _ _ c env inp ls hc h)
  show Tri _ _ (.seq (.ifte (.var "_goto_online") .skip barMain) barPost) _ _
  refine Tri.seq (M := norm (BarFin0 B nest items))
    (Tri.ifte
      (PA := fun env inp ls => ∃ w : Int, env.vars "was_online" = some (.int w) ∧ 0 < nest ∧
        ls = ⟨.fin, w != 0, ⟨.idle, nest⟩, [], []⟩)
      (PB := fun env inp ls => env.priv (.glob "CONFIG_RCU_EMIT_LEGACY_MB") = some (.int mbv) ∧
        ∃ w : Int, env.vars "was_online" = some (.int w) ∧ env.vars "count" = some (.int 0) ∧
          ls = ⟨.alloc, w != 0, ⟨.idle, nest⟩, [], []⟩ ∧ MainInp B items inp) ?_ ?_ ?_)
    (barPost_tri L B b nest items fuel) (fun c env inp ls hc h => norm_of_ne _ _ c env inp ls hc h)
  · intro env inp ls ⟨hcfg, hcnt, w, hw, hh⟩
    rcases hh with ⟨hn, hg, hls⟩ | ⟨hn, hg, hls, hi⟩
    · exact ⟨.int 1, by simp [eval, hg], by simp [Val.truthy]; exact ⟨w, hw, hn, hls⟩⟩
    · exact ⟨.int 0, by simp [eval, hg], by simp [Val.truthy]; exact ⟨hcfg, w, hw, hcnt, hls, hi⟩⟩
  · intro env inp ls ⟨w, hw, hn, hls⟩
    subst hls
    rw [exec_skip]
    refine ⟨_, rfl, _, (RT L B b).nil _, ?_⟩
    simp only [norm_normal]
    exact ⟨⟨w, hw, rfl⟩, rfl, rfl, rfl, fun h => absurd h (by omega)⟩
  · refine (barMain_tri L B b nest items mbv fuel hok).conseq (fun _ _ _ h => h) ?_
    intro c env inp ls h
    cases c <;> simp_all [norm]
    obtain ⟨w, hw, hbc, hls⟩ := h
    subst hls
    exact ⟨⟨w, hw, rfl⟩, rfl, rfl, rfl, fun _ => ⟨rfl, hbc⟩⟩

end UrcuVerif.Src.TailB
