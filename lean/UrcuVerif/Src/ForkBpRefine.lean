import UrcuVerif.Gen.Src
import UrcuVerif.Src.StackExec
import UrcuVerif.Src.ForkLocal
import UrcuVerif.Src.ForkExec
/-!
# Generated source IR of the urcu-bp fork handlers (`src/urcu-bp.c`) ⊑ thread-local projection of L2 (`Fork/Bp.lean`,
local automaton `ForkL.bstep`)

Abstraction of events (`absEvB`), `some .bad` = rejected, `none` = silent (there is none: every event of these functions
has a label):

* `sigfillset(&newmask)` ↦ `fill`; `pthread_sigmask(SIG_BLOCK, &newmask, &oldmask)` ↦ `sigBlock`;
  `pthread_sigmask(SIG_SETMASK, &oldmask, NULL)` ↦ `sigSet`;
* `mutex_lock/unlock(&rcu_gp_lock)` ↦ `lockGp` / `unlockGp`, `mutex_lock/unlock(&rcu_registry_lock)` ↦ `lockRg` / `unlockRg`;
* `cds_list_for_each_entry.first(&registry_arena.chunk_list)` ↦ `pruneFirst`; `.next` on the same list, `pthread_self()`,
  `cds_list_del(&reader->node)` ↦ `prune`.

**The signal masks.**  The IR does not model output parameters of external calls: the mask that
`pthread_sigmask(SIG_BLOCK, …, &oldmask)` hands back is the content of the private view at `&oldmask` (`Loc.glob "&oldmask"`),
given by hypothesis; the mask that `pthread_sigmask(SIG_SETMASK, &oldmask, NULL)` installs is the content of `&oldmask` when
that event is issued.  The theorems state: `before_fork` copies `&oldmask` to `saved_fork_signal_mask` (after both locks are
taken); `after_fork_parent` / the tail of `after_fork_child` copy `saved_fork_signal_mask` to `&oldmask` *before their first
event* and nothing writes it afterwards, so the `sigSet` event installs the saved mask: with L2's `bstep_masks` and
`Props.C16.mask_restored` this is "the mask at entry of `before_fork` is the mask after `after_fork_*`".
-/
set_option linter.unusedSimpArgs false
set_option linter.unusedVariables false
set_option maxRecDepth 8192
namespace UrcuVerif.Src.ForkB
open UrcuVerif UrcuVerif.Src UrcuVerif.Src.ForkL UrcuVerif.Src.ForkX

def oldmask : Loc := .glob "&oldmask"
def newmask : Loc := .glob "&newmask"
def savedMask : Loc := .glob "saved_fork_signal_mask"
def gpLock : Loc := .glob "rcu_gp_lock"
def rgLock : Loc := .glob "rcu_registry_lock"
def chunkList : Loc := .field (.glob "registry_arena") "chunk_list"

def absEvB : Event → Option BLabel
  | .ext name args r =>
    if name = "sigfillset" then (if args = [.ptr newmask] then some .fill else some .bad)
    else if name = "pthread_sigmask" then
      (if args = [.int 0, .ptr newmask, .ptr oldmask] then some .sigBlock
       else if args = [.int 2, .ptr oldmask, .int 0] then some .sigSet
       else some .bad)
    else if name = "mutex_lock" then
      (if args = [.ptr gpLock] then some .lockGp else if args = [.ptr rgLock] then some .lockRg else some .bad)
    else if name = "mutex_unlock" then
      (if args = [.ptr gpLock] then some .unlockGp else if args = [.ptr rgLock] then some .unlockRg else some .bad)
    else if name = "cds_list_for_each_entry.first" then (if args = [.ptr chunkList] then some .pruneFirst else some .bad)
    else if name = "cds_list_for_each_entry.next" then
      (match args with
        | [a, _] => if a = .ptr chunkList then some .prune else some .bad
        | _ => some .bad)
    else if name = "pthread_self" then some .prune
    else if name = "cds_list_del" then
      (match args with
        | [.ptr (.field _ f)] => if f = "node" then some .prune else some .bad
        | _ => some .bad)
    else some .bad
  | _ => some .bad

def blr (pc : BPc) (evs : List Event) : Option BPc := brun pc (evs.filterMap absEvB)

theorem blr_nil (pc : BPc) : blr pc [] = some pc := rfl
theorem blr_append (pc : BPc) (a b : List Event) : blr pc (a ++ b) = (blr pc a).bind (fun m => blr m b) := by
  simp [blr, List.filterMap_append, brun_append]

def RB : Replay BPc := ⟨blr, blr_nil, blr_append⟩

/-! ## `urcu_bp_before_fork()` -/

/-- from L2's `idle`, every oracle (all four results are ignored by the source): the events are `fill ; sigBlock ; lockGp ;
lockRg` (L2: `bfCall ; bfGp ; bfRg`); a completed call is at `atFork` and has copied the mask handed back in `&oldmask` to
`saved_fork_signal_mask` – after the last event, i.e. with both locks held; a prefix has not written it -/
def BfPost (m : Val) (priv : Loc → Option Val) (out : Out) : Prop :=
  ∃ pc', blr (.at .idle) out.events = some pc' ∧ out.env.priv oldmask = some m ∧
    ((out.ctl = .blocked ∧ out.env.priv savedMask = priv savedMask ∧
        (pc' = .at .idle ∨ pc' = .bfFill ∨ pc' = .at .bf1 ∨ pc' = .at .bf2)) ∨
     (out.ctl = .normal ∧ pc' = .at .atFork ∧ out.env.priv savedMask = some m ∧ out.events.length = 4))

theorem bp_before_fork_exec (fuel : Nat) (env : Env) (inp : List Val) (m : Val) (hm : env.priv oldmask = some m) :
    ∃ out, exec fuel Gen.Src.«bp.urcu_bp_before_fork» env inp = .ok out ∧ BfPost m env.priv out := by
  simp only [oldmask] at hm
  cases inp with
  | nil => fexec [Gen.Src.«bp.urcu_bp_before_fork», BfPost, blr, brun, oldmask, savedMask]
  | cons a inp =>
    cases inp with
    | nil =>
      fexec [Gen.Src.«bp.urcu_bp_before_fork», BfPost, blr, brun, oldmask, savedMask, absEvB, bstep, newmask]
    | cons b inp =>
      cases inp with
      | nil =>
        fexec [Gen.Src.«bp.urcu_bp_before_fork», BfPost, blr, brun, oldmask, savedMask, absEvB, bstep, newmask]
      | cons c inp =>
        cases inp with
        | nil =>
          fexec [Gen.Src.«bp.urcu_bp_before_fork», BfPost, blr, brun, oldmask, savedMask, absEvB, bstep, newmask,
            gpLock, rgLock]
        | cons d inp =>
          fexec [Gen.Src.«bp.urcu_bp_before_fork», BfPost, blr, brun, oldmask, savedMask, absEvB, bstep, newmask,
            gpLock, rgLock]

/-! ## `urcu_bp_after_fork_parent()` and the tail of `urcu_bp_after_fork_child()` -/

/-- `&oldmask` holds the saved mask **in every prefix** (it is written before the first event and never again), the events
are `unlockRg ; unlockGp ; sigSet` from `p1` (L2: `apRg ; apGp` resp. `acRg ; acGp`, the restore being folded into the
second), a completed call is back at `idle` -/
def AfPost (p1 p2 p3 : BPc) (m : Val) (out : Out) : Prop :=
  ∃ pc', blr p1 out.events = some pc' ∧ out.env.priv oldmask = some m ∧
    ((out.ctl = .blocked ∧ (pc' = p1 ∨ pc' = p2 ∨ pc' = p3)) ∨
     (out.ctl = .normal ∧ pc' = .at .idle ∧
       out.events.getLast? = some (.ext "pthread_sigmask" [.int 2, .ptr oldmask, .int 0] (out.env.vars "ret").get!)))

theorem bp_after_fork_parent_exec (fuel : Nat) (env : Env) (inp : List Val) (m : Val)
    (hm : env.priv savedMask = some m) :
    ∃ out, exec fuel Gen.Src.«bp.urcu_bp_after_fork_parent» env inp = .ok out ∧
      AfPost (.at .ap1) (.at .ap2) .apSig m out := by
  simp only [savedMask] at hm
  cases inp with
  | nil => fexec [Gen.Src.«bp.urcu_bp_after_fork_parent», AfPost, blr, brun, oldmask, savedMask]
  | cons a inp =>
    cases inp with
    | nil =>
      fexec [Gen.Src.«bp.urcu_bp_after_fork_parent», AfPost, blr, brun, oldmask, savedMask, absEvB, bstep, gpLock, rgLock]
    | cons b inp =>
      cases inp with
      | nil =>
        fexec [Gen.Src.«bp.urcu_bp_after_fork_parent», AfPost, blr, brun, oldmask, savedMask, absEvB, bstep, gpLock,
          rgLock]
      | cons c inp =>
        fexec [Gen.Src.«bp.urcu_bp_after_fork_parent», AfPost, blr, brun, oldmask, savedMask, absEvB, bstep, gpLock,
          rgLock, newmask]

/-- `urcu_bp_after_fork_child` = `urcu_bp_prune_registry();` followed by `acTail` -/
def acTail : Stmt := (splitSeq 0 Gen.Src.«bp.urcu_bp_after_fork_child»).2

theorem after_fork_child_eq : Gen.Src.«bp.urcu_bp_after_fork_child» =
    .seq (.call none [] [] Gen.Src.«bp.urcu_bp_prune_registry») acTail := rfl

theorem bp_after_fork_child_tail_exec (fuel : Nat) (env : Env) (inp : List Val) (m : Val)
    (hm : env.priv savedMask = some m) :
    ∃ out, exec fuel acTail env inp = .ok out ∧ AfPost (.at .ac1) (.at .ac2) .acSig m out := by
  simp only [savedMask] at hm
  cases inp with
  | nil => fexec [acTail, Gen.Src.«bp.urcu_bp_after_fork_child», AfPost, blr, brun, oldmask, savedMask]
  | cons a inp =>
    cases inp with
    | nil =>
      fexec [acTail, Gen.Src.«bp.urcu_bp_after_fork_child», AfPost, blr, brun, oldmask, savedMask, absEvB, bstep, gpLock,
        rgLock]
    | cons b inp =>
      cases inp with
      | nil =>
        fexec [acTail, Gen.Src.«bp.urcu_bp_after_fork_child», AfPost, blr, brun, oldmask, savedMask, absEvB, bstep, gpLock,
          rgLock]
      | cons c inp =>
        fexec [acTail, Gen.Src.«bp.urcu_bp_after_fork_child», AfPost, blr, brun, oldmask, savedMask, absEvB, bstep, gpLock,
          rgLock, newmask]

end UrcuVerif.Src.ForkB
