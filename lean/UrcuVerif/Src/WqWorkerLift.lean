import UrcuVerif.Src.WqLocal
/-!
# The worker's local automaton `WqL.wstep` against the real L2 `Wq.step` (lift lemma)

`wL2 wid ls l` = the L2 label(s) the access `l` stands for at the local state `ls` (`wid` : `struct urcu_work` objects ↦
L2 work items).  Accesses inside the wfcqueue that L2 abstracts are stutter steps (`[]`): the first load of an emptiness
test that sees NULL, the loop of the splice before the exchange of the tail, every load of the traversal of the private
list.  `wObs` = the values observed are the stated functions of the global state **and the queue oracle discipline stated
against `Wq.State`**:

* an emptiness test answers "empty" iff `s.queue = []` (`ldTail true` in `cds_wfcq_empty` / splice, `ldHead v ≠ NULL`);
* the exchange of the public tail (`spliceX`) happens on a non-empty queue (`s.queue ≠ []`; L2 then sets `batch := queue`);
* **the traversal returns L2's batch**: the work whose function is called (`run c`, `c = &u->next`) is the head of
  `s.batch` (`wid u = some id`, `s.batch.head? = some id`), and the traversal has seen the end of the list
  (`nxt = NULL`) iff the rest of the batch is empty.

`WRel c s ls` relates the L2 state and the local state: `s.wpc = ls.pc.abs`, `s.cnt = ls.cnt`, `ls.rt = c.rt` once read.

* `wproj_lift`      : every local step other than `run` whose observations agree with the global state is the enabled L2
  step(s) `wL2`, and `WRel` is preserved;
* `wproj_lift_run`  : the same for `run` of a **user** work (`s.cw id = none`, whose body makes no work-queue call on the
  worker's thread: `s.tpc 0 = idle` at its end): `wRunBegin id ; wRunEnd ; [wInvDone]`;
* `wproj_run_begin` / `wproj_run_end` : the two halves for an arbitrary work (user work that calls the work-queue API,
  or a completion work item, whose body is `_urcu_workqueue_wait_complete`: `cSub … cPut`): `wRunBegin id` is enabled and
  leads to `run` / `cSub`; from any later state back at `inv` with the count incremented (after `wRunEnd` / `cPut`) the
  `[wInvDone]` step re-establishes `WRel`.
-/
set_option linter.unusedSimpArgs false
set_option linter.unusedVariables false
namespace UrcuVerif.Src.WqL
open UrcuVerif UrcuVerif.Wq

def WRel (c : Cfg) (s : State) (ls : WLState) : Prop :=
  s.wpc = ls.pc.abs ∧ s.cnt = ls.cnt ∧ (ls.pc = .at .start ∨ ls.rt = c.rt)

/-- the work item of a node address `&u->next` -/
def nodeId (wid : Loc → Option Nat) : Loc → Option Nat
  | .field u _ => wid u
  | _ => none

def wL2 (wid : Loc → Option Nat) (ls : WLState) : WLabel → List Label
  | .ldFl f => (match ls.pc with
    | .at .start => [.wStart]
    | .at .top => [.wTop]
    | .at .paused => if bit f 4 = true then [] else [.wSeeResume]
    | .at .stopchk => [.wStopChk]
    | _ => [])
  | .decFutex => (match ls.pc with
    | .at .dec0 => [.wDec0]
    | .at .dec => [.wDec]
    | _ => [])
  | .setPaused => [.wPause]
  | .clrPaused => [.wUnpause]
  | .ldHead v => (match ls.pc with
    | .at .emptychk => if v = .int 0 then [] else [.wEmptyChk]
    | .at .rtchk => if v = .int 0 then [] else [.wRtChk]
    | _ => [])
  | .ldTail h => (match ls.pc with
    | .spl1 => if h = true then [.wSplice] else []
    | .spl2a => if h = true then [.wSplice] else []
    | .empty1 => [.wEmptyChk]
    | .rt1 => [.wRtChk]
    | _ => [])
  | .xchgHead _ => []
  | .spliceX => [.wSplice]
  | .ldNext _ _ => []
  | .ldTTail v => (match ls.pc with
    | .first1 => if v = .ptr tmpHead then [.wInvDone] else []
    | _ => [])
  | .run c => (match ls.pc, nodeId wid c with
    | .ready _ nxt, some id => [.wRunBegin id, .wRunEnd] ++ (if nxt = .int 0 then [.wInvDone] else [])
    | _, _ => [])
  | .subQlen _ => [.wSub]
  | .ldFutex _ => [.wWaitLd]
  | .waitSleep => [.wWaitFx .sleep, .wSpurious]
  | .waitEagain => [.wWaitFx .eagain]
  | .waitEintr => [.wWaitFx .eintr]
  | .stFutex => [.wExitSt]
  | .bad => []

/-- observed values = functions of the global state; the queue oracle discipline, stated against `Wq.State` -/
def wObs (c : Cfg) (s : State) (ls : WLState) : WLabel → Prop
  | .ldFl f => f = flagsWord c s
  | .ldFutex v => v = s.futex
  | .ldHead v => (ls.pc = .at .emptychk → v ≠ .int 0 → s.queue ≠ [])
  | .ldTail h => ((ls.pc = .spl1 ∨ ls.pc = .spl2a) → h = true → s.queue = []) ∧ (ls.pc = .empty1 → (h = true ↔ s.queue = []))
  | .spliceX => s.queue ≠ []
  | .ldTTail v => (ls.pc = .first1 → v = .ptr tmpHead → s.batch = [])
  | .waitSleep => s.futex = -1
  | .waitEagain => s.futex ≠ -1
  | _ => True

/-- **lift**: a local step (other than a work function call) whose observations agree with the global state is the
enabled L2 step(s) `wL2`, and the relation is preserved -/
theorem wproj_lift (c : Cfg) (wid : Loc → Option Nat) (s : State) (ls ls' : WLState) (l : WLabel)
    (hl : wstep ls l = some ls') (hrun : ∀ cb, l ≠ .run cb) (hrel : WRel c s ls) (ho : wObs c s ls l) :
    ∃ s', Wq.run c s (wL2 wid ls l) = some s' ∧ WRel c s' ls' := by
  have h1 := bit_rt c s
  have h2 := bit_stop c s
  have h4 := bit_pause c s
  obtain ⟨pc, cnt, rt⟩ := ls
  obtain ⟨hw, hc, hr⟩ := hrel
  cases pc with
  | «at» p =>
    cases p <;> cases l <;> simp only [wstep] at hl <;> (repeat' split at hl) <;>
      first
      | (simp at hl; done)
      | (exact absurd rfl (hrun _))
      | (simp only [Option.some.injEq] at hl; subst hl
         simp_all [wL2, Wq.run, step, WRel, WLPc.abs, wObs]
         try (split <;> simp_all [Wq.run, step]))
  | _ =>
    cases l <;> simp only [wstep] at hl <;> (repeat' split at hl) <;>
      first
      | (simp at hl; done)
      | (exact absurd rfl (hrun _))
      | (simp only [Option.some.injEq] at hl; subst hl
         simp_all [wL2, Wq.run, step, WRel, WLPc.abs, wObs]
         try (split <;> simp_all [Wq.run, step]))

/-- **lift of a work function call, user work**: at `ready cb nxt`, if the node is the head of L2's batch (the
discipline), the work is a user work whose body leaves the worker's thread `idle`, and the traversal saw the end of the
list only if the rest of the batch is empty, then `run cb` is `wRunBegin id ; wRunEnd ; [wInvDone]`; the work is logged
as started exactly once more -/
theorem wproj_lift_run (c : Cfg) (wid : Loc → Option Nat) (s : State) (ls ls' : WLState) (cb : Loc) (id : Nat)
    (hl : wstep ls (.run cb) = some ls') (hrel : WRel c s ls) (hid : nodeId wid cb = some id)
    (hb : s.batch.head? = some id) (hcw : s.cw id = none) (hidle : s.tpc 0 = .idle)
    (hend : ls.pc = .ready cb (.int 0) → s.batch.tail = []) :
    ∃ s', Wq.run c s (wL2 wid ls (.run cb)) = some s' ∧ WRel c s' ls' ∧
      s'.doneLog = s.doneLog ++ [id] ∧ s'.runN id = s.runN id + 1 ∧ s'.fin id = true := by
  obtain ⟨⟨nxt, hpc, hcase⟩, hcnt⟩ := wstep_run ls ls' cb hl
  obtain ⟨pc, cnt, rt⟩ := ls
  obtain ⟨pc', cnt', rt'⟩ := ls'
  obtain ⟨hw, hc, hr⟩ := hrel
  simp only at hpc hcnt hw hc hr hend
  subst hpc
  have hrt : rt' = rt := by
    simp only [wstep] at hl
    rw [if_pos True.intro] at hl
    split at hl
    · split at hl <;> simp at hl; exact hl.2.2.symm
    · simp at hl; exact hl.2.2.symm
  subst hrt
  simp only [WLPc.abs] at hw
  rcases hcase with ⟨rfl, hp'⟩ | ⟨c2, rfl, hp'⟩
  · simp only at hp'
    subst hp'
    have ht := hend rfl
    simp [wL2, hid, Wq.run, step, hw, hb, hcw, hidle, ht, WRel, WLPc.abs, hc, hcnt]
    rcases hr with h | h
    · simp at h
    · exact h
  · simp only at hp'
    subst hp'
    simp [wL2, hid, Wq.run, step, hw, hb, hcw, hidle, WRel, WLPc.abs, hc, hcnt]
    rcases hr with h | h
    · simp at h
    · exact h

/-- first half for an arbitrary work: `wRunBegin id` is enabled at `ready` when the node is the head of L2's batch; it
leads to `run` (user work) or `cSub` (completion work item), removes the work from the batch and logs it -/
theorem wproj_run_begin (c : Cfg) (wid : Loc → Option Nat) (s : State) (ls ls' : WLState) (cb : Loc) (id : Nat)
    (hl : wstep ls (.run cb) = some ls') (hrel : WRel c s ls) (hb : s.batch.head? = some id) :
    ∃ s1, step c s (.wRunBegin id) = some s1 ∧ s1.wpc = (if (s.cw id).isSome = true then .cSub else .run) ∧
      s1.cur = some id ∧ s1.batch = s.batch.tail ∧ s1.cnt = s.cnt ∧ s1.doneLog = s.doneLog ++ [id] ∧
      s1.runN id = s.runN id + 1 := by
  obtain ⟨⟨nxt, hpc, -⟩, -⟩ := wstep_run ls ls' cb hl
  obtain ⟨hw, -, -⟩ := hrel
  rw [hpc] at hw
  simp only [WLPc.abs] at hw
  simp [step, hw, hb]

/-- second half: from any state back at `inv` with the count incremented (i.e. after `wRunEnd` / `cPut`), the pending
`[wInvDone]` re-establishes the relation with the local successor of `run cb` -/
theorem wproj_run_end (c : Cfg) (s s2 : State) (ls ls' : WLState) (cb : Loc)
    (hl : wstep ls (.run cb) = some ls') (hrel : WRel c s ls) (h2 : s2.wpc = .inv) (hc2 : s2.cnt = s.cnt + 1)
    (hend : ls.pc = .ready cb (.int 0) → s2.batch = []) :
    ∃ s3, Wq.run c s2 (if ls.pc = .ready cb (.int 0) then [.wInvDone] else []) = some s3 ∧ WRel c s3 ls' := by
  obtain ⟨⟨nxt, hpc, hcase⟩, hcnt⟩ := wstep_run ls ls' cb hl
  obtain ⟨pc, cnt, rt⟩ := ls
  obtain ⟨pc', cnt', rt'⟩ := ls'
  obtain ⟨hw, hc, hr⟩ := hrel
  simp only at hpc hcnt hw hc hr hend
  subst hpc
  have hrt : rt' = rt := by
    simp only [wstep] at hl
    rw [if_pos True.intro] at hl
    split at hl
    · split at hl <;> simp at hl; exact hl.2.2.symm
    · simp at hl; exact hl.2.2.symm
  subst hrt
  have hr' : rt' = c.rt := by
    rcases hr with h | h
    · simp at h
    · exact h
  rcases hcase with ⟨rfl, hp'⟩ | ⟨c2, rfl, hp'⟩
  · simp only at hp'
    subst hp'
    have hb := hend rfl
    simp [Wq.run, step, h2, hb, WRel, WLPc.abs, hc2, hc, hcnt, hr']
  · simp only at hp'
    subst hp'
    simp [Wq.run, WRel, WLPc.abs, h2, hc2, hc, hcnt, hr']

end UrcuVerif.Src.WqL
