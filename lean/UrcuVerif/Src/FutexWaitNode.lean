import UrcuVerif.Src.FutexCallRcu
/-!
# wait nodes (`src/urcu-wait.h`): `urcu_adaptative_wake_up`, `urcu_adaptative_busy_wait`, `urcu_wait_add`

Against `Handshake/WaitNode.lean` (one leader / waiter pair per node), local automata `Wn.kstep` (leader) and `Wn.lstep`
(waiter) of `Src/FutexLocal.lean`.  The abstractions are state-dependent (`acceptS`): the same access
`uatomic_load(&wait->state)` is a different label in different phases.  The theorems are about every run of `exec` that
returns `.ok` (`exec` fails when a value loaded from the state word, on which the source computes `&`, is not a
non-negative integer, or when the result of FUTEX_WAKE is not an integer); contract `noAbort`: the run contains no
`abort()` (the `urcu_posix_assert`s hold) and no `urcu_die()` (FUTEX_WAKE does not fail, FUTEX_WAIT fails only with
EAGAIN / EINTR).

## leader: `urcu_adaptative_wake_up(wait)`, `absEvL`
* the load of `urcu_posix_assert(uatomic_load(&wait->state) == URCU_WAIT_WAITING)` (pc `l0`): silent – L2 has no label
  for it (it reads the node before the hand-over starts);
* `st state WAKEUP` (release) ↦ `lStore`; `ld state v` (pc `l1`) ↦ `lLoad (v & RUNNING ≠ 0)`, followed by the silent
  branch `lSkipWake` when RUNNING is set; `futex_noasync(&state, FUTEX_WAKE, 1, …)` ↦ `lWake`;
  `uatomic_or(&state, TEARDOWN)` (release) ↦ `lTeardown`;
* rejected: `abort`, `urcu_die`, any other access to the state word.

## waiter: `urcu_adaptative_busy_wait(wait)`, `absEvB`
* pc `spin` (both the spin phase and the futex loop): `ld state 0` ↦ `wSeeWaiting`, `ld state v ≠ 0` ↦ `wSeeWoken`;
  FUTEX_WAIT returned 0 ↦ `wSleep`, `woken`; `errno = EAGAIN` ↦ `wEagain`; `errno = EINTR`: silent (L2 has no label: the
  waiter is back at `spin`);
* `uatomic_or(&state, RUNNING)` ↦ `wOrRunning`;
* pc `waitTd` (both TEARDOWN phases): `ld state v` ↦ `wSeeTeardown` if `v & TEARDOWN`, else silent (L2 has no label for a
  look that does not see the bit);
* pc `returned`: the remaining loads of the text after TEARDOWN was seen (the first load of the `poll` loop, the load of
  the final `urcu_posix_assert`) are silent – the waiter still owns the node (it is on its stack) until the C function
  returns;
* silent: `cmm_smp_rmb()`, `caa_cpu_relax()`, `poll()`.
-/
set_option maxRecDepth 8192
set_option linter.unusedSimpArgs false
set_option linter.unusedVariables false
namespace UrcuVerif.Src.Futex
open UrcuVerif UrcuVerif.Src UrcuVerif.Gen.Src

theorem band_nat_two (n : Nat) : evalBin .band (.int n) (.int 2) = .ok (.int ((n &&& 2 : Nat) : Int)) := by
  simp [evalBin]
theorem band_nat_four (n : Nat) : evalBin .band (.int n) (.int 4) = .ok (.int ((n &&& 4 : Nat) : Int)) := by
  simp [evalBin]
theorem band_neg (n k : Int) (h : n < 0) : evalBin .band (.int n) (.int k) = .error "band of a negative operand" := by
  simp [evalBin]; omega

theorem band_ptr (p : Loc) (k : Val) :
    evalBin .band (.ptr p) k = .error "binary operator on these operand kinds: not in the subset" := by
  cases k <;> rfl
theorem lt_ptr (p : Loc) (k : Int) :
    evalBin .lt (.ptr p) (.int k) = .error "binary operator on these operand kinds: not in the subset" := rfl

/-- the run does not abort and does not die -/
def noAbort : Event → Bool
  | .ext name _ _ => !(name = "abort" || name = "urcu_die")
  | _ => true

/-! ## leader -/

def absEvL (F : Loc) (pc : WaitNode.LPc) : Event → Option (List Wn.KLabel)
  | .ld l v _ =>
    if l = F then
      match pc, v with
      | .l0, _ => some []
      | .l1, .int n => if 0 ≤ n then some (if n.toNat &&& 2 = 0 then [.lLoad false] else [.lLoad true, .lSkipWake]) else none
      | _, _ => none
    else some []
  | .st l v _ => if l = F then (if v = .int 1 then some [.lStore] else none) else some []
  | .rmw p l v _ _ => if l = F then (if p = .uor ∧ v = .int 4 then some [.lTeardown] else none) else some []
  | .ext name args _ =>
    if name = "futex_noasync" then (if args = wakeArgs F then some [.lWake] else none)
    else if name = "abort" then none
    else if name = "urcu_die" then none
    else some []
  | .fence _ => some []
  | e =>
    match Event.loc? e with
    | some l => if l = F then none else some []
    | none => some []

def LeaderPost (F : Loc) (env : Env) (out : Out) : Prop :=
  (∀ l, l ≠ F → out.env.priv l = env.priv l) ∧
  (out.ctl = .normal ∨ out.ctl = .blocked) ∧
  (out.events.all noAbort = true →
    ∃ pc', acceptS (absEvL F) Wn.kstep .l0 out.events = some pc' ∧ (out.ctl = .normal → pc' = .ldone))

open Lean.Parser.Tactic in
macro "wn_abs" "[" ts:simpLemma,* "]" : tactic =>
  `(tactic| simp [acceptS_nil, acceptS_cons, acceptS_append_eq, all_append_iff, absEvL, noAbort, runA, Wn.kstep, Wn.lstep,
      waitArgs, wakeArgs, Event.loc?, truthy_int, truthy_ptr, exitCtl, *, $ts,*])

set_option hygiene false in
macro "wk_leaf" : tactic => `(tactic| (
  intro out
  fx_exec [«urcu_adaptative_wake_up», LeaderPost, band_nat_two, band_neg, band_ptr, lt_ptr] <;>
  (try (intro hout; subst hout)) <;> wn_abs [] <;> (try (intros; simp_all; done))))

set_option hygiene false in
/-- the oracle after the assertion: second load of the state word, result of FUTEX_WAKE (`errno`, `urcu_die`), result of
the `or` -/
macro "wk_rest" : tactic => `(tactic| (
  cases r0 with
  | nil => wk_leaf
  | cons v r1 =>
    cases v with
    | ptr p => wk_leaf
    | int n =>
      by_cases hn : n < 0
      · wk_leaf
      · obtain ⟨m, rfl⟩ : ∃ m : Nat, n = m := ⟨n.toNat, by omega⟩
        by_cases hm : m &&& 2 = 0
        · cases r1 with
          | nil => wk_leaf
          | cons r r2 =>
            cases r with
            | ptr p => wk_leaf
            | int k =>
              by_cases hk : k < 0
              · cases r2 with
                | nil => wk_leaf
                | cons e r3 =>
                  cases r3 with
                  | nil => wk_leaf
                  | cons d r4 =>
                    cases r4 with
                    | nil => wk_leaf
                    | cons u r5 => wk_leaf
              · cases r2 with
                | nil => wk_leaf
                | cons u r3 => wk_leaf
        · cases r1 with
          | nil => wk_leaf
          | cons u r2 => wk_leaf))

theorem src_adaptative_wake_up (fuel : Nat) (env : Env) (inp : List Val) (W : Loc)
    (hw : env.vars "wait" = some (.ptr W)) :
    ∀ out, exec fuel «urcu_adaptative_wake_up» env inp = .ok out → LeaderPost (.field W "state") env out := by
  cases inp with
  | nil => wk_leaf
  | cons a r0 =>
    by_cases ha : a = .int 0
    · subst ha; wk_rest
    · cases r0 with
      | nil => wk_leaf
      | cons x r0 => wk_rest

/-! ## waiter -/

def absEvB (F : Loc) (pc : WaitNode.WPc) : Event → Option (List Wn.WLabel)
  | .ld l v _ =>
    if l = F then
      match pc, v with
      | .spin, .int n => some (if n = 0 then [.wSeeWaiting] else [.wSeeWoken])
      | .waitTd, .int n => if 0 ≤ n then some (if n.toNat &&& 4 = 0 then [] else [.wSeeTeardown]) else none
      | .returned, _ => some []
      | _, _ => none
    else some []
  | .rmw p l v _ _ => if l = F then (if p = .uor ∧ v = .int 2 then some [.wOrRunning] else none) else some []
  | .ext name args r =>
    if name = "futex_noasync" then
      (if args = waitArgs F 0 then some (if r.truthy then [] else [.wSleep, .woken]) else none)
    else if name = "errno" then (if r = .int 11 then some [.wEagain] else if r = .int 4 then some [] else none)
    else if name = "abort" then none
    else if name = "urcu_die" then none
    else some []
  | .fence _ => some []
  | e =>
    match Event.loc? e with
    | some l => if l = F then none else some []
    | none => some []

/-- contract of the waiter: no `abort`, no `urcu_die`, `errno ∈ {EAGAIN, EINTR}`, the state word holds an integer -/
def okB (F : Loc) (e : Event) : Bool := noAbort e && evOk F e

/-- the statements of a block from the `k`-th on -/
def Stmt.drop : Nat → Stmt → Stmt
  | 0, s => s
  | n+1, .seq _ b => Stmt.drop n b
  | _+1, s => s
def Stmt.hd : Stmt → Stmt
  | .seq a _ => a
  | s => s

/-- what a suffix of `urcu_adaptative_busy_wait` guarantees when started with the waiter's local pc `s` -/
def BwPost (F : Loc) (env : Env) (s : WaitNode.WPc) (out : Out) : Prop :=
  out.env.priv = env.priv ∧
  (out.ctl = .normal ∨ out.ctl = .blocked ∨ out.ctl = .fuel) ∧
  (out.events.all (okB F) = true →
    ∃ s', acceptS (absEvB F) Wn.lstep s out.events = some s' ∧ (out.ctl = .normal → s' = .returned))

open Lean.Parser.Tactic in
macro "bw_abs" "[" ts:simpLemma,* "]" : tactic =>
  `(tactic| simp [acceptS_nil, acceptS_cons, acceptS_append_eq, all_append_iff, absEvB, okB, noAbort, evOk, runA, Wn.lstep,
      waitArgs, Event.loc?, truthy_int, truthy_ptr, exitCtl, *, $ts,*])

theorem evalBin_add' (a b : Int) : evalBin .add (.int a) (.int b) = .ok (.int (a + b)) := rfl

open Lean.Parser.Tactic in
set_option hygiene false in
macro "bw_leaf" "[" ts:simpLemma,* "]" : tactic => `(tactic| (
  fx_exec [band_nat_two, band_nat_four, band_neg, band_ptr, evalBin_add', $ts,*] <;>
  (try (intro hout; subst hout)) <;> bw_abs [] <;> (try (intros; simp_all; done))))

set_option hygiene false in
/-- case analysis on a loaded state word on which the source computes `&` (oracle `inp1`): nothing / pointer / negative
(`leaf`: blocked or `exec` fails) / natural number `m`, rest of the oracle `r1` (`cont`) -/
macro "ld_cases" "(" leaf:tacticSeq ")" "(" cont:tacticSeq ")" : tactic => `(tactic| (
  cases inp1 with
  | nil => ($leaf)
  | cons v r1 =>
    cases v with
    | ptr p => ($leaf)
    | int n =>
      by_cases hn : n < 0
      · ($leaf)
      · obtain ⟨m, rfl⟩ : ∃ m : Nat, n = m := ⟨n.toNat, by omega⟩
        ($cont)))

set_option hygiene false in
/-- a leaf after a loop whose events `evs` are accepted from the start pc (`h`): execute the rest, conclude `BwPost` -/
macro "bw_after" h:ident : tactic => `(tactic| (
  fx_exec [band_nat_two, band_nat_four, band_neg, band_ptr, evalBin_add', Stmt.drop]
  try (
    intro hout
    subst hout
    refine ⟨by simp_all, by simp, fun hok => ?_⟩
    simp only [all_append_iff, List.all_cons, List.all_nil, Bool.and_eq_true] at hok
    first
    | (simp [okB, noAbort, evOk] at hok; done)
    | (obtain ⟨s', ha, hr⟩ := $h (by simp_all)
       refine ⟨s', ?_, ?_⟩ <;> bw_abs [ha]))))

/-- `T4` = the `poll` loop and the final assertion -/
def bwT4 : Stmt := Stmt.drop 9 «urcu_adaptative_busy_wait»

theorem bw_T4 (fuel : Nat) (env : Env) (inp : List Val) (W : Loc) (hw : env.vars "wait" = some (.ptr W))
    (s : WaitNode.WPc) (hs : s = .waitTd ∨ s = .returned) :
    ∀ out, exec fuel bwT4 env inp = .ok out → BwPost (.field W "state") env s out := by
  have hsplit : bwT4 = .seq (Stmt.hd bwT4) (Stmt.drop 10 «urcu_adaptative_busy_wait») := rfl
  have h10 : Stmt.drop 10 «urcu_adaptative_busy_wait» = Stmt.seq _ _ := rfl
  intro out
  rw [hsplit, exec.eq_2, h10]
  clear hsplit h10
  generalize hL : exec fuel (Stmt.hd bwT4) _ _ = X
  cases X with
  | error e => simp [bind, Except.bind]
  | ok o =>
    obtain ⟨hC, h3⟩ := loop_pc (acceptS (absEvB (.field W "state")) Wn.lstep) (acceptS_nil _ _)
      (acceptS_append _ _) (okB (.field W "state"))
      (fun e => e.priv = env.priv ∧ e.vars "wait" = some (.ptr W)) (fun e => e.priv = env.priv ∧ e.vars "wait" = some (.ptr W))
      (fun c => c = .normal ∨ c = .brk ∨ c = .blocked)
      (fun _ s => s = .waitTd ∨ s = .returned) (fun c _ s => c = .blocked ∨ (c = .brk ∧ s = .returned)) hL
      (by
        intro env1 inp1 o1 hE1
        obtain ⟨hp1, hw1⟩ := hE1
        ld_cases (bw_leaf []) (
          by_cases hm : m &&& 4 = 0
          · cases r1 with
            | nil => bw_leaf []
            | cons p r2 => bw_leaf []
          · bw_leaf [])) ⟨rfl, hw⟩ o rfl
    obtain ⟨evs, e2, inp1, ctl⟩ := o
    simp only at hC h3
    have hctl : ctl = .fuel ∨ ctl = .blocked ∨ ctl = .normal := by
      rcases hC with ⟨h, -⟩ | ⟨c, hc, hn, he, -⟩
      · exact .inl h
      · rcases hc with rfl | rfl | rfl <;> simp_all [exitCtl]
    have hE : e2.priv = env.priv ∧ e2.vars "wait" = some (.ptr W) := by
      rcases hC with ⟨-, h⟩ | ⟨c, -, -, -, h⟩ <;> exact h
    have h3' : evs.all (okB (.field W "state")) = true →
        ∃ s', acceptS (absEvB (.field W "state")) Wn.lstep s evs = some s' ∧ (ctl = .normal → s' = .returned) := by
      intro hok
      obtain ⟨s', ha, hp⟩ := h3 s hs hok
      refine ⟨s', ha, ?_⟩
      intro hn
      rcases hp with ⟨hf, -⟩ | ⟨c, hc1, hc2, hc3⟩
      · simp_all
      · rcases hc2 with rfl | ⟨rfl, rfl⟩ <;> simp_all [exitCtl]
    clear hC h3 hL
    obtain ⟨hp2, hw2⟩ := hE
    rcases hctl with rfl | rfl | rfl
    · bw_after h3'
    · bw_after h3'
    · ld_cases (bw_after h3') (
        by_cases hm : m &&& 4 = 0
        · cases r1 with
          | nil => bw_after h3'
          | cons x r2 => bw_after h3'
        · bw_after h3')

/-- sequencing: a loop whose events are accepted from `s0` to some `s'` with `Q s'`, followed by a suffix that satisfies
`BwPost` from every such `s'` -/
theorem bw_chain (F : Loc) (env e2 : Env) (evs : List Event) (o2 : Out) (s0 : WaitNode.WPc) (Q : WaitNode.WPc → Prop)
    (hp : e2.priv = env.priv) (hQ : ∃ s', Q s')
    (h3 : evs.all (okB F) = true → ∃ s', acceptS (absEvB F) Wn.lstep s0 evs = some s' ∧ Q s')
    (hT : ∀ s', Q s' → BwPost F e2 s' o2) :
    BwPost F env s0 { o2 with events := evs ++ o2.events } := by
  obtain ⟨sq, hsq⟩ := hQ
  have h0 := hT sq hsq
  refine ⟨h0.1.trans hp, h0.2.1, fun hok => ?_⟩
  simp only [all_append_iff] at hok
  obtain ⟨s', ha, hq⟩ := h3 hok.1
  obtain ⟨s'', hb, hr⟩ := (hT s' hq).2.2 hok.2
  exact ⟨s'', by simp only [acceptS_append_eq, ha]; exact hb, hr⟩

/-- a loop that ended `fuel` or `blocked`: the function ends there -/
theorem bw_stop (F : Loc) (env e2 : Env) (evs : List Event) (i2 : List Val) (c : Ctl) (s0 : WaitNode.WPc)
    (hp : e2.priv = env.priv) (hc : c = .fuel ∨ c = .blocked)
    (h3 : evs.all (okB F) = true → ∃ s', acceptS (absEvB F) Wn.lstep s0 evs = some s') :
    BwPost F env s0 { events := evs, env := e2, inp := i2, ctl := c } := by
  refine ⟨hp, by rcases hc with rfl | rfl <;> simp, fun hok => ?_⟩
  obtain ⟨s', ha⟩ := h3 hok
  exact ⟨s', ha, by rcases hc with rfl | rfl <;> simp⟩

/-- the ways an iteration of a loop of `urcu_adaptative_busy_wait` ends -/
def BwCtl (c : Ctl) : Prop := c = .normal ∨ c = .cont ∨ c = .brk ∨ c = .blocked

/-- `loop_pc` for the loops of `urcu_adaptative_busy_wait` that start at the local pc `s0`: the loop ends `fuel`,
`blocked` or (left by `break`) `normal`, then with `Q` of the final environment and pc -/
theorem bw_loop (F : Loc) (IE IX : Env → Prop) (s0 : WaitNode.WPc) (Q : Env → WaitNode.WPc → Prop)
    {fuel : Nat} {B : Stmt} {env : Env} {inp : List Val} {X : Except String Out}
    (hL : exec fuel (.loop B) env inp = X)
    (hbody : ∀ env inp o, IE env → exec fuel B env inp = .ok o →
      ((o.ctl = .normal ∨ o.ctl = .cont) → IE o.env) ∧ (¬ (o.ctl = .normal ∨ o.ctl = .cont) → IX o.env) ∧ BwCtl o.ctl ∧
      ∀ s, s = s0 → o.events.all (okB F) = true → ∃ s', acceptS (absEvB F) Wn.lstep s o.events = some s' ∧
        ((o.ctl = .normal ∨ o.ctl = .cont) → s' = s0) ∧
        (¬ (o.ctl = .normal ∨ o.ctl = .cont) → o.ctl = .blocked ∨ (o.ctl = .brk ∧ Q o.env s')))
    (hE : IE env) (out : Out) (hX : X = .ok out) :
    ((out.ctl = .fuel ∧ IE out.env) ∨ (out.ctl = .blocked ∧ IX out.env) ∨ (out.ctl = .normal ∧ IX out.env)) ∧
    (out.events.all (okB F) = true →
      ∃ s', acceptS (absEvB F) Wn.lstep s0 out.events = some s' ∧ (out.ctl = .normal → Q out.env s')) := by
  obtain ⟨hC, h3⟩ := loop_pc (acceptS (absEvB F) Wn.lstep) (acceptS_nil _ _) (acceptS_append _ _) (okB F) IE IX BwCtl
    (fun _ s => s = s0) (fun c e s => c = .blocked ∨ (c = .brk ∧ Q e s)) hL hbody hE out hX
  refine ⟨?_, fun hok => ?_⟩
  · rcases hC with ⟨h, h'⟩ | ⟨c, hc, hn, he, hx⟩
    · exact .inl ⟨h, h'⟩
    · unfold BwCtl at hc
      rcases hc with rfl | rfl | rfl | rfl <;> simp_all [exitCtl]
  · obtain ⟨s', ha, hp⟩ := h3 _ rfl hok
    refine ⟨s', ha, fun hn => ?_⟩
    rcases hp with ⟨hf, -⟩ | ⟨c, hc1, hc2, hc3⟩
    · rw [hn] at hf; cases hf
    · rcases hc2 with rfl | ⟨rfl, h⟩
      · rw [hn] at hc3; cases hc3
      · exact h

/-- `T3` = the spin phase of the TEARDOWN wait, then `T4` -/
def bwT3 : Stmt := Stmt.drop 8 «urcu_adaptative_busy_wait»

theorem bw_T3 (fuel : Nat) (env : Env) (inp : List Val) (W : Loc) (hw : env.vars "wait" = some (.ptr W))
    (k0 : Int) (hi : env.vars "i" = some (.int k0)) :
    ∀ out, exec fuel bwT3 env inp = .ok out → BwPost (.field W "state") env .waitTd out := by
  have hsplit : bwT3 = .seq (Stmt.hd bwT3) bwT4 := rfl
  intro out
  rw [hsplit, exec.eq_2]
  clear hsplit
  generalize hL : exec fuel (Stmt.hd bwT3) _ _ = X
  cases X with
  | error e => simp [bind, Except.bind]
  | ok o =>
    obtain ⟨hC, h3⟩ := bw_loop (.field W "state")
      (fun e => e.priv = env.priv ∧ e.vars "wait" = some (.ptr W) ∧ ∃ k : Int, e.vars "i" = some (.int k))
      (fun e => e.priv = env.priv ∧ e.vars "wait" = some (.ptr W))
      .waitTd (fun _ s => s = .waitTd ∨ s = .returned) hL
      (by
        intro env1 inp1 o1 hE1
        obtain ⟨hp1, hw1, k, hi1⟩ := hE1
        by_cases hk : k < 1000
        · ld_cases (bw_leaf [BwCtl]) (
            by_cases hm : m &&& 4 = 0
            · bw_leaf [BwCtl]
            · bw_leaf [BwCtl])
        · bw_leaf [BwCtl]) ⟨rfl, hw, k0, hi⟩ o rfl
    obtain ⟨evs, e2, inp1, ctl⟩ := o
    simp only at hC h3
    simp only [bind, Except.bind]
    rcases hC with ⟨rfl, hp2, -⟩ | ⟨rfl, hp2, -⟩ | ⟨rfl, hp2, hw2⟩
    · intro h; cases h
      exact bw_stop _ _ _ _ _ _ _ hp2 (.inl rfl) (fun hok => (h3 hok).imp (fun _ h => h.1))
    · intro h; cases h
      exact bw_stop _ _ _ _ _ _ _ hp2 (.inr rfl) (fun hok => (h3 hok).imp (fun _ h => h.1))
    · cases hx : exec fuel bwT4 e2 inp1 with
      | error e => simp
      | ok o2 =>
        simp only [Except.ok.injEq]
        intro h; subst h
        exact bw_chain _ env e2 evs o2 .waitTd (fun s => s = .waitTd ∨ s = .returned) hp2 ⟨_, .inl rfl⟩
          (fun hok => by obtain ⟨s', ha, hq⟩ := h3 hok; exact ⟨s', ha, hq rfl⟩)
          (fun s' hs' => bw_T4 fuel e2 inp1 W hw2 s' hs' o2 hx)

/-- `T2b` = `uatomic_or(&wait->state, URCU_WAIT_RUNNING)`, then `T3` -/
def bwT2b : Stmt := Stmt.drop 5 «urcu_adaptative_busy_wait»

theorem bw_T2b (fuel : Nat) (env : Env) (inp : List Val) (W : Loc) (hw : env.vars "wait" = some (.ptr W)) :
    ∀ out, exec fuel bwT2b env inp = .ok out → BwPost (.field W "state") env .orRun out := by
  have hsplit : bwT2b = .seq _ (.seq _ (.seq _ bwT3)) := rfl
  rw [hsplit]
  clear hsplit
  cases inp with
  | nil => intro out; fx_exec [BwPost] <;> (try (intro hout; subst hout)) <;> bw_abs []
  | cons u r =>
    intro out
    fx_exec []
    generalize hX : exec fuel bwT3 _ _ = X
    cases X with
    | error e => simp
    | ok o3 =>
      simp only [Except.ok.injEq]
      intro h; subst h
      refine bw_chain _ env _ [_] o3 .orRun (fun s => s = .waitTd) ?_ ⟨_, rfl⟩ ?_
        (fun s' hs' => by subst hs'; exact bw_T3 fuel _ r W (by simp [hw]) 0 (by simp) o3 hX)
      · rfl
      · intro _; bw_abs []

/-- `T2` = the futex loop (skipped when the spin phase saw the wake-up), then `T2b` -/
def bwT2 : Stmt := Stmt.drop 4 «urcu_adaptative_busy_wait»

theorem bw_T2 (fuel : Nat) (env : Env) (inp : List Val) (W : Loc) (hw : env.vars "wait" = some (.ptr W))
    (s : WaitNode.WPc)
    (hf : (env.vars "_goto_skip_futex_wait" = some (.int 1) ∧ s = .orRun) ∨
          (env.vars "_goto_skip_futex_wait" = some (.int 0) ∧ s = .spin)) :
    ∀ out, exec fuel bwT2 env inp = .ok out → BwPost (.field W "state") env s out := by
  have hsplit : bwT2 = .seq (.ifte _ .skip (.loop _)) bwT2b := rfl
  intro out
  rw [hsplit]
  clear hsplit
  rcases hf with ⟨hf, rfl⟩ | ⟨hf, rfl⟩
  · fx_exec []
    generalize hX : exec fuel bwT2b _ _ = X
    cases X with
    | error e => simp
    | ok o2 =>
      simp only [Except.ok.injEq]
      intro h; subst h
      exact bw_T2b fuel env inp W hw _ hX
  · fx_exec []
    generalize hL : exec fuel (Stmt.loop _) _ _ = X
    cases X with
    | error e => simp
    | ok o =>
      obtain ⟨hC, h3⟩ := bw_loop (.field W "state")
        (fun e => e.priv = env.priv ∧ e.vars "wait" = some (.ptr W))
        (fun e => e.priv = env.priv ∧ e.vars "wait" = some (.ptr W))
        .spin (fun _ s => s = .orRun) hL
        (by
          intro env1 inp1 o1 hE1
          obtain ⟨hp1, hw1⟩ := hE1
          wait_body_at 0 with bw_leaf [BwCtl]) ⟨rfl, hw⟩ o rfl
      obtain ⟨evs, e2, inp1, ctl⟩ := o
      simp only at hC h3
      rcases hC with ⟨rfl, hp2, -⟩ | ⟨rfl, hp2, -⟩ | ⟨rfl, hp2, hw2⟩
      · simp only [Except.ok.injEq]
        intro h; subst h
        exact bw_stop _ _ _ _ _ _ _ hp2 (.inl rfl) (fun hok => (h3 hok).imp (fun _ h => h.1))
      · simp only [Except.ok.injEq]
        intro h; subst h
        exact bw_stop _ _ _ _ _ _ _ hp2 (.inr rfl) (fun hok => (h3 hok).imp (fun _ h => h.1))
      · simp only []
        cases hx : exec fuel bwT2b e2 inp1 with
        | error e => simp
        | ok o2 =>
          simp only [Except.ok.injEq]
          intro h; subst h
          exact bw_chain _ env e2 evs o2 .spin (fun s => s = .orRun) hp2 ⟨_, rfl⟩
            (fun hok => by obtain ⟨s', ha, hq⟩ := h3 hok; exact ⟨s', ha, hq rfl⟩)
            (fun s' hs' => by subst hs'; exact bw_T2b fuel e2 inp1 W hw2 o2 hx)

/-- `T1` = the spin phase, then `T2` -/
def bwT1 : Stmt := Stmt.drop 3 «urcu_adaptative_busy_wait»

theorem bw_T1 (fuel : Nat) (env : Env) (inp : List Val) (W : Loc) (hw : env.vars "wait" = some (.ptr W))
    (hf : env.vars "_goto_skip_futex_wait" = some (.int 0)) (k0 : Int) (hi : env.vars "i" = some (.int k0)) :
    ∀ out, exec fuel bwT1 env inp = .ok out → BwPost (.field W "state") env .spin out := by
  have hsplit : bwT1 = .seq (Stmt.hd bwT1) bwT2 := rfl
  intro out
  rw [hsplit, exec.eq_2]
  clear hsplit
  generalize hL : exec fuel (Stmt.hd bwT1) _ _ = X
  cases X with
  | error e => simp [bind, Except.bind]
  | ok o =>
    obtain ⟨hC, h3⟩ := bw_loop (.field W "state")
      (fun e => e.priv = env.priv ∧ e.vars "wait" = some (.ptr W) ∧
        e.vars "_goto_skip_futex_wait" = some (.int 0) ∧ ∃ k : Int, e.vars "i" = some (.int k))
      (fun e => e.priv = env.priv ∧ e.vars "wait" = some (.ptr W) ∧
        (e.vars "_goto_skip_futex_wait" = some (.int 1) ∨ e.vars "_goto_skip_futex_wait" = some (.int 0)))
      .spin (fun e s => (e.vars "_goto_skip_futex_wait" = some (.int 1) ∧ s = .orRun) ∨
                        (e.vars "_goto_skip_futex_wait" = some (.int 0) ∧ s = .spin)) hL
      (by
        intro env1 inp1 o1 hE1
        obtain ⟨hp1, hw1, hf1, k, hi1⟩ := hE1
        by_cases hk : k < 1000
        · cases inp1 with
          | nil => bw_leaf [BwCtl]
          | cons v r1 =>
            by_cases hv : v = .int 0
            · subst hv; bw_leaf [BwCtl]
            · cases v with
              | int n => have hn : n ≠ 0 := fun h => hv (by rw [h]); bw_leaf [BwCtl]
              | ptr l => bw_leaf [BwCtl]
        · bw_leaf [BwCtl]) ⟨rfl, hw, hf, k0, hi⟩ o rfl
    obtain ⟨evs, e2, inp1, ctl⟩ := o
    simp only at hC h3
    simp only [bind, Except.bind]
    rcases hC with ⟨rfl, hp2, -⟩ | ⟨rfl, hp2, -⟩ | ⟨rfl, hp2, hw2, hf2⟩
    · intro h; cases h
      exact bw_stop _ _ _ _ _ _ _ hp2 (.inl rfl) (fun hok => (h3 hok).imp (fun _ h => h.1))
    · intro h; cases h
      exact bw_stop _ _ _ _ _ _ _ hp2 (.inr rfl) (fun hok => (h3 hok).imp (fun _ h => h.1))
    · cases hx : exec fuel bwT2 e2 inp1 with
      | error e => simp
      | ok o2 =>
        simp only [Except.ok.injEq]
        intro h; subst h
        exact bw_chain _ env e2 evs o2 .spin
          (fun s => (e2.vars "_goto_skip_futex_wait" = some (.int 1) ∧ s = .orRun) ∨
                    (e2.vars "_goto_skip_futex_wait" = some (.int 0) ∧ s = .spin)) hp2
          (by rcases hf2 with h | h
              · exact ⟨_, .inl ⟨h, rfl⟩⟩
              · exact ⟨_, .inr ⟨h, rfl⟩⟩)
          (fun hok => by obtain ⟨s', ha, hq⟩ := h3 hok; exact ⟨s', ha, hq rfl⟩)
          (fun s' hs' => bw_T2 fuel e2 inp1 W hw2 s' hs' o2 hx)

/-- `urcu_adaptative_busy_wait(wait)`, `wait = W`: every run that returns `.ok` leaves the private view unchanged, ends
`normal`, `blocked` (a prefix) or `fuel` (a loop budget ran out), and – under the contract `okB` – its events are a run of
the waiter of `Handshake/WaitNode.lean` from `spin`, at `returned` when the call completes -/
theorem src_adaptative_busy_wait (fuel : Nat) (env : Env) (inp : List Val) (W : Loc)
    (hw : env.vars "wait" = some (.ptr W)) :
    ∀ out, exec fuel «urcu_adaptative_busy_wait» env inp = .ok out → BwPost (.field W "state") env .spin out := by
  have hsplit : «urcu_adaptative_busy_wait» = .seq _ (.seq _ (.seq _ bwT1)) := rfl
  intro out
  rw [hsplit]
  clear hsplit
  fx_exec []
  generalize hX : exec fuel bwT1 _ _ = X
  cases X with
  | error e => simp
  | ok o1 =>
    simp only [Except.ok.injEq]
    intro h; subst h
    refine bw_chain _ env _ [_] o1 .spin (fun s => s = .spin) ?_ ⟨_, rfl⟩ ?_
      (fun s' hs' => by subst hs'; exact bw_T1 fuel _ inp W (by simp [hw]) (by simp) 0 (by simp) o1 hX)
    · rfl
    · intro _; bw_abs []

/-! ## `urcu_wait_add(queue, node)`

No label of `Handshake/WaitNode.lean` (the wait queue is a wfstack, model `Wfs/`): the function is
`return cds_wfs_push(&queue->stack, &node->node)` – its events are exactly those of `_cds_wfs_push` run with these two
arguments, and the result is forwarded. -/

/-- the environment in which the callee runs -/
def waitAddEnv (env : Env) (Q N : Loc) : Env :=
  { vars := bindParams ["u_stack", "node"] [.ptr (.field Q "stack"), .ptr (.field N "node")], priv := env.priv }

theorem src_wait_add (fuel : Nat) (env : Env) (inp : List Val) (Q N : Loc)
    (hq : env.vars "queue" = some (.ptr Q)) (hn : env.vars "node" = some (.ptr N)) (o : Out)
    (ho : exec fuel «_cds_wfs_push» (waitAddEnv env Q N) inp = .ok o) :
    (∀ v, o.ctl = .ret (some v) →
      ∃ out, exec fuel «urcu_wait_add» env inp = .ok out ∧ out.events = o.events ∧ out.inp = o.inp ∧
        out.ctl = .ret (some v) ∧ out.env.priv = o.env.priv) ∧
    (o.ctl = .blocked ∨ o.ctl = .fuel →
      ∃ out, exec fuel «urcu_wait_add» env inp = .ok out ∧ out.events = o.events ∧ out.inp = o.inp ∧
        out.ctl = o.ctl ∧ out.env.priv = o.env.priv) := by
  unfold waitAddEnv at ho
  refine ⟨fun v hv => ?_, fun hc => ?_⟩
  · simp [«urcu_wait_add», block, exec.eq_2, exec.eq_13, exec.eq_12, evalArgs, eval, asLoc, hq, hn, bind, Except.bind, ho, hv,
      setDst, Env.setVar]
  · rcases hc with hc | hc <;>
      simp [«urcu_wait_add», block, exec.eq_2, exec.eq_13, exec.eq_12, evalArgs, eval, asLoc, hq, hn, bind, Except.bind, ho, hc]

/-! ## `urcu_wake_all_waiters(waiters)`: one iteration of its loop

`for each node of the stack (cds_wfs_for_each_blocking_safe): if (!(load(node->state) & RUNNING)) urcu_adaptative_wake_up(node)`.
Proved here for ONE iteration with current node `N` (`_t1 = N`, the iteration variable of the translated loop): its events
are those of the call `_cds_wfs_next_blocking(N)` (stack traversal: the wfstack model's business, kept opaque: `oN`)
followed by a run of the LEADER of node `N`'s wait-node instance: the pre-check load of `N->state` (silent at `l0`, like
the assertion's load), then either nothing (RUNNING set: `continue`, the leader of that node never starts – this is how
the grace-period leader skips its own node) or the whole `urcu_adaptative_wake_up(N)` run, `l0 → ldone`.
That every queued node is visited exactly once is a property of the stack traversal, not stated here. -/

def Stmt.loopBody : Stmt → Stmt
  | .loop b => b
  | s => s

/-- the body of the loop, and the call `_cds_wfs_next_blocking(iter)` in it -/
def wakeAllBody : Stmt := Stmt.loopBody (Stmt.drop 2 «urcu_wake_all_waiters»)
def wakeAllNext : Stmt := Stmt.hd (Stmt.drop 2 wakeAllBody)

/-- a completed call leaves the caller's locals other than the destination unchanged -/
theorem call_vars (fuel : Nat) (d : String) (ps : List String) (args : List Expr) (body : Stmt) (env : Env)
    (inp : List Val) (o : Out) (h : exec fuel (.call (some d) ps args body) env inp = .ok o) (hn : o.ctl = .normal) :
    ∀ x, x ≠ d → o.env.vars x = env.vars x := by
  rw [exec.eq_13] at h
  simp only [bind, Except.bind] at h
  split at h
  · simp at h
  · split at h
    · simp at h
    · split at h
      · simp at h
      · rename_i o1 _
        split at h <;> (try (simp at h; done)) <;> (simp only [Except.ok.injEq] at h; subst h) <;> intro x hx <;>
          simp_all [setDst, Env.setVar]

/-- `oN` = the run of the call `_cds_wfs_next_blocking(N)`; `rest` = what follows it in the iteration -/
def WakeIterPost (N : Loc) (oN out : Out) : Prop :=
  ∃ rest, out.events = oN.events ++ rest ∧
    (rest.all noAbort = true →
      ∃ pc', acceptS (absEvL (.field N "state")) Wn.kstep .l0 rest = some pc' ∧
        (out.ctl = .normal → pc' = .ldone) ∧ (out.ctl = .cont → pc' = .l0))

set_option hygiene false in
macro "wa_leaf" : tactic => `(tactic| (
  fx_exec [band_nat_two, band_neg, band_ptr] <;>
  (try (intro hout; subst hout)) <;>
  (try (unfold WakeIterPost; first | refine ⟨_, rfl, ?_⟩ | refine ⟨[], by simp, ?_⟩)) <;> (try wn_abs []) <;>
  (try (intros; simp_all; done))))

theorem src_wake_all_iteration (fuel : Nat) (env : Env) (inp : List Val) (N : Loc)
    (h1 : env.vars "_t1" = some (.ptr N)) :
    ∀ out, exec fuel wakeAllBody env inp = .ok out →
      ∃ oN, exec fuel wakeAllNext (env.setVar "iter" (.ptr N)) inp = .ok oN ∧ WakeIterPost N oN out := by
  have hsplit : wakeAllBody = .seq _ (.seq _ (.seq wakeAllNext (Stmt.drop 3 wakeAllBody))) := rfl
  have hR : Stmt.drop 3 wakeAllBody = .seq _ (.seq _ (.seq _ (.seq _ (.seq _ _)))) := rfl
  intro out
  rw [hsplit]
  clear hsplit
  generalize hRR : Stmt.drop 3 wakeAllBody = R at hR
  clear hRR
  fx_exec0 [h1]
  generalize hN : exec fuel wakeAllNext _ _ = XN
  cases XN with
  | error e => intro h; cases h
  | ok oN =>
    intro hout
    refine ⟨oN, rfl, ?_⟩
    have hcall : wakeAllNext = .call (some "_t4") _ _ _ := rfl
    rw [hcall] at hN
    have hv := call_vars fuel _ _ _ _ _ _ oN hN
    clear hN hcall
    obtain ⟨evsN, eN, inp1, cN⟩ := oN
    simp only at hv hout ⊢
    by_cases hc : cN = .normal
    · subst hc
      have hIter : eN.vars "iter" = some (.ptr N) := by rw [hv rfl "iter" (by decide)]; simp
      clear hv
      subst hR
      revert hout
      cases h4 : eN.vars "_t4" with
      | none => fx_exec []
      | some nx =>
        ld_cases (wa_leaf) (
          by_cases hm : m &&& 2 = 0
          · fx_exec [band_nat_two]
            generalize hK : exec fuel «urcu_adaptative_wake_up» _ _ = XK
            cases XK with
            | error e => simp
            | ok oK =>
              have hP := src_adaptative_wake_up fuel _ r1 N (by simp [bindParams]) oK hK
              obtain ⟨-, hctl, hacc⟩ := hP
              rcases hctl with hk | hk <;> simp only [hk] <;> intro hout <;> cases hout <;> unfold WakeIterPost <;>
                refine ⟨_, rfl, ?_⟩ <;> intro hok <;>
                simp only [List.all_cons, Bool.and_eq_true] at hok <;>
                obtain ⟨pc', ha, hp⟩ := hacc hok.2 <;>
                refine ⟨pc', by wn_abs [ha], ?_, ?_⟩ <;> simp_all
          · wa_leaf)
    · clear hv
      revert hout
      cases cN <;> (try (exact absurd rfl hc)) <;> fx_exec0 [] <;> intro hout <;> subst hout <;>
        exact ⟨[], by simp, fun _ => ⟨.l0, rfl, by simp, by simp⟩⟩

end UrcuVerif.Src.Futex
