import UrcuVerif.Src.QueueRefine
import UrcuVerif.Src.QueueDeq
/-!
# `_cds_lfq_dequeue_rcu` ⊑ thread-local projection of `Lfq/Model.lean`  (continuation of `Src/QueueRefine.lean`, `LfqR`)

L2 folds into its `ldNext d` step the plain load `head->dummy` and, when the last real node is found, the whole
`make_dummy` (`malloc` + private initialisation); into `casHead` the plain load `head->dummy` and the `queue_call_rcu`
of a removed dummy.  The abstraction of a dequeue run is therefore a small *stateful* pass over the events (`absDeq`):
a load `head->next == NULL` on a non-dummy head is held back until the `malloc` result is known.
Dummy nodes are the locations `&obj->parent` (`make_dummy` returns `&dummy->parent`).
-/
set_option linter.unusedSimpArgs false
set_option linter.unusedVariables false
namespace UrcuVerif.Src.Queue.LfqR
open UrcuVerif.Src UrcuVerif.Lfq LfqL
variable (L : Layout)

/-- events an enqueue can emit (none of them is special for `absDeq`) -/
def EnqEv (e : Event) : Prop :=
  (∃ v mo, e = .ld (.field L.q "tail") v mo) ∨ (∃ p, e = .fence p) ∨
  (∃ l a b c m1 m2, e = .cas l a b c m1 m2 ∧ l ≠ .field L.q "head")

theorem typed_ptr {l : Loc} (h : Typed L (.ptr l)) : ∃ a, L.addr l = some a := h

theorem typed_cases {v : Val} (h : Typed L v) : v = .int 0 ∨ ∃ l a, v = .ptr l ∧ L.addr l = some a := by
  obtain ⟨x, hx⟩ := h
  cases v with
  | int n => left; unfold dec at hx; split at hx <;> simp_all
  | ptr l => right; exact ⟨l, x, rfl, hx⟩

/-- implication form of `enq_loop` for a uniformly typed oracle: a run that does not fail (the value loaded from
`q->tail` is dereferenced) follows the local automaton; it does not touch the private view -/
theorem enq_loop' (c : Cfg) (fuel : Nat) (nl : Loc) (n : Nat) (mbv : Int) (hn : L.addr nl = some n) (iters : Nat) :
    ∀ (env : Env) (inp : List Val) (acc : List Event) (ls : LState) (out : Out),
      env.vars "q" = some (.ptr L.q) → env.vars "node" = some (.ptr nl) →
      env.priv (.glob "CONFIG_RCU_EMIT_LEGACY_MB") = some (.int mbv) → (∀ v ∈ inp, Typed L v) →
      ls.pc = .eLd → ls.node = n →
      iterate (fun e i => exec fuel enqBody e i) iters env inp acc = .ok out →
      ∃ evs, out.events = acc ++ evs ∧ EnqPost L c ls out evs ∧ out.env.priv = env.priv ∧
        (∀ v ∈ out.inp, v ∈ inp) ∧ ∀ e ∈ evs, EnqEv L e := by
  induction iters with
  | zero =>
    intro env inp acc ls out h1 h2 hcfg hwt hpc hnode hok
    simp only [iterate, Except.ok.injEq] at hok
    subst hok
    exact ⟨[], by simp, ⟨ls, rfl, rfl, rfl, rfl, Or.inr (Or.inr ⟨rfl, hpc⟩)⟩, rfl, fun _ h => h, by simp⟩
  | succ iters ih =>
    intro env inp acc ls out h1 h2 hcfg hwt hpc hnode hok
    by_cases hhd : ∀ t, inp.head? = some t → ∃ tl, t = .ptr tl
    · obtain ⟨o, ho, hpriv, hsub, hcase⟩ := enqBody_exec L fuel env inp nl mbv h1 h2 hcfg hhd
      simp only [iterate, ho, bind, Except.bind] at hok
      have hne : ∀ l : Loc, (Loc.field l "next" = .field L.q "tail") = False := by intro l; simp
      have hmbE : ∀ e ∈ mbEv mbv, EnqEv L e := by
        intro e he; unfold mbEv at he; split at he <;> simp at he; exact Or.inr (Or.inl ⟨_, he⟩)
      have hldE : ∀ v, EnqEv L (.ld (.field L.q "tail") v 1) := fun v => Or.inl ⟨_, _, rfl⟩
      have hc1E : ∀ (tl : Loc) a b' c', EnqEv L (.cas (.field tl "next") a b' c' 5 5) :=
        fun tl a b' c' => Or.inr (Or.inr ⟨_, _, _, _, _, _, rfl, by simp⟩)
      have hc2E : ∀ a b' c', EnqEv L (.cas (.field L.q "tail") a b' c' 5 5) :=
        fun a b' c' => Or.inr (Or.inr ⟨_, _, _, _, _, _, rfl, by simp⟩)
      rcases hcase with ⟨rfl, hev, hctl⟩ | ⟨tl, rfl, hev, hctl⟩ | ⟨tl, nv, rfl, hctl, hev⟩ |
        ⟨tl, a, rest, rfl, hctl, hinp, hev⟩ | ⟨tl, nv, a, rest, rfl, hnv, hctl, hinp, h1', h2', hev⟩
      · simp only [hctl, Except.ok.injEq] at hok; subst hok
        exact ⟨o.events, rfl, ⟨ls, by simp [hev, lrun], rfl, rfl, rfl, Or.inr (Or.inl ⟨rfl, Or.inl hpc⟩)⟩, hpriv,
          hsub, by simp [hev]⟩
      · simp only [hctl, Except.ok.injEq] at hok; subst hok
        obtain ⟨ta, hta⟩ := typed_ptr L (hwt (.ptr tl) (by simp))
        refine ⟨o.events, rfl, ⟨{ ls with tl := ta, pc := .eCas }, ?_, rfl, rfl, rfl,
          Or.inr (Or.inl ⟨rfl, Or.inr (Or.inl rfl)⟩)⟩, hpriv, hsub, ?_⟩
        · skip
          rw [hev, List.filterMap_cons]
          have := filterMap_mbEv L mbv []
          simp only [List.append_nil] at this
          simp [this, absEv, dec_ptr, hta, lrun, lstep, hpc]
        · intro e he; rw [hev] at he; simp at he; rcases he with rfl | he
          · exact hldE _
          · exact hmbE e he
      · simp only [hctl, Except.ok.injEq] at hok; subst hok
        obtain ⟨ta, hta⟩ := typed_ptr L (hwt (.ptr tl) (by simp))
        obtain ⟨nx, hnx⟩ := hwt nv (by simp)
        have hE : ∀ e ∈ o.events, EnqEv L e := by
          intro e he; rw [hev] at he; simp at he; rcases he with rfl | he | rfl
          · exact hldE _
          · exact hmbE e he
          · exact hc1E _ _ _ _
        by_cases h0 : nx = 0
        · refine ⟨o.events, rfl, ⟨{ ls with tl := ta, pc := .eAdv }, ?_, rfl, rfl, rfl,
            Or.inr (Or.inl ⟨rfl, Or.inr (Or.inr (Or.inl rfl))⟩)⟩, hpriv, hsub, hE⟩
          rw [hev, List.filterMap_cons, filterMap_mbEv]
          simp [absEv, dec_ptr, dec_int0, hta, hn, lrun, lstep, hpc, hne, hnx, h0, hnode, List.filterMap_cons]
        · refine ⟨o.events, rfl, ⟨{ ls with tl := ta, nx := nx, pc := .eHelp }, ?_, rfl, rfl, rfl,
            Or.inr (Or.inl ⟨rfl, Or.inr (Or.inr (Or.inr rfl))⟩)⟩, hpriv, hsub, hE⟩
          rw [hev, List.filterMap_cons, filterMap_mbEv]
          simp [absEv, dec_ptr, dec_int0, hta, hn, lrun, lstep, hpc, hne, hnx, h0, hnode, List.filterMap_cons]
      · simp only [hctl, Except.ok.injEq] at hok; subst hok
        obtain ⟨ta, hta⟩ := typed_ptr L (hwt (.ptr tl) (by simp))
        obtain ⟨ax, hax⟩ := hwt a (by simp)
        refine ⟨o.events, rfl, ⟨{ ls with tl := ta, pc := if ls.inDeq then .dLdN2 else .idle }, ?_, rfl, rfl, rfl,
          Or.inl ⟨rfl, rfl⟩⟩, hpriv, hsub, ?_⟩
        · skip
          rw [hev, List.filterMap_cons, filterMap_mbEv]
          simp [absEv, dec_ptr, dec_int0, hta, hn, lrun, lstep, hpc, hne, hax, hnode, List.filterMap_cons]
        · intro e he; rw [hev] at he; simp at he; rcases he with rfl | he | rfl | rfl
          · exact hldE _
          · exact hmbE e he
          · exact hc1E _ _ _ _
          · exact hc2E _ _ _
      · simp only [hctl] at hok
        obtain ⟨ta, hta⟩ := typed_ptr L (hwt (.ptr tl) (by simp))
        obtain ⟨nx, hnx⟩ := hwt nv (by simp)
        obtain ⟨ax, hax⟩ := hwt a (by simp)
        have h0 : nx ≠ 0 := fun e => hnv (dec_eq_zero L (e ▸ hnx))
        obtain ⟨evs', hevs, ⟨ls', hrun, hd1, hd2, hd3, hfin⟩, hpriv2, hsub2, hE2⟩ :=
          ih o.env o.inp (acc ++ o.events) { ls with tl := ta, nx := nx, pc := .eLd } out h1' h2' (hpriv ▸ hcfg)
            (fun v hv => hwt v (hsub v hv)) rfl hnode hok
        refine ⟨o.events ++ evs', by simp [hevs], ⟨ls', ?_, hd1, hd2, hd3, hfin⟩, hpriv2.trans hpriv,
          fun v hv => hsub v (hsub2 v hv), ?_⟩
        · rw [hev, List.cons_append, List.filterMap_cons, List.append_assoc, filterMap_mbEv]
          simp [absEv, dec_ptr, dec_int0, hta, hn, lrun, lstep, hpc, hne, hnx, hax, h0, hnode, List.filterMap_cons]
          rw [← hnode]; exact hrun
        · intro e he; simp at he; rcases he with he | he
          · rw [hev] at he; simp at he; rcases he with rfl | he | rfl | rfl
            · exact hldE _
            · exact hmbE e he
            · exact hc1E _ _ _ _
            · exact hc2E _ _ _
          · exact hE2 e he
    · exfalso
      obtain ⟨t, hhd⟩ := Classical.not_forall.mp hhd
      obtain ⟨ht, hnp⟩ := Classical.not_imp.mp hhd
      rcases inp with _ | ⟨t', rest⟩
      · simp at ht
      · simp at ht; subst ht
        rcases typed_cases L (hwt t' (by simp)) with rfl | ⟨l, _, rfl, _⟩
        · simp [iterate, enqBody, Gen.Src.«_cds_lfq_enqueue_rcu», block, exec, eval, evalArgs, execPrim, asLoc, bind,
            Except.bind, h1, h2, hcfg, Env.setVar, setDst, Val.truthy] at hok
          by_cases hmb : mbv = 0 <;> simp [hmb] at hok
        · exact hnp ⟨l, rfl⟩

/-! ## the stateful abstraction of a dequeue run -/

/-- dummy nodes are the `&obj->parent` locations -/
def isPar : Loc → Bool
  | .field _ f => f == "parent"
  | _ => false

inductive DSt
  | none                 -- nothing pending
  | pend (a : Nat)       -- `head->next == NULL` was loaded on the non-dummy head `a`: the label waits for `malloc`'s result
  | after                -- the dummy was allocated: the next load of `head->next` is L2's `ldNext2`
  deriving DecidableEq

def absDeq : DSt → List Event → List LLabel
  | _, [] => []
  | st, e :: es =>
    match e with
    | .ld l v _ =>
      if l = .field L.q "tail" ∨ l = .field L.q "head" then (absEv L e).toList ++ absDeq st es
      else match l with
        | .field l' f =>
          if f = "next" then
            match L.addr l', dec L v with
            | some a, some x =>
              if x = 0 ∧ isPar l' = false ∧ st = .none then absDeq (.pend a) es
              else .ldNext a x (isPar l') 0 :: absDeq .none es
            | _, _ => .other :: absDeq st es
          else .other :: absDeq st es
        | _ => .other :: absDeq st es
    | .ext name _ r =>
      if name = "malloc" then
        match st, r with
        | .pend a, .ptr dl =>
          match L.addr (.field dl "parent") with
          | some d => .ldNext a 0 false d :: absDeq .after es
          | none => .other :: absDeq st es
        | _, _ => .other :: absDeq st es
      else absDeq st es      -- `(*queue_call_rcu)(…)`: L2 folds it into `casHead` of a dummy
    | .cas l e' n old _ _ =>
      if l = .field L.q "head" then
        match e', dec L e', dec L n, dec L old with
        | .ptr el, some ex, some nx, some ox => .casHead ex nx ox (isPar el) :: absDeq st es
        | _, _, _, _ => .other :: absDeq st es
      else (absEv L e).toList ++ absDeq st es
    | _ => (absEv L e).toList ++ absDeq st es

theorem absDeq_enq (st : DSt) (evs rest : List Event) (h : ∀ e ∈ evs, EnqEv L e) :
    absDeq L st (evs ++ rest) = evs.filterMap (absEv L) ++ absDeq L st rest := by
  induction evs with
  | nil => rfl
  | cons e es ih =>
    have ih' := ih (fun e' he' => h e' (by simp [he']))
    rcases h e (by simp) with ⟨v, mo, rfl⟩ | ⟨p, rfl⟩ | ⟨l, a, b, c', m1, m2, rfl, hl⟩
    · simp only [List.cons_append, absDeq, true_or, if_true, ih', List.filterMap_cons]
      cases absEv L (.ld (.field L.q "tail") v mo) <;> simp
    · simp only [List.cons_append, absDeq, ih', List.filterMap_cons]
      cases absEv L (.fence p) <;> simp
    · simp only [List.cons_append, absDeq, hl, if_false, ih', List.filterMap_cons]
      cases absEv L (.cas l a b c' m1 m2) <;> simp

theorem dec_inj {v w : Val} {a : Nat} (hv : dec L v = some a) (hw : dec L w = some a) : v = w := by
  cases v <;> cases w <;> simp [dec] at hv hw
  · simp [hv.1, hw.1]
  · exact absurd (hv.2 ▸ hw) (L.addr_ne0 _)
  · exact absurd (hw.2 ▸ hv) (L.addr_ne0 _)
  · rename_i l l'; rw [L.addr_inj l l' a hv hw]

/-- the part of the loop body of the generated `_cds_lfq_dequeue_rcu` from `rcu_dereference(q->tail) == head` on -/
def deqBody : Stmt :=
  match Gen.Src.«_cds_lfq_dequeue_rcu» with
  | .loop b => b
  | _ => .skip

def lfqTail : Stmt := WfcqR.dropSeq 6 deqBody

/-- how the tail of one dequeue iteration (from L2's `dLdT`) ends -/
def TailPost (c : Cfg) (ls : LState) (hl : Loc) (env : Env) (inp : List Val) (o : Out) : Prop :=
  ∃ ls', lrun c ls (absDeq L .none o.events) = some ls' ∧ o.env.priv = env.priv ∧ (∀ v ∈ o.inp, v ∈ inp) ∧
    ((o.ctl = .blocked ∧ (ls'.pc = .dLdT ∨ ls'.pc = .dHelpT ∨ ls'.pc = .dCas ∨ ls'.pc = .dLdH)) ∨
     (o.ctl = .cont ∧ ls'.pc = .dLdH ∧ o.env.vars "q" = env.vars "q") ∨
     (o.ctl = .ret (some (.ptr hl)) ∧ ls'.pc = .idle))

set_option hygiene false in
local macro "tail_exec" : tactic =>
  `(tactic| simp [lfqTail, WfcqR.dropSeq, deqBody, Gen.Src.«_cds_lfq_dequeue_rcu», Gen.Src.«rcu_free_dummy», block, exec,
      eval, evalArgs, execPrim, bindParams, asLoc, bind, Except.bind, Env.setVar, Env.setPriv, setDst, Val.truthy,
      evalBin, evalUn, boolV, *] at hok)

local macro "tail_abs" : tactic =>
  `(tactic| simp +contextual [TailPost, absDeq, absEv, dec_ptr, dec_int0, lrun, lstep, afterNextPc, *])

theorem lfqTail_run (c : Cfg) (hc : c.helpTail = true) (fuel : Nat) (env : Env) (inp : List Val) (hl : Loc)
    (a nx : Nat) (nxv fv : Val) (ls : LState) (o : Out)
    (h1 : env.vars "q" = some (.ptr L.q)) (h2 : env.vars "head" = some (.ptr hl)) (h3 : env.vars "next" = some nxv)
    (ha : L.addr hl = some a) (hnx : dec L nxv = some nx)
    (hp1 : env.priv (.field hl "dummy") = some (.int (if isPar hl then 1 else 0)))
    (hp2 : isPar hl = true → env.priv (.field hl "q") = some (.ptr L.q) ∧
      env.priv (.field L.q "queue_call_rcu") = some fv)
    (hwt : ∀ v ∈ inp, Typed L v) (hpc : ls.pc = .dLdT) (hhd : ls.hd = a) (hlnx : ls.nx = nx)
    (hok : exec fuel lfqTail env inp = .ok o) : TailPost L c ls hl env inp o := by
  have hdh : dec L (.ptr hl) = some a := ha
  rcases inp with _ | ⟨t, r⟩
  · tail_exec
    subst hok
    tail_abs
  · obtain ⟨tx, htx⟩ := hwt t (by simp)
    by_cases ht : t = .ptr hl
    · subst ht
      have hta : tx = a := by simpa [hdh] using htx.symm
      rcases r with _ | ⟨a', r⟩
      · tail_exec
        subst hok
        tail_abs
      · obtain ⟨ax, hax⟩ := hwt a' (by simp)
        rcases r with _ | ⟨o', r⟩
        · tail_exec
          subst hok
          tail_abs
        · obtain ⟨ox, hox⟩ := hwt o' (by simp)
          by_cases ho : o' = .ptr hl
          · subst ho
            have hoa : ox = a := by simpa [hdh] using hox.symm
            subst hoa
            by_cases hd : isPar hl = true
            · obtain ⟨hq1, hq2⟩ := hp2 hd
              rcases r with _ | ⟨rv, r⟩
              · tail_exec
                subst hok
                tail_abs
              · tail_exec
                subst hok
                tail_abs
            · simp only [Bool.not_eq_true] at hd
              tail_exec
              subst hok
              tail_abs
          · have hoa : ox ≠ a := fun e => ho (dec_inj L (e ▸ hox) hdh)
            tail_exec
            subst hok
            tail_abs
    · have htx' : tx ≠ a := fun e => ht (dec_inj L (e ▸ htx) hdh)
      rcases r with _ | ⟨o', r⟩
      · tail_exec
        subst hok
        tail_abs
      · obtain ⟨ox, hox⟩ := hwt o' (by simp)
        by_cases ho : o' = .ptr hl
        · subst ho
          have hoa : ox = a := by simpa [hdh] using hox.symm
          by_cases hd : isPar hl = true
          · obtain ⟨hq1, hq2⟩ := hp2 hd
            rcases r with _ | ⟨rv, r⟩
            · tail_exec
              subst hok
              tail_abs
            · tail_exec
              subst hok
              tail_abs
          · simp only [Bool.not_eq_true] at hd
            tail_exec
            subst hok
            tail_abs
        · have hoa : ox ≠ a := fun e => ho (dec_inj L (e ▸ hox) hdh)
          tail_exec
          subst hok
          tail_abs

/-- what the private view must provide for the plain loads of dequeue: the `dummy` word of every node (1 exactly for
`&obj->parent` nodes), the `q` word of dummies and the queue's `queue_call_rcu` word (read by `rcu_free_dummy`), the
build configuration -/
def Pinv (fv : Val) (mbv : Int) (priv : Loc → Option Val) : Prop :=
  (∀ l a, L.addr l = some a → priv (.field l "dummy") = some (.int (if isPar l then 1 else 0))) ∧
  (∀ l a, L.addr l = some a → isPar l = true → priv (.field l "q") = some (.ptr L.q)) ∧
  priv (.field L.q "queue_call_rcu") = some fv ∧
  priv (.glob "CONFIG_RCU_EMIT_LEGACY_MB") = some (.int mbv)

/-- one iteration of the dequeue loop, from L2's `dLdH` -/
def BodyPost (c : Cfg) (fv : Val) (mbv : Int) (ls : LState) (env : Env) (inp : List Val) (o : Out) : Prop :=
  ∃ ls', lrun c ls (absDeq L .none o.events) = some ls' ∧ Pinv L fv mbv o.env.priv ∧ (∀ v ∈ o.inp, v ∈ inp) ∧
    ((o.ctl = .blocked ∨ o.ctl = .fuel) ∨
     (o.ctl = .cont ∧ ls'.pc = .dLdH ∧ o.env.vars "q" = env.vars "q") ∨
     (o.ctl = .ret (some (.int 0)) ∧ ls'.pc = .idle) ∨
     (∃ hl, o.ctl = .ret (some (.ptr hl)) ∧ ls'.pc = .idle))

set_option hygiene false in
local macro "body_exec" : tactic =>
  `(tactic| simp [block, exec, eval, evalArgs, execPrim, bindParams, asLoc, bind, Except.bind, Env.setVar, Env.setPriv,
      setDst, Val.truthy, evalBin, evalUn, boolV, *] at hok)

theorem deqBody_run (c : Cfg) (hc : c.helpTail = true) (fuel : Nat) (env : Env) (inp : List Val) (fv : Val) (mbv : Int)
    (ls : LState) (o : Out) (h1 : env.vars "q" = some (.ptr L.q)) (hP : Pinv L fv mbv env.priv)
    (hpar : ∀ l a, L.addr l = some a → ∃ d, L.addr (.field l "parent") = some d)
    (hwt : ∀ v ∈ inp, Typed L v) (hpc : ls.pc = .dLdH)
    (hok : exec fuel deqBody env inp = .ok o) : BodyPost L c fv mbv ls env inp o := by
  obtain ⟨hP1, hP2, hP3, hP4⟩ := hP
  rw [show deqBody = Stmt.seq _ (.seq _ (.seq _ (.seq _ (.seq _ (.seq _ lfqTail))))) from rfl] at hok
  rcases inp with _ | ⟨hv, r⟩
  · body_exec
    subst hok
    simp [BodyPost, absDeq, lrun, Pinv, hP1, hP2, hP3, hP4]
    exact ⟨hP1, hP2⟩
  · rcases typed_cases L (hwt hv (by simp)) with rfl | ⟨hl, a, rfl, ha⟩
    · body_exec
    · have hp1 := hP1 hl a ha
      rcases r with _ | ⟨nv, r⟩
      · body_exec
        subst hok
        simp [BodyPost, absDeq, absEv, dec_ptr, ha, lrun, lstep, hpc, Pinv, hP3, hP4]
        exact ⟨hP1, hP2⟩
      · obtain ⟨nx, hnx⟩ := hwt nv (by simp)
        by_cases hn0 : nv = .int 0
        · subst hn0
          by_cases hd : isPar hl = true
          · body_exec
            subst hok
            simp [BodyPost, absDeq, absEv, dec_ptr, dec_int0, ha, lrun, lstep, hpc, Pinv, hP3, hP4, hd]
            trace_state
            sorry
          · sorry
        · have hnx0 : nx ≠ 0 := fun e => hn0 (dec_eq_zero L (e ▸ hnx))
          sorry

end UrcuVerif.Src.Queue.LfqR
