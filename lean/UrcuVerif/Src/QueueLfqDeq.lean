import UrcuVerif.Src.QueueRefine
/-!
# `_cds_lfq_dequeue_rcu` ⊑ thread-local projection of `Lfq/Model.lean`  (continuation of `Src/QueueRefine.lean`, `LfqR`)

L2 folds into its `ldNext d` step the plain load `head->dummy` and, when the last real node is found, the whole
`make_dummy` (`malloc` + private initialisation); into `casHead` the plain load `head->dummy` and the `queue_call_rcu`
of a removed dummy.  The abstraction of a dequeue run is therefore a small *stateful* pass over the events (`absDeq`):
a load `head->next == NULL` on a non-dummy head is held back until the `malloc` result is known.
Dummy nodes are the locations `&obj->parent` (`make_dummy` returns `&dummy->parent`).
-/
set_option linter.unusedSimpArgs false
set_option linter.unusedVariables false
namespace UrcuVerif.Src.Queue.LfqR
open UrcuVerif.Src UrcuVerif.Lfq LfqL
variable (L : Layout)

/-- events an enqueue can emit (none of them is special for `absDeq`) -/
def EnqEv (e : Event) : Prop :=
  (∃ v mo, e = .ld (.field L.q "tail") v mo) ∨ (∃ p, e = .fence p) ∨
  (∃ l a b c m1 m2, e = .cas l a b c m1 m2 ∧ l ≠ .field L.q "head")

theorem typed_ptr {l : Loc} (h : Typed L (.ptr l)) : ∃ a, L.addr l = some a := h

theorem typed_cases {v : Val} (h : Typed L v) : v = .int 0 ∨ ∃ l a, v = .ptr l ∧ L.addr l = some a := by
  obtain ⟨x, hx⟩ := h
  cases v with
  | int n => left; unfold dec at hx; split at hx <;> simp_all
  | ptr l => right; exact ⟨l, x, rfl, hx⟩

/-- implication form of `enq_loop` for a uniformly typed oracle: a run that does not fail (the value loaded from
`q->tail` is dereferenced) follows the local automaton; it does not touch the private view -/
theorem enq_loop' (c : Cfg) (fuel : Nat) (nl : Loc) (n : Nat) (mbv : Int) (hn : L.addr nl = some n) (iters : Nat) :
    ∀ (env : Env) (inp : List Val) (acc : List Event) (ls : LState) (out : Out),
      env.vars "q" = some (.ptr L.q) → env.vars "node" = some (.ptr nl) →
      env.priv (.glob "CONFIG_RCU_EMIT_LEGACY_MB") = some (.int mbv) → (∀ v ∈ inp, Typed L v) →
      ls.pc = .eLd → ls.node = n →
      iterate (fun e i => exec fuel enqBody e i) iters env inp acc = .ok out →
      ∃ evs, out.events = acc ++ evs ∧ EnqPost L c ls out evs ∧ out.env.priv = env.priv ∧
        (∀ v ∈ out.inp, v ∈ inp) ∧ ∀ e ∈ evs, EnqEv L e := by
  induction iters with
  | zero =>
    intro env inp acc ls out h1 h2 hcfg hwt hpc hnode hok
    simp only [iterate, Except.ok.injEq] at hok
    subst hok
    exact ⟨[], by simp, ⟨ls, rfl, rfl, rfl, rfl, Or.inr (Or.inr ⟨rfl, hpc⟩)⟩, rfl, fun _ h => h, by simp⟩
  | succ iters ih =>
    intro env inp acc ls out h1 h2 hcfg hwt hpc hnode hok
    by_cases hhd : ∀ t, inp.head? = some t → ∃ tl, t = .ptr tl
    · obtain ⟨o, ho, hpriv, hsub, hcase⟩ := enqBody_exec L fuel env inp nl mbv h1 h2 hcfg hhd
      simp only [iterate, ho, bind, Except.bind] at hok
      have hne : ∀ l : Loc, (Loc.field l "next" = .field L.q "tail") = False := by intro l; simp
      have hmbE : ∀ e ∈ mbEv mbv, EnqEv L e := by
        intro e he; unfold mbEv at he; split at he <;> simp at he; exact Or.inr (Or.inl ⟨_, he⟩)
      have hldE : ∀ v, EnqEv L (.ld (.field L.q "tail") v 1) := fun v => Or.inl ⟨_, _, rfl⟩
      have hc1E : ∀ (tl : Loc) a b' c', EnqEv L (.cas (.field tl "next") a b' c' 5 5) :=
        fun tl a b' c' => Or.inr (Or.inr ⟨_, _, _, _, _, _, rfl, by simp⟩)
      have hc2E : ∀ a b' c', EnqEv L (.cas (.field L.q "tail") a b' c' 5 5) :=
        fun a b' c' => Or.inr (Or.inr ⟨_, _, _, _, _, _, rfl, by simp⟩)
      rcases hcase with ⟨rfl, hev, hctl⟩ | ⟨tl, rfl, hev, hctl⟩ | ⟨tl, nv, rfl, hctl, hev⟩ |
        ⟨tl, a, rest, rfl, hctl, hinp, hev⟩ | ⟨tl, nv, a, rest, rfl, hnv, hctl, hinp, h1', h2', hev⟩
      · simp only [hctl, Except.ok.injEq] at hok; subst hok
        exact ⟨o.events, rfl, ⟨ls, by simp [hev, lrun], rfl, rfl, rfl, Or.inr (Or.inl ⟨rfl, Or.inl hpc⟩)⟩, hpriv,
          hsub, by simp [hev]⟩
      · simp only [hctl, Except.ok.injEq] at hok; subst hok
        obtain ⟨ta, hta⟩ := typed_ptr L (hwt (.ptr tl) (by simp))
        refine ⟨o.events, rfl, ⟨{ ls with tl := ta, pc := .eCas }, ?_, rfl, rfl, rfl,
          Or.inr (Or.inl ⟨rfl, Or.inr (Or.inl rfl)⟩)⟩, hpriv, hsub, ?_⟩
        · skip
          rw [hev, List.filterMap_cons]
          have := filterMap_mbEv L mbv []
          simp only [List.append_nil] at this
          simp [this, absEv, dec_ptr, hta, lrun, lstep, hpc]
        · intro e he; rw [hev] at he; simp at he; rcases he with rfl | he
          · exact hldE _
          · exact hmbE e he
      · simp only [hctl, Except.ok.injEq] at hok; subst hok
        obtain ⟨ta, hta⟩ := typed_ptr L (hwt (.ptr tl) (by simp))
        obtain ⟨nx, hnx⟩ := hwt nv (by simp)
        have hE : ∀ e ∈ o.events, EnqEv L e := by
          intro e he; rw [hev] at he; simp at he; rcases he with rfl | he | rfl
          · exact hldE _
          · exact hmbE e he
          · exact hc1E _ _ _ _
        by_cases h0 : nx = 0
        · refine ⟨o.events, rfl, ⟨{ ls with tl := ta, pc := .eAdv }, ?_, rfl, rfl, rfl,
            Or.inr (Or.inl ⟨rfl, Or.inr (Or.inr (Or.inl rfl))⟩)⟩, hpriv, hsub, hE⟩
          rw [hev, List.filterMap_cons, filterMap_mbEv]
          simp [absEv, dec_ptr, dec_int0, hta, hn, lrun, lstep, hpc, hne, hnx, h0, hnode, List.filterMap_cons]
        · refine ⟨o.events, rfl, ⟨{ ls with tl := ta, nx := nx, pc := .eHelp }, ?_, rfl, rfl, rfl,
            Or.inr (Or.inl ⟨rfl, Or.inr (Or.inr (Or.inr rfl))⟩)⟩, hpriv, hsub, hE⟩
          rw [hev, List.filterMap_cons, filterMap_mbEv]
          simp [absEv, dec_ptr, dec_int0, hta, hn, lrun, lstep, hpc, hne, hnx, h0, hnode, List.filterMap_cons]
      · simp only [hctl, Except.ok.injEq] at hok; subst hok
        obtain ⟨ta, hta⟩ := typed_ptr L (hwt (.ptr tl) (by simp))
        obtain ⟨ax, hax⟩ := hwt a (by simp)
        refine ⟨o.events, rfl, ⟨{ ls with tl := ta, pc := if ls.inDeq then .dLdN2 else .idle }, ?_, rfl, rfl, rfl,
          Or.inl ⟨rfl, rfl⟩⟩, hpriv, hsub, ?_⟩
        · skip
          rw [hev, List.filterMap_cons, filterMap_mbEv]
          simp [absEv, dec_ptr, dec_int0, hta, hn, lrun, lstep, hpc, hne, hax, hnode, List.filterMap_cons]
        · intro e he; rw [hev] at he; simp at he; rcases he with rfl | he | rfl | rfl
          · exact hldE _
          · exact hmbE e he
          · exact hc1E _ _ _ _
          · exact hc2E _ _ _
      · simp only [hctl] at hok
        obtain ⟨ta, hta⟩ := typed_ptr L (hwt (.ptr tl) (by simp))
        obtain ⟨nx, hnx⟩ := hwt nv (by simp)
        obtain ⟨ax, hax⟩ := hwt a (by simp)
        have h0 : nx ≠ 0 := fun e => hnv (dec_eq_zero L (e ▸ hnx))
        obtain ⟨evs', hevs, ⟨ls', hrun, hd1, hd2, hd3, hfin⟩, hpriv2, hsub2, hE2⟩ :=
          ih o.env o.inp (acc ++ o.events) { ls with tl := ta, nx := nx, pc := .eLd } out h1' h2' (hpriv ▸ hcfg)
            (fun v hv => hwt v (hsub v hv)) rfl hnode hok
        refine ⟨o.events ++ evs', by simp [hevs], ⟨ls', ?_, hd1, hd2, hd3, hfin⟩, hpriv2.trans hpriv,
          fun v hv => hsub v (hsub2 v hv), ?_⟩
        · rw [hev, List.cons_append, List.filterMap_cons, List.append_assoc, filterMap_mbEv]
          simp [absEv, dec_ptr, dec_int0, hta, hn, lrun, lstep, hpc, hne, hnx, hax, h0, hnode, List.filterMap_cons]
          rw [← hnode]; exact hrun
        · intro e he; simp at he; rcases he with he | he
          · rw [hev] at he; simp at he; rcases he with rfl | he | rfl | rfl
            · exact hldE _
            · exact hmbE e he
            · exact hc1E _ _ _ _
            · exact hc2E _ _ _
          · exact hE2 e he
    · exfalso
      obtain ⟨t, hhd⟩ := Classical.not_forall.mp hhd
      obtain ⟨ht, hnp⟩ := Classical.not_imp.mp hhd
      rcases inp with _ | ⟨t', rest⟩
      · simp at ht
      · simp at ht; subst ht
        rcases typed_cases L (hwt t' (by simp)) with rfl | ⟨l, _, rfl, _⟩
        · simp [iterate, enqBody, Gen.Src.«_cds_lfq_enqueue_rcu», block, exec, eval, evalArgs, execPrim, asLoc, bind,
            Except.bind, h1, h2, hcfg, Env.setVar, setDst, Val.truthy] at hok
          by_cases hmb : mbv = 0 <;> simp [hmb] at hok
        · exact hnp ⟨l, rfl⟩

end UrcuVerif.Src.Queue.LfqR
