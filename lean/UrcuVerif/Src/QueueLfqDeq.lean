import UrcuVerif.Src.QueueRefine
import UrcuVerif.Src.QueueDeq
/-!
# `_cds_lfq_dequeue_rcu` ⊑ thread-local projection of `Lfq/Model.lean`  (continuation of `Src/QueueRefine.lean`, `LfqR`)

L2 folds into its `ldNext d` step the plain load `head->dummy` and, when the last real node is found, the whole
`make_dummy` (`malloc` + private initialisation); into `casHead` the plain load `head->dummy` and the `queue_call_rcu`
of a removed dummy.  The abstraction of a dequeue run is therefore a small *stateful* pass over the events (`absDeq`):
a load `head->next == NULL` on a non-dummy head is held back until the `malloc` result is known.
Dummy nodes are the locations `&obj->parent` (`make_dummy` returns `&dummy->parent`).
-/
set_option linter.unusedSimpArgs false
set_option linter.unusedVariables false
namespace UrcuVerif.Src.Queue.LfqR
open UrcuVerif.Src UrcuVerif.Lfq LfqL
variable (L : Layout)

/-- events an enqueue can emit (none of them is special for `absDeq`) -/
def EnqEv (e : Event) : Prop :=
  (∃ v mo, e = .ld (.field L.q "tail") v mo) ∨ (∃ p, e = .fence p) ∨
  (∃ l a b c m1 m2, e = .cas l a b c m1 m2 ∧ l ≠ .field L.q "head")

theorem typed_ptr {l : Loc} (h : Typed L (.ptr l)) : ∃ a, L.addr l = some a := h

theorem typed_cases {v : Val} (h : Typed L v) : v = .int 0 ∨ ∃ l a, v = .ptr l ∧ L.addr l = some a := by
  obtain ⟨x, hx⟩ := h
  cases v with
  | int n => left; unfold dec at hx; split at hx <;> simp_all
  | ptr l => right; exact ⟨l, x, rfl, hx⟩

/-- implication form of `enq_loop` for a uniformly typed oracle: a run that does not fail (the value loaded from
`q->tail` is dereferenced) follows the local automaton; it does not touch the private view -/
theorem enq_loop' (c : Cfg) (fuel : Nat) (nl : Loc) (n : Nat) (mbv : Int) (hn : L.addr nl = some n) (iters : Nat) :
    ∀ (env : Env) (inp : List Val) (acc : List Event) (ls : LState) (out : Out),
      env.vars "q" = some (.ptr L.q) → env.vars "node" = some (.ptr nl) →
      env.priv (.glob "CONFIG_RCU_EMIT_LEGACY_MB") = some (.int mbv) → (∀ v ∈ inp, Typed L v) →
      ls.pc = .eLd → ls.node = n →
      iterate (fun e i => exec fuel enqBody e i) iters env inp acc = .ok out →
      ∃ evs, out.events = acc ++ evs ∧ EnqPost L c ls out evs ∧ out.env.priv = env.priv ∧
        (∀ v ∈ out.inp, v ∈ inp) ∧ ∀ e ∈ evs, EnqEv L e := by
  induction iters with
  | zero =>
    intro env inp acc ls out h1 h2 hcfg hwt hpc hnode hok
    simp only [iterate, Except.ok.injEq] at hok
    subst hok
    exact ⟨[], by simp, ⟨ls, rfl, rfl, rfl, rfl, Or.inr (Or.inr ⟨rfl, hpc⟩)⟩, rfl, fun _ h => h, by simp⟩
  | succ iters ih =>
    intro env inp acc ls out h1 h2 hcfg hwt hpc hnode hok
    by_cases hhd : ∀ t, inp.head? = some t → ∃ tl, t = .ptr tl
    · obtain ⟨o, ho, hpriv, hsub, hcase⟩ := enqBody_exec L fuel env inp nl mbv h1 h2 hcfg hhd
      simp only [iterate, ho, bind, Except.bind] at hok
      have hne : ∀ l : Loc, (Loc.field l "next" = .field L.q "tail") = False := by intro l; simp
      have hmbE : ∀ e ∈ mbEv mbv, EnqEv L e := by
        intro e he; unfold mbEv at he; split at he <;> simp at he; exact Or.inr (Or.inl ⟨_, he⟩)
      have hldE : ∀ v, EnqEv L (.ld (.field L.q "tail") v 1) := fun v => Or.inl ⟨_, _, rfl⟩
      have hc1E : ∀ (tl : Loc) a b' c', EnqEv L (.cas (.field tl "next") a b' c' 5 5) :=
        fun tl a b' c' => Or.inr (Or.inr ⟨_, _, _, _, _, _, rfl, by simp⟩)
      have hc2E : ∀ a b' c', EnqEv L (.cas (.field L.q "tail") a b' c' 5 5) :=
        fun a b' c' => Or.inr (Or.inr ⟨_, _, _, _, _, _, rfl, by simp⟩)
      rcases hcase with ⟨rfl, hev, hctl⟩ | ⟨tl, rfl, hev, hctl⟩ | ⟨tl, nv, rfl, hctl, hev⟩ |
        ⟨tl, a, rest, rfl, hctl, hinp, hev⟩ | ⟨tl, nv, a, rest, rfl, hnv, hctl, hinp, h1', h2', hev⟩
      · simp only [hctl, Except.ok.injEq] at hok; subst hok
        exact ⟨o.events, rfl, ⟨ls, by simp [hev, lrun], rfl, rfl, rfl, Or.inr (Or.inl ⟨rfl, Or.inl hpc⟩)⟩, hpriv,
          hsub, by simp [hev]⟩
      · simp only [hctl, Except.ok.injEq] at hok; subst hok
        obtain ⟨ta, hta⟩ := typed_ptr L (hwt (.ptr tl) (by simp))
        refine ⟨o.events, rfl, ⟨{ ls with tl := ta, pc := .eCas }, ?_, rfl, rfl, rfl,
          Or.inr (Or.inl ⟨rfl, Or.inr (Or.inl rfl)⟩)⟩, hpriv, hsub, ?_⟩
        · skip
          rw [hev, List.filterMap_cons]
          have := filterMap_mbEv L mbv []
          simp only [List.append_nil] at this
          simp [this, absEv, dec_ptr, hta, lrun, lstep, hpc]
        · intro e he; rw [hev] at he; simp at he; rcases he with rfl | he
          · exact hldE _
          · exact hmbE e he
      · simp only [hctl, Except.ok.injEq] at hok; subst hok
        obtain ⟨ta, hta⟩ := typed_ptr L (hwt (.ptr tl) (by simp))
        obtain ⟨nx, hnx⟩ := hwt nv (by simp)
        have hE : ∀ e ∈ o.events, EnqEv L e := by
          intro e he; rw [hev] at he; simp at he; rcases he with rfl | he | rfl
          · exact hldE _
          · exact hmbE e he
          · exact hc1E _ _ _ _
        by_cases h0 : nx = 0
        · refine ⟨o.events, rfl, ⟨{ ls with tl := ta, pc := .eAdv }, ?_, rfl, rfl, rfl,
            Or.inr (Or.inl ⟨rfl, Or.inr (Or.inr (Or.inl rfl))⟩)⟩, hpriv, hsub, hE⟩
          rw [hev, List.filterMap_cons, filterMap_mbEv]
          simp [absEv, dec_ptr, dec_int0, hta, hn, lrun, lstep, hpc, hne, hnx, h0, hnode, List.filterMap_cons]
        · refine ⟨o.events, rfl, ⟨{ ls with tl := ta, nx := nx, pc := .eHelp }, ?_, rfl, rfl, rfl,
            Or.inr (Or.inl ⟨rfl, Or.inr (Or.inr (Or.inr rfl))⟩)⟩, hpriv, hsub, hE⟩
          rw [hev, List.filterMap_cons, filterMap_mbEv]
          simp [absEv, dec_ptr, dec_int0, hta, hn, lrun, lstep, hpc, hne, hnx, h0, hnode, List.filterMap_cons]
      · simp only [hctl, Except.ok.injEq] at hok; subst hok
        obtain ⟨ta, hta⟩ := typed_ptr L (hwt (.ptr tl) (by simp))
        obtain ⟨ax, hax⟩ := hwt a (by simp)
        refine ⟨o.events, rfl, ⟨{ ls with tl := ta, pc := if ls.inDeq then .dLdN2 else .idle }, ?_, rfl, rfl, rfl,
          Or.inl ⟨rfl, rfl⟩⟩, hpriv, hsub, ?_⟩
        · skip
          rw [hev, List.filterMap_cons, filterMap_mbEv]
          simp [absEv, dec_ptr, dec_int0, hta, hn, lrun, lstep, hpc, hne, hax, hnode, List.filterMap_cons]
        · intro e he; rw [hev] at he; simp at he; rcases he with rfl | he | rfl | rfl
          · exact hldE _
          · exact hmbE e he
          · exact hc1E _ _ _ _
          · exact hc2E _ _ _
      · simp only [hctl] at hok
        obtain ⟨ta, hta⟩ := typed_ptr L (hwt (.ptr tl) (by simp))
        obtain ⟨nx, hnx⟩ := hwt nv (by simp)
        obtain ⟨ax, hax⟩ := hwt a (by simp)
        have h0 : nx ≠ 0 := fun e => hnv (dec_eq_zero L (e ▸ hnx))
        obtain ⟨evs', hevs, ⟨ls', hrun, hd1, hd2, hd3, hfin⟩, hpriv2, hsub2, hE2⟩ :=
          ih o.env o.inp (acc ++ o.events) { ls with tl := ta, nx := nx, pc := .eLd } out h1' h2' (hpriv ▸ hcfg)
            (fun v hv => hwt v (hsub v hv)) rfl hnode hok
        refine ⟨o.events ++ evs', by simp [hevs], ⟨ls', ?_, hd1, hd2, hd3, hfin⟩, hpriv2.trans hpriv,
          fun v hv => hsub v (hsub2 v hv), ?_⟩
        · rw [hev, List.cons_append, List.filterMap_cons, List.append_assoc, filterMap_mbEv]
          simp [absEv, dec_ptr, dec_int0, hta, hn, lrun, lstep, hpc, hne, hnx, hax, h0, hnode, List.filterMap_cons]
          rw [← hnode]; exact hrun
        · intro e he; simp at he; rcases he with he | he
          · rw [hev] at he; simp at he; rcases he with rfl | he | rfl | rfl
            · exact hldE _
            · exact hmbE e he
            · exact hc1E _ _ _ _
            · exact hc2E _ _ _
          · exact hE2 e he
    · exfalso
      obtain ⟨t, hhd⟩ := Classical.not_forall.mp hhd
      obtain ⟨ht, hnp⟩ := Classical.not_imp.mp hhd
      rcases inp with _ | ⟨t', rest⟩
      · simp at ht
      · simp at ht; subst ht
        rcases typed_cases L (hwt t' (by simp)) with rfl | ⟨l, _, rfl, _⟩
        · simp [iterate, enqBody, Gen.Src.«_cds_lfq_enqueue_rcu», block, exec, eval, evalArgs, execPrim, asLoc, bind,
            Except.bind, h1, h2, hcfg, Env.setVar, setDst, Val.truthy] at hok
          by_cases hmb : mbv = 0 <;> simp [hmb] at hok
        · exact hnp ⟨l, rfl⟩

/-! ## the stateful abstraction of a dequeue run -/

/-- dummy nodes are the `&obj->parent` locations -/
def isPar : Loc → Bool
  | .field _ f => f == "parent"
  | _ => false

inductive DSt
  | none                 -- nothing pending
  | pend (a : Nat)       -- `head->next == NULL` was loaded on the non-dummy head `a`: the label waits for `malloc`'s result
  | after                -- the dummy was allocated: the next load of `head->next` is L2's `ldNext2`
  deriving DecidableEq

def absDeq : DSt → List Event → List LLabel
  | _, [] => []
  | st, e :: es =>
    match e with
    | .ld l v _ =>
      if l = .field L.q "tail" ∨ l = .field L.q "head" then (absEv L e).toList ++ absDeq st es
      else match l with
        | .field l' f =>
          if f = "next" then
            match L.addr l', dec L v with
            | some a, some x =>
              if x = 0 ∧ isPar l' = false ∧ st = .none then absDeq (.pend a) es
              else .ldNext a x (isPar l') 0 :: absDeq .none es
            | _, _ => .other :: absDeq st es
          else .other :: absDeq st es
        | _ => .other :: absDeq st es
    | .ext name _ r =>
      if name = "malloc" then
        match st, r with
        | .pend a, .ptr dl =>
          match L.addr (.field dl "parent") with
          | some d => .ldNext a 0 false d :: absDeq .after es
          | none => .other :: absDeq st es
        | _, _ => .other :: absDeq st es
      else absDeq st es      -- `(*queue_call_rcu)(…)`: L2 folds it into `casHead` of a dummy
    | .cas l e' n old _ _ =>
      if l = .field L.q "head" then
        match e', dec L e', dec L n, dec L old with
        | .ptr el, some ex, some nx, some ox => .casHead ex nx ox (isPar el) :: absDeq st es
        | _, _, _, _ => .other :: absDeq st es
      else (absEv L e).toList ++ absDeq st es
    | _ => (absEv L e).toList ++ absDeq st es

theorem absDeq_enq (st : DSt) (evs rest : List Event) (h : ∀ e ∈ evs, EnqEv L e) :
    absDeq L st (evs ++ rest) = evs.filterMap (absEv L) ++ absDeq L st rest := by
  induction evs with
  | nil => rfl
  | cons e es ih =>
    have ih' := ih (fun e' he' => h e' (by simp [he']))
    rcases h e (by simp) with ⟨v, mo, rfl⟩ | ⟨p, rfl⟩ | ⟨l, a, b, c', m1, m2, rfl, hl⟩
    · simp only [List.cons_append, absDeq, true_or, if_true, ih', List.filterMap_cons]
      cases absEv L (.ld (.field L.q "tail") v mo) <;> simp
    · simp only [List.cons_append, absDeq, ih', List.filterMap_cons]
      cases absEv L (.fence p) <;> simp
    · simp only [List.cons_append, absDeq, hl, if_false, ih', List.filterMap_cons]
      cases absEv L (.cas l a b c' m1 m2) <;> simp

theorem dec_inj {v w : Val} {a : Nat} (hv : dec L v = some a) (hw : dec L w = some a) : v = w := by
  cases v <;> cases w <;> simp [dec] at hv hw
  · simp [hv.1, hw.1]
  · exact absurd (hv.2 ▸ hw) (L.addr_ne0 _)
  · exact absurd (hw.2 ▸ hv) (L.addr_ne0 _)
  · rename_i l l'; rw [L.addr_inj l l' a hv hw]

/-- the part of the loop body of the generated `_cds_lfq_dequeue_rcu` from `rcu_dereference(q->tail) == head` on -/
def deqBody : Stmt :=
  match Gen.Src.«_cds_lfq_dequeue_rcu» with
  | .loop b => b
  | _ => .skip

def lfqTail : Stmt := WfcqR.dropSeq 6 deqBody

/-- how the tail of one dequeue iteration (from L2's `dLdT`) ends -/
def TailPost (c : Cfg) (ls : LState) (hl : Loc) (env : Env) (inp : List Val) (o : Out) : Prop :=
  ∃ ls', lrun c ls (absDeq L .none o.events) = some ls' ∧ o.env.priv = env.priv ∧ (∀ v ∈ o.inp, v ∈ inp) ∧
    ((o.ctl = .blocked ∧ (ls'.pc = .dLdT ∨ ls'.pc = .dHelpT ∨ ls'.pc = .dCas ∨ ls'.pc = .dLdH)) ∨
     (o.ctl = .cont ∧ ls'.pc = .dLdH ∧ o.env.vars "q" = env.vars "q") ∨
     (o.ctl = .ret (some (.ptr hl)) ∧ ls'.pc = .idle))

set_option hygiene false in
local macro "tail_exec" : tactic =>
  `(tactic| simp [lfqTail, WfcqR.dropSeq, deqBody, Gen.Src.«_cds_lfq_dequeue_rcu», Gen.Src.«rcu_free_dummy», block, exec,
      eval, evalArgs, execPrim, bindParams, asLoc, bind, Except.bind, Env.setVar, Env.setPriv, setDst, Val.truthy,
      evalBin, evalUn, boolV, *] at hok)

local macro "tail_abs" : tactic =>
  `(tactic| simp +contextual [TailPost, absDeq, absEv, dec_ptr, dec_int0, lrun, lstep, afterNextPc, *])

theorem lfqTail_run (c : Cfg) (hc : c.helpTail = true) (fuel : Nat) (env : Env) (inp : List Val) (hl : Loc)
    (a nx : Nat) (nxv fv : Val) (ls : LState) (o : Out)
    (h1 : env.vars "q" = some (.ptr L.q)) (h2 : env.vars "head" = some (.ptr hl)) (h3 : env.vars "next" = some nxv)
    (ha : L.addr hl = some a) (hnx : dec L nxv = some nx)
    (hp1 : env.priv (.field hl "dummy") = some (.int (if isPar hl then 1 else 0)))
    (hp2 : isPar hl = true → env.priv (.field hl "q") = some (.ptr L.q) ∧
      env.priv (.field L.q "queue_call_rcu") = some fv)
    (hwt : ∀ v ∈ inp, Typed L v) (hpc : ls.pc = .dLdT) (hhd : ls.hd = a) (hlnx : ls.nx = nx)
    (hok : exec fuel lfqTail env inp = .ok o) : TailPost L c ls hl env inp o := by
  have hdh : dec L (.ptr hl) = some a := ha
  rcases inp with _ | ⟨t, r⟩
  · tail_exec
    subst hok
    tail_abs
  · obtain ⟨tx, htx⟩ := hwt t (by simp)
    by_cases ht : t = .ptr hl
    · subst ht
      have hta : tx = a := by simpa [hdh] using htx.symm
      rcases r with _ | ⟨a', r⟩
      · tail_exec
        subst hok
        tail_abs
      · obtain ⟨ax, hax⟩ := hwt a' (by simp)
        rcases r with _ | ⟨o', r⟩
        · tail_exec
          subst hok
          tail_abs
        · obtain ⟨ox, hox⟩ := hwt o' (by simp)
          by_cases ho : o' = .ptr hl
          · subst ho
            have hoa : ox = a := by simpa [hdh] using hox.symm
            subst hoa
            by_cases hd : isPar hl = true
            · obtain ⟨hq1, hq2⟩ := hp2 hd
              rcases r with _ | ⟨rv, r⟩
              · tail_exec
                subst hok
                tail_abs
              · tail_exec
                subst hok
                tail_abs
            · simp only [Bool.not_eq_true] at hd
              tail_exec
              subst hok
              tail_abs
          · have hoa : ox ≠ a := fun e => ho (dec_inj L (e ▸ hox) hdh)
            tail_exec
            subst hok
            tail_abs
    · have htx' : tx ≠ a := fun e => ht (dec_inj L (e ▸ htx) hdh)
      rcases r with _ | ⟨o', r⟩
      · tail_exec
        subst hok
        tail_abs
      · obtain ⟨ox, hox⟩ := hwt o' (by simp)
        by_cases ho : o' = .ptr hl
        · subst ho
          have hoa : ox = a := by simpa [hdh] using hox.symm
          by_cases hd : isPar hl = true
          · obtain ⟨hq1, hq2⟩ := hp2 hd
            rcases r with _ | ⟨rv, r⟩
            · tail_exec
              subst hok
              tail_abs
            · tail_exec
              subst hok
              tail_abs
          · simp only [Bool.not_eq_true] at hd
            tail_exec
            subst hok
            tail_abs
        · have hoa : ox ≠ a := fun e => ho (dec_inj L (e ▸ hox) hdh)
          tail_exec
          subst hok
          tail_abs

/-- what the private view must provide for the plain loads of dequeue: the `dummy` word of every node (1 exactly for
`&obj->parent` nodes), the `q` word of dummies and the queue's `queue_call_rcu` word (read by `rcu_free_dummy`), the
build configuration -/
def Pinv (fv : Val) (mbv : Int) (priv : Loc → Option Val) : Prop :=
  (∀ l a, L.addr l = some a → priv (.field l "dummy") = some (.int (if isPar l then 1 else 0))) ∧
  (∀ l a, L.addr l = some a → isPar l = true → priv (.field l "q") = some (.ptr L.q)) ∧
  priv (.field L.q "queue_call_rcu") = some fv ∧
  priv (.glob "CONFIG_RCU_EMIT_LEGACY_MB") = some (.int mbv)

/-- one iteration of the dequeue loop, from L2's `dLdH` -/
def BodyPost (c : Cfg) (fv : Val) (mbv : Int) (ls : LState) (env : Env) (inp : List Val) (o : Out) : Prop :=
  ∃ ls', lrun c ls (absDeq L .none o.events) = some ls' ∧ Pinv L fv mbv o.env.priv ∧ (∀ v ∈ o.inp, v ∈ inp) ∧
    ((o.ctl = .blocked ∨ o.ctl = .fuel) ∨
     (o.ctl = .cont ∧ ls'.pc = .dLdH ∧ o.env.vars "q" = env.vars "q") ∨
     (o.ctl = .ret (some (.int 0)) ∧ ls'.pc = .idle) ∨
     (∃ hl, o.ctl = .ret (some (.ptr hl)) ∧ ls'.pc = .idle))

set_option hygiene false in
local macro "body_exec" : tactic =>
  `(tactic| simp [block, exec, eval, evalArgs, execPrim, bindParams, asLoc, bind, Except.bind, Env.setVar, Env.setPriv,
      setDst, Val.truthy, evalBin, evalUn, boolV, *] at hok)

theorem deqBody_run (c : Cfg) (hc : c.helpTail = true) (fuel : Nat) (env : Env) (inp : List Val) (fv : Val) (mbv : Int)
    (ls : LState) (o : Out) (h1 : env.vars "q" = some (.ptr L.q)) (hP : Pinv L fv mbv env.priv)
    (hpar : ∀ l a, L.addr l = some a → ∃ d, L.addr (.field l "parent") = some d)
    (hwt : ∀ v ∈ inp, Typed L v) (hpc : ls.pc = .dLdH)
    (hok : exec fuel deqBody env inp = .ok o)
    (hno : ∀ l mo, Event.ld (.field l "next") (.int 0) mo ∈ o.events → isPar l = true) :
    BodyPost L c fv mbv ls env inp o := by
  obtain ⟨hP1, hP2, hP3, hP4⟩ := hP
  rw [show deqBody = Stmt.seq _ (.seq _ (.seq _ (.seq _ (.seq _ (.seq _ lfqTail))))) from rfl] at hok
  rcases inp with _ | ⟨hv, r⟩
  · body_exec
    subst hok
    simp [BodyPost, absDeq, lrun, Pinv, hP1, hP2, hP3, hP4]
    exact ⟨hP1, hP2⟩
  · rcases typed_cases L (hwt hv (by simp)) with rfl | ⟨hl, a, rfl, ha⟩
    · body_exec
    · have hp1 := hP1 hl a ha
      rcases r with _ | ⟨nv, r⟩
      · body_exec
        subst hok
        simp [BodyPost, absDeq, absEv, dec_ptr, ha, lrun, lstep, hpc, Pinv, hP3, hP4]
        exact ⟨hP1, hP2⟩
      · obtain ⟨nx, hnx⟩ := hwt nv (by simp)
        by_cases hn0 : nv = .int 0
        · subst hn0
          by_cases hd : isPar hl = true
          · body_exec
            subst hok
            simp +contextual [BodyPost, absDeq, absEv, dec_ptr, dec_int0, ha, lrun, lstep, hpc, Pinv, hP3, hP4, hd]
            exact ⟨hP1, hP2⟩
          · exfalso
            rw [WfcqR.exec_split fuel 4] at hok
            simp [WfcqR.initSeq, WfcqR.seqRes, block, exec, eval, evalArgs, execPrim, bindParams, asLoc, bind, Except.bind,
              Env.setVar, Env.setPriv, setDst, h1] at hok
            split at hok
            · simp at hok
            · simp at hok
              subst hok
              exact hd (hno hl 1 (by simp))
        · have hnx0 : nx ≠ 0 := fun e => hn0 (dec_eq_zero L (e ▸ hnx))
          have hnt : nv.truthy = true := by
            rcases typed_cases L (hwt nv (by simp)) with rfl | ⟨l, _, rfl, _⟩ <;> simp_all [Val.truthy]
          have ht0 : (Val.int 0).truthy = false := rfl
          have ht1 : (Val.int 1).truthy = true := rfl
          simp [block, exec, eval, evalArgs, execPrim, bindParams, asLoc, bind, Except.bind, Env.setVar, Env.setPriv,
            setDst, evalBin, evalUn, boolV, h1, hp1, hn0, hnt, ht0, ht1] at hok
          generalize hEt : exec fuel lfqTail _ _ = rt at hok
          cases rt with
          | error e => simp at hok
          | ok ot =>
            have hT := lfqTail_run L c hc fuel _ r hl a nx nv fv
              { ls with hd := a, nx := nx, pc := .dLdT } ot (by simp [h1]) (by simp) (by simp) ha hnx (by exact hp1)
              (by exact fun hd => ⟨hP2 hl a ha hd, hP3⟩) (fun v hv => hwt v (by simp [hv])) rfl rfl rfl hEt
            obtain ⟨ls', hrun, hpriv, hsub, hfin⟩ := hT
            simp at hok
            subst hok
            refine ⟨ls', ?_, by simp [hpriv, Pinv, hP3, hP4]; exact ⟨hP1, hP2⟩, fun v hv => by simp [hsub v hv], ?_⟩
            · have hns : ¬(nx = 0 ∧ isPar hl = false ∧ DSt.none = DSt.none) := by simp [hnx0]
              simp [absDeq, absEv, dec_ptr, ha, hnx, hns, lrun, lstep, hpc, afterNextPc, hc, hnx0, hrun]
            · rcases hfin with ⟨h, _⟩ | ⟨h, hp, hq⟩ | ⟨h, hp⟩
              · exact Or.inl (Or.inl h)
              · exact Or.inr (Or.inl ⟨h, hp, by simpa using hq⟩)
              · exact Or.inr (Or.inr (Or.inr ⟨hl, h, hp⟩))

/-- no load of a `next` word of a non-dummy node returned NULL (the dequeuer never needed `enqueue_dummy`) -/
def NoAlloc (evs : List Event) : Prop :=
  ∀ l mo, Event.ld (.field l "next") (.int 0) mo ∈ evs → isPar l = true

theorem absDeq_append (a b : List Event) (h : NoAlloc a) :
    absDeq L .none (a ++ b) = absDeq L .none a ++ absDeq L .none b := by
  induction a with
  | nil => rfl
  | cons e es ih =>
    have ih' := ih (fun l mo hm => h l mo (by simp [hm]))
    cases e with
    | ld l v mo =>
      simp only [List.cons_append, absDeq]
      split
      · simp [ih']
      · split
        · rename_i l' f _
          split
          · rename_i hf
            subst hf
            split
            · rename_i a x ha hx
              split
              · rename_i hcond
                exfalso
                have hv : v = .int 0 := dec_eq_zero L (hcond.1 ▸ hx)
                subst hv
                have := h l' mo (by simp)
                simp [this] at hcond
              · simp [ih']
            · simp [ih']
          · simp [ih']
        · simp [ih']
    | ext name args r =>
      simp only [List.cons_append, absDeq]
      split <;> simp [ih']
    | cas l e' n old m1 m2 =>
      simp only [List.cons_append, absDeq]
      split
      · split <;> simp [ih']
      · simp [ih']
    | st l v mo => simp [absDeq, ih']
    | xchg l n o mo => simp [absDeq, ih']
    | rmw op l a r mo => simp [absDeq, ih']
    | fence p => simp [absDeq, ih']

theorem iterate_prefix (body : Env → List Val → Except String Out) (n : Nat) :
    ∀ (env : Env) (inp : List Val) (acc : List Event) (out : Out),
      iterate body n env inp acc = .ok out → ∃ evs, out.events = acc ++ evs := by
  induction n with
  | zero => intro env inp acc out h; simp only [iterate, Except.ok.injEq] at h; subst h; exact ⟨[], by simp⟩
  | succ n ih =>
    intro env inp acc out h
    simp only [iterate, bind, Except.bind] at h
    cases hb : body env inp with
    | error e => simp [hb] at h
    | ok o =>
      simp only [hb] at h
      cases hctl : o.ctl <;> simp only [hctl] at h
      case normal | cont =>
        obtain ⟨evs, he⟩ := ih _ _ _ _ h
        exact ⟨o.events ++ evs, by simp [he]⟩
      all_goals (simp only [Except.ok.injEq] at h; subst h; exact ⟨o.events, rfl⟩)

/-- how a dequeue run (from L2's `dLdH`) ends -/
def DeqPost (c : Cfg) (ls : LState) (out : Out) (evs : List Event) : Prop :=
  ∃ ls', lrun c ls (absDeq L .none evs) = some ls' ∧
    ((out.ctl = .blocked ∨ out.ctl = .fuel) ∨ (out.ctl = .ret (some (.int 0)) ∧ ls'.pc = .idle) ∨
     (∃ hl, out.ctl = .ret (some (.ptr hl)) ∧ ls'.pc = .idle))

theorem deq_loop (c : Cfg) (hc : c.helpTail = true) (fuel : Nat) (fv : Val) (mbv : Int)
    (hpar : ∀ l a, L.addr l = some a → ∃ d, L.addr (.field l "parent") = some d) (iters : Nat) :
    ∀ (env : Env) (inp : List Val) (acc : List Event) (ls : LState) (out : Out),
      env.vars "q" = some (.ptr L.q) → Pinv L fv mbv env.priv → (∀ v ∈ inp, Typed L v) → ls.pc = .dLdH →
      iterate (fun e i => exec fuel deqBody e i) iters env inp acc = .ok out → NoAlloc out.events →
      ∃ evs, out.events = acc ++ evs ∧ DeqPost L c ls out evs := by
  induction iters with
  | zero =>
    intro env inp acc ls out h1 hP hwt hpc hok hno
    simp only [iterate, Except.ok.injEq] at hok
    subst hok
    exact ⟨[], by simp, ls, rfl, Or.inl (Or.inr rfl)⟩
  | succ iters ih =>
    intro env inp acc ls out h1 hP hwt hpc hok hno
    simp only [iterate, bind, Except.bind] at hok
    cases hb : exec fuel deqBody env inp with
    | error e => simp [hb] at hok
    | ok o =>
      simp only [hb] at hok
      have hcases : (o.ctl = .cont ∧ iterate (fun e i => exec fuel deqBody e i) iters o.env o.inp (acc ++ o.events) = .ok out) ∨
          (o.ctl ≠ .cont ∧ o.ctl ≠ .normal ∧ out.events = acc ++ o.events ∧
            out.ctl = (if o.ctl = .brk then .normal else o.ctl)) ∨
          (o.ctl = .normal ∧ iterate (fun e i => exec fuel deqBody e i) iters o.env o.inp (acc ++ o.events) = .ok out) := by
        cases hctl : o.ctl <;> simp [hctl] at hok ⊢ <;> first | exact hok | (subst hok; simp)
      have hsubev : ∀ e ∈ o.events, e ∈ out.events := by
        intro e he
        rcases hcases with ⟨_, hit⟩ | ⟨_, _, hev, _⟩ | ⟨_, hit⟩
        · obtain ⟨evs, h⟩ := iterate_prefix _ _ _ _ _ _ hit; simp [h, he]
        · simp [hev, he]
        · obtain ⟨evs, h⟩ := iterate_prefix _ _ _ _ _ _ hit; simp [h, he]
      have hB := deqBody_run L c hc fuel env inp fv mbv ls o h1 hP hpar hwt hpc hb
        (fun l mo hm => hno l mo (hsubev _ hm))
      obtain ⟨ls1, hrun1, hP', hsub, hfin⟩ := hB
      rcases hcases with ⟨hctl, hit⟩ | ⟨hnc, hnn, hev, hoc⟩ | ⟨hctl, hit⟩
      · rcases hfin with (h | h) | ⟨_, hp1, hq⟩ | ⟨h, _⟩ | ⟨_, h, _⟩ <;> try (simp [hctl] at h)
        obtain ⟨evs', hevs, ls', hrun, hfin'⟩ := ih o.env o.inp (acc ++ o.events) ls1 out (hq ▸ h1) hP'
          (fun v hv => hwt v (hsub v hv)) hp1 hit hno
        refine ⟨o.events ++ evs', by simp [hevs], ls', ?_, hfin'⟩
        rw [absDeq_append L _ _ (fun l mo hm => hno l mo (hsubev _ hm)), lrun_append, hrun1]
        exact hrun
      · refine ⟨o.events, hev, ls1, hrun1, ?_⟩
        rcases hfin with (h | h) | ⟨h, _⟩ | ⟨h, hp⟩ | ⟨hl, h, hp⟩
        · exact Or.inl (Or.inl (by simp [hoc, h]))
        · exact Or.inl (Or.inr (by simp [hoc, h]))
        · exact absurd h hnc
        · exact Or.inr (Or.inl ⟨by simp [hoc, h], hp⟩)
        · exact Or.inr (Or.inr ⟨hl, by simp [hoc, h], hp⟩)
      · rcases hfin with (h | h) | ⟨h, _⟩ | ⟨h, _⟩ | ⟨_, h, _⟩ <;> simp [hctl] at h

/-- **`_cds_lfq_dequeue_rcu(q)` – PARTIAL** (the `enqueue_dummy` path is excluded by `NoAlloc`; "never fails" is not
proved: the statement is about the runs that do not fail).  From L2's `dLdH` (after `deqCall`), `helpTail = true` (the
current code), every loop budget, oracle values NULL or node pointers: the labels `absDeq` extracts from the events
are accepted by the local automaton, and a returned node / NULL is reached at L2's `idle`. -/
theorem dequeue_refines_partial_env (c : Cfg) (hc : c.helpTail = true) (fuel : Nat) (env : Env) (inp : List Val)
    (fv : Val) (mbv : Int) (ls : LState) (out : Out) (h1 : env.vars "q" = some (.ptr L.q))
    (hP : Pinv L fv mbv env.priv) (hpar : ∀ l a, L.addr l = some a → ∃ d, L.addr (.field l "parent") = some d)
    (hwt : ∀ v ∈ inp, Typed L v) (hpc : ls.pc = .dLdH)
    (hok : exec fuel Gen.Src.«_cds_lfq_dequeue_rcu» env inp = .ok out) (hno : NoAlloc out.events) :
    DeqPost L c ls out out.events := by
  rw [show Gen.Src.«_cds_lfq_dequeue_rcu» = .loop deqBody from rfl] at hok
  simp only [exec] at hok
  obtain ⟨evs, hevs, hpost⟩ := deq_loop L c hc fuel fv mbv hpar fuel env inp [] ls out h1 hP hwt hpc hok hno
  simpa [hevs] using hpost

end UrcuVerif.Src.Queue.LfqR
