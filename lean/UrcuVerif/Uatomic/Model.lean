/-!
# C20 — uatomic operations (`include/urcu/uatomic/{api,x86,generic,builtins-generic}.h`)

Executable model, core Lean only (imported by the compiled driver `drv_uatomic`).

* memory is a function from byte addresses to bytes (`Nat → BitVec 8`, little endian);
  an object of width `w` (`w ∈ {8,16,32,64}` in the code, arbitrary `w` here) lives at
  `[o, o + w/8)`;
* every operation is ONE atomic step on that memory (`exec`): that a `lock`-prefixed instruction /
  `xchg` / an `__atomic` builtin really is one atomic step is hardware + compiler and is trusted
  (trusted-base 2), it is not something a model of the header text can show;
* the *macro plumbing* of the two implementations compiled on x86-64 is explicit:

  `Impl.x86` (default build, `urcu/uatomic/x86.h` + the tail of `generic.h`):
  operand `caa_cast_long_keep_sign(v)` = `(unsigned long)(v)` (sign- or zero-extension to 64 bits
  according to the *operand expression's* type) → `__uatomic_<op>(addr, unsigned long, sizeof)` whose
  `case` arm truncates to the arm's type and issues the instruction of that operand size → the
  `unsigned long` it returns is cast back with `(__typeof__(*(addr)))`.
  `uatomic_sub*` is `uatomic_add*` of `-(caa_cast_long_keep_sign(v))` (negation at 64 bits).
  `__uatomic_add_return`'s 1- and 2-byte arms return `result + (unsigned char)val` computed in
  `int` (integer promotion), i.e. a value that is NOT truncated to the width; only the macro's cast
  truncates it.  This is modelled literally (`x86AddReturn`).

  `Impl.builtins` (`-DCONFIG_RCU_USE_ATOMIC_BUILTINS`, `urcu/uatomic/builtins-generic.h`):
  the operand is converted directly to the pointee type by the builtin's prototype, `cmpxchg`
  casts `old` to the pointee type first, `add_return` is `__atomic_add_fetch`, `sub_return` is
  `__atomic_sub_fetch` (subtraction at width `w`, no 64-bit negation), `inc`/`dec` add/subtract the
  `int` literal `1`.

  `uatomic_set`/`uatomic_read` are `__atomic_store_n`/`__atomic_load_n` (C11 toolchains) or
  `CMM_STORE_SHARED`/`CMM_LOAD_SHARED` in both builds: an implicit conversion of the operand to
  the pointee type and a plain `mov`.

`spec` is the documented sequential semantics (`doc/uatomic-api.md`) at width `w`.
-/
namespace UrcuVerif.Uatomic

/-! ## C integer conversions -/

/-- Conversion of a value of a `kv`-bit integer type (signed iff `sgn`) to a `w`-bit integer
type: value preserving modulo `2^w` (C99 6.3.1.3; gcc's choice for signed targets). -/
def convTo {kv : Nat} (sgn : Bool) (v : BitVec kv) (w : Nat) : BitVec w :=
  if sgn then v.signExtend w else v.setWidth w

/-- An operand expression as the C compiler sees it: its integer type (signedness, width) and
its value. -/
structure Arg where
  sgn : Bool
  bits : Nat
  val : BitVec bits

/-- `caa_cast_long_keep_sign(v)` = `(unsigned long)(v)` -/
def Arg.long (a : Arg) : BitVec 64 := convTo a.sgn a.val 64
/-- implicit conversion of the operand to a `w`-bit type -/
def Arg.to (a : Arg) (w : Nat) : BitVec w := convTo a.sgn a.val w
/-- an operand of type `unsigned long` -/
def Arg.ulong (e : BitVec 64) : Arg := ⟨false, 64, e⟩
/-- an `int` literal -/
def Arg.int (i : Int) : Arg := ⟨true, 32, BitVec.ofInt 32 i⟩
/-- an operand that already has the pointee type (`w` bits, signedness of the pointee) -/
def Arg.native {w : Nat} (sgn : Bool) (v : BitVec w) : Arg := ⟨sgn, w, v⟩

/-- what a caller that converts the returned expression to `long` sees -/
def retLong {w : Nat} (sgn : Bool) (r : BitVec w) : BitVec 64 := convTo sgn r 64

/-! ## Byte memory -/

/-- little-endian value of the `k` bytes at `o` -/
def loadN (m : Nat → BitVec 8) (o : Nat) : Nat → Nat
  | 0 => 0
  | k+1 => (m o).toNat + 256 * loadN m (o+1) k

def load (w : Nat) (m : Nat → BitVec 8) (o : Nat) : BitVec w :=
  BitVec.ofNat w (loadN m o (w / 8))

def store (w : Nat) (m : Nat → BitVec 8) (o : Nat) (v : BitVec w) : Nat → BitVec 8 :=
  fun a => if o ≤ a ∧ a < o + w / 8 then BitVec.ofNat 8 (v.toNat / 256 ^ (a - o)) else m a

/-! ## Operations -/

inductive Op
  | set | read | xchg | cmpxchg | addReturn | subReturn | add | sub | inc | dec | and | or
  deriving DecidableEq, Repr

inductive Impl | x86 | builtins
  deriving DecidableEq, Repr

/-- Effect of one operation on the `w`-bit object: the value stored (`none`: nothing is stored)
and the value returned (`none`: `void`). -/
structure Eff (w : Nat) where
  st : Option (BitVec w)
  ret : Option (BitVec w)
  deriving DecidableEq, Repr

/-- Documented sequential semantics at width `w` (doc/uatomic-api.md). `a`, `b` are the operands
already converted to the pointee type. -/
def spec (op : Op) {w : Nat} (old a b : BitVec w) : Eff w :=
  match op with
  | .set => ⟨some a, none⟩
  | .read => ⟨none, some old⟩
  | .xchg => ⟨some a, some old⟩
  | .cmpxchg => ⟨if old = a then some b else none, some old⟩
  | .addReturn => ⟨some (old + a), some (old + a)⟩
  | .subReturn => ⟨some (old - a), some (old - a)⟩
  | .add => ⟨some (old + a), none⟩
  | .sub => ⟨some (old - a), none⟩
  | .inc => ⟨some (old + 1), none⟩
  | .dec => ⟨some (old - 1), none⟩
  | .and => ⟨some (old &&& a), none⟩
  | .or => ⟨some (old ||| a), none⟩

/-! ### x86.h: the `static inline unsigned long __uatomic_<op>(void *addr, unsigned long …, int len)`
functions. `mem` is the current content of the object; the result is what the instruction
stores and the `unsigned long` the function returns. -/

structure Inner (w : Nat) where
  st : Option (BitVec w)
  ret : Option (BitVec 64)
  deriving DecidableEq, Repr

/-- `unsigned T result = old; lock; cmpxchg<sz> (unsigned T)_new, *addr; return result;` —
the instruction compares the accumulator (`result`, `w` bits) with memory; equal: memory := source;
different: accumulator := memory. -/
def x86Cmpxchg (w : Nat) (mem : BitVec w) (old new : BitVec 64) : Inner w :=
  let result : BitVec w := old.setWidth w
  if mem = result then ⟨some (new.setWidth w), some (result.setWidth 64)⟩
  else ⟨none, some (mem.setWidth 64)⟩

/-- `xchg<sz> (unsigned T)val, *addr; return result;` -/
def x86Exchange (w : Nat) (mem : BitVec w) (val : BitVec 64) : Inner w :=
  ⟨some (val.setWidth w), some (mem.setWidth 64)⟩

/-- `unsigned T result = val; lock; xadd<sz> result, *addr; return result + (unsigned T)val;`
For the 1- and 2-byte arms the sum is computed in `int` (integer promotion) and is therefore not
reduced modulo `2^w`; for 4 and 8 bytes it wraps at the arm's width. -/
def x86AddReturn (w : Nat) (mem : BitVec w) (val : BitVec 64) : Inner w :=
  let v : BitVec w := val.setWidth w
  ⟨some (mem + v),
   some (if w < 32 then mem.setWidth 64 + v.setWidth 64 else (mem + v).setWidth 64)⟩

def x86And (w : Nat) (mem : BitVec w) (val : BitVec 64) : Inner w := ⟨some (mem &&& val.setWidth w), none⟩
def x86Or (w : Nat) (mem : BitVec w) (val : BitVec 64) : Inner w := ⟨some (mem ||| val.setWidth w), none⟩
def x86Add (w : Nat) (mem : BitVec w) (val : BitVec 64) : Inner w := ⟨some (mem + val.setWidth w), none⟩
def x86Inc (w : Nat) (mem : BitVec w) : Inner w := ⟨some (mem + 1), none⟩
def x86Dec (w : Nat) (mem : BitVec w) : Inner w := ⟨some (mem - 1), none⟩

/-- the macro's `(__typeof__(*(addr)))` cast of the returned `unsigned long` -/
def Inner.cast {w : Nat} (i : Inner w) : Eff w := ⟨i.st, i.ret.map (·.setWidth w)⟩

/-- Default x86 build: `uatomic_<op>(addr, a, b)` with operand expressions `a`, `b`. -/
def x86Macro (op : Op) (w : Nat) (mem : BitVec w) (a b : Arg) : Eff w :=
  match op with
  | .set => ⟨some (a.to w), none⟩
  | .read => ⟨none, some mem⟩
  | .xchg => (x86Exchange w mem a.long).cast
  | .cmpxchg => (x86Cmpxchg w mem a.long b.long).cast
  | .addReturn => (x86AddReturn w mem a.long).cast
  -- generic.h: uatomic_add_return_mo((addr), -(caa_cast_long_keep_sign(v)), mo)
  | .subReturn => (x86AddReturn w mem (Arg.ulong (-(a.long))).long).cast
  | .add => (x86Add w mem a.long).cast
  | .sub => (x86Add w mem (Arg.ulong (-(a.long))).long).cast
  | .inc => (x86Inc w mem).cast
  | .dec => (x86Dec w mem).cast
  | .and => (x86And w mem a.long).cast
  | .or => (x86Or w mem a.long).cast

/-- `-DCONFIG_RCU_USE_ATOMIC_BUILTINS` build. -/
def builtinsMacro (op : Op) (w : Nat) (mem : BitVec w) (a b : Arg) : Eff w :=
  match op with
  | .set => ⟨some (a.to w), none⟩
  | .read => ⟨none, some mem⟩
  | .xchg => ⟨some (a.to w), some mem⟩
  | .cmpxchg =>
    let old_ : BitVec w := a.to w          -- __typeof__(*(addr)) _old = (__typeof__(*(addr)))old;
    if mem = old_ then ⟨some (b.to w), some old_⟩   -- success: _old unchanged
    else ⟨none, some mem⟩                           -- failure: _old := *addr
  | .addReturn => ⟨some (mem + a.to w), some (mem + a.to w)⟩      -- __atomic_add_fetch
  | .subReturn => ⟨some (mem - a.to w), some (mem - a.to w)⟩      -- __atomic_sub_fetch
  | .add => ⟨some (mem + a.to w), none⟩
  | .sub => ⟨some (mem - a.to w), none⟩
  | .inc => ⟨some (mem + (Arg.int 1).to w), none⟩                 -- uatomic_add_mo(addr, 1, mo)
  | .dec => ⟨some (mem - (Arg.int 1).to w), none⟩                 -- uatomic_sub_mo(addr, 1, mo)
  | .and => ⟨some (mem &&& a.to w), none⟩
  | .or => ⟨some (mem ||| a.to w), none⟩

def macroEff : Impl → Op → (w : Nat) → BitVec w → Arg → Arg → Eff w
  | .x86 => x86Macro
  | .builtins => builtinsMacro

/-- commit an effect to memory -/
def commit (w : Nat) (m : Nat → BitVec 8) (o : Nat) (e : Eff w) : (Nat → BitVec 8) × Option (BitVec w) :=
  (match e.st with
   | some v => store w m o v
   | none => m, e.ret)

/-- One atomic step of the implementation `impl` on the object of width `w` at byte `o`. -/
def exec (impl : Impl) (op : Op) (w : Nat) (m : Nat → BitVec 8) (o : Nat) (a b : Arg) :
    (Nat → BitVec 8) × Option (BitVec w) :=
  commit w m o (macroEff impl op w (load w m o) a b)

/-- The documented semantics as a memory step. -/
def specExec (op : Op) (w : Nat) (m : Nat → BitVec 8) (o : Nat) (a b : BitVec w) :
    (Nat → BitVec 8) × Option (BitVec w) :=
  commit w m o (spec op (load w m o) a b)

/-! ## Concurrent runs: every operation is one atomic step; a schedule is a list. -/

/-- The additive read-modify-write operations and what each adds to the object. -/
def delta (op : Op) {w : Nat} (a : BitVec w) : Option (BitVec w) :=
  match op with
  | .add | .addReturn => some a
  | .sub | .subReturn => some (-a)
  | .inc => some 1
  | .dec => some (-1)
  | _ => none

def sumBV {w : Nat} : List (BitVec w) → BitVec w
  | [] => 0
  | x :: xs => x + sumBV xs

/-- One scheduled operation: issuing thread, object offset, operation and operands. -/
structure Sched where
  tid : Nat
  off : Nat
  op : Op
  a : Arg
  b : Arg

def runSched (impl : Impl) (w : Nat) (m : Nat → BitVec 8) : List Sched → (Nat → BitVec 8)
  | [] => m
  | s :: rest => runSched impl w (exec impl s.op w m s.off s.a s.b).1 rest

/-- Token exchange: thread `t` swaps the token it holds with the shared object at `o`
(`held[t] := uatomic_xchg(addr, held[t])`). -/
def xchgStep (impl : Impl) (w : Nat) (o : Nat) (st : (Nat → BitVec 8) × List (BitVec w)) (t : Nat) :
    (Nat → BitVec 8) × List (BitVec w) :=
  match st.2[t]? with
  | none => st
  | some tok =>
    let r := exec impl .xchg w st.1 o (Arg.native false tok) (Arg.native false tok)
    (r.1, st.2.set t (r.2.getD 0))

def runXchg (impl : Impl) (w : Nat) (o : Nat) (st : (Nat → BitVec 8) × List (BitVec w)) :
    List Nat → (Nat → BitVec 8) × List (BitVec w)
  | [] => st
  | t :: ts => runXchg impl w o (xchgStep impl w o st t) ts

end UrcuVerif.Uatomic
