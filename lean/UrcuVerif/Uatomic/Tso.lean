/-!
# x86-TSO abstract machine used by C20 (`rmw_is_fence`) and the store-buffering litmus on it

Owens–Sarkar–Sewell style: one FIFO store buffer per thread (a list, oldest first), a shared
memory.  A plain store appends to the issuing thread's buffer; a `flush` (environment step, always
enabled on a non-empty buffer) commits the oldest entry; a load returns the newest buffered value
of its own thread for that location, else memory; a locked read-modify-write (`xchg`,
`lock cmpxchg`, `lock xadd`, `lock add/and/or/inc/dec`) and `mfence` are enabled only when the
issuing thread's buffer is empty and act on memory atomically (hence they leave it empty).

That a `lock`-prefixed instruction / `xchg` of a real CPU behaves like `rmw` below is the
hardware assumption (trusted-base 2); the C20 check verifies by disassembly that the instructions
emitted for the uatomic RMWs are of that kind.

Generic over the types of thread ids and locations (executable; core Lean only).
-/
set_option linter.unusedSectionVars false
namespace UrcuVerif.Uatomic.Tso

def updF {α β} [DecidableEq α] (f : α → β) (i : α) (v : β) : α → β := fun j => if j = i then v else f j

structure M (T L : Type) where
  mem : L → Nat
  buf : T → List (L × Nat)

variable {T L : Type} [DecidableEq T] [DecidableEq L]

/-- newest buffered value for `l` (newest entry is last), else memory -/
def lookup (b : List (L × Nat)) (mem : L → Nat) (l : L) : Nat :=
  match b.reverse.find? (fun e => e.1 = l) with
  | some e => e.2
  | none => mem l

def M.store (s : M T L) (t : T) (l : L) (v : Nat) : M T L :=
  { s with buf := updF s.buf t (s.buf t ++ [(l, v)]) }

def M.load (s : M T L) (t : T) (l : L) : Nat := lookup (s.buf t) s.mem l

def M.flush (s : M T L) (t : T) : Option (M T L) :=
  match s.buf t with
  | [] => none
  | e :: rest => some { mem := updF s.mem e.1 e.2, buf := updF s.buf t rest }

/-- locked read-modify-write: enabled only with an empty own buffer; returns the old value -/
def M.rmw (s : M T L) (t : T) (l : L) (f : Nat → Nat) : Option (M T L × Nat) :=
  if s.buf t = [] then some ({ s with mem := updF s.mem l (f (s.mem l)) }, s.mem l) else none

def M.mfence (s : M T L) (t : T) : Option (M T L) := if s.buf t = [] then some s else none

/-! generic facts -/

theorem rmw_requires_empty {s s' : M T L} {t l f old} (h : s.rmw t l f = some (s', old)) :
    s.buf t = [] := by
  unfold M.rmw at h; split at h <;> simp_all

theorem rmw_leaves_empty {s s' : M T L} {t l f old} (h : s.rmw t l f = some (s', old)) :
    s'.buf t = [] := by
  unfold M.rmw at h; split at h
  · next hb => simp only [Option.some.injEq, Prod.mk.injEq] at h; obtain ⟨rfl, -⟩ := h; exact hb
  · simp at h

theorem rmw_atomic {s s' : M T L} {t l f old} (h : s.rmw t l f = some (s', old)) :
    old = s.mem l ∧ s'.mem l = f (s.mem l) ∧ ∀ l', l' ≠ l → s'.mem l' = s.mem l' := by
  unfold M.rmw at h; split at h
  · simp only [Option.some.injEq, Prod.mk.injEq] at h; obtain ⟨rfl, rfl⟩ := h
    simp [updF]; intro l' hl; simp [hl]
  · simp at h

theorem load_empty_buf (s : M T L) (t : T) (l : L) (h : s.buf t = []) : s.load t l = s.mem l := by
  simp [M.load, lookup, h]

/-- a thread reads its own latest buffered store (store forwarding) -/
theorem load_own_store (s : M T L) (t : T) (l : L) (v : Nat) : (s.store t l v).load t l = v := by
  simp [M.load, M.store, lookup, updF]

/-! ## Store-buffering litmus

    T0: x := 1; MID0; r0 := y          T1: y := 1; MID1; r1 := x

`MIDt` is either nothing (plain stores only, `Mid.plain`) or a locked RMW on a third location `z`
with an arbitrary update function (`Mid.rmw f`): `uatomic_xchg` (`f = fun _ => v`),
`uatomic_cmpxchg` (`f c = if c = old then new else c`; on x86 the instruction is locked whether
or not the comparison succeeds), `uatomic_add_return`/`uatomic_sub_return` (`f c = c ± v`). -/

inductive Loc | x | y | z
  deriving DecidableEq, Repr

inductive Pc | st | mid | ld | fin
  deriving DecidableEq, Repr

inductive Mid
  | plain
  | rmw (f : Nat → Nat)

inductive Act | store | mid | load | flush
  deriving DecidableEq, Repr

structure S where
  m : M Bool Loc
  pc : Bool → Pc
  r : Bool → Nat        -- value loaded (7 = not yet)
  ret : Bool → Nat      -- value returned by the RMW

def myLoc (t : Bool) : Loc := if t then .y else .x
def otherLoc (t : Bool) : Loc := if t then .x else .y

def init : S :=
  { m := { mem := fun _ => 0, buf := fun _ => [] }, pc := fun _ => .st, r := fun _ => 7, ret := fun _ => 7 }

/-- one step of thread `t` (`none` = not enabled); `k t` is what thread `t` does between its
store and its load -/
def step (k : Bool → Mid) (s : S) (t : Bool) : Act → Option S
  | .store =>
    if s.pc t = .st then some { s with m := s.m.store t (myLoc t) 1, pc := updF s.pc t .mid } else none
  | .mid =>
    if s.pc t = .mid then
      match k t with
      | .plain => some { s with pc := updF s.pc t .ld }
      | .rmw f =>
        match s.m.rmw t .z f with
        | some (m', old) => some { s with m := m', pc := updF s.pc t .ld, ret := updF s.ret t old }
        | none => none
    else none
  | .load =>
    if s.pc t = .ld then
      some { s with r := updF s.r t (s.m.load t (otherLoc t)), pc := updF s.pc t .fin }
    else none
  | .flush =>
    match s.m.flush t with
    | some m' => some { s with m := m' }
    | none => none

inductive Reach (k : Bool → Mid) : S → Prop
  | init : Reach k init
  | step {s s' t a} : Reach k s → step k s t a = some s' → Reach k s'

/-- run a schedule (executable) -/
def run (k : Bool → Mid) : S → List (Bool × Act) → Option S
  | s, [] => some s
  | s, (t, a) :: rest =>
    match step k s t a with
    | some s' => run k s' rest
    | none => none

theorem reach_run (k : Bool → Mid) : ∀ (sched : List (Bool × Act)) (s s' : S), Reach k s → run k s sched = some s' →
    Reach k s' := by
  intro sched
  induction sched with
  | nil => intro s s' h hr; simp only [run, Option.some.injEq] at hr; exact hr ▸ h
  | cons ta rest ih =>
    intro s s' h hr
    obtain ⟨t, a⟩ := ta
    simp only [run] at hr
    cases hst : step k s t a with
    | none => simp [hst] at hr
    | some s1 => simp only [hst] at hr; exact ih s1 s' (Reach.step h hst) hr

/-- the outcome the litmus asks about -/
def BothZero (s : S) : Prop :=
  s.pc true = .fin ∧ s.pc false = .fin ∧ s.r true = 0 ∧ s.r false = 0

/-- Invariant for the case where both threads have a locked RMW between store and load. -/
structure Inv (s : S) : Prop where
  memv : ∀ t, s.m.mem (myLoc t) = 0 ∨ s.m.mem (myLoc t) = 1
  buf_st : ∀ t, s.pc t = .st → s.m.buf t = []
  buf_mid : ∀ t, s.pc t = .mid → s.m.buf t = [] ∨ s.m.buf t = [(myLoc t, 1)]
  buf_after : ∀ t, (s.pc t = .ld ∨ s.pc t = .fin) → s.m.buf t = []
  mem_after : ∀ t, (s.pc t = .ld ∨ s.pc t = .fin) → s.m.mem (myLoc t) = 1
  mem_mid_empty : ∀ t, s.pc t = .mid → s.m.buf t = [] → s.m.mem (myLoc t) = 1
  key : ∀ t, s.pc t = .fin → s.r t = 0 → s.pc (!t) = .fin → s.r (!t) = 1


theorem inv_init : Inv init := by
  constructor <;> simp [init]

theorem inv_step {k : Bool → Mid} (hk : ∀ t, ∃ f, k t = .rmw f) {s s' : S} {t : Bool} {a : Act}
    (ih : Inv s) (st : step k s t a = some s') : Inv s' := by
  obtain ⟨a1, b, c, d, e, f, g⟩ := ih
  cases a with
  | store =>
    simp only [step] at st
    split at st
    · simp only [Option.some.injEq] at st; subst st
      constructor <;> simp only [updF, M.store] <;> grind
    · simp at st
  | mid =>
    obtain ⟨fn, hfn⟩ := hk t
    simp only [step, hfn, M.rmw] at st
    split at st
    · split at st
      · next hb heq =>
        split at heq
        · simp only [Option.some.injEq, Prod.mk.injEq] at heq st
          obtain ⟨rfl, rfl⟩ := heq
          subst st
          constructor <;> simp only [updF] <;> grind [myLoc]
        · simp at heq
      · simp at st
    · simp at st
  | load =>
    simp only [step] at st
    split at st
    · next hp =>
      simp only [Option.some.injEq] at st; subst st
      have hbt : s.m.buf t = [] := d t (Or.inl hp)
      constructor <;> simp only [updF, M.load, lookup, hbt] <;> (try simp) <;> grind [myLoc, otherLoc]
    · simp at st
  | flush =>
    simp only [step, M.flush] at st
    split at st
    · next m' heq =>
      split at heq
      · simp at heq
      · next e0 rest hb =>
        simp only [Option.some.injEq] at heq st
        subst heq; subst st
        have hpc : s.pc t = .mid := by
          cases hpc : s.pc t <;> grind
        have hb2 : s.m.buf t = [(myLoc t, 1)] := by grind
        have he : e0 = (myLoc t, 1) ∧ rest = [] := by grind
        obtain ⟨rfl, rfl⟩ := he
        constructor <;> simp only [updF] <;> grind [myLoc]
    · simp at st

theorem inv_reach {k : Bool → Mid} (hk : ∀ t, ∃ f, k t = .rmw f) {s : S} (h : Reach k s) : Inv s := by
  induction h with
  | init => exact inv_init
  | step _ st ih => exact inv_step hk ih st

end UrcuVerif.Uatomic.Tso
