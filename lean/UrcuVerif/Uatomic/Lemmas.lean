import UrcuVerif.Uatomic.Model
/-!
# C20 — helper lemmas for `UrcuVerif/Props/C20.lean`

Conversions (`convTo`), truncation laws on `BitVec`, the byte-memory round trip, the two macro
layers against `spec`, and the run lemmas (sums, token permutations).  Core Lean only.
-/
namespace UrcuVerif.Uatomic

/-! ## conversions / truncation -/
theorem setWidth_signExtend_of_le {kv : Nat} (v : BitVec kv) (w n : Nat) (hw : w ≤ n) :
    (v.signExtend n).setWidth w = v.signExtend w := by
  ext i hi
  have : i < n := by omega
  simp [BitVec.getElem_signExtend, this]

theorem convTo_trunc {kv : Nat} (sgn : Bool) (v : BitVec kv) (w : Nat) (hw : w ≤ 64) :
    (convTo sgn v 64).setWidth w = convTo sgn v w := by
  unfold convTo
  cases sgn
  · simp [BitVec.setWidth_setWidth_of_le _ hw]
  · simp [setWidth_signExtend_of_le _ _ _ hw]

theorem long_trunc (a : Arg) (w : Nat) (hw : w ≤ 64) : a.long.setWidth w = a.to w := convTo_trunc _ _ w hw

theorem setWidth_neg_of_le (w : Nat) (hw : w ≤ 64) (e : BitVec 64) : (-e).setWidth w = -(e.setWidth w) := by
  have h := BitVec.setWidth_add e (-e) hw
  have h0 : e + -e = 0 := by grind
  rw [h0] at h
  have h1 : (0 : BitVec 64).setWidth w = 0 := by simp
  rw [h1] at h
  grind
theorem zext_trunc (w : Nat) (hw : w ≤ 64) (a : BitVec w) : (a.setWidth 64).setWidth w = a := by
  rw [BitVec.setWidth_setWidth_of_le a hw, BitVec.setWidth_eq]
theorem int_one_to (w : Nat) : (Arg.int 1).to w = 1 := by
  simp only [Arg.to, Arg.int, convTo, if_true]
  have h : (BitVec.ofInt 32 1) = 1#32 := by decide
  rw [h, BitVec.signExtend_eq_setWidth_of_msb_false (by decide)]
  apply BitVec.eq_of_toNat_eq
  simp
theorem ulong_long (e : BitVec 64) : (Arg.ulong e).long = e := by
  simp [Arg.ulong, Arg.long, convTo]

/-- the raw-register form: what the `__uatomic_*` arms do with arbitrary 64-bit operands -/
theorem x86AddReturn_cast (w : Nat) (hw : w ≤ 64) (mem : BitVec w) (e : BitVec 64) :
    (x86AddReturn w mem e).cast = ⟨some (mem + e.setWidth w), some (mem + e.setWidth w)⟩ := by
  simp only [x86AddReturn, Inner.cast, Option.map_some]
  split
  · rw [BitVec.setWidth_add _ _ hw, zext_trunc w hw, zext_trunc w hw]
  · rw [zext_trunc w hw]

theorem x86Cmpxchg_cast (w : Nat) (hw : w ≤ 64) (mem : BitVec w) (e1 e2 : BitVec 64) :
    (x86Cmpxchg w mem e1 e2).cast =
      ⟨if mem = e1.setWidth w then some (e2.setWidth w) else none, some mem⟩ := by
  simp only [x86Cmpxchg]
  split
  · next h => simp [Inner.cast, zext_trunc w hw, h]
  · next h => simp [Inner.cast, zext_trunc w hw]

theorem x86_macro_eq_spec (op : Op) (w : Nat) (hw : w ≤ 64) (mem : BitVec w) (a b : Arg) :
    x86Macro op w mem a b = spec op mem (a.to w) (b.to w) := by
  cases op <;> simp only [x86Macro, spec, x86AddReturn_cast w hw, x86Cmpxchg_cast w hw, ulong_long,
    setWidth_neg_of_le w hw, long_trunc _ w hw, BitVec.sub_eq_add_neg] <;>
  simp only [x86Exchange, x86Add, x86And, x86Or, x86Inc, x86Dec, Inner.cast,
    Option.map_some, Option.map_none, zext_trunc w hw, setWidth_neg_of_le w hw, long_trunc _ w hw,
    BitVec.sub_eq_add_neg]

theorem builtins_macro_eq_spec (op : Op) (w : Nat) (mem : BitVec w) (a b : Arg) :
    builtinsMacro op w mem a b = spec op mem (a.to w) (b.to w) := by
  cases op <;> simp only [builtinsMacro, spec, int_one_to]
  split <;> simp_all

/-! ## byte memory -/

/-- bytes `[o+i, o+i+j)` of a stored value -/
theorem loadN_store (w : Nat) (m : Nat → BitVec 8) (o : Nat) (v : BitVec w) :
    ∀ (j i : Nat), i + j ≤ w / 8 →
      loadN (store w m o v) (o + i) j = v.toNat / 256 ^ i % 256 ^ j := by
  intro j
  induction j with
  | zero => intro i _; simp [loadN, Nat.mod_one]
  | succ j ih =>
    intro i h
    have h1 : o ≤ o + i ∧ o + i < o + w / 8 := by omega
    have ih' := ih (i + 1) (by omega)
    rw [show o + (i + 1) = o + i + 1 from rfl] at ih'
    simp only [loadN, ih']
    simp only [store, h1, and_self, if_true, BitVec.toNat_ofNat, Nat.add_sub_cancel_left]
    have e1 : v.toNat / 256 ^ (i + 1) = v.toNat / 256 ^ i / 256 := by
      rw [Nat.pow_succ, Nat.div_div_eq_div_mul]
    have e2 : ∀ x : Nat, x % 256 ^ (j + 1) = x % 256 + 256 * (x / 256 % 256 ^ j) := by
      intro x; rw [Nat.pow_succ, Nat.mul_comm, Nat.mod_mul]
    rw [e1, e2, show (2:Nat) ^ 8 = 256 from rfl]

theorem loadN_lt (m : Nat → BitVec 8) : ∀ (k o : Nat), loadN m o k < 256 ^ k := by
  intro k
  induction k with
  | zero => intro o; simp [loadN]
  | succ k ih =>
    intro o
    have := ih (o + 1)
    have hb := (m o).isLt
    simp only [loadN, Nat.pow_succ]
    omega

theorem load_store (k : Nat) (m : Nat → BitVec 8) (o : Nat) (v : BitVec (8 * k)) :
    load (8 * k) (store (8 * k) m o v) o = v := by
  have h := loadN_store (8 * k) m o v k 0 (by omega)
  simp only [Nat.add_zero, Nat.pow_zero, Nat.div_one] at h
  have hk : 8 * k / 8 = k := by omega
  apply BitVec.eq_of_toNat_eq
  simp only [load, hk, h, BitVec.toNat_ofNat]
  have : 256 ^ k = 2 ^ (8 * k) := by rw [Nat.pow_mul]
  rw [this, Nat.mod_mod, Nat.mod_eq_of_lt v.isLt]

theorem store_outside (w : Nat) (m : Nat → BitVec 8) (o : Nat) (v : BitVec w) (a : Nat)
    (h : a < o ∨ o + w / 8 ≤ a) : store w m o v a = m a := by
  have : ¬ (o ≤ a ∧ a < o + w / 8) := by omega
  simp [store, this]

/-- a load only depends on the bytes of its own range -/
theorem loadN_congr (m m' : Nat → BitVec 8) : ∀ (k o : Nat), (∀ a, o ≤ a → a < o + k → m a = m' a) →
    loadN m o k = loadN m' o k := by
  intro k
  induction k with
  | zero => intro o _; rfl
  | succ k ih =>
    intro o h
    simp only [loadN]
    rw [h o (by omega) (by omega), ih (o + 1) (fun a h1 h2 => h a (by omega) (by omega))]

theorem load_store_disjoint (w : Nat) (m : Nat → BitVec 8) (o o' : Nat) (v : BitVec w)
    (h : o' + w / 8 ≤ o ∨ o + w / 8 ≤ o') : load w (store w m o' v) o = load w m o := by
  unfold load
  rw [loadN_congr _ m (w / 8) o]
  intro a h1 h2
  exact store_outside w m o' v a (by omega)

/-! ## lists -/

theorem perm_swap_set {α} (a b : α) : ∀ (l : List α) (t : Nat), l[t]? = some b →
    (b :: l.set t a).Perm (a :: l) := by
  intro l
  induction l with
  | nil => intro t h; simp at h
  | cons c l ih =>
    intro t h
    cases t with
    | zero =>
      simp at h; subst h
      simp only [List.set_cons_zero]
      exact List.Perm.swap _ _ _
    | succ t =>
      simp only [List.getElem?_cons_succ] at h
      simp only [List.set_cons_succ]
      exact ((List.Perm.swap c b _).trans ((ih t h).cons c)).trans (List.Perm.swap a c l)

theorem sumBV_perm {w : Nat} {l l' : List (BitVec w)} (h : l.Perm l') : sumBV l = sumBV l' := by
  induction h with
  | nil => rfl
  | cons x _ ih => simp [sumBV, ih]
  | swap x y l => simp only [sumBV]; grind
  | trans _ _ ih1 ih2 => exact ih1.trans ih2

/-! ## the implementations against `spec`, memory steps, runs -/

theorem macroEff_eq_spec (impl : Impl) (op : Op) (w : Nat) (hw : w ≤ 64) (mem : BitVec w) (a b : Arg) :
    macroEff impl op w mem a b = spec op mem (a.to w) (b.to w) := by
  cases impl
  · exact x86_macro_eq_spec op w hw mem a b
  · exact builtins_macro_eq_spec op w mem a b

theorem exec_eq_specExec (impl : Impl) (op : Op) (w : Nat) (hw : w ≤ 64) (m : Nat → BitVec 8) (o : Nat)
    (a b : Arg) : exec impl op w m o a b = specExec op w m o (a.to w) (b.to w) := by
  simp only [exec, specExec, macroEff_eq_spec impl op w hw]

theorem commit_outside (w : Nat) (m : Nat → BitVec 8) (o : Nat) (e : Eff w) (addr : Nat)
    (h : addr < o ∨ o + w / 8 ≤ addr) : (commit w m o e).1 addr = m addr := by
  unfold commit
  cases e.st with
  | none => rfl
  | some v => exact store_outside w m o v addr h

/-- value of the object after committing an effect -/
theorem load_commit_same (k : Nat) (m : Nat → BitVec 8) (o : Nat) (e : Eff (8 * k)) :
    load (8 * k) (commit (8 * k) m o e).1 o = e.st.getD (load (8 * k) m o) := by
  unfold commit
  cases e.st with
  | none => rfl
  | some v => exact load_store k m o v

theorem load_commit_disjoint (w : Nat) (m : Nat → BitVec 8) (o o' : Nat) (e : Eff w)
    (h : o' + w / 8 ≤ o ∨ o + w / 8 ≤ o') : load w (commit w m o' e).1 o = load w m o := by
  unfold commit
  cases e.st with
  | none => rfl
  | some v => exact load_store_disjoint w m o o' v h

theorem spec_delta (op : Op) {w : Nat} (old a b d : BitVec w) (h : delta op a = some d) :
    (spec op old a b).st = some (old + d) := by
  cases op <;> simp only [delta, Option.some.injEq, reduceCtorEq] at h <;> subst h <;>
    simp [spec, BitVec.sub_eq_add_neg]

theorem runSched_sum (impl : Impl) (k : Nat) (hk : k ≤ 8) (o : Nat) :
    ∀ (sched : List Sched) (m : Nat → BitVec 8),
      (∀ s ∈ sched, s.off = o ∨ s.off + k ≤ o ∨ o + k ≤ s.off) →
      (∀ s ∈ sched, s.off = o → (delta s.op (s.a.to (8 * k))).isSome) →
      load (8 * k) (runSched impl (8 * k) m sched) o =
        load (8 * k) m o +
          sumBV ((sched.filter (fun s => s.off = o)).map (fun s => (delta s.op (s.a.to (8 * k))).getD 0)) := by
  intro sched
  induction sched with
  | nil => intro m _ _; simp [runSched, sumBV]
  | cons s rest ih =>
    intro m hloc hadd
    have hw : 8 * k ≤ 64 := by omega
    have hk8 : 8 * k / 8 = k := by omega
    simp only [runSched]
    rw [ih _ (fun s' h' => hloc s' (List.mem_cons_of_mem _ h')) (fun s' h' => hadd s' (List.mem_cons_of_mem _ h'))]
    rw [exec_eq_specExec impl s.op (8 * k) hw]
    by_cases hs : s.off = o
    · have hd := hadd s (List.mem_cons_self) hs
      obtain ⟨d, hd'⟩ := Option.isSome_iff_exists.mp hd
      simp only [specExec, hs, List.filter_cons, decide_true, if_true, List.map_cons, sumBV]
      rw [load_commit_same, spec_delta _ _ _ _ d hd']
      simp only [Option.getD_some, hd']
      grind
    · have hdis := hloc s (List.mem_cons_self)
      simp only [specExec, List.filter_cons, hs, decide_false]
      rw [load_commit_disjoint _ _ _ _ _ (by omega)]
      simp

theorem to_native {w : Nat} (v : BitVec w) : (Arg.native false v).to w = v := by
  simp [Arg.native, Arg.to, convTo]

theorem xchgStep_perm (impl : Impl) (k : Nat) (hk : k ≤ 8) (o : Nat) (st : (Nat → BitVec 8) × List (BitVec (8 * k)))
    (t : Nat) :
    let r := xchgStep impl (8 * k) o st t
    (load (8 * k) r.1 o :: r.2).Perm (load (8 * k) st.1 o :: st.2) := by
  have hw : 8 * k ≤ 64 := by omega
  simp only [xchgStep]
  cases h : st.2[t]? with
  | none => exact List.Perm.refl _
  | some tok =>
    simp only [exec_eq_specExec impl .xchg (8 * k) hw, specExec, spec, to_native]
    rw [load_commit_same]
    simp only [commit, Option.getD_some]
    exact perm_swap_set _ _ _ t h

end UrcuVerif.Uatomic
