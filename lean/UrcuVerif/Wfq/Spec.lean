import UrcuVerif.Wfq.Model
/-!
Reachability and the step-level FIFO refinement statement for the legacy `cds_wfq` model
(statement only; used by `Props/C10.lean`).
-/
namespace UrcuVerif.Wfq

inductive Reach : State → Prop
  | init : Reach init
  | step {s s' l} : Reach s → step s l = some s' → Reach s'

/-- what a step does to the abstract FIFO content `abs` (the chain without the dummy node):
an enqueue appends at its tail exchange; a dequeue hands out the first element, at the load that
finds its successor; NULL is answered only on an empty queue; every other step (including the
dummy node's trip through the queue) is a stutter -/
def Refines (s s' : State) : Label → Prop
  | .enqXchg _ n => abs s' = abs s ++ [n]
  | .sync t => abs s' = abs s ∨ ∃ nd, s.pc t = .sync nd ∧ nd ≠ D ∧ abs s = nd :: abs s' ∧ s'.pc t = .done (.node nd)
  | .q1 t => abs s' = abs s ∧ (s'.pc t = .done .null → abs s = [])
  | _ => abs s' = abs s

/-- the legacy queue is a FIFO: no duplicates inside, every step refines the sequential queue -/
def IsFifo : Prop := ∀ s, Reach s → (abs s).Nodup ∧ ∀ l s', step s l = some s' → Refines s s' l

end UrcuVerif.Wfq
