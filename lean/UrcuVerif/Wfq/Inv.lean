import UrcuVerif.Wfq.Spec
/-!
Inductive invariant of the legacy `cds_wfq` model (helper definitions and the inductive step; the
statement proved from it is `Wfq.IsFifo`, used by `Props/C10.lean`).
-/
set_option linter.unusedVariables false
set_option linter.unusedSimpArgs false
namespace UrcuVerif.Wfq
open UrcuVerif
open UrcuVerif.Wfcq (Linked lastOf cnt lastFor)

/-- what thread `t` knows at program counter `p` -/
def PcOk (s : State) (t : Nat) : Pc → Prop
  | .idle => True
  | .done _ => True
  | .enq old n dq => s.pnd old = true ∧ s.lnx old = n ∧ s.buf t = [] ∧ (dq = true → s.lock = some t ∧ n = D ∧ s.inq D = true)
  | .q1 => s.lock = some t ∧ s.inq D = true
  | .sync nd => s.lock = some t ∧ s.head = nd ∧ s.inq D = true
  | .redo => s.lock = some t ∧ s.inq D = false ∧ (s.wr D = none ∨ s.wr D = some t) ∧ s.pnd D = false

def pendOld : Pc → Option Nat
  | .enq old _ _ => some old
  | _ => none

structure Inv (s : State) : Prop where
  -- the chain from the consumer's head
  hd : s.chain.head? = some s.head
  linked : Linked s.lnx s.head s.chain.tail
  last : lastOf s.head s.chain.tail = s.tail
  lnxtail : s.lnx s.tail = 0
  nodup : s.chain.Nodup
  nodes : ∀ n, n ∈ s.chain → (n = D ∨ 3 ≤ n) ∧ s.inq n = true
  inq : ∀ n, s.inq n = true → n ∈ s.chain
  -- memory and store buffers
  ent_wr : ∀ t a v, (a, v) ∈ s.buf t → s.wr a = some t
  wr_ent : ∀ t a, s.wr a = some t → lastFor (s.buf t) a ≠ none
  ent_node : ∀ t a v, (a, v) ∈ s.buf t → v = s.lnx a
  wr_zero : ∀ t a, s.wr a = some t → s.next a = 0 ∧ cnt (s.buf t) a ≤ 1
  mem_node : ∀ a, s.next a ≠ 0 → s.next a = s.lnx a
  mem_node_eq : ∀ a, s.inq a = true → s.wr a = none → s.pnd a = false → s.next a = s.lnx a
  pnd_ok : ∀ a, s.pnd a = true → s.next a = 0 ∧ s.wr a = none ∧ s.lnx a ≠ 0 ∧ s.inq a = true
  tail_ok : s.next s.tail = 0 ∧ s.wr s.tail = none ∧ s.pnd s.tail = false
  -- program counters
  ok : ∀ t, PcOk s t (s.pc t)
  enq_inj : ∀ t u a, pendOld (s.pc t) = some a → pendOld (s.pc u) = some a → t = u
  d_out : s.inq D = false → ∃ t, s.lock = some t ∧ s.pc t = .redo

theorem inv_init : Inv init := by
  constructor <;> simp [init, D, PcOk, pendOld, Linked, lastOf]

theorem tail_mem {s : State} (I : Inv s) : s.tail ∈ s.chain := by
  have h1 := I.hd
  have h2 := I.last
  cases hc : s.chain with
  | nil => rw [hc] at h1; simp at h1
  | cons a l =>
    rw [hc] at h1 h2; simp at h1 h2; subst h1
    rw [← h2]; exact Wfcq.lastOf_mem_cons _ _

theorem chain_eq {s : State} (I : Inv s) : s.chain = s.head :: s.chain.tail := by
  have h1 := I.hd
  cases hc : s.chain with
  | nil => rw [hc] at h1; simp at h1
  | cons a l => rw [hc] at h1; simp at h1; subst h1; rfl

end UrcuVerif.Wfq
