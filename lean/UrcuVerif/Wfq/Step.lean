import UrcuVerif.Wfq.Inv
import UrcuVerif.Wfcq.Step4
/-!
Inductive step of the legacy `cds_wfq` invariant (one lemma per label), `inv_reach`, and the
FIFO refinement `isFifo : Wfq.IsFifo`.
-/
set_option linter.unusedVariables false
set_option linter.unusedSimpArgs false
namespace UrcuVerif.Wfq
open UrcuVerif
open UrcuVerif.Wfcq (Linked lastOf cnt lastFor)

theorem pcOk_setPc (s : State) (t : Nat) (p : Pc) (u : Nat) (x : Pc) : PcOk (setPc s t p) u x = PcOk s u x := by
  cases x <;> rfl

/-- a step that only moves the program counter of `t` to `p` (neither from nor to an append pc, not from `redo`) -/
theorem inv_setPc {s : State} (I : Inv s) (t : Nat) (p : Pc) (hok : PcOk s t p)
    (hp : pendOld p = none) (hr : s.pc t ≠ .redo) : Inv (setPc s t p) := by
  obtain ⟨i1, i2, i3, i4, i5, i6, i7, m1, m2, m3, m4, m5, m6, m7, m8, p1, p2, p3⟩ := I
  refine ⟨i1, i2, i3, i4, i5, i6, i7, m1, m2, m3, m4, m5, m6, m7, m8, ?_, ?_, ?_⟩
  · intro u
    rw [pcOk_setPc]
    by_cases hu : u = t
    · subst hu; simpa [setPc, upd] using hok
    · simpa [setPc, upd, hu] using p1 u
  · intro u v a h1 h2
    simp only [setPc, upd] at h1 h2
    by_cases hu : u = t
    · simp [hu, hp] at h1
    · by_cases hv : v = t
      · simp [hv, hp] at h2
      · simp only [hu, hv, if_false] at h1 h2; exact p2 u v a h1 h2
  · intro hd
    obtain ⟨u, h1, h2⟩ := p3 hd
    have : u ≠ t := by intro e; subst e; exact hr h2
    exact ⟨u, h1, by simp [setPc, upd, this, h2]⟩

theorem inv_fence {s s' : State} (I : Inv s) (t) (st : step s (.fence t) = some s') : Inv s' := by
  simp only [step] at st; split at st <;> simp at st; subst st; exact I

theorem inv_callDeq {s s' : State} (I : Inv s) (t) (st : step s (.callDeq t) = some s') : Inv s' := by
  simp only [step] at st; split at st <;> simp at st
  rename_i hg; subst st
  apply inv_setPc I
  · refine ⟨hg.2, ?_⟩
    cases hd : s.inq D with
    | true => rfl
    | false =>
      obtain ⟨u, h1, h2⟩ := I.d_out hd
      rw [hg.2] at h1; simp at h1; subst h1; rw [hg.1] at h2; simp at h2
  · rfl
  · rw [hg.1]; simp

theorem inv_ret {s s' : State} (I : Inv s) (t) (st : step s (.ret t) = some s') : Inv s' := by
  simp only [step] at st; split at st <;> simp at st
  rename_i r hpc; subst st
  exact inv_setPc I t _ trivial rfl (by rw [hpc]; simp)

theorem inv_q1 {s s' : State} (I : Inv s) (t) (st : step s (.q1 t) = some s') : Inv s' := by
  simp only [step] at st; split at st <;> simp at st
  rename_i hpc; subst st
  have hp := I.ok t; rw [hpc] at hp
  apply inv_setPc I
  · split
    · trivial
    · exact ⟨hp.1, rfl, hp.2⟩
  · split <;> rfl
  · rw [hpc]; simp

theorem inv_acquire {s s' : State} (I : Inv s) (t) (st : step s (.acquire t) = some s') : Inv s' := by
  simp only [step] at st; split at st <;> simp at st
  rename_i hg; subst st
  obtain ⟨hl, hb, hpc⟩ := hg
  obtain ⟨i1, i2, i3, i4, i5, i6, i7, m1, m2, m3, m4, m5, m6, m7, m8, p1, p2, p3⟩ := I
  refine ⟨i1, i2, i3, i4, i5, i6, i7, m1, m2, m3, m4, m5, m6, m7, m8, ?_, p2, ?_⟩
  · intro u
    have hu := p1 u
    show PcOk _ u (s.pc u)
    generalize s.pc u = pcu at hu
    cases pcu <;> simp only [PcOk] at hu ⊢ <;> grind
  · intro hd; obtain ⟨u, h1, -⟩ := p3 hd; rw [hl] at h1; simp at h1

theorem inv_release {s s' : State} (I : Inv s) (t) (st : step s (.release t) = some s') : Inv s' := by
  simp only [step] at st; split at st <;> simp at st
  rename_i hg; subst st
  obtain ⟨hl, hb, hpc⟩ := hg
  obtain ⟨i1, i2, i3, i4, i5, i6, i7, m1, m2, m3, m4, m5, m6, m7, m8, p1, p2, p3⟩ := I
  have hdin : s.inq D = true := by
    cases hd : s.inq D with
    | true => rfl
    | false => obtain ⟨u, h1, h2⟩ := p3 hd; rw [hl] at h1; simp at h1; subst h1; rw [hpc] at h2; simp at h2
  refine ⟨i1, i2, i3, i4, i5, i6, i7, m1, m2, m3, m4, m5, m6, m7, m8, ?_, p2, ?_⟩
  · intro u
    have hu := p1 u
    show PcOk _ u (s.pc u)
    by_cases hut : u = t
    · subst hut; rw [hpc]; trivial
    · generalize s.pc u = pcu at hu
      cases pcu <;> simp only [PcOk] at hu ⊢ <;> grind
  · intro hd; rw [hdin] at hd; simp at hd


theorem inv_flush {s s' : State} (I : Inv s) (t) (st : step s (.flush t) = some s') : Inv s' := by
  simp only [step] at st
  split at st <;> try (simp at st; done)
  rename_i a v rest hb
  simp only [Option.some.injEq] at st
  obtain ⟨i1, i2, i3, i4, i5, i6, i7, m1, m2, m3, m4, m5, m6, m7, m8, p1, p2, p3⟩ := I
  have hwa : s.wr a = some t := m1 t a v (by rw [hb]; simp)
  have hav : (a, v) ∈ s.buf t := by rw [hb]; simp
  have hmem : ∀ b w, (b, w) ∈ rest → (b, w) ∈ s.buf t := by intro b w h; rw [hb]; simp [h]
  have hcnt : ∀ q, cnt rest q ≤ cnt (s.buf t) q := by intro q; rw [hb]; exact Wfcq.cnt_cons_le a v rest q
  have hlfne : ∀ b, b ≠ a → lastFor (s.buf t) b ≠ none → lastFor rest b ≠ none := by
    intro b hne h; rw [hb] at h; exact Wfcq.lastFor_cons_ne_none a v rest b h (Ne.symm hne)
  -- only one entry for `a` was buffered
  have hone : lastFor rest a = none := by
    have := (m4 t a hwa).2
    rw [hb, Wfcq.cnt_cons] at this; simp at this
    exact (Wfcq.lastFor_none_cnt rest a).2 (by omega)
  have hwr' : (if lastFor rest a = none then upd s.wr a none else s.wr) = upd s.wr a none := by simp [hone]
  subst st
  simp only [hwr']
  refine ⟨i1, i2, i3, i4, i5, i6, i7, ?_, ?_, ?_, ?_, ?_, ?_, ?_, ?_, ?_, p2, p3⟩
  · -- ent_wr
    intro u b w h
    simp only [upd] at h ⊢
    by_cases hu : u = t
    · subst hu; simp only [if_true] at h
      have h1 := m1 u b w (hmem b w h)
      have hba : b ≠ a := by intro e; subst e; exact (Wfcq.lastFor_none_iff rest b).1 hone w h
      simp [hba, h1]
    · simp only [hu, if_false] at h
      have h1 := m1 u b w h
      have hba : b ≠ a := by intro e; subst e; rw [hwa] at h1; simp at h1; exact hu h1.symm
      simp [hba, h1]
  · -- wr_ent
    intro u b h
    simp only [upd] at h ⊢
    by_cases hba : b = a
    · simp [hba] at h
    · simp only [hba, if_false] at h
      have h2 := m2 u b h
      by_cases hu : u = t
      · subst hu; simp only [if_true]; exact hlfne b hba h2
      · simpa [hu] using h2
  · -- ent_node
    intro u b w h
    simp only [upd] at h
    by_cases hu : u = t
    · subst hu; simp only [if_true] at h; exact m3 u b w (hmem b w h)
    · simp only [hu, if_false] at h; exact m3 u b w h
  · -- wr_zero
    intro u b h
    simp only [upd] at h ⊢
    by_cases hba : b = a
    · simp [hba] at h
    · simp only [hba, if_false] at h ⊢
      have h2 := m4 u b h
      refine ⟨h2.1, ?_⟩
      by_cases hu : u = t
      · subst hu; simp only [if_true]; have := hcnt b; omega
      · simpa [hu] using h2.2
  · -- mem_node
    intro b h
    simp only [upd] at h ⊢
    by_cases hba : b = a
    · subst hba; simp; exact m3 t b v hav
    · simp only [hba, if_false] at h ⊢; exact m5 b h
  · -- mem_node_eq
    intro b hi hw hp
    simp only [upd] at hw ⊢
    by_cases hba : b = a
    · subst hba; simp; exact m3 t b v hav
    · simp only [hba, if_false] at hw ⊢; exact m6 b hi hw hp
  · -- pnd_ok
    intro b hp
    obtain ⟨h1, h2, h3, h4⟩ := m7 b hp
    have hba : b ≠ a := by intro e; subst e; rw [hwa] at h2; simp at h2
    exact ⟨by simp [upd, hba, h1], by simp [upd, hba, h2], h3, h4⟩
  · -- tail_ok
    obtain ⟨h1, h2, h3⟩ := m8
    have hba : s.tail ≠ a := by intro e; rw [e, hwa] at h2; simp at h2
    exact ⟨by simp [upd, hba, h1], by simp [upd, hba, h2], h3⟩
  · -- ok
    intro u
    have hu := p1 u
    show PcOk _ u (s.pc u)
    have hD : s.wr D = none → a ≠ D := by intro h e; subst e; rw [hwa] at h; simp at h
    generalize s.pc u = pcu at hu
    cases pcu <;> simp only [PcOk, upd] at hu ⊢ <;> grind


theorem inv_stIssue {s s' : State} (I : Inv s) (t) (st : step s (.stIssue t) = some s') : Inv s' := by
  simp only [step] at st
  split at st <;> try (simp at st; done)
  rename_i old n dq hpc
  simp only [Option.some.injEq] at st
  obtain ⟨i1, i2, i3, i4, i5, i6, i7, m1, m2, m3, m4, m5, m6, m7, m8, p1, p2, p3⟩ := I
  have hp := p1 t; rw [hpc] at hp
  obtain ⟨hpo, hlx, hbt, hdq⟩ := hp
  obtain ⟨hn0, hw0, hl0, hin0⟩ := m7 old hpo
  have hbuf : ∀ u v, (old, v) ∉ s.buf u := by
    intro u v h; have := m1 u old v h; rw [hw0] at this; simp at this
  have hwt : ∀ a, s.wr a ≠ some t := by
    intro a h; have := m2 t a h; rw [hbt] at this; simp at this
  have hinj : ∀ u, u ≠ t → pendOld (s.pc u) ≠ some old := by
    intro u hu h; exact hu (p2 u t old h (by rw [hpc]; rfl))
  subst st
  refine ⟨i1, i2, i3, i4, i5, i6, i7, ?ent_wr, ?wr_ent, ?ent_node, ?wr_zero, ?mem_node, ?mem_node_eq, ?pnd_ok, ?tail_ok, ?ok, ?enq_inj, ?d_out⟩
  all_goals (try (simp only [issue, upd, hbt, List.nil_append] at * ; grind [lastFor, cnt]))
  case ok =>
    intro u
    by_cases hut : u = t
    · subst hut
      simp only [upd, if_true]
      cases dq <;> simp [PcOk]
      exact ⟨(hdq rfl).1, (hdq rfl).2.2⟩
    · have hu := p1 u
      have hi := hinj u hut
      show PcOk _ u (upd s.pc t _ u)
      simp only [upd, hut, if_false]
      generalize s.pc u = pcu at hu hi
      cases pcu <;> simp only [PcOk, upd, issue, pendOld] at hu hi ⊢ <;> grind
  case enq_inj =>
    intro u v a h1 h2
    simp only [upd] at h1 h2
    by_cases hu : u = t
    · cases dq <;> simp [hu, pendOld] at h1
    · by_cases hv : v = t
      · cases dq <;> simp [hv, pendOld] at h2
      · simp only [hu, hv, if_false] at h1 h2; exact p2 u v a h1 h2


/-- the `xchg` of an append (enqueue of a node, or the dummy's re-enqueue by the dequeuer) -/
theorem inv_append {s : State} (I : Inv s) (t n : Nat) (dq : Bool)
    (hnin : s.inq n = false) (hwn : s.wr n = none) (hnd : n = D ∨ 3 ≤ n) (hbt : s.buf t = [])
    (hpend : pendOld (s.pc t) = none)
    (hdq : dq = true → s.lock = some t ∧ n = D)
    (hnq : dq = false → n ≠ D ∧ s.pc t ≠ .redo) : Inv (appendX s t n dq) := by
  have hce := chain_eq I
  have htm := tail_mem I
  obtain ⟨i1, i2, i3, i4, i5, i6, i7, m1, m2, m3, m4, m5, m6, m7, m8, p1, p2, p3⟩ := I
  have hnc : n ∉ s.chain := fun h => by have := (i6 n h).2; rw [hnin] at this; simp at this
  have hno : n ≠ s.tail := fun e => hnc (e ▸ htm)
  have hpn : s.pnd n = false := by
    cases h : s.pnd n with
    | false => rfl
    | true => have := (m7 n h).2.2.2; rw [hnin] at this; simp at this
  obtain ⟨hk1, hk2, hk3⟩ := m8
  have hnd' : (s.head :: s.chain.tail).Nodup := by rw [← hce]; exact i5
  have hnc' : n ∉ s.head :: s.chain.tail := by rw [← hce]; exact hnc
  have hpin : ∀ a, s.pnd a = true → a ≠ n ∧ a ≠ s.tail := by
    intro a h
    constructor
    · intro e; subst e; rw [hpn] at h; simp at h
    · intro e; subst e; rw [hk3] at h; simp at h
  have hbuf : ∀ u a v, (a, v) ∈ s.buf u → a ≠ n ∧ a ≠ s.tail := by
    intro u a v h; have := m1 u a v h
    constructor
    · intro e; subst e; rw [hwn] at this; simp at this
    · intro e; subst e; rw [hk2] at this; simp at this
  have hlf : ∀ u a v, lastFor (s.buf u) a = some v → a ≠ n ∧ a ≠ s.tail :=
    fun u a v h => hbuf u a v (Wfcq.lastFor_mem _ _ _ h)
  have htin : s.inq s.tail = true := (i6 _ htm).2
  have hn0 : n ≠ 0 := by rcases hnd with h | h <;> simp [h, D] <;> omega
  unfold appendX
  refine ⟨?hd, ?linked, ?last, ?lnxtail, ?nodup, ?nodes, ?inq, ?ent_wr, ?wr_ent, ?ent_node, ?wr_zero, ?mem_node,
    ?mem_node_eq, ?pnd_ok, ?tail_ok, ?ok, ?enq_inj, ?d_out⟩
  case hd => rw [hce]; simp
  case linked =>
    show Linked (upd (upd s.lnx n 0) s.tail n) s.head (s.chain ++ [n]).tail
    rw [hce]; simp only [List.cons_append, List.tail_cons]
    rw [Wfcq.Linked_snoc]
    constructor
    · have h1 := Wfcq.Linked_upd_last (upd s.lnx n 0) n s.head s.chain.tail hnd'
      rw [i3] at h1
      rw [h1, Wfcq.Linked_upd_notin _ _ _ _ _ hnc']
      exact i2
    · rw [i3]; simp [upd]
  case last =>
    show lastOf s.head (s.chain ++ [n]).tail = n
    rw [hce]; simp [Wfcq.lastOf_snoc]
  case lnxtail => simp [upd, hno]
  case nodup => exact List.nodup_append.2 ⟨i5, by simp, by intro a ha b hb; simp at hb; subst hb; intro e; exact hnc (e ▸ ha)⟩
  case nodes =>
    intro x hx
    simp only [List.mem_append, List.mem_singleton] at hx
    rcases hx with h | h
    · have := i6 x h; refine ⟨this.1, ?_⟩; simp only [upd]; split <;> simp [this.2]
    · subst h; exact ⟨hnd, by simp [upd]⟩
  case inq =>
    intro x hx
    simp only [upd] at hx
    simp only [List.mem_append, List.mem_singleton]
    by_cases e : x = n
    · exact Or.inr e
    · simp only [e, if_false] at hx; exact Or.inl (i7 x hx)
  case ok =>
    intro u
    by_cases hut : u = t
    · subst hut
      simp only [upd, if_true, PcOk]
      refine ⟨by simp, by simp, hbt, fun h => ⟨(hdq h).1, (hdq h).2, ?_⟩⟩
      have := (hdq h).2; subst this; simp
    · have hu := p1 u
      show PcOk _ u (upd s.pc t _ u)
      simp only [upd, hut, if_false]
      have hDt : s.inq D = false → D ≠ s.tail := by intro h e; rw [← e, h] at htin; simp at htin
      have hlk : ∀ v, s.lock = some v → s.lock = some t → v = t := by intro v h1 h2; rw [h1] at h2; simpa using h2
      generalize s.pc u = pcu at hu
      cases pcu <;> simp only [PcOk, upd] at hu ⊢ <;> grind
  case enq_inj =>
    intro u v a h1 h2
    simp only [upd] at h1 h2
    have key : ∀ w, w ≠ t → pendOld (s.pc w) = some a → a ≠ s.tail := by
      intro w hw h e
      have := p1 w
      generalize s.pc w = pcw at this h
      cases pcw <;> simp [pendOld] at h
      subst h; simp only [PcOk] at this; rw [e, hk3] at this; simp at this
    by_cases hu : u = t <;> by_cases hv : v = t
    · rw [hu, hv]
    · exfalso; simp [hu, hv, pendOld] at h1 h2; exact key v hv h2 h1.symm
    · exfalso; simp [hu, hv, pendOld] at h1 h2; exact key u hu h1 h2.symm
    · simp only [hu, hv, if_false] at h1 h2; exact p2 u v a h1 h2
  case d_out =>
    intro hd
    simp only [upd] at hd
    cases dq with
    | true => have := (hdq rfl).2; subst this; simp at hd
    | false =>
      have hnD := (hnq rfl).1
      simp only [Ne.symm hnD, if_false] at hd
      obtain ⟨u, h1, h2⟩ := p3 hd
      have : u ≠ t := by intro e; subst e; exact (hnq rfl).2 h2
      exact ⟨u, h1, by simp [upd, this, h2]⟩
  all_goals (try (simp only [upd] at * ; grind))


theorem rd_eq (s : State) (t a : Nat) :
    (∃ v, lastFor (s.buf t) a = some v ∧ rd s t a = v) ∨ (lastFor (s.buf t) a = none ∧ rd s t a = s.next a) := by
  unfold rd
  cases h : lastFor (s.buf t) a <;> simp

/-- facts about a non-NULL `next` read by the consumer from the node at the head -/
theorem sync_facts {s : State} (I : Inv s) (t nd : Nat) (hh : s.head = nd) (hv : rd s t nd ≠ 0) :
    rd s t nd = s.lnx nd ∧ s.pnd nd = false ∧ (s.wr nd = none ∨ s.wr nd = some t) ∧
    ∃ m, s.chain = nd :: rd s t nd :: m := by
  have hce := chain_eq I
  have hlk := I.linked
  have hls := I.last
  have hlt := I.lnxtail
  have h1 : rd s t nd = s.lnx nd := by
    rcases rd_eq s t nd with ⟨v, h1, h2⟩ | ⟨h1, h2⟩
    · rw [h2]; exact I.ent_node t nd v (Wfcq.lastFor_mem _ _ _ h1)
    · rw [h2] at hv ⊢; exact I.mem_node nd hv
  have h2 : s.pnd nd = false := by
    cases hp : s.pnd nd with
    | false => rfl
    | true =>
      exfalso
      obtain ⟨g1, g2, -, -⟩ := I.pnd_ok nd hp
      rcases rd_eq s t nd with ⟨v, g3, g4⟩ | ⟨g3, g4⟩
      · have := I.ent_wr t nd v (Wfcq.lastFor_mem _ _ _ g3); rw [g2] at this; simp at this
      · rw [g4] at hv; exact hv g1
  have h3 : s.wr nd = none ∨ s.wr nd = some t := by
    rcases rd_eq s t nd with ⟨v, g3, g4⟩ | ⟨g3, g4⟩
    · right; exact I.ent_wr t nd v (Wfcq.lastFor_mem _ _ _ g3)
    · left
      cases hw : s.wr nd with
      | none => rfl
      | some u => rw [g4] at hv; exact absurd (I.wr_zero u nd hw).1 hv
  refine ⟨h1, h2, h3, ?_⟩
  rw [hh] at hce hlk hls
  cases hr : s.chain.tail with
  | nil =>
    rw [hr] at hls; simp at hls
    rw [← hls] at hlt; rw [h1, hlt] at hv; exact absurd rfl hv
  | cons b m =>
    rw [hr] at hlk hce
    refine ⟨m, ?_⟩
    rw [hce, h1, hlk.1]

theorem inv_sync {s s' : State} (I : Inv s) (t) (st : step s (.sync t) = some s') : Inv s' := by
  simp only [step] at st
  split at st <;> try (simp at st; done)
  rename_i nd hpc
  split at st
  · rename_i hv
    simp only [Option.some.injEq] at st
    have hp := I.ok t; rw [hpc] at hp
    obtain ⟨hl, hh, hdin⟩ := hp
    obtain ⟨f1, f2, f3, m, hch⟩ := sync_facts I t nd hh hv
    obtain ⟨i1, i2, i3, i4, i5, i6, i7, m1, m2, m3, m4, m5, m6, m7, m8, p1, p2, p3⟩ := I
    have hnd : nd ∉ rd s t nd :: m := by rw [hch] at i5; exact (List.nodup_cons.1 i5).1
    rw [hch] at i2 i3
    simp only [List.tail_cons, Wfcq.Linked_cons, Wfcq.lastOf_cons] at i2 i3
    rw [hh] at i2
    subst st
    refine ⟨?hd, ?linked, ?last, i4, ?nodup, ?nodes, ?inq, m1, m2, m3, m4, m5, ?mem_node_eq, ?pnd_ok, m8, ?ok, ?enq_inj, ?d_out⟩
    case hd => simp [hch]
    case linked => simp only [hch, List.tail_cons]; exact i2.2
    case last => simp only [hch, List.tail_cons]; exact i3
    case nodup => rw [hch] at i5; simpa [hch] using (List.nodup_cons.1 i5).2
    case nodes =>
      intro x hx
      simp only [hch, List.tail_cons] at hx
      have hx' : x ∈ s.chain := by rw [hch]; exact List.mem_cons_of_mem _ hx
      have hxn : x ≠ nd := fun e => hnd (e ▸ hx)
      exact ⟨(i6 x hx').1, by simp [upd, hxn, (i6 x hx').2]⟩
    case inq =>
      intro x hx
      simp only [upd] at hx
      by_cases e : x = nd
      · simp [e] at hx
      · simp only [e, if_false] at hx
        have := i7 x hx; rw [hch] at this
        simp only [hch, List.tail_cons]
        simpa [e] using this
    case mem_node_eq =>
      intro a ha hw hp
      simp only [upd] at ha
      by_cases e : a = nd
      · simp [e] at ha
      · simp only [e, if_false] at ha; exact m6 a ha hw hp
    case pnd_ok =>
      intro a hp
      obtain ⟨g1, g2, g3, g4⟩ := m7 a hp
      have : a ≠ nd := by intro e; subst e; rw [f2] at hp; simp at hp
      exact ⟨g1, g2, g3, by simp [upd, this, g4]⟩
    case ok =>
      intro u
      by_cases hut : u = t
      · subst hut
        simp only [upd, if_true]
        by_cases e : nd = D
        · subst e; simp [PcOk, hl, f2]; exact f3
        · simp [e, PcOk]
      · have hu := p1 u
        show PcOk _ u (upd s.pc t _ u)
        simp only [upd, hut, if_false]
        have hlk : ∀ v, s.lock = some v → v = t := by intro v h; rw [hl] at h; simpa using h.symm
        generalize s.pc u = pcu at hu
        cases pcu <;> simp only [PcOk, upd] at hu ⊢ <;> grind
    case enq_inj =>
      intro u v a h1 h2
      simp only [upd] at h1 h2
      have hp' : ∀ x, pendOld (if nd = D then Pc.redo else Pc.done (Res.node nd)) ≠ some x := by
        intro x; split <;> simp [pendOld]
      by_cases hu : u = t
      · simp [hu] at h1; exact absurd h1 (hp' a)
      · by_cases hv' : v = t
        · simp [hv'] at h2; exact absurd h2 (hp' a)
        · simp only [hu, hv', if_false] at h1 h2; exact p2 u v a h1 h2
    case d_out =>
      intro hd
      simp only [upd] at hd
      by_cases e : nd = D
      · exact ⟨t, hl, by simp [upd, e]⟩
      · have : D ≠ nd := fun e2 => e e2.symm
        simp only [this, if_false] at hd; rw [hdin] at hd; simp at hd
  · simp only [Option.some.injEq] at st; subst st; exact I


theorem inv_enqXchg {s s' : State} (I : Inv s) (t n) (st : step s (.enqXchg t n) = some s') : Inv s' := by
  simp only [step] at st; split at st <;> simp at st
  rename_i hg; subst st
  obtain ⟨hpc, hn3, hinq, hwn, hbt⟩ := hg
  exact inv_append I t n false hinq hwn (Or.inr hn3) hbt (by rw [hpc]; rfl) (fun h => by simp at h)
    (fun _ => ⟨by simp [D]; omega, by rw [hpc]; simp⟩)

theorem inv_redo {s s' : State} (I : Inv s) (t) (st : step s (.redo t) = some s') : Inv s' := by
  simp only [step] at st; split at st <;> try (simp at st; done)
  rename_i hpc
  split at st <;> simp at st
  rename_i hbt; subst st
  have hp := I.ok t; rw [hpc] at hp
  obtain ⟨hl, hd, hw, hpn⟩ := hp
  have hwn : s.wr D = none := by
    rcases hw with h | h
    · exact h
    · have := I.wr_ent t D h; rw [hbt] at this; simp at this
  exact inv_append I t D true hd hwn (Or.inl rfl) hbt (by rw [hpc]; rfl) (fun _ => ⟨hl, rfl⟩) (fun h => by simp at h)

/-- **the invariant is inductive** -/
theorem inv_step {s s' : State} {l : Label} (I : Inv s) (st : step s l = some s') : Inv s' := by
  cases l with
  | flush t => exact inv_flush I t st
  | fence t => exact inv_fence I t st
  | acquire t => exact inv_acquire I t st
  | release t => exact inv_release I t st
  | enqXchg t n => exact inv_enqXchg I t n st
  | stIssue t => exact inv_stIssue I t st
  | callDeq t => exact inv_callDeq I t st
  | q1 t => exact inv_q1 I t st
  | sync t => exact inv_sync I t st
  | redo t => exact inv_redo I t st
  | ret t => exact inv_ret I t st

theorem inv_reach {s : State} (h : Reach s) : Inv s := by
  induction h with
  | init => exact inv_init
  | step _ st ih => exact inv_step ih st

theorem filter_snoc_D (l : List Nat) : (l ++ [D]).filter (· ≠ D) = l.filter (· ≠ D) := by
  simp [List.filter_append]

theorem step_refines {s s' : State} {l : Label} (I : Inv s) (st : step s l = some s') : Refines s s' l := by
  cases l with
  | enqXchg t n =>
    simp only [step] at st; split at st <;> simp at st
    rename_i hg; subst st
    have : n ≠ D := by simp [D]; omega
    simp [Refines, abs, appendX, List.filter_append, this]
  | sync t =>
    simp only [step] at st; split at st <;> try (simp at st; done)
    rename_i nd hpc
    have hp := I.ok t; rw [hpc] at hp
    split at st
    · rename_i hv
      simp only [Option.some.injEq] at st; subst st
      obtain ⟨-, -, -, m, hch⟩ := sync_facts I t nd hp.2.1 hv
      by_cases e : nd = D
      · left; subst e; simp [abs, hch]
      · right; exact ⟨nd, hpc, e, by simp [abs, hch, e], by simp [upd, e]⟩
    · simp only [Option.some.injEq] at st; subst st; left; rfl
  | q1 t =>
    simp only [step] at st; split at st <;> simp at st
    rename_i hpc; subst st
    refine ⟨rfl, ?_⟩
    intro hn
    by_cases e : s.head = D ∧ s.tail = D
    · have hce := chain_eq I
      have hls := I.last
      have hn' := I.nodup
      rw [hce] at hn'
      rw [e.1] at hls hce hn'
      have : s.chain.tail = [] := Wfcq.lastOf_eq_head D _ hn' (by rw [hls, e.2])
      rw [this] at hce
      simp [abs, hce]
    · simp [setPc, upd, e] at hn
  | redo t =>
    simp only [step] at st; split at st <;> try (simp at st; done)
    split at st <;> simp at st
    subst st
    simp [Refines, abs, appendX, List.filter_append]
  | flush t => simp only [step] at st; split at st <;> simp at st; subst st; rfl
  | fence t => simp only [step] at st; split at st <;> simp at st; subst st; rfl
  | acquire t => simp only [step] at st; split at st <;> simp at st; subst st; rfl
  | release t => simp only [step] at st; split at st <;> simp at st; subst st; rfl
  | stIssue t => simp only [step] at st; split at st <;> simp at st; subst st; rfl
  | callDeq t => simp only [step] at st; split at st <;> simp at st; subst st; rfl
  | ret t => simp only [step] at st; split at st <;> simp at st; subst st; rfl

/-- **the legacy queue is a FIFO** -/
theorem isFifo : IsFifo := fun s h =>
  ⟨(inv_reach h).nodup.filter _, fun _ _ st => step_refines (inv_reach h) st⟩

/-- conservation: the nodes inside are exactly the enqueued-and-not-yet-dequeued ones (`inq`) -/
theorem inq_iff_queued {s : State} (h : Reach s) (n : Nat) (hn : n ≠ D) : s.inq n = true ↔ n ∈ abs s := by
  have I := inv_reach h
  simp only [abs, List.mem_filter, decide_eq_true_eq]
  exact ⟨fun hi => ⟨I.inq n hi, hn⟩, fun hm => (I.nodes n hm.1).2⟩

end UrcuVerif.Wfq
