import UrcuVerif.Wfcq.Lists
/-!
# C10 — the legacy `cds_wfq` (include/urcu/static/wfqueue.h) on an explicit x86-TSO machine

One queue with its embedded dummy node.  Addresses: `0` = NULL, `1` = the dummy node `q->dummy`
(`D`), nodes `≥ 3`.  `tail` is the node whose `next` field `q->tail` points to; `head` is the
consumer-private `q->head` (a plain field only touched while holding the dequeue lock – lock
hand-over fences, so it is modelled as a plain variable).

* `_cds_wfq_enqueue`: `xchg(&q->tail, &node->next)` (`enqXchg`), then the release store
  `*old_tail = node` through the thread's FIFO store buffer (`stIssue`, later `flush`).
* `___cds_wfq_dequeue_blocking` (lock held): empty test `q->head == &q->dummy && load(q->tail) ==
  &q->dummy.next` (`q1`); `___cds_wfq_node_sync_next(node)` (`sync`: waits while `node->next` is
  NULL), `q->head = next`; when the node was the dummy it is re-initialised and re-enqueued
  (`redo` = the `xchg` of that enqueue, which drains the plain `dummy.next = NULL` store: folded into
  it; then `stIssue`) and the dequeue starts over.
* ghost: `chain` = the nodes from `head` on, in order (dummy included); the abstract FIFO content
  is `abs s = chain without the dummy`; `lnx`, `inq`, `pnd`, `wr` as in `Wfcq/Model.lean`.
-/
namespace UrcuVerif.Wfq
open UrcuVerif
open UrcuVerif.Wfcq (lastFor)

/-- the dummy node -/
def D : Nat := 1

inductive Res
  | unit
  | null
  | node (n : Nat)
  deriving DecidableEq, Repr

inductive Pc
  | idle
  | enq (old n : Nat) (dq : Bool)   -- after the xchg: the store `old.next := n` is still to be issued (`dq`: dummy re-enqueue)
  | q1                              -- dequeue: emptiness test
  | sync (nd : Nat)                 -- `___cds_wfq_node_sync_next(nd)`: about to load nd.next
  | redo                            -- the node was the dummy: re-initialise and `xchg` it back in
  | done (r : Res)
  deriving DecidableEq, Repr

structure State where
  next  : Nat → Nat
  tail  : Nat
  head  : Nat
  buf   : Nat → List (Nat × Nat)
  lock  : Option Nat
  pc    : Nat → Pc
  chain : List Nat
  lnx   : Nat → Nat
  inq   : Nat → Bool
  pnd   : Nat → Bool
  wr    : Nat → Option Nat

def init : State :=
  { next := fun _ => 0, tail := D, head := D, buf := fun _ => [], lock := none, pc := fun _ => .idle,
    chain := [D], lnx := fun _ => 0, inq := fun a => a == D, pnd := fun _ => false, wr := fun _ => none }

/-- the abstract FIFO content: the queued nodes without the dummy -/
def abs (s : State) : List Nat := s.chain.filter (· ≠ D)

def rd (s : State) (t a : Nat) : Nat := (lastFor (s.buf t) a).getD (s.next a)

def issue (s : State) (t a v : Nat) : State :=
  { s with buf := upd s.buf t (s.buf t ++ [(a, v)]), wr := upd s.wr a (some t) }

inductive Label
  | flush (t : Nat) | fence (t : Nat)
  | acquire (t : Nat) | release (t : Nat)
  | enqXchg (t n : Nat) | stIssue (t : Nat)
  | callDeq (t : Nat) | q1 (t : Nat) | sync (t : Nat) | redo (t : Nat)
  | ret (t : Nat)
  deriving DecidableEq, Repr

def Label.tid : Label → Nat
  | .flush t | .fence t | .acquire t | .release t | .enqXchg t _ | .stIssue t
  | .callDeq t | .q1 t | .sync t | .redo t | .ret t => t

def setPc (s : State) (t : Nat) (p : Pc) : State := { s with pc := upd s.pc t p }

/-- the append of node `n` by thread `t` (shared by enqueue and the dummy re-enqueue) -/
def appendX (s : State) (t n : Nat) (dq : Bool) : State :=
  { s with tail := n, next := upd s.next n 0, lnx := upd (upd s.lnx n 0) s.tail n, chain := s.chain ++ [n],
           inq := upd s.inq n true, pnd := upd s.pnd s.tail true, pc := upd s.pc t (.enq s.tail n dq) }

def step (s : State) : Label → Option State
  | .flush t =>
    match s.buf t with
    | (a, v) :: rest =>
      some { s with next := upd s.next a v, buf := upd s.buf t rest,
                    wr := if lastFor rest a = none then upd s.wr a none else s.wr }
    | [] => none
  | .fence t => if s.buf t = [] then some s else none
  | .acquire t =>
    if s.lock = none ∧ s.buf t = [] ∧ s.pc t = .idle then some { s with lock := some t } else none
  | .release t =>
    if s.lock = some t ∧ s.buf t = [] ∧ s.pc t = .idle then some { s with lock := none } else none
  | .enqXchg t n =>
    if s.pc t = .idle ∧ 3 ≤ n ∧ s.inq n = false ∧ s.wr n = none ∧ s.buf t = [] then some (appendX s t n false)
    else none
  | .stIssue t =>
    match s.pc t with
    | .enq old n dq =>
      some { issue s t old n with pnd := upd s.pnd old false,
                                  pc := upd s.pc t (if dq then .q1 else .done .unit) }
    | _ => none
  | .callDeq t =>
    if s.pc t = .idle ∧ s.lock = some t then some (setPc s t .q1) else none
  | .q1 t =>
    match s.pc t with
    | .q1 => some (setPc s t (if s.head = D ∧ s.tail = D then .done .null else .sync s.head))
    | _ => none
  | .sync t =>
    match s.pc t with
    | .sync nd =>
      if rd s t nd ≠ 0 then
        some { s with head := rd s t nd, chain := s.chain.tail, inq := upd s.inq nd false,
                      pc := upd s.pc t (if nd = D then .redo else .done (.node nd)) }
      else some s
    | _ => none
  | .redo t =>
    match s.pc t with
    | .redo => if s.buf t = [] then some (appendX s t D true) else none
    | _ => none
  | .ret t =>
    match s.pc t with
    | .done _ => some (setPc s t .idle)
    | _ => none

def run : State → List Label → Option State
  | s, [] => some s
  | s, l :: ls => match step s l with
    | none => none
    | some s' => run s' ls

end UrcuVerif.Wfq
