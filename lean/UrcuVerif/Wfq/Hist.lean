import UrcuVerif.Wfq.Step
/-!
Linearisation events of the legacy `cds_wfq` model and the history-level refinement to the
sequential FIFO queue (the counterpart of `Wfcq/Hist.lean`).

`ev s l` is the event step `l` records in state `s`, computed from *concrete* state only (the
thread's program counter, the consumer's `head`, `tail`, the value the load returns), never from
the ghost fields.  Linearisation points: enqueue = the `xchg` of `q->tail` (`enqXchg`); dequeue →
node = the load of `node->next` that finds the successor of a non-dummy node (`sync`, after which
`q->head` is moved forward and the node is returned); dequeue → NULL = the emptiness test
`q->head == &q->dummy && q->tail == &q->dummy.next` (`q1`).  The dummy node's trips through the
queue (`sync` on the dummy, `redo`, its link store) record no event.
-/
set_option linter.unusedVariables false
set_option linter.unusedSimpArgs false
namespace UrcuVerif.Wfq

/-! ### sequential specification -/
namespace Spec

inductive Op
  | enq (n : Nat)
  | deq
  deriving DecidableEq, Repr

inductive Res
  | unit                 -- enqueue returns nothing
  | null                 -- dequeue: NULL
  | node (n : Nat)       -- dequeue: the node
  deriving DecidableEq, Repr

def apply (st : List Nat) : Op → List Nat × Res
  | .enq n => (st ++ [n], .unit)
  | .deq =>
    match st with
    | [] => ([], .null)
    | n :: r => (r, .node n)

structure Ev where
  tid : Nat
  op : Op
  res : Res
  deriving DecidableEq, Repr

/-- `h` (newest event first) is a legal sequential FIFO history ending with content `st` -/
inductive Valid : List Ev → List Nat → Prop
  | nil : Valid [] []
  | cons {h st e st'} : Valid h st → e.res = (apply st e.op).2 → st' = (apply st e.op).1 → Valid (e :: h) st'

def enqs (n : Nat) : List Ev → Nat
  | [] => 0
  | e :: h => (match e.op with | .enq m => if m = n then 1 else 0 | _ => 0) + enqs n h

def outs (n : Nat) : List Ev → Nat
  | [] => 0
  | e :: h => (match e.res with | .node m => if m = n then 1 else 0 | _ => 0) + outs n h

/-- **lose nothing, duplicate nothing** (sequential fact) -/
theorem conservation {h st} (v : Valid h st) (n : Nat) : enqs n h = outs n h + st.count n := by
  induction v with
  | nil => simp [enqs, outs]
  | cons v hr hs ih =>
    rename_i h st e st'
    obtain ⟨t, op, res⟩ := e
    simp only at hr hs
    subst hr; subst hs
    cases op with
    | enq m =>
      simp only [enqs, outs, apply, List.count_append, List.count_cons, List.count_nil]
      by_cases e : m = n <;> simp [e] <;> omega
    | deq =>
      cases st with
      | nil => simp [enqs, outs, apply] at *; omega
      | cons a r =>
        simp only [enqs, outs, apply, List.count_cons] at *
        by_cases e : a = n <;> simp [e] at * <;> omega

/-- dequeued nodes come out in the order of their enqueues: the sequence of nodes handed out
(oldest first) followed by the content is the sequence of nodes enqueued (oldest first) -/
def enqSeq : List Ev → List Nat
  | [] => []
  | e :: h => enqSeq h ++ (match e.op with | .enq m => [m] | _ => [])

def outSeq : List Ev → List Nat
  | [] => []
  | e :: h => outSeq h ++ (match e.res with | .node m => [m] | _ => [])

theorem fifo_order {h st} (v : Valid h st) : enqSeq h = outSeq h ++ st := by
  induction v with
  | nil => simp [enqSeq, outSeq]
  | cons v hr hs ih =>
    rename_i h st e st'
    obtain ⟨t, op, res⟩ := e
    simp only at hr hs
    subst hr; subst hs
    cases op with
    | enq m => simp [enqSeq, outSeq, apply, ih]
    | deq =>
      cases st with
      | nil => simp [enqSeq, outSeq, apply, ih]
      | cons a r => simp [enqSeq, outSeq, apply, ih]

end Spec
open Spec

/-- the linearisation event recorded by step `l` in state `s` (`none`: not a linearisation point) -/
def ev (s : State) : Label → Option Ev
  | .enqXchg t n => some ⟨t, .enq n, .unit⟩
  | .q1 t =>
    match s.pc t with
    | .q1 => if s.head = D ∧ s.tail = D then some ⟨t, .deq, .null⟩ else none
    | _ => none
  | .sync t =>
    match s.pc t with
    | .sync nd => if rd s t nd ≠ 0 ∧ nd ≠ D then some ⟨t, .deq, .node nd⟩ else none
    | _ => none
  | _ => none

/-- reachability together with the history of linearisation events (newest first) -/
inductive ReachH : State → List Ev → Prop
  | init : ReachH init []
  | step {s s' l h} : ReachH s h → step s l = some s' → ReachH s' ((ev s l).toList ++ h)

theorem ReachH.reach {s h} (r : ReachH s h) : Reach s := by
  induction r with
  | init => exact Reach.init
  | step _ st ih => exact Reach.step ih st

theorem Reach.hist {s} (r : Reach s) : ∃ h, ReachH s h := by
  induction r with
  | init => exact ⟨[], ReachH.init⟩
  | step _ st ih => obtain ⟨h, ih⟩ := ih; exact ⟨_, ReachH.step ih st⟩

/-- a step is a stutter of the sequential queue or exactly the operation of its event, with the
result the implementation computed -/
def RefinesEv (s s' : State) : Option Ev → Prop
  | none => abs s' = abs s
  | some e => e.res = (apply (abs s) e.op).2 ∧ abs s' = (apply (abs s) e.op).1

theorem step_refines_ev {s s' : State} {l : Label} (I : Inv s) (st : step s l = some s') :
    RefinesEv s s' (ev s l) := by
  have hr := step_refines I st
  cases l with
  | enqXchg t n => exact ⟨rfl, hr⟩
  | q1 t =>
    have hst := st
    simp only [step] at st; split at st <;> try (simp at st; done)
    rename_i hpc
    simp only [Option.some.injEq] at st
    simp only [ev, hpc]
    obtain ⟨h1, h2⟩ := hr
    split
    · rename_i e
      have hn : s'.pc t = .done .null := by subst st; simp [setPc, upd, e]
      have := h2 hn
      exact ⟨by simp [apply, this], by rw [h1, this]; rfl⟩
    · exact h1
  | sync t =>
    have hst := st
    simp only [step] at st; split at st <;> try (simp at st; done)
    rename_i nd hpc
    simp only [ev, hpc]
    split
    · rename_i e
      simp only [e.1, ne_eq, not_false_eq_true, if_true, Option.some.injEq] at st
      subst st
      have hp := I.ok t; rw [hpc] at hp
      obtain ⟨-, -, -, m, hch⟩ := sync_facts I t nd hp.2.1 e.1
      have h1 : abs s = nd :: (abs s).tail := by simp [abs, hch, e.2]
      refine ⟨by rw [h1]; rfl, ?_⟩
      rw [h1]; simp [apply, abs, hch, e.2]
    · rename_i e
      rcases hr with h | ⟨nd', h1, h2, h3, h4⟩
      · exact h
      · rw [hpc] at h1; simp at h1; subst h1
        -- the step handed out `nd`: then it did read a non-NULL next
        exfalso
        by_cases hv : rd s t nd = 0
        · simp only [hv, ne_eq, not_true_eq_false, if_false, Option.some.injEq] at st
          subst st; rw [hpc] at h4; simp at h4
        · exact e ⟨hv, h2⟩
  | flush t => exact hr
  | fence t => exact hr
  | acquire t => exact hr
  | release t => exact hr
  | stIssue t => exact hr
  | callDeq t => exact hr
  | redo t => exact hr
  | ret t => exact hr

/-- **linearizability of the legacy queue**: the recorded history is a legal sequential FIFO
history ending in the abstract content of the model -/
theorem hist_valid {s : State} {h : List Ev} (r : ReachH s h) : Valid h (abs s) := by
  induction r with
  | init => exact Valid.nil
  | step r st ih =>
    rename_i s s' l h
    have := step_refines_ev (inv_reach r.reach) st
    cases he : ev s l with
    | none =>
      rw [he] at this
      simp only [Option.toList, List.nil_append]
      rw [show abs s' = abs s from this]; exact ih
    | some e =>
      rw [he] at this
      simp only [Option.toList, List.cons_append, List.nil_append]
      exact Valid.cons ih this.1 this.2

end UrcuVerif.Wfq
