import UrcuVerif.Wfq.Model
/-!
# Necessity witness for the legacy `cds_wfq` (concrete runs of the executable model, by `decide`)

`stepNoInit` is the model's `step` with ONE ingredient removed: the dequeuer re-enqueues the dummy
node **without** `_cds_wfq_node_init(node)` – `dummy.next` keeps the stale pointer to the node that
followed the dummy on its previous trip (seeded change `C10-wfq-dummy-requeued-with-stale-next`).
With an enqueuer suspended between its `xchg` and its link store, the dequeuer follows the stale
pointer: a node is delivered twice (and the in-flight node is skipped).
-/
namespace UrcuVerif.Wfq.Neg
open UrcuVerif UrcuVerif.Wfq

def runWith (f : State → Label → Option State) : State → List Label → Option State
  | s, [] => some s
  | s, l :: ls => match f s l with
    | none => none
    | some s' => runWith f s' ls

/-- dummy re-enqueue without re-initialising `dummy.next` -/
def stepNoInit (s : State) : Label → Option State
  | .redo t =>
    match s.pc t with
    | .redo => if s.buf t = [] then some { appendX s t D true with next := s.next } else none
    | _ => none
  | l => step s l

/-- T1 enqueues node 3; the dequeuer T0 passes the dummy, re-enqueues it and returns 3 (first
delivery).  T2 then exchanges the tail for node 4 and is suspended before its link store to
`dummy.next`.  T0 dequeues again. -/
def prefix1 : List Label :=
  [.enqXchg 1 3, .stIssue 1, .flush 1, .ret 1,
   .acquire 0, .callDeq 0, .q1 0, .sync 0, .redo 0, .stIssue 0, .flush 0, .q1 0, .sync 0]

def prefix2 : List Label := prefix1 ++ [.ret 0, .enqXchg 2 4, .callDeq 0, .q1 0, .sync 0]

/-- mutant: the first dequeue returns node 3; in the second one the dequeuer reads the stale
`dummy.next = &n3` although T2's store has not happened, walks to node 3 again and **returns node 3
a second time**, while node 4 – the only node in the queue – is skipped -/
theorem stale_dummy_next_delivers_twice :
    (runWith stepNoInit init prefix1).map (fun s => (s.pc 0, s.next D)) = some (.done (.node 3), 3) ∧
    (runWith stepNoInit init prefix2).map (fun s => (s.pc 0, s.head, s.pc 2)) = some (.redo, 3, .enq D 4 false) ∧
    (runWith stepNoInit init (prefix2 ++ [.redo 0, .stIssue 0, .flush 0, .q1 0, .sync 0])).map
      (fun s => (s.pc 0, s.pc 2)) = some (.done (.node 3), .enq D 4 false) := by decide

/-- real model, same schedule: `dummy.next` was re-initialised, the dequeuer reads NULL and waits
(stutters) for T2's link store; afterwards it returns node 4 -/
theorem real_waits_for_link :
    (run init prefix1).map (fun s => (s.pc 0, s.next D)) = some (.done (.node 3), 0) ∧
    (run init prefix2).map (fun s => (s.pc 0, s.head, abs s)) = some (.sync D, D, [4]) ∧
    (run init (prefix2 ++ [.stIssue 2, .flush 2, .sync 0, .redo 0, .stIssue 0, .flush 0, .q1 0, .sync 0])).map
      (fun s => (s.pc 0, abs s)) = some (.done (.node 4), []) := by decide

end UrcuVerif.Wfq.Neg
