#!/usr/bin/env python3
"""Writes MANIFEST.json from the table below (kept here so the manifest stays valid and in sync)."""
import json, os
ROOT = os.path.dirname(os.path.abspath(__file__))

# id -> dict(text, note, technique, design_ref, engine)
CLAIMED = {
 "C18": dict(
    text="Lean 4 theorems on an x86-TSO model of cds_list_{add,add_tail,del,replace}_rcu and the hlist equivalents executed store by store "
         "by one updater (plain stores and the publishing store through a FIFO store buffer, flushed at arbitrary times) against any "
         "number of readers loading `next` from memory inside sections: forward_chain_inv, traversal_terminates (measure), "
         "visits_in_order, resident_visited_exactly_once, visited_was_member, visited_initialised, never_touches_freed (GpSpec), "
         "memory_is_sequential_state; necessity witnesses (publish-before-init, del poisoning next) by decide. Floor = target. Tie: the "
         "real rculist.h/rcuhlist.h compiled with -fsanitize=thread against our own access callbacks (harness/rt/vrt_tsan.c) so that "
         "every plain next/prev store is an event and a scheduling point; updater parked between any two stores (random, PCT, "
         "one-preemption sweep); traversal oracles (garbage/missed/phantom/uninitialised/quarantine).",
    note="Trusted: Lean kernel; x86-TSO; one updater at a time (API contract); GpSpec for reclamation (harness-level grace period); "
         "gcc's -fsanitize=thread instrumentation reporting every plain access; compiler ordering of the release store checked by "
         "presence/kind/position only.",
    technique="Lean 4 inductive-invariant proof on a TSO transition system (single writer, FIFO buffer) + trace refinement at plain-access granularity",
    design_ref="§4 C18", engine="rculist"),
 "C08": dict(
    text="Lean 4 theorem C08_full_holds: for every sequence of cds_lfht operations (add, add_unique, add_replace, replace, del, lookup, "
         "next_duplicate, first/next, count_nodes, resize, destroy) on any hashes/keys and every accepted (init,min,max,flags,allocator) "
         "tuple, the model written as the C loops (mask lookup, walks from the bucket node, insertion position among equal reverse "
         "hashes, duplicate scan, flag+gc removal, level-wise grow/shrink, parameter normalisation of _cds_lfht_new_with_alloc) "
         "refines a reference multimap keyed by (hash,key): seq_refines_multimap (one-step simulation through an abstraction function, "
         "all 11 ops), seq_no_stuck (non-vacuity: enabled on every contract-respecting call), traversal_exactly_once, count_nodes_exact, "
         "destroy_iff_empty, resize_preserves_contents, lookup_finds_iff_present, new_normalises; bitrev_table_correct (decide +kernel "
         "over the table regenerated from the source each run), bitrev64_involutive/injective, bitrev split-order lemmas, "
         "count_order_spec/fls_spec. Tie: the real rculfhash.c + allocators on generated op sequences with adversarial hashes and all "
         "configuration tuples; every result, duplicate chain, exact traversal order, count and normalised parameter replayed on the "
         "model; independent C multimap oracle; ASan/UBSan build in thorough.",
    note="Trusted: Lean kernel; one thread (every cmpxchg succeeds); fls via bsr modelled as log2+1 (checked differentially); allocation "
         "never fails; allocator index arithmetic and the resize loop are C09's; AUTO_RESIZE bucket count treated as unobservable.",
    technique="Lean 4 refinement proof (simulation to a reference multimap by induction over operation sequences) + kernel-checked table; differential replay of the real source",
    design_ref="§4 C08", engine="lfht"),
 "C19": dict(
    text="Lean 4 theorems: handler_balanced / read_ongoing_unchanged / interrupted_lock_same_as_plain on a thread-local model in which a "
         "handler (any tree of sections, nested interruptions to any depth) may run between the plain read of the reader word and the "
         "store of every rcu_read_lock/rcu_read_unlock; and gp_guarantee / gp_litmus proved on the C01 TSO grace-period model extended "
         "with handler frames (sigPush/sigPop suspend a lock between its load of rcu_gp.ctr and its store; nested sections inside a "
         "lock that has stored but not returned), so the handler's section gets the full guarantee and the interrupted code's is not "
         "weakened. Tie: the C01 trace refinement on memb / mb / bp with synthetic signals delivered by the runtime at every shimmed "
         "event of reader and updater threads (incl. inside synchronize_rcu), depth up to 3; implementation oracle: reader word "
         "balanced around every handler; interruption classes counted in the evidence; plus, as supporting exploration, REAL asynchronous "
         "signals (pthread_kill at random instants) against the unshimmed memb / mb / bp sources with the same oracles "
         "(harness/scen/sig_real.c). qsbr excluded as documented.",
    note="Trusted: Lean kernel; handlers run to completion on the interrupted thread; synthetic delivery at shim points (real "
         "instruction-granularity delivery is not exercised); model and tie of C01; bp signal masking observed as trace events.",
    technique="Lean 4 structural-induction proof (balanced handler trees) + inductive invariant on the TSO GP model with handler frames; trace refinement with synthetic signal injection",
    design_ref="§4 C19", engine="gp"),
 "C09": dict(
    text="Lean 4 theorems for every requested size / max / current size: resize_terminates (the do-while loop of _do_cds_lfht_resize reaches "
         "size = least power of two >= the clamped request; fuel 1), resize_diverges_unfixed (record of the repaired defect), and on a "
         "transition system with one step per shared access (resizer pcs, lazy grow/shrink launches racing, FIFO work queue, resize and "
         "destroy callers): size_in_bounds / stored_targets_in_bounds (size and target always powers of two in [1,max]), "
         "lazy_shrink_never_overrides_grow, partition_covers (helper ranges + fallback tile [0,len) exactly once for every len, cpu mask "
         "and creation-failure point), alloc_before_publish / event_order_invariant (allocate->populate->publish; unpublish->GP->remove->"
         "GP->free), resizer_terminates_after_last_change, destroy_after_queued_resizes, bucket_at_{order,chunk,mmap}_in_bounds/_injective. "
         "Tie: the real rculfhash.c + allocators: differential tests of every pure helper, end-to-end event replay through a wrapping "
         "mm plug-in / recording allocator, partitioned 65536-bucket resize, counter-driven lazy grow/shrink with the real "
         "COUNT_COMMIT_ORDER, destroy behind queued resizes, destroy(attr) with a resize in flight, no resize work without AUTO_RESIZE; "
         "watchdog + independent C oracles; concurrent part: the schedules of the shared lfht batch that resize the table, judged by the "
         "resident / quarantine / gp / abort oracles (the theorems for 'contents preserved' are C08's resize_preserves_contents and "
         "C05/C07's resident_found / grow_before_publish / reclaim_safe, audited here too). Work queue (src/workqueue.c, Wq/Model.lean, "
         "Props/Workqueue.lean): work_exactly_once, work_fifo (a destroy work queued behind resize works runs after each of them), "
         "flush_waits_for_all_prior, completion_lifetime, worker_no_lost_wakeup + waker_not_stuck / measure (TSO store buffers for the "
         "plain futex := 0 stores), stop_after_drain, destroy_requires_empty; liveness queued_work_eventually_runs, "
         "flush_eventually_returns (fairness explicit); tie: the real workqueue.c under the shim (harness/scen/wq.c, Driver/Wq.lean)."
         " Source-translator tie (DESIGN 10.15) for the work queue part: urcu_workqueue_queue_work, pause / resume, the worker's PAUSE branch, splice and batch iteration are translated from the C text and proved against the Wq model's local projections (Props/SrcWq.lean, Props/SrcWq2.lean); the worker's futex wait / wake in Props/SrcFutex.lean."
,
    note="Trusted: Lean kernel; grace period as a counter; SC in the transition system; shims on pthread_create and "
         "urcu_workqueue_queue_work; destroy API contract. Observation recorded in DESIGN: __cds_lfht_resize_lazy_launch queues the work "
         "before storing resize_initiated=1 (auto-resize can stall); outside the listed properties.",
    technique="Lean 4 proofs (arithmetic of the resize loop, invariants of a resize/launch transition system, partition tiling) + differential and event-order replay of the real source",
    design_ref="§4 C09, §5", engine="lfhtresize"),
 "C13": dict(
    text="Lean 4 theorems for all (fct,arg) bit patterns and all stream lengths: codec_roundtrip, ring_decode/ring_roundtrip (free-running "
         "head/tail, ring wrap, SIZE-2 flush rule), ring_index_wrap (BitVec 64 across the 2^64 wrap), and on a model with any number of "
         "deferring threads, readers, barriers and reclaimer passes in any interleaving of API-level steps: defer_exactly_once_in_order, "
         "runs_after_gp, barrier_runs_all_prior, unregister_runs_all_prior, reregister_ok (+ reregister_aborts_unfixed as record of the "
         "repaired defect). Constants (queue size, mark, bit) regenerated from the source each run and their side conditions re-proved. "
         "Tie: the real urcu-defer-impl.h driven with adversarial streams (odd/mark arguments, odd-address and faulting function words, "
         "counters near 2^63/2^64, entries across the ring wrap); every stored word, counter and invocation replayed on the model; "
         "independent C oracle. Concurrent part (Defer/Conc*.lean, Props/C13Conc.lean): x86-TSO ring / store-buffer / runner model and "
         "TSO futex-handshake model, any number of owners and readers, all interleavings and buffer delays: tso_publication (a runner "
         "never reads a slot whose store has not reached memory), no_overwrite_unread, conc_exactly_once_in_order, conc_runs_after_gp, "
         "reclaimer_no_lost_wakeup, waker_not_stuck / waker_measure (<= 14 own steps); necessity witnesses Neg/C13 (no mb before "
         "wake_up_defer, scan before dec, tail published early). Tie of the concurrent part: the real urcu.c + urcu-defer-impl.h (mb, "
         "memb) under the cooperative runtime incl. the real defer thread, ring wrap, the SIZE-2 flush, futex fault plans, "
         "one-preemption sweeps of the dec->scan->wait and head-store->mb->futex-load windows. Liveness: C13_conc_full_proved "
         "(defer_thread_eventually_woken under weak fairness of the owners; Props/LiveC13.lean). Partial: the two L2 models are composed "
         "through their shared steps, not by a mechanised refinement."
         " Source-translator tie (DESIGN 10.15): _defer_rcu (producer, non-full path), rcu_defer_barrier_queue (consumer) and their round trip are translated from the C text on every run and proved against Defer/Codec, Ring, Model and the local projections of the concurrent model (Props/SrcDefer.lean); the _defer_rcu IR is replayed against ~200 compiled calls per run.",
    note="Trusted: Lean kernel; GpSpec as the meaning of synchronize_rcu; each API step atomic under rcu_defer_mutex (enqueue interleaves "
         "between snapshot/gp/run); harness shims (TLS array, mutex/thread/malloc hooks, SIGSEGV-simulated calls for non-callable "
         "function words); malloc succeeds; 64-bit long.",
    technique="Lean 4 proofs (codec round-trip by induction, ring/registration invariants; TSO ring and futex-handshake invariants) + differential replay on adversarial streams and event-level trace refinement of the real source under the cooperative runtime",
    design_ref="§4 C13, §5", engine="defer"),
 "C02": dict(
    text="Lean 4 theorems on two x86-TSO handshake models, any number of readers, all interleavings and all placements of spurious/EINTR/EAGAIN "
         "futex returns: no_lost_wakeup (a leader asleep on rcu_gp.futex always has a reader that will still wake it), gp_futex_range, "
         "waker_not_stuck + waker_measure (that reader is never blocked and reaches FUTEX_WAKE within 17 own steps), and for the wait "
         "node of merged callers waiter_no_lost_wakeup + waiter_teardown_safe; necessity witness lost_wakeup_without_fences. Tie: the "
         "C01 trace refinement (real wait_for_readers/wait_gp/wake_up_gp/urcu-wait.h under the shim, futex fault plans incl. ENOSYS "
         "compat path) plus a systematic one-preemption sweep around the spin->sleep transition; the runtime's deadlock/step-budget "
         "detectors give concrete failing schedules; qsbr's two-level waiting-flag handshake has its own TSO model and theorems "
         "(qsbr_no_lost_wakeup, qsbr_armed_visible); bp has no futex (poll loop) and is covered by the tie and the budget detector. "
         "lock_order_deadlock_free (Gp/Locks.lean: the wait-for graph of rcu_gp_lock / rcu_registry_lock has no cycle, chains <= 2, for any "
         "number of synchronize_rcu callers and (un)registering threads; discipline tied by the LOCK/UNLOCK events of the trace). "
         "Liveness with fairness as an explicit hypothesis on the infinite run (Machine/Fair.lean: weak fairness, leads-to by measure): on "
         "the two-pass grace-period model itself (Props/LiveC02Gp.lean) synchronize_rcu_eventually_returns - a grace period that has "
         "started reaches uEnd on every run with a weakly fair updater, draining store buffers (and forced fences with sys_membarrier), "
         "read-side sections that end (new ones may start at any time, handler frames included) and registration churn that stops; "
         "registration_churn_must_stop (machine-checked infinite run showing that proviso is necessary); "
         "qsbr_synchronize_rcu_eventually_returns; on the handshake models (Props/LiveC02.lean) leader_eventually_woken, "
         "readers_eventually_done, gp_eventually_completes, waiter_eventually_returns, qsbr_leader_eventually_woken. Partial: bp's "
         "init_lock is outside the lock model; the scan-loop model and the futex-handshake model are composed by interface."
         " Source-translator tie (DESIGN 10.15): the C text of wait_gp (memb, mb, qsbr), urcu_common_wake_up_gp / urcu_qsbr_wake_up_gp and of the wait-node functions (urcu_adaptative_busy_wait / wake_up, urcu_wait_add) is translated into Lean IR on every run and proved to refine the waiter / waker local projections of the handshake models (Props/SrcFutex.lean) under the futex system-call contract."
,
    note="Trusted: Lean kernel; x86-TSO + futex + sys_membarrier contracts; fair scheduler for 'eventually'; the abstract handshake "
         "models are related to the code by the event-level replay on explored schedules only.",
    technique="Lean 4 inductive-invariant proofs (TSO futex handshake, wait-node hand-over) + event-level trace refinement with fault injection and systematic preemption sweep",
    design_ref="§4 C02", engine="gp"),
 "C15": dict(
    text="Lean 4 theorems on the C01 grace-period model with readers registering/unregistering at any time relative to both scan passes: "
         "unregistered_never_scanned, scan_targets_registered, lists_partition, registered_late_not_waited, unregister_leaves_clean, and "
         "gp_guarantee itself (proved on the model with dynamic registration). Tie: the C01 trace refinement with register/unregister "
         "churn; the driver tracks registry/cur_snap/qs as ordered lists exactly as the cds_list operations order them, so every scan "
         "load must hit the reader the C list order dictates (memb, mb, qsbr, bp). bp flavor (Gp/BpArena.lean, Props/C15Bp.lean): "
         "registry arena as a transition system with one step per critical section — slot_stable, growth_extends_last_only, slot_unique, "
         "thread_has_one_slot, register_first_free, slot_reuse, capacity_closed_form, used_counts_exact, registry_matches_alloc, "
         "registration_never_fails, exit_unregisters, prune_keeps_only_forking_thread, unmap_only_when_empty; registration versus "
         "signals: registration_signal_atomic, never_registered_twice, registry_lock/init_lock_never_self_deadlocks, signal_safe (+ the "
         "Lean record of the repaired exit-path deadlock). Tie for bp: the real urcu-bp.c with mmap/mremap/munmap/pthread_sigmask/"
         "mutex/key functions interposed, up to 140 simulated and 70 real threads, mremap outcomes forced, SIGUSR1 handlers using RCU "
         "raised around every interposed call; every arena decision replayed on the model (Driver/BpArena.lean)."
         " Source-translator tie (DESIGN 10.15): rcu_register_thread / rcu_unregister_thread of memb and qsbr are translated from the C text and proved to be L2's reg / unreg under the registry lock (qsbr: online after the unlock, offline before the lock); for bp the signal-mask / init_lock / registry_lock bracket of urcu_bp_register / unregister and the exact effects of cleanup_thread and expand_arena are proved (Props/SrcReg.lean)."
,
    note="Trusted: as C01; bp arena: slot identity stands for the address (chunks only appended, successful in-place mremap does not move: OS "
         "contract, real pointers of live readers compared after every section); each rcu_registry_lock / init_lock critical section is "
         "one atomic model step; handlers only run rcu_read_lock/unlock.",
    technique="Lean 4 inductive-invariant proofs (TSO grace-period model with dynamic registration; bp registry-arena and signal-mask transition systems) + event-level trace refinement with registration churn and interposed OS calls",
    design_ref="§4 C15", engine="gp"),
 "C20": dict(
    text="Lean 4 theorems over BitVec w for every width (8/16/32/64) and every operand: op_semantics (each uatomic op of the x86 and the "
         "builtins implementation returns/stores the documented sequential result truncated to w, independent of the upper bits of the "
         "extended operand), neighbours_untouched, rmw_no_lost_update / xchg_tokens_conserved (by construction of atomic steps), "
         "rmw_is_fence on an explicit x86-TSO machine (SB litmus forbidden with a locked RMW between store and load, reachable "
         "without). Tie: the real headers (default x86, -DCONFIG_RCU_USE_ATOMIC_BUILTINS, gnu99) run on boundary/exhaustive-8-bit/"
         "random operands, every result and the 16-byte memory image replayed on the model; plain-C oracle; disassembly check that "
         "RMWs are lock-prefixed/xchg of the right size; multi-thread hammer and hardware SB litmus as supporting exploration.",
    note="Trusted: Lean kernel; that the CPU honours lock/xchg atomicity and fence semantics (hardware, not provable here); gcc emits the "
         "asm as written (checked by disassembly); the exhaustive 8-bit runs are tests, no theorem depends on them; x86-64 only.",
    technique="Lean 4 BitVec proofs of the width/extension plumbing + TSO litmus invariant; differential replay of the real headers; disassembly check",
    design_ref="§4 C20", engine="uatomic"),
 "C01": dict(
    text="Lean 4 theorems gp_guarantee / gp_litmus / nested_only_outermost: inductive invariant (23 clauses, one lemma per transition) "
         "over an explicit x86-TSO model of the two-pass phase-flip grace period of src/urcu.c, for any number of readers, any nesting, "
         "readers (un)registering at any time, any number of grace periods, in the three configurations memb+sys_membarrier, memb "
         "fallback and mb; the bp flavor is the same algorithm and model; qsbr has its own TSO model (Gp/Qsbr.lean: counter increment, "
         "single scan, offline/online, caller offline during its own grace period) with gp_guarantee_qsbr / gp_litmus_qsbr / "
         "waited_reader_stays_old. Tie: the real urcu.c, urcu-qsbr.c, urcu-bp.c + static headers run unmodified under a macro shim and a deterministic cooperative "
         "scheduler; every shared access/barrier/lock/futex event of every thread is matched against an event-level transliteration "
         "of the C text (Driver/Gp.lean) which replays the induced labels on the proven model. TSO-only failures are reported with the "
         "Lean-checked necessity witness (Neg/C01.lean). Configurations run: memb+membarrier, memb fallback, mb, qsbr, bp with and without "
         "sys_membarrier. Partial: the 32-bit two-phase qsbr variant is not built here."
         " Source-translator tie (DESIGN 10.15): the C text of rcu_read_lock/unlock/read_ongoing of memb, mb, bp, of the qsbr quiescent_state / offline / online, and of synchronize_rcu + wait_for_readers + urcu_common_reader_state + wait_gp + smp_mb_master (memb, mb) is translated into Lean IR on every run (harness/gen/gen_src.py -> Gen/Src.lean) and PROVED, for every oracle / schedule prefix, to refine the thread-local projection of the TSO model (Props/SrcRead.lean, Props/SrcSync.lean; also without the QueueQuiet hypothesis: the wait-queue callees pass a syntactic quietness check evaluated on the generated bodies; bp and qsbr synchronize_rcu in Props/SrcSync2.lean; the registry lists enter through an explicit list-oracle discipline); the IR is validated against the compiled code by replaying the harness traces on it (Driver/Src.lean, incl. whole synchronize_rcu calls).",
    note="Trusted: Lean kernel; x86-TSO machine and sys_membarrier contract; the event-level transliteration is validated on the "
         "explored schedules only (not proved to refine the abstract model); harness runs are SC; compiler barriers checked for "
         "presence only; 64-bit counters do not wrap.",
    technique="Lean 4 inductive-invariant proof on an x86-TSO transition system + event-level trace refinement of the real source under a cooperative scheduler",
    design_ref="§4 C01, §10", engine="gp"),
 "C11": dict(
    text="Lean 4 theorems on x86-TSO explicit-pc models of cds_wfs (Wfs/Model.lean) and cds_lfs / legacy cds_lfs_rcu (Lfs/Model.lean), any "
         "number of threads, every interleaving, nodes recycled, per-thread FIFO store buffers: wfs_refines_lifo / lfs_refines_lifo (the "
         "history of linearisation events with the results computed from concrete memory is a legal sequential LIFO history and memory "
         "represents the abstract stack; every step is a stutter or the sequential operation), *_each_node_popped_once (conservation), "
         "*_pop_all_returns_all_in_lifo_order_and_empties, *_iteration_exact, *_push_ret_consistent, *_empty_consistent, "
         "*_pop_null_iff_empty, lfs_pop_returns_top; C11_full_holds: both stacks refine the sequential LIFO under every documented "
         "scheme - internal mutex, single consumer, concurrent poppers in RCU read-side sections with node recycling only after a "
         "GpSpec grace period (wfstack technique 1 included); wfs_no_aba / lfs_no_aba for all three; wfs/lfs_rcu_node_not_recycled, "
         "wfs_rcu_recycle_after_gp, lfs_tso_private_init, wfs_iteration/pop_past_incomplete_push; necessity witnesses Wfs/Neg.lean, "
         "Lfs/Neg.lean (unprotected concurrent pops + immediate re-push => stale-next cmpxchg, node delivered twice). Tie: the real src/wfstack.c, src/lfstack.c, src/rculfstack.c (+ real "
         "src/urcu.c for the RCU scheme) under the macro shim and cooperative scheduler; every trace replayed by Driver/Wfs.lean / "
         "Driver/Lfs.lean on the proven models; independent C oracle (LIFO linearizability, return values, exactly-once, recycled-node "
         "accesses); random/PCT/one-preemption sweep; 7 configurations incl. wfs/rcu (real urcu memb, concurrent mutex-free poppers, "
         "pop-vs-pop cmpxchg failures required by coverage)."
         " Source-translator tie (DESIGN 10.15): the C text of wfstack push / pop / pop_all / empty / node_sync_next and lfstack push / pop / pop_all / empty is translated into Lean IR on every run and proved to refine the thread-local projections of the Wfs / Lfs models (Props/SrcStack.lean); IR replayed against the compiled code's traces.",
    note="Trusted: Lean kernel; x86-TSO; GpSpec as the meaning of synchronize_rcu (composition by interface, the model's guard is "
         "re-checked at every real synchronize_rcu return on explored schedules); one popped list per thread at a time; L1 ⊑ L2 checked on "
         "explored schedules only; plain node->next initialisation reported by the scenario.",
    technique="Lean 4 refinement/invariant proofs on TSO transition systems (ghost abstract stack, linearisation events) + event-level trace refinement of the real sources",
    design_ref="§4 C11", engine="stacks"),
 "C12": dict(
    text="Lean 4 theorem C12_full_holds on an executable step-level model of include/urcu/static/rculfqueue.h (one step per load / "
         "cmpxchg of enqueue, enqueue_dummy, dequeue incl. the tail help, destroy; any number of threads, every interleaving, threads "
         "suspended anywhere, nodes and dummies recycled after an abstract GpSpec grace period), for the text in /repo today "
         "(Current c): lfq_refines_fifo / lfq_trace_refines (every step of every thread in every reachable state is a step of the "
         "sequential FIFO; linearisation points: link CAS, head CAS on a non-dummy, the load head->next == NULL on a dummy; "
         "linearisation_inside_call), each_node_dequeued_once (enqd = deqd ++ abs, no duplicates), dequeue_null_only_if_empty_at_some_"
         "instant, dummy_never_returned, dummy_freed_after_gp, no_aba, reclaim_blocked_while_held, tail_lags_at_most_one, "
         "destroy_iff_empty, private_until_published; the two pre-fix texts are model switches with Lean-checked defect witnesses "
         "(uaf_reachable_unfixed, destroy_eperm_on_empty_reachable_unfixed). Tie: the real src/rculfqueue.c + header and the real "
         "src/urcu.c (memb with/without sys_membarrier, mb; call_rcu helper as a cooperative thread) under the shim; random/PCT/one-"
         "preemption sweep/directed schedules replayed by Driver/Lfq.lean on the model; independent oracles (Henzinger-Sezgin-Vafeiadis "
         "FIFO patterns, dummy, count, destroy, gp, page quarantine of freed nodes/dummies, DEADLOCK/BUDGET)."
         " Source-translator tie (DESIGN 10.15): _cds_lfq_enqueue_rcu translated from the C text and proved to refine the Lfq model's local projection (CAS retry loop by induction), _cds_lfq_dequeue_rcu partially (no-allocation path) (Props/SrcQueue.lean); enqueue IR replayed against the compiled code's traces.",
    note="Trusted: Lean kernel; x86-TSO is mechanised (Lfq/TsoModel.lean: per-thread FIFO store buffers for the plain initialising stores "
         "of node_init / make_dummy, own-buffer-first loads, the five cmpxchg as locked RMWs needing an empty buffer; tso_simulates_sc / "
         "tso_step_is_sc_step: every TSO run is an SC run with the same answers; C12_tso_full_holds; necessity of the one machine "
         "assumption - a locked RMW drains the store buffer - by Tso.Neg.uaf_reachable_without_drain); the classification of accesses "
         "is cross-checked on every trace (only LD and seq_cst CAS on the queue's words); GpSpec composition with the real grace period by interface "
         "(bp/qsbr not linked); L1 ⊑ L2 on explored schedules only; API contract (operations inside read-side sections, re-enqueue/free "
         "only after a grace period, destroy at quiescence, malloc succeeds).",
    technique="Lean 4 inductive invariant (26 clauses) + forward-simulation refinement to a sequential FIFO on an executable step-level model + forward simulation TSO -> SC with a store-buffer shape invariant; event-level trace refinement of the real source with independent oracles",
    design_ref="§4 C12, §10.4", engine="lfq"),
 "C10": dict(
    text="Lean 4 theorems on x86-TSO explicit-pc models of cds_wfcq (Wfcq/Model.lean: two queues, any number of threads, per-thread FIFO "
         "store buffers, splice both ways, first/next, blocking and non-blocking variants, node re-use, consumer role = mutex or single "
         "consumer) and of the legacy cds_wfq (Wfq/Model.lean, dummy node), for every reachable state and interleaving incl. enqueuers "
         "suspended between the tail exchange and the link store. wfcq_refines_fifo: the history of linearisation events, with results "
         "computed from concrete memory, is a legal sequential two-queue FIFO history, concrete memory represents the abstract "
         "contents, and every step is a stutter or the sequential operation. Also: each_node_dequeued_once (conservation incl. in-flight "
         "enqueues and chains in transit), dequeue_order, state_LAST_correct (the last-node cmpxchg race), enqueue_ret_consistent, "
         "empty_consistent, dequeue_null_iff_empty_at_some_instant and null_only_from_empty, splice_moves_all_in_order_and_empties_"
         "source (source reusable), iteration_exact; legacy cds_wfq (dummy node re-enqueued by the dequeuer): wfq_refines_fifo (history "
         "of linearisation events is a legal sequential FIFO history ending in the abstract content), wfq_each_node_dequeued_once, "
         "wfq_dequeue_order, wfq_null_only_when_empty, wfq_is_fifo; C10_full_holds; necessity witnesses checked by decide (no wait on "
         "a NULL next loses a node, empty() testing only head, splice without tail reset, dummy re-enqueued without node_init delivers "
         "a node twice). Tie: the real "
         "src/wfcqueue.c and src/wfqueue.c with their static headers, under the macro shim and the cooperative scheduler, in 5 "
         "configurations; every trace replayed by Driver/Wfcq.lean on the models; independent C oracles (reference FIFO updated at the "
         "tail exchanges: order, NULL/empty answers, return values, STATE_LAST, splice, iteration, conservation); random walk, PCT and a "
         "one-preemption sweep over every xchg->store window; required-branch coverage."
         " Source-translator tie (DESIGN 10.15): the C text of wfcqueue enqueue / append / empty / node_sync_next / dequeue_with_state / splice is translated into Lean IR on every run and proved to refine the thread-local projection of the Wfcq model (Props/SrcQueue.lean); urcu_ref get/put shapes proved; IR replayed against the compiled code's traces.",
    note="Trusted: Lean kernel; x86-TSO machine; API contracts as model guards (a node is enqueued only when in no queue and with no store "
         "in flight, because node hand-off synchronises; next() only on a queued node; consumer role); L1 ⊑ L2 checked on the explored "
         "schedules only; plain accesses seen through later atomic loads.",
    technique="Lean 4 inductive invariant (one lemma per label) and refinement proofs on TSO transition systems with ghost abstract queues and linearisation events + event-level trace refinement of the real sources",
    design_ref="§4 C10", engine="wfcq"),
 "C17": dict(
    text="Lean 4 solo-run theorems on the step-level models of the components (all other threads frozen at arbitrary points of any "
         "reachable state; explicit bound or strictly decreasing measure on own steps, own-buffer drains included). Read side "
         "(Props/C17Read.lean, C01 model, for every state): read_lock_wait_free (3 + |own buffer| + 1 own steps), "
         "read_lock_never_blocked, nested/outer lock and unlock one store each, others_cannot_delay_reader, forced_fence_helps, qsbr "
         "reader ops never blocked. Stacks (Props/C17Stacks.lean): wfs_push_wait_free (<= 4), wfs/lfs_pop_all_one_rmw, "
         "lfs_push/pop_solo_terminates (<= 6 / 5), *_cas_fails_only_by_interference, wfs_nonblocking_pop/next_never_waits, "
         "wouldblock_only_if_inflight, nonblocking_quiet_succeeds, wouldblock_changes_nothing. wfcqueue (Props/C17Wfcq.lean): "
         "enqueue_wait_free (|own buffer| + 3), nonblocking_never_waits (<= 11 + |own buffer|), wouldblock_only_if_inflight, "
         "nonblocking_quiet_succeeds, wouldblock_changes_nothing. rculfqueue (Props/C17Lfq.lean): lfq_never_waits, every own step "
         "decreases the measure mu (tail lag + 6 per dummy + constant), enqueue <= 8 / dequeue <= mu own steps, "
         "cas_fails_only_by_interference, link_retry_succeeds. Tie: freeze / solo-run schedules of the real sources under the cooperative "
         "runtime (spin hints distinguish waiting from working; own primitives counted against the model bound); the read-side "
         "primitives through the C01 trace refinement (straight-line L1 transliteration). Hash table (Props/C17Lfht.lean): "
         "C17Lfht_full_holds: walker_wait_free (lookup / first / next / next_duplicate return within |L| + unlinked + 5 own steps, "
         "measure wmu; memory safety from C07's reclaim_safe), hop_decreases, cas_fails_only_by_interference, solo_terminates (add / "
         "add_unique / add_replace / replace / del / traversals run alone from any reachable state return within "
         "(flagged+5)*(2(|L|+unlinked)+14) own steps, helping frozen removals; measure Mu).",
    note="Trusted: Lean kernel; x86-TSO; blocking operations (*_blocking, sync_next, mutex-taking wrappers) are not claimed; tie on explored "
         "freeze schedules only.",
    technique="Lean 4 termination-measure / bounded-solo-run proofs on TSO transition systems + freeze-schedule trace refinement of the real sources",
    design_ref="§4 C17", engine="progress"),
 "C16": dict(
    text="Lean 4 theorems on explicit-pc transition systems of the fork handlers (Fork/Model.lean: call_rcu_before_fork / "
         "after_fork_parent / after_fork_child at flag-access granularity, the helper pause branch, fork as a state function "
         "childOf / parentOf, any number of threads, helpers and callbacks, nested forks; Fork/Bp.lean; Fork/Wq.lean): "
         "fork_point_quiescent (when before_fork has returned every helper is at its pause spin, holds no lock, has an empty batch, is "
         "not registered as a reader, every queued callback is in exactly one queue), fork_snapshot, child_state_wf, cb_at_most_once, "
         "child/parent_callbacks_once_partial (never lost, at most once, invoked once iff done), child_gp_terminates + child_registry "
         "(no wait on an erased thread), child_barrier_terminates, helpers_alive, after_fork_child_terminates (measure), "
         "bp_fork_point, bp_child_pruned, bp_child_gp_terminates, atfork_nesting_balanced; before_fork_hangs_unfixed (Lean record of "
         "the repaired qsbr defect). Tie: the real urcu.c / urcu-qsbr.c / urcu-bp.c with urcu-call-rcu-impl.h (and rculfhash.c + "
         "workqueue.c, oracles only) under the cooperative runtime with a real fork(): 7 configurations x seeds x fork points x up to "
         "three generations, helpers caught mid-batch, online qsbr forker, bp with other readers inside sections; the child creates "
         "new reader threads and uses read-side sections, synchronize_rcu, call_rcu, rcu_barrier, a resizable hash table; every "
         "process trace replayed on drv_fork; oracles: per-process invocation counts, registry, crd list, no join, termination. "
         "mask_restored (bp: after after_fork_parent / _child the caller's signal mask equals its mask at before_fork entry, also with "
         "concurrent forkers); liveness: after_fork_child_eventually_returns, C16_full'_proved / C16_full_parent'_proved (every "
         "callback queued at the fork is eventually invoked exactly once in the child and in the parent, under explicit fairness / "
         "'sections end' / 'no further fork' provisos; Props/LiveC16E2E.lean). Hash-table resize worker across fork (work queue model, "
         "Props/Workqueue.lean): pause_quiescent (once pause_worker has returned the worker is at its pause spin with nothing in hand), "
         "pause_stays, resume_restarts / resume_returns, child_nothing_in_hand, create_worker_state, queued_work_eventually_runs in the "
         "child; observation child_worker_never_sleeps_if_futex_inherited_negative (performance only, reproduced on the real code). "
         "Partial: the rculfhash atfork glue (nesting counter) by the ForkWq model + oracles."
         " Source-translator tie (DESIGN 10.15): call_rcu_before_fork / after_fork_parent (PAUSE every helper of the list, wait for PAUSED, no other write to a helper's flags), urcu_bp_before_fork / after_fork_parent / after_fork_child (saved mask restored) and urcu_bp_prune_registry are translated from the C text and proved against the Fork model's local projections (Props/SrcFork.lean); the work queue's pause quiescence in Props/SrcWq.lean."
,
    note="Trusted: Lean kernel; fork() clones only the calling thread with a copy of memory; documented preconditions as guards (handlers "
         "called outside read-side sections; other application threads idle and unregistered at the fork for non-bp flavors); callbacks "
         "terminate and do not call rcu_barrier or helper management; L1 ⊑ L2 on explored schedules only. Observations outside the "
         "property's quantifier recorded in DESIGN §10.4 (call_rcu_data_free concurrent with before_fork; child's resize worker busy-spins).",
    technique="Lean 4 inductive invariant (57 clauses, one lemma per label) on explicit-pc transition systems with fork as a state function + termination measure; event-level trace refinement of the real sources across a real fork()",
    design_ref="§4 C16, §10.4", engine="fork"),
 "C03": dict(
    text="Lean 4 theorems on an executable model of src/urcu-call-rcu-impl.h (any number of enqueuers, helpers, readers, creators and "
         "destroyers, all interleavings, all futex outcomes): cb_at_most_once, cb_conserved (exactly one place across the helper's "
         "splice and the hand-over on destroy), cb_after_gp (invocation after a GpSpec grace period that began after the enqueue), "
         "cb_same_head, cb_fifo_per_helper, no_enqueue_to_freed_helper + leftovers_handed_over + free_protocol (uses the read-side "
         "section call_rcu holds and the documented contract of call_rcu_data_free), helper_futex_range, helper_no_lost_wakeup, "
         "waker_not_stuck / waker_measure, helper_no_stuck / helper_measure; the same handshake with an explicit x86-TSO store buffer "
         "(tso_no_lost_wakeup) and the necessity witness lost_wakeup_if_dec_after_check. Tie: real src/urcu.c + urcu-call-rcu-impl.h "
         "+ wfcqueue under the shim (memb with/without sys_membarrier, mb, qsbr, bp), 1-3 workers, re-enqueueing callbacks, per-thread / per-CPU "
         "/ default helpers incl. RT, call_rcu_data_free with pending callbacks, create_all / free_all / set_cpu, futex fault plans "
         "incl. ENOSYS, urcu_call_rcu_exit; every event replayed on Driver/CallRcu.lean; one-preemption sweeps of the helper's "
         "dec / empty-check / sleep window and the enqueuer's enqueue / wake window; oracles once / head / gp / uaf + deadlock / "
         "budget. Liveness end to end (Props/LiveC03E2E.lean; the property's provisos are explicit hypotheses, CallRcu.FairEnv): "
         "callback_eventually_invoked_from_call (from the call_rcu() entry through helper selection / lazy creation to 'invoked exactly "
         "once'), queued_callback_eventually_invoked_any (incl. hand-over when the helper is destroyed), helper_eventually_wakes, "
         "tso_helper_eventually_wakes; C03_full as first written (weak fairness only) is shown FALSE (C03_full_false: starvation at "
         "call_rcu_mutex - a statement artefact). Flavors run: memb (with / without sys_membarrier), mb, qsbr, bp (with / "
         "without); in qsbr the helper's register / thread_offline / thread_online / unregister and an online caller's quiescent "
         "states are matched event by event and replayed on the model (Cfg.qsbr: an online thread is an open section since its last "
         "quiescent state)."
         " Source-translator tie (DESIGN 10.15): _call_rcu, call_rcu and the whole call_rcu_thread loop are translated from the C text on every run and proved against the CallRcu model's local projections (Props/SrcCallRcu.lean: in every iteration the invoked callbacks are exactly the spliced batch, in order, each once, after that iteration's synchronize_rcu); call_rcu_wait / wake_up in Props/SrcFutex.lean."
,
    note="Trusted: Lean kernel; GpSpec (C01) as synchronize_rcu; wfcqueue FIFO / atomic enqueue (C10); x86-TSO + futex contract; caller "
         "obligations of the API as model guards; L1 transliteration ⊑ L2 on explored schedules only.",
    technique="Lean 4 inductive invariants (placement, timing, order, destruction protocol, sleep/wake handshake; one lemma per label) + event-level trace refinement of the real source under the cooperative runtime with fault injection and one-preemption sweeps",
    design_ref="§4 C03", engine="callrcu"),
 "C04": dict(
    text="Lean 4 theorems on the barrier layer over the C03 model (any number of concurrent barriers, enqueuers, helpers, helper "
         "creation / destruction): barrier_complete (when rcu_barrier has read barrier_count == 0 or returned, every callback queued "
         "at the call has finished, invoked exactly once), via marker_fifo (every covered callback still pending on a helper is "
         "followed in that helper's execution order by a live marker of the barrier; preserved by enqueues, the helper's splice / "
         "invoke loop and the splice of a destroyed helper's leftovers), barrier_count_exact, holder_listed; completion_lifetime "
         "(refcount = caller + markers not yet put, freed exactly at 0, no access afterwards); barrier_futex_range, "
         "barrier_no_lost_wakeup, outstanding_marker, marker_not_stuck / marker_measure; barrier_in_cs_refused. Tie: the C03 "
         "scenarios with rcu_barrier callers (concurrent, inside a section, with no helper), oracle 'barrier' + completion poison "
         "check, sweep of the helper inside the caller's dec / count-test / FUTEX_WAIT window. Liveness end to end "
         "(Props/LiveC04E2E.lean, CallRcu.BFairEnv): barrier_eventually_returns_from_call - rcu_barrier() returns on every run with "
         "strongly fair threads (lock acquisition), weakly fair helpers, ending sections and terminating user callbacks; the marker "
         "liveness is C03's end-to-end theorem on the projected run. All flavors run; qsbr: "
         "rcu_barrier's was_online / offline / online idiom matched event by event for online and offline callers."
         " Source-translator tie (DESIGN 10.15): _rcu_barrier_complete / free_completion (completion and reference counting) and the completion futex wait / wake are translated from the C text and proved against CallRcu/Barrier's local projections (Props/SrcCallRcu.lean, Props/SrcFutex.lean); rcu_barrier's own list loops are not."
,
    note="Trusted: as C03; the barrier layer reaches C03 only through the hooks (base_reach proved).",
    technique="Lean 4 invariants (bookkeeping / refcount / handshake per label; list-decomposition proof of the marker-FIFO invariant) + the C03 trace refinement",
    design_ref="§4 C04", engine="callrcu"),
 "C05": dict(
    text="Lean 4 theorem C05_full_holds on an executable step-level model of the concurrent src/rculfhash.c (Lfht/Conc: one step per "
         "load of a next word / ht->size and per RMW, any number of threads, every interleaving, grow / shrink level by level with "
         "partition helpers, abstract grace periods, ghost list L of the nodes linked from bucket 0): chain_L, sorted_L, "
         "unremoved_linked_in_L, sorted_edges, insert_cas_sound, grow_before_publish, traversal_monotone, visible_set_linearizes (the "
         "set of visible nodes changes only at the insertion CAS, the REMOVED fetch-or and the replace CAS), found_was_visible, "
         "resident_found (cds_lfht_lookup never answers 'not found' while a node with that hash and key stays visible - under adds, "
         "removals, replaces, helping and resizes). Tie: the real src/rculfhash.c (+ urcu.c memb, workqueue.c, the three mm plug-ins) under the shim; 2-4 workers + resizer + lazy-resize worker; random / PCT / one-preemption sweep over 22 directed scripts (seed-independent); every next word, ht->size access, memory order and API result replayed by Driver/LfhtConc.lean on the model; partitioned resize (helper threads) in the thorough tier; oracles lin (Wing-Gong linearizability search against a "
         "reference multimap on small histories), resident, replabsent. C05_full_holds additionally gives resident_found_traversal "
         "(first/next traversals across calls through the saved iterator; position invariant NotYet). Linearizability "
         "(Props/C05Lin.lean): lfht_linearizable - for every execution there is a sequential history of the multiset-per-key "
         "specification (Lfht/Conc/LinSpec.lean), built without prophecy from per-call linearisation points, that is legal, ends in the "
         "abstract table of the final state, contains every completed add / add_unique / add_replace / replace / del / lookup call "
         "exactly once, with the result it returned, at a position inside its call-return interval (so real-time order is respected); "
         "lfht_linearizable_partial gives the points (insertion CAS, REMOVED fetch-or, replace CAS, the deciding load, incl. lookup "
         "'not found'). Hypothesis: per (key, hash) unique adds only or plain adds only (mixed use is genuinely not linearizable for "
         "'not found'). Partial: entries for calls still pending at the end are legal but not attributed to a call; "
         "next_duplicate / first / next are covered by resident_found_traversal and C06, not by the linearizability theorem."
         " Source-translator tie (DESIGN 10.15): the lock-free core of src/rculfhash.c (add / add_unique / add_replace / replace / del / lookup / iteration / gc_bucket, 40 functions) is translated into Lean IR on every run (pointer tag bits modelled) and replayed against the compiled code's traces (Driver/Src.lean); _cds_lfht_del and _cds_lfht_gc_bucket are proved to refine the Lfht/Conc model's local projection (Props/SrcLfht.lean)."
,
    note="Trusted: Lean kernel; SC = x86-TSO for this structure (every shared mutation of a next word is a locked RMW; private "
         "initialisation folded into the publishing CAS); abstract GpSpec grace periods; node identifiers never reused in the model; "
         "L1 ⊑ L2 on explored schedules only; split counters / resize_target arbitration belong to C09.",
    technique="Lean 4 layered inductive invariants (resize skeleton, life cycle and flags, owner automaton, ghost list, frozen edges, memory safety, scan coverage; one lemma per label) + linearizability proof by per-call linearisation points and a blockwise history construction + event-level trace refinement of the real source with linearizability and residency oracles",
    design_ref="§4 C05", engine="lfhtc"),
 "C06": dict(
    text="Lean 4 theorem C06_full_holds on the concurrent hash-table model of C05: replace_atomic (one step; old visible before, new "
         "visible after, same hash and key, exactly one owner of old), replace_keeps_key_visible (a present key is never 'neither' and "
         "never 'both' across the replace step), unique_inserts_at_run_head (the insertion CAS of a unique add targets the predecessor "
         "of the equal-hash run it scanned), replace_single_owner. Tie: the real src/rculfhash.c (+ urcu.c memb, workqueue.c, the three mm plug-ins) under the shim; 2-4 workers + resizer + lazy-resize worker; random / PCT / one-preemption sweep over 22 directed scripts (seed-independent); every next word, ht->size access, memory order and API result replayed by Driver/LfhtConc.lean on the model; partitioned resize (helper threads) in the thorough tier; oracles dupkey (no lookup / duplicate walk / "
         "traversal returns two nodes of a unique-only key; add_unique winner and returned-node rule; add_replace inserts without "
         "replacing only when the key was possibly absent), replabsent (a continuously present key is never reported absent during "
         "replacement), replowner. C06_full_holds additionally: uniq_in_L (scan-coverage invariant InvK: under unique-only use of a key "
         "at most one node with that key is visible), no_two_visible (no walk or traversal without a restart inside the section "
         "returns two nodes of the key), one_winner (of concurrent add_unique calls for an absent key exactly one inserts; every "
         "other returns a node that was present during its call).",
    note="Trusted: as C05.",
    technique="Lean 4 inductive invariants on the concurrent hash-table model (replace CAS atomicity, insertion position, owner automaton) + event-level trace refinement with duplicate-key and replace oracles",
    design_ref="§4 C06", engine="lfhtc"),
 "C07": dict(
    text="Lean 4 theorem C07_full_holds on the concurrent hash-table model of C05: single_owner (state form: wins p <= 1, wins p = 1 iff "
         "REMOVAL_OWNER set, a del that passed the REMOVED test implies an owner; run form: along any execution at most one "
         "del / replace / add_replace call returns success for a node and it is the decided winner), removed_frozen (once REMOVED is set "
         "the pointer part never changes), bucket_never_removed_while_published; necessity witness Neg/C07 single_owner_needs_xchg "
         "(`or` instead of `xchg` for the owner flag gives two owners, by decide). Tie: the real src/rculfhash.c (+ urcu.c memb, workqueue.c, the three mm plug-ins) under the shim; 2-4 workers + resizer + lazy-resize worker; random / PCT / one-preemption sweep over 22 directed scripts (seed-independent); every next word, ht->size access, memory order and API result replayed by Driver/LfhtConc.lean on the model; partitioned resize (helper threads) in the thorough tier; oracles owner (at most one, "
         "exactly one at quiescence), quarantine (removed nodes one grace period after the owner's return, bucket tables after a "
         "shrink, ht after destroy: poisoned and kept, any later access faults), gp (real synchronize_rcu against open sections); the "
         "model's reclaim / tblFree labels are enabled only after its grace period. C07_full_holds additionally: "
         "del_returns_unlinked (gc_bucket postcondition: when the owner's call returns the node is not in the ghost list), "
         "reclaim_safe (layer S: every pointer a thread holds inside a section is linked or was unlinked after the section began; "
         "uaf = false in every reachable state, covering bucket tables freed by a shrink) and no_step_crashes."
         " Source-translator tie (DESIGN 10.15): _cds_lfht_del (or REMOVED, gc pass of the bucket, ownership xchg, return value) and _cds_lfht_gc_bucket are translated from the C text on every run and proved to refine the Lfht/Conc model's local projection (Props/SrcLfht.lean); the IR is replayed against the compiled code's traces."
,
    note="Trusted: as C05.",
    technique="Lean 4 inductive invariants (flag automaton of one next word, grace-period window of bucket removal) + event-level trace refinement with ownership and quarantine oracles",
    design_ref="§4 C07", engine="lfhtc"),
 "C14": dict(
    text="Lean 4 theorems poll_sound / poll_monotone / poll_no_stuck / poll_progress (inductive invariant over all operation "
         "interleavings, any number of readers and handles) on an executable model of urcu-poll-impl.h; the model is tied to "
         "the current source by replaying generated operation sequences on the real file and on the model (every returned "
         "handle, boolean and re-queue decision compared) plus an independent implementation oracle; and the same real file under the cooperative runtime with several poller threads, readers and an abstract helper, preempted at every mutex acquisition/release (operations ordered by the ticket taken when the mutex is acquired), which exposes accesses moved out of the critical section; liveness with explicit hypotheses: poll_eventually_true, poll_eventually_true_of_gp (Props/LiveC14.lean). Floor = target (DESIGN §4 C14)."
         " Source-translator tie (DESIGN 10.15): start_poll_synchronize_rcu, poll_state_synchronize_rcu and urcu_poll_worker_cb are translated from the C text on every run and proved equal to the Poll model's step (Props/SrcPoll.lean)."
,
    note="Trusted: Lean kernel (axioms propext/Classical.choice/Quot.sound only); call_rcu and the grace period are the abstract "
         "C03/C01 specifications; each API body is atomic under poll_worker_gp_state.lock (lock discipline is observed by the "
         "harness, not proved); counters do not wrap within 2^63 grace periods; liveness needs C03's helper liveness + fairness.",
    technique="Lean 4 inductive-invariant proof + differential replay of operation sequences against the real source",
    design_ref="§4 C14", engine="poll"),
}

NOT_YET = {
}

def main():
    props = [json.loads(l) for l in open(os.path.join(ROOT, "properties.jsonl"))]
    checks, na = [], []
    for p in props:
        pid = p["id"]
        if pid in CLAIMED:
            c = CLAIMED[pid]
            checks.append({
                "property_id": pid,
                "quick_cmd": "python3 check.py %s --tier quick" % pid,
                "thorough_cmd": "python3 check.py %s --tier thorough" % pid,
                "evidence_file": "evidence/%s.json" % pid,
                "replay_cmd_template": "python3 check.py %s --replay {path}" % pid,
                "engine": c.get("engine", "lean"),
                "level_claimed": {"category": "proof", "text": c["text"], "design_ref": c["design_ref"]},
                "level_note": c["note"],
                "technique": c["technique"],
            })
        else:
            na.append({"property_id": pid, "reason": NOT_YET.get(pid, "check not built yet in this round (planned: Lean model + theorems + trace tie, DESIGN §4/§8); not claimed until it passes on the unchanged tree")})
    m = {
        "version": 1,
        "setup_cmd": "python3 check.py --setup",
        "hooks": {
            "guard": "URCU_USERSPACE_RCU_VERIF",
            "enable": "not used: the harness overrides the shared-memory primitives by a macro shim included before the unmodified sources (DESIGN §1.2); no guarded code exists in /repo",
            "baseline_off_cmd": "make -C /repo -k check",
            "source_commits": [],
            "add_only": True,
        },
        "engines": [
            {"name": "lean", "path": "lean/", "serves_properties": sorted(CLAIMED), "kind_free_text": "Lean 4.33 lake project UrcuVerif: executable models, inductive invariants, property theorems (Props/Cxx.lean), per-component trace-checker executables (Driver/*.lean)"},
            {"name": "harness", "path": "harness/", "serves_properties": sorted(CLAIMED), "kind_free_text": "C harnesses that #include /repo's current sources (unmodified) and emit operation/event traces for the Lean drivers; translator harness/gen regenerates Gen/*.lean from the sources on every run"},
        ],
        "checks": checks,
        "not_applicable": na,
        "notes": "All checks: python3 check.py <ID> --tier quick|thorough; VERIF_SEED honoured; evidence rewritten on every run; known findings in known_findings.txt.",
    }
    json.dump(m, open(os.path.join(ROOT, "MANIFEST.json"), "w"), indent=1)

if __name__ == "__main__":
    main()
