#!/usr/bin/env python3
"""Writes MANIFEST.json from the table below (kept here so the manifest stays valid and in sync)."""
import json, os
ROOT = os.path.dirname(os.path.abspath(__file__))

# id -> dict(text, note, technique, design_ref, engine)
CLAIMED = {
 "C01": dict(
    text="Lean 4 theorems gp_guarantee / gp_litmus / nested_only_outermost: inductive invariant (23 clauses, one lemma per transition) "
         "over an explicit x86-TSO model of the two-pass phase-flip grace period of src/urcu.c, for any number of readers, any nesting, "
         "readers (un)registering at any time, any number of grace periods, in the three configurations memb+sys_membarrier, memb "
         "fallback and mb. Tie: the real urcu.c + static headers run unmodified under a macro shim and a deterministic cooperative "
         "scheduler; every shared access/barrier/lock/futex event of every thread is matched against an event-level transliteration "
         "of the C text (Driver/Gp.lean) which replays the induced labels on the proven model. TSO-only failures are reported with the "
         "Lean-checked necessity witness (Neg/C01.lean). qsbr and bp flavors are not yet covered by this check (partial).",
    note="Trusted: Lean kernel; x86-TSO machine and sys_membarrier contract; the event-level transliteration is validated on the "
         "explored schedules only (not proved to refine the abstract model); harness runs are SC; compiler barriers checked for "
         "presence only; qsbr/bp flavors not covered yet.",
    technique="Lean 4 inductive-invariant proof on an x86-TSO transition system + event-level trace refinement of the real source under a cooperative scheduler",
    design_ref="§4 C01, §10", engine="gp"),
 "C14": dict(
    text="Lean 4 theorems poll_sound / poll_monotone / poll_no_stuck / poll_progress (inductive invariant over all operation "
         "interleavings, any number of readers and handles) on an executable model of urcu-poll-impl.h; the model is tied to "
         "the current source by replaying generated operation sequences on the real file and on the model (every returned "
         "handle, boolean and re-queue decision compared) plus an independent implementation oracle. Floor = target (DESIGN §4 C14).",
    note="Trusted: Lean kernel (axioms propext/Classical.choice/Quot.sound only); call_rcu and the grace period are the abstract "
         "C03/C01 specifications; each API body is atomic under poll_worker_gp_state.lock (lock discipline is observed by the "
         "harness, not proved); counters do not wrap within 2^63 grace periods; liveness needs C03's helper liveness + fairness.",
    technique="Lean 4 inductive-invariant proof + differential replay of operation sequences against the real source",
    design_ref="§4 C14", engine="poll"),
}

NOT_YET = {
}

def main():
    props = [json.loads(l) for l in open(os.path.join(ROOT, "properties.jsonl"))]
    checks, na = [], []
    for p in props:
        pid = p["id"]
        if pid in CLAIMED:
            c = CLAIMED[pid]
            checks.append({
                "property_id": pid,
                "quick_cmd": "python3 check.py %s --tier quick" % pid,
                "thorough_cmd": "python3 check.py %s --tier thorough" % pid,
                "evidence_file": "evidence/%s.json" % pid,
                "replay_cmd_template": "python3 check.py %s --replay {path}" % pid,
                "engine": c.get("engine", "lean"),
                "level_claimed": {"category": "proof", "text": c["text"], "design_ref": c["design_ref"]},
                "level_note": c["note"],
                "technique": c["technique"],
            })
        else:
            na.append({"property_id": pid, "reason": NOT_YET.get(pid, "check not built yet in this round (planned: Lean model + theorems + trace tie, DESIGN §4/§8); not claimed until it passes on the unchanged tree")})
    m = {
        "version": 1,
        "setup_cmd": "python3 check.py --setup",
        "hooks": {
            "guard": "URCU_USERSPACE_RCU_VERIF",
            "enable": "not used: the harness overrides the shared-memory primitives by a macro shim included before the unmodified sources (DESIGN §1.2); no guarded code exists in /repo",
            "baseline_off_cmd": "make -C /repo -k check",
            "source_commits": [],
            "add_only": True,
        },
        "engines": [
            {"name": "lean", "path": "lean/", "serves_properties": sorted(CLAIMED), "kind_free_text": "Lean 4.33 lake project UrcuVerif: executable models, inductive invariants, property theorems (Props/Cxx.lean), per-component trace-checker executables (Driver/*.lean)"},
            {"name": "harness", "path": "harness/", "serves_properties": sorted(CLAIMED), "kind_free_text": "C harnesses that #include /repo's current sources (unmodified) and emit operation/event traces for the Lean drivers; translator harness/gen regenerates Gen/*.lean from the sources on every run"},
        ],
        "checks": checks,
        "not_applicable": na,
        "notes": "All checks: python3 check.py <ID> --tier quick|thorough; VERIF_SEED honoured; evidence rewritten on every run; known findings in known_findings.txt.",
    }
    json.dump(m, open(os.path.join(ROOT, "MANIFEST.json"), "w"), indent=1)

if __name__ == "__main__":
    main()
