#!/usr/bin/env python3
"""Runner: `python3 check.py <ID> --tier quick|thorough`, `--replay <file>`, `--setup`.
Each property's check lives in props/<id>.py (function run(chk))."""
import argparse
import importlib
import json
import os
import sys

sys.path.insert(0, os.path.dirname(os.path.abspath(__file__)))
import vlib


def setup():
    """MANIFEST.setup_cmd: regenerate Gen, build the whole Lean library and all drivers."""
    ok, log = vlib.gen_constants()
    if not ok:
        print(log)
        return 1
    ok, log = vlib.lake_build(["UrcuVerif"] + driver_targets())
    print(log[-3000:])
    return 0 if ok else 1


def driver_targets():
    res = []
    nm = None
    for ln in open(os.path.join(vlib.LEAN, "lakefile.toml")):
        ln = ln.strip()
        if ln.startswith("name = \"drv_"):
            nm = ln.split('"')[1]
            root = None
        elif ln.startswith("root = ") and nm:
            root = ln.split('"')[1]
            if os.path.exists(os.path.join(vlib.LEAN, *root.split(".")) + ".lean"):
                res.append(nm)
            nm = None
    return res


def main():
    ap = argparse.ArgumentParser()
    ap.add_argument("pid", nargs="?")
    ap.add_argument("--tier", default=os.environ.get("VERIF_TIER", "quick"), choices=["quick", "thorough"])
    ap.add_argument("--replay")
    ap.add_argument("--setup", action="store_true")
    a = ap.parse_args()
    if a.setup:
        return setup()
    if a.replay and not a.pid:
        a.pid = json.load(open(a.replay))["property"]
    if not a.pid:
        ap.error("property id required")
    mod = importlib.import_module("props.%s" % a.pid.lower())
    if a.replay:
        return mod.replay(json.load(open(a.replay)))
    chk = vlib.Check(a.pid, a.tier)
    try:
        mod.run(chk)
    except Exception as ex:  # machinery failure must not look like a pass
        import traceback
        traceback.print_exc()
        chk.fail("internal", {"theorem": "check machinery raised " + repr(ex), "lean_error": traceback.format_exc()[-2000:]}, nofail=True)
    return chk.finish()


if __name__ == "__main__":
    sys.exit(main())
