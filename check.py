#!/usr/bin/env python3
"""Runner: `python3 check.py <ID> --tier quick|thorough`, `--replay <file>`, `--setup`.
Each property's check lives in props/<id>.py (function run(chk))."""
import argparse
import importlib
import json
import os
import sys

sys.path.insert(0, os.path.dirname(os.path.abspath(__file__)))
import vlib


def setup():
    """MANIFEST.setup_cmd: regenerate Gen, build the whole Lean library and the drivers (cache warm-up: every check
    rebuilds its own targets anyway).  Only the library and the drivers of the claimed checks are required to build;
    drivers of components still under construction are attempted best-effort."""
    ok, log = vlib.gen_constants()
    try:
        vlib.gen_src()
    except Exception:
        pass
    if not ok:
        print(log)
        return 1
    required = claimed_drivers()
    allt = driver_targets()
    ok, log = vlib.lake_build(["UrcuVerif"] + [d for d in allt if d in required])
    print(log[-3000:])
    if not ok:
        return 1
    for d in allt:
        if d not in required:
            ok2, log2 = vlib.lake_build([d])
            if not ok2:
                print("note: optional driver %s (component under construction) does not build; ignored" % d)
    return 0


def claimed_drivers():
    import re
    res = set()
    try:
        man = json.load(open(os.path.join(vlib.ROOT, "MANIFEST.json")))
        pids = [c["property_id"] for c in man.get("checks", [])]
    except Exception:
        pids = []
    seen = set()

    def scan(modname):
        if modname in seen:
            return
        seen.add(modname)
        path = os.path.join(vlib.ROOT, "props", modname + ".py")
        try:
            src = open(path).read()
        except OSError:
            return
        res.update(re.findall(r"\bdrv_\w+", src))
        for m in re.findall(r"from props import (\w+)", src):
            scan(m)
        for m in re.findall(r"import props\.(\w+)", src):
            scan(m)

    for pid in pids:
        scan(pid.lower())
    scan("src")
    return res


def driver_targets():
    res = []
    nm = None
    for ln in open(os.path.join(vlib.LEAN, "lakefile.toml")):
        ln = ln.strip()
        if ln.startswith("name = \"drv_"):
            nm = ln.split('"')[1]
            root = None
        elif ln.startswith("root = ") and nm:
            root = ln.split('"')[1]
            if os.path.exists(os.path.join(vlib.LEAN, *root.split(".")) + ".lean"):
                res.append(nm)
            nm = None
    return res


SRC_PARTS = {"C01": ["gp-memb", "gp-mb", "gp-bp", "gp-qsbr"], "C10": ["wfcq"], "C11": ["wfs", "lfs"], "C12": ["lfq"], "C13": ["defer", "futex-defer"],
             "C02": ["futex-gp"], "C14": ["poll"], "C15": ["reg"], "C05": ["lfht"], "C06": ["lfht"], "C07": ["lfht"], "C03": ["futex-callrcu"], "C04": ["futex-callrcu"], "C09": ["futex-wq"], "C16": ["futex-wq", "fork"]}


def main():
    ap = argparse.ArgumentParser()
    ap.add_argument("pid", nargs="?")
    ap.add_argument("--tier", default=os.environ.get("VERIF_TIER", "quick"), choices=["quick", "thorough"])
    ap.add_argument("--replay")
    ap.add_argument("--setup", action="store_true")
    a = ap.parse_args()
    if a.setup:
        return setup()
    if a.replay and not a.pid:
        a.pid = json.load(open(a.replay))["property"]
    if not a.pid:
        ap.error("property id required")
    mod = importlib.import_module("props.%s" % a.pid.lower())
    if a.replay:
        rp = json.load(open(a.replay))
        if rp.get("scenario") == "src":
            from props import src
            return src.replay(rp)
        return mod.replay(rp)
    chk = vlib.Check(a.pid, a.tier)
    # wall-clock guard: a check never runs away (quick checks take 10-120 s on the unchanged tree)
    import signal

    class _Timeout(Exception):
        pass

    def _on_alarm(signum, frame):
        raise _Timeout("check exceeded its wall-clock budget")
    signal.signal(signal.SIGALRM, _on_alarm)
    signal.alarm(int(os.environ.get("VERIF_CHECK_TIMEOUT", "2400" if a.tier == "quick" else "21600")))
    try:
        mod.run(chk)
        # source-translator tie of the static-inline primitives this property's component is made of (props/src.py)
        if a.pid in SRC_PARTS and not chk.violations:
            from props import src
            if not src.part(chk, SRC_PARTS[a.pid]) and chk.violations and chk.violations[-1].get("no_failing_input_found") \
                    and hasattr(mod, "src_search"):
                # the tie broke (translator, refinement theorem or trace replay): look for a concrete failing input
                try:
                    found = mod.src_search(chk)
                except Exception:
                    found = None
                if found:
                    v = chk.violations[-1]
                    v["no_failing_input_found"] = False
                    v["kind"] = "schedule"
                    v["broken_tie"] = {k: v.get(k) for k in ("theorem", "what", "lean_error", "driver") if k in v}
                    v.update({k: x for k, x in found.items() if k not in ("property", "kind")})
                    v["what"] = "implementation oracle: " + "; ".join(found.get("oracle", []))
                    v["scenario"] = found.get("scenario", v.get("scenario_owner", ""))
        signal.alarm(0)
    except Exception as ex:  # machinery failure must not look like a pass
        import traceback
        traceback.print_exc()
        chk.fail("internal", {"theorem": "check machinery raised " + repr(ex), "lean_error": traceback.format_exc()[-2000:]}, nofail=True)
    return chk.finish()


if __name__ == "__main__":
    sys.exit(main())
