"""Shared by C01, C02, C15, C19: build and run harness/scen/gp.c (real src/urcu.c under the shim)
and replay every trace on Driver/Gp.lean."""
import os
import re
import vlib

CONFIGS = [("memb", 1, "memb+sys_membarrier"), ("memb", 0, "memb fallback (mb)"), ("mb", 0, "mb flavor"), ("qsbr", 0, "qsbr flavor"), ("bp", 1, "bp+sys_membarrier"), ("bp", 0, "bp fallback (mb)")]
ORACLE_OWNER = {"gp": "C01", "litmus": "C01", "DEADLOCK": "C02", "BUDGET": "C02", "sigbalance": "C19",
                "SELFLOCK": "C02", "BADUNLOCK": "C02"}
DRV = os.path.join(vlib.LEAN, ".lake", "build", "bin", "drv_gp")


def build():
    rt = os.path.join(vlib.HARN, "rt")
    srcs = [os.path.join(vlib.HARN, "scen", "gp.c"), os.path.join(rt, "vrt.c"), os.path.join(rt, "vrt_compat_futex.c")] + vlib.rsrc("compat_arch.c")
    for fl, out in (("RCU_MEMBARRIER", "gp_memb"), ("RCU_MB", "gp_mb")):
        ok, log = vlib.cc(out, srcs, ["-w", "-D" + fl])
        if not ok:
            return False, log
    for nm in ("gp_qsbr", "gp_bp"):
        srcs[0] = os.path.join(vlib.HARN, "scen", nm + ".c")
        ok, log = vlib.cc(nm, srcs, ["-w"])
        if not ok:
            return False, log
    return True, ""


def one(flavor, memb, seed, readers, updaters, rops, uops, extra=()):
    """returns dict(verdict=ok|diverge|oracle|crash, ...)"""
    args = [os.path.join(vlib.BUILD, "gp_" + flavor), "--seed", str(seed), "--readers", str(readers),
            "--updaters", str(updaters), "--rops", str(rops), "--uops", str(uops)] + list(extra)
    env = {"VRT_MEMBARRIER": str(memb)}
    rc, out, err = vlib.sh2(args, timeout=120, env=env)
    res = {"cmd": args, "env": env, "rc": rc}
    kinds = re.findall(r"ORACLE (\w+)", err)
    if rc not in (0, 3, 4, 5):
        res.update(verdict="crash", stderr=err[-600:], hang=(rc == 124))
        return res
    drc, dout = vlib.sh([DRV], inp=out.encode(), timeout=300)
    res["driver"] = dout.strip().splitlines()[:2]
    res["events"] = len(out.splitlines())
    if kinds:
        res.update(verdict="oracle", kinds=kinds, oracle=err.strip().splitlines()[:4])
    elif drc != 0:
        res.update(verdict="diverge")
        m = re.search(r"DIVERGE line (\d+)", dout)
        if m:
            ls = out.splitlines()
            n = int(m.group(1))
            res["context"] = ls[max(0, n - 6):n]
    else:
        res.update(verdict="ok")
        res["cov"] = dict((k, int(v)) for k, v in (x.split("=") for x in dout.split()[2:] if "=" in x))
    return res


def plan(rng, k, emphasis):
    """scenario parameters for run k"""
    readers = 1 + k % 4 if k % 11 != 10 else 9 + k % 9
    updaters = 1 + (k // 4) % 3
    extra = []
    if emphasis == "liveness" and k % 3 == 1:
        # one parked section per reader and nothing afterwards: a lost wake-up shows up as a deadlock
        return 1 + k % 2, 1, ["--oneshot", "--pswitch", str(rng.choice([3, 5, 8, 12]))]
    if emphasis == "liveness" or k % 3 == 0:
        extra += ["--park"]
    if emphasis == "liveness" or k % 2 == 0:
        extra += ["--faults", "spur=%d,eintr=%d,enosys=%d" % (rng.choice([0, 100, 300]), rng.choice([0, 100, 300]), rng.choice([0, 0, 100, 1000]))]
    if emphasis != "churn" and k % 5 == 4:
        extra += ["--nochurn"]
    if k % 7 == 3:
        extra += ["--strategy", "pct", "--pctd", str(1 + k % 4), "--pctlen", "600"]
    else:
        extra += ["--pswitch", str(rng.choice([5, 15, 30, 60]))]
    return readers, updaters, extra


def suite(chk, nseeds, emphasis, own_kinds, rops=30, uops=3, extra_all=(), configs=None):
    """Run the gp scenarios; records coverage in chk; returns list of failing results."""
    hist = {}
    fails = []
    nontriv = set()
    events = 0
    per_cfg = {}
    for ci, (flavor, memb, cname) in enumerate(configs or CONFIGS):
        for k in range(nseeds):
            sd = chk.seed * 1000 + k
            readers, updaters, extra = plan(chk.rng, k, emphasis)
            r = one(flavor, memb, sd, readers, updaters, rops, uops, list(extra) + list(extra_all))
            chk.cov["evaluations"] += 1
            per_cfg[cname] = per_cfg.get(cname, 0) + 1
            if r["verdict"] == "ok":
                events += r["events"]
                for kk, vv in r["cov"].items():
                    hist[kk] = hist.get(kk, 0) + vv
                if r["cov"].get("sync_full_gp", 0) and (r["cov"].get("scan_old", 0) or r["cov"].get("scan_current", 0)):
                    nontriv.add((cname, r["driver"][0]))
                if k < 1:
                    chk.sample({"config": cname, "cmd": " ".join(r["cmd"][1:]), "driver": r["driver"][0]})
            else:
                r["config"] = cname
                fails.append(r)
                if len(fails) >= 3 or r.get("hang"):
                    break
        if len(fails) >= 3 or any(x.get("hang") for x in fails):
            break
    chk.cov["traces_validated_against_impl"] = chk.cov["evaluations"] - len(fails)
    chk.cov["events_compared"] = events
    chk.cov["distinct_nontrivial"] = len(nontriv)
    chk.cov["runs_per_config"] = per_cfg
    chk.cov["branch_histogram"] = hist
    chk.cov["rule"] = ("schedules of harness/scen/gp.c (real src/urcu.c, src/urcu-qsbr.c and src/urcu-bp.c under the shim; 1-4 readers with nested lock/unlock, "
                       "register/unregister churn, parked sections; 1-3 concurrent synchronize_rcu callers; futex fault plans) "
                       "drawn from VERIF_SEED with random-walk and PCT strategies, for memb+membarrier, memb fallback, mb, qsbr (quiescent_state/offline/online/self-synchronize) and bp (automatic registration, exit destructor; with and without sys_membarrier); "
                       "every event replayed on Driver/Gp.lean; non-trivial = contains a complete two-pass grace period that "
                       "had to classify an active reader; distinct = different (config, driver coverage summary)")
    return fails


def report(chk, fails, own_kinds, search):
    """Turn failing runs into violations of chk.pid.  `search()` looks for a concrete failing input
    when only a divergence was seen; returns a failing result of an own kind or None."""
    if not fails:
        return
    own = [f for f in fails if f["verdict"] == "oracle" and any(k in own_kinds for k in f["kinds"])]
    if own:
        f = own[0]
        chk.fail("schedule", dict(f, scenario="gp", what="implementation oracle: " + "; ".join(f["oracle"])))
        return
    crash = [f for f in fails if f["verdict"] == "crash"]
    found = search() if search else None
    if found:
        chk.fail("schedule", dict(found, scenario="gp", what="implementation oracle: " + "; ".join(found["oracle"]),
                                  first_divergence=fails[0].get("driver")))
        return
    f = (crash or fails)[0]
    dmsg = " ".join(f.get("driver") or [])
    if "C01" == chk.pid and ("[reader slave fence]" in dmsg or "[master barrier: sys_membarrier]" in dmsg):
        # a fence the TSO proof needs is missing: the SC harness cannot exhibit the failure, the pre-proved
        # x86-TSO run of the algorithm without that fence (Neg/C01.lean) is the concrete failing history
        ok, log = vlib.lake_build(["UrcuVerif.Neg.C01"])
        if ok:
            chk.fail("tso-witness", dict(f, scenario="gp", theorem="UrcuVerif.Gp.Neg.no_fence_violates_guarantee",
                                         model_run=["reg 0", "rLd 0", "rSt 0 (buffered)", "rEnter 0", "rRead 0 (X=0)", "uStart tracked",
                                                    "uMbarRet", "uScan1Inactive 0 (stale memory word)", "uFlip", "uP2Done -> synchronize_rcu returns, reader 0 still inside"],
                                         what="the code no longer issues the fence the x86-TSO proof needs (%s); Lean-checked TSO run of the algorithm without it violates gp_guarantee and gp_litmus" % dmsg[:160]))
            return
    ctx = " ".join(f.get("context") or [])
    mw = re.search(r"ST (reader\S*): memory order (\d+) weaker than", dmsg)
    if not mw and ":: expected MB" in dmsg:
        # a full fence is missing (or replaced by rmb / wmb) right after the store of a reader word
        last = [l for l in (f.get("context") or [])[-3:-1] if re.search(r"\bST reader\S*\.ctr", l)]
        if last:
            mw = re.search(r"ST (reader\S*) \S+ (\d+)", last[-1])
    if chk.pid in ("C01", "C02") and mw:
        # a reader's publication of its own word lost its trailing full fence (on x86 a seq_cst store is xchg / mov+mfence,
        # a release store is a plain mov): reader "ST word; LD <updater's flag / data>" against updater "ST flag; mb; LD word"
        # is the store-buffering litmus with only one side fenced - reachable on x86-TSO, invisible to the SC harness
        ok, log = vlib.lake_build(["UrcuVerif.Props.C20"])
        if ok:
            chk.fail("tso-witness", dict(f, scenario="gp", theorem="UrcuVerif.Uatomic.sb_reachable_one_sided",
                                         model_run=["reader: ST own word (stays in its store buffer)", "reader: LD updater's variable = old value",
                                                    "updater: ST its variable", "updater: full fence (flush)", "updater: LD reader word = old value",
                                                    "-> both loads read the old values: the updater misses the reader (C01: section not waited for / "
                                                    "C02: sleeps although the reader has already tested the wake-up flag)"],
                                         what="the store to %s is no longer followed by a full fence (memory order %s instead of seq_cst): Lean-checked "
                                              "x86-TSO store-buffering run with one unfenced side (%s)" % (mw.group(1), mw.group(2), dmsg[:140])))
            return
    if "C02" == chk.pid and ("[qsbr: waiting[] stores before the scan" in dmsg or
                             (re.search(r"ST reader\S*\.waiting", dmsg) and "expected LD" in dmsg) or
                             (re.search(r"expected ST reader\S*\.waiting", dmsg))):
        # qsbr: the full fence between the updater's waiting[i] := 1 stores and its scan is gone (e.g. the arming store folded into
        # the scan loop: store waiting[i]; load ctr[i] is a store->load pair on x86-TSO)
        ok, log = vlib.lake_build(["UrcuVerif.Neg.C02Qsbr"])
        if ok:
            chk.fail("tso-witness", dict(f, scenario="gp", theorem="UrcuVerif.QsbrHs.Neg.lost_wakeup_without_arm_fence",
                                         model_run=["w0 (futex := -1, buffered)", "wArm 0 (waiting[0] := 1, buffered)", "flushFutM1", "scan starts: w1Some 0 sees reader 0 not yet quiescent",
                                                    "k0 0 (reader announces its quiescent state)", "k1Clear 0 (reader loads waiting[0] = 0 from memory: no wake-up)",
                                                    "flushWait 0 (too late)", "w2Sleep -> updater asleep on futex = -1, the only reader is done"],
                                         what="qsbr: the code no longer issues the full fence between arming the readers' waiting flags and scanning their "
                                              "words; Lean-checked x86-TSO run of the handshake without it loses the wake-up (%s)" % dmsg[:160]))
            return
    if "C02" == chk.pid and ("[reader slave fence]" in dmsg or "[master barrier" in dmsg) and re.search(r"\b(SUB|ADD|DEC|ST|LD)\w* gp\.futex", ctx):
        # a fence of the futex handshake is missing (between the leader's `dec futex` and its scan, or between the reader's
        # unlock store and its test of the futex): invisible to the SC harness, the Lean-checked x86-TSO run of the handshake
        # without fences is the concrete failing history
        ok, log = vlib.lake_build(["UrcuVerif.Props.C02"])
        if ok:
            chk.fail("tso-witness", dict(f, scenario="gp", theorem="UrcuVerif.Handshake.lost_wakeup_without_fences",
                                         model_run=["k0 0 (reader's unlock store, buffered)", "kf 0", "k1 0 (reader loads futex = 0)", "k2Skip 0 (no wake)",
                                                    "w0 (leader: futex := -1)", "wbarRet (no forced fence)", "w1Some 0 (scan: memory still says active)",
                                                    "w2Sleep -> leader asleep on futex = -1, nobody left to wake it"],
                                         what="the code no longer issues a fence the x86-TSO handshake proof needs (%s); Lean-checked TSO run of the handshake without it loses the wake-up" % dmsg[:160]))
            return
    chk.fail("divergence" if f["verdict"] != "crash" else "crash",
             dict(f, scenario="gp", correspondence="Driver/Gp.lean vs src/urcu.c, src/urcu-qsbr.c, src/urcu-bp.c + static headers",
                  what="the implementation is no longer a run of the proven model (or fails an oracle owned by another property: %s)"
                       % ",".join(sorted(set(sum([x.get("kinds", []) for x in fails], []))))), nofail=True)


def sweep(chk, own_kinds, record=True, wide=False):
    """Systematic one-preemption sweep around the leader's spin->sleep transition (DESIGN §1.2 'bounded systematic
    DFS'): non-preemptive base schedule; the single parked reader is resumed at global step N for M steps, for every
    N near a futex event of the base run.  Returns failing results."""
    fails = []
    runs = 0
    for flavor, memb, cname in CONFIGS:
        base = ["--readers", "1", "--updaters", "1", "--uops", "1", "--oneshot-sweep", "--strategy", "sweep"]
        args = [os.path.join(vlib.BUILD, "gp_" + flavor), "--seed", "1"] + base
        rc, out, err = vlib.sh2(args, timeout=60, env={"VRT_MEMBARRIER": str(memb)})
        marks = [int(x) for x in re.findall(r"^#@ (\d+)$", out, re.M) if int(x) < 500000]
        pts = set()
        for m in marks:
            pts.update(range(max(1, m - (40 if wide else 14)), m + 7))
        for n in sorted(pts):
            for ln in ((2, 3, 5, 8, 20) if wide else (2, 3, 8)):
                r = one(flavor, memb, 1, 1, 1, 0, 1, ["--oneshot-sweep", "--strategy", "sweep", "--preempt-at", str(n),
                                                       "--preempt-tid", "1", "--preempt-len", str(ln)])
                runs += 1
                if r["verdict"] != "ok":
                    r["config"] = cname
                    fails.append(r)
                    if r["verdict"] == "oracle" and any(k in own_kinds for k in r["kinds"]):
                        if record:
                            chk.cov["sweep_runs"] = runs
                        return fails
    if record:
        chk.cov["sweep_runs"] = runs
        chk.cov["evaluations"] += runs
    return fails


def search_own(chk, own_kinds, emphasis, n=400, extra_all=(), configs=None):
    """Extended schedule search with the implementation oracles."""
    def go():
        if emphasis == "liveness":
            for r in sweep(chk, own_kinds, record=False, wide=True):
                if r["verdict"] == "oracle" and any(x in own_kinds for x in r["kinds"]):
                    return r
        for ci, (flavor, memb, cname) in enumerate(configs or CONFIGS):
            for k in range(n):
                sd = chk.seed * 1000 + 500000 + k
                readers, updaters, extra = plan(chk.rng, k, emphasis)
                r = one(flavor, memb, sd, readers, updaters, 40, 3, list(extra) + list(extra_all))
                if r["verdict"] == "oracle" and any(x in own_kinds for x in r["kinds"]):
                    r["config"] = cname
                    return r
        return None
    return go


def replay(rp):
    ok, log = build()
    if not ok:
        print(log)
        return 2
    if "cmd" not in rp:
        import json
        print(json.dumps(rp, indent=1))
        return 1
    args = [os.path.join(vlib.BUILD, os.path.basename(rp["cmd"][0]))] + [str(x) for x in rp["cmd"][1:]]
    rc, out, err = vlib.sh2(args, timeout=120, env=rp.get("env"))
    drc, dout = vlib.sh([DRV], inp=out.encode(), timeout=300)
    print(err.strip())
    print(dout.strip())
    return 1 if (rc != 0 or drc != 0) else 0
