"""C11 — stacks are LIFO (cds_wfs, cds_lfs, legacy cds_lfs_rcu); also the stack facets of C17
(`c17_part(chk)`, used by the aggregated C17 check).  DESIGN.md §4 C11 / C17.

Proof part: Lean models Wfs/Model.lean, Lfs/Model.lean (x86-TSO, any number of threads, node
recycling, mutex / single consumer / RCU schemes for BOTH stacks: concurrent poppers inside
read-side sections, recycling only after an abstract GpSpec grace period) with invariants and the
theorems of Props/C11.lean (C11_full_holds) and Props/C17Stacks.lean.
Tie: harness/scen/wfs.c and lfs.c compile the REAL src/wfstack.c, src/lfstack.c,
src/rculfstack.c (+ the real src/urcu.c for the RCU scheme) under the macro shim; every trace is
replayed by Driver/Wfs.lean / Driver/Lfs.lean on the proven models; an independent C oracle
(harness/scen/stack_oracle.h) checks LIFO linearizability, return values, exactly-once and
recycled-node accesses on the recorded history.
"""
import concurrent.futures
import os
import re
import tempfile

import vlib

T11 = "UrcuVerif.C11."
THEOREMS = [T11 + x for x in (
    "wfs_refines_lifo", "wfs_each_node_popped_once", "wfs_pop_all_returns_all_in_lifo_order_and_empties",
    "wfs_iteration_exact", "wfs_push_ret_consistent", "wfs_empty_consistent", "wfs_pop_null_iff_empty",
    "wfs_LAST_state_correct", "wfs_no_aba", "wfs_iteration_past_incomplete_push", "wfs_pop_past_incomplete_push",
    "wfs_rcu_node_not_recycled", "wfs_rcu_recycle_after_gp", "wfs_unprotected_aba_witness",
    "lfs_refines_lifo", "lfs_each_node_popped_once", "lfs_pop_all_returns_all_in_lifo_order_and_empties",
    "lfs_iteration_exact", "lfs_push_ret_consistent", "lfs_empty_consistent", "lfs_pop_null_iff_empty",
    "lfs_pop_returns_top", "lfs_no_aba", "lfs_rcu_node_not_recycled", "lfs_tso_private_init",
    "lfs_unprotected_aba_witness", "C11_full_holds")] + [
    "UrcuVerif.Wfs.inv_step", "UrcuVerif.Wfs.inv_reach", "UrcuVerif.Lfs.inv_step", "UrcuVerif.Lfs.inv_reach",
    "UrcuVerif.Lifo.conservation"]
# C11_full (both stacks x mutex | single consumer | RCU-protected concurrent poppers) is proved: C11_full_holds.
# Not a Lean statement: the composition of the abstract GpSpec grace period with the real synchronize_rcu() (trusted base).
UNPROVED = []
T17 = "UrcuVerif.C17Stacks."
THEOREMS17 = [T17 + x for x in (
    "wfs_push_wait_free", "wfs_others_cannot_delay", "wfs_pop_all_one_rmw", "lfs_pop_all_one_rmw",
    "lfs_push_solo_terminates", "lfs_pop_solo_terminates", "lfs_push_cas_fails_only_by_interference",
    "lfs_pop_cas_fails_only_by_interference", "wfs_nonblocking_pop_never_waits", "wfs_nonblocking_next_never_waits",
    "wfs_wouldblock_only_if_inflight", "wfs_next_wouldblock_only_if_inflight", "wfs_nonblocking_pop_quiet_succeeds",
    "wfs_nonblocking_next_quiet_succeeds", "wfs_wouldblock_changes_nothing")]
AUDIT_MODS = ["UrcuVerif.Wfs", "UrcuVerif.Lfs", "UrcuVerif.Props.C11", "UrcuVerif.Props.C17Stacks", "UrcuVerif.Machine"]
TRUSTED = ["Lean 4.33 kernel; axioms ⊆ {propext, Classical.choice, Quot.sound}",
           "x86-TSO abstract machine: per-thread FIFO store buffers for the plain/release stores (wfstack: node->next = NULL, "
           "node->next = old_head; lfstack: node->next = head), flush = environment step, xchg/cmpxchg/mutex operations act on "
           "memory atomically and need an empty own buffer; loads read the own buffer first",
           "RCU scheme: the grace period is abstract (GpSpec: gpEnd only when every section begun before gpStart has ended); the "
           "harness maps the real rcu_read_lock/unlock and synchronize_rcu() of src/urcu.c (memb) to these steps and the model's "
           "guard is re-checked at every real synchronize_rcu() return on the explored schedules (composition by interface)",
           "one stack, one popped list per thread at a time (a thread finishes iterating before its next pop_all); nodes are "
           "handed between threads only when free (hand-off synchronises); memory allocation is outside the model",
           "tie: Driver/Wfs.lean, Driver/Lfs.lean event-level transliteration of the C text replayed on the proven models on the "
           "explored schedules only (cooperative SC scheduler; TSO delays are quantified in the theorems, not in the harness); "
           "harness/rt runtime + macro shim; plain accesses (node->next initialisation, lfstack iteration) are reported by the "
           "scenario / checked through the values later read atomically",
           "blocking operations are not claimed wait-free"]
OWN11 = {"lifo", "ret", "once", "recycled", "scheme", "oracle", "DEADLOCK", "BUDGET", "SELFLOCK", "BADUNLOCK"}
OWN17 = {"solo", "wouldblock", "DEADLOCK", "BUDGET"}

RT = os.path.join(vlib.HARN, "rt")
SCEN = os.path.join(vlib.HARN, "scen")
BIN = os.path.join(vlib.LEAN, ".lake", "build", "bin")

# (name, binary, extra args, driver, description)
CONFIGS = [
    ("wfs/mutex", "wfs", ["--scheme", "mutex"], "drv_wfs", "cds_wfs, internal mutex"),
    ("wfs/single", "wfs", ["--scheme", "single"], "drv_wfs", "cds_wfs, single consumer"),
    ("wfs/rcu", "wfs_rcu", [], "drv_wfs", "cds_wfs, concurrent __cds_wfs_pop_* callers in RCU sections without the mutex (real urcu memb), "
                                         "recycling after synchronize_rcu"),
    ("lfs/mutex", "lfs", ["--scheme", "mutex"], "drv_lfs", "cds_lfs, internal mutex"),
    ("lfs/single", "lfs", ["--scheme", "single"], "drv_lfs", "cds_lfs, single consumer"),
    ("lfs/rcu", "lfs_rcu", [], "drv_lfs", "cds_lfs, poppers in RCU sections (real urcu memb), recycling after synchronize_rcu"),
    ("rculfstack/rcu", "lfs_legacy", [], "drv_lfs", "legacy cds_lfs_rcu, RCU sections, recycling after synchronize_rcu"),
]
# branches that must be exercised by the quick tier (coverage is part of the verdict)
REQUIRED = {
    "wfs": ["push_empty", "push_nonempty", "pop_node", "pop_last", "pop_null", "pop_wouldblock_sync", "pop_cas_retry",
            "sync_relax", "popall_empty", "popall_nonempty", "next_node", "next_end", "next_wouldblock", "empty_true",
            "empty_false", "lock",
            # wfs/rcu: sections, grace periods, recycling, and pop-vs-pop races (cmpxchg lost to a concurrent popper)
            "rlock", "retire", "grace_period", "reclaim_after_gp", "pop_cas_fail_by_pop", "pop_cas_fail_by_push",
            "pop_wouldblock_cas"],
    "lfs": ["push_empty", "push_nonempty", "push_cas_fail", "pop_node", "pop_last", "pop_null", "pop_cas_fail",
            "popall_empty", "popall_nonempty", "next_node", "next_end", "empty_true", "empty_false", "lock",
            "rlock", "grace_period", "reclaim_after_gp"],
}
NONTRIVIAL = ("pop_cas_retry", "pop_wouldblock_sync", "pop_wouldblock_cas", "sync_relax", "sync_poll", "next_wouldblock",
              "push_cas_fail", "pop_cas_fail", "pop_cas_fail_by_pop", "pop_cas_fail_by_push")


def build():
    vrt = os.path.join(RT, "vrt.c")
    ok, log = vlib.cc("wfs", [os.path.join(SCEN, "wfs.c"), vrt], ["-w"])
    if not ok:
        return False, log
    ok, log = vlib.cc("lfs", [os.path.join(SCEN, "lfs.c"), vrt], ["-w"])
    if not ok:
        return False, log
    ok, log = vlib.cc("wfs_rcu", [os.path.join(SCEN, "wfs.c"), vrt, os.path.join(RT, "vrt_compat_futex.c")] + vlib.rsrc("compat_arch.c"),
                      ["-w", "-DWITH_RCU", "-DRCU_MEMBARRIER"])
    if not ok:
        return False, log
    rcu_srcs = [os.path.join(SCEN, "lfs.c"), vrt, os.path.join(RT, "vrt_compat_futex.c")] + vlib.rsrc("compat_arch.c")
    ok, log = vlib.cc("lfs_rcu", rcu_srcs, ["-w", "-DWITH_RCU", "-DRCU_MEMBARRIER"])
    if not ok:
        return False, log
    ok, log = vlib.cc("lfs_legacy", rcu_srcs, ["-w", "-DWITH_RCU", "-DRCU_MEMBARRIER", "-DLEGACY"])
    return ok, log


def one(cfg, seed, pushers, poppers, ops, nodes, extra=()):
    """Run one schedule; returns dict(verdict=ok|diverge|oracle|crash, ...)."""
    name, binary, bargs, drv, _ = cfg
    fd, tpath = tempfile.mkstemp(prefix="c11_", suffix=".trace", dir=vlib.BUILD)
    os.close(fd)
    args = [os.path.join(vlib.BUILD, binary)] + bargs + ["--seed", str(seed), "--pushers", str(pushers), "--poppers", str(poppers),
                                                        "--ops", str(ops), "--nodes", str(nodes)] + list(extra)
    res = {"config": name, "cmd": args, "scenario": "stack"}
    try:
        rc, out, err = vlib.sh2(args + ["--trace", tpath], timeout=120)
        res["rc"] = rc
        kinds = re.findall(r"ORACLE (\w+)", err)
        try:
            with open(tpath, "rb") as f:
                trace = f.read()
        except OSError:
            trace = b""
        if rc not in (0, 3, 4, 5):
            res.update(verdict="crash", stderr=err[-600:])
            return res
        drc, dout = vlib.sh([os.path.join(BIN, drv)], inp=trace, timeout=300)
        res["driver"] = dout.strip().splitlines()[:2]
        res["events"] = trace.count(b"\n")
        m = re.search(r"SOLO self=(\d+) mid=(\d+)", err)
        if m:
            res["solo"] = (int(m.group(1)), int(m.group(2)))
        if kinds:
            res.update(verdict="oracle", kinds=kinds, oracle=[l for l in err.strip().splitlines() if "ORACLE" in l][:4])
        elif drc != 0:
            res.update(verdict="diverge")
        else:
            res.update(verdict="ok")
            res["cov"] = dict((k, int(v)) for k, v in (x.split("=") for x in dout.split()[2:] if "=" in x))
        return res
    finally:
        for p in (tpath, tpath + ".choices"):
            try:
                os.unlink(p)
            except OSError:
                pass


def plan(rng, k, c17):
    """scenario parameters + strategy of run k"""
    pushers = 1 + k % 4
    poppers = 1 + (k // 2) % 3
    ops = rng.choice([6, 10, 14])
    nodes = rng.choice([2, 3, 5, 8]) if k % 3 else rng.choice([1, 2, 12])
    extra = []
    if k % 5 == 3:
        extra += ["--strategy", "pct", "--pctd", str(1 + k % 4), "--pctlen", str(rng.choice([150, 400]))]
    else:
        extra += ["--pswitch", str(rng.choice([3, 8, 20, 35, 60, 85]))]
    if c17:
        extra += ["--c17"]
    return pushers, poppers, ops, nodes, extra


def jobs_random(chk, n, c17, seed_base=0):
    js = []
    for cfg in CONFIGS:
        for k in range(n):
            pushers, poppers, ops, nodes, extra = plan(chk.rng, k, c17)
            if cfg[0] == "wfs/rcu":
                poppers = max(2, poppers)       # the point of this configuration: pop-vs-pop races without a mutex
            js.append((cfg, chk.seed * 100000 + seed_base + k, pushers, poppers, ops, nodes, extra))
    return js


def jobs_sweep(chk, stride):
    """systematic one-preemption sweep on small scenarios: non-preemptive base schedule + ONE forced preemption
    of `len` steps to thread `tid` at global step N, for every N (stride) of the base run."""
    js = []
    for cfg in CONFIGS:
        if cfg[0] in ("wfs/mutex", "lfs/mutex", "rculfstack/rcu"):
            continue
        base = ["--strategy", "sweep"]
        r = one(cfg, 1, 2, 1, 5, 4, base)
        steps = min(r.get("events", 0), 400)
        for n in range(1, max(2, steps), stride):
            for tid in (1, 2, 3):
                for ln in (2, 5):
                    js.append((cfg, 1, 2, 1, 5, 4, base + ["--preempt-at", str(n), "--preempt-tid", str(tid), "--preempt-len", str(ln)]))
    return js


def run_jobs(js, stop_after=3):
    """run jobs in parallel; returns (results, fails)"""
    results, fails = [], []
    with concurrent.futures.ThreadPoolExecutor(max_workers=max(2, vlib.NCPU // 2)) as ex:
        futs = [ex.submit(one, *j) for j in js]
        for f in futs:
            r = f.result()
            results.append(r)
            if r["verdict"] != "ok":
                fails.append(r)
    fails.sort(key=lambda r: 0 if r["verdict"] == "oracle" else 1)
    return results, fails[:max(stop_after, 1) * 4]


def record(chk, results, tag=""):
    hist = chk.cov.setdefault("branch_histogram", {})
    per_cfg = chk.cov.setdefault("runs_per_config", {})
    nontriv = chk.cov.setdefault("_nontriv", set())
    for r in results:
        chk.cov["evaluations"] += 1
        per_cfg[r["config"]] = per_cfg.get(r["config"], 0) + 1
        if r["verdict"] != "ok":
            continue
        chk.cov["traces_validated_against_impl"] = chk.cov.get("traces_validated_against_impl", 0) + 1
        chk.cov["events_compared"] = chk.cov.get("events_compared", 0) + r["events"]
        fam = "wfs" if r["config"].startswith("wfs") else "lfs"
        for k, v in r["cov"].items():
            hist[fam + "." + k] = hist.get(fam + "." + k, 0) + v
        if any(r["cov"].get(k, 0) for k in NONTRIVIAL):
            nontriv.add((r["config"], r["driver"][0]))
            if not any(x.get("config") == r["config"] for x in chk.cov["samples"]):
                chk.sample({"config": r["config"], "cmd": " ".join(str(x) for x in r["cmd"][1:]), "events": r["events"],
                            "driver": r["driver"][0][:700]})
        if "solo" in r:
            s = chk.cov.setdefault("solo_runs", [0, 0])
            s[0] += r["solo"][0]
            s[1] += r["solo"][1]
    chk.cov["distinct_nontrivial"] = len(nontriv)


def finish_cov(chk, what):
    chk.cov.pop("_nontriv", None)
    hist = chk.cov.get("branch_histogram", {})
    missing = [fam + "." + k for fam, ks in REQUIRED.items() for k in ks if not hist.get(fam + "." + k)]
    chk.cov["required_branches_missing"] = missing
    if missing:
        chk.notes.append("coverage: branches not exercised in this run: " + ", ".join(missing))
    chk.cov["rule"] = (what + ": schedules of harness/scen/wfs.c and lfs.c (the real src/wfstack.c, lfstack.c, rculfstack.c "
                       "[+ real src/urcu.c memb for the RCU scheme] under the shim; 1-4 pushers, 1-3 poppers, 6-14 ops per thread, "
                       "1-12 recycled nodes, pops / pop_all / iteration / empty / nested lock regions, blocking and non-blocking variants) "
                       "for 7 configurations (wfs mutex|single|rcu, lfs mutex|single|rcu, rculfstack rcu; rcu = several concurrent "
                       "poppers inside read-side sections of the real flavor, no mutex, recycling after synchronize_rcu), drawn from VERIF_SEED with "
                       "random-walk (several switch probabilities), PCT and the systematic one-preemption sweep; every event replayed "
                       "on the proven model by Driver/Wfs.lean / Driver/Lfs.lean, history checked by the independent C oracle; "
                       "non-trivial = the run contains a real interference (incomplete push observed, failed/ retried cmpxchg, "
                       "WOULDBLOCK); distinct = different (configuration, driver coverage summary)")


def own_fail(fails, own):
    for f in fails:
        if f["verdict"] == "oracle" and any(k in own for k in f["kinds"]):
            return f
    return None


def report(chk, fails, own, search):
    if not fails:
        return
    f = own_fail(fails, own)
    if f:
        chk.fail("schedule", dict(f, what="implementation oracle: " + "; ".join(f["oracle"])))
        return
    found = search() if search else None
    if found:
        chk.fail("schedule", dict(found, what="implementation oracle: " + "; ".join(found["oracle"]),
                                  first_divergence=fails[0].get("driver")))
        return
    crash = [x for x in fails if x["verdict"] == "crash"]
    f = (crash or fails)[0]
    chk.fail("divergence" if f["verdict"] != "crash" else "crash",
             dict(f, correspondence="Driver/Wfs.lean | Driver/Lfs.lean vs src/{wfstack,lfstack,rculfstack}.c + static headers",
                  what="the implementation is no longer a run of the proven model (or fails an oracle owned by another property: %s)"
                       % ",".join(sorted(set(sum([x.get("kinds", []) for x in fails], []))))), nofail=True)


def searcher(chk, own, c17, n):
    def go():
        js = jobs_random(chk, n, c17, seed_base=50000) + jobs_sweep(chk, 1)
        with concurrent.futures.ThreadPoolExecutor(max_workers=max(2, vlib.NCPU // 2)) as ex:
            for r in ex.map(lambda j: one(*j), js):
                if r["verdict"] == "oracle" and any(k in own for k in r["kinds"]):
                    return r
        return None
    return go


def run(chk):
    chk.assumptions = TRUSTED
    chk.cov["trusted_base"] = TRUSTED
    chk.proof_part(["UrcuVerif.Props.C11", "drv_wfs", "drv_lfs"], "UrcuVerif.Props.C11", THEOREMS, AUDIT_MODS, unproved=UNPROVED)
    ok, log = build()
    if not ok:
        chk.fail("build", {"theorem": "harness/scen/wfs.c / lfs.c do not compile against /repo", "lean_error": log[-2000:]}, nofail=True)
        return
    quick = chk.tier == "quick"
    results, fails = run_jobs(jobs_random(chk, 30 if quick else 500, False))
    record(chk, results)
    if not fails:
        results, fails = run_jobs(jobs_sweep(chk, 3 if quick else 1))
        record(chk, results)
        chk.cov["sweep_runs"] = len(results)
    finish_cov(chk, "C11")
    report(chk, fails, OWN11, searcher(chk, OWN11, False, 150 if quick else 1500))


def c17_part(chk):
    """Stack facets of C17: proof part of Props/C17Stacks.lean + freeze / solo-run scenarios (--c17).
    Returns the list of failing results (already reported through chk)."""
    chk.proof_part(["UrcuVerif.Props.C17Stacks", "drv_wfs", "drv_lfs"], "UrcuVerif.Props.C17Stacks", THEOREMS17, AUDIT_MODS)
    ok, log = build()
    if not ok:
        chk.fail("build", {"theorem": "harness/scen/wfs.c / lfs.c do not compile against /repo", "lean_error": log[-2000:]}, nofail=True)
        return []
    quick = chk.tier == "quick"
    results, fails = run_jobs(jobs_random(chk, 20 if quick else 300, True, seed_base=20000))
    record(chk, results)
    chk.cov["stack_solo_bounds"] = {"wfs": {"push": 3, "pop_all": 2, "pop_nonblocking": 4, "next_nonblocking": 1, "empty": 1},
                                    "lfs": {"push": 4, "pop_all": 2, "pop": 7, "empty": 1},
                                    "unit": "own scheduling points (shimmed primitives) with all other threads frozen; "
                                            "model bounds: wfs push 4 (incl. <=2 own buffer drains), non-blocking pop 4, lfs push 6, lfs pop 5"}
    report(chk, fails, OWN17, searcher(chk, OWN17, True, 100 if quick else 1000))
    return fails


def replay(rp):
    ok, log = build()
    if not ok:
        print(log)
        return 2
    if "cmd" not in rp:
        import json
        print(json.dumps(rp, indent=1))
        return 1
    cfg = [c for c in CONFIGS if c[0] == rp.get("config")]
    drv = cfg[0][3] if cfg else ("drv_wfs" if "wfs" in os.path.basename(rp["cmd"][0]) else "drv_lfs")
    fd, tpath = tempfile.mkstemp(prefix="c11_replay_", suffix=".trace", dir=vlib.BUILD)
    os.close(fd)
    args = [os.path.join(vlib.BUILD, os.path.basename(rp["cmd"][0]))] + [str(x) for x in rp["cmd"][1:]] + ["--trace", tpath]
    rc, out, err = vlib.sh2(args, timeout=120)
    with open(tpath, "rb") as f:
        trace = f.read()
    drc, dout = vlib.sh([os.path.join(BIN, drv)], inp=trace, timeout=300)
    print(err.strip())
    print(dout.strip())
    print("trace kept at", tpath)
    return 1 if (rc != 0 or drc != 0) else 0


def src_search(chk):
    """a refinement theorem of the source-translator tie broke: wider search for a concrete failing schedule"""
    return searcher(chk, OWN11, False, 400 if chk.tier == "quick" else 4000)()
