"""C13 — defer_rcu(): once, in order, exact arguments, after a grace period (src/urcu-defer-impl.h).
DESIGN.md §4 C13.  This check covers the part decided at the level of operation sequences (codec,
ring, registration life cycle, barriers, grace-period ordering); the fine-grained TSO / futex part
is a separate component."""
import json
import os
from concurrent.futures import ThreadPoolExecutor

import vlib

P = "UrcuVerif.Defer."
THEOREMS = [P + n for n in (
    "codec_roundtrip", "ring_decode", "ring_roundtrip", "fresh_queue_inv", "ring_index_wrap", "real_cfg_ok",
    "defer_exactly_once_in_order", "drained_all_invoked", "runs_after_gp", "gp_is_GpSpec",
    "barrier_runs_all_prior", "barrier_call_to_return", "barrier_thread_runs_all_prior", "unregister_runs_all_prior",
    "reregister_ok", "no_abort", "reregister_aborts_unfixed", "reregister_ok_witness",
    "C13_oplevel_proved", "inv_step", "inv_reach", "runLoop_encode", "decode_encode",
    "DQ_FCT_BIT_eq_one", "DQ_FCT_MARK_even", "DEFER_QUEUE_SIZE_pow2", "DEFER_QUEUE_MASK_eq", "fctMark_eq")]
UNPROVED = ["UrcuVerif.Defer.C13_full (parameters tsoPublication, reclaimerNoLostWakeup: fine-grained TSO / futex "
            "facets, proved by the concurrent component, not here)"]
TRUSTED = ["Lean 4.33 kernel; axioms ⊆ {propext, Classical.choice, Quot.sound}",
           "grace period abstracted by GpSpec (C01): synchronize_rcu() returns only when every section begun before the call has ended",
           "granularity: each API call / reclaimer pass atomic under rcu_defer_mutex, except the owner's enqueue and the "
           "grace period (snapshot / gp / run are separate steps); accesses inside one step are not interleaved here "
           "(TSO publication order and the defer thread's futex handshake: separate fine-grained component)",
           "tie: harness/scen/defer.c (macro shim of URCU_TLS, pthread_mutex_lock, pthread_create/join, malloc; "
           "synchronize_rcu = harness grace period; SIGSEGV trap for non-callable function words) + Driver/Defer.lean",
           "64-bit long; malloc of the ring succeeds; callbacks return"]
WANT_TAGS = ["defer_threshold_flush", "defer_flush_run", "occupancy_eq_size", "entry_across_ring_wrap", "head_crosses_2^64",
             "barrier_partial_batch", "barrier_nothing_queued", "barrier_empty_registry", "flush_nothing_queued",
             "unreg_nothing_queued", "unreg_run", "re_register", "reg_start_thread", "unreg_stop_thread",
             "defer_slots_1", "defer_slots_2", "defer_slots_3", "reader_lock_during_gp", "barrier_by_thread",
             "barrier_by_reclaimer"]
DRV = os.path.join(vlib.LEAN, ".lake", "build", "bin", "drv_defer")


def build():
    return vlib.cc("defer", [os.path.join(vlib.HARN, "scen", "defer.c")] + vlib.rsrc("compat_futex.c", "compat_arch.c"))


def run_one(seed, ncalls, mode):
    """returns (verdict, detail, driver_output); verdict in ok|diverge|oracle|crash"""
    args = [os.path.join(vlib.BUILD, "defer"), str(seed), str(ncalls), str(mode)]
    rc, out, err = vlib.sh2(args, timeout=120)
    drc, dout = vlib.sh([DRV], inp=out.encode(), timeout=300)
    if rc == 3:
        return "oracle", {"cmd": args, "oracle": err.strip().splitlines()[:6], "driver": dout.strip().splitlines()[:2]}, dout
    if rc != 0:
        return "crash", {"cmd": args, "rc": rc, "stderr": err.strip().splitlines()[-6:], "driver": dout.strip().splitlines()[:2]}, dout
    if drc != 0:
        return "diverge", {"cmd": args, "driver": dout.strip().splitlines()[:2]}, dout
    return "ok", {"cmd": args, "lines": len(out.splitlines())}, dout


def plan(tier, seed):
    """list of (seed, ncalls, mode)"""
    base = seed * 100000
    if tier == "quick":
        n0, n1 = 48, 90
    else:
        n0, n1 = 800, 2400
    jobs = [(base + k, 14000, 0) for k in range(n0)]
    jobs += [(base + 1000 + k, 4000, 1) for k in range(n1)]
    jobs += [(base + 5000 + k, 0, 2) for k in range(2)]
    return jobs


def run(chk):
    """sequential / API-level part (this file) + concurrent part (props/c13conc.py: owner/runner interleaving at single-access
    granularity on x86-TSO, the defer thread's futex handshake, the real defer thread under the cooperative runtime)"""
    from props import c13conc
    seq_part(chk)
    th, ax, un = list(chk.cov.get("theorems", [])), dict(chk.cov.get("axioms", {})), list(chk.cov.get("unproved_full_statements", []))
    seq_rule = chk.cov.get("rule", "")
    c13conc.run_part(chk)
    chk.live_part()
    chk.cov["theorems"] = th + [t for t in chk.cov.get("theorems", []) if t not in th]
    ax.update(chk.cov.get("axioms", {}))
    chk.cov["axioms"] = ax
    chk.cov["unproved_full_statements"] = un + [u for u in chk.cov.get("unproved_full_statements", []) if u not in un]
    if seq_rule and chk.cov.get("rule") != seq_rule:
        chk.cov["rule"] = seq_rule + "  ||  concurrent part: " + str(chk.cov.get("rule", ""))


def seq_part(chk):
    chk.assumptions = list(TRUSTED)
    chk.cov["trusted_base"] = list(TRUSTED)
    proved = chk.proof_part(["UrcuVerif.Props.C13", "drv_defer"], "UrcuVerif.Props.C13", THEOREMS,
                            ["UrcuVerif.Defer", "UrcuVerif.Props.C13", "UrcuVerif.Machine"], unproved=UNPROVED)
    ok, log = build()
    if not ok:
        chk.fail("build", {"theorem": "harness/scen/defer.c does not compile against the repository",
                           "lean_error": log[-2000:]}, nofail=True)
        return
    if not proved and not os.path.exists(DRV):
        return
    jobs = plan(chk.tier, chk.seed)
    hist = {}
    nontriv = set()
    bad = []
    max_occ = 0
    with ThreadPoolExecutor(max_workers=max(2, min(12, vlib.NCPU))) as ex:
        results = list(ex.map(lambda j: (j, run_one(*j)), jobs))
    for (sd, ncalls, mode), (v, d, dout) in results:
        chk.cov["evaluations"] += 1
        if v == "ok":
            toks = dout.split()
            cov = dict(x.split("=", 1) for x in toks[2:] if "=" in x)
            for kk, vv in cov.items():
                if kk == "max_occupancy":
                    max_occ = max(max_occ, int(vv))
                else:
                    hist[kk] = hist.get(kk, 0) + int(vv)
            if int(cov.get("invocations", 0)) and int(cov.get("gp", 0)) and int(cov.get("defer_slots_3", 0)) \
                    and int(cov.get("defer_slots_2", 0)):
                nontriv.add(dout)
            if len(chk.cov["samples"]) < 4 and (mode != 0 or not any(s.get("mode") == 0 for s in chk.cov["samples"])):
                chk.sample({"seed": sd, "calls": ncalls, "mode": mode, "driver": dout.strip()[:1500]})
        else:
            bad.append((v, d))
    chk.cov["traces_validated_against_impl"] = chk.cov["evaluations"]
    chk.cov["distinct_nontrivial"] = len(nontriv)
    chk.cov["rule"] = ("operation sequences generated from VERIF_SEED: mode 0 = one thread, 14000 defer_rcu calls "
                       "(> 3x the ring) with rare reclaimer passes so that the SIZE-2 rule fires, entry sizes steered to put "
                       "3-slot entries at the ring wrap and at the threshold; mode 1 = 2-4 threads, register/unregister/"
                       "re-register cycles, barriers by threads and by the reclaimer, owner flushes, readers, enqueues "
                       "injected between a barrier's snapshot, its grace period and its run; mode 2 = directed re-register "
                       "history; head/tail start at 0, near 2^63, near and below 2^64; function words: real callbacks at "
                       "even and odd addresses, 0, the mark, mark|1, even/odd non-callable words; arguments: plain, odd, "
                       "mark, mark|1, equal to the function word|1.  non-trivial = trace contains invocations, a grace "
                       "period and entries of 2 and 3 slots; distinct = different driver coverage summary")
    chk.cov["branch_histogram"] = hist
    chk.cov["max_occupancy_seen"] = max_occ
    chk.cov["fingerprint"] = {"src/urcu-defer-impl.h": vlib.fingerprint("src/urcu-defer-impl.h")}
    missing = [t for t in WANT_TAGS if not hist.get(t)]
    if missing and not bad:
        chk.notes.append("coverage tags not hit in this run: " + ", ".join(missing))
    if not bad:
        return
    # priority: a concrete failing input found by the implementation oracle
    bad.sort(key=lambda x: {"oracle": 0, "crash": 1, "diverge": 2}[x[0]])
    v, d = bad[0]
    first_div = next((x[1] for x in bad if x[0] == "diverge"), None)
    if v == "oracle":
        chk.fail("input", dict(d, scenario="defer", what="implementation oracle: " + "; ".join(d["oracle"][:2]),
                               failing_runs=len(bad), first_divergence=first_div))
    elif v == "crash":
        chk.fail("input", dict(d, scenario="defer", what="harness crashed (wild call / wild access / abort)",
                               failing_runs=len(bad), first_divergence=first_div))
    else:
        # correspondence broken, oracle silent so far: look for a concrete failing input on many more sequences
        found = None
        extra = [(chk.seed * 100000 + 20000 + k, 14000 if k % 3 == 0 else 5000, 0 if k % 3 == 0 else 1) for k in range(240)]
        with ThreadPoolExecutor(max_workers=max(2, min(12, vlib.NCPU))) as ex:
            for j, (v2, d2, _) in ex.map(lambda j: (j, run_one(*j)), extra):
                if v2 in ("oracle", "crash") and found is None:
                    found = d2
        if found:
            chk.fail("input", dict(found, scenario="defer", first_divergence=d,
                                   what="implementation oracle: " + "; ".join(found.get("oracle", found.get("stderr", []))[:2])))
        else:
            chk.fail("divergence", dict(d, scenario="defer", correspondence="Driver/Defer.lean vs src/urcu-defer-impl.h",
                                        failing_runs=len(bad),
                                        what="implementation no longer behaves as a run of the proven model"), nofail=True)


def replay(rp):
    if rp.get("scenario") == "defer_conc" or ("cmd" in rp and "defer_conc" in os.path.basename(str(rp["cmd"][0]))):
        from props import c13conc
        return c13conc.replay(rp)
    ok, log = build()
    if not ok:
        print(log)
        return 2
    if "cmd" in rp:
        args = [os.path.join(vlib.BUILD, "defer")] + [str(x) for x in rp["cmd"][1:]]
        rc, out, err = vlib.sh2(args, timeout=120)
        drc, dout = vlib.sh([DRV], inp=out.encode(), timeout=300)
        print(err)
        print(dout[:3000])
        return 1 if (rc != 0 or drc != 0) else 0
    print(json.dumps(rp, indent=1))
    return 1
