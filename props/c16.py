"""C16 — fork() with the documented handlers leaves parent and child functional.  DESIGN.md §4 C16.

proof part: Lean model of the pause/resume handshake, the fork transition and after_fork_child
(UrcuVerif/Fork/*, Props/C16.lean) -> tie: harness/scen/fork.c (real src/urcu.c | urcu-qsbr.c | urcu-bp.c
with urcu-call-rcu-impl.h under the cooperative runtime, real fork()) over flavors x seeds x fork points,
every trace of every process replayed on Driver/Fork.lean -> implementation oracles (per-process
invocation counts, registry, call_rcu_data_list, no join, termination) -> evidence; harness/scen/fork_lfht.c
(real rculfhash.c + workqueue.c) for the hash-table hooks (oracles only)."""
import glob
import json
import os
import re
import shutil
from concurrent.futures import ThreadPoolExecutor

import vlib

THEOREMS = ["UrcuVerif.Fork.fork_point_quiescent", "UrcuVerif.Fork.child_state_wf",
            "UrcuVerif.Fork.child_callbacks_once_partial", "UrcuVerif.Fork.parent_callbacks_once_partial",
            "UrcuVerif.Fork.fork_snapshot", "UrcuVerif.Fork.cb_at_most_once",
            "UrcuVerif.Fork.child_gp_terminates", "UrcuVerif.Fork.child_registry",
            "UrcuVerif.Fork.child_barrier_terminates", "UrcuVerif.Fork.helpers_alive",
            "UrcuVerif.Fork.after_fork_child_terminates", "UrcuVerif.Fork.before_fork_hangs_unfixed",
            "UrcuVerif.Fork.inv_reach", "UrcuVerif.Fork.inv_step",
            "UrcuVerif.ForkBp.bp_fork_point", "UrcuVerif.ForkBp.bp_child_pruned", "UrcuVerif.ForkBp.bp_child_gp_terminates",
            "UrcuVerif.ForkBp.mask_restored",
            "UrcuVerif.ForkBp.inv_reach", "UrcuVerif.ForkWq.atfork_nesting_balanced", "UrcuVerif.ForkWq.inv_reach"]
UNPROVED = ["(none beyond the restatement) C16_full' / C16_full_parent' = C16_full with explicit provisos (weak fairness of the handler's and "
            "the helpers' steps, read-side sections end, no further fork) are proved: C16_full'_proved, C16_full_parent'_proved "
            "(every callback queued at the fork is eventually invoked, exactly once, in the child and in the parent). The original "
            "C16_full lacks the 'sections end' clause and does not hold as written (argued)"]
TRUSTED = ["Lean 4.33 kernel; axioms ⊆ {propext, Classical.choice, Quot.sound}",
           "fork() clones only the calling thread with a copy of memory (model: Fork.childOf / ForkBp fork); POSIX mutex semantics",
           "L2 granularity: pause/resume handshake flag access by flag access; code under call_rcu_mutex / rcu_registry_lock that "
           "only touches data protected by the lock is one atomic step; call_rcu() = the enqueue xchg (C10/C03); grace period = "
           "GpSpec (C01); futex sleep/wake-up of helpers abstracted (C02/C03 handshake theorems + the runtime's DEADLOCK/BUDGET detectors)",
           "tie: harness/scen/fork.c + harness/rt (cooperative runtime, real fork(), child = forking thread only) + Driver/Fork.lean: "
           "L1 (event-level transliteration of the handlers and of the helper pause branch) ⊑ L2 is checked on every explored "
           "schedule, not proved; the rest of call_rcu is followed at its linearisation events only (event level: C03/C04 driver)",
           "documented preconditions as guards: handlers called outside read-side sections (QSBR: the library goes offline itself "
           "since fix 1436da4); memb/mb/qsbr: the other application threads are unregistered and outside liburcu at the fork; "
           "bp: they may be registered / inside sections but not inside call_rcu()",
           "callbacks terminate and do not call rcu_barrier / helper management; thread creation and allocation succeed",
           "lfht hooks: harness/scen/fork_lfht.c runs the real rculfhash.c/workqueue.c with oracles only (no event replay); "
           "Fork/Wq.lean is a model of the nesting counter and worker pause/resume/re-create protocol"]

RT = os.path.join(vlib.HARN, "rt")
SCEN = os.path.join(vlib.HARN, "scen")
DRV = os.path.join(vlib.LEAN, ".lake", "build", "bin", "drv_fork")
FLAV = {"memb": "-DRCU_MEMBARRIER", "mb": "-DRCU_MB", "qsbr": "-DFORK_QSBR", "bp": "-DFORK_BP"}
# (flavor, sys_membarrier available, name, extra args)
CONFIGS = [("memb", 1, "memb+sys_membarrier", []), ("memb", 0, "memb fallback (mb)", []), ("mb", 0, "mb flavor", []),
           ("qsbr", 0, "qsbr, forking thread registered and ONLINE", ["--online", "1"]),
           ("qsbr", 0, "qsbr, forking thread offline/unregistered", ["--online", "0"]),
           ("bp", 1, "bp+sys_membarrier", []), ("bp", 0, "bp fallback (mb)", [])]


def build():
    common = [os.path.join(RT, "vrt.c"), os.path.join(RT, "vrt_compat_futex.c")] + vlib.rsrc("compat_arch.c")
    jobs = [("fork_" + fl, [os.path.join(SCEN, "fork.c")] + common, ["-w", d]) for fl, d in FLAV.items()]
    with ThreadPoolExecutor(4) as ex:
        res = list(ex.map(lambda j: vlib.cc(*j), jobs))
    for ok, log in res:
        if not ok:
            return False, log
    # lfht variant: three translation units of one source file
    src = os.path.join(SCEN, "fork_lfht.c")
    base = ["gcc", "-O1", "-g", "-pthread"] + vlib.CFLAGS_REPO + ["-w"]
    for tu, extra in (("fl", ["-DTU_FLAVOR", "-DRCU_MEMBARRIER"]), ("wq", ["-DTU_WQ"])):
        rc, log = vlib.sh(base + extra + ["-c", "-o", os.path.join(vlib.BUILD, "fork_lfht_%s.o" % tu), src], timeout=300)
        if rc != 0:
            return False, log
    return vlib.cc("fork_lfht", [src, os.path.join(vlib.BUILD, "fork_lfht_fl.o"), os.path.join(vlib.BUILD, "fork_lfht_wq.o")] +
                   vlib.rsrc("rculfhash-mm-order.c", "rculfhash-mm-chunk.c", "rculfhash-mm-mmap.c", "compat_arch.c") +
                   [os.path.join(RT, "vrt.c"), os.path.join(RT, "vrt_compat_futex.c")], ["-w"])


def _tracedir(tag):
    d = os.path.join(vlib.BUILD, "c16_traces", tag)
    shutil.rmtree(d, ignore_errors=True)
    os.makedirs(d, exist_ok=True)
    return d


def traces_of(d):
    fs = [f for f in glob.glob(os.path.join(d, "t.trace*")) if not f.endswith(".choices")]
    return sorted(fs, key=len)


def one(flavor, memb, seed, extra, tag, drive=True, keep=False):
    """One scenario run (parent + all descendants) and the replay of every process' trace.
    returns dict(verdict=ok|diverge|oracle|crash, ...)"""
    d = _tracedir(tag)
    args = [os.path.join(vlib.BUILD, "fork_" + flavor), "--seed", str(seed), "--trace", os.path.join(d, "t.trace")] + [str(x) for x in extra]
    env = {"VRT_MEMBARRIER": str(memb)}
    rc, out, err = vlib.sh2(args, timeout=120, env=env)
    res = {"cmd": args[:3] + ["--trace", "<tmp>"] + args[5:], "env": env, "rc": rc, "flavor": flavor}
    kinds = re.findall(r"ORACLE (\w+)", err)
    if rc not in (0, 3, 4, 5):
        res.update(verdict="crash", stderr=err[-800:])
        return res
    cov = {}
    events = 0
    procs = 0
    if drive and flavor != "lfht":
        for f in traces_of(d):
            procs += 1
            with open(f, "rb") as fh:
                data = fh.read()
            drc, dout = vlib.sh([DRV], inp=data, timeout=300)
            first = dout.strip().splitlines()[:2]
            if drc != 0 and not kinds:
                res.update(verdict="diverge", driver=first, process=os.path.basename(f).replace("t.trace", "parent") or "parent")
                if keep:
                    res["trace_file"] = f
                return res
            if drc == 0:
                toks = dout.split()
                for x in toks[2:]:
                    if "=" in x:
                        k, v = x.split("=", 1)
                        if v.isdigit():
                            cov[k] = cov.get(k, 0) + int(v)
                events += int(cov.get("events", 0)) if False else 0
    if flavor == "lfht":
        for f in traces_of(d):
            procs += 1
            for ln in open(f, errors="replace"):
                m = re.search(r"CHILD_IDLE .*WQFUTEX (-?\d+)", ln)
                if m:
                    res["child_wq_futex"] = int(m.group(1))
    res["cov"] = cov
    res["processes"] = procs
    if kinds:
        res.update(verdict="oracle", kinds=kinds, oracle=err.strip().splitlines()[:5])
    else:
        res.update(verdict="ok")
    if not keep:
        shutil.rmtree(d, ignore_errors=True)
    return res


def plan(rng, k):
    """scenario parameters of run k: workers, fork depth, fork point (delay), registration of the forking thread …"""
    extra = ["--workers", k % 4, "--depth", (k // 2) % 3 if k % 5 else 0, "--regfork", (k // 3) % 2,
             "--pre", rng.choice([4, 10, 18]), "--burst", rng.choice([2, 4, 7]), "--delay", rng.choice([0, 3, 9, 17, 30, 55, 90, -1]),
             "--rt", rng.choice([0, 30, 70]), "--chain", rng.choice([0, 25, 50]), "--percpu", k % 3, "--ownhelper", 1 if k % 4 else 0]
    if k % 6 == 5:
        extra += ["--strategy", "pct", "--pctd", 1 + k % 4, "--pctlen", "900"]
    else:
        extra += ["--pswitch", rng.choice([5, 15, 30, 60])]
    if k % 7 == 3:
        extra += ["--faults", "spur=%d,eintr=%d,enosys=%d" % (rng.choice([0, 100, 300]), rng.choice([0, 100]), rng.choice([0, 0, 100]))]
    return extra


def signature(r):
    c = r.get("cov", {})
    return (r["flavor"], c.get("pause_branch", 0) > 0, min(c.get("dispose_spliced", 0), 3), min(c.get("dispose_empty", 0), 3),
            c.get("poll_paused", 0) > 0, c.get("wake_store", 0) > 0, c.get("wake_rt", 0) > 0, c.get("gp_piggyback", 0) > 0,
            c.get("L.hChain", 0) > 0, c.get("marker", 0) > 0, min(c.get("fork_child", 0), 3), c.get("child_nolist", 0) > 0)


def run(chk):
    _run_fork(chk)
    if not chk.violations:
        # work-queue pause / resume / create_worker (the hash table's atfork hooks): own model + theorems + tie (props/wq.py)
        from props import wq
        wq.part(chk)


def _run_fork(chk):
    chk.assumptions = TRUSTED
    chk.cov["trusted_base"] = TRUSTED
    proved = chk.proof_part(["UrcuVerif.Props.C16", "drv_fork"], "UrcuVerif.Props.C16", THEOREMS,
                            ["UrcuVerif.Fork", "UrcuVerif.Props.C16", "UrcuVerif.Machine"], unproved=UNPROVED)
    proved = chk.live_part() and proved
    ok, log = build()
    if not ok:
        chk.fail("build", {"theorem": "harness/scen/fork.c / fork_lfht.c do not compile against /repo", "lean_error": log[-2500:]}, nofail=True)
        return
    quick = chk.tier == "quick"
    nseeds = 12 if quick else 120
    jobs = []
    for ci, (fl, memb, cname, cextra) in enumerate(CONFIGS):
        for k in range(nseeds):
            sd = chk.seed * 1000 + ci * 131 + k
            jobs.append((fl, memb, sd, plan(chk.rng, k + ci) + cextra, "r%d_%d" % (ci, k), cname))
    # call_rcu never used before the fork ("Do nothing when call_rcu() has not been used")
    for ci, (fl, memb) in enumerate((("memb", 1), ("bp", 0), ("qsbr", 0))):
        jobs.append((fl, memb, chk.seed * 1000 + 800 + ci, ["--workers", 0, "--depth", 1, "--pre", 0, "--burst", 0, "--ownhelper", 0,
                                                            "--percpu", 0, "--regfork", 1, "--online", 1], "n%d" % ci, "no helper before the fork"))
    nl = 6 if quick else 60
    ljobs = [("lfht", 1 - k % 2, chk.seed * 1000 + 900 + k, ["--nest", 1 + k % 3, "--depth", k % 2, "--pre", 20 + 15 * (k % 4), "--pswitch", [5, 20, 50][k % 3]],
              "l%d" % k, "lfht hooks (memb)") for k in range(nl)]

    def do(j):
        fl, memb, sd, extra, tag, cname = j
        r = one(fl, memb, sd, extra, tag)
        r["config"] = cname
        r["seed"] = sd
        return r

    with ThreadPoolExecutor(max(2, min(vlib.NCPU, 12))) as ex:
        results = list(ex.map(do, jobs + ljobs))
    hist = {}
    per_cfg = {}
    sigs = set()
    fails = []
    wqf = []
    for r in results:
        chk.cov["evaluations"] += 1
        pc = per_cfg.setdefault(r["config"], {"runs": 0, "processes": 0, "ok": 0})
        pc["runs"] += 1
        pc["processes"] += r.get("processes", 0)
        if r["verdict"] == "ok":
            pc["ok"] += 1
            for k, v in r.get("cov", {}).items():
                hist[k] = hist.get(k, 0) + v
            if r["flavor"] != "lfht" and r["cov"].get("atfork_checked", 0) and r["cov"].get("pause_branch", 0):
                sigs.add(signature(r))
            if "child_wq_futex" in r:
                wqf.append(r["child_wq_futex"])
        else:
            fails.append(r)
    for r in results[:2]:
        chk.sample({"config": r["config"], "cmd": " ".join(str(x) for x in r["cmd"][1:]), "verdict": r["verdict"],
                    "processes": r.get("processes"), "cov": dict(list(r.get("cov", {}).items())[:12])})
    chk.cov["traces_validated_against_impl"] = sum(v["processes"] for v in per_cfg.values())
    chk.cov["per_config"] = per_cfg
    chk.cov["branch_histogram"] = hist
    chk.cov["distinct_nontrivial"] = len(sigs)
    chk.cov["rule"] = ("7 configurations (memb±membarrier, mb, qsbr with an online / offline forking thread, bp±membarrier) x seeds; each "
                       "run draws number of other threads (0-3), helpers (default / per-thread / per-CPU, RT or futex), callbacks queued "
                       "(incl. self re-queueing), scheduler (random walk / PCT, futex faults) and the fork point (delay 0..90 steps after a "
                       "burst of call_rcu), fork depth up to 3 generations; every process' trace is replayed on the Lean model. non-trivial = "
                       "callbacks queued at the fork and at least one helper went through the pause branch; distinct = different coverage "
                       "signature (flavor, leftovers spliced/empty, helper had to be polled for, woken, RT, grace period piggy-backed, chained "
                       "callbacks, barrier markers, generations)")
    if wqf:
        chk.notes.append("informational (not a violation): in the child the re-created lfht resize worker inherits workqueue->futex = -1, "
                         "decrements it to -2 and never sleeps in futex_wait(-1) (busy loop); futex values seen after 200 idle steps: %s "
                         "(repair: reset futex to 0 in urcu_workqueue_create_worker)" % sorted(set(wqf))[:6])
    if not fails:
        # optional probe, outside the quantifier of C16: helper teardown concurrent with the handlers
        pr = one("memb", 1, 14, ["--workers", 1, "--depth", 0, "--regfork", 1, "--freerace", 1, "--pswitch", 43], "probe_free", drive=False)
        chk.cov["probes"] = {"call_rcu_data_free concurrent with call_rcu_before_fork (outside C16's quantifier)":
                             "hangs (rc=%s): before_fork waits for PAUSED of a helper that exited via STOP" % pr["rc"] if pr["rc"] in (4, 5)
                             else "terminates (rc=%s)" % pr["rc"]}
        return
    # ---- a failing run: look for a concrete failing input (oracle) before reporting a mere divergence ----
    oracle = [r for r in fails if r["verdict"] == "oracle"]
    crash = [r for r in fails if r["verdict"] == "crash"]
    div = [r for r in fails if r["verdict"] == "diverge"]
    for r in (oracle[:2] + crash[:1]):
        what = "implementation oracle: " + "; ".join(r.get("oracle", [r.get("stderr", "")[-300:]])[:3])
        chk.fail("input", {"scenario": "fork_" + r["flavor"], "config": r["config"], "cmd": r["cmd"], "env": r["env"], "rc": r["rc"],
                           "what": what, "kinds": r.get("kinds", ["crash"])})
    if div and not oracle and not crash:
        d0 = div[0]
        found = None
        # systematic sweep of the fork point for the failing configuration, oracles only
        cands = []
        base = [x for x in d0["cmd"][5:]]
        for dl in list(range(0, 100, 3)) + [120, 200]:
            for sd in range(3):
                ex2 = list(base)
                if "--delay" in ex2:
                    i = ex2.index("--delay"); ex2[i + 1] = str(dl)
                else:
                    ex2 += ["--delay", str(dl)]
                cands.append((d0["flavor"], int(d0["env"]["VRT_MEMBARRIER"]), d0["seed"] * 7 + sd, ex2, "s%d_%d" % (dl, sd)))
        def probe(j):
            return one(j[0], j[1], j[2], j[3], j[4], drive=False)
        with ThreadPoolExecutor(max(2, min(vlib.NCPU, 12))) as ex:
            for r2 in ex.map(probe, cands):
                chk.cov["evaluations"] += 1
                if r2["verdict"] in ("oracle", "crash") and not found:
                    found = r2
        if found:
            chk.fail("input", {"scenario": "fork_" + found["flavor"], "config": d0["config"], "cmd": found["cmd"], "env": found["env"],
                               "rc": found["rc"], "what": "implementation oracle: " + "; ".join(found.get("oracle", [found.get("stderr", "")[-300:]])[:3]),
                               "kinds": found.get("kinds", ["crash"]), "first_divergence": {"cmd": d0["cmd"], "driver": d0["driver"], "process": d0.get("process")}})
        else:
            chk.fail("divergence", {"scenario": "fork_" + d0["flavor"], "config": d0["config"], "cmd": d0["cmd"], "env": d0["env"],
                                    "driver": d0["driver"], "process": d0.get("process"),
                                    "correspondence": "Driver/Fork.lean vs src/urcu-call-rcu-impl.h / src/urcu-bp.c",
                                    "what": "the implementation no longer behaves as a run of the proven fork model (%d of %d runs diverge)" % (len(div), len(results))},
                     nofail=True)


def replay(rp):
    if rp.get("scenario") == "wq":
        from props import wq
        return wq.replay(rp)
    ok, log = build()
    if not ok:
        print(log)
        return 2
    if "cmd" not in rp:
        print(json.dumps(rp, indent=1))
        return 1
    exe = os.path.basename(rp["cmd"][0])
    flavor = exe.replace("fork_", "")
    cmd = rp["cmd"]
    seed = int(cmd[2])
    extra = cmd[5:]
    r = one(flavor, int(rp.get("env", {}).get("VRT_MEMBARRIER", 1)), seed, extra, "replay", keep=True)
    print(json.dumps({k: v for k, v in r.items() if k != "cov"}, indent=1))
    print("traces kept in", os.path.join(vlib.BUILD, "c16_traces", "replay"))
    return 0 if r["verdict"] == "ok" else 1
