"""C20 — uatomic operations (include/urcu/uatomic/*.h).  DESIGN.md §4 C20.

proof part (Lean: Props/C20.lean) -> build harness/scen/uatomic.c against the REAL headers three times
(default x86, -DCONFIG_RCU_USE_ATOMIC_BUILTINS, -std=gnu99) -> run directed / exhaustive-8-bit / random
streams (independent C oracle inside the harness) -> replay every printed line on the Lean model
(drv_uatomic, several driver processes in parallel) -> disassembly check of one function per op/width ->
multi-thread hammer + hardware store-buffering litmus (supporting exploration).
"""
import json
import os
import re
import subprocess
import vlib

THEOREMS = ["UrcuVerif.Uatomic.op_semantics", "UrcuVerif.Uatomic.op_semantics_eff",
            "UrcuVerif.Uatomic.op_semantics_value", "UrcuVerif.Uatomic.upper_bits_irrelevant",
            "UrcuVerif.Uatomic.trunc_add_ext", "UrcuVerif.Uatomic.trunc_neg_ext", "UrcuVerif.Uatomic.trunc_sub_ext",
            "UrcuVerif.Uatomic.trunc_cast_long", "UrcuVerif.Uatomic.retLong_trunc",
            "UrcuVerif.Uatomic.cmpxchg_compare_truncated", "UrcuVerif.Uatomic.add_return_cast_truncates",
            "UrcuVerif.Uatomic.sub_is_add_neg",
            "UrcuVerif.Uatomic.neighbours_untouched", "UrcuVerif.Uatomic.adjacent_object_untouched",
            "UrcuVerif.Uatomic.rmw_no_lost_update", "UrcuVerif.Uatomic.rmw_order_irrelevant",
            "UrcuVerif.Uatomic.xchg_tokens_conserved",
            "UrcuVerif.Uatomic.rmw_is_fence", "UrcuVerif.Uatomic.rmw_is_fence_uatomic",
            "UrcuVerif.Uatomic.rmw_leaves_buffer_empty",
            "UrcuVerif.Uatomic.sb_reachable_plain", "UrcuVerif.Uatomic.sb_reachable_one_sided"]
TRUSTED = ["Lean 4.33 kernel; axioms ⊆ {propext, Classical.choice, Quot.sound}",
           "HARDWARE (not provable here): the CPU executes a lock-prefixed instruction / xchg-with-memory as one atomic "
           "read-modify-write that drains the store buffer; the x86-TSO abstract machine of Uatomic/Tso.lean",
           "COMPILER: gcc emits the inline asm of x86.h as written and expands the __atomic builtins to locked instructions "
           "(checked per run by disassembly of one function per op/width, both builds; not a proof); C integer conversions "
           "are modulo 2^w (gcc, also for signed targets)",
           "rmw_no_lost_update / xchg_tokens_conserved hold by construction of atomic model steps (recorded as such); the "
           "multi-thread hammer and the hardware SB litmus are supporting exploration only",
           "the exhaustive 8-bit operand-pair runs are TESTS of the correspondence headers<->model, not kernel proofs; the "
           "theorems are general in the width w <= 64",
           "plain-store-then-RMW facet (found a genuine defect: x86.h declared the memory operand of add/sub/inc/dec/and/or "
           "write-only, gcc dropped a preceding plain store; repaired in /repo): this is the COMPILER CONTRACT of the inline-asm "
           "operand constraints, which the Lean model of the header text does not represent; it is checked at oracle level by "
           "compiling the real headers at -O1/-O2/-O3 with this gcc (a test over the listed function shapes, not a proof about "
           "every caller or every compiler)",
           "tie: harness/scen/uatomic.c (real headers, no shim) + Driver/Uatomic.lean; x86-64 only (other architectures' "
           "uatomic headers are not compiled here and not modelled)"]

SRC = os.path.join(vlib.HARN, "scen", "uatomic.c")
BUILDS = [("x86", []), ("builtins", ["-DCONFIG_RCU_USE_ATOMIC_BUILTINS"]), ("x86_gnu99", ["-std=gnu99"])]
DRV = os.path.join(vlib.LEAN, ".lake", "build", "bin", "drv_uatomic")
NPAR = max(1, min(8, vlib.NCPU))


# extra builds of the same text at higher optimisation levels, used for the "plain store then RMW" facet
# (vlib.cc passes -O1 first; a later -O flag wins)
OPT_BUILDS = [("x86_O2", ["-O2"]), ("x86_O3", ["-O3"]), ("builtins_O2", ["-O2", "-DCONFIG_RCU_USE_ATOMIC_BUILTINS"]),
              ("x86_gnu99_O2", ["-O2", "-std=gnu99"])]
PLAINSTORE_BUILDS = ["x86", "x86_O2", "x86_O3", "builtins", "builtins_O2", "x86_gnu99_O2"]


def build():
    from concurrent.futures import ThreadPoolExecutor
    jobs = [("uatomic_" + name, flags) for name, flags in BUILDS + OPT_BUILDS]
    jobs += [("uatomic_dis_%s.o" % name, flags + ["-DUATOMIC_DISASM", "-c"]) for name, flags in BUILDS[:2]]
    with ThreadPoolExecutor(max_workers=min(len(jobs), vlib.NCPU)) as ex:
        res = list(ex.map(lambda j: (j[0],) + vlib.cc(j[0], [SRC], j[1]), jobs))
    for name, ok, log in res:
        if not ok:
            return False, "build %s: %s" % (name, log)
    return True, "\n".join(r[2] for r in res)


# ----------------------------------------------------------------------------------------------
# harness + parallel driver
# ----------------------------------------------------------------------------------------------

def harness(bname, seed, mode, timeout=900):
    args = [os.path.join(vlib.BUILD, "uatomic_" + bname), str(seed)] + [str(x) for x in mode]
    rc, out, err = vlib.sh2(args, timeout=timeout)
    return args, rc, out, err


def drive(out):
    """Replay harness output on the model with NPAR driver processes. Returns (ok, first_divergence_text, cov dict)."""
    lines = out.splitlines(True)
    if not lines:
        return False, "harness printed nothing", {}
    head, body = lines[0], lines[1:]
    n = NPAR if len(body) > 20000 else 1
    step = (len(body) + n - 1) // n if body else 1
    procs = []
    for i in range(n):
        chunk = body[i * step:(i + 1) * step]
        if not chunk and i:
            continue
        p = subprocess.Popen([DRV], stdin=subprocess.PIPE, stdout=subprocess.PIPE, stderr=subprocess.STDOUT)
        procs.append((p, (head + "".join(chunk)).encode()))
    # feed concurrently
    import threading
    res = [None] * len(procs)

    def feed(k):
        p, data = procs[k]
        o, _ = p.communicate(data)
        res[k] = (p.returncode, o.decode("utf-8", "replace"))
    ths = [threading.Thread(target=feed, args=(k,)) for k in range(len(procs))]
    for t in ths:
        t.start()
    for t in ths:
        t.join()
    cov = {}
    bad = None
    for rc, o in res:
        last = [l for l in o.strip().splitlines() if l.startswith(("OK ", "PARTIAL "))]
        for l in last:
            for kv in l.split()[2:]:
                if "=" in kv:
                    k, v = kv.split("=")
                    cov[k] = cov.get(k, 0) + int(v)
        if rc != 0 and bad is None:
            d = [l for l in o.splitlines() if l.startswith("DIVERGE")]
            bad = d[0] if d else ("driver failed rc=%s: %s" % (rc, o[-300:]))
    return bad is None, bad, cov


def run_stream(chk, bname, seed, mode, hist, distinct=None):
    """returns (verdict, detail): ok | oracle | diverge | crash"""
    args, rc, out, err = harness(bname, seed, mode)
    chk.cov["evaluations"] += 1
    if rc not in (0, 3):
        return "crash", {"cmd": args, "build": bname, "rc": rc, "stderr": err[-800:]}
    ok, bad, cov = drive(out)
    for k, v in cov.items():
        hist[k] = hist.get(k, 0) + v
    nl = out.count("\n")
    chk.cov["lines_replayed"] = chk.cov.get("lines_replayed", 0) + nl
    m = re.search(r"# cases (\d+) printed (\d+)", out)
    if m:
        chk.cov["cases_checked_by_oracle"] = chk.cov.get("cases_checked_by_oracle", 0) + int(m.group(1))
    info = [l for l in err.splitlines() if l.startswith("INFO")]
    if info:
        chk.cov.setdefault("hardware_litmus", []).extend("%s: %s" % (bname, l[5:]) for l in info)
    if distinct is not None:
        for ln in out.splitlines():
            t = ln.split()
            # non-trivial: an operation line that changed memory or returned a value
            if len(t) >= 7 and "->" in t and (t[-2] != "-" or t[4] != t[-1]):
                distinct.add(hash((bname.startswith("x86"), ln)))
    if rc == 3:
        return "oracle", {"cmd": args, "build": bname, "oracle": [l for l in err.splitlines() if l.startswith("ORACLE")][:5],
                          "driver": bad}
    if not ok:
        return "diverge", {"cmd": args, "build": bname, "driver": bad}
    if len(chk.cov["samples"]) < 6 and nl > 3:
        ls = out.splitlines()
        chk.sample({"build": bname, "cmd": " ".join(args[1:]), "lines": nl, "example": ls[1 + (seed * 7919) % (len(ls) - 2)]})
    return "ok", {"cmd": args, "lines": nl}


# ----------------------------------------------------------------------------------------------
# disassembly check
# ----------------------------------------------------------------------------------------------
_R8 = set("al bl cl dl sil dil bpl spl ah bh ch dh".split()) | {"r%db" % i for i in range(8, 16)}
_R16 = set("ax bx cx dx si di bp sp".split()) | {"r%dw" % i for i in range(8, 16)}
_R32 = set("eax ebx ecx edx esi edi ebp esp".split()) | {"r%dd" % i for i in range(8, 16)}
_R64 = set("rax rbx rcx rdx rsi rdi rbp rsp".split()) | {"r%d" % i for i in range(8, 16)}
_RMW = {"add", "sub", "inc", "dec", "and", "or", "xor", "neg", "not", "xadd", "cmpxchg", "adc", "sbb", "bts", "btr", "btc"}
_BASES = _RMW | {"xchg", "mov", "movz", "cmp", "test", "lea"}
_SUF = {"b": 8, "w": 16, "l": 32, "q": 64}


def _parse_ins(ins):
    """-> dict(lock, base, size, memdst, mem, rsp)"""
    toks = ins.split("#")[0].split()
    lock = toks[0] == "lock"
    if lock:
        toks = toks[1:]
    mn = toks[0] if toks else ""
    ops = " ".join(toks[1:])
    base, size = mn, None
    if mn not in _BASES and mn[:-1] in _BASES and mn[-1] in _SUF:
        base, size = mn[:-1], _SUF[mn[-1]]
    # split operands at top-level commas
    parts, depth, cur = [], 0, ""
    for ch in ops:
        if ch == "(":
            depth += 1
        elif ch == ")":
            depth -= 1
        if ch == "," and depth == 0:
            parts.append(cur.strip())
            cur = ""
        else:
            cur += ch
    if cur.strip():
        parts.append(cur.strip())
    mem = [p for p in parts if "(" in p]
    for p in parts:
        if p.startswith("%") and size is None:
            r = p[1:]
            size = 8 if r in _R8 else 16 if r in _R16 else 32 if r in _R32 else 64 if r in _R64 else None
    return {"lock": lock, "base": base, "size": size, "mem": bool(mem), "memdst": bool(parts) and "(" in parts[-1],
            "rsp": any("%rsp" in p for p in mem), "text": ins}


def disassemble(obj):
    rc, out = vlib.sh(["objdump", "-d", "--no-show-raw-insn", obj], timeout=60)
    if rc != 0:
        return None, out
    funcs, cur = {}, None
    ADDRS[obj] = {}
    for ln in out.splitlines():
        m = re.match(r"^[0-9a-f]+ <(\w+)>:", ln)
        if m:
            cur = m.group(1)
            funcs[cur] = []
            continue
        m = re.match(r"^\s+([0-9a-f]+):\s+(\S.*)$", ln)
        if m and cur:
            funcs[cur].append(m.group(2).strip())
            ADDRS.setdefault(obj, {}).setdefault(cur, []).append(int(m.group(1), 16))
    return funcs, out


ADDRS = {}


def unfenced_path(addrs, inss):
    """Control-flow check: is there a path from the function entry to a return (or a jump out of the function) that executes no
    locked instruction / xchg with memory / mfence?  Returns the list of instruction texts of such a path, or None."""
    n = len(inss)
    idx = {a: i for i, a in enumerate(addrs)}

    def is_fence(t):
        p = _parse_ins(t)
        return p["lock"] or p["base"] == "mfence" or (p["base"] == "xchg" and p["mem"])

    seen, stack = set(), [(0, [])]
    while stack:
        i, path = stack.pop()
        if i in seen or i >= n:
            continue
        seen.add(i)
        t = inss[i]
        if is_fence(t):
            continue
        mn = t.split()[0]
        path = path + [t]
        if mn.startswith("ret"):
            return path
        tgt = None
        m = re.match(r"^j\w+\s+([0-9a-f]+)\b", t)
        if m:
            tgt = int(m.group(1), 16)
            if tgt not in idx:
                return path          # jump out of the function (tail call) without a fence
            stack.append((idx[tgt], path))
            if mn == "jmp":
                continue
        stack.append((i + 1, path))
    return None


# which locked instructions may implement an operation (the *result* is checked differentially; here only: a locked RMW of the
# right width on the object, on every path).  lock inc / lock add $1 / lock sub $-1 / lock xadd are all acceptable for inc, etc.
EXPECT_BUILTINS = {"xchg": {"xchg"}, "cmpxchg": {"cmpxchg"}, "add_return": {"xadd"}, "sub_return": {"xadd"},
                   "add": {"add", "xadd", "sub"}, "sub": {"sub", "add", "xadd"}, "inc": {"add", "inc", "xadd", "sub"},
                   "dec": {"sub", "dec", "add", "xadd"}, "and": {"and", "cmpxchg"}, "or": {"or", "cmpxchg"}}


def disasm_check(bname):
    """returns (problems[list of str], histogram{mnemonic: n}, listing{func: [ins]})"""
    funcs, raw = disassemble(os.path.join(vlib.BUILD, "uatomic_dis_%s.o" % bname))
    if funcs is None:
        return ["objdump failed: " + raw[-300:]], {}, {}
    expect = EXPECT_BUILTINS
    obj = os.path.join(vlib.BUILD, "uatomic_dis_%s.o" % bname)
    problems, hist = [], {}
    for fn, inss in sorted(funcs.items()):
        m = re.match(r"f_(\w+)_(\d+)$", fn)
        if not m:
            continue
        op, w = m.group(1), int(m.group(2))
        P = [_parse_ins(i) for i in inss]
        for p in P:
            key = ("lock " if p["lock"] else "") + p["base"] + ("" if not p["mem"] else "(mem)")
            hist[key] = hist.get(key, 0) + 1
        # no unlocked read-modify-write of memory anywhere ("weaker form")
        for p in P:
            if p["base"] in _RMW and p["memdst"] and not p["lock"] and p["base"] not in ("cmp", "test"):
                problems.append("%s: read-modify-write of memory without lock prefix: `%s`" % (fn, p["text"]))
        main = [p for p in P if p["mem"] and not p["rsp"]]
        if op in expect:
            good = [p for p in main if (p["base"] == "xchg" and "xchg" in expect[op]) or (p["lock"] and p["base"] in expect[op])]
            if not good:
                problems.append("%s: no locked %s instruction (found: %s)" % (fn, "/".join(sorted(expect[op])), "; ".join(inss)))
            for p in good:
                if p["size"] != w:
                    problems.append("%s: operand size %s of `%s` differs from the object width %d" % (fn, p["size"], p["text"], w))
            # every RMW is documented as a full barrier whatever its operand: no path may avoid the locked instruction
            up = unfenced_path(ADDRS.get(obj, {}).get(fn, []), inss)
            if up is not None:
                problems.append("%s: a path through the function executes no locked instruction (full-barrier clause): %s" % (fn, "; ".join(up)))
        elif op == "set":
            st = [p for p in main if p["base"] == "mov" and p["memdst"]]
            if not st or any(p["size"] != w for p in st):
                problems.append("%s: expected one %d-bit store (found: %s)" % (fn, w, "; ".join(inss)))
        elif op == "read":
            ld = [p for p in main if p["base"].startswith("mov") and not p["memdst"]]
            if not ld:
                problems.append("%s: expected a load (found: %s)" % (fn, "; ".join(inss)))
        elif op in ("setsc", "setscf"):
            fence = [p for p in P if p["base"] == "mfence" or p["lock"] or (p["base"] == "xchg" and p["mem"])]
            if not fence:
                problems.append("%s: SEQ_CST store without mfence / locked instruction / xchg (found: %s)" % (fn, "; ".join(inss)))
            if op == "setscf" and not any(p["base"] == "mfence" or p["lock"] for p in P):
                problems.append("%s: CMM_SEQ_CST_FENCE store without a trailing full fence (found: %s)" % (fn, "; ".join(inss)))
    missing = [("f_%s_%d" % (o, w)) for o in list(EXPECT_BUILTINS) + ["set", "read", "setsc", "setscf"] for w in (8, 16, 32, 64)
               if ("f_%s_%d" % (o, w)) not in funcs]
    if missing:
        problems.append("functions missing from disassembly: " + " ".join(missing[:6]))
    return problems, hist, funcs


# ----------------------------------------------------------------------------------------------

def search_failing_input(chk, builds, heavy_hammer=False):
    """Correspondence broken or disassembly wrong: look for a concrete failing input with the oracle."""
    for bname in builds:
        for mode in (["plainstore"], ["exh8", 1 << 40], ["directed"], ["random", 1500000]):
            args, rc, out, err = harness(bname, chk.seed + 17, mode)
            if rc == 3:
                return {"cmd": args, "build": bname, "oracle": [l for l in err.splitlines() if l.startswith("ORACLE")][:5]}
        if heavy_hammer:
            for k in range(3):
                args, rc, out, err = harness(bname, chk.seed + k, ["hammer", min(8, vlib.NCPU), 1500000])
                if rc == 3:
                    return {"cmd": args, "build": bname, "oracle": [l for l in err.splitlines() if l.startswith("ORACLE")][:5]}
            args, rc, out, err = harness(bname, chk.seed, ["litmus", 300000])
            if rc == 3:
                return {"cmd": args, "build": bname, "oracle": [l for l in err.splitlines() if l.startswith("ORACLE")][:5]}
    return None


def run(chk):
    chk.assumptions = TRUSTED
    chk.cov["trusted_base"] = TRUSTED
    proved = chk.proof_part(["UrcuVerif.Props.C20", "drv_uatomic"], "UrcuVerif.Props.C20", THEOREMS,
                            ["UrcuVerif.Uatomic", "UrcuVerif.Props.C20"])
    ok, log = build()
    if not ok:
        chk.fail("build", {"theorem": "harness/scen/uatomic.c does not compile against /repo's uatomic headers",
                           "lean_error": log[-2500:]}, nofail=True)
        return
    if not proved:
        pass  # still look for a concrete failing input below
    quick = chk.tier == "quick"
    hist, distinct = {}, set()
    seed = chk.seed
    streams = []
    for bname in ("x86", "builtins"):
        streams += [(bname, ["rtype"]), (bname, ["directed"]),
                    (bname, ["exh8", 7 if quick else 1]),
                    (bname, ["random", 30000 if quick else 1000000]),
                    (bname, ["hammer", min(4, vlib.NCPU), 50000] if quick else ["hammer", min(8, vlib.NCPU), 2000000]),
                    (bname, ["litmus", 20000 if quick else 400000])]
    # "plain store then RMW" facet (compiler contract of the asm operands / builtins), -O1, -O2, -O3
    streams = [(b, ["plainstore"]) for b in PLAINSTORE_BUILDS] + streams
    if not quick:
        streams += [("x86_O2", ["directed"]), ("x86_O3", ["random", 300000]), ("builtins_O2", ["directed"])]
    streams += [("x86_gnu99", ["rtype"]), ("x86_gnu99", ["directed", "light"] if quick else ["directed"]),
                ("x86_gnu99", ["exh8", 97 if quick else 7]), ("x86_gnu99", ["random", 5000 if quick else 200000])]
    bad = None
    for bname, mode in streams:
        track = distinct if (quick or mode[0] != "exh8") else None
        v, d = run_stream(chk, bname, seed, mode, hist, track)
        if v != "ok":
            bad = (v, d)
            break
    n_distinct = len(distinct)
    if not quick:
        # thorough: every exhaustive 8-bit case is a distinct line by construction (each (op, signedness, old, operand) once)
        n_distinct += sum(1 for b, m in streams if m[0] == "exh8" and m[1] == 1) * 1200000
    chk.cov["traces_validated_against_impl"] = chk.cov["evaluations"]
    chk.cov["distinct_nontrivial"] = n_distinct
    chk.cov["rule"] = ("per build (default x86, -DCONFIG_RCU_USE_ATOMIC_BUILTINS, -std=gnu99): directed = every op x 8 pointee types "
                       "x 5 operand C types (pointee, int, unsigned, long, unsigned long) x 10 boundary old values x boundary "
                       "operands (0, +-1, +-2, min, max, min+1, 0x55.., random; each also with all/one/random bits above the object "
                       "width), offsets rotating over all naturally aligned positions of a 16-byte window, images all-00/all-ff/"
                       "random; exh8 = all 256x256 (old, operand) pairs of every op, both signednesses (all checked by the C oracle; "
                       "every %s printed and replayed on the model); random = VERIF_SEED-driven cases. non-trivial = the "
                       "operation changed memory or returned a value; distinct = different line text (measured). "
                       "plainstore = for every RMW op x 8 pointee types x {global, function-local static, object malloc'ed in the "
                       "function, pointer parameter}: noinline functions `*p=a; cmm_barrier(); *p=b; uatomic_op(p,v); return *p` "
                       "(also without the first store, and `before=*p; uatomic_op(p,v); return *p`), 6-12 value tuples each, "
                       "compiled at -O1/-O2/-O3 (x86), -O1/-O2 (builtins), -O2 (gnu99); checked by the C reference (oracle "
                       "level) and replayed on the model as ordinary lines"
                       % ("7th" if quick else "one"))
    # disassembly check (default build mandatory; builtins build with the same rules)
    dis_problems = []
    ins_hist = {}
    for bname in ("x86", "builtins"):
        probs, h, listing = disasm_check(bname)
        ins_hist[bname] = dict(sorted(h.items()))
        dis_problems += ["%s build: %s" % (bname, p) for p in probs]
        if bname == "x86":
            chk.cov["disassembly_sample"] = {k: listing.get(k) for k in ("f_xchg_8", "f_cmpxchg_16", "f_add_return_8", "f_sub_32", "f_inc_64")}
    chk.cov["obligations"] += 1
    if not dis_problems:
        chk.cov["discharged"] += 1
    hist_all = dict(hist)
    hist_all["instructions"] = ins_hist
    chk.cov["branch_histogram"] = hist_all

    if bad:
        v, d = bad
        if v == "oracle":
            chk.fail("input", dict(d, scenario="uatomic", what="implementation oracle: " + "; ".join(d["oracle"])))
        elif v == "diverge":
            found = search_failing_input(chk, [d["build"]])
            if found:
                chk.fail("input", dict(found, scenario="uatomic", what="implementation oracle: " + "; ".join(found["oracle"]),
                                       first_divergence=d))
            else:
                chk.fail("divergence", dict(d, scenario="uatomic", correspondence="Driver/Uatomic.lean vs include/urcu/uatomic/*.h",
                                            what="the compiled headers no longer behave as the proven model: " + str(d.get("driver"))),
                         nofail=True)
        else:
            chk.fail("input", dict(d, scenario="uatomic", what="harness crashed"))
    if dis_problems:
        found = search_failing_input(chk, ["x86", "builtins"], heavy_hammer=True)
        info = {"scenario": "uatomic-disassembly", "what": "emitted instructions are not the locked read-modify-writes the model "
                "assumes: " + "; ".join(dis_problems[:6]), "problems": dis_problems[:40]}
        if found:
            chk.fail("input", dict(found, **info))
        else:
            chk.fail("divergence", dict(info, correspondence="objdump -d build/uatomic_dis_*.o vs Uatomic/Tso.lean `rmw`"), nofail=True)


def replay(rp):
    ok, log = build()
    if not ok:
        print(log)
        return 2
    if "cmd" in rp:
        bname = rp.get("build", "x86")
        args = [os.path.join(vlib.BUILD, "uatomic_" + bname)] + [str(x) for x in rp["cmd"][1:]]
        rc, out, err = vlib.sh2(args, timeout=900)
        print("\n".join(err.splitlines()[:20]))
        okd, badl, _ = drive(out)
        print("driver: " + ("OK" if okd else str(badl)))
        if rp.get("problems"):
            print("\n".join(rp["problems"]))
        return 1 if (rc != 0 or not okd) else 0
    if rp.get("problems"):
        for b in ("x86", "builtins"):
            probs, _, _ = disasm_check(b)
            for p in probs:
                print("%s build: %s" % (b, p))
        return 1
    print(json.dumps(rp, indent=1))
    return 1
