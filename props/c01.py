"""C01 — synchronize_rcu() waits for every pre-existing reader.  DESIGN.md §4 C01."""
import vlib
from props import gp_common

THEOREMS = ["UrcuVerif.Gp.gp_guarantee", "UrcuVerif.Gp.gp_guarantee_after_return", "UrcuVerif.Gp.gp_litmus",
            "UrcuVerif.Gp.nested_only_outermost", "UrcuVerif.Gp.active_iff_in_section", "UrcuVerif.Gp.inv_step",
            "UrcuVerif.Gp.run_reach",
            "UrcuVerif.Qsbr.gp_guarantee_qsbr", "UrcuVerif.Qsbr.gp_guarantee_qsbr_after_return", "UrcuVerif.Qsbr.gp_litmus_qsbr",
            "UrcuVerif.Qsbr.waited_reader_stays_old", "UrcuVerif.Qsbr.inv_step"]
TRUSTED = ["Lean 4.33 kernel; axioms ⊆ {propext, Classical.choice, Quot.sound}",
           "x86-TSO abstract machine (FIFO store buffers, mfence/locked ops drain), sys_membarrier = forced fence on every thread between call and return",
           "model granularity: the abstract grace-period algorithm (Gp/Flip.lean); the event-level transliteration of the C text in Driver/Gp.lean maps each run of the real code to model labels (checked on explored schedules, not proved)",
           "harness runs are sequentially consistent (cooperative scheduler): store-buffer delays are quantified in the theorems only",
           "compiler barriers: presence/position checked as events, effect on the optimiser not modelled",
           "qsbr: Gp/Qsbr.lean + Props/C01Qsbr.lean (64-bit single-pass variant; counters do not wrap); bp flavor: the same two-pass algorithm and model (Gp/Flip.lean), tied by harness/scen/gp_bp.c"]
OWN = {"gp", "litmus"}


def run(chk):
    chk.assumptions = TRUSTED
    chk.cov["trusted_base"] = TRUSTED
    chk.proof_part(["UrcuVerif.Props.C01", "UrcuVerif.Props.C01Qsbr", "drv_gp"], ["UrcuVerif.Props.C01", "UrcuVerif.Props.C01Qsbr"], THEOREMS,
                   ["UrcuVerif.Gp", "UrcuVerif.Props.C01", "UrcuVerif.Props.C01Qsbr", "UrcuVerif.Machine"])
    ok, log = gp_common.build()
    if not ok:
        chk.fail("build", {"theorem": "harness/scen/gp.c does not compile against /repo", "lean_error": log[-2000:]}, nofail=True)
        return
    n = 30 if chk.tier == "quick" else 700
    fails = gp_common.suite(chk, n, "safety", OWN)
    gp_common.report(chk, fails, OWN, gp_common.search_own(chk, OWN, "safety", 300 if chk.tier == "quick" else 3000))


def replay(rp):
    return gp_common.replay(rp)


def src_search(chk):
    """a refinement theorem of the source-translator tie broke: wider search for a concrete failing schedule"""
    return gp_common.search_own(chk, OWN, "safety", 600 if chk.tier == "quick" else 6000)()
