"""C15 (bp part) — automatic reader registration of the bulletproof flavor (src/urcu-bp.c): registry arena
(slot stability / uniqueness / reuse / capacities / used counts / registry list / exit / fork prune) and
registration versus signals.  DESIGN.md §4 C15.  Called from props/c15.py through run_part(chk);
`python3 check.py C15BP` runs this part alone (scratch evidence file evidence/C15BP.json)."""
import json
import os
import re
import vlib

PROP_MODULE = "UrcuVerif.Props.C15Bp"
TARGETS = ["UrcuVerif.Props.C15Bp", "drv_bparena"]
AUDIT_MODS = ["UrcuVerif.Gp.BpArena", "UrcuVerif.Gp.BpArenaInv", "UrcuVerif.Props.C15Bp"]
A = "UrcuVerif.BpArena."
THEOREMS = [A + x for x in (
    "slot_stable", "growth_extends_last_only", "slot_unique", "thread_has_one_slot",
    "expand_only_when_full", "register_first_free", "slot_reuse", "freed_slot_is_free",
    "capacity_sequence", "capacity_closed_form", "used_counts_exact", "registry_matches_alloc",
    "tls_matches_slot", "registration_never_fails", "exit_unregisters", "exit_enabled",
    "prune_keeps_only_forking_thread", "unmap_only_when_empty", "find_chunk_correct", "inv_step", "capsOk_step",
    "init_reader_count_pos",
    "Sig.registration_signal_atomic", "Sig.never_registered_twice", "Sig.registry_lock_never_self_deadlocks",
    "Sig.init_lock_never_self_deadlocks", "Sig.section_has_reader", "Sig.signal_safe", "Sig.inv_step",
    # the code before /repo 760a93b (Lean record of the repaired finding) and the necessity witnesses
    "Sig.stuck_only_on_init_lock_unfixed", "Sig.signal_safe_full_false_unfixed", "Sig.Unfixed.inv_step",
    "Sig.norecheck_registers_twice", "Sig.unmask_early_self_deadlocks")]
UNPROVED = []   # every stated property is proved at full strength on the models
TRUSTED = [
    "bp arena: slot identity (chunk position, index) stands for the address: chunks are only appended to chunk_list, "
    "mmap regions are disjoint, a successful mremap(old, .., flags=0) does not move (OS contract; the harness compares "
    "the real pointers of every live reader after every critical section)",
    "bp arena: each critical section (rcu_registry_lock / init_lock) is one atomic model step; the registry is one list "
    "(its interplay with the grace-period lists is the memb/mb part of C15 and C01); size_t capacities do not overflow",
    "bp signals: one thread with a stack of handler frames; a handler only executes rcu_read_lock()/rcu_read_unlock(); "
    "pthread_sigmask blocks every signal the handlers of which use RCU; delivery is possible exactly when not blocked",
    "tie: harness/scen/bp_arena.c (macro interposition of mmap/mremap/munmap/pthread_sigmask/pthread_mutex_*/"
    "pthread_setspecific/pthread_key_*/pthread_self before #include \"urcu-bp.c\"; own bump allocator deciding the "
    "mremap outcome) + Driver/BpArena.lean; bounded: the runs listed in coverage",
]

BIN = os.path.join(vlib.BUILD, "bp_arena")
DRV = os.path.join(vlib.LEAN, ".lake", "build", "bin", "drv_bparena")
REQUIRED = ["reg_no", "reg_first", "reg_inplace", "reg_new", "unreg", "libinit", "libexit", "libexit_unmap",
            "prune_by_registered", "prune_by_unregistered", "fork", "use", "reuse_in_older_chunk",
            "recheck_saw_handler_registration", "sig@mask", "sig@cs", "sig@idle", "sig@xmask",
            "S_thread_exit", "S_read_lock"]


def proof_targets():
    return {"targets": TARGETS, "prop_module": PROP_MODULE, "theorems": THEOREMS, "audit_mods": AUDIT_MODS,
            "unproved": UNPROVED}


def build():
    srcs = [os.path.join(vlib.HARN, "scen", "bp_arena.c")] + vlib.rsrc("compat_arch.c", "compat_futex.c")
    return vlib.cc("bp_arena", srcs, ["-w"])


def build_san():
    """thorough tier: the same TU under AddressSanitizer + UBSan (alignment check off: cds_list_for_each_entry computes
    container_of on the list head)"""
    srcs = [os.path.join(vlib.HARN, "scen", "bp_arena.c")] + vlib.rsrc("compat_arch.c", "compat_futex.c")
    return vlib.cc("bp_arena_asan", srcs, ["-w", "-fsanitize=address,undefined", "-fno-sanitize=alignment",
                                           "-fno-sanitize-recover=undefined"])


def run_one(args, binary=None):
    """returns (verdict, detail, driver_summary); verdict in ok|diverge|oracle|deadlock|crash"""
    cmd = [binary or BIN] + [str(a) for a in args]
    rc, out, err = vlib.sh2(cmd, timeout=120)
    if rc not in (0, 3, 4):
        return "crash", {"cmd": cmd, "rc": rc, "stderr": err[-800:], "last_lines": out.strip().splitlines()[-4:]}, ""
    drc, dout = vlib.sh([DRV], inp=out.encode(), timeout=300)
    d = {"cmd": cmd, "lines": len(out.splitlines()), "driver": dout.strip().splitlines()[:2]}
    if rc == 3:
        d["oracle"] = err.strip().splitlines()[:4]
        return "oracle", d, dout
    if rc == 4:
        d["oracle"] = err.strip().splitlines()[:4]
        return "deadlock", d, dout
    if drc != 0:
        return "diverge", d, dout
    return "ok", d, dout


def _cov(dout):
    res = {}
    for x in dout.split()[2:]:
        if "=" in x:
            k, v = x.split("=", 1)
            if v.isdigit():
                res[k] = int(v)
    return res


def plan(chk):
    """(mode, seed, nops) for this tier"""
    n_sim, n_thr = (90, 40) if chk.tier == "quick" else (1500, 500)
    runs = []
    for k in range(n_sim):
        runs.append(("sim", chk.seed * 100000 + k, 500 + 100 * (k % 5)))
    for k in range(n_thr):
        runs.append(("thr", chk.seed * 100000 + 50000 + k, 300 + 100 * (k % 4)))
    return runs


def directed(cov):
    """Regression for the defect repaired by /repo 760a93b (signal while urcu_bp_exit() holds init_lock on the
    thread-exit path): must pass on the current tree.  The constructor-situation variant (`dl 1`: _urcu_bp_init() called
    with signals open) is recorded as an observation only."""
    v, d, dout = run_one(["dl", 0])
    cov["directed_signal_in_urcu_bp_exit"] = {"verdict": v, "detail": d}
    v1, d1, _ = run_one(["dl", 1])
    cov["observation_signal_in_constructor_time_init"] = {
        "verdict": v1, "oracle": d1.get("oracle", []),
        "note": "a handler using RCU that interrupts _urcu_bp_init() while it holds init_lock with signals open (library "
                "constructor, single-threaded load time) would self-deadlock; not part of the property, no check failure"}
    return v, d


def run_part(chk):
    """bp half of C15: assumes the caller ran chk.proof_part with proof_targets(); builds the harness from the current
    /repo tree, runs it, replays on the Lean models, records coverage into chk.cov["bp_arena"]."""
    cov = chk.cov.setdefault("bp_arena", {})
    cov["trusted_base"] = TRUSTED
    for t in TRUSTED:
        if t not in chk.assumptions:
            chk.assumptions.append(t)
    ok, log = build()
    if not ok:
        chk.fail("build", {"theorem": "harness/scen/bp_arena.c does not compile against /repo", "lean_error": log[-2000:]}, nofail=True)
        return
    hist, nontriv, bad = {}, set(), None
    maxes = {"max_live": 0, "max_chunks": 0, "max_cap": 0}
    nruns = 0
    runs = [(m, sd, n, None) for m, sd, n in plan(chk)]
    if chk.tier == "thorough":
        ok, log = build_san()
        if ok:
            runs += [(m, chk.seed * 100000 + 90000 + k, 600, BIN + "_asan") for k in range(60) for m in ("sim", "thr")]
            cov["sanitizer_runs"] = 120
        else:
            chk.notes.append("bp_arena: sanitizer build failed: " + log[-300:])
    for mode, sd, nops, binary in runs:
        v, d, dout = run_one([mode, sd, nops], binary)
        chk.cov["evaluations"] += 1
        nruns += 1
        if v != "ok":
            bad = (v, d, mode)
            break
        c = _cov(dout)
        for k, x in c.items():
            if k in maxes:
                maxes[k] = max(maxes[k], x)
            elif k != "lines":
                hist[k] = hist.get(k, 0) + x
        if (c.get("reg_inplace", 0) + c.get("reg_new", 0)) and c.get("reuse_in_older_chunk", 0) and c.get("recheck_saw_handler_registration", 0):
            nontriv.add(dout)
        if nruns <= 2 or (mode == "thr" and len(chk.cov["samples"]) < 4):
            chk.sample({"scenario": "bp_arena " + mode, "seed": sd, "ops": nops, "driver": dout.strip()[:600]})
    cov["runs"] = nruns
    cov["branch_histogram"] = hist
    cov.update(maxes)
    cov["distinct_nontrivial"] = len(nontriv)
    cov["rule"] = ("operation sequences (first read-side call / further read-side calls / thread exit / fork child / "
                   "library init+exit) over up to 140 simulated and 70 real threads drawn from VERIF_SEED, population targets "
                   "0,3,8,9,16,17,24,33,40,65,70,129,140, mremap outcome per episode always-in-place / always-MAP_FAILED / random, "
                   "SIGUSR1 (handler: rcu_read_lock+unlock, nesting up to 3) raised before/after interposed calls chosen from the seed; "
                   "non-trivial = run with an expansion, a reuse of a slot in an older chunk and a handler registration seen by the "
                   "re-check; distinct = different driver coverage summary")
    missing = [k for k in REQUIRED if not hist.get(k)]
    if maxes["max_live"] <= 128 or maxes["max_chunks"] < 3 or maxes["max_cap"] < 128:
        missing.append("population beyond 128 / three chunks / capacity 128")
    cov["coverage_complete"] = (not missing) and bad is None
    if missing and bad is None:
        chk.notes.append("bp_arena: generator did not reach: " + ", ".join(missing))
    chk.cov["distinct_nontrivial"] = chk.cov.get("distinct_nontrivial", 0) + len(nontriv)
    chk.cov["traces_validated_against_impl"] = chk.cov.get("traces_validated_against_impl", 0) + nruns
    if bad:
        v, d, mode = bad
        info = dict(d, scenario="bp_arena " + mode)
        if v in ("oracle", "deadlock"):
            chk.fail("input", dict(info, what="implementation oracle: " + "; ".join(d.get("oracle", []))))
        elif v == "crash":
            chk.fail("input", dict(info, what="harness crashed (abort/assert/segfault in the real code under this input)"))
        else:
            # correspondence broken: look for a concrete failing input with the oracle on more sequences
            found = None
            vd, dd, _ = run_one(["dl", 0])
            if vd in ("oracle", "deadlock", "crash"):
                found = (vd, dd, "dl")
            for k in range(0 if found else (400 if chk.tier == "quick" else 4000)):
                for m in ("sim", "thr"):
                    v2, d2, _ = run_one([m, chk.seed * 100000 + 70000 + k, 900])
                    if v2 in ("oracle", "deadlock", "crash"):
                        found = (v2, d2, m)
                        break
                if found:
                    break
            if found:
                v2, d2, m = found
                chk.fail("input", dict(d2, scenario="bp_arena " + (m if m != "dl" else "dl 0"), first_divergence=info,
                                       what="implementation oracle: " + "; ".join(d2.get("oracle", [d2.get("stderr", "crash")]))))
            else:
                chk.fail("divergence", dict(info, correspondence="Driver/BpArena.lean vs src/urcu-bp.c",
                                            what="implementation no longer behaves as a run of the proven model"), nofail=True)
        return
    v, d = directed(cov)
    if v != "ok":
        info = dict(d, scenario="bp_arena dl 0")
        if v in ("oracle", "deadlock", "crash"):
            chk.fail("input", dict(info, what="signal raised while urcu_bp_exit() holds init_lock on the thread-exit path: "
                                         + "; ".join(d.get("oracle", [d.get("stderr", "crash")]))))
        else:
            chk.fail("divergence", dict(info, what="directed signal run: implementation and model disagree"), nofail=True)


def run(chk):
    """standalone: proof part + run_part"""
    chk.assumptions = ["Lean 4.33 kernel; axioms ⊆ {propext, Classical.choice, Quot.sound}"]
    chk.cov["trusted_base"] = list(chk.assumptions)
    pt = proof_targets()
    chk.proof_part(pt["targets"], pt["prop_module"], pt["theorems"], pt["audit_mods"] + ["UrcuVerif.Machine"], unproved=pt["unproved"])
    run_part(chk)


def replay(rp):
    ok, log = build()
    if not ok:
        print(log)
        return 2
    if "cmd" in rp:
        binary = None
        if str(rp["cmd"][0]).endswith("_asan"):
            ok, log = build_san()
            binary = BIN + "_asan" if ok else None
        v, d, dout = run_one(rp["cmd"][1:], binary)
        for ln in d.get("oracle", []):
            print(ln)
        print(d.get("stderr", ""))
        print(dout)
        return 0 if v == "ok" else 1
    print(json.dumps(rp, indent=1))
    return 1
