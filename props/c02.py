"""C02 — grace periods complete: no lost wake-up, no deadlock.  DESIGN.md §4 C02."""
import vlib
from props import gp_common

THEOREMS = ["UrcuVerif.Handshake.no_lost_wakeup", "UrcuVerif.Handshake.gp_futex_range",
            "UrcuVerif.Handshake.waker_not_stuck", "UrcuVerif.Handshake.waker_measure",
            "UrcuVerif.Handshake.wake_wakes", "UrcuVerif.Handshake.test_sees_sleeper",
            "UrcuVerif.Handshake.lost_wakeup_without_fences", "UrcuVerif.Handshake.inv_step",
            "UrcuVerif.WaitNode.waiter_teardown_safe", "UrcuVerif.WaitNode.waiter_no_lost_wakeup",
            "UrcuVerif.WaitNode.inv_step",
            "UrcuVerif.QsbrHs.qsbr_no_lost_wakeup", "UrcuVerif.QsbrHs.qsbr_armed_visible", "UrcuVerif.QsbrHs.inv_step",
            "UrcuVerif.Locks.lock_order_deadlock_free", "UrcuVerif.Locks.lock_mutual_exclusion", "UrcuVerif.Locks.inv_step",
            "UrcuVerif.QsbrHs.Neg.lost_wakeup_without_arm_fence", "UrcuVerif.QsbrHs.Neg.real_model_rejects"]
TRUSTED = ["Lean 4.33 kernel; axioms ⊆ {propext, Classical.choice, Quot.sound}",
           "x86-TSO machine; futex contract (FUTEX_WAIT checks the value and sleeps atomically; spurious/EINTR returns unconstrained; system calls drain the store buffer); sys_membarrier = forced fence",
           "liveness is proved as 'sleeper always has a non-stuck waker with a strictly decreasing own-step measure'; 'eventually returns' additionally needs a fair scheduler",
           "lock-order deadlock freedom (rcu_gp_lock → rcu_registry_lock) is a theorem on the abstract lock discipline (Gp/Locks.lean: wait chains of length ≤ 2 ending in an enabled thread); that the real code follows this discipline is checked by the trace tie (LOCK/UNLOCK events in order) and the runtime's deadlock detector on explored schedules; bp's init_lock and the call_rcu/defer mutexes are outside this model",
           "tie: Driver/Gp.lean event-level replay of the real wait_for_readers/wait_gp/wake_up_gp/urcu-wait.h under the shim (explored schedules only); qsbr's two-level waiting-flag handshake has its own TSO model and theorem (Handshake/QsbrTso.lean); bp has no futex (poll loop), covered by the trace tie and the budget detector"]
OWN = {"DEADLOCK", "BUDGET", "SELFLOCK", "BADUNLOCK"}


def run(chk):
    chk.assumptions = TRUSTED
    chk.cov["trusted_base"] = TRUSTED
    chk.proof_part(["UrcuVerif.Props.C02", "UrcuVerif.Neg.C02Qsbr", "drv_gp"], ["UrcuVerif.Props.C02", "UrcuVerif.Neg.C02Qsbr"], THEOREMS,
                   ["UrcuVerif.Handshake", "UrcuVerif.Gp.Locks", "UrcuVerif.Props.C02", "UrcuVerif.Machine"])
    chk.live_part()
    ok, log = gp_common.build()
    if not ok:
        chk.fail("build", {"theorem": "harness/scen/gp.c does not compile against /repo", "lean_error": log[-2000:]}, nofail=True)
        return
    n = 24 if chk.tier == "quick" else 500
    fails = gp_common.suite(chk, n, "liveness", OWN, rops=40, uops=3)
    if not fails:
        fails = gp_common.sweep(chk, OWN, wide=(chk.tier == "thorough"))
    if not fails:
        fails = waiter_stage(chk)
    h = chk.cov.get("branch_histogram", {})
    chk.cov["futex_paths"] = {k: v for k, v in h.items() if "futex" in k or "wake" in k or "waiter" in k}
    base_search = gp_common.search_own(chk, OWN, "liveness", 300 if chk.tier == "quick" else 3000)

    def search():
        # first the wait-node / compat-futex corner: merged callers asleep on their node, futex unavailable, polls interrupted
        for flavor, memb, cname in [c for c in gp_common.CONFIGS if c[0] in ("memb", "mb")]:
            for k in range(240 if chk.tier == "quick" else 1200):
                faults = "spur=0,eintr=0,enosys=1000" if k % 2 == 0 else "spur=200,eintr=400,enosys=0"
                extra = ["--parklen", "30000", "--nochurn", "--faults", faults, "--pswitch", str([5, 15, 30][k % 3])]
                if k % 2 == 0:
                    extra += ["--pollfaults", "300"]
                r = gp_common.one(flavor, memb, chk.seed * 1000 + 700000 + k, 1 + k % 2, 3, 12, 3, extra)
                if r["verdict"] == "oracle" and any(x in OWN for x in r["kinds"]):
                    r["config"] = cname
                    return r
        return base_search()
    gp_common.report(chk, fails, OWN, search)


def waiter_stage(chk):
    """Directed runs for the wait node of merged callers (urcu-wait.h): three concurrent synchronize_rcu() callers behind a
    reader parked long enough for the merged callers to exhaust URCU_WAIT_ATTEMPTS and sleep on their own node, with
    spurious / EINTR returns injected into that futex wait.  Coverage of waiter_futex_{SLEEP,EINTR,SPURIOUS} is required."""
    hist = chk.cov.setdefault("branch_histogram", {})
    fails = []
    n = 16 if chk.tier == "quick" else 160
    runs = 0
    for flavor, memb, cname in [c for c in gp_common.CONFIGS if c[0] in ("memb", "mb")]:
        for k in range(n):
            sd = chk.seed * 1000 + 500 + k
            faults = (["spur=300,eintr=400,enosys=0", "spur=0,eintr=600,enosys=0", "spur=600,eintr=0,enosys=0", "spur=200,eintr=200,enosys=100"][k % 4]
                      if k % 2 == 0 else "spur=0,eintr=0,enosys=1000")
            extra = ["--parklen", "30000", "--nochurn", "--faults", faults, "--pswitch", str([5, 15, 30][k % 3])]
            if "enosys=1000" in faults:
                extra += ["--pollfaults", "300"]     # futex unavailable: the compat poll loop, interrupted by signals
            r = gp_common.one(flavor, memb, sd, 1 + k % 2, 3, 12, 3, extra)
            chk.cov["evaluations"] += 1
            runs += 1
            if r["verdict"] == "ok":
                chk.cov["events_compared"] = chk.cov.get("events_compared", 0) + r["events"]
                for kk, vv in r["cov"].items():
                    hist[kk] = hist.get(kk, 0) + vv
            else:
                r["config"] = cname
                fails.append(r)
                break
        if fails:
            break
    chk.cov["waiter_stage_runs"] = runs
    missing = [b for b in ("waiter_futex_SLEEP", "waiter_futex_EINTR", "waiter_futex_SPURIOUS", "compat_poll_EINTR") if not hist.get(b)]
    chk.cov["waiter_stage_missing"] = missing
    if missing and not fails:
        chk.notes.append("waiter stage did not reach: " + ", ".join(missing))
    return fails


def replay(rp):
    return gp_common.replay(rp)
