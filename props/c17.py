"""C17 — progress guarantees (wait-free / lock-free operations never wait on other threads).  DESIGN.md §4 C17.

Aggregated check: every component that owns a data structure exports `c17_part(chk)` (proof part of its Props/C17*.lean
solo-run theorems + freeze / solo-run schedules of the real code under the cooperative runtime, own-step counts compared
with the model's bounds).  The read-side facet (rcu_read_lock / rcu_read_unlock of a registered thread) is
Props/C17Read.lean on the C01 grace-period model, tied by the C01 trace refinement (the L1 transliteration of the read-side
primitives is straight-line: a loop, spin hint or lock inside them is a divergence).
"""
import importlib
import os

import vlib
from props import gp_common

R = "UrcuVerif.C17Read."
THEOREMS_READ = [R + x for x in ("read_lock_wait_free", "read_lock_never_blocked", "nested_lock_one_step", "nested_unlock_one_step",
                                 "outer_unlock_one_step", "others_cannot_delay_reader", "forced_fence_helps", "drain",
                                 "qsbr_read_always_enabled", "qsbr_reader_never_blocked")]
# component -> module exporting c17_part(chk)
PARTS = [("stacks (wfstack push / pop_all / non-blocking pop+next, lfstack push / pop / pop_all)", "c11"),
         ("rculfqueue enqueue / dequeue", "c12"),
         ("wfcqueue enqueue / non-blocking dequeue, splice, first, next", "c10"),
         ("rculfhash lookup / traversal / add / add_unique / add_replace / replace / del", "c05")]
TRUSTED = ["Lean 4.33 kernel; axioms ⊆ {propext, Classical.choice, Quot.sound}",
           "progress is stated as solo-run theorems on the step-level models (all other threads frozen at arbitrary points of any "
           "reachable state; explicit bound or strictly decreasing measure on own steps); own steps include the draining of the "
           "thread's own store buffer where an instruction needs it (x86-TSO)",
           "blocking operations (wfstack/wfcqueue *_blocking, sync_next, mutex-taking wrappers) are not claimed",
           "tie: freeze / solo-run schedules of the real sources under the cooperative runtime (spin hints = caa_cpu_relax events "
           "distinguish waiting from working; own primitives counted and compared with the model's bound); explored schedules only"]
OWN_READ = {"BUDGET", "DEADLOCK", "SELFLOCK"}


def read_part(chk):
    chk.proof_part(["UrcuVerif.Props.C17Read", "drv_gp"], "UrcuVerif.Props.C17Read", THEOREMS_READ,
                   ["UrcuVerif.Props.C17Read", "UrcuVerif.Gp.Flip", "UrcuVerif.Gp.Qsbr"])
    ok, log = gp_common.build()
    if not ok:
        chk.fail("build", {"theorem": "harness/scen/gp*.c does not compile against /repo", "lean_error": log[-2000:]}, nofail=True)
        return
    # readers under park/freeze schedules: the L1 transliteration of rcu_read_lock/unlock (LD gp.ctr; ST own word; [MB]; CB /
    # CB; [MB]; ST; [MB; LD futex ...]) has no loop, so a reader that waits, spins or locks inside them diverges
    n = 6 if chk.tier == "quick" else 120
    fails = gp_common.suite(chk, n, "liveness", OWN_READ, rops=40, uops=2)
    h = chk.cov.get("branch_histogram", {})
    chk.cov["read_side_ops"] = {k: h.get(k, 0) for k in ("lock_outer", "lock_nested", "unlock_outer", "unlock_nested", "reader_wakes_gp")}
    gp_common.report(chk, fails, OWN_READ, gp_common.search_own(chk, OWN_READ, "liveness", 100 if chk.tier == "quick" else 1000))
    chk.cov["gp_branch_histogram"] = chk.cov.pop("branch_histogram", {})


def run(chk):
    chk.assumptions = list(TRUSTED)
    chk.cov["trusted_base"] = list(TRUSTED)
    parts_run, parts_missing = [], []
    read_part(chk)
    theorems = list(chk.cov.get("theorems", []))
    axioms = dict(chk.cov.get("axioms", {}))
    unproved = list(chk.cov.get("unproved_full_statements", []))
    try:
        import json
        claimed = {c["property_id"] for c in json.load(open(os.path.join(vlib.ROOT, "MANIFEST.json")))["checks"]}
    except Exception:
        claimed = set()
    for desc, mod in PARTS:
        # a component's facet takes part once the component's own check is integrated (claimed in MANIFEST.json)
        if mod.upper() not in claimed or not os.path.exists(os.path.join(vlib.ROOT, "props", mod + ".py")):
            parts_missing.append(desc)
            continue
        m = importlib.import_module("props." + mod)
        if not hasattr(m, "c17_part"):
            parts_missing.append(desc)
            continue
        m.c17_part(chk)
        parts_run.append(desc)
        theorems += [t for t in chk.cov.get("theorems", []) if t not in theorems]
        axioms.update(chk.cov.get("axioms", {}))
        unproved += [u for u in chk.cov.get("unproved_full_statements", []) if u not in unproved]
    chk.cov["theorems"] = theorems
    chk.cov["axioms"] = axioms
    chk.cov["unproved_full_statements"] = unproved
    chk.cov["facets_checked"] = ["read-side lock/unlock (memb, mb, bp, qsbr)"] + parts_run
    chk.cov["facets_not_built_yet"] = parts_missing
    if parts_missing:
        chk.notes.append("C17 facets whose component check is not integrated yet (partial): " + "; ".join(parts_missing))
    if not chk.cov.get("rule") or chk.cov["rule"] == "see explanation":
        chk.cov["rule"] = "see the per-component keys (freeze / solo-run schedules; own-step counts versus model bounds)"


def replay(rp):
    sc = str(rp.get("scenario", ""))
    cmd0 = os.path.basename(str((rp.get("cmd") or [""])[0]))
    if sc == "gp" or cmd0.startswith("gp_"):
        return gp_common.replay(rp)
    for _, mod in PARTS:
        try:
            m = importlib.import_module("props." + mod)
        except ImportError:
            continue
        names = {"c11": ("wfs", "lfs"), "c12": ("lfq",), "c10": ("wfcq", "wfq"), "c05": ("lfht",)}[mod]
        if any(cmd0.startswith(n) for n in names) and hasattr(m, "replay"):
            return m.replay(rp)
    import json
    print(json.dumps(rp, indent=1))
    return 1
