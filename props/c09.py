"""C09 — hash-table resize terminates, preserves contents, respects bucket bounds.  DESIGN.md §4 C09.

proof part : UrcuVerif.Props.C09 (models Lfht/Resize.lean, Lfht/Mm.lean)
tie        : harness/scen/lfht_resize.c (real src/rculfhash.c + allocators + workqueue + memb flavor,
             compiled from the current tree) -> Driver/LfhtResize.lean
oracles    : watchdog on every cds_lfht_resize (a hang is reported with the hanging request), bounds,
             contents, alloc/populate/publish and unpublish/GP/remove/GP/free order, bucket_at
             injectivity, partition tiling, leak / double free / use after free.
"""
import json
import os
import re
import vlib

C = "UrcuVerif.C09."
THEOREMS = [C + t for t in [
    "resize_terminates", "resize_reaches_pow2_target", "resize_diverges_unfixed", "resize_diverges_unfixed_witness",
    "resize_target_pow2_in_bounds", "size_in_bounds", "stored_targets_in_bounds", "count_args_pow2",
    "lazy_grow_target_in_bounds", "lazy_count_target_in_bounds", "lazy_shrink_never_overrides_grow",
    "lazy_shrink_terminates", "partition_covers", "alloc_before_publish", "event_order_invariant",
    "resizer_terminates_after_last_change", "resizer_terminates_under_destroy", "destroy_after_queued_resizes",
    "no_resize_queued_after_destroy", "destroy_runs_with_resizer_idle",
    "bucket_at_order_in_bounds", "bucket_at_order_injective", "bucket_at_chunk_in_bounds", "bucket_at_chunk_injective",
    "bucket_at_mmap_in_bounds", "bucket_at_mmap_injective", "new_table_params_wf"]] + [
    "UrcuVerif.Lfht.Resize.inv_reach", "UrcuVerif.Lfht.Resize.invA_step", "UrcuVerif.Lfht.Resize.invD_step",
    "UrcuVerif.Lfht.Resize.invL_step", "UrcuVerif.Lfht.Resize.mu_decreases",
    "UrcuVerif.Lfht.Resize.min_table_size_eq", "UrcuVerif.Lfht.Resize.chain_len_target_eq",
    "UrcuVerif.Lfht.Resize.min_partition_eq", "UrcuVerif.Lfht.Mm.max_chunk_table_eq"]
UNPROVED = ["(none about this component's model) 'every node present before a resize is found afterwards / during it' is proved on the "
            "sibling models and audited here as well: sequentially UrcuVerif.Lfht.Seq.resize_preserves_contents (C08), concurrently "
            "UrcuVerif.Lfht.Conc.resident_found / resident_found_traversal / grow_before_publish / reclaim_safe (C05, C07); the tie of "
            "the concurrent part is the shared lfht batch (concurrent_part)"]
SIBLING = ["UrcuVerif.Lfht.Seq.resize_preserves_contents", "UrcuVerif.Lfht.Conc.resident_found", "UrcuVerif.Lfht.Conc.resident_found_traversal",
           "UrcuVerif.Lfht.Conc.grow_before_publish", "UrcuVerif.Lfht.Conc.reclaim_safe"]
AUDIT = ["UrcuVerif.Lfht.Resize", "UrcuVerif.Lfht.Mm", "UrcuVerif.Lfht.ResizeLemmas", "UrcuVerif.Lfht.ResizeLemmasTs",
         "UrcuVerif.Lfht.ResizeLemmasMm", "UrcuVerif.Props.C09", "UrcuVerif.Machine"]
TRUSTED = [
    "Lean 4.33 kernel; axioms ⊆ {propext, Classical.choice, Quot.sound}",
    "grace periods abstracted by a counter (synchronize_rcu = C01's guarantee); readers/lookups during a resize are C05/C07's "
    "subject, here only the order of allocate / populate / publish / unpublish / remove / free events is proved",
    "API contract of cds_lfht_destroy as in its header comment: no concurrent reader or writer, table empty",
    "memory allocation and thread creation succeed except the modelled EAGAIN / calloc-failure fall-backs of partition_resize_helper",
    "64-bit unsigned long; max_nr_buckets a power of two ≤ 2^63 (enforced by _cds_lfht_new_with_alloc)",
    "tie: harness/scen/lfht_resize.c (pthread_create / urcu_workqueue_queue_work macro shims, wrapping mm plug-in, recording "
    "cds_lfht_alloc, wrapping flavor) + Driver/LfhtResize.lean; agreement is shown on the inputs run",
    "sequential consistency in the transition system (all shared accesses are atomic loads/stores/RMW on x86-TSO; "
    "the store→load orders the algorithm relies on carry explicit cmm_smp_mb / cmpxchg)",
]
SRCS = ["rculfhash-mm-order.c", "rculfhash-mm-chunk.c", "rculfhash-mm-mmap.c", "workqueue.c", "compat_arch.c", "compat_futex.c",
        "urcu.c", "urcu-pointer.c"]
DRV = os.path.join(vlib.LEAN, ".lake", "build", "bin", "drv_lfhtresize")
NONTRIV = ["resize_grow", "resize_shrink", "req_nonpow2", "req_ulongmax", "req_above_max", "lc_shrink", "lc_shrink_refused_growing",
           "part_threads_and_leftover", "work_resize_cancelled", "cadd_exact_lazy", "cdel_lazy"]


def build():
    return vlib.cc("lfht_resize", [os.path.join(vlib.HARN, "scen", "lfht_resize.c")] + vlib.rsrc(*SRCS),
                   ["-DRCU_MEMBARRIER", "-w"])


def run_one(seed, tier, only=""):
    """returns (verdict, detail, driver summary) verdict in ok|diverge|oracle|crash"""
    args = [os.path.join(vlib.BUILD, "lfht_resize"), str(seed), tier] + ([only] if only else [])
    rc, out, err = vlib.sh2(args, timeout=600 if tier == "thorough" else 240)
    notes = [l for l in err.splitlines() if l.startswith("NOTE")]
    oracle = [l for l in err.splitlines() if l.startswith("ORACLE")]
    if rc not in (0, 3):
        return "crash", {"cmd": args, "rc": rc, "stderr": err[-800:], "last_line": out.strip().splitlines()[-1:] }, "", notes
    drc, dout = vlib.sh([DRV], inp=out.encode(), timeout=300)
    if rc == 3 or oracle:
        return "oracle", {"cmd": args, "oracle": oracle[:6], "driver": dout.strip().splitlines()[:1]}, dout, notes
    if drc != 0:
        return "diverge", {"cmd": args, "driver": [l[:600] for l in dout.strip().splitlines()[:1]]}, dout, notes
    return "ok", {"cmd": args, "lines": len(out.splitlines())}, dout, notes


def cov_of(dout):
    res = {}
    for x in dout.split()[2:]:
        if "=" in x:
            k, v = x.split("=", 1)
            if v.isdigit():
                res[k] = int(v)
    return res


def run(chk):
    _run_seq(chk)
    if not chk.violations:
        concurrent_part(chk)
    if not chk.violations:
        # the work queue that carries the lazy resize / destroy work: own model + theorems + tie (props/wq.py)
        from props import wq
        wq.part(chk)


def _run_seq(chk):
    chk.assumptions = TRUSTED
    chk.cov["trusted_base"] = TRUSTED
    chk.cov["unproved_full_statements"] = UNPROVED
    proved = chk.proof_part(["UrcuVerif.Props.C09", "UrcuVerif.Props.C08", "UrcuVerif.Props.C05", "UrcuVerif.Props.C07", "drv_lfhtresize"],
                            ["UrcuVerif.Props.C09", "UrcuVerif.Props.C08", "UrcuVerif.Props.C05", "UrcuVerif.Props.C07"],
                            THEOREMS + SIBLING, AUDIT, unproved=UNPROVED)
    ok, log = build()
    if not ok:
        chk.fail("build", {"theorem": "harness/scen/lfht_resize.c does not compile against /repo", "lean_error": log[-2000:]}, nofail=True)
        return
    have_driver = os.path.exists(DRV)
    if not proved and not have_driver:
        return
    nseeds = 16 if chk.tier == "quick" else 150
    tier = "quick" if chk.tier == "quick" else "thorough"
    hist = {}
    nontriv = set()
    bad = None
    notes = set()
    for k in range(nseeds):
        sd = chk.seed * 1000 + k
        v, d, dout, nts = run_one(sd, tier if k % 4 == 0 or chk.tier == "quick" else "quick")
        notes.update(nts)
        chk.cov["evaluations"] += 1
        if v == "ok":
            cov = cov_of(dout)
            for kk, vv in cov.items():
                hist[kk] = hist.get(kk, 0) + vv
            if all(cov.get(t, 0) > 0 for t in NONTRIV):
                nontriv.add(dout)
            if k < 2:
                chk.sample({"seed": sd, "lines": d["lines"], "driver": dout.strip()[:700]})
        else:
            bad = (v, d)
            break
    chk.cov["traces_validated_against_impl"] = chk.cov["evaluations"]
    chk.cov["distinct_nontrivial"] = len(nontriv)
    chk.cov["branch_histogram"] = hist
    chk.cov["rule"] = ("per seed one harness run: directed requests {3,1,2,5,6,7,0,64,65,63,33,4,ULONG_MAX,2^63,…} on 1-bucket tables of "
                       "each allocator, random grow/shrink/add/del sequences (max 2^1..2^12), helper differentials (count order, "
                       "resize_target_update_count over max ∈ powers of two × req ∈ {0..9,2^k,2^k±1,ULONG_MAX,random}), allocator "
                       "parameters + bucket_at, partition_resize_helper over nr_cpus_mask ∈ {-2,0,1,3,7,15,63} × len × creation-failure "
                       "point × calloc failure, lazy grow/count/counters/check_resize on real table headers, 65536-bucket tables "
                       "(multi-threaded populate/remove), AUTO_RESIZE|ACCOUNTING table driven to 131072 buckets and back by the node "
                       "counter, destroy behind queued resize work (captured FIFO and real work queue), concurrent exploration; "
                       "non-trivial = run contains grow, shrink, non-power-of-two / ULONG_MAX / above-max requests, lazy shrink stored "
                       "and refused, partition with leftovers, cancelled resize work, counter-driven grow and shrink; distinct = "
                       "different driver coverage summary")
    if notes:
        chk.notes.extend(sorted(notes))
    if bad:
        v, d = bad
        if v == "oracle":
            chk.fail("input", dict(d, scenario="lfht_resize", what="implementation oracle: " + "; ".join(d["oracle"])))
        elif v == "crash":
            chk.fail("input", dict(d, scenario="lfht_resize", what="harness crashed / timed out running the real code"))
        else:
            # correspondence broken: look for a concrete failing input with the oracles on more runs
            found = None
            for k in range(12 if chk.tier == "quick" else 60):
                sd = chk.seed * 1000 + 500 + k
                v2, d2, _, _ = run_one(sd, "thorough" if k % 3 == 0 else "quick")
                if v2 in ("oracle", "crash"):
                    found = d2
                    break
            if found:
                chk.fail("input", dict(found, scenario="lfht_resize", first_divergence=d,
                                       what="implementation oracle: " + "; ".join(found.get("oracle", [found.get("stderr", "")]))))
            else:
                chk.fail("divergence", dict(d, scenario="lfht_resize", correspondence="Driver/LfhtResize.lean vs src/rculfhash.c",
                                            what="implementation no longer behaves as a run of the proven model"), nofail=True)


def replay(rp):
    if rp.get("scenario") == "lfht_conc":
        from props import c05
        return c05.replay(rp)
    if rp.get("scenario") == "wq":
        from props import wq
        return wq.replay(rp)
    ok, log = build()
    if not ok:
        print(log)
        return 2
    if "cmd" in rp:
        args = [os.path.join(vlib.BUILD, "lfht_resize")] + [str(x) for x in rp["cmd"][1:]]
        rc, out, err = vlib.sh2(args, timeout=600)
        drc, dout = vlib.sh([DRV], inp=out.encode(), timeout=300)
        print(err[-3000:])
        print("\n".join(l[:1000] for l in dout.splitlines()[:3]))
        return 1 if (rc != 0 or drc != 0) else 0
    print(json.dumps(rp, indent=1))
    return 1


RESIZE_CONFIGS = ("sweep/grow", "sweep/shrink", "sweep/populate", "sweep/remove", "auto/", "mix/", "init/")
OWN_CONC = {"resident", "quarantine", "gp", "abort"}


def concurrent_part(chk):
    """'every node present before a resize is still found afterwards', with the resize running CONCURRENTLY with lookups and
    updates: the schedules of the concurrent hash-table tie (props/c05.py; shared, cached batch) whose configuration resizes the
    table, judged by the oracles that a resize can break (a resident node not found, a freed level / node touched, the
    library's own assertions).  Divergences of that tie are reported by C05-C07, not here."""
    try:
        from props import c05
    except ImportError:
        return
    b = c05.batch(chk.seed, chk.tier)
    if "build_error" in b:
        chk.notes.append("concurrent part: harness/scen/lfht_conc.c does not build: " + b["build_error"][-300:])
        return
    rs = [r for r in b["results"] if any(r.get("config", "").startswith(c) for c in RESIZE_CONFIGS)]
    bad = [r for r in rs if r["verdict"] == "oracle" and any(k in OWN_CONC for k in r.get("kinds", []))]
    chk.cov["concurrent_resize_runs"] = {"schedules": len(rs), "failing": len(bad), "shared_batch_key": b.get("key"),
                                         "reused_cached_runs": bool(b.get("cached"))}
    chk.cov["evaluations"] += len(rs)
    if bad:
        f = bad[0]
        chk.fail("schedule", dict(c05._slim(f), scenario="lfht_conc", what="implementation oracle (resize concurrent with lookups / updates): " +
                                  "; ".join(c05._own_first(f, OWN_CONC)), failing_runs=len(bad)))
