"""C06 — cds_lfht: unique adds never expose duplicate keys; replace is atomic.  DESIGN.md §4 C06.
Model, tie, shared batch of runs: see props/c05.py.  Own oracle kind: dupkey (no lookup + next_duplicate walk or
first/next traversal returns two nodes of a unique-only key or one node twice; add_unique inserts only when the key was
not continuously present and otherwise returns a node of that key that was not removed before the call; add_replace
without a replaced node only when the key was not continuously present; every returned node has the key asked for).
replabsent: a lookup misses a continuously present key while a replace / add_replace of that key is in progress
(the resident monitor of C05 restricted to keys under replacement); replowner: a replaced node is handed to two callers
(the owner monitor of C07 restricted to obtains through replace / add_replace)."""
from props import c05


def run(chk):
    c05.run_prop(chk, "C06", "C06", c05.THEOREMS06, c05.UNPROVED06, c05.OWN06,
                 "own oracles: dupkey (walks / traversals never return two nodes of a unique-only key, add_unique winner / returned-node "
                 "rule, add_replace inserts without replacing only when the key was possibly absent), replabsent (a key continuously "
                 "present while being replaced is found by every lookup) and replowner (a replaced node is handed to exactly one caller); non-trivial = the run contains a losing add_unique, an add_replace that replaced or retried, a failed replace "
                 "cmpxchg or a replace that lost against a removal; distinct = different (configuration, driver coverage summary)")


def replay(rp):
    return c05.replay(rp)
