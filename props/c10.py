"""C10 — wait-free queues are FIFO (cds_wfcq and the legacy cds_wfq); also the wfcqueue facets of C17
(`c17_part(chk)`, used by the aggregated C17 check).  DESIGN.md §4 C10 / C17.

Proof part: Lean models Wfq/Model.lean (legacy queue, invariant Wfq/Inv.lean + Step.lean) and Wfcq/Model.lean (x86-TSO, two queues, splice both ways, iteration, any number of threads,
node re-use; consumer role = mutex or single consumer) with the inductive invariant (Wfcq/Inv.lean, Step1..6.lean:
one lemma per label), the refinement to the sequential two-queue FIFO (Wfcq/Fifo.lean, Hist.lean) and the theorems
of Props/C10.lean and Props/C17Wfcq.lean; necessity witnesses in Wfcq/Neg.lean.
Tie: harness/scen/wfcq.c and wfq.c compile the REAL src/wfcqueue.c / src/wfqueue.c (+ static headers) under the
macro shim; every trace is replayed by Driver/Wfcq.lean (event-level transliteration of the C text, L1) on the
proven model (L2; for the legacy queue on the executable model Wfq/Model.lean); independent C oracles (reference
FIFO updated at the tail exchanges) check FIFO order, return values, NULL/empty answers, splice, iteration and
conservation on the recorded history.
"""
import concurrent.futures
import os
import re
import tempfile

import vlib

T10 = "UrcuVerif.C10."
THEOREMS = [T10 + x for x in (
    "wfcq_refines_fifo", "wfcq_history_exists", "each_node_dequeued_once", "dequeue_order", "state_LAST_correct",
    "enqueue_ret_consistent", "empty_consistent", "dequeue_null_iff_empty_at_some_instant", "null_only_from_empty",
    "splice_moves_all_in_order_and_empties_source", "iteration_exact", "neg_no_wait_loses_node", "neg_empty_head_only",
    "neg_splice_no_tail_reset", "wfq_is_fifo", "wfq_each_node_once",
    "wfq_refines_fifo", "wfq_history_valid", "wfq_each_node_dequeued_once", "wfq_dequeue_order", "wfq_null_only_when_empty",
    "neg_wfq_stale_dummy_next", "C10_full_holds")] + [
    "UrcuVerif.Wfcq.inv_step", "UrcuVerif.Wfcq.inv_reach", "UrcuVerif.Wfcq.step_refines", "UrcuVerif.Wfcq.hist_valid",
    "UrcuVerif.Wfcq.rep_reach", "UrcuVerif.Wfcq.pndPc_reach", "UrcuVerif.Wfcq.Spec.conservation",
    "UrcuVerif.Wfq.inv_step", "UrcuVerif.Wfq.inv_reach", "UrcuVerif.Wfq.step_refines", "UrcuVerif.Wfq.step_refines_ev",
    "UrcuVerif.Wfq.hist_valid", "UrcuVerif.Wfq.Spec.conservation", "UrcuVerif.Wfq.Spec.fifo_order"]
UNPROVED = ["(no unproved Lean statement: UrcuVerif.C10.C10_full is proved as C10_full_holds; NOT a Lean statement and only checked "
            "on the explored schedules: the event-level correspondence L1 ⊑ L2 between the C text and the models)"]
T17 = "UrcuVerif.C17Wfcq."
THEOREMS17 = [T17 + x for x in (
    "enqueue_wait_free", "enqueue_bound_producer", "others_cannot_delay", "nonblocking_never_waits",
    "wouldblock_only_if_inflight", "wouldblock_changes_nothing", "wouldblock_restores_head", "blocking_sync_waits",
    "nonblocking_quiet_succeeds")] + ["UrcuVerif.Wfcq.syncKnows_reach", "UrcuVerif.Wfcq.bufLe1_reach"]
AUDIT_MODS = ["UrcuVerif.Wfcq", "UrcuVerif.Wfq", "UrcuVerif.Props.C10", "UrcuVerif.Props.C17Wfcq", "UrcuVerif.Machine"]
TRUSTED = ["Lean 4.33 kernel; axioms ⊆ {propext, Classical.choice, Quot.sound}",
           "x86-TSO abstract machine: per-thread FIFO store buffers for every plain/release store to a `next` field (the trailing "
           "link store of ___cds_wfcq_append, the dequeuer's stores to head->node.next), flush = environment step, xchg / cmpxchg / "
           "mutex operations act on memory atomically and need an empty own buffer; loads read the own buffer first; `tail.p` is only "
           "written by locked instructions; node->next = NULL initialisation is folded into the publishing xchg (it drains it)",
           "API contracts as guards of the model: a node is enqueued only while it is in no queue and no store to it is in flight; "
           "dequeue / first / next / splice-as-source only under the queue's consumer role (mutex or single consumer); next(node) only on a "
           "queued node; splice needs distinct queues.  Two queues, any number of threads; memory allocation is outside the model",
           "tie: Driver/Wfcq.lean event-level transliteration of the C text (L1) replayed on the proven model (L2) on the explored "
           "schedules only (cooperative SC scheduler; TSO delays are quantified in the theorems, not in the harness); harness/rt runtime + "
           "macro shim; plain accesses (node->next = NULL in cds_wfcq_node_init, q->head of the legacy queue) are not traced: their values "
           "are checked through the later atomic loads",
           "legacy cds_wfq: TSO model Wfq/Model.lean (q->head is a consumer-private plain variable; the plain dummy.next = NULL "
           "re-initialisation is folded into the re-enqueue's xchg, which drains it), tied the same way",
           "blocking operations are not claimed wait-free; weaker memory models than x86-TSO are out of scope"]
OWN10 = {"fifo", "null", "retval", "dup", "lost", "conserve", "splice", "iter", "dummy", "DEADLOCK", "BUDGET", "SELFLOCK", "BADUNLOCK"}
OWN17 = {"progress", "wouldblock", "DEADLOCK", "BUDGET"}

RT = os.path.join(vlib.HARN, "rt")
SCEN = os.path.join(vlib.HARN, "scen")
BIN = os.path.join(vlib.LEAN, ".lake", "build", "bin")
DRV = "drv_wfcq"

# (name, binary, extra args, description)
CONFIGS = [
    ("wfcq/locked", "wfcq", ["--cons", "2"], "cds_wfcq, dequeue lock (2 consumers: self-locking wrappers and lock + __cds_wfcq_*)"),
    ("wfcq/single", "wfcq", ["--single"], "cds_wfcq, single consumer, no lock"),
    ("wfcq/locked/no-legacy-mb", "wfcq_nl", ["--cons", "2"], "cds_wfcq built without CONFIG_RCU_EMIT_LEGACY_MB"),
    ("wfq/locked", "wfq", ["--cons", "2"], "legacy cds_wfq, internal mutex"),
    ("wfq/single", "wfq", ["--single"], "legacy cds_wfq, single consumer"),
]
# branches that must be exercised by the quick tier (coverage is part of the verdict)
REQUIRED = {
    "wfcq": ["enq_empty", "enq_nonempty", "empty_true", "empty_head_nonnull", "empty_tail_moved", "deq_empty", "deq_not_last",
             "deq_last_cas_ok", "deq_last_cas_failed", "deq_wb_head", "deq_wb_restore", "sync_wouldblock", "busy_relax",
             "splice_src_empty_fast", "splice_dest_empty", "splice_dest_nonempty", "splice_wouldblock",
             "ret_first_node", "ret_first_null", "next_fast", "next_end", "next_sync", "ret_deq_null", "ret_deq_node",
             "ret_deq_last", "ret_deq_wb"],
    "wfq": ["wfq_enq", "wfq_deq_node", "wfq_deq_empty", "wfq_requeue_dummy", "wfq_sync_relax"],
}
NONTRIVIAL = ("deq_last_cas_failed", "deq_wb_head", "deq_wb_restore", "sync_wouldblock", "busy_relax", "busy_poll", "next_sync",
              "splice_wouldblock", "empty_tail_moved", "wfq_sync_relax", "wfq_sync_poll")


def build():
    vrt = os.path.join(RT, "vrt.c")
    ok, log = vlib.cc("wfcq", [os.path.join(SCEN, "wfcq.c"), vrt], ["-w"])
    if not ok:
        return False, log
    ok, log = vlib.cc("wfcq_nl", [os.path.join(SCEN, "wfcq.c"), vrt], ["-w", "-DNO_LEGACY_MB"])
    if not ok:
        return False, log
    return vlib.cc("wfq", [os.path.join(SCEN, "wfq.c"), vrt], ["-w"])


def one(cfg, seed, enq, eops, cops, nodes, extra=()):
    """Run one schedule; returns dict(verdict=ok|diverge|oracle|crash, ...)."""
    name, binary, bargs, _ = cfg
    fd, tpath = tempfile.mkstemp(prefix="c10_", suffix=".trace", dir=vlib.BUILD)
    os.close(fd)
    args = [os.path.join(vlib.BUILD, binary)] + bargs + ["--seed", str(seed), "--enq", str(enq), "--eops", str(eops),
                                                        "--cops", str(cops), "--nodes", str(nodes)] + list(extra)
    if binary == "wfq":
        args = [a for a in args if a != "--c17"]
    res = {"config": name, "cmd": args, "scenario": "queue"}
    try:
        rc, out, err = vlib.sh2(args + ["--trace", tpath], timeout=120)
        res["rc"] = rc
        kinds = re.findall(r"ORACLE (\w+)", err)
        try:
            with open(tpath, "rb") as f:
                trace = f.read()
        except OSError:
            trace = b""
        if rc not in (0, 3, 4, 5):
            res.update(verdict="crash", stderr=err[-600:])
            return res
        drc, dout = vlib.sh([os.path.join(BIN, DRV)], inp=trace, timeout=300)
        res["driver"] = dout.strip().splitlines()[:2]
        res["events"] = trace.count(b"\n")
        if kinds:
            res.update(verdict="oracle", kinds=kinds, oracle=[l for l in err.strip().splitlines() if "ORACLE" in l][:4])
        elif drc != 0:
            res.update(verdict="diverge")
        else:
            res.update(verdict="ok")
            res["cov"] = dict((k, int(v)) for k, v in (x.split("=") for x in dout.split()[2:] if "=" in x))
        return res
    finally:
        for p in (tpath, tpath + ".choices"):
            try:
                os.unlink(p)
            except OSError:
                pass


def plan(rng, k, c17):
    """scenario parameters + strategy of run k"""
    enq = 1 + k % 4
    eops = rng.choice([4, 6, 9])
    cops = rng.choice([8, 12, 18])
    nodes = rng.choice([2, 3, 5, 8]) if k % 3 else rng.choice([1, 4, 16])
    extra = []
    if k % 5 == 3:
        extra += ["--strategy", "pct", "--pctd", str(1 + k % 4), "--pctlen", str(rng.choice([150, 400]))]
    else:
        extra += ["--pswitch", str(rng.choice([3, 8, 20, 35, 60, 85]))]
    if k % 2:
        extra += ["--park", str(rng.choice([15, 40, 80]))]     # enqueuers suspended between xchg and store
    if c17:
        extra += ["--c17"]
    return enq, eops, cops, nodes, extra


def jobs_random(chk, n, c17, seed_base=0, configs=None):
    js = []
    for cfg in (configs or CONFIGS):
        if c17 and cfg[1] == "wfq":
            continue
        for k in range(n):
            enq, eops, cops, nodes, extra = plan(chk.rng, k, c17)
            js.append((cfg, chk.seed * 100000 + seed_base + k, enq, eops, cops, nodes, extra))
    return js


def jobs_sweep(chk, stride, lens=(2, 7, 25)):
    """systematic one-preemption sweep on small scenarios: non-preemptive base schedule (enqueuers have the low tids and run
    first) + ONE forced preemption of `len` steps to the consumer at global step N, for every N of the base run – in
    particular every position inside the xchg -> store window of every enqueue and of the splice's append."""
    js = []
    for cfg in CONFIGS:
        if cfg[0] in ("wfcq/locked/no-legacy-mb",):
            continue
        base = ["--strategy", "sweep"]
        enq, eops, cops, nodes = 2, 3, 8, 4
        r = one(cfg, chk.seed, enq, eops, cops, nodes, base)
        steps = min(r.get("events", 0), 240)
        cons = [enq + 1, enq + 2] if "--cons" in cfg[2] else [enq + 1]
        for n in range(1, max(2, steps), stride):
            for tid in cons:
                for ln in lens:
                    js.append((cfg, chk.seed, enq, eops, cops, nodes,
                               base + ["--preempt-at", str(n), "--preempt-tid", str(tid), "--preempt-len", str(ln)]))
    return js


def run_jobs(js, stop_after=3):
    results, fails = [], []
    with concurrent.futures.ThreadPoolExecutor(max_workers=max(2, vlib.NCPU // 2)) as ex:
        futs = [ex.submit(one, *j) for j in js]
        for f in futs:
            r = f.result()
            results.append(r)
            if r["verdict"] != "ok":
                fails.append(r)
    fails.sort(key=lambda r: 0 if r["verdict"] == "oracle" else 1)
    return results, fails[:max(stop_after, 1) * 4]


def record(chk, results):
    hist = chk.cov.setdefault("branch_histogram", {})
    per_cfg = chk.cov.setdefault("runs_per_config", {})
    nontriv = chk.cov.setdefault("_nontriv", set())
    for r in results:
        chk.cov["evaluations"] += 1
        per_cfg[r["config"]] = per_cfg.get(r["config"], 0) + 1
        if r["verdict"] != "ok":
            continue
        chk.cov["traces_validated_against_impl"] = chk.cov.get("traces_validated_against_impl", 0) + 1
        chk.cov["events_compared"] = chk.cov.get("events_compared", 0) + r["events"]
        fam = "wfq" if r["config"].startswith("wfq") else "wfcq"
        for k, v in r["cov"].items():
            if k.startswith("K_"):
                hist[fam + "." + k] = max(hist.get(fam + "." + k, 0), v)
            else:
                hist[fam + "." + k] = hist.get(fam + "." + k, 0) + v
        if any(r["cov"].get(k, 0) for k in NONTRIVIAL):
            nontriv.add((r["config"], r["driver"][0]))
        if len(chk.cov["samples"]) < 6 and any(r["cov"].get(k, 0) for k in ("deq_wb_restore", "splice_wouldblock", "wfq_requeue_dummy")):
            chk.sample({"config": r["config"], "cmd": " ".join(r["cmd"][1:]), "driver": r["driver"][0][:300]})
    chk.cov["distinct_nontrivial"] = len(nontriv)


def finish_cov(chk, what, fams=("wfcq", "wfq")):
    chk.cov.pop("_nontriv", None)
    hist = chk.cov.get("branch_histogram", {})
    missing = [fam + "." + k for fam in fams for k in REQUIRED[fam] if not hist.get(fam + "." + k)]
    chk.cov["required_branches_missing"] = missing
    if missing:
        chk.notes.append("coverage: branches not exercised in this run: " + ", ".join(missing))
    chk.cov["rule"] = (what + ": schedules of harness/scen/wfcq.c and wfq.c (the real src/wfcqueue.c, src/wfqueue.c and their static "
                       "headers under the shim; 1-4 enqueuers on two queues incl. enqueuers parked between the tail xchg and the link store, "
                       "1-2 consumers doing dequeue (blocking / non-blocking, with and without state, self-locking wrappers), splice in both "
                       "directions (blocking / non-blocking), first/next iteration, empty(); 1-16 recycled nodes) for 5 configurations (wfcq "
                       "locked | single consumer | built without legacy memory barriers; legacy wfq locked | single consumer), drawn from "
                       "VERIF_SEED with random walk (several switch probabilities), PCT, and the systematic one-preemption sweep (every "
                       "position of the base schedule incl. every xchg->store window, 3 preemption lengths); every event replayed on the model "
                       "by Driver/Wfcq.lean, history checked by the independent C oracle; non-trivial = the run contains a real interference "
                       "(failed tail cmpxchg, WOULDBLOCK, busy-wait on an in-flight enqueue, emptiness decided by the tail); distinct = "
                       "different (configuration, driver coverage summary)")


def own_fail(fails, own):
    for f in fails:
        if f["verdict"] == "oracle" and any(k in own for k in f["kinds"]):
            return f
    return None


def report(chk, fails, own, search):
    if not fails:
        return
    f = own_fail(fails, own)
    if f:
        chk.fail("schedule", dict(f, what="implementation oracle: " + "; ".join(f["oracle"])))
        return
    found = search() if search else None
    if found:
        chk.fail("schedule", dict(found, what="implementation oracle: " + "; ".join(found["oracle"]),
                                  first_divergence=fails[0].get("driver")))
        return
    crash = [x for x in fails if x["verdict"] == "crash"]
    f = (crash or fails)[0]
    chk.fail("divergence" if f["verdict"] != "crash" else "crash",
             dict(f, correspondence="Driver/Wfcq.lean vs src/wfcqueue.c, src/wfqueue.c + include/urcu/static/{wfcqueue,wfqueue}.h",
                  what="the implementation is no longer a run of the proven model (or fails an oracle owned by another property: %s)"
                       % ",".join(sorted(set(sum([x.get("kinds", []) for x in fails], []))))), nofail=True)


def searcher(chk, own, c17, n):
    def go():
        js = jobs_random(chk, n, c17, seed_base=50000) + ([] if c17 else jobs_sweep(chk, 1))
        with concurrent.futures.ThreadPoolExecutor(max_workers=max(2, vlib.NCPU // 2)) as ex:
            for r in ex.map(lambda j: one(*j), js):
                if r["verdict"] == "oracle" and any(k in own for k in r["kinds"]):
                    return r
        return None
    return go


def run(chk):
    chk.assumptions = TRUSTED
    chk.cov["trusted_base"] = TRUSTED
    chk.proof_part(["UrcuVerif.Props.C10", DRV], "UrcuVerif.Props.C10", THEOREMS, AUDIT_MODS, unproved=UNPROVED)
    ok, log = build()
    if not ok:
        chk.fail("build", {"theorem": "harness/scen/wfcq.c / wfq.c do not compile against /repo", "lean_error": log[-2000:]}, nofail=True)
        return
    quick = chk.tier == "quick"
    results, fails = run_jobs(jobs_random(chk, 60 if quick else 2500, False))
    record(chk, results)
    if not fails:
        results, fails = run_jobs(jobs_sweep(chk, 2 if quick else 1, (2, 7, 25) if quick else (1, 2, 4, 7, 12, 25, 60)))
        record(chk, results)
        chk.cov["sweep_runs"] = len(results)
    finish_cov(chk, "C10")
    report(chk, fails, OWN10, searcher(chk, OWN10, False, 150 if quick else 1500))


def c17_part(chk):
    """wfcqueue facets of C17: proof part of Props/C17Wfcq.lean + freeze / solo-run scenarios (--c17).
    Returns the list of failing results (already reported through chk)."""
    chk.proof_part(["UrcuVerif.Props.C17Wfcq", DRV], "UrcuVerif.Props.C17Wfcq", THEOREMS17, AUDIT_MODS)
    ok, log = build()
    if not ok:
        chk.fail("build", {"theorem": "harness/scen/wfcq.c does not compile against /repo", "lean_error": log[-2000:]}, nofail=True)
        return []
    quick = chk.tier == "quick"
    results, fails = run_jobs(jobs_random(chk, 30 if quick else 1500, True, seed_base=20000))
    record(chk, results)
    hist = chk.cov.get("branch_histogram", {})
    chk.cov["wfcq_solo_bounds"] = {
        "measured_max_own_primitives": dict((k[len("wfcq.K_"):-len("_max")], v) for k, v in hist.items() if k.startswith("wfcq.K_")),
        "harness_bounds": {"enq": "2 (+1 legacy mb)", "empty": 2, "deq_nb": "8 (+1)", "splice_nb": "8 (+1)", "iter_nb": "per first/next call <= 3"},
        "unit": "own scheduling points (shimmed primitives) with all other threads frozen, zero spin hints; model bounds: enqueue "
                "|own buffer| + 3 (<= 4 for a producer), non-blocking operations 11 + |own buffer| own steps"}
    report(chk, fails, OWN17, searcher(chk, OWN17, True, 100 if quick else 1000))
    return fails


def replay(rp):
    ok, log = build()
    if not ok:
        print(log)
        return 2
    if "cmd" not in rp:
        import json
        print(json.dumps(rp, indent=1))
        return 1
    fd, tpath = tempfile.mkstemp(prefix="c10_replay_", suffix=".trace", dir=vlib.BUILD)
    os.close(fd)
    args = [os.path.join(vlib.BUILD, os.path.basename(rp["cmd"][0]))] + [str(x) for x in rp["cmd"][1:]] + ["--trace", tpath]
    rc, out, err = vlib.sh2(args, timeout=120)
    with open(tpath, "rb") as f:
        trace = f.read()
    drc, dout = vlib.sh([os.path.join(BIN, DRV)], inp=trace, timeout=300)
    print(err.strip())
    print(dout.strip())
    print("trace kept at", tpath)
    return 1 if (rc != 0 or drc != 0) else 0


def src_search(chk):
    """a refinement theorem of the source-translator tie broke: wider search for a concrete failing schedule"""
    return searcher(chk, OWN10, False, 400 if chk.tier == "quick" else 4000)()
