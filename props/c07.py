"""C07 — cds_lfht: a removed node has exactly one owner and is unreachable after a grace period.  DESIGN.md §4 C07.
Model, tie, shared batch of runs: see props/c05.py.  Own oracle kinds: owner (at most one del / replace / add_replace
obtains a node, exactly one once every del that passed the REMOVED test has completed; every node is either in the
table or owned at the end; other del / replace results are -ENOENT), quarantine (removed nodes are poisoned one grace
period after their owner's call returned and kept forever; bucket tables freed by a shrink and the table freed by
destroy are poisoned by the recording allocator: any later access follows 0x4242… and faults) and gp (the real
synchronize_rcu() never returns while a section begun before the call is open: the interface the model's abstract
grace period is composed with)."""
from props import c05


def run(chk):
    c05.run_prop(chk, "C07", "C07", c05.THEOREMS07, c05.UNPROVED07, c05.OWN07,
                 "own oracles: owner, quarantine (nodes freed one grace period after the owner's call returned, bucket tables after a shrink, "
                 "ht after destroy: poisoned and kept) and gp; non-trivial = the run contains a del that lost the ownership race or found "
                 "the node already removed, a replace that lost, a failed / helped unlink or a freed bucket table; distinct = different "
                 "(configuration, driver coverage summary)")


def replay(rp):
    return c05.replay(rp)
